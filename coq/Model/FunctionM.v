(* MODEL of functions.Function / FunctionEvaluator: f[i, j](u). *)
From Coq Require Import QArith ZArith List Bool Arith Lia.
From NurbsV Require Import Base.Res Base.QList Model.KV Model.Basis.
Import ListNotations.
Open Scope Z_scope.

Inductive idx :=
| IInt (z : Z)
| ISlice (start stop step : option Z).

(* Python slice.indices(n) followed by range(start, stop, step) *)
Fixpoint zrange (fuel : nat) (i stop step : Z) : list Z :=
  match fuel with
  | O => []
  | S f => if (if 0 <? step then i <? stop else stop <? i)
           then i :: zrange f (i + step) stop step else []
  end.

Definition slice_indices (n : Z) (start stop step : option Z) : res (list Z) :=
  let st := match step with None => 1 | Some s => s end in
  if st =? 0 then Err ValueError else
  let lower := if 0 <? st then 0 else -1 in
  let upper := if 0 <? st then n else n - 1 in
  let clamp v := if v <? 0 then Z.max (v + n) lower else Z.min v upper in
  let a := match start with None => if 0 <? st then lower else upper | Some v => clamp v end in
  let b := match stop with None => if 0 <? st then upper else lower | Some v => clamp v end in
  Ok (zrange (Z.to_nat n + 1) a b st).

(* index validation of IndexableFunction.__getitem__ *)
Definition valid_first (n : nat) (i : idx) : res unit :=
  match i with
  | IInt z => if (- Z.of_nat n <=? z) && (z <? Z.of_nat n) then Ok tt else Err IndexError
  | ISlice _ _ _ => Ok tt
  end.
Definition valid_second (p : nat) (j : Z) : res nat :=
  if (0 <=? j) && (j <=? Z.of_nat p) then Ok (Z.to_nat j) else Err IndexError.

Definition select (n : nat) (i : idx) (row : list Q) : res (list Q) :=
  match i with
  | IInt z => let z' := if z <? 0 then z + Z.of_nat n else z in
              Ok [nth (Z.to_nat z') row 0%Q]
  | ISlice a b c =>
      do ix <- slice_indices (Z.of_nat n) a b c;
      Ok (map (fun z => nth (Z.to_nat z) row 0%Q) ix)
  end.

(* f[i, j](u): one value for an int index, the selected rows for a slice *)
Definition func_eval (k : kv) (W : option (list Q)) (i : idx) (j : Z) (u : Q) : res (list Q) :=
  do _ <- valid_first (knpts k) i;
  do jn <- valid_second (kdeg k) j;
  do r <- rbasis_row k W jn u;
  select (knpts k) i r.
