(* MODEL of the mutable facade knotspace.KnotVector as a state machine: every mutator builds
   a candidate, validates it, and only then rebinds the payload. *)
From Coq Require Import QArith List Bool Arith.
From NurbsV Require Import Base.Res Base.QList Spec.KnotSpec Gen.Consts Model.KV.
Import ListNotations.
Open Scope Q_scope.

Inductive kop :=
| OInsert (ns : list Q)          (* insert(ns), += list *)
| ORemove (ns : list Q)          (* remove(ns), -= list *)
| OShift (a : Q)                 (* shift(a), += a, -= (-a) *)
| OScale (s : Q)                 (* scale(s), *= s *)
| ODivide (s : Q)                (* /= s  = scale(1/s) *)
| ONormalize
| OConvertInt | OConvertFrac
| OSetDegree (d : nat)
| OIor (v : list Q) | OIand (v : list Q)
(* non-mutating: results are new vectors, the operand must stay as it is *)
| OOr (v : list Q) | OAnd (v : list Q) | OSplit (ns : list Q) | OCopy
| OPlus (ns : list Q) | OMinus (ns : list Q).

(* outcome: the vectors an operation returns (empty for in-place operations) *)
Definition kout := res (list (list Q * nat)).
Definition view (k : kv) : list Q * nat := (kvec k, kdeg k).

Definition inplace (k : kv) (r : res kv) : kv * kout :=
  match r with Ok k' => (k', Ok []) | Err e => (k, Err e) end.
Definition pure1 (k : kv) (r : res kv) : kv * kout :=
  match r with Ok k' => (k, Ok [view k']) | Err e => (k, Err e) end.

Definition kstep (k : kv) (o : kop) : kv * kout :=
  match o with
  | OInsert ns => inplace k (kinsert k ns)
  | ORemove ns => inplace k (kremove k ns)
  | OShift a => inplace k (kshift k a)
  | OScale s => inplace k (kscale k s)
  | ODivide s => if Qeqb s 0 then (k, Err ZeroDivisionError) else inplace k (kscale k (/ s))
  | ONormalize => inplace k (knormalize k)
  | OConvertInt => inplace k (kconvert_int k tol_mult)
  | OConvertFrac => (k, Ok [])
  | OSetDegree d => inplace k (kset_degree k d)
  | OIor v => inplace k (do o <- make v None; kor k o)
  | OIand v => inplace k (do o <- make v None; kand k o)
  | OOr v => pure1 k (do o <- make v None; kor k o)
  | OAnd v => pure1 k (do o <- make v None; kand k o)
  | OSplit ns => match ksplit k ns with Ok ks => (k, Ok (map view ks)) | Err e => (k, Err e) end
  | OCopy => (k, Ok [view k])
  | OPlus ns => pure1 k (kinsert k ns)
  | OMinus ns => pure1 k (kremove k ns)
  end.
