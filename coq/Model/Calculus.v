(* MODEL of calculus.Derivate for polynomial curves (heavy.Calculus.difference_matrix,
   derivate_nonrational_bezier / _spline).  Exact rationals; the library computes the spline difference
   quotients in float64, so the correspondence compares within a tolerance. *)
From Coq Require Import QArith List Bool Arith.
From NurbsV Require Import Base.Res Base.QList Spec.KnotSpec Gen.Consts Model.KV Model.Basis Model.CurveM Model.Ops
  Model.CurveOps Model.Linalg Model.Quadrature Model.LeastSq Model.CurveLS.
Import ListNotations.
Open Scope Q_scope.

Definition vsubp (a b : pt) : pt := map2 (fun x y => Qred (x - y)) a b.

(* Q_{i-1} = a_i (P_i - P_{i-1}),  a_i = p / (U[i+p] - U[i])  (0 when the difference vanishes), i = 1 .. n-1 *)
Definition difference_points (U : list Q) (p : nat) (P : list pt) : list pt :=
  map (fun i =>
         let diff := nthq U (i + p) - nthq U i in
         let a := if Qeqb diff 0 then 0 else inject_Z (Z.of_nat p) / diff in
         vscale a (vsubp (nth i P []) (nth (i - 1) P [])))
      (seq 1 (length P - 1)).

Definition c_derivate (c : curve) : res curve :=
  match cP c, cW c with
  | None, _ => Err AssertionError
  | Some _, Some _ => Err Uncertified                         (* rational: quotient rule through curve arithmetic *)
  | Some P, None =>
      let k := ckv c in let p := kdeg k in let U := kvec k in
      if Nat.eqb p 0 then
        do k0 <- make [kumin k; kumax k] None;
        Ok (mkcurve k0 (Some [vzero (pdim P)]) None)
      else if Nat.eqb (p + 1) (knpts k) then
        (* Bezier: differences scaled by p / (b - a), on the vector without its first and last entry, then clean() *)
        let h := last_q U - first_q U in
        let Q := map (fun i => vscale (inject_Z (Z.of_nat p) / h) (vsubp (nth (S i) P []) (nth i P []))) (seq 0 p) in
        do k1 <- make (removelast (tl U)) None;
        c_clean (mkcurve k1 (Some Q) None) tol_clean
      else
        let Q := difference_points U p P in
        (* one copy of every full-multiplicity interior knot goes away, with the control point it makes vanish *)
        let full := filter (fun x => Nat.eqb (kmult_raw U x) (p + 1)) (kknots k) in
        do k1 <- kremove k full;
        let keep := filter (fun iq : nat * pt => negb (Qeqb (nthq U (fst iq + 1 + p)) (nthq U (fst iq + 1))))
                           (combine (seq 0 (length Q)) Q) in
        if negb (Nat.eqb (length keep) (knpts k1)) then Err ValueError else
        Ok (mkcurve k1 (Some (map snd keep)) None)
  end.
