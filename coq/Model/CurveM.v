(* MODEL of curves.Curve: state and evaluation.  Control points are vectors of a fixed
   dimension (scalar control points are dimension 1). *)
From Coq Require Import QArith List Bool Arith Lia.
From NurbsV Require Import Base.Res Base.QList Model.KV Model.Basis.
Import ListNotations.
Open Scope Q_scope.

Record curve := mkcurve {
  ckv : kv;
  cP : option (list pt);
  cW : option (list Q)
}.

Definition cdeg (c : curve) := kdeg (ckv c).
Definition cnpts (c : curve) := knpts (ckv c).
Definition pdim (P : list pt) : nat := match P with [] => O | p :: _ => length p end.

(* sum_i r_i * P_i *)
Fixpoint lincomb (d : nat) (r : list Q) (P : list pt) : pt :=
  match r, P with
  | x :: r', p :: P' => vadd (vscale x p) (lincomb d r' P')
  | _, _ => vzero d
  end.

Definition curve_eval1 (c : curve) (u : Q) : res pt :=
  match cP c with
  | None => Err ValueError
  | Some P =>
      do r <- rbasis_row (ckv c) (cW c) (cdeg c) u;
      Ok (lincomb (pdim P) r P)
  end.

Definition curve_eval (c : curve) (us : list Q) : res (list pt) :=
  match cP c with
  | None => Err ValueError
  | Some _ => mapM (curve_eval1 c) us
  end.

Definition opt_eqb {A} (eqb : A -> A -> bool) (a b : option A) : bool :=
  match a, b with
  | None, None => true
  | Some x, Some y => eqb x y
  | _, _ => false
  end.
Definition curve_eqb (a b : curve) : bool :=
  kv_eqb (ckv a) (ckv b) && opt_eqb ptl_eqb (cP a) (cP b) && opt_eqb ql_eqb (cW a) (cW b).
