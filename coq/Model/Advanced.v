(* MODEL of advanced.Projection / advanced.Intersection on the piecewise-linear class (degree-1 curves with
   simple interior knots, planar or spatial points), where the Newton iterations of the library are exact after one
   step: the objective is quadratic on every piece.  Exact rationals; the library computes in float64, so the
   correspondence compares parameters within 1e-6. *)
From Coq Require Import QArith Qabs List Bool Arith.
From NurbsV Require Import Base.Res Base.QList Spec.KnotSpec Model.KV.
Import ListNotations.
Open Scope Q_scope.

Definition vsubq (a b : pt) : pt := map2 (fun x y => Qred (x - y)) a b.
Definition vdotq (a b : pt) : Q := dot a b.
Definition qclamp (lo hi x : Q) : Q := if Qltb x lo then lo else if Qltb hi x then hi else x.
Definition qmin_list (l : list Q) : Q := match l with [] => 0 | x :: t => fold_left (fun m y => if Qltb y m then y else m) t x end.

(* the pieces of a polyline: (u_k, u_{k+1}, P_k, P_{k+1}) *)
Fixpoint segments (ks : list Q) (P : list pt) : list (Q * Q * pt * pt) :=
  match ks, P with
  | a :: ((b :: _) as kt), p :: ((q :: _) as pt') => (a, b, p, q) :: segments kt pt'
  | _, _ => []
  end.

Definition seg_point (s : Q * Q * pt * pt) (u : Q) : pt :=
  let '(a, b, p, q) := s in
  let t := (u - a) / (b - a) in
  map2 (fun x y => Qred (x + t * (y - x))) p q.

(* parameter of the nearest point of one piece *)
Definition seg_project (s : Q * Q * pt * pt) (x : pt) : Q :=
  let '(a, b, p, q) := s in
  let d := vsubq q p in
  let dd := vdotq d d in
  if Qeqb dd 0 then a else
  qclamp a b (Qred (a + (b - a) * (vdotq (vsubq x p) d / dd))).

Definition dist2 (a b : pt) : Q := let d := vsubq a b in vdotq d d.

(* candidates of all pieces with their squared distances *)
Definition project_candidates (ks : list Q) (P : list pt) (x : pt) : list (Q * Q) :=
  map (fun s => let t := seg_project s x in (t, dist2 (seg_point s t) x)) (segments ks P).

(* exact minimisers (ties exact), sorted, without repeats *)
Definition project_polyline (ks : list Q) (P : list pt) (x : pt) : list Q :=
  let cs := project_candidates ks P x in
  let m := qmin_list (map snd cs) in
  dedupq (sortq (map fst (filter (fun c => Qeqb (snd c) m) cs))).

(* intersection of two planar segments: None when the supporting lines are parallel *)
Definition seg_intersect (s r : Q * Q * pt * pt) : option (Q * Q) :=
  let '(a, b, p, q) := s in let '(c, d, v, w) := r in
  let e := vsubq q p in let f := vsubq w v in
  let det := nth 0 e 0 * nth 1 f 0 - nth 1 e 0 * nth 0 f 0 in
  if Qeqb det 0 then None else
  let g := vsubq v p in
  let lam := (nth 0 g 0 * nth 1 f 0 - nth 1 g 0 * nth 0 f 0) / det in
  let mu := (nth 0 g 0 * nth 1 e 0 - nth 1 g 0 * nth 0 e 0) / det in
  if Qleb 0 lam && Qleb lam 1 && Qleb 0 mu && Qleb mu 1
  then Some (Qred (a + (b - a) * lam), Qred (c + (d - c) * mu)) else None.

Definition pair_eqb (x y : Q * Q) : bool := Qeqb (fst x) (fst y) && Qeqb (snd x) (snd y).
Fixpoint dedup_pairs (l : list (Q * Q)) : list (Q * Q) :=
  match l with
  | [] => []
  | x :: t => if existsb (pair_eqb x) t then dedup_pairs t else x :: dedup_pairs t
  end.

(* all meeting points of two planar polylines without parallel overlapping pieces *)
Definition intersect_polylines (ka : list Q) (Pa : list pt) (kb : list Q) (Pb : list pt) : list (Q * Q) :=
  dedup_pairs (concat (map (fun s => concat (map (fun r => match seg_intersect s r with Some x => [x] | None => [] end)
                                                  (segments kb Pb))) (segments ka Pa))).
