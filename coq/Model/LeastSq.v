(* MODEL of heavy.LeastSquare for polynomial splines (unit weights): Gram matrices by the composite
   Newton-Cotes rule with p+q+3 nodes on every span of the merged knots (which rule - closed or open - and
   whether the weights are scaled by the span length is read from the source: Gen/Consts.v), normal equations,
   bordered (interpolation-constrained) solve, error matrix; fit_function (discrete least squares). *)
From Coq Require Import QArith List Bool Arith.
From NurbsV Require Import Base.Res Base.QList Gen.Consts Model.KV Model.Basis Model.Ops Model.Linalg Model.Quadrature.
Import ListNotations.
Open Scope Q_scope.

Definition zeros (r c : nat) : mat := repeat (repeat 0 c) r.
(* acc + w * a b^T *)
Definition outer_acc (w : Q) (a b : list Q) (acc : mat) : mat :=
  map2 (fun ai row => map2 (fun bj x => Qred (x + w * ai * bj)) b row) a acc.

Record grams := mkgr { gFF : mat; gGF : mat; gGG : mat }.

Definition gram_span (kold knew : kv) (w x01 : list Q) (g : res grams) (se : Q * Q) : res grams :=
  do g0 <- g;
  let (s, e) := se in
  let h := e - s in
  let nodes := map (fun x => Qred (s + h * x)) x01 in
  do Fv <- mapM (basis_row kold (kdeg kold)) nodes;
  do Gv <- mapM (basis_row knew (kdeg knew)) nodes;
  Ok (fold_left (fun acc wfg =>
        let '(wk, f, gk) := wfg in
        let c := if ls_span_scaled then Qred (wk * h) else wk in
        mkgr (outer_acc c f f (gFF acc)) (outer_acc c gk f (gGF acc)) (outer_acc c gk gk (gGG acc)))
      (combine (combine w Fv) Gv) g0).

Definition grams_of (kold knew : kv) : res grams :=
  let allk := dedupq (sortq (kknots kold ++ kknots knew)) in
  let n := (kdeg kold + kdeg knew + ls_quad_extra)%nat in
  do w <- (if ls_rule_closed then closed_newton_cotes n else open_newton_cotes n);
  do x01 <- (if ls_rule_closed then closed_linspace n else open_linspace n);
  fold_left (gram_span kold knew w x01) (pairs allk)
            (Ok (mkgr (zeros (knpts kold) (knpts kold)) (zeros (knpts knew) (knpts kold))
                      (zeros (knpts knew) (knpts knew)))).

(* spline2spline(old, new, fit_nodes) -> (T, E) *)
Definition spline2spline (kold knew : kv) (fit : option (list Q)) : res (mat * mat) :=
  do _ <- match fit with
          | Some ns => if (knpts knew <? length ns)%nat then Err NotImplementedError else Ok tt
          | None => Ok tt
          end;
  do g <- grams_of kold knew;
  let FF := gFF g in let GF := gGF g in let GG := gGG g in
  do GGinv <- invert GG;
  match fit with
  | None =>
      let T := mmul GGinv GF in
      Ok (T, msub FF (mmul (mtrans GF) T))
  | Some ns =>
      do F <- mapM (basis_row kold (kdeg kold)) ns;
      do G <- mapM (basis_row knew (kdeg knew)) ns;
      let GT := mtrans_n (knpts knew) G in
      let LL := mmul G (mmul GGinv GT) in
      do LLinv <- invert LL;
      let LG := mmul LLinv (mmul G GGinv) in
      let QG := msub GGinv (mmul GGinv (mmul GT LG)) in
      let QF := mmul GGinv (mmul GT LLinv) in
      let T := madd (mmul QG GF) (mmul QF F) in
      let Tt := mtrans_n (knpts kold) T in
      let TGF := mmul Tt GF in
      let E := mscale (1#2) (madd (msub (msub FF TGF) (mtrans_n (knpts kold) TGF)) (mmul Tt (mmul GG T))) in
      Ok (T, E)
  end.

(* LeastSquare.fit_function(knotvector, nodes, weights): M with P = M * f(nodes) *)
Definition fit_function (k : kv) (nodes : list Q) (W : option (list Q)) : res mat :=
  if (length nodes <? knpts k)%nat then Err AssertionError else
  do rows <- mapM (rbasis_row k W (kdeg k)) nodes;       (* rows = transpose(funcvals): nodes x npts *)
  lstsq rows.
