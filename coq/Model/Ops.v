(* MODEL of heavy.Operations: Boehm knot insertion matrices, Bezier degree elevation,
   curve splitting.  Matrices are lists of rows. *)
From Coq Require Import QArith List Bool Arith Lia.
From NurbsV Require Import Base.Res Base.QList Spec.KnotSpec Model.KV.
Import ListNotations.
Open Scope Q_scope.

Definition mat := list (list Q).

Definition ident (n : nat) : mat :=
  map (fun i => map (fun j => if Nat.eqb i j then 1 else 0) (seq 0 n)) (seq 0 n).
Definition mcol (j : nat) (m : mat) : list Q := map (fun r => nth j r 0) m.
Definition mcols (m : mat) : nat := match m with [] => O | r :: _ => length r end.
(* a * b, b has nb columns *)
Definition mmul_n (nb : nat) (a b : mat) : mat :=
  map (fun r => map (fun j => dot r (mcol j b)) (seq 0 nb)) a.
Definition mmul (a b : mat) : mat := mmul_n (mcols b) a b.
Definition mvec (a : mat) (v : list Q) : list Q := map (fun r => dot r v) a.
Definition mat_eqb := qll_eqb.

(* one_knot_insert_once: the (n+1) x n Boehm matrix for inserting x into span s.
   rows r <= s-p: e_r ; s-p < r <= s: alpha_r e_r + (1-alpha_r) e_(r-1) ; r > s: e_(r-1) *)
Definition ins_alpha (U : list Q) (p : nat) (x : Q) (r : nat) : Q :=
  (x - nthq U r) / (nthq U (r + p) - nthq U r).

Definition ins_entry (U : list Q) (p s : nat) (x : Q) (r c : nat) : Q :=
  if (r <=? s - p)%nat then (if Nat.eqb c r then 1 else 0)
  else if (r <=? s)%nat then
    (if Nat.eqb c r then Qred (ins_alpha U p x r)
     else if Nat.eqb (S c) r then Qred (1 - ins_alpha U p x r) else 0)
  else (if Nat.eqb (S c) r then 1 else 0).

Definition ins_matrix (U : list Q) (p n s : nat) (x : Q) : mat :=
  map (fun r => map (fun c => ins_entry U p s x r c) (seq 0 n)) (seq 0 (S n)).

Definition in_closed (k : kv) (x : Q) : bool :=
  Qleb (first_q (kvec k)) x && Qleb x (last_q (kvec k)).

Definition one_knot_insert_once (k : kv) (x : Q) : res mat :=
  if negb (in_closed k x) then Err AssertionError else
  do s <- kspan k x;
  Ok (ins_matrix (kvec k) (kdeg k) (knpts k) s x).

(* one_knot_insert: insert x `times` times (times > 0) *)
Fixpoint one_knot_insert_loop (times : nat) (k : kv) (x : Q) (acc : mat) : res (mat * kv) :=
  match times with
  | O => Ok (acc, k)
  | S t =>
      do inc <- one_knot_insert_once k x;
      do k' <- kinsert k [x];
      one_knot_insert_loop t k' x (mmul inc acc)
  end.

Definition one_knot_insert (k : kv) (x : Q) (times : nat) : res (mat * kv) :=
  if negb (in_closed k x) then Err AssertionError else
  if (times =? 0)%nat then Err AssertionError else
  one_knot_insert_loop times k x (ident (knpts k)).

(* knot_insert: distinct nodes in increasing order, each with its requested multiplicity;
   nodes equal to an end of the vector are ignored *)
Definition knot_insert (k : kv) (nodes : list Q) : res mat :=
  if negb (forallb (in_closed k) nodes) then Err AssertionError else
  let setnodes := filter (fun x => negb (Qeqb x (first_q (kvec k))) && negb (Qeqb x (last_q (kvec k))))
                         (dedupq (sortq nodes)) in
  do r <- fold_left (fun acc x =>
            do mk <- acc;
            let '(m, kc) := mk in
            do ik <- one_knot_insert kc x (count_q x nodes);
            let '(inc, k') := ik in
            Ok (mmul inc m, k'))
          setnodes (Ok (ident (knpts k), k));
  Ok (fst r).

(* degree_increase_bezier_once / degree_increase_bezier *)
Definition elev_entry (p r c : nat) : Q :=
  if Nat.eqb r 0 then (if Nat.eqb c 0 then 1 else 0)
  else if (r <=? p)%nat then
    let alpha := inject_Z (Z.of_nat r) / inject_Z (Z.of_nat (p + 1)) in
    (if Nat.eqb (S c) r then Qred alpha else if Nat.eqb c r then Qred (1 - alpha) else 0)
  else (if Nat.eqb c p then 1 else 0).
Definition elev_matrix (p : nat) : mat :=
  map (fun r => map (fun c => elev_entry p r c) (seq 0 (p + 1))) (seq 0 (p + 2)).

Fixpoint degree_increase_bezier_loop (times p : nat) (acc : mat) : mat :=
  match times with
  | O => acc
  | S t => degree_increase_bezier_loop t (S p) (mmul (elev_matrix p) acc)
  end.
Definition degree_increase_bezier (p times : nat) : mat :=
  degree_increase_bezier_loop times p (ident (p + 1)).

(* split_curve: insert every cut up to multiplicity p+1 and slice the matrix by pieces *)
Definition split_nodes (k : kv) (nodes : list Q) : list Q :=
  filter (fun x => negb (Qeqb x (first_q (kvec k))) && negb (Qeqb x (last_q (kvec k))))
         (dedupq (sortq nodes)).

Definition split_curve (k : kv) (nodes : list Q) : res (list mat) :=
  if negb (forallb (in_closed k) nodes) then Err AssertionError else
  let cuts := split_nodes k nodes in
  do many <- mapM (fun x => do m <- kmult k x; Ok (repeat x (kdeg k + 1 - m))) cuts;
  let manynodes := concat many in
  do big <- kinsert k manynodes;
  do bigm <- knot_insert k manynodes;
  do pieces <- ksplit big cuts;
  mapM (fun piece : kv =>
          do s <- kspan big (kumin piece);
          let lower := (s - kdeg k)%nat in
          Ok (firstn (knpts piece) (skipn lower bigm)))
       pieces.
