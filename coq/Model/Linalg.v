(* MODEL of heavy.Linalg: exact inversion, solve, least squares (normal equations).
   The library inverts integer/Fraction matrices by fraction-free Gaussian elimination; the inverse
   of a matrix is unique, so the model computes it by Gauss-Jordan over Q and then CHECKS the
   result (M' * M = I and M * M' = I): it answers Ok only with that certificate (DESIGN section 2). *)
From Coq Require Import QArith List Bool Arith.
From NurbsV Require Import Base.Res Base.QList Model.Ops.
Import ListNotations.
Open Scope Q_scope.

Definition mtrans_n (ncols : nat) (m : mat) : mat := map (fun j => mcol j m) (seq 0 ncols).
Definition mtrans (m : mat) : mat := mtrans_n (mcols m) m.
Definition madd (a b : mat) : mat := map2 (fun r s => map2 (fun x y => Qred (x + y)) r s) a b.
Definition msub (a b : mat) : mat := map2 (fun r s => map2 (fun x y => Qred (x - y)) r s) a b.
Definition mscale (c : Q) (a : mat) : mat := map (map (fun x => Qred (c * x))) a.
Definition is_square (n : nat) (m : mat) : bool :=
  Nat.eqb (length m) n && forallb (fun r => Nat.eqb (length r) n) m.

(* Gauss-Jordan on the augmented rows [A | I] *)
Definition row_scale (c : Q) (r : list Q) : list Q := map (fun x => Qred (c * x)) r.
Definition row_sub (r : list Q) (c : Q) (p : list Q) : list Q := map2 (fun x y => Qred (x - c * y)) r p.

(* first row of todo whose entry in column k is non-zero, and the others in their order *)
Fixpoint take_pivot (k : nat) (todo : list (list Q)) : option (list Q * list (list Q)) :=
  match todo with
  | [] => None
  | r :: t =>
      if Qeqb (nth k r 0) 0 then
        match take_pivot k t with
        | Some (p, rest) => Some (p, r :: rest)
        | None => None
        end
      else Some (r, t)
  end.

Fixpoint gj_loop (steps k : nat) (done todo : list (list Q)) : option (list (list Q)) :=
  match steps with
  | O => Some done
  | S st =>
      match take_pivot k todo with
      | None => None
      | Some (p, rest) =>
          let p' := row_scale (/ nth k p 0) p in
          let elim r := row_sub r (nth k r 0) p' in
          gj_loop st (S k) (map elim done ++ [p']) (map elim rest)
      end
  end.

Definition augment (n : nat) (m : mat) : mat := map2 (fun r e => r ++ e) m (ident n).

Definition gauss_jordan (m : mat) : option mat :=
  let n := length m in
  match gj_loop n 0 [] (augment n m) with
  | Some rows => Some (map (skipn n) rows)
  | None => None
  end.

(* Linalg.invert: singular -> the library divides by a zero diagonal entry *)
Definition invert (m : mat) : res mat :=
  let n := length m in
  if negb (is_square n m) then Err ValueError else
  match gauss_jordan m with
  | None => Err ZeroDivisionError
  | Some m' =>
      if is_square n m' && mat_eqb (mmul_n n m' m) (ident n) && mat_eqb (mmul_n n m m') (ident n)
      then Ok m' else Err Uncertified
  end.

(* Linalg.solve(matrix, force) = invert(matrix) * force *)
Definition solve (m force : mat) : res mat :=
  do inv <- invert m; Ok (mmul inv force).

(* Linalg.lstsq(A) with A of shape (n, m), n >= m: the matrix M with X = M B *)
Definition lstsq (a : mat) : res mat :=
  let n := length a in let m := mcols a in
  if (n <? m)%nat then Err AssertionError else
  if Nat.eqb n m then invert a
  else let at_ := mtrans a in solve (mmul at_ a) at_.
