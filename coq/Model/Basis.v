(* MODEL of heavy.BasisFunction.speval_matrix / horner_method, heavy.eval_spline_nodes,
   heavy.eval_rational_nodes and functions.FunctionEvaluator.  Executable only. *)
From Coq Require Import QArith List Bool Arith Lia.
From NurbsV Require Import Base.Res Base.QList Model.KV.
Import ListNotations.
Open Scope Q_scope.

(* polynomials as coefficient lists, lowest degree first *)
Fixpoint padd (p q : list Q) : list Q :=
  match p, q with
  | [], _ => q
  | _, [] => p
  | a :: p', b :: q' => Qred (a + b) :: padd p' q'
  end.
Definition linmul (c0 c1 : Q) (p : list Q) : list Q :=
  padd (map (fun c => Qred (c0 * c)) p ++ [0]) (0 :: map (fun c => Qred (c1 * c)) p).
Fixpoint horner (p : list Q) (t : Q) : Q :=
  match p with [] => 0 | a :: p' => a + t * horner p' t end.
Fixpoint horner_red (p : list Q) (t : Q) : Q :=
  match p with [] => 0 | a :: p' => Qred (a + t * horner_red p' t) end.

(* Closed form of the loop nest of speval_matrix for ONE span s (U[s] < U[s+1]) and
   degree j: row y (0 <= y <= j) holds the power-basis coefficients, in the local
   parameter t = (u - U[s]) / (U[s+1] - U[s]), of N_{s-j+y, j}. *)
Fixpoint rows (U : list Q) (s j : nat) : list (list Q) :=
  match j with
  | O => [[1]]
  | S j' =>
      let prev := rows U s j' in
      let ul := nthq U s in
      let h := nthq U (S s) - ul in
      let scaled y := map (fun c => Qred (c / (nthq U (s + y - j' + j)%nat - nthq U (s + y - j')%nat)))
                          (nth y prev []) in
      let cB y := linmul (nthq U (s + y - j' + j)%nat - ul) (- h) (scaled y) in
      let cA y := linmul (ul - nthq U (s + y - j')%nat) h (scaled y) in
      map (fun y' => padd (if (y' <? j)%nat then cB y' else [])
                          (if (0 <? y')%nat then cA (y' - 1)%nat else []))
          (seq 0 (S j))
  end.

(* speval_matrix: one table per non-empty span *)
Definition spans_of (k : kv) : res (list nat) := mapM (kspan k) (kknots k).
Definition speval_matrix (k : kv) (j : nat) : res (list (list (list Q))) :=
  do sp <- spans_of k;
  Ok (map (fun s => rows (kvec k) s j) (removelast sp)).

(* values N_{i,j}(u), i = 0 .. npts-1, at one node *)
Definition basis_row (k : kv) (j : nat) (u : Q) : res (list Q) :=
  do s <- kspan k u;
  let U := kvec k in
  let t := (u - nthq U s) / (nthq U (S s) - nthq U s) in
  let tab := rows U s j in
  Ok (map (fun i => if ((s - j <=? i) && (i <=? s))%nat
                    then horner_red (nth (i - (s - j)) tab []) t else 0)
          (seq 0 (knpts k))).

(* eval_spline_nodes: matrix M[i][k] = N_{i,j}(node_k) *)
Definition transpose_n (n : nat) (m : list (list Q)) : list (list Q) :=
  map (fun i => map (fun r => nth i r 0) m) (seq 0 n).

Definition eval_spline_nodes (k : kv) (nodes : list Q) (j : nat) : res (list (list Q)) :=
  if (kdeg k <? j)%nat then Err AssertionError else
  do rs <- mapM (basis_row k j) nodes;
  Ok (transpose_n (knpts k) rs).

(* rational normalisation of one column: w_i N_i / sum_k w_k N_k *)
Definition rat_row (W : list Q) (r : list Q) : res (list Q) :=
  let den := dot r W in
  if Qeqb den 0 then Err ZeroDivisionError
  else Ok (map2 (fun w x => Qred (x * (w / den))) W r).

Definition rbasis_row (k : kv) (W : option (list Q)) (j : nat) (u : Q) : res (list Q) :=
  do r <- basis_row k j u;
  match W with None => Ok r | Some w => rat_row w r end.

Definition eval_rational_nodes (k : kv) (W : list Q) (nodes : list Q) (j : nat) : res (list (list Q)) :=
  if (kdeg k <? j)%nat then Err AssertionError else
  do rs <- mapM (rbasis_row k (Some W) j) nodes;
  Ok (transpose_n (knpts k) rs).
