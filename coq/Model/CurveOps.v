(* MODEL of the Curve operations built on transformation matrices: apply, knot_insert, split. *)
From Coq Require Import QArith List Bool Arith Lia.
From NurbsV Require Import Base.Res Base.QList Spec.KnotSpec Model.KV Model.Basis Model.CurveM Model.Ops.
Import ListNotations.
Open Scope Q_scope.

Definition mat_apply (M : mat) (P : list pt) : list pt := map (fun r => lincomb (pdim P) r P) M.

(* weight-scaled points w_i * P_i and back *)
Definition wscale (W : list Q) (P : list pt) : list pt := map2 (fun w p => vscale w p) W P.
Definition wunscale (W : list Q) (P : list pt) : list pt := map2 (fun w p => vscale (/ w) p) W P.

(* BaseCurve.apply: new knot vector, control points and weights through one matrix;
   rational curves transform the weights and the weight-scaled points *)
Definition apply_matrix (c : curve) (k' : kv) (M : mat) : res curve :=
  match cP c, cW c with
  | None, None => Ok (mkcurve k' None None)
  | _, _ =>
      if negb (length M =? knpts k')%nat then Err ValueError else
      match cW c with
      | None => Ok (mkcurve k' (option_map (mat_apply M) (cP c)) None)
      | Some W =>
          let W' := mvec M W in
          if existsb (fun w => Qeqb w 0) W' then Err ZeroDivisionError else
          Ok (mkcurve k' (option_map (fun P => wunscale W' (mat_apply M (wscale W P))) (cP c)) (Some W'))
      end
  end.

(* Curve.knot_insert *)
Definition c_knot_insert (c : curve) (nodes : list Q) : res curve :=
  do k' <- kinsert (ckv c) nodes;
  do M <- knot_insert (ckv c) nodes;
  apply_matrix c k' M.

(* Curve.split (None = all knots) *)
Definition c_split (c : curve) (nodes : option (list Q)) : res (list curve) :=
  let ns := match nodes with Some l => l | None => kknots (ckv c) end in
  do pieces <- ksplit (ckv c) ns;
  do Ms <- split_curve (ckv c) ns;
  match cP c with
  | None => Err TypeError
  | Some P =>
      Ok (map2 (fun (piece : kv) (M : mat) =>
                  match cW c with
                  | None => mkcurve piece (Some (mat_apply M P)) None
                  | Some W => let W' := mvec M W in
                              mkcurve piece (Some (wunscale W' (mat_apply M (wscale W P)))) (Some W')
                  end) pieces Ms)
  end.
