(* MODEL of heavy.ImmutableKnotVector and knotspace.KnotVector / GeneratorKnotVector.
   Executable definitions only; proofs live in Proofs/.  Numbers are exact rationals. *)
From Coq Require Import QArith Qabs Qround List Bool Arith Lia.
From NurbsV Require Import Base.Res Base.QList Spec.KnotSpec Gen.Consts.
Import ListNotations.
Open Scope Q_scope.

(* sorted(...) on exact numbers *)
Fixpoint insq (x : Q) (l : list Q) : list Q :=
  match l with
  | [] => [x]
  | y :: l' => if Qleb x y then x :: l else y :: insq x l'
  end.
Fixpoint sortq (l : list Q) : list Q :=
  match l with [] => [] | x :: l' => insq x (sortq l') end.

(* ImmutableKnotVector.__get_unique: first representative of every 1e-6 cluster, sorted *)
Fixpoint get_unique_aux (v acc : list Q) : list Q :=
  match v with
  | [] => acc
  | x :: v' =>
      if existsb (fun k => Qltb (Qabs (x - k)) tol_unique) acc
      then get_unique_aux v' acc
      else get_unique_aux v' (acc ++ [x])
  end.
Definition get_unique (v : list Q) : list Q := sortq (get_unique_aux v []).

(* degree inference: degree = 0; while degree + 2 < len and v[degree] == v[degree+1]: degree += 1 *)
Fixpoint infer_deg (v : list Q) : nat :=
  match v with
  | a :: ((b :: _ :: _) as t) => if Qeqb a b then S (infer_deg t) else O
  | _ => O
  end.

Definition slice (a b : nat) (v : list Q) : list Q := firstn (b - a) (skipn a v).

(* ImmutableKnotVector.__is_valid, numeric data *)
Definition is_valid (v : list Q) (deg : option nat) : bool :=
  let len := length v in
  (2 <=? len)%nat && sorted_b v &&
  (let d := match deg with Some d => d | None => infer_deg v end in
   let npts := (len - d - 1)%nat in
   (d <? npts)%nat
   && Qeqb (first_q v) (nthz d v) && Qeqb (nthz npts v) (last_q v)
   && (count_q (first_q v) v =? d + 1)%nat
   && (count_q (last_q v) v =? d + 1)%nat
   && forallb (fun k => (count_q k v <=? d + 1)%nat) v
   && (count_q (nthz d v) v =? count_q (nthz npts v) v)%nat).

Record kv := mkkv { kvec : list Q; kdeg : nat }.
Definition knpts (k : kv) : nat := (length (kvec k) - kdeg k - 1)%nat.
Definition kv_eqb (a b : kv) : bool := ql_eqb (kvec a) (kvec b) && (kdeg a =? kdeg b)%nat.

(* ImmutableKnotVector.__new__ on numeric data; non-numeric entries are None *)
Definition make (v : list Q) (deg : option nat) : res kv :=
  if is_valid v deg
  then Ok (mkkv v (match deg with Some d => d | None => infer_deg v end))
  else Err ValueError.

Fixpoint all_some (v : list (option Q)) : option (list Q) :=
  match v with
  | [] => Some []
  | Some x :: v' => match all_some v' with Some l => Some (x :: l) | None => None end
  | None :: _ => None
  end.
Definition make_raw (v : list (option Q)) (deg : option nat) : res kv :=
  match all_some v with Some l => make l deg | None => Err ValueError end.

Definition kknots (k : kv) : list Q := get_unique (slice (kdeg k) (knpts k + 1) (kvec k)).
Definition klimits (k : kv) : Q * Q := (nthq (kvec k) (kdeg k), nthq (kvec k) (knpts k)).
Definition kumin (k : kv) : Q := fst (klimits k).
Definition kumax (k : kv) : Q := snd (klimits k).

Definition kvalid1 (k : kv) (u : Q) : bool := negb (Qltb u (kumin k)) && negb (Qltb (kumax k) u).
Definition kvalid (k : kv) (us : list Q) : bool := forallb (kvalid1 k) us.

(* __span_single: the umax special case, then the binary search (fuel = length) *)
Fixpoint span_loop (fuel : nat) (U : list Q) (u : Q) (low high : nat) : option nat :=
  match fuel with
  | O => None
  | S f =>
      let mid := ((low + high) / 2)%nat in
      let low' := if Qltb u (nthq U mid) then low else mid in
      let high' := if Qltb u (nthq U mid) then mid else high in
      let mid' := ((low' + high') / 2)%nat in
      if Qleb (nthq U mid') u && Qltb u (nthq U (S mid')) then Some mid'
      else span_loop f U u low' high'
  end.

Definition span_single (k : kv) (u : Q) : option nat :=
  if Qeqb u (nthq (kvec k) (knpts k)) then Some (knpts k - 1)%nat
  else span_loop (length (kvec k)) (kvec k) u (kdeg k) (knpts k + 1).

Definition kspan (k : kv) (u : Q) : res nat :=
  if kvalid1 k u then
    match span_single k u with Some s => Ok s | None => Err OtherError end
  else Err ValueError.

Definition kmult_raw (v : list Q) (u : Q) : nat :=
  length (filter (fun x => Qltb (Qabs (u - x)) tol_mult) v).
Definition kmult (k : kv) (u : Q) : res nat :=
  if kvalid1 k u then Ok (kmult_raw (kvec k) u) else Err ValueError.

(* __add__ / __sub__ *)
Definition kinsert (k : kv) (nodes : list Q) : res kv :=
  if kvalid k nodes then make (sortq (kvec k ++ nodes)) None else Err ValueError.

Fixpoint remove1 (x : Q) (l : list Q) : option (list Q) :=
  match l with
  | [] => None
  | y :: l' => if Qeqb x y then Some l'
               else match remove1 x l' with Some r => Some (y :: r) | None => None end
  end.
Fixpoint remove_all (nodes l : list Q) : option (list Q) :=
  match nodes with
  | [] => Some l
  | x :: ns => match remove1 x l with Some l' => remove_all ns l' | None => None end
  end.
Definition kremove (k : kv) (nodes : list Q) : res kv :=
  match remove_all nodes (kvec k) with
  | Some l => make l None
  | None => Err ValueError
  end.

Definition limits_eqb (a b : kv) : bool :=
  Qeqb (kumin a) (kumin b) && Qeqb (kumax a) (kumax b).

Fixpoint index_of (x : Q) (l : list Q) : option nat :=
  match l with
  | [] => None
  | y :: l' => if Qeqb x y then Some O
               else match index_of x l' with Some i => Some (S i) | None => None end
  end.

Fixpoint set_nth (i : nat) (x : nat) (l : list nat) : list nat :=
  match l, i with
  | [], _ => []
  | _ :: l', O => x :: l'
  | y :: l', S i' => y :: set_nth i' x l'
  end.

(* __or__ (degree aware): per knot, max over both vectors of mult + (degree - own degree) *)
Definition or_pass (deg : nat) (allk : list Q) (k : kv) (mults : res (list nat)) : res (list nat) :=
  fold_left (fun acc x =>
    do ms <- acc;
    match index_of x allk with
    | None => Err ValueError
    | Some i =>
        let m := (kmult_raw (kvec k) x + deg - kdeg k)%nat in
        if (nth i ms 0 <? m)%nat then Ok (set_nth i m ms) else Ok ms
    end) (kvec k) mults.

Definition expand (ks : list Q) (ms : list nat) : list Q :=
  concat (map2 (fun x m => repeat x m) ks ms).

Definition kor (a b : kv) : res kv :=
  if negb (limits_eqb a b) then Err ValueError else
  let allk := get_unique (kknots a ++ kknots b) in
  let deg := Nat.max (kdeg a) (kdeg b) in
  do m1 <- or_pass deg allk a (Ok (repeat O (length allk)));
  do m2 <- or_pass deg allk b (Ok m1);
  make (sortq (expand allk m2)) None.

(* __and__: knots present in both (exact equality), min multiplicity *)
Definition kand (a b : kv) : res kv :=
  if negb (limits_eqb a b) then Err ValueError else
  let common := filter (fun x => existsb (Qeqb x) (kknots b)) (kknots a) in
  let ms := map (fun x => Nat.min (kmult_raw (kvec a) x) (kmult_raw (kvec b) x)) common in
  make (sortq (expand common ms)) None.

(* split: distinct cut points with the limits, one clamped vector per consecutive pair *)
Fixpoint dedupq (l : list Q) : list Q :=   (* set(...) then sorted: sorted list without repeats *)
  match l with
  | a :: ((b :: _) as t) => if Qeqb a b then dedupq t else a :: dedupq t
  | _ => l
  end.
Definition cut_points (k : kv) (nodes : list Q) : list Q :=
  dedupq (sortq (kumin k :: kumax k :: nodes)).

Fixpoint pairs (l : list Q) : list (Q * Q) :=
  match l with
  | a :: ((b :: _) as t) => (a, b) :: pairs t
  | _ => []
  end.

Definition ksplit (k : kv) (nodes : list Q) : res (list kv) :=
  if negb (kvalid k nodes) then Err ValueError else
  match nodes with
  | [] => Ok [k]
  | _ =>
    mapM (fun ab : Q * Q =>
            let (a, b) := ab in
            let middle := filter (fun x => Qltb a x && Qltb x b) (kvec k) in
            make (repeat a (kdeg k + 1) ++ middle ++ repeat b (kdeg k + 1)) None)
         (pairs (cut_points k nodes))
  end.

(* facade: shift / scale / normalize / convert / degree setter *)
Definition kshift (k : kv) (a : Q) : res kv := make (map (fun x => Qred (x + a)) (kvec k)) None.
Definition kscale (k : kv) (s : Q) : res kv :=
  if Qltb 0 s then make (map (fun x => Qred (x * s)) (kvec k)) None else Err AssertionError.
Definition knormalize (k : kv) : res kv :=
  do k1 <- kshift k (- first_q (kvec k));
  let lastv := last_q (kvec k1) in
  make (map (fun x => Qred (x / lastv)) (kvec k1)) None.

Definition qtrunc (x : Q) : Q := inject_Z (Z.quot (Qnum x) (Zpos (Qden x))).
Definition kconvert_int (k : kv) (tol : Q) : res kv :=
  if forallb (fun x => negb (Qltb tol (Qabs (qtrunc x - x)))) (kvec k)
  then make (map qtrunc (kvec k)) None
  else Err ValueError.

Definition repeat_list (n : nat) (l : list Q) : list Q := concat (repeat l n).
Definition kset_degree (k : kv) (d : nat) : res kv :=
  if (d <? kdeg k)%nat then kremove k (repeat_list (kdeg k - d) (kknots k))
  else if (kdeg k <? d)%nat then kinsert k (repeat_list (d - kdeg k) (kknots k))
  else Ok k.

(* generators *)
Definition gen_bezier (p : nat) : res kv := make (repeat 0 (p + 1) ++ repeat 1 (p + 1)) None.
Definition gen_integer (p n : nat) : res kv :=
  if (p <? n)%nat then
    let m := (n - p - 1)%nat in
    make (repeat 0 p ++ map (fun i => inject_Z (Z.of_nat i)) (seq 0 (m + 2))
          ++ repeat (inject_Z (Z.of_nat (m + 1))) p) None
  else Err AssertionError.
Definition gen_uniform (p n : nat) : res kv := do k <- gen_integer p n; knormalize k.
Fixpoint cumsum (acc : Q) (ws : list Q) : list Q :=
  match ws with [] => [] | w :: ws' => let a := Qred (acc + w) in a :: cumsum a ws' end.
Definition gen_weight (p : nat) (ws : list Q) : res kv :=
  match ws with
  | [] => Err AssertionError
  | _ => let ks := 0 :: cumsum 0 ws in
         make (repeat 0 p ++ ks ++ repeat (last_q ks) p) None
  end.
Definition gen_random_from (p : nat) (ws : list Q) : res kv :=
  do k <- gen_weight p ws; knormalize k.
