(* MODEL of heavy.MathOperations and of the arithmetic operators of curves.BaseCurve for polynomial
   operands: + - (common refinement and change-of-basis matrices), * (product knot vector from the
   continuity classes, collocation solve), / (rational result), scalar forms, negation. *)
From Coq Require Import QArith ZArith List Bool Arith.
From NurbsV Require Import Base.Res Base.QList Spec.KnotSpec Gen.Consts Model.KV Model.Basis Model.CurveM Model.Ops
  Model.CurveOps Model.Linalg Model.Quadrature Model.LeastSq Model.CurveLS.
Import ListNotations.
Open Scope Q_scope.

Definition map_points (f : pt -> pt) (c : curve) : res curve :=
  match cP c with
  | None => Err ValueError
  | Some P => Ok (mkcurve (ckv c) (Some (map f P)) (cW c))
  end.

Definition c_neg (c : curve) : res curve := map_points (vscale (-1)) c.
(* scalar s (a number): s + A, A + s, A - s, s * A, A * s, A / s *)
Definition c_add_scalar (c : curve) (s : pt) : res curve := map_points (fun p => vadd s p) c.
Definition c_mul_scalar (c : curve) (s : Q) : res curve := map_points (vscale s) c.
Definition c_div_scalar (c : curve) (s : Q) : res curve :=
  if Qeqb s 0 then Err ZeroDivisionError else map_points (vscale (/ s)) c.

(* add_spline_curve: both operands transformed to the union knot vector *)
Definition c_add (a b : curve) : res curve :=
  match cP a, cP b, cW a, cW b with
  | None, _, _, _ => Err ValueError
  | Some Pa, Some Pb, None, None =>
      if negb (limits_eqb (ckv a) (ckv b)) then Err ValueError else
      do kc <- kor (ckv a) (ckv b);
      do Ma <- matrix_transformation (ckv a) kc;
      do Mb <- matrix_transformation (ckv b) kc;
      Ok (mkcurve kc (Some (map2 vadd (mat_apply Ma Pa) (mat_apply Mb Pb))) None)
  | _, _, _, _ => Err Uncertified
  end.

Definition c_sub (a b : curve) : res curve := do nb <- c_neg b; c_add a nb.

(* knotvector_mul: degree p+q; an interior knot keeps continuity min(p - multa, q - multb) *)
Definition knotvector_mul (a b : kv) : res kv :=
  if negb (limits_eqb a b) then Err AssertionError else
  let allk := dedupq (sortq (kvec a ++ kvec b)) in
  let dc := (kdeg a + kdeg b)%nat in
  let interior := removelast (tl allk) in
  let body := concat (map (fun x =>
                 (* continuity classes are Python ints and may be -1 (a jump) *)
                 let ca := (Z.of_nat (kdeg a) - Z.of_nat (kmult_raw (kvec a) x))%Z in
                 let cb := (Z.of_nat (kdeg b) - Z.of_nat (kmult_raw (kvec b) x))%Z in
                 repeat x (Z.to_nat (Z.of_nat dc - Z.min ca cb))) interior) in
  make (repeat (first_q (kvec a)) (dc + 1) ++ body ++ repeat (last_q (kvec a)) (dc + 1)) None.

(* mul_spline_curve: collocation of the product on 2(degc+1) closed nodes per span, least squares *)
Definition mul_nodes (kc : kv) : res (list Q) :=
  let n := (mul_colloc_factor * (kdeg kc + mul_colloc_plus))%nat in
  do x01 <- closed_linspace n;
  Ok (concat (map (fun se : Q * Q => let (s, e) := se in map (fun x => Qred (s + (e - s) * x)) x01)
                  (pairs (kknots kc)))).

(* control values of the product for scalar control values *)
Definition mul_coeffs (a b : kv) (pa pb : list Q) : res (kv * list Q) :=
  do kc <- knotvector_mul a b;
  do nodes <- mul_nodes kc;
  do av <- mapM (basis_row a (kdeg a)) nodes;
  do bv <- mapM (basis_row b (kdeg b)) nodes;
  do cv <- mapM (basis_row kc (kdeg kc)) nodes;
  do L <- lstsq cv;                                          (* npts_c x nnodes *)
  let prod := map2 (fun ra rb => Qred (dot ra pa * dot rb pb)) av bv in    (* A(x_k) * B(x_k) *)
  Ok (kc, mvec L prod).

Definition c_mul (a b : curve) : res curve :=
  match cP a, cP b, cW a, cW b with
  | None, _, _, _ => Err ValueError
  | Some Pa, Some Pb, None, None =>
      if negb (limits_eqb (ckv a) (ckv b)) then Err ValueError else
      (* scalar * vector or vector * scalar or scalar * scalar, coordinate-wise *)
      let da := pdim Pa in let db := pdim Pb in
      let d := Nat.max da db in
      do cols <- mapM (fun kk =>
                  mul_coeffs (ckv a) (ckv b)
                             (map (fun p => nth (if Nat.eqb da 1 then 0 else kk) p 0) Pa)
                             (map (fun p => nth (if Nat.eqb db 1 then 0 else kk) p 0) Pb)) (seq 0 d);
      match cols with
      | [] => Err ValueError
      | (kc, _) :: _ => Ok (mkcurve kc (Some (transpose_n (knpts kc) (map snd cols))) None)
      end
  | _, _, _, _ => Err Uncertified
  end.

(* A / B for polynomial operands: a rational curve with weights = B's refined control values *)
Definition c_div (a b : curve) : res curve :=
  match cP a, cP b, cW a, cW b with
  | None, _, _, _ => Err ValueError
  | Some Pa, Some Pb, None, None =>
      if negb (limits_eqb (ckv a) (ckv b)) then Err ValueError else
      do kc <- kor (ckv a) (ckv b);
      do Ma <- matrix_transformation (ckv a) kc;
      do Mb <- matrix_transformation (ckv b) kc;
      let w := map (fun p => nth 0 p 0) (mat_apply Mb Pb) in
      if existsb (fun x => Qeqb x 0) w then Err ZeroDivisionError else
      Ok (mkcurve kc (Some (map2 (fun p wi => vscale (/ wi) p) (mat_apply Ma Pa) w)) (Some w))
  | _, _, _, _ => Err Uncertified
  end.

(* s / A for a polynomial scalar curve A: rational curve with weights = A's control values *)
Definition c_rdiv (s : Q) (a : curve) : res curve :=
  match cP a, cW a with
  | None, _ => Err ValueError
  | Some Pa, None =>
      let w := map (fun p => nth 0 p 0) Pa in
      if existsb (fun x => Qeqb x 0) w then Err ZeroDivisionError else
      Ok (mkcurve (ckv a) (Some (map (fun wi => [Qred (s / wi)]) w)) (Some w))
  | _, _ => Err Uncertified
  end.

(* ---- rational operands: the library splits each operand into numerator / denominator splines (fraction()) and
   composes the polynomial operations: (Na Db + Nb Da) / (Da Db), (Na Nb) / (Da Db), (Na Db) / (Da Nb).
   A polynomial operand has the integer 1 as denominator (None below). ---- *)
Definition c_fraction (c : curve) : res (curve * option curve) :=
  match cP c, cW c with
  | None, _ => Err ValueError
  | Some P, None => Ok (c, None)
  | Some P, Some W =>
      Ok (mkcurve (ckv c) (Some (map2 (fun w p => vscale w p) W P)) None,
          Some (mkcurve (ckv c) (Some (map (fun w => [w]) W)) None))
  end.

Definition mul_opt (x : curve) (d : option curve) : res curve :=
  match d with None => Ok x | Some dc => c_mul x dc end.
Definition den_mul (a b : option curve) : res (option curve) :=
  match a, b with
  | None, None => Ok None
  | Some x, None | None, Some x => Ok (Some x)
  | Some x, Some y => do z <- c_mul x y; Ok (Some z)
  end.
Definition div_opt (n : curve) (d : option curve) : res curve :=
  match d with None => Ok n | Some dc => c_div n dc end.

Definition c_add_r (a b : curve) : res curve :=
  if negb (limits_eqb (ckv a) (ckv b)) then Err ValueError else
  do fa <- c_fraction a; do fb <- c_fraction b;
  let (na, da) := fa in let (nb, db) := fb in
  do x <- mul_opt na db; do y <- mul_opt nb da;
  do n <- c_add x y; do d <- den_mul da db;
  div_opt n d.
Definition c_sub_r (a b : curve) : res curve := do nb <- c_neg b; c_add_r a nb.
Definition c_mul_r (a b : curve) : res curve :=
  if negb (limits_eqb (ckv a) (ckv b)) then Err ValueError else
  do fa <- c_fraction a; do fb <- c_fraction b;
  let (na, da) := fa in let (nb, db) := fb in
  do n <- c_mul na nb; do d <- den_mul da db;
  div_opt n d.
Definition c_div_r (a b : curve) : res curve :=
  if negb (limits_eqb (ckv a) (ckv b)) then Err ValueError else
  do fa <- c_fraction a; do fb <- c_fraction b;
  let (na, da) := fa in let (nb, db) := fb in
  do n <- mul_opt na db;
  do d <- (match da with None => Ok nb | Some dc => c_mul dc nb end);
  c_div n d.
