(* MODEL of the Curve operations that go through the least-squares projection (polynomial curves):
   fit_curve, update, knot_remove, degree_increase / degree_decrease, knot_clean / degree_clean /
   clean, __eq__, and heavy.Operations.degree_increase / knot_remove / matrix_transformation.
   Rational (weighted) curves take the library's weighted func2func path, which is outside the exact
   model (known finding K1): the model answers Err Uncertified for them. *)
From Coq Require Import QArith Qabs List Bool Arith.
From NurbsV Require Import Base.Res Base.QList Spec.KnotSpec Gen.Consts Model.KV Model.Basis Model.CurveM Model.Ops
  Model.CurveOps Model.Linalg Model.Quadrature Model.LeastSq.
Import ListNotations.
Open Scope Q_scope.

Definition coordq (k : nat) (P : list pt) : list Q := map (fun p => nth k p 0) P.
Definition qmax (l : list Q) : Q := fold_left (fun a b => if Qltb a b then b else a) l 0.

(* error = max |P^T E P| over all coordinate pairs (np.moveaxis(P,0,-1) . (E . P)) *)
Definition fit_error (E : mat) (P : list pt) : Q :=
  let d := pdim P in
  qmax (concat (map (fun a => map (fun b => Qabs (Qred (dot (coordq a P) (mvec E (coordq b P))))) (seq 0 d)) (seq 0 d))).

(* target.fit_curve(source, nodes) -> (new control points, error) *)
Definition c_fit_curve (target : kv) (src : curve) (nodes : option (list Q)) : res (list pt * Q) :=
  match cW src, cP src with
  | Some _, _ => Err Uncertified
  | None, None => Err TypeError
  | None, Some P =>
      do te <- spline2spline (ckv src) target nodes;
      let (T, E) := te in
      Ok (mat_apply T P, fit_error E P)
  end.

(* BaseCurve.update(newknotvector, tolerance, nodes); tolerance None or 0 never refuses *)
Definition c_update (c : curve) (knew : kv) (tol : option Q) (nodes : option (list Q)) : res curve :=
  if kv_eqb knew (ckv c) then Ok c else
  match cP c with
  | None => Ok (mkcurve knew None (cW c))
  | Some _ =>
      if negb (limits_eqb (ckv c) knew) then Err ValueError else
      do pe <- c_fit_curve knew c nodes;
      let (P', err) := pe in
      match tol with
      | Some t => if negb (Qeqb t 0) && Qltb t err then Err ValueError else Ok (mkcurve knew (Some P') None)
      | None => Ok (mkcurve knew (Some P') None)
      end
  end.

Definition knots_opt (k : kv) : option (list Q) := if Nat.eqb (kdeg k) 0 then None else Some (kknots k).

Definition c_knot_remove (c : curve) (nodes : list Q) (tol : option Q) : res curve :=
  do knew <- kremove (ckv c) nodes;
  c_update c knew tol (knots_opt knew).

Definition c_degree_decrease (c : curve) (times : nat) (tol : option Q) : res curve :=
  if Nat.eqb times 0 then Err ValueError else
  if (kdeg (ckv c) <? times)%nat then Err ValueError else
  do knew <- kset_degree (ckv c) (kdeg (ckv c) - times);
  c_update c knew tol (knots_opt knew).

(* heavy.Operations.knot_remove: the projection matrix onto the coarser space *)
Definition op_knot_remove (k : kv) (nodes : list Q) : res mat :=
  if negb (forallb (in_closed k) nodes) then Err AssertionError else
  do knew <- kremove k nodes;
  do te <- spline2spline k knew None;
  Ok (fst te).

(* heavy.Operations.degree_increase: split into Bezier pieces, elevate each, remove the inserted knots *)
Definition op_degree_increase (k : kv) (times : nat) : res mat :=
  let p := kdeg k in
  if Nat.eqb times 0 then Ok (ident (knpts k)) else
  if Nat.eqb (p + 1) (knpts k) then Ok (degree_increase_bezier p times) else
  let nodes := kknots k in
  do pieces <- ksplit k nodes;
  do Ms <- split_curve k nodes;
  let elev := degree_increase_bezier p times in
  let big := concat (map (fun M => mmul elev M) Ms) in
  do ins <- mapM (fun x => do m <- kmult k x; Ok (repeat x (p + 1 - m))) nodes;
  let inserted := concat ins in
  do bigv <- kinsert k inserted;
  do incbig <- kinsert bigv (repeat_list times nodes);
  do rem <- op_knot_remove incbig inserted;
  Ok (mmul rem big).

Definition c_degree_increase (c : curve) (times : nat) : res curve :=
  if Nat.eqb times 0 then Err ValueError else
  do knew <- kinsert (ckv c) (repeat_list times (kknots (ckv c)));
  do M <- op_degree_increase (ckv c) times;
  apply_matrix c knew M.

Definition c_set_degree (c : curve) (d : nat) : res curve :=
  let p := kdeg (ckv c) in
  if Nat.eqb d p then Ok c
  else if (p <? d)%nat then c_degree_increase c (d - p)
  else c_degree_decrease c (p - d) (Some tol_decrease).

(* knot_clean: for every requested interior knot, remove it as long as the removal is accepted *)
Fixpoint remove_while (fuel : nat) (c : curve) (x : Q) (tol : option Q) : curve :=
  match fuel with
  | O => c
  | S f => match c_knot_remove c [x] tol with
           | Ok c' => remove_while f c' x tol
           | Err _ => c
           end
  end.
Definition c_knot_clean (c : curve) (nodes : option (list Q)) (tol : Q) : res curve :=
  if Qltb tol 0 then Err AssertionError else
  let ns := match nodes with Some l => l | None => kknots (ckv c) end in
  let ns := filter (fun x => negb (Qeqb x (kumin (ckv c))) && negb (Qeqb x (kumax (ckv c)))) (dedupq (sortq ns)) in
  Ok (fold_left (fun cc x => remove_while (length (kvec (ckv cc))) cc x (Some tol)) ns c).

Fixpoint decrease_while (fuel : nat) (c : curve) (tol : Q) : curve :=
  match fuel with
  | O => c
  | S f => match c_degree_decrease c 1 (Some tol) with
           | Ok c' => decrease_while f c' tol
           | Err _ => c
           end
  end.
Definition c_degree_clean (c : curve) (tol : Q) : res curve :=
  if Qltb tol 0 then Err AssertionError else Ok (decrease_while (S (kdeg (ckv c))) c tol).

Definition c_clean (c : curve) (tol : Q) : res curve :=
  do c1 <- c_degree_clean c tol;
  c_knot_clean c1 None tol.

(* heavy.Operations.matrix_transformation(a, b): coefficients over a -> coefficients over b (b refines a) *)
Definition matrix_transformation (ka kb : kv) : res mat :=
  if negb (limits_eqb ka kb) then Err AssertionError else
  if (kdeg kb <? kdeg ka)%nat then Err AssertionError else
  let t := (kdeg kb - kdeg ka)%nat in
  do Mdeg <- op_degree_increase ka t;
  do ka' <- kinsert ka (repeat_list t (kknots ka));
  do ins <- mapM (fun x => do mb <- kmult kb x; do ma <- kmult ka' x; Ok (repeat x (mb - ma))) (kknots kb);
  do Mins <- knot_insert ka' (concat ins);
  Ok (mmul Mins Mdeg).

(* BaseCurve.__eq__ for curves (both polynomial): refine copies to the union vector, compare control points *)
Definition pt_dist2 (a b : pt) : Q := qsum (map2 (fun x y => (x - y) * (x - y)) a b).
Definition c_eq (a b : curve) : res bool :=
  if negb (Qeqb (first_q (kvec (ckv a))) (first_q (kvec (ckv b)))) then Ok false else
  if negb (Qeqb (last_q (kvec (ckv a))) (last_q (kvec (ckv b)))) then Ok false else
  match cP a, cP b with
  | None, Some _ | Some _, None => Ok false
  | None, None => Err TypeError
  | Some _, Some _ =>
      do kn <- kor (ckv a) (ckv b);
      do a' <- c_update a kn (Some tol_update) None;
      do b' <- c_update b kn (Some tol_update) None;
      match cP a', cP b' with
      | Some Pa, Some Pb =>
          Ok (forallb (fun pq => negb (Qltb (tol_eq * tol_eq) (pt_dist2 (fst pq) (snd pq)))) (combine Pa Pb))
      | _, _ => Err TypeError
      end
  end.

(* Curve.fit_points(points, nodes) and Curve.fit_function(f): discrete least squares *)
Definition default_fit_nodes (k : kv) (n : nat) : res (list Q) :=
  do x01 <- closed_linspace n;
  Ok (map (fun x => Qred (kumin k + (kumax k - kumin k) * x)) x01).

Definition c_fit_points (c : curve) (pts : list pt) (nodes : option (list Q)) : res (list pt) :=
  if (length pts <? knpts (ckv c))%nat then Err AssertionError else
  do ns <- match nodes with Some l => Ok l | None => default_fit_nodes (ckv c) (length pts) end;
  do M <- fit_function (ckv c) ns (cW c);
  Ok (mat_apply M pts).

(* the nodes fit_function samples: open_linspace(1 + ceil(degree * npts / nspans)) on every span *)
Definition fit_function_nodes (k : kv) : res (list Q) :=
  let ks := kknots k in
  let nspans := (length ks - 1)%nat in
  let each := (1 + (kdeg k * knpts k + nspans - 1) / nspans)%nat in
  do x01 <- open_linspace each;
  Ok (concat (map (fun se : Q * Q => let (s, e) := se in map (fun x => Qred (s + (e - s) * x)) x01) (pairs ks))).

(* BaseCurve.__or__: join two curves at max(left) = min(right) at the common degree; polynomial curves then clean
   the junction knot, rational ones keep it with full multiplicity *)
Definition c_join (a b : curve) : res curve :=
  if negb (Qeqb (last_q (kvec (ckv a))) (first_q (kvec (ckv b)))) then Err ValueError else
  match cP a, cP b with
  | Some _, Some _ =>
      let d := Nat.max (kdeg (ckv a)) (kdeg (ckv b)) in
      do a' <- c_set_degree a d;
      do b' <- c_set_degree b d;
      match cP a', cP b' with
      | Some Pa, Some Pb =>
          do k <- make (firstn (knpts (ckv a')) (kvec (ckv a')) ++ kvec (ckv b')) None;
          match cW a', cW b' with
          | None, None => c_knot_clean (mkcurve k (Some (Pa ++ Pb)) None) (Some [last_q (kvec (ckv a))]) tol_kclean
          | wa, wb =>
              let ones n := repeat 1 n in
              let Wa := match wa with Some w => w | None => ones (length Pa) end in
              let Wb := match wb with Some w => w | None => ones (length Pb) end in
              Ok (mkcurve k (Some (Pa ++ Pb)) (Some (Wa ++ Wb)))
          end
      | _, _ => Err TypeError
      end
  | _, _ => Err TypeError
  end.
