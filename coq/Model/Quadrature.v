(* MODEL of heavy.NodeSample and heavy.IntegratorArray (the exact, rational rules):
   equally spaced nodes, interpolatory weights obtained by inverting the Bernstein collocation
   matrix, and the module-level memo tables as an explicit state initialised from the literals
   of the source (Gen/Consts.v is regenerated from /repo on every run). *)
From Coq Require Import QArith List Bool Arith.
From NurbsV Require Import Base.Res Base.QList Gen.Consts Model.Ops Model.Linalg.
Import ListNotations.
Open Scope Q_scope.

Definition natQ (n : nat) : Q := inject_Z (Z.of_nat n).

Definition closed_linspace (n : nat) : res (list Q) :=
  if (n <=? 1)%nat then Err AssertionError
  else Ok (map (fun k => Qred (natQ k / natQ (n - 1))) (seq 0 n)).
Definition open_linspace (n : nat) : res (list Q) :=
  if (n =? 0)%nat then Err AssertionError
  else Ok (map (fun k => Qred (natQ (2 * k + 1) / natQ (2 * n))) (seq 0 n)).

Fixpoint qpow (x : Q) (n : nat) : Q := match n with O => 1 | S m => Qred (x * qpow x m) end.
Fixpoint binom (n k : nat) : nat :=
  match n, k with
  | _, O => 1%nat
  | O, S _ => 0%nat
  | S n', S k' => (binom n' k' + binom n' (S k'))%nat
  end.

(* [M]_{i,k} = B_{i,p}(u_k) *)
Definition bernstein_matrix (nodes : list Q) : mat :=
  let p := (length nodes - 1)%nat in
  map (fun i => map (fun u => Qred (natQ (binom p i) * qpow (1 - u) (p - i) * qpow u i)) nodes)
      (seq 0 (p + 1)).

Definition interpolate_bezier (nodes : list Q) : res mat :=
  if negb (forallb (fun u => Qleb 0 u && Qleb u 1) nodes) then Err AssertionError
  else invert (bernstein_matrix nodes).

Definition bezier_integrator_array (nodes : list Q) : res (list Q) :=
  do m <- interpolate_bezier nodes;
  Ok (map (fun line => Qred (qsum line / natQ (length nodes))) m).

(* memo tables *)
Definition tbl := list (nat * list Q).
Fixpoint lookup (n : nat) (t : tbl) : option (list Q) :=
  match t with
  | [] => None
  | (m, w) :: t' => if Nat.eqb m n then Some w else lookup n t'
  end.

Record qstate := mkqs { st_closed : tbl; st_open : tbl }.
Definition qinit : qstate := mkqs tbl_closed_newton tbl_open_newton.

Definition compute_closed (n : nat) : res (list Q) := do x <- closed_linspace n; bezier_integrator_array x.
Definition compute_open (n : nat) : res (list Q) := do x <- open_linspace n; bezier_integrator_array x.

(* IntegratorArray.closed_newton_cotes / open_newton_cotes as state transformers *)
Definition get_closed (n : nat) (s : qstate) : res (list Q) * qstate :=
  if (n <=? 1)%nat then (Err AssertionError, s) else
  match lookup n (st_closed s) with
  | Some w => (Ok w, s)
  | None => match compute_closed n with
            | Ok w => (Ok w, mkqs ((n, w) :: st_closed s) (st_open s))
            | Err e => (Err e, s)
            end
  end.
Definition get_open (n : nat) (s : qstate) : res (list Q) * qstate :=
  if (n =? 0)%nat then (Err AssertionError, s) else
  match lookup n (st_open s) with
  | Some w => (Ok w, s)
  | None => match compute_open n with
            | Ok w => (Ok w, mkqs (st_closed s) ((n, w) :: st_open s))
            | Err e => (Err e, s)
            end
  end.

(* the rule a fresh process answers with *)
Definition closed_newton_cotes (n : nat) : res (list Q) := fst (get_closed n qinit).
Definition open_newton_cotes (n : nat) : res (list Q) := fst (get_open n qinit).
