(* C17: KnotVector union / intersection. *)
From Coq Require Import QArith List Bool Arith.
From NurbsV Require Import Base.Res Base.QList Spec.KnotSpec Model.KV Model.KVFacade Check.Common.
Import ListNotations.

Definition vres := res (list Q * nat).
(* (U, p, V, q, U|V, V|U, U&V, V&U, U|U, (U|V)|V, operands unchanged) *)
Definition case := (list Q * nat * list Q * nat * vres * vres * vres * vres * vres * vres * bool)%type.

Definition values (U V : list Q) : list Q := dedup_sorted (sortq (U ++ V)).

(* multiplicity a knot needs on a vector of degree d to carry every spline of (U, p) *)
Definition lift (d p : nat) (x : Q) (U : list Q) : nat :=
  let c := count_q x U in if Nat.eqb c 0 then 0 else c + (d - p).

Definition spec_or (U : list Q) (p : nat) (V : list Q) (q : nat) : list Q * nat :=
  let d := Nat.max p q in
  (concat (map (fun x => repeat x (Nat.max (lift d p x U) (lift d q x V))) (values U V)), d).

Definition spec_and_eqdeg (U : list Q) (p : nat) (V : list Q) : list Q * nat :=
  (concat (map (fun x => repeat x (Nat.min (count_q x U) (count_q x V))) (values U V)), p).

Definition view_eqb (a b : list Q * nat) : bool := ql_eqb (fst a) (fst b) && Nat.eqb (snd a) (snd b).
Definition vres_eqb : vres -> vres -> bool := res_eqb view_eqb.
Definition mview (r : res kv) : vres := match r with Ok k => Ok (view k) | Err e => Err e end.

Definition same_limits (U : list Q) (p : nat) (V : list Q) (q : nat) : bool :=
  Qeqb (umin_of U p) (umin_of V q) && Qeqb (umax_of U p) (umax_of V q).

Definition check_case (c : case) : verdict :=
  let '(U, p, V, q, uv, vu, aUV, aVU, uu, uvv, unchanged) := c in
  let prop :=
    unchanged && wf_b U p && wf_b V q &&
    if same_limits U p V q then
      vres_eqb uv (Ok (spec_or U p V q)) && vres_eqb vu uv          (* formula, commutative *)
      && vres_eqb uu (Ok (U, p)) && vres_eqb uvv uv                  (* idempotent *)
      && vres_eqb aVU aUV
      && match aUV with Ok (w, d) => wf_b w d | Err _ => false end
      && (if Nat.eqb p q then vres_eqb aUV (Ok (spec_and_eqdeg U p V)) else true)
      && match uv with Ok (w, d) => wf_b w d | Err _ => false end
    else is_err ValueError uv && is_err ValueError vu && is_err ValueError aUV && is_err ValueError aVU in
  match make U None, make V None with
  | Ok a, Ok b =>
      let corr :=
        Nat.eqb (kdeg a) p && Nat.eqb (kdeg b) q
        && vres_eqb (mview (kor a b)) uv && vres_eqb (mview (kor b a)) vu
        && vres_eqb (mview (kand a b)) aUV && vres_eqb (mview (kand b a)) aVU
        && vres_eqb (mview (kor a a)) uu
        && vres_eqb (mview (do w <- kor a b; kor w b)) uvv in
      mkv corr prop
  | _, _ => mkv false prop
  end.
