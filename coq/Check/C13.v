(* C13: curve equality means equality as functions, independent of representation. *)
From Coq Require Import QArith List Bool Arith.
From NurbsV Require Import Base.Res Base.QList Spec.KnotSpec Spec.BSpline Gen.Consts Model.KV Model.CurveM
  Model.Ops Model.CurveOps Model.CurveLS Check.Common Check.Oracle.
Import ListNotations.
Open Scope Q_scope.

Definition to_curve (c : ocurve) : res curve :=
  do k <- make (o_U c) None; Ok (mkcurve k (Some (o_P c)) (o_W c)).
Definition ocurve_eqb (a b : ocurve) : bool :=
  ql_eqb (o_U a) (o_U b) && Nat.eqb (o_p a) (o_p b) && ptl_eqb (o_P a) (o_P b)
  && opt_eqb ql_eqb (o_W a) (o_W b).

(* expectation: EFun = decide by exact function equality; ETrue = equal within the 1e-9 tolerance by construction *)
Inductive expect := EFun | ETrue.
(* (A, B, expectation, A == B, B == A, A != B, A == A, A == non-curve objects (all must be False),
    A afterwards, B afterwards) *)
Definition case := (ocurve * ocurve * expect * res bool * res bool * res bool * res bool * res bool
                    * ocurve * ocurve)%type.

Definition same_interval (a b : ocurve) : bool :=
  Qeqb (umin_of (o_U a) (o_p a)) (umin_of (o_U b) (o_p b)) && Qeqb (umax_of (o_U a) (o_p a)) (umax_of (o_U b) (o_p b)).

Definition check_case (cs : case) : verdict :=
  let '(a, b, ex, eab, eba, nab, eaa, enon, a', b') := cs in
  let want := match ex with ETrue => true | EFun => same_interval a b && fun_eq a b end in
  let prop :=
    o_wf a && o_wf b && ocurve_eqb a' a && ocurve_eqb b' b
    && res_eqb Bool.eqb eab (Ok want) && res_eqb Bool.eqb eba (Ok want)
    && res_eqb Bool.eqb nab (Ok (negb want))
    && res_eqb Bool.eqb eaa (Ok true) && res_eqb Bool.eqb enon (Ok false) in
  match o_W a, o_W b, to_curve a, to_curve b with
  | None, None, Ok ca, Ok cb =>
      mkv (res_eqb Bool.eqb (c_eq ca cb) eab && res_eqb Bool.eqb (c_eq cb ca) eba) prop
  | None, None, _, _ => mkv false prop
  | _, _, _, _ => mkv true prop                  (* rational operands: outside the exact model (K1) *)
  end.
