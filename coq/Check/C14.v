(* C14: clean() reaches the unique minimal representation without changing the curve. *)
From Coq Require Import QArith ZArith List Bool Arith.
From NurbsV Require Import Base.Res Base.QList Spec.KnotSpec Spec.BSpline Gen.Consts Model.KV Model.CurveM
  Model.Ops Model.CurveOps Model.CurveLS Check.Common Check.Oracle.
Import ListNotations.
Open Scope Q_scope.

Definition to_curve (c : ocurve) : res curve :=
  do k <- make (o_U c) None; Ok (mkcurve k (Some (o_P c)) (o_W c)).
Definition of_curve (c : curve) : ocurve :=
  (kvec (ckv c), kdeg (ckv c), match cP c with Some P => P | None => [] end, cW c).
Definition ocurve_eqb (a b : ocurve) : bool :=
  ql_eqb (o_U a) (o_U b) && Nat.eqb (o_p a) (o_p b) && ptl_eqb (o_P a) (o_P b)
  && opt_eqb ql_eqb (o_W a) (o_W b).

Inductive cop := OClean | OKnotClean (nodes : option (list Q)) | ODegreeClean.
(* (minimal curve the history started from, curve before the call (same function, refined), operation,
    was the degree raised in the history, outcome, curve after, curve after calling the operation again) *)
(* two more fields: `pert` - one refined control point was moved (the curve before the call is then NOT the start curve's function,
   and some knots are only almost removable); `tol` - the explicit tolerance argument (None = the library's default 1e-9).
   For perturbed curves the oracle is the tolerance clause alone: the exact integral of the squared deviation stays below
   2 * tol * max(1, L) * (1 + k)^2, k = number of knots / degrees taken away (each accepted step may use the tolerance once). *)
Definition case := (ocurve * ocurve * cop * bool * bool * option Q * res unit * ocurve * ocurve)%type.
Definition default_tol : Q := 1 # 1000000000.
Definition qmaxq (a b : Q) : Q := if Qltb a b then b else a.
Definition within_tolerance (before after : ocurve) (tol : Q) : bool :=
  let len := umax_of (o_U before) (o_p before) - umin_of (o_U before) (o_p before) in
  let k := inject_Z (Z.of_nat (1 + (length (o_U before) - length (o_U after)))) in
  match sqdev before after with
  | Ok dv => Qleb dv (2 * tol * qmaxq 1 len * k * k)
  | Err _ => false
  end.

Definition check_case (cs : case) : verdict :=
  let '(start, before, op, raised, pert, tolarg, r, after, after2) := cs in
  let tl := match tolarg with Some t => t | None => default_tol end in
  let prop :=
    if pert then
      o_wf before &&
      match r with
      | Err _ => false
      | Ok _ => o_wf after && within_tolerance before after tl
                && (match op with OKnotClean _ => Nat.eqb (o_p after) (o_p before) | _ => true end)
      end
    else
    o_wf start && o_wf before && fun_eq start before &&
    match r with
    | Err _ => false
    | Ok _ =>
        o_wf after && fun_eq before after              (* the curve is unchanged as a function *)
        && ocurve_eqb after2 after                     (* idempotent *)
        && match op with
           | OClean => ocurve_eqb after start          (* the minimal representation *)
           | OKnotClean None => if raised then Nat.eqb (o_p after) (o_p before) else ocurve_eqb after start
           | OKnotClean (Some ns) =>
               Nat.eqb (o_p after) (o_p before)
               (* knots not named keep their multiplicity; named ones return to the start's (degree not raised) *)
               && forallb (fun x => if existsb (Qeqb x) ns then
                                      (if raised then true else Nat.eqb (count_q x (o_U after)) (count_q x (o_U start)))
                                    else Nat.eqb (count_q x (o_U after)) (count_q x (o_U before)))
                          (firstn (length (o_U before) - 2 * o_p before - 2) (skipn (o_p before + 1) (o_U before)))
           | ODegreeClean => Nat.eqb (o_p after) (o_p start)
           end
    end in
  match to_curve before with
  | Err _ => mkv false prop
  | Ok cv =>
      let m := match op with
               | OClean => c_clean cv (match tolarg with Some t => t | None => tol_clean end)
               | OKnotClean ns => c_knot_clean cv ns (match tolarg with Some t => t | None => tol_kclean end)
               | ODegreeClean => c_degree_clean cv (match tolarg with Some t => t | None => tol_dclean end)
               end in
      mkv (match m, r with
           | Ok cv', Ok _ => ocurve_eqb (of_curve cv') after
           | Err e, Err e' => exn_eqb e e'
           | _, _ => false
           end) prop
  end.
