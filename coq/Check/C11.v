(* C11: fit_curve is the L2-orthogonal projection (with optional exact interpolation). *)
From Coq Require Import QArith Qabs List Bool Arith.
From NurbsV Require Import Base.Res Base.QList Spec.KnotSpec Spec.BSpline Spec.BSplineExec Gen.Consts Model.KV Model.CurveM
  Model.Ops Model.Linalg Model.Quadrature Model.CurveOps Model.LeastSq Model.CurveLS Check.Common Check.Oracle.
Import ListNotations.
Open Scope Q_scope.

Definition to_curve (c : ocurve) : res curve :=
  do k <- make (o_U c) None; Ok (mkcurve k (Some (o_P c)) (o_W c)).
Definition ocurve_eqb (a b : ocurve) : bool :=
  ql_eqb (o_U a) (o_U b) && Nat.eqb (o_p a) (o_p b) && ptl_eqb (o_P a) (o_P b)
  && opt_eqb ql_eqb (o_W a) (o_W b).

(* (source curve C, target knot vector, its degree, interpolation nodes, outcome: fitted control points and
    returned error, source afterwards, expected control points when C is known to lie in S) *)
Definition case := (ocurve * list Q * nat * option (list Q) * res (list pt * Q) * ocurve * option (list pt))%type.

(* exact moments  int (C - D)_kk(u) * M_i(u) du  for every basis function M_i of the target space *)
Definition moments (c d : ocurve) (kk : nat) : res (list Q) :=
  let dg := Nat.max (o_p c) (o_p d) in
  let n := (2 * dg + 1)%nat in
  do w <- compute_open n;
  do x01 <- open_linspace n;
  let lo := umin_of (o_U c) (o_p c) in let hi := umax_of (o_U c) (o_p c) in
  let ks := dedup_sorted (sortq (lo :: hi :: restrict lo hi (o_U c ++ o_U d))) in
  let npts := npts_of (o_U d) (o_p d) in
  Ok (fold_left (fun acc (se : Q * Q) =>
        let (s, e) := se in let h := e - s in
        fold_left (fun acc2 (wx : Q * Q) =>
            let (wk, x) := wx in
            let u := Qred (s + h * x) in
            let dv := nth kk (o_eval c u) 0 - nth kk (o_eval d u) 0 in
            let row := Nrow (o_U d) (o_p d) (o_p d) u in
            map2 (fun a m => Qred (a + wk * h * dv * m)) acc2 row) (combine w x01) acc)
      (pairs ks) (repeat 0 npts)).

Definition all_zero (l : list Q) : bool := forallb (fun x => Qeqb x 0) l.

(* r is orthogonal to the null space of G (rows = basis values at the interpolation nodes)
   iff r is in the row space of G: r = G^T (G G^T)^-1 G r *)
Definition in_rowspace (G : mat) (r : list Q) : bool :=
  let n := length r in
  let Gt := mtrans_n n G in
  match invert (mmul G Gt) with
  | Ok inv => ql_eqb (mvec Gt (mvec inv (mvec G r))) (map Qred r)
  | Err _ => false
  end.

Definition check_case (cs : case) : verdict :=
  let '(c, V, q, nodes, r, c_after, expected) := cs in
  let prop :=
    o_wf c && wf_b V q && ocurve_eqb c_after c &&
    match r with
    | Err _ => false                                   (* only admissible requests are generated *)
    | Ok (P', err) =>
        let d : ocurve := (V, q, P', None) in
        o_wf d && Qleb 0 err
        && match expected with Some Pe => ptl_eqb P' Pe && Qeqb err 0 | None => true end
        && match sqdev c d with
           | Ok dv => Qeqb err (match nodes with None => dv | Some _ => dv / 2 end)
                      && (Qeqb err 0 || negb (Qeqb dv 0))
           | Err _ => false
           end
        && forallb (fun kk =>
             match moments c d kk with
             | Err _ => false
             | Ok m =>
                 match nodes with
                 | None => all_zero m
                 | Some zs =>
                     forallb (fun z => Qeqb (nth kk (o_eval d z) 0) (nth kk (o_eval c z) 0)) zs
                     && in_rowspace (map (Nrow V q q) zs) m
                 end
             end) (seq 0 (o_dim c))
    end in
  match to_curve c, make V None with
  | Ok cv, Ok kt =>
      mkv (match c_fit_curve kt cv nodes, r with
           | Ok (P', e), Ok (P2, e2) => ptl_eqb P' P2 && Qeqb e e2
           | Err e, Err e' => exn_eqb e e'
           | _, _ => false
           end) prop
  | _, _ => mkv false prop
  end.
