(* C20: intersection returns exactly the parameter pairs where the curves meet (segments and polylines). *)
From Coq Require Import QArith Qabs List Bool Arith.
From NurbsV Require Import Base.Res Base.QList Spec.KnotSpec Model.KV Model.Advanced Check.Common Check.Oracle Check.C19.
Import ListNotations.
Open Scope Q_scope.

(* (knots and vertices of A, knots and vertices of B, returned pairs (floats, exact), curves unchanged) *)
(* optional third component: A is the straight segment (ka, Pa) stored as a RATIONAL curve with collinear, ordered control
   points (same point set, monotone but non-linear parameter): its points are then evaluated with the exact NURBS
   specification, and the model's pairs are compared on B's parameter only (A's parameter is decided by A(t) = B(u)). *)
Definition case := (list Q * list pt * option ocurve * list Q * list pt * res (list (Q * Q)) * bool)%type.

Definition tol2 : Q := (2 # 1000000) * (2 # 1000000).      (* (2e-6)^2 on squared distances *)
Definition near (x y : Q * Q) : bool :=
  Qleb (Qabs (fst x - fst y)) slack && Qleb (Qabs (snd x - snd y)) slack.

Definition check_case (c : case) : verdict :=
  let '(ka, Pa, ra, kb, Pb, r, unchanged) := c in
  let pointA (t : Q) : pt := match ra with None => poly_point ka Pa t | Some oc => o_eval oc t end in
  let nearm (x y : Q * Q) : bool := match ra with None => near x y | Some _ => Qleb (Qabs (snd x - snd y)) slack end in
  let model := intersect_polylines ka Pa kb Pb in
  let (loa, hia) := (nth 0 ka 0, last ka 0) in
  let (lob, hib) := (nth 0 kb 0, last kb 0) in
  let interior (q : Q * Q) : bool :=
    forallb (fun k => Qltb (1 # 1000) (Qabs (fst q - k))) ka && forallb (fun k => Qltb (1 # 1000) (Qabs (snd q - k))) kb in
  match r with
  | Err _ => mkv false false
  | Ok ps =>
      let prop :=
        unchanged
        (* inside both intervals, and a meeting point *)
        && forallb (fun p : Q * Q => Qleb loa (fst p) && Qleb (fst p) hia && Qleb lob (snd p) && Qleb (snd p) hib
                                     && Qleb (dist2 (pointA (fst p)) (poly_point kb Pb (snd p))) tol2) ps
        (* no duplicates *)
        && forallb (fun i => forallb (fun j => Nat.eqb i j || negb (near (nth i ps (0, 0)) (nth j ps (0, 0))))
                                     (seq 0 (length ps))) (seq 0 (length ps))
        (* every transversal crossing in the interior of two pieces is reported (completeness is promised for those;
           touching at a vertex or an end point may be missed), and nothing but meeting points is reported *)
        && (match ra with Some _ => true | None => forallb (fun q => negb (interior q) || existsb (nearm q) ps) model end)
        && forallb (fun p => existsb (nearm p) model) ps
        && match ra with None => true | Some oc => o_wf oc end in
      (* completeness is promised (and modelled) for degree-1 curves only: a rational parametrisation of a straight segment is a
         rational arc, for which the library's Newton search from a grid of starts may miss a crossing *)
      mkv ((match ra with Some _ => true | None => forallb (fun q => negb (interior q) || existsb (nearm q) ps) model end)
           && forallb (fun p => existsb (nearm p) model) ps) prop
  end.
