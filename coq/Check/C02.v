(* C02: basis functions vs Cox-de Boor for every index and sub-degree. *)
From Coq Require Import QArith ZArith List Bool Arith.
From NurbsV Require Import Base.Res Base.QList Spec.KnotSpec Spec.BSpline Spec.BSplineExec
  Model.KV Model.Basis Model.FunctionM Check.Common.
Import ListNotations.

(* (U, degree reported by the implementation, weights, list of queries)
   query = (first index, second index j, node u, implementation outcome) *)
Definition query := (idx * Z * Q * res (list Q))%type.
Definition case := (list Q * nat * option (list Q) * list query)%type.

Definition specval (U : list Q) (p : nat) (W : option (list Q)) (j i : nat) (u : Q) : Q :=
  match W with None => Nxspec U p j i u | Some w => Rx U p w j i u end.

(* the rows an index selects, by the language's own indexing rules *)
Definition sel_indices (n : nat) (i : idx) : res (list nat) :=
  match i with
  | IInt z => if ((- Z.of_nat n <=? z) && (z <? Z.of_nat n))%Z
              then Ok [Z.to_nat (if (z <? 0)%Z then z + Z.of_nat n else z)%Z] else Err IndexError
  | ISlice a b c => match slice_indices (Z.of_nat n) a b c with
                    | Ok l => Ok (map Z.to_nat l) | Err e => Err e end
  end.

Definition query_prop (U : list Q) (p : nat) (W : option (list Q)) (q : query) : bool :=
  let '(i, j, u, r) := q in
  let n := npts_of U p in
  match sel_indices n i with
  | Err e => is_err e r
  | Ok ix =>
      if negb ((0 <=? j)%Z && (j <=? Z.of_nat p)%Z) then is_err IndexError r
      else if negb (in_range U p u) then is_err ValueError r
      else
        let jn := Z.to_nat j in
        match r with
        | Err _ => false
        | Ok vals =>
            ql_eqb vals (map (fun i => specval U p W jn i u) ix)
            (* non-negative, zero outside the support *)
            && forallb (fun v => Qleb 0 v) vals
            && allb (map2 (fun i v => if Qleb (nthq U i) u && Qleb u (nthq U (i + jn + 1)) then true
                                      else Qeqb v 0) ix vals)
        end
  end.

(* partition of unity of the full-degree row, from the implementation's own numbers *)
Definition unity_prop (U : list Q) (p : nat) (qs : list query) : bool :=
  forallb (fun q : query => let '(i, j, u, r) := q in
     match i, r with
     | ISlice None None None, Ok vals =>
         if (j =? Z.of_nat p)%Z && in_range U p u then Qeqb (qsum_red vals) 1 else true
     | _, _ => true
     end) qs.

Definition check_case (c : case) : verdict :=
  let '(U, p, W, qs) := c in
  let prop := wf_b U p && forallb (query_prop U p W) qs && unity_prop U p qs in
  match make U None with
  | Err _ => mkv false prop
  | Ok k =>
      let corr := Nat.eqb (kdeg k) p &&
        forallb (fun q : query => let '(i, j, u, r) := q in res_ql_eqb (func_eval k W i j u) r) qs in
      mkv corr prop
  end.
