(* C03: every reachable KnotVector is well-formed; queries agree; failures are atomic. *)
From Coq Require Import QArith List Bool Arith.
From NurbsV Require Import Base.Res Base.QList Spec.KnotSpec Model.KV Model.KVFacade Check.Common.
Import ListNotations.

(* observable state after a step, as reported by the implementation *)
Record obs := mkobs {
  o_vec : list Q; o_deg : nat; o_npts : nat; o_knots : list Q; o_lim : Q * Q;
  o_q : list (Q * res nat * res nat * bool)     (* node, span, mult, valid *)
}.

Definition view_eqb (a b : list Q * nat) : bool := ql_eqb (fst a) (fst b) && Nat.eqb (snd a) (snd b).
Definition kout_eqb : kout -> kout -> bool := res_eqb (list_eqb view_eqb).

Definition obs_corr (k : kv) (o : obs) : bool :=
  ql_eqb (kvec k) (o_vec o) && Nat.eqb (kdeg k) (o_deg o) && Nat.eqb (knpts k) (o_npts o)
  && ql_eqb (kknots k) (o_knots o)
  && Qeqb (kumin k) (fst (o_lim o)) && Qeqb (kumax k) (snd (o_lim o))
  && forallb (fun q => let '(u, sp, mu, va) := q in
                res_nat_eqb (kspan k u) sp && res_nat_eqb (kmult k u) mu && Bool.eqb (kvalid1 k u) va)
             (o_q o).

(* the spec-level reading of the observation: a well-formed vector whose answers agree
   with its element list *)
Definition obs_prop (o : obs) : bool :=
  let v := o_vec o in let p := o_deg o in
  wf_b v p
  && Nat.eqb (o_npts o) (length v - p - 1)
  && ql_eqb (o_knots o) (knots_spec v p)
  && Qeqb (fst (o_lim o)) (umin_of v p) && Qeqb (snd (o_lim o)) (umax_of v p)
  && forallb (fun q => let '(u, sp, mu, va) := q in
                Bool.eqb va (in_range v p u) &&
                if in_range v p u then
                  match sp with Ok s => span_ok v p u s | Err _ => false end
                  && res_nat_eqb mu (Ok (count_q u v))
                else is_err ValueError sp && is_err ValueError mu)
             (o_q o).

Definition returned_ok (r : kout) : bool :=
  match r with Ok vs => forallb (fun vd => wf_b (fst vd) (snd vd)) vs | Err _ => true end.

(* requests that must be refused, decided from the element list alone *)
Definition must_refuse (v : list Q) (p : nat) (o : kop) : bool :=
  match o with
  | OInsert ns | OPlus ns =>
      existsb (fun x => negb (in_range v p x)) ns
  | ORemove ns | OMinus ns =>
      existsb (fun x => Nat.ltb (count_q x v) (count_q x ns)) ns
  | OScale s => Qleb s 0
  | _ => false
  end.
Definition value_error_only (o : kop) : bool :=
  match o with OInsert _ | ORemove _ | OPlus _ | OMinus _ => true | _ => false end.

Definition case := (list Q * list (kop * kout * obs))%type.

Fixpoint run (k : kv) (prev : list Q * nat) (steps : list (kop * kout * obs)) (acc : verdict) : verdict :=
  match steps with
  | [] => acc
  | (o, r, ob) :: rest =>
      let '(k', mr) := kstep k o in
      let corr := kout_eqb mr r && obs_corr k' ob in
      let failed := any_err r in
      let prop :=
        obs_prop ob && returned_ok r
        && (if failed then view_eqb (o_vec ob, o_deg ob) prev else true)
        && (if must_refuse (fst prev) (snd prev) o then failed else true)
        && (if failed && value_error_only o then is_err ValueError r else true)
        && (match o with
            | OInsert _ | ORemove _ | OShift _ | OScale _ | ODivide _ | ONormalize | OConvertInt
            | OConvertFrac | OSetDegree _ | OIor _ | OIand _ => true
            | _ => view_eqb (o_vec ob, o_deg ob) prev        (* non-mutating *)
            end) in
      run k' (o_vec ob, o_deg ob) rest (mkv (corr_ok acc && corr) (prop_ok acc && prop))
  end.

Definition check_case (c : case) : verdict :=
  let '(U0, steps) := c in
  match make U0 None with
  | Err _ => mkv false false
  | Ok k => run k (kvec k, kdeg k) steps (mkv true true)
  end.

(* constructor cases: raw data (None = not a number), optional explicit degree,
   implementation outcome = (vector, degree) or exception class *)
Definition ccase := (list (option Q) * option nat * res (list Q * nat))%type.

Definition spec_accepts (v : list (option Q)) (deg : option nat) : bool :=
  match all_some v with
  | None => false
  | Some l => match deg with
              | Some d => wf_b l d
              | None => existsb (fun p => wf_b l p) (seq 0 (length l))
              end
  end.

Definition check_ccase (c : ccase) : verdict :=
  let '(v, deg, r) := c in
  let m := match make_raw v deg with Ok k => Ok (view k) | Err e => Err e end in
  let corr := res_eqb view_eqb m r in
  let prop :=
    match r with
    | Ok (l, p) => spec_accepts v deg && wf_b l p
                   && match all_some v with Some l0 => ql_eqb l l0 | None => false end
                   && match deg with Some d => Nat.eqb d p | None => true end
    | Err e => negb (spec_accepts v deg) && exn_eqb e ValueError
    end in
  mkv corr prop.
