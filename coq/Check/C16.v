(* C16: results do not depend on the number representation. *)
From Coq Require Import QArith Qabs List Bool Arith.
From NurbsV Require Import Base.Res Base.QList Check.Common.
Import ListNotations.
Open Scope Q_scope.

(* One logical operation executed under several representations of the same data.  Every run is flattened to the
   list of all numbers it returned (knots, control points, weights, values), floats converted exactly.
   (exact run with Fraction knots/parameters and Fraction points; the same with int points where integral;
    Python float run; numpy.float64 run; run with control points of a class that only supports point + point and
    scalar * point (where the operation is one of evaluation / insertion / elevation / splitting);
    every number of the exact runs was int or Fraction) *)
Definition case := (res (list Q) * option (res (list Q)) * res (list Q) * res (list Q) * option (res (list Q)) * bool)%type.

Definition tolr : Q := 1 # 1000000000.
Definition close (x y : Q) : bool := Qleb (Qabs (x - y)) (tolr * (1 + Qabs y)).
Definition all_close (a b : list Q) : bool :=
  Nat.eqb (length a) (length b) && forallb (fun xy => close (fst xy) (snd xy)) (combine a b).

Definition check_case (c : case) : verdict :=
  let '(exact, ints, floats, npfloats, generic, exact_types) := c in
  mkv true
    (exact_types &&
     match exact with
     | Err _ => false
     | Ok e =>
         match ints with None => true | Some (Ok i) => ql_eqb i e | Some (Err _) => false end
         && match floats with Ok f => all_close f e | Err _ => false end
         && match npfloats with Ok f => all_close f e | Err _ => false end
         && match generic with None => true | Some (Ok g) => ql_eqb g e | Some (Err _) => false end
     end).
