(* C09: Derivate(curve) is the derivative of the curve. *)
From Coq Require Import QArith Qabs List Bool Arith.
From NurbsV Require Import Base.Res Base.QList Spec.KnotSpec Spec.BSpline Gen.Consts Model.KV Model.CurveM
  Model.Ops Model.Linalg Model.Quadrature Model.CurveOps Model.CurveLS Model.Calculus Check.Common Check.Oracle.
Import ListNotations.
Open Scope Q_scope.

Definition to_curve (c : ocurve) : res curve :=
  do k <- make (o_U c) None; Ok (mkcurve k (Some (o_P c)) (o_W c)).
Definition of_curve (c : curve) : ocurve :=
  (kvec (ckv c), kdeg (ckv c), match cP c with Some P => P | None => [] end, cW c).
Definition ocurve_eqb (a b : ocurve) : bool :=
  ql_eqb (o_U a) (o_U b) && Nat.eqb (o_p a) (o_p b) && ptl_eqb (o_P a) (o_P b)
  && opt_eqb ql_eqb (o_W a) (o_W b).

(* the library computes difference quotients in float64: values are compared within 1e-9 (relative) *)
Definition tolr : Q := 1 # 1000000000.
Definition close (x y : Q) : bool := Qleb (Qabs (x - y)) (tolr * (1 + Qabs y)).
(* float64 cancellation: the library forms coeff * P_(i+1) - coeff * P_i in floats, so its absolute error grows with the SIZE of the
   control points (not of their differences): 1e-13 * max |P| * max coefficient p / (u_(i+p+1) - u_(i+1)) is allowed on top
   (about 1e-11 for ordinary data; it matters only for curves far from the origin whose extent is tiny) *)
Definition maxabs (l : list Q) : Q := fold_left (fun m x => if Qltb m (Qabs x) then Qabs x else m) l 0.
Definition amplification (c : ocurve) : Q :=
  let U := o_U c in let p := o_p c in
  fold_left (fun m i => let g := nth (i + p + 1) U 0 - nth (i + 1) U 0 in
                        if Qltb 0 g then (let a := inject_Z (Z.of_nat p) / g in if Qltb m a then a else m) else m)
            (seq 0 (length (o_P c) - 1)) 1.
Definition cancel_slack (c : ocurve) : Q := (1 # 10000000000000) * maxabs (concat (o_P c)) * amplification c.
Definition close_s (s x y : Q) : bool := Qleb (Qabs (x - y)) (tolr * (1 + Qabs y) + s).
Definition close_pt_s (s : Q) (a b : pt) : bool :=
  Nat.eqb (length a) (length b) && forallb (fun xy => close_s s (fst xy) (snd xy)) (combine a b).
Definition ocurve_close (s : Q) (a b : ocurve) : bool :=
  ql_eqb (o_U a) (o_U b) && Nat.eqb (o_p a) (o_p b) && Nat.eqb (length (o_P a)) (length (o_P b))
  && forallb (fun pq => close_pt_s s (fst pq) (snd pq)) (combine (o_P a) (o_P b))
  && match o_W a, o_W b with None, None => true | _, _ => false end.

(* (curve C, Derivate(C), C afterwards) *)
Definition case := (ocurve * res ocurve * ocurve)%type.

(* polynomial C: for every span [a,b] of the merged knots and m+1 points x in (a,b):
   int_a^x D = C(x) - C(a)   (open Newton-Cotes with enough nodes: exact for D's polynomial piece) *)
Definition integral_identity (c d : ocurve) : bool :=
  let m := Nat.max (o_p d + 1) (o_p c) in
  let n := (o_p d + 1)%nat in
  match compute_open n, open_linspace n with
  | Ok w, Ok x01 =>
      let lo := umin_of (o_U c) (o_p c) in let hi := umax_of (o_U c) (o_p c) in
      let ks := dedup_sorted (sortq (lo :: hi :: restrict lo hi (o_U c ++ o_U d))) in
      forallb (fun se : Q * Q =>
        let (a, b) := se in
        let ca := o_eval c a in
        forallb (fun j =>
          let x := Qred (a + (b - a) * (inject_Z (Z.of_nat j) / inject_Z (Z.of_nat (m + 2)))) in
          let h := x - a in
          let cx := o_eval c x in
          forallb (fun kk =>
            let q := qsum_red (map2 (fun wk t => Qred (wk * nth kk (o_eval d (Qred (a + h * t))) 0)) w x01) in
            close_s (cancel_slack c * (hi - lo)) (h * q) (nth kk cx 0 - nth kk ca 0)) (seq 0 (o_dim c)))
          (seq 1 (m + 1))) (pairs ks)
  | _, _ => false
  end.

(* rational C = N / W: D W^2 = N' W - N W' at sample points, N' and W' by the (exact) model derivative *)
Definition quotient_rule (c d : ocurve) (w : list Q) : bool :=
  let Nc : ocurve := (o_U c, o_p c, map2 (fun wi p => vscale wi p) w (o_P c), None) in
  let Wc : ocurve := (o_U c, o_p c, map (fun wi => [wi]) w, None) in
  match to_curve Nc, to_curve Wc with
  | Ok cn, Ok cw =>
      match c_derivate cn, c_derivate cw with
      | Ok dn, Ok dw =>
          let dN := of_curve dn in let dW := of_curve dw in
          integral_identity Nc dN && integral_identity Wc dW &&
          let lo := umin_of (o_U c) (o_p c) in let hi := umax_of (o_U c) (o_p c) in
          forallb (fun u =>
            if existsb (Qeqb u) (o_U c ++ o_U d) then true else      (* interior of spans only *)
            let wv := nth 0 (o_eval Wc u) 0 in
            let dwv := nth 0 (o_eval dW u) 0 in
            forallb (fun kk =>
              close (nth kk (o_eval d u) 0 * wv * wv)
                    (nth kk (o_eval dN u) 0 * wv - nth kk (o_eval Nc u) 0 * dwv)) (seq 0 (o_dim c)))
            (sample_set (4 * o_p c + 3) (o_U c ++ o_U d) lo hi)
      | _, _ => false
      end
  | _, _ => false
  end.

Definition check_case (cs : case) : verdict :=
  let '(c, r, c') := cs in
  let prop :=
    o_wf c && ocurve_eqb c' c &&
    match r with
    | Err _ => false
    | Ok d =>
        o_wf d && Qeqb (umin_of (o_U d) (o_p d)) (umin_of (o_U c) (o_p c))
        && Qeqb (umax_of (o_U d) (o_p d)) (umax_of (o_U c) (o_p c))
        && match o_W c with
           | None => integral_identity c d
           | Some w => if Nat.eqb (o_p c) 0 then integral_identity (o_U c, o_p c, o_P c, None) d else quotient_rule c d w
           end
    end in
  match o_W c, to_curve c with
  | None, Ok cv =>
      mkv (match c_derivate cv, r with
           | Ok dm, Ok d => ocurve_close (cancel_slack c) (of_curve dm) d
           | Err e, Err e' => exn_eqb e e'
           | _, _ => false
           end) prop
  | None, Err _ => mkv false prop
  | Some _, _ => mkv true prop
  end.
