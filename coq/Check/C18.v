(* C18: generators and affine maps produce exactly the advertised knot vectors. *)
From Coq Require Import QArith List Bool Arith.
From NurbsV Require Import Base.Res Base.QList Spec.KnotSpec Spec.BSpline Spec.BSplineExec Model.KV Check.Common.
Import ListNotations.
Open Scope Q_scope.

Definition vres := res (list Q * nat).
Definition view_eqb (a b : list Q * nat) : bool := ql_eqb (fst a) (fst b) && Nat.eqb (snd a) (snd b).
Definition vres_eqb : vres -> vres -> bool := res_eqb view_eqb.
Definition mview (r : res kv) : vres := match r with Ok k => Ok (kvec k, kdeg k) | Err e => Err e end.

(* ---------------- generators ---------------- *)
Inductive gkind := GBezier | GInteger | GUniform | GWeight | GRandom.
(* (kind, degree, npts, weights (GWeight/GRandom), outcome, every number is int/Fraction, npts reported) *)
Definition gcase := (gkind * nat * nat * list Q * vres * bool * nat)%type.

Definition interior (U : list Q) (p : nat) : list Q := firstn (length U - 2 * p - 2) (skipn (p + 1) U).
Fixpoint gaps (l : list Q) : list Q :=
  match l with a :: ((b :: _) as t) => Qred (b - a) :: gaps t | _ => [] end.
Definition all_eq (l : list Q) : bool := match l with [] => true | a :: t => forallb (Qeqb a) t end.
(* distinct values from umin to umax *)
Definition breaks (U : list Q) (p : nat) : list Q := firstn (length U - 2 * p) (skipn p U).

Definition gen_model (g : gkind) (p n : nat) (ws : list Q) : res kv :=
  match g with
  | GBezier => gen_bezier p
  | GInteger => gen_integer p n
  | GUniform => gen_uniform p n
  | GWeight => gen_weight p ws
  | GRandom => gen_random_from p ws
  end.

Definition check_gcase (c : gcase) : verdict :=
  let '(g, p, n, ws, r, exact_types, npts_rep) := c in
  let prop :=
    match r with
    | Err e => (* valid requests only are generated, apart from npts <= degree *)
        (n <=? p)%nat && exn_eqb e AssertionError
    | Ok (U, d) =>
        negb (n <=? p)%nat && exact_types && wf_b U d && Nat.eqb d p && Nat.eqb (npts_of U d) n && Nat.eqb npts_rep n
        && forallb (fun x => Nat.eqb (count_q x U) 1) (interior U p)            (* simple interior knots *)
        && match g with
           | GBezier => Qeqb (umin_of U p) 0 && Qeqb (umax_of U p) 1
           | GInteger => all_eq (gaps (breaks U p)) && Qeqb (umin_of U p) 0 && Qeqb (nthq U (S p) - nthq U p) 1
           | GUniform => all_eq (gaps (breaks U p)) && Qeqb (umin_of U p) 0 && Qeqb (umax_of U p) 1
           | GWeight => ql_eqb (gaps (breaks U p)) (map Qred ws) && Qeqb (umin_of U p) 0
           | GRandom => Qeqb (umin_of U p) 0 && Qeqb (umax_of U p) 1
                        (* spacing proportional to the drawn weights *)
                        && ql_eqb (gaps (breaks U p)) (map (fun w => Qred (w / qsum ws)) ws)
           end
    end in
  let nn := match g with GBezier => (p + 1)%nat | GWeight | GRandom => (p + length ws)%nat | _ => n end in
  let corr := match g with
              | GBezier | GWeight | GRandom => if (n <=? p)%nat then true else vres_eqb (mview (gen_model g p nn ws)) r
              | _ => vres_eqb (mview (gen_model g p n ws)) r
              end in
  mkv corr prop.

(* ---------------- affine maps ---------------- *)
Inductive aop := AShift (a : Q) | AScale (s : Q) | ANormalize.
(* (U, p, op, outcome, nodes u, basis values N_{.,p}(u) on U, mapped nodes, basis values on the new vector,
    curve values before, curve values after (same control points), control points) *)
Definition acase := (list Q * nat * aop * vres * list Q * list (list Q) * list Q * list (list Q)
                     * list Q * list Q * list Q)%type.

Definition amap (U : list Q) (o : aop) (x : Q) : Q :=
  match o with
  | AShift a => Qred (x + a)
  | AScale s => Qred (x * s)
  | ANormalize => Qred ((x - first_q U) / (last_q U - first_q U))
  end.
Definition a_ok (o : aop) : bool := match o with AScale s => Qltb 0 s | _ => true end.

Definition check_acase (c : acase) : verdict :=
  let '(U, p, o, r, nodes, vals0, nodes', vals1, cv0, cv1, P) := c in
  let prop :=
    wf_b U p &&
    match r with
    | Err e => negb (a_ok o)
    | Ok (U', d) =>
        a_ok o && wf_b U' d && Nat.eqb d p && Nat.eqb (length U') (length U)
        && ql_eqb U' (map (amap U o) U)                                        (* every knot mapped affinely *)
        && forallb (fun x => Nat.eqb (count_q (amap U o x) U') (count_q x U)) U  (* multiplicities kept *)
        && (match o with ANormalize => Qeqb (umin_of U' p) 0 && Qeqb (umax_of U' p) 1 | _ => true end)
        && ql_eqb nodes' (map (amap U o) nodes)
        (* invariance of the basis and of curves, on the implementation's own values, against the spec *)
        && qll_eqb vals0 (map (Nrow U p p) nodes) && qll_eqb vals1 vals0
        && ql_eqb cv0 (map (curve_x1 U p P) nodes) && ql_eqb cv1 cv0
    end in
  match make U None with
  | Err _ => mkv false prop
  | Ok k =>
      let m := match o with AShift a => kshift k a | AScale s => kscale k s | ANormalize => knormalize k end in
      mkv (match m, r with
           | Ok k', Ok v => view_eqb (kvec k', kdeg k') v
           | Err _, Err _ => true
           | _, _ => false
           end) prop
  end.
