(* C05: knot removal is exact when possible, refused otherwise, never silently lossy. *)
From Coq Require Import QArith List Bool Arith.
From NurbsV Require Import Base.Res Base.QList Spec.KnotSpec Spec.BSpline Gen.Consts Model.KV Model.CurveM
  Model.Ops Model.CurveOps Model.CurveLS Check.Common Check.Oracle.
Import ListNotations.
Open Scope Q_scope.

Definition to_curve (c : ocurve) : res curve :=
  do k <- make (o_U c) None; Ok (mkcurve k (Some (o_P c)) (o_W c)).
Definition of_curve (c : curve) : ocurve :=
  (kvec (ckv c), kdeg (ckv c), match cP c with Some P => P | None => [] end, cW c).
Definition ocurve_eqb (a b : ocurve) : bool :=
  ql_eqb (o_U a) (o_U b) && Nat.eqb (o_p a) (o_p b) && ptl_eqb (o_P a) (o_P b)
  && opt_eqb ql_eqb (o_W a) (o_W b).

(* tolerance argument: TDefault (the documented 1e-9), TNone, TGiven t *)
Inductive tolarg := TDefault | TNone | TGiven (t : Q).
Definition default_tol : Q := 1 # 1000000000.
Definition prop_tol (t : tolarg) : option Q :=
  match t with TDefault => Some default_tol | TNone => None | TGiven x => Some x end.
Definition model_tol (t : tolarg) : option Q :=
  match t with TDefault => Some tol_remove | TNone => None | TGiven x => Some x end.

(* (original curve when `before` = original.knot_insert(nodes); curve before; nodes; tolerance;
    outcome of knot_remove; curve after) *)
Definition case := (option ocurve * ocurve * list Q * tolarg * res unit * ocurve)%type.

Definition qmaxq (a b : Q) : Q := if Qltb a b then b else a.

Definition remaining_knots (c : ocurve) : list Q :=
  dedup_sorted (firstn (length (o_U c) - 2 * o_p c) (skipn (o_p c) (o_U c))).

Definition check_case (cs : case) : verdict :=
  let '(orig, before, nodes, tol, r, after) := cs in
  let U := o_U before in let p := o_p before in
  let len := umax_of U p - umin_of U p in
  (* the request is admissible when every node is an interior knot with enough copies *)
  let removable_kv := match remove_all nodes U with
                      | Some U' => wf_b U' p && Qeqb (first_q U') (first_q U) && Qeqb (last_q U') (last_q U)
                      | None => false
                      end in
  let prop :=
    o_wf before &&
    match r with
    | Err e => exn_eqb e ValueError && ocurve_eqb after before
               && match orig with Some _ => false | None => true end        (* undoing an insertion must succeed *)
               && match tol with TNone => negb removable_kv | _ => true end   (* tolerance=None always succeeds *)
    | Ok _ =>
        removable_kv && o_wf after && Nat.eqb (o_p after) p
        && same_multiset (o_U after ++ nodes) U
        && match o_W before with None => match o_W after with None => true | Some _ => false end | Some _ => true end
        && match orig with
           | Some o => ocurve_eqb after o                                     (* exactly the curve before the insertion *)
           | None => true
           end
        && match prop_tol tol with
           | Some t => match sqdev before after with
                       | Ok dv => Qleb dv (2 * t * qmaxq 1 len)
                       | Err _ => false
                       end
           | None =>   (* interpolation at every remaining knot, both ends included *)
               forallb (fun z => ql_eqb (o_eval after z) (o_eval before z)) (remaining_knots after)
           end
    end in
  match o_W before, to_curve before with
  | Some _, _ => mkv true prop                       (* rational path: outside the exact model (K1) *)
  | None, Err _ => mkv false prop
  | None, Ok cv =>
      mkv (match c_knot_remove cv nodes (model_tol tol), r with
           | Ok cv', Ok _ => ocurve_eqb (of_curve cv') after
           | Err e, Err e' => exn_eqb e e'
           | _, _ => false
           end) prop
  end.
