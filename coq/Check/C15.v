(* C15: curves stay consistent; failed operations are atomic; operands stay untouched. *)
From Coq Require Import QArith List Bool Arith.
From NurbsV Require Import Base.Res Base.QList Spec.KnotSpec Spec.BSpline Gen.Consts Model.KV Model.CurveM
  Model.Ops Model.CurveOps Model.CurveLS Check.Common.
Import ListNotations.
Open Scope Q_scope.

(* observable state of one curve: knot vector, degree, control points (None when unset), weights *)
Definition snap := (list Q * nat * option (list pt) * option (list Q))%type.
Definition s_U (s : snap) := let '(U, _, _, _) := s in U.
Definition s_p (s : snap) := let '(_, p, _, _) := s in p.
Definition s_P (s : snap) := let '(_, _, P, _) := s in P.
Definition s_W (s : snap) := let '(_, _, _, W) := s in W.

Definition snap_eqb (a b : snap) : bool :=
  ql_eqb (s_U a) (s_U b) && Nat.eqb (s_p a) (s_p b) && opt_eqb ptl_eqb (s_P a) (s_P b) && opt_eqb ql_eqb (s_W a) (s_W b).

(* the invariant of the property *)
Definition consistent (s : snap) : bool :=
  wf_b (s_U s) (s_p s)
  && match s_P s with
     | None => true
     | Some P => Nat.eqb (length P) (npts_of (s_U s) (s_p s))
                 && match P with [] => true | p0 :: _ => forallb (fun q => Nat.eqb (length q) (length p0)) P end
     end
  && match s_W s with None => true | Some w => Nat.eqb (length w) (npts_of (s_U s) (s_p s)) end.

Inductive tolarg := TDefault | TNone | TGiven (t : Q).
Inductive sop :=
| SInsert (ns : list Q) | SRemove (ns : list Q) (tol : tolarg)
| SInc (t : Z) | SDec (t : Z) (tol : tolarg) | SSetDeg (d : Z)
| SSetP (P : list pt) | SSetW (W : option (list Q))
| SClean | SKnotClean | SDegClean
| SFit            (* curve.fit_curve(rational source): a mutator outside the exact model *)
| SPure.          (* evaluation, arithmetic, ==, split, fraction, copy, Derivate, Integrate, fitting ANOTHER curve to it, ... *)

(* (target curve, operation, outcome, states of all curves afterwards, states of the KnotVector objects the curves
    were built from, every curve with control points evaluated fine at umin / middle / umax) *)
Definition step := (nat * sop * res unit * list snap * list (list Q) * bool)%type.
(* (initial curve states, initial KnotVector objects, steps) *)
Definition case := (list snap * list (list Q) * list step)%type.

Definition to_curve (s : snap) : res curve :=
  do k <- make (s_U s) None; Ok (mkcurve k (s_P s) (s_W s)).
Definition of_curve (c : curve) : snap := (kvec (ckv c), kdeg (ckv c), cP c, cW c).

Definition mtol (t : tolarg) (dflt : Q) : option Q :=
  match t with TDefault => Some dflt | TNone => None | TGiven x => Some x end.

(* model of the mutators on polynomial curves with control points; None = not modelled (rational LS path, setters of
   weights with root finding, ...) *)
Definition model_step (s : snap) (o : sop) : option (res snap) :=
  match s_W s, s_P s, to_curve s with
  | None, Some P, Ok c =>
      let wrap (r : res curve) := Some (match r with Ok c' => Ok (of_curve c') | Err e => Err e end) in
      match o with
      | SInsert ns => wrap (c_knot_insert c ns)
      | SRemove ns tol => wrap (c_knot_remove c ns (mtol tol tol_remove))
      | SInc t => wrap (if (t <=? 0)%Z then Err ValueError else c_degree_increase c (Z.to_nat t))
      | SDec t tol => wrap (if (t <=? 0)%Z then Err ValueError else c_degree_decrease c (Z.to_nat t) (mtol tol tol_decrease))
      | SSetDeg d => wrap (if (d <? 0)%Z then Err ValueError else c_set_degree c (Z.to_nat d))
      | SSetP P' => Some (if Nat.eqb (length P') (knpts (ckv c)) then Ok (s_U s, s_p s, Some P', None) else Err ValueError)
      | SClean => wrap (c_clean c tol_clean)
      | SKnotClean => wrap (c_knot_clean c None tol_kclean)
      | SDegClean => wrap (c_degree_clean c tol_dclean)
      | _ => None
      end
  | _, _, _ => None
  end.

Fixpoint run (prev : list snap) (kvs : list (list Q)) (steps : list step) : bool * bool :=
  match steps with
  | [] => (true, true)
  | (tgt, o, r, now, kvnow, evalok) :: rest =>
      let same := list_eqb snap_eqb now prev in
      let others_same :=
        Nat.eqb (length now) (length prev)
        && forallb (fun i => Nat.eqb i tgt || snap_eqb (nth i now ([], O, None, None)) (nth i prev ([], O, None, None)))
                   (seq 0 (length prev)) in
      let prop :=
        forallb consistent now && evalok
        && list_eqb ql_eqb kvnow kvs                      (* the KnotVector objects handed to the constructors never change *)
        && match r, o with
           | Err _, _ => same                              (* failed operations are atomic *)
           | Ok _, SPure => same                           (* non-mutating operations touch nothing *)
           | Ok _, _ => others_same                        (* a mutator touches its own curve only *)
           end in
      let corr :=
        match model_step (nth tgt prev ([], O, None, None)) o with
        | None => true
        | Some (Ok s') => match r with Ok _ => snap_eqb (nth tgt now ([], O, None, None)) s' | Err _ => false end
        | Some (Err e) => match r with Err e' => exn_eqb e e' | Ok _ => false end
        end in
      let (c2, p2) := run now kvs rest in
      (corr && c2, prop && p2)
  end.

Definition check_case (cs : case) : verdict :=
  let '(init, kvs, steps) := cs in
  let (c, p) := run init kvs steps in
  mkv c (forallb consistent init && p).
