(* C19: projection returns nearest-point parameters (polylines: exact model and oracle). *)
From Coq Require Import QArith Qabs ZArith List Bool Arith.
From NurbsV Require Import Base.Res Base.QList Spec.KnotSpec Model.KV Model.Advanced Check.Common.
Import ListNotations.
Open Scope Q_scope.

(* (distinct knots u_0 < .. < u_m, vertices P_0 .. P_m, point, returned parameters (floats, exact), curve unchanged) *)
Definition case := (list Q * list pt * option (list Q) * pt * res (list Q) * bool)%type.

(* a degree-1 NURBS with weights w_i is the polyline with a warped parameter: on the piece [a,b] with end weights w0, w1 and
   s = (t-a)/(b-a) the point is P0 + lam (P1 - P0) with lam = s w1 / ((1-s) w0 + s w1).  warp: NURBS parameter -> polyline
   parameter; unwarp: its inverse, s = lam w0 / (w1 - lam w1 + lam w0). *)
Fixpoint wsegs (ks W : list Q) : list (Q * Q * Q * Q) :=
  match ks, W with
  | a :: ((b :: _) as kt), w0 :: ((w1 :: _) as wt) => (a, b, w0, w1) :: wsegs kt wt
  | _, _ => []
  end.
Definition on_piece (t : Q) (s : Q * Q * Q * Q) : bool := let '(a, b, _, _) := s in Qleb a t && Qleb t b.
Definition warp (ks : list Q) (W : option (list Q)) (t : Q) : Q :=
  match W with
  | None => t
  | Some W => match filter (on_piece t) (wsegs ks W) with
              | (a, b, w0, w1) :: _ => let s := (t - a) / (b - a) in
                                       Qred (a + (b - a) * (s * w1 / ((1 - s) * w0 + s * w1)))
              | [] => t
              end
  end.
Definition unwarp (ks : list Q) (W : option (list Q)) (t : Q) : Q :=
  match W with
  | None => t
  | Some W => match filter (on_piece t) (wsegs ks W) with
              | (a, b, w0, w1) :: _ => let lam := (t - a) / (b - a) in
                                       Qred (a + (b - a) * (lam * w0 / (w1 - lam * w1 + lam * w0)))
              | [] => t
              end
  end.

Definition eps : Q := 1 # 1000000.           (* the 1e-6 of the property *)
Definition slack : Q := 2 # 1000000.
(* rational bounds of a square root: floor and ceiling at 1e-12 *)
Definition sqrt_lo (m : Q) : Q :=
  let n := Z.sqrt (Qnum (Qred (m * (1000000000000000000000000 # 1))) / Zpos (Qden (Qred (m * (1000000000000000000000000 # 1))))) in
  inject_Z n / (1000000000000 # 1).
Definition sqrt_hi (m : Q) : Q := sqrt_lo m + (1 # 1000000000000).

Fixpoint increasing_le (l : list Q) : bool :=
  match l with a :: ((b :: _) as t) => Qleb a b && increasing_le t | _ => true end.

(* exact point of the polyline at a parameter (right-continuous choice of the piece is irrelevant: it is continuous) *)
Definition poly_point (ks : list Q) (P : list pt) (u : Q) : pt :=
  match filter (fun s : Q * Q * pt * pt => let '(a, b, _, _) := s in Qleb a u && Qleb u b) (segments ks P) with
  | s :: _ => seg_point s u
  | [] => []
  end.

Definition check_case (c : case) : verdict :=
  let '(ks, P, W, x, r, unchanged) := c in
  let cs := project_candidates ks P x in
  let m := qmin_list (map snd cs) in                       (* exact minimum of the squared distance *)
  let lo := nth 0 ks 0 in let hi := last ks 0 in
  let bound := m + 2 * slack * sqrt_hi m + slack * slack in (* (sqrt m + slack)^2, from above *)
  let model := map (unwarp ks W) (project_polyline ks P x) in
  match r with
  | Err _ => mkv false false
  | Ok ts =>
      let prop :=
        unchanged && negb (Nat.eqb (length ts) 0) && increasing_le ts
        && forallb (fun t => Qleb lo t && Qleb t hi) ts
        && forallb (fun t => Qleb (dist2 (poly_point ks P (warp ks W t)) x) bound) ts in
      (* correspondence: the same SET of parameters up to 1e-6 (the library may repeat a parameter found from two starts) *)
      (* every exact minimiser is returned; a returned parameter is either (within 1e-6 of) an exact minimiser or a NEAR tie:
         a candidate (knot or foot point) whose distance is within 1e-6 of the minimum - the library keeps those, as the
         property allows ("all at the same distance within 1e-6") *)
      let corr := forallb (fun t => existsb (fun tm => Qleb (Qabs (t - tm)) slack) model
                                    || Qleb (dist2 (poly_point ks P (warp ks W t)) x) bound) ts
                  && forallb (fun tm => existsb (fun t => Qleb (Qabs (t - tm)) slack) ts) model in
      mkv corr prop
  end.
