(* C12: fit_points / fit_function solve the discrete least-squares problem exactly. *)
From Coq Require Import QArith List Bool Arith.
From NurbsV Require Import Base.Res Base.QList Spec.KnotSpec Spec.BSpline Spec.BSplineExec Model.KV Model.CurveM
  Model.Ops Model.Linalg Model.CurveOps Model.CurveLS Check.Common.
Import ListNotations.
Open Scope Q_scope.

(* (U, p, weights of the receiving curve, nodes given (None = default), the nodes the implementation's
    fit_function would be expected to use when `by_function`, data points Z (or samples of f),
    fitted control points, expected control points when the data come from a curve of the same space,
    by_function: the call was curve.fit_function(f)) *)
Definition case := (list Q * nat * option (list Q) * option (list Q) * list pt * res (list pt)
                    * option (list pt) * bool)%type.

(* collocation row of the SPECIFICATION at z: R_i(z) *)
Definition spec_row (U : list Q) (p : nat) (W : option (list Q)) (z : Q) : list Q :=
  match W with
  | None => Nrow U p p z
  | Some w => map (fun i => Rx U p w p i z) (seq 0 (npts_of U p))
  end.

Definition all_zero_pt (v : pt) : bool := forallb (fun x => Qeqb x 0) v.

Definition check_case (cs : case) : verdict :=
  let '(U, p, W, nodes, Z, r, expected, by_function) := cs in
  let n := npts_of U p in
  match make U None with
  | Err _ => mkv false false
  | Ok k =>
      let used_nodes :=
        match nodes with
        | Some l => Ok l
        | None => if by_function then fit_function_nodes k else default_fit_nodes k (length Z)
        end in
      let cv := mkcurve k None W in
      let model := match used_nodes with
                   | Ok zs => c_fit_points cv Z (Some zs)
                   | Err e => if (length Z <? n)%nat then Err AssertionError else Err e
                   end in
      let prop :=
        wf_b U p &&
        match r with
        | Err e => (length Z <? n)%nat || (Nat.eqb (length Z) 1 && match nodes with None => true | _ => false end)
                   (* nodes that are not unisolvent: the normal matrix is singular (certified by the model) *)
                   || (exn_eqb e ZeroDivisionError && is_err ZeroDivisionError model)
        | Ok Q =>
            negb (length Z <? n)%nat && Nat.eqb (length Q) n
            && match expected with Some Pe => ptl_eqb Q Pe | None => true end
            && match used_nodes with
               | Err _ => false
               | Ok zs =>
                   Nat.eqb (length zs) (length Z) &&
                   let B := map (spec_row U p W) zs in                  (* nodes x npts *)
                   let resid := map2 (fun row z => vadd (hd [] (mat_apply [row] Q)) (vscale (-1) z)) B Z in
                   (* B^T (B Q - Z) = 0, coordinate-wise *)
                   forallb all_zero_pt (mat_apply (mtrans_n n B) resid)
                   && (if Nat.eqb (length Z) n then forallb all_zero_pt resid else true)
               end
        end in
      mkv (match model, r with
           | Ok Q', Ok Q => ptl_eqb Q' Q
           | Err e, Err e' => exn_eqb e e'
           | _, _ => false
           end) prop
  end.
