(* C07: splitting restricts the curve exactly; joining adjacent pieces restores it. *)
From Coq Require Import QArith List Bool Arith.
From NurbsV Require Import Base.Res Base.QList Spec.KnotSpec Spec.BSpline Model.KV Model.CurveM
  Model.Ops Model.CurveOps Model.CurveLS Check.Common Check.Oracle.
Import ListNotations.
Open Scope Q_scope.

Definition to_curve (c : ocurve) : res curve :=
  do k <- make (o_U c) None; Ok (mkcurve k (Some (o_P c)) (o_W c)).
Definition of_curve (c : curve) : ocurve :=
  (kvec (ckv c), kdeg (ckv c), match cP c with Some P => P | None => [] end, cW c).
Definition ocurve_eqb (a b : ocurve) : bool :=
  ql_eqb (o_U a) (o_U b) && Nat.eqb (o_p a) (o_p b) && ptl_eqb (o_P a) (o_P b)
  && opt_eqb ql_eqb (o_W a) (o_W b).
Definition has_w (c : ocurve) : bool := match o_W c with Some _ => true | None => false end.
Definition o_umin (c : ocurve) := umin_of (o_U c) (o_p c).
Definition o_umax (c : ocurve) := umax_of (o_U c) (o_p c).

(* ---------------- split ---------------- *)
(* (curve, nodes (None = split()), outcome, curve afterwards) *)
Definition scase := (ocurve * option (list Q) * res (list ocurve) * ocurve)%type.

Definition cuts_of (c : ocurve) (nodes : list Q) : list Q :=
  dedup_sorted (sortq (o_umin c :: o_umax c :: nodes)).

Fixpoint pieces_ok (c : ocurve) (cuts : list Q) (ps : list ocurve) : bool :=
  match cuts, ps with
  | a :: ((b :: rest) as t), pc :: ps' =>
      o_wf pc && Nat.eqb (o_p pc) (o_p c) && Bool.eqb (has_w pc) (has_w c)
      && Qeqb (o_umin pc) a && Qeqb (o_umax pc) b
      && Qeqb (first_q (o_U pc)) a && Qeqb (last_q (o_U pc)) b            (* clamped on [a, b] *)
      && fun_eq_on pc c a b (match rest with [] => true | _ => false end)
      && pieces_ok c t ps'
  | [_], [] => true
  | _, _ => false
  end.

Definition interior_knots (c : ocurve) : list Q :=
  dedup_sorted (firstn (length (o_U c) - 2 * o_p c) (skipn (o_p c) (o_U c))).

Definition check_scase (sc : scase) : verdict :=
  let '(c, nodes, r, after) := sc in
  let ns := match nodes with Some l => l | None => interior_knots c end in
  let inside := forallb (in_range (o_U c) (o_p c)) ns in
  let prop :=
    o_wf c && ocurve_eqb after c &&
    match r with
    | Ok ps => inside && pieces_ok c (cuts_of c ns) ps
    | Err e => negb inside && exn_eqb e ValueError
    end in
  match to_curve c with
  | Err _ => mkv false prop
  | Ok cv =>
      mkv (match c_split cv nodes, r with
           | Ok cs, Ok ps => list_eqb ocurve_eqb (map of_curve cs) ps
           | Err e, Err e' => exn_eqb e e'
           | _, _ => false
           end) prop
  end.

(* ---------------- join ---------------- *)
(* (A, B, A | B, A afterwards, B afterwards, optional original curve C when A, B, .. are the pieces of C:
    then the case is (first piece, remaining pieces folded by the implementation) and C is given) *)
Definition jcase := (ocurve * ocurve * res ocurve * ocurve * ocurve)%type.

Definition check_jcase (jc : jcase) : verdict :=
  let '(a, b, r, a', b') := jc in
  let x := o_umax a in
  let prop :=
    o_wf a && o_wf b && ocurve_eqb a' a && ocurve_eqb b' b &&
    match r with
    | Ok j =>
        Qeqb x (o_umin b) && o_wf j
        && Qeqb (o_umin j) (o_umin a) && Qeqb (o_umax j) (o_umax b)
        && fun_eq_on j a (o_umin a) x false
        && fun_eq_on j b x (o_umax b) true
    | Err e => negb (Qeqb x (o_umin b)) && exn_eqb e ValueError
    end in
  match to_curve a, to_curve b with
  | Ok ca, Ok cb =>
      mkv (match c_join ca cb, r with
           | Ok j', Ok j => ocurve_eqb (of_curve j') j
           | Err e, Err e' => exn_eqb e e'
           | _, _ => false
           end) prop
  | _, _ => mkv false prop
  end.

(* split then join everything back: (C, nodes, joined curve, strict) - strict = the junction knots must not
   keep more multiplicity than the original vector had there (relaxed to degree+1 for rational curves:
   known finding K6, the library cannot clean a rational junction exactly) *)
Definition sjcase := (ocurve * list Q * res ocurve * bool)%type.
Definition check_sjcase (c : sjcase) : verdict :=
  let '(c0, nodes, r, strict) := c in
  let cuts := cuts_of c0 nodes in
  let prop :=
    o_wf c0 &&
    match r with
    | Ok j =>
        o_wf j && Nat.eqb (o_p j) (o_p c0) && fun_eq j c0
        (* the original knot vector, except that a junction knot may keep a lower multiplicity *)
        && forallb (fun x => if existsb (Qeqb x) cuts
                             then (count_q x (o_U j) <=? (if strict then count_q x (o_U c0) else o_p c0 + 1))%nat
                             else Nat.eqb (count_q x (o_U j)) (count_q x (o_U c0))) (o_U c0 ++ o_U j)
    | Err _ => false
    end in
  mkv true prop.
