(* C04: knot insertion never changes the curve and yields exactly the requested knots. *)
From Coq Require Import QArith List Bool Arith.
From NurbsV Require Import Base.Res Base.QList Spec.KnotSpec Spec.BSpline Model.KV Model.CurveM
  Model.Ops Model.CurveOps Check.Common Check.Oracle.
Import ListNotations.

(* (curve before, nodes, outcome of knot_insert, curve after) *)
Definition case := (ocurve * list Q * res unit * ocurve)%type.

Definition to_curve (c : ocurve) : res curve :=
  do k <- make (o_U c) None; Ok (mkcurve k (Some (o_P c)) (o_W c)).
Definition of_curve (c : curve) : ocurve :=
  (kvec (ckv c), kdeg (ckv c), match cP c with Some P => P | None => [] end, cW c).
Definition ocurve_eqb (a b : ocurve) : bool :=
  ql_eqb (o_U a) (o_U b) && Nat.eqb (o_p a) (o_p b) && ptl_eqb (o_P a) (o_P b)
  && opt_eqb ql_eqb (o_W a) (o_W b).

Definition must_refuse (U : list Q) (p : nat) (nodes : list Q) : bool :=
  existsb (fun x => negb (in_range U p x) || Nat.ltb (p + 1) (count_q x (U ++ nodes))) nodes.

Definition check_case (c : case) : verdict :=
  let '(before, nodes, r, after) := c in
  let U := o_U before in let p := o_p before in
  let prop :=
    o_wf before &&
    match r with
    | Ok _ =>
        negb (must_refuse U p nodes)
        && o_wf after && Nat.eqb (o_p after) p
        && ql_eqb (o_U after) (sortq (U ++ nodes))
        && Bool.eqb (match o_W after with Some _ => true | None => false end)
                    (match o_W before with Some _ => true | None => false end)
        && fun_eq before after
    | Err e => must_refuse U p nodes && exn_eqb e ValueError && ocurve_eqb after before
    end in
  match to_curve before with
  | Err _ => mkv false prop
  | Ok cv =>
      let corr :=
        match c_knot_insert cv nodes, r with
        | Ok cv', Ok _ => ocurve_eqb (of_curve cv') after
        | Err e, Err e' => exn_eqb e e' && ocurve_eqb after before
        | _, _ => false
        end in
      mkv corr prop
  end.
