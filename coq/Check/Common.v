(* Harness side, evaluated by coqc on generated case files: every case yields two booleans,
   corr_ok (model output = implementation output) and prop_ok (implementation output
   satisfies the property's spec-level relation).  Not part of the proofs. *)
From Coq Require Import QArith List Bool Arith.
From NurbsV Require Import Base.Res Base.QList.
Import ListNotations.

Record verdict := mkv { corr_ok : bool; prop_ok : bool }.

(* (number of cases, indices with corr_ok = false, indices with prop_ok = false) *)
Definition report (vs : list verdict) : nat * list nat * list nat :=
  let ix := combine (seq 0 (length vs)) vs in
  (length vs,
   map fst (filter (fun iv => negb (corr_ok (snd iv))) ix),
   map fst (filter (fun iv => negb (prop_ok (snd iv))) ix)).

Definition allb (l : list bool) : bool := forallb (fun b => b) l.

(* implementation outcomes *)
Definition res_q_eqb := res_eqb Qeqb.
Definition res_ql_eqb := res_eqb ql_eqb.
Definition res_qll_eqb := res_eqb qll_eqb.
Definition res_nat_eqb := res_eqb Nat.eqb.
Definition res_natl_eqb := res_eqb natl_eqb.
Definition res_bool_eqb := res_eqb Bool.eqb.

Definition is_err {A} (e : exn) (r : res A) : bool :=
  match r with Err e' => exn_eqb e e' | Ok _ => false end.
Definition any_err {A} (r : res A) : bool := match r with Err _ => true | Ok _ => false end.

(* printable view of a rational: (numerator, denominator) *)
Definition qview (x : Q) : Z * Z := let y := Qred x in (Qnum y, Zpos (Qden y)).
