(* The function-equality oracle: two curves are compared, through the SPECIFICATION
   evaluators, at enough distinct rational points of every non-empty span of the merged
   knot values (a polynomial of degree <= d with d+1 roots is zero), at every knot and at
   both ends. *)
From Coq Require Import QArith List Bool Arith.
From NurbsV Require Import Base.Res Base.QList Spec.KnotSpec Spec.BSpline Spec.BSplineExec Model.KV Check.Common.
Import ListNotations.
Open Scope Q_scope.

(* an observed curve: knot vector, degree, control points, weights *)
Definition ocurve := (list Q * nat * list pt * option (list Q))%type.
Definition o_U (c : ocurve) := let '(U, _, _, _) := c in U.
Definition o_p (c : ocurve) := let '(_, p, _, _) := c in p.
Definition o_P (c : ocurve) := let '(_, _, P, _) := c in P.
Definition o_W (c : ocurve) := let '(_, _, _, W) := c in W.
Definition o_dim (c : ocurve) : nat := match o_P c with [] => O | pt :: _ => length pt end.

Definition o_wf (c : ocurve) : bool :=
  wf_b (o_U c) (o_p c)
  && Nat.eqb (length (o_P c)) (npts_of (o_U c) (o_p c))
  && forallb (fun pt => Nat.eqb (length pt) (o_dim c)) (o_P c)
  && match o_W c with None => true | Some w => Nat.eqb (length w) (length (o_P c)) end.

Definition o_eval (c : ocurve) (u : Q) : list Q :=
  match o_W c with
  | None => curve_x (o_U c) (o_p c) (o_dim c) (o_P c) u
  | Some w => rational_x (o_U c) (o_p c) (o_dim c) w (o_P c) u
  end.

(* m interior points of (a, b) *)
Definition interior_pts (m : nat) (a b : Q) : list Q :=
  map (fun k => Qred (a + (b - a) * (inject_Z (Z.of_nat k) / inject_Z (Z.of_nat (m + 1))))) (seq 1 m).

Fixpoint span_pts (m : nat) (ks : list Q) : list Q :=
  match ks with
  | a :: ((b :: _) as t) => a :: interior_pts m a b ++ span_pts m t
  | _ => ks
  end.

Definition restrict (lo hi : Q) (l : list Q) : list Q := filter (fun x => Qleb lo x && Qleb x hi) l.

(* sample set for comparing functions of degree <= d pieces whose breakpoints are in vs *)
Definition sample_set (d : nat) (vs : list Q) (lo hi : Q) : list Q :=
  span_pts d (dedup_sorted (sortq (lo :: hi :: restrict lo hi vs))).

Definition pts_needed (a b : ocurve) : nat :=
  let d := Nat.max (o_p a) (o_p b) in
  match o_W a, o_W b with None, None => d + 1 | _, _ => 2 * d + 1 end.

(* a and b are the same function on [lo, hi] (half-open at hi when closed_hi = false) *)
Definition fun_eq_on (a b : ocurve) (lo hi : Q) (closed_hi : bool) : bool :=
  let S := sample_set (pts_needed a b) (o_U a ++ o_U b) lo hi in
  forallb (fun u => if negb closed_hi && Qeqb u hi then true else ql_eqb (o_eval a u) (o_eval b u)) S.

Definition fun_eq (a b : ocurve) : bool :=
  Qeqb (umin_of (o_U a) (o_p a)) (umin_of (o_U b) (o_p b))
  && Qeqb (umax_of (o_U a) (o_p a)) (umax_of (o_U b) (o_p b))
  && fun_eq_on a b (umin_of (o_U a) (o_p a)) (umax_of (o_U a) (o_p a)) true.

(* multiset equality of sorted vectors *)
Definition same_multiset (a b : list Q) : bool := ql_eqb (sortq a) (sortq b).

(* ---- exact integral of the squared deviation of two polynomial curves, per coordinate ----
   On every span of the merged knots the difference is a polynomial of degree <= d = max degree, its
   square of degree <= 2d: the open Newton-Cotes rule with 2d+1 interior nodes integrates it exactly
   (interior nodes only, so one-sided limits at discontinuities never enter). *)
From NurbsV Require Import Model.Ops Model.Linalg Model.Quadrature.

Definition sqdev_coord (a b : ocurve) (kk : nat) : res Q :=
  let d := Nat.max (o_p a) (o_p b) in
  let n := (2 * d + 1)%nat in
  do w <- compute_open n;
  do x01 <- open_linspace n;
  let lo := umin_of (o_U a) (o_p a) in let hi := umax_of (o_U a) (o_p a) in
  let ks := dedup_sorted (sortq (lo :: hi :: restrict lo hi (o_U a ++ o_U b))) in
  Ok (qsum_red (map (fun se : Q * Q =>
        let (s, e) := se in let h := e - s in
        Qred (h * qsum_red (map2 (fun wk x =>
                 let u := Qred (s + h * x) in
                 let dv := nth kk (o_eval a u) 0 - nth kk (o_eval b u) 0 in
                 Qred (wk * dv * dv)) w x01)))
      (pairs ks))).

(* max over coordinates *)
Definition sqdev (a b : ocurve) : res Q :=
  do l <- mapM (sqdev_coord a b) (seq 0 (o_dim a));
  Ok (fold_left (fun m x => if Qltb m x then x else m) l 0).
