(* C06: degree elevation is exact; degree reduction is its inverse or is refused. *)
From Coq Require Import QArith List Bool Arith.
From NurbsV Require Import Base.Res Base.QList Spec.KnotSpec Spec.BSpline Gen.Consts Model.KV Model.CurveM
  Model.Ops Model.CurveOps Model.CurveLS Check.Common Check.Oracle.
From NurbsV Require Spec.BSplineExec Check.C11.
Import ListNotations.
Open Scope Q_scope.

(* "the constrained best approximation": the residual's exact moments against the target basis are orthogonal to every
   element of the target space that vanishes at the interpolation nodes (= lie in the row space of the collocation matrix);
   without constraints (target degree 0) they vanish.  Same oracle as C11. *)
Definition best_approx (before after : ocurve) (nodes : option (list Q)) : bool :=
  forallb (fun kk =>
    match C11.moments before after kk with
    | Err _ => false
    | Ok m => match nodes with
              | None => C11.all_zero m
              | Some zs => C11.in_rowspace (map (BSplineExec.Nrow (o_U after) (o_p after) (o_p after)) zs) m
              end
    end) (seq 0 (o_dim before)).

Definition to_curve (c : ocurve) : res curve :=
  do k <- make (o_U c) None; Ok (mkcurve k (Some (o_P c)) (o_W c)).
Definition of_curve (c : curve) : ocurve :=
  (kvec (ckv c), kdeg (ckv c), match cP c with Some P => P | None => [] end, cW c).
Definition ocurve_eqb (a b : ocurve) : bool :=
  ql_eqb (o_U a) (o_U b) && Nat.eqb (o_p a) (o_p b) && ptl_eqb (o_P a) (o_P b)
  && opt_eqb ql_eqb (o_W a) (o_W b).
Definition has_w (c : ocurve) : bool := match o_W c with Some _ => true | None => false end.

Inductive tolarg := TDefault | TNone | TGiven (t : Q).
Definition default_tol : Q := 1 # 1000000000.
Definition prop_tol (t : tolarg) : option Q :=
  match t with TDefault => Some default_tol | TNone => None | TGiven x => Some x end.
Definition model_tol (t : tolarg) : option Q :=
  match t with TDefault => Some tol_decrease | TNone => None | TGiven x => Some x end.

Inductive dop :=
| DInc (t : Z)                  (* degree_increase(t) *)
| DSet (d : Z)                  (* curve.degree = d *)
| DDec (t : Z) (tol : tolarg).  (* degree_decrease(t, tol) *)

(* (original curve when `before` = original.degree_increase(t); before; operation; outcome; after) *)
Definition case := (option ocurve * ocurve * dop * res unit * ocurve)%type.

Definition qmaxq (a b : Q) : Q := if Qltb a b then b else a.
Definition distinct_knots (c : ocurve) : list Q := dedup_sorted (o_U c).
Definition remaining_knots (c : ocurve) : list Q :=
  dedup_sorted (firstn (length (o_U c) - 2 * o_p c) (skipn (o_p c) (o_U c))).

(* every distinct knot gains t copies *)
Definition raised (before after : ocurve) (t : nat) : bool :=
  Nat.eqb (o_p after) (o_p before + t)
  && forallb (fun x => Nat.eqb (count_q x (o_U after)) (count_q x (o_U before) + t)) (distinct_knots before)
  && forallb (fun x => negb (Nat.eqb (count_q x (o_U before)) 0)) (o_U after).
Definition lowered (before after : ocurve) (t : nat) : bool :=
  Nat.eqb (o_p after + t) (o_p before)
  && forallb (fun x => Nat.eqb (count_q x (o_U after) + t) (count_q x (o_U before))) (distinct_knots before).
(* can t copies of every distinct knot be taken away? *)
Definition lowerable (c : ocurve) (t : nat) : bool :=
  (t <=? o_p c)%nat && forallb (fun x => (t <? count_q x (o_U c))%nat || (t =? count_q x (o_U c))%nat && false) (distinct_knots c)
  && forallb (fun x => (t <? count_q x (o_U c))%nat) (distinct_knots c).

Definition check_inc (before after : ocurve) (t : Z) (r : res unit) : bool :=
  match r with
  | Ok _ => (0 <? t)%Z && o_wf after && raised before after (Z.to_nat t)
            && Bool.eqb (has_w after) (has_w before) && fun_eq before after
  | Err e => (t <=? 0)%Z && exn_eqb e ValueError && ocurve_eqb after before
  end.

Definition check_dec (orig : option ocurve) (before after : ocurve) (t : Z) (tol : tolarg) (r : res unit) : bool :=
  let len := umax_of (o_U before) (o_p before) - umin_of (o_U before) (o_p before) in
  match r with
  | Err e => exn_eqb e ValueError && ocurve_eqb after before
             && match orig with Some _ => false | None => true end
             && match tol with TNone => negb ((0 <? t)%Z && lowerable before (Z.to_nat t)) | _ => true end
  | Ok _ =>
      (0 <? t)%Z && o_wf after && lowered before after (Z.to_nat t)
      && match orig with Some o => ocurve_eqb after o | None => true end
      && match prop_tol tol with
         | Some tl => match sqdev before after with
                      | Ok dv => Qleb dv (2 * tl * qmaxq 1 len)
                      | Err _ => false
                      end
         | None => if Nat.eqb (o_p after) 0 then best_approx before after None
                   else forallb (fun z => ql_eqb (o_eval after z) (o_eval before z)) (remaining_knots after)
                        && best_approx before after (Some (remaining_knots after))
         end
  end.

Definition check_case (cs : case) : verdict :=
  let '(orig, before, op, r, after) := cs in
  let p := Z.of_nat (o_p before) in
  let prop :=
    o_wf before &&
    match op with
    | DInc t => check_inc before after t r
    | DSet d => if (d <? 0)%Z then match r with Err e => exn_eqb e ValueError && ocurve_eqb after before | Ok _ => false end
                else if (d =? p)%Z then match r with Ok _ => ocurve_eqb after before | Err _ => false end
                else if (p <? d)%Z then check_inc before after (d - p) r
                else check_dec orig before after (p - d) TDefault r
    | DDec t tol => check_dec orig before after t tol r
    end in
  let is_dec := match op with DDec _ _ => true | DSet d => (d <? p)%Z && (0 <=? d)%Z | DInc _ => false end in
  if has_w before && is_dec then mkv true prop            (* rational reduction: outside the exact model (K1) *)
  else
  match to_curve before with
  | Err _ => mkv false prop
  | Ok cv =>
      let m := match op with
               | DInc t => if (t <=? 0)%Z then Err ValueError else c_degree_increase cv (Z.to_nat t)
               | DSet d => if (d <? 0)%Z then Err ValueError else c_set_degree cv (Z.to_nat d)
               | DDec t tol => if (t <=? 0)%Z then Err ValueError else c_degree_decrease cv (Z.to_nat t) (model_tol tol)
               end in
      mkv (match m, r with
           | Ok cv', Ok _ => ocurve_eqb (of_curve cv') after
           | Err e, Err e' => exn_eqb e e'
           | _, _ => false
           end) prop
  end.
