(* C01: curve evaluation vs the Cox-de Boor definition. *)
From Coq Require Import QArith List Bool Arith.
From NurbsV Require Import Base.Res Base.QList Spec.KnotSpec Spec.BSpline Spec.BSplineExec
  Model.KV Model.Basis Model.CurveM Check.Common.
Import ListNotations.

(* (U, degree reported by the implementation, P, W, nodes,
    implementation: scalar call per node; a shuffled sequence of in-range nodes and the
    implementation's single call on it; the single call on all nodes (outside ones included)) *)
Definition case := (list Q * nat * list pt * option (list Q) * list Q
                    * list (res pt) * list Q * res (list pt) * res (list pt))%type.

Definition check_case (c : case) : verdict :=
  let '(U, p, P, W, nodes, iscal, seqnodes, iseq, iseq_all) := c in
  let d := pdim P in
  let spec u := match W with
                | None => curve_x U p d P u
                | Some w => rational_x U p d w P u
                end in
  let inr u := in_range U p u in
  let prop :=
    wf_b U p &&
    Nat.eqb (length iscal) (length nodes) &&
    allb (map2 (fun u r => if inr u then res_eqb pt_eqb r (Ok (spec u))
                           else is_err ValueError r) nodes iscal) &&
    (if forallb inr seqnodes then res_eqb ptl_eqb iseq (Ok (map spec seqnodes))
     else is_err ValueError iseq) &&
    (if forallb inr nodes then res_eqb ptl_eqb iseq_all (Ok (map spec nodes))
     else is_err ValueError iseq_all) in
  match make U None with
  | Err _ => mkv false prop
  | Ok k =>
      let cv := mkcurve k (Some P) W in
      let corr :=
        Nat.eqb (kdeg k) p &&
        list_eqb (res_eqb pt_eqb) (map (curve_eval1 cv) nodes) iscal &&
        res_eqb ptl_eqb (curve_eval cv seqnodes) iseq &&
        res_eqb ptl_eqb (curve_eval cv nodes) iseq_all in
      mkv corr prop
  end.
