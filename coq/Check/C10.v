(* C10: quadrature rules are exact to their order; spline integrals are exact. *)
From Coq Require Import QArith List Bool Arith.
From NurbsV Require Import Base.Res Base.QList Spec.KnotSpec Spec.BSpline Gen.Consts Model.KV Model.Ops Model.Linalg
  Model.Quadrature Check.Common.
Import ListNotations.
Open Scope Q_scope.

(* ---- sessions of rule requests (any order; the memo tables are module-level state) ---- *)
Inductive qfam := FClosedW | FOpenW | FClosedX | FOpenX.
(* (family, n, answer of the implementation) *)
Definition qcall := (qfam * nat * res (list Q))%type.
(* (calls in the order they were made in one process, all numbers exact, float-rule validation passed) *)
Definition qcase := (list qcall * bool * bool)%type.

Fixpoint increasing (l : list Q) : bool :=
  match l with a :: ((b :: _) as t) => Qltb a b && increasing t | _ => true end.

Definition nodes_of (f : qfam) (n : nat) : res (list Q) :=
  match f with FClosedW | FClosedX => closed_linspace n | FOpenW | FOpenX => open_linspace n end.

(* the answer is the interpolatory rule of its nodes: weights sum to 1 and integrate every monomial of degree < n *)
Definition rule_exact (x w : list Q) : bool :=
  let n := length x in
  Nat.eqb (length w) n
  && Qeqb (qsum_red w) 1
  && forallb (fun m => Qeqb (qsum_red (map2 (fun wk xk => Qred (wk * qpow xk m)) w x)) (1 / natQ (m + 1))) (seq 0 n).

Definition nodes_ok (f : qfam) (n : nat) (x : list Q) : bool :=
  Nat.eqb (length x) n && increasing x && forallb (fun u => Qleb 0 u && Qleb u 1) x
  && match f with
     | FClosedX => Qeqb (nth 0 x 0) 0 && Qeqb (last x 0) 1
                   && forallb (fun k => Qeqb (nth k x 0) (natQ k / natQ (n - 1))) (seq 0 n)
     | _ => forallb (fun k => Qeqb (nth k x 0) (natQ (2 * k + 1) / natQ (2 * n))) (seq 0 n)
     end.

Definition call_prop (c : qcall) : bool :=
  let '(f, n, r) := c in
  let bad := match f with FClosedW | FClosedX => (n <=? 1)%nat | _ => (n =? 0)%nat end in
  match r with
  | Err e => bad && exn_eqb e AssertionError
  | Ok v =>
      negb bad &&
      match f with
      | FClosedX | FOpenX => nodes_ok f n v
      | FClosedW | FOpenW => match nodes_of f n with Ok x => rule_exact x v | Err _ => false end
      end
  end.

(* the model, run over the same session from the initial (source-literal) tables *)
Fixpoint model_answers (calls : list qcall) (s : qstate) : list (res (list Q)) :=
  match calls with
  | [] => []
  | (f, n, _) :: cs =>
      match f with
      | FClosedW => let (a, s') := get_closed n s in a :: model_answers cs s'
      | FOpenW => let (a, s') := get_open n s in a :: model_answers cs s'
      | FClosedX => closed_linspace n :: model_answers cs s
      | FOpenX => open_linspace n :: model_answers cs s
      end
  end.

Definition check_qcase (c : qcase) : verdict :=
  let '(calls, exact_types, floats_ok) := c in
  mkv (list_eqb (res_eqb ql_eqb) (model_answers calls qinit) (map (fun c => snd c) calls))
      (exact_types && floats_ok && forallb call_prop calls).

(* ---- integrals of spline curves ---- *)
(* (U, p, control points, Integrate.scalar(curve) with the default rule, with the closed rule (if asked),
    with the open rule and more nodes) *)
Definition icase := (list Q * nat * list pt * res pt * option (res pt) * res pt * bool)%type.

Definition closed_form (U : list Q) (p : nat) (P : list pt) : pt :=
  let d := match P with [] => O | x :: _ => length x end in
  map (fun kk => qsum_red (map (fun i => Qred (nth kk (nth i P []) 0
                                               * (nthq U (i + p + 1) - nthq U i) / natQ (p + 1)))
                               (seq 0 (length P)))) (seq 0 d).

Definition check_icase (c : icase) : verdict :=
  let '(U, p, P, r0, rc, ro, floats_ok) := c in
  let want := Ok (closed_form U p P) in
  mkv true
      (wf_b U p && Nat.eqb (length P) (npts_of U p) && floats_ok
       && res_eqb pt_eqb r0 want && res_eqb pt_eqb ro want
       && match rc with Some r => res_eqb pt_eqb r want | None => true end).
