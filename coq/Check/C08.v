(* C08: curve arithmetic is pointwise. *)
From Coq Require Import QArith List Bool Arith.
From NurbsV Require Import Base.Res Base.QList Spec.KnotSpec Spec.BSpline Gen.Consts Model.KV Model.CurveM
  Model.Ops Model.CurveOps Model.CurveLS Model.MathOps Check.Common Check.Oracle.
Import ListNotations.
Open Scope Q_scope.

Definition to_curve (c : ocurve) : res curve :=
  do k <- make (o_U c) None; Ok (mkcurve k (Some (o_P c)) (o_W c)).
Definition of_curve (c : curve) : ocurve :=
  (kvec (ckv c), kdeg (ckv c), match cP c with Some P => P | None => [] end, cW c).
Definition ocurve_eqb (a b : ocurve) : bool :=
  ql_eqb (o_U a) (o_U b) && Nat.eqb (o_p a) (o_p b) && ptl_eqb (o_P a) (o_P b)
  && opt_eqb ql_eqb (o_W a) (o_W b).

Inductive operand := OCurve (c : ocurve) | OScalar (s : Q) | OVector (v : pt) | OMatrix (m : list pt).
Inductive aop := AAdd | ASub | AMul | ADiv | AMatMul | ANeg | ARAdd | ARSub | ARMul | ARDiv.
(* (A, right/left operand, operation, outcome, A afterwards, operand curve afterwards) *)
Definition case := (ocurve * operand * aop * res ocurve * ocurve * option ocurve)%type.

Definition vmul (a b : pt) : pt :=      (* numpy broadcasting of scalar (dimension 1) with vector *)
  match a, b with
  | [x], _ => vscale x b
  | _, [y] => vscale y a
  | _, _ => map2 (fun x y => Qred (x * y)) a b
  end.
Definition vdiv (a b : pt) : pt := match b with [y] => vscale (/ y) a | _ => [] end.
Definition vdot (a b : pt) : pt := [dot a b].
Definition vmat (a : pt) (m : list pt) : pt :=   (* a @ M, M given by rows *)
  map (fun j => dot a (map (fun r => nth j r 0) m)) (seq 0 (match m with [] => O | r :: _ => length r end)).

(* the pointwise value the result must have at u *)
Definition expected (a : ocurve) (b : operand) (op : aop) (u : Q) : pt :=
  let av := o_eval a u in
  match b, op with
  | _, ANeg => vscale (-1) av
  | OCurve c, AAdd => vadd av (o_eval c u)
  | OCurve c, ASub => vadd av (vscale (-1) (o_eval c u))
  | OCurve c, AMul => vmul av (o_eval c u)
  | OCurve c, ADiv => vdiv av (o_eval c u)
  | OCurve c, AMatMul => vdot av (o_eval c u)
  | OScalar s, AAdd | OScalar s, ARAdd => map (fun x => Qred (x + s)) av
  | OScalar s, ASub => map (fun x => Qred (x - s)) av
  | OScalar s, ARSub => map (fun x => Qred (s - x)) av
  | OScalar s, AMul | OScalar s, ARMul => vscale s av
  | OScalar s, ADiv => vscale (/ s) av
  | OScalar s, ARDiv => map (fun x => Qred (s / x)) av
  | OVector v, AAdd | OVector v, ARAdd => vadd av v
  | OVector v, ASub => vadd av (vscale (-1) v)
  | OVector v, ARSub => vadd v (vscale (-1) av)
  | OVector v, AMatMul => vdot av v
  | OMatrix m, AMatMul => vmat av m
  | _, _ => []
  end.

Definition same_limits (a b : ocurve) : bool :=
  Qeqb (umin_of (o_U a) (o_p a)) (umin_of (o_U b) (o_p b)) && Qeqb (umax_of (o_U a) (o_p a)) (umax_of (o_U b) (o_p b)).

Definition check_case (cs : case) : verdict :=
  let '(a, b, op, r, a', b') := cs in
  let lo := umin_of (o_U a) (o_p a) in let hi := umax_of (o_U a) (o_p a) in
  let compatible := match b with OCurve c => same_limits a c | _ => true end in
  let prop :=
    o_wf a && ocurve_eqb a' a
    && match b, b' with OCurve c, Some c' => o_wf c && ocurve_eqb c' c | OCurve _, None => false | _, _ => true end
    && match r with
       | Err e => negb compatible && exn_eqb e ValueError
       | Ok rc =>
           compatible && o_wf rc && Qeqb (umin_of (o_U rc) (o_p rc)) lo && Qeqb (umax_of (o_U rc) (o_p rc)) hi
           && let extra := match b with OCurve c => o_U c | _ => [] end in
              let deg := (o_p a + match b with OCurve c => o_p c | _ => O end)%nat in
              forallb (fun u => ql_eqb (o_eval rc u) (map Qred (expected a b op u)))
                      (sample_set (2 * deg + 3) (o_U a ++ extra ++ o_U rc) lo hi)
       end in
  (* correspondence: polynomial operands directly; rational operands through the numerator / denominator composition *)
  let rat := match o_W a, b with
             | Some _, _ => true
             | None, OCurve c => match o_W c with Some _ => true | None => false end
             | None, _ => false
             end in
  match to_curve a with
  | Ok ca =>
      let m : option (res curve) :=
        match b, op with
        | _, ANeg => Some (c_neg ca)
        | OCurve c, AAdd => match to_curve c with Ok cb => Some (if rat then c_add_r ca cb else c_add ca cb) | Err _ => None end
        | OCurve c, ASub => match to_curve c with Ok cb => Some (if rat then c_sub_r ca cb else c_sub ca cb) | Err _ => None end
        | OCurve c, AMul => match to_curve c with Ok cb => Some (if rat then c_mul_r ca cb else c_mul ca cb) | Err _ => None end
        | OCurve c, ADiv => match to_curve c with Ok cb => Some (if rat then c_div_r ca cb else c_div ca cb) | Err _ => None end
        | OScalar s, AAdd | OScalar s, ARAdd => Some (c_add_scalar ca (repeat s (o_dim a)))
        | OScalar s, ASub => Some (c_add_scalar ca (repeat (- s) (o_dim a)))
        | OScalar s, AMul | OScalar s, ARMul => Some (c_mul_scalar ca s)
        | OScalar s, ADiv => Some (c_div_scalar ca s)
        | OScalar s, ARDiv => if rat then None else Some (c_rdiv s ca)
        | OVector v, AAdd | OVector v, ARAdd => Some (c_add_scalar ca v)
        | _, _ => None
        end in
      match m with
      | None => mkv true prop
      | Some mr => mkv (match mr, r with
                        | Ok c', Ok rc => ocurve_eqb (of_curve c') rc
                        | Err e, Err e' => exn_eqb e e'
                        | _, _ => false
                        end) prop
      end
  | Err _ => mkv false prop
  end.
