(* MODEL = SPEC for evaluation.
   The executable model of basis-function / curve evaluation (per-span power-basis tables
   + Horner, Model/Basis.v, Model/CurveM.v, Model/FunctionM.v) computes exactly the textbook
   Cox-de Boor specification (Spec/BSpline.v), for every well-formed knot vector, every
   degree j <= p and every node of the domain.  Also: partition of unity, non-negativity
   and support at the specification level (C02), curve evaluation (C01), basis-function
   objects (C02). *)
From Coq Require Import QArith ZArith List Lia Lqa Arith Bool Setoid Morphisms.
From NurbsV Require Import Base.QList Base.Res Spec.BSpline Spec.KnotSpec
  Model.KV Model.Basis Model.CurveM Model.FunctionM
  Proofs.Local Proofs.Table Proofs.BasisTheory Proofs.KVProofs.
Import ListNotations.
Open Scope Q_scope.

(* ------------------------------------------------------------------ *)
(* 1. small facts                                                      *)
(* ------------------------------------------------------------------ *)
Lemma horner_red_correct : forall p t, horner_red p t == horner p t.
Proof.
  induction p as [|a p IH]; intro t; cbn [horner horner_red]; [reflexivity|].
  rewrite Qred_correct, IH. reflexivity.
Qed.

Lemma Nloc_proper U s j : forall i u u', u == u' -> Nloc U s j i u == Nloc U s j i u'.
Proof.
  induction j as [|j IH]; intros i u u' H; cbn [Nloc]; [reflexivity|].
  rewrite (IH i u u' H), (IH (S i) u u' H), H. reflexivity.
Qed.

Lemma ind0_proper U n i u u' : u == u' -> ind0 U n i u = ind0 U n i u'.
Proof.
  intro H. unfold ind0.
  rewrite (Qleb_proper (U i) (U i) (Qeq_refl _) u u' H).
  rewrite (Qltb_proper u u' H (U (S i)) (U (S i)) (Qeq_refl _)).
  rewrite (Qeqb_proper u u' H (U n) (U n) (Qeq_refl _)).
  rewrite (Qltb_proper (U i) (U i) (Qeq_refl _) u u' H).
  reflexivity.
Qed.

Lemma N_proper U n j : forall i u u', u == u' -> N U n j i u == N U n j i u'.
Proof.
  induction j as [|j IH]; intros i u u' H; cbn [N].
  - rewrite (ind0_proper U n i u u' H). reflexivity.
  - rewrite (IH i u u' H), (IH (S i) u u' H), H. reflexivity.
Qed.

Lemma Nspec_proper U p j i u u' : u == u' -> Nspec U p j i u == Nspec U p j i u'.
Proof. apply N_proper. Qed.

(* ------------------------------------------------------------------ *)
(* 2. Nloc on a CLOSED span  U s <= u <= U (S s),  U s < U (S s)        *)
(*    (BasisTheory.v has the half-open case; umax needs the closed one) *)
(* ------------------------------------------------------------------ *)
Section UnityClosed.
Variable U : nat -> Q.
Variable s : nat.
Variable u : Q.
Hypothesis HU : mono U.
Hypothesis Hu1 : U s <= u.
Hypothesis Hu2 : u <= U (S s).
Hypothesis Hlt : U s < U (S s).

Lemma coefA_nonneg_c i k : (i <= s)%nat -> (i <= k)%nat -> 0 <= (u - U i) / (U k - U i).
Proof.
  intros A B. pose proof (Local.mono_le U HU i s A). pose proof (Local.mono_le U HU i k B).
  apply Qdiv_nonneg; lra.
Qed.

Lemma coefB_nonneg_c i k : (s < k)%nat -> (i <= k)%nat -> 0 <= (U k - u) / (U k - U i).
Proof.
  intros A B. pose proof (Local.mono_le U HU (S s) k A). pose proof (Local.mono_le U HU i k B).
  apply Qdiv_nonneg; lra.
Qed.

Theorem Nloc_nonneg_c : forall j i, 0 <= Nloc U s j i u.
Proof.
  induction j as [|j' IH]; intro i; cbn [Nloc].
  - destruct (Nat.eqb i s); lra.
  - apply Qplus_nonneg.
    + destruct (le_lt_dec i s) as [L|L].
      * apply Qmult_le_0_compat; [apply coefA_nonneg_c; lia | apply IH].
      * rewrite (Nloc_zero U s j' i u) by lia. rewrite Qmult_0_r. lra.
    + destruct (le_lt_dec s (i + S j')) as [L|L].
      * apply Qmult_le_0_compat; [apply coefB_nonneg_c; lia | apply IH].
      * rewrite (Nloc_zero U s j' (S i) u) by lia. rewrite Qmult_0_r. lra.
Qed.

Lemma Nloc_step_c j' i :
  Nloc U s (S j') i u ==
    ((u - U i) / (U (i + S j')%nat - U i) * Nloc U s j' i u
     - (u - U (S i)) / (U (S i + S j')%nat - U (S i)) * Nloc U s j' (S i) u)
    + Nloc U s j' (S i) u.
Proof.
  cbn [Nloc].
  replace (i + S j' + 1)%nat with (S i + S j')%nat by lia.
  replace (i + 1)%nat with (S i) by lia.
  destruct (le_lt_dec (S i) s) as [L1|L1]; [destruct (le_lt_dec s (S i + j')) as [L2|L2]|].
  - pose proof (Local.mono_le U HU (S i) s L1).
    pose proof (Local.mono_le U HU (S s) (S i + S j')%nat ltac:(lia)).
    pose proof Hlt.
    set (t0 := (u - U i) / (U (i + S j')%nat - U i) * Nloc U s j' i u).
    set (a1 := Nloc U s j' (S i) u).
    field. lra.
  - rewrite (Nloc_zero U s j' (S i) u) by lia. ring.
  - rewrite (Nloc_zero U s j' (S i) u) by lia. ring.
Qed.

Theorem Nloc_unity_c : forall j, (j <= s)%nat ->
  qsum (map (fun i => Nloc U s j i u) (seq (s - j) (S j))) == 1.
Proof.
  induction j as [|j' IH]; intro Hj.
  - rewrite Nat.sub_0_r. cbn [seq map qsum Nloc]. rewrite Nat.eqb_refl. ring.
  - set (g := fun k => (u - U k) / (U (k + S j')%nat - U k) * Nloc U s j' k u).
    rewrite (qsum_map_ext _ (fun i => (g i - g (S i)) + Nloc U s j' (S i) u))
      by (intros i _; apply Nloc_step_c).
    rewrite (qsum_map_add (fun i => g i - g (S i)) (fun i => Nloc U s j' (S i) u)).
    rewrite (qsum_telescope g).
    rewrite (qsum_shift (fun i => Nloc U s j' i u)).
    replace (S (s - S j')) with (s - j')%nat by lia.
    rewrite seq_S, map_app, qsum_app. rewrite (IH ltac:(lia)).
    cbn [map qsum]. unfold g.
    rewrite (Nloc_zero U s j' (s - S j')%nat u) by lia.
    rewrite (Nloc_zero U s j' (s - S j' + S (S j'))%nat u) by lia.
    rewrite (Nloc_zero U s j' (s - j' + S j')%nat u) by lia.
    ring.
Qed.

Corollary Nloc_unity_full_c n j : (s < n)%nat -> (j <= s)%nat ->
  qsum (map (fun i => Nloc U s j i u) (seq 0 n)) == 1.
Proof.
  intros Hn Hj.
  assert (E : n = ((s - j) + (S j + (n - S s)))%nat) by lia. rewrite E.
  rewrite !seq_app, !map_app, !qsum_app. cbn [Nat.add].
  replace (s - j + S j)%nat with (S s) by lia.
  rewrite (Nloc_unity_c j Hj).
  rewrite (qsum_map_zero (fun i => Nloc U s j i u) (seq 0 (s - j)))
    by (intros i Hi; apply in_seq in Hi; apply Nloc_zero; lia).
  rewrite (qsum_map_zero (fun i => Nloc U s j i u) (seq (S s) (n - S s)))
    by (intros i Hi; apply in_seq in Hi; apply Nloc_zero; lia).
  ring.
Qed.
End UnityClosed.

(* ------------------------------------------------------------------ *)
(* 3. the span of a node: everything the later proofs need             *)
(* ------------------------------------------------------------------ *)
Section SpanFacts.
Variable U : list Q.
Variable p : nat.
Hypothesis W : WF U p.
Variable u : Q.
Variable s : nat.
Hypothesis Hr : in_range U p u = true.
Hypothesis Hs : span_ok U p u s = true.

Lemma sf_mono : mono (nthq U).
Proof. exact (wf_mono U p W). Qed.

Lemma sf_len : (2 * p + 2 <= length U)%nat.
Proof. destruct (wf_parts U p W) as (_ & H & _). exact H. Qed.

Lemma sf_range : nthq U p <= u /\ u <= nthq U (npts_of U p).
Proof.
  unfold in_range, umin_of, umax_of in Hr. apply andb_true_iff in Hr.
  destruct Hr as [A B]. apply Qleb_le in A. apply Qleb_le in B.
  unfold npts_of. split; assumption.
Qed.

Lemma sf_all :
  (p <= s)%nat /\ (s < npts_of U p)%nat /\
  nthq U s < nthq U (S s) /\ nthq U s <= u /\ u <= nthq U (S s) /\
  forall j i, Nspec U p j i u == Nloc (nthq U) s j i u.
Proof.
  pose proof sf_len as HL. pose proof sf_mono as HM. destruct sf_range as [R1 R2].
  unfold span_ok in Hs. unfold umax_of in Hs. fold (npts_of U p) in Hs.
  destruct (Qeqb_spec u (nthq U (npts_of U p))) as [E|E].
  - (* u = umax, last span *)
    apply Nat.eqb_eq in Hs.
    assert (En : npts_of U p = S s) by (unfold npts_of; lia).
    pose proof (wf_interior_strict_hi U p W) as Hhi.
    replace (length U - p - 2)%nat with s in Hhi by lia.
    replace (length U - p - 1)%nat with (S s) in Hhi by (unfold npts_of in En; lia).
    rewrite En in *.
    repeat split; try lia; try lra.
    intros j i. unfold Nspec. rewrite En.
    rewrite (N_proper (nthq U) (S s) j i u (nthq U (S s)) E).
    rewrite (Nloc_proper (nthq U) s j i u (nthq U (S s)) E).
    replace s with (S s - 1)%nat at 3 by lia.
    apply N_umax; [exact HM | lia | replace (S s - 1)%nat with s by lia; exact Hhi |].
    intros i' Hi'.
    rewrite (wf_last_block U p W i') by (unfold npts_of in En; lia).
    rewrite (wf_last_block U p W (S s)) by (unfold npts_of in En; lia).
    reflexivity.
  - (* interior *)
    apply andb_true_iff in Hs. destruct Hs as [A B].
    apply Qleb_le in A. apply Qltb_lt in B.
    assert (Hu : u < nthq U (npts_of U p)).
    { destruct (Qlt_le_dec u (nthq U (npts_of U p))) as [L|G]; [exact L|].
      exfalso. apply E. lra. }
    assert (Hps : (p <= s)%nat).
    { destruct (le_lt_dec p s) as [L|L]; [exact L|exfalso].
      pose proof (Local.mono_le (nthq U) HM (S s) p L). lra. }
    assert (Hsn : (s < npts_of U p)%nat).
    { destruct (le_lt_dec (npts_of U p) s) as [L|L]; [exfalso|exact L].
      pose proof (Local.mono_le (nthq U) HM (npts_of U p) s L). lra. }
    repeat split; try assumption; try lra.
    intros j i. unfold Nspec. apply N_local; assumption.
Qed.
End SpanFacts.

(* every node of the domain has a span (through the model's search) *)
Lemma span_exists U p u : WF U p -> in_range U p u = true -> exists s, span_ok U p u s = true.
Proof.
  intros W Hr. set (k := mkkv U p).
  assert (Hv : kvalid1 k u = true) by (rewrite kvalid1_in_range; exact Hr).
  destruct (kspan_complete k u W Hv) as [s Hs].
  exists s. exact (kspan_sound k u s Hs).
Qed.

(* ------------------------------------------------------------------ *)
(* 4. THE KEY LEMMA: the model's basis row is the specification        *)
(* ------------------------------------------------------------------ *)
Lemma npts_of_knpts k : npts_of (kvec k) (kdeg k) = knpts k.
Proof. reflexivity. Qed.

Theorem basis_row_spec k j u :
  WF (kvec k) (kdeg k) -> (j <= kdeg k)%nat -> kvalid1 k u = true ->
  exists r, basis_row k j u = Ok r /\ length r = knpts k /\
    forall i, (i < knpts k)%nat -> nth i r 0 == Nspec (kvec k) (kdeg k) j i u.
Proof.
  intros W Hj Hv.
  destruct (kspan_complete k u W Hv) as [s Hs].
  pose proof (kspan_sound k u s Hs) as Hok.
  assert (Hr : in_range (kvec k) (kdeg k) u = true) by (rewrite <- kvalid1_in_range; exact Hv).
  destruct (sf_all (kvec k) (kdeg k) W u s Hr Hok) as (Hps & Hsn & Hlt & Hu1 & Hu2 & HN).
  pose proof (sf_mono (kvec k) (kdeg k) W) as HM.
  unfold basis_row. rewrite Hs. cbn [bind]. cbv zeta.
  eexists. split; [reflexivity|]. split.
  - rewrite map_length, seq_length. reflexivity.
  - intros i Hi. rewrite nth_map_seq by exact Hi.
    rewrite HN.
    destruct (Nat.leb_spec (s - j) i) as [L1|L1]; [destruct (Nat.leb_spec i s) as [L2|L2]|];
      cbn [andb].
    + rewrite horner_red_correct.
      rewrite (table_is_Nloc (kvec k) HM s Hlt j ltac:(lia) (i - (s - j))%nat _ ltac:(lia)).
      replace (s + (i - (s - j)) - j)%nat with i by lia.
      apply Nloc_proper.
      set (a := nthq (kvec k) s) in *. set (b := nthq (kvec k) (S s)) in *.
      field. lra.
    + rewrite (Nloc_zero (nthq (kvec k)) s j i u) by lia. reflexivity.
    + rewrite (Nloc_zero (nthq (kvec k)) s j i u) by lia. reflexivity.
Qed.

(* ------------------------------------------------------------------ *)
(* 5. C02 at the specification level                                   *)
(* ------------------------------------------------------------------ *)
Section SpecLevel.
Variable U : list Q.
Variable p : nat.
Hypothesis W : WF U p.
Variable u : Q.
Hypothesis Hr : in_range U p u = true.

Theorem Nspec_nonneg j i : 0 <= Nspec U p j i u.
Proof.
  destruct (span_exists U p u W Hr) as [s Hs].
  destruct (sf_all U p W u s Hr Hs) as (Hps & Hsn & Hlt & Hu1 & Hu2 & HN).
  rewrite HN. apply Nloc_nonneg_c; try assumption. exact (sf_mono U p W).
Qed.

Theorem Nspec_unity_deg j : (j <= p)%nat ->
  qsum (map (fun i => Nspec U p j i u) (seq 0 (npts_of U p))) == 1.
Proof.
  intro Hj.
  destruct (span_exists U p u W Hr) as [s Hs].
  destruct (sf_all U p W u s Hr Hs) as (Hps & Hsn & Hlt & Hu1 & Hu2 & HN).
  rewrite (qsum_map_ext _ (fun i => Nloc (nthq U) s j i u)) by (intros i _; apply HN).
  apply Nloc_unity_full_c; try assumption; [exact (sf_mono U p W) | lia].
Qed.

Theorem Nspec_unity :
  qsum (map (fun i => Nspec U p p i u) (seq 0 (npts_of U p))) == 1.
Proof. apply Nspec_unity_deg. lia. Qed.

Theorem Nspec_support j i :
  ~ (nthq U i <= u /\ u <= nthq U (i + j + 1)) -> Nspec U p j i u == 0.
Proof.
  intro Hout.
  destruct (span_exists U p u W Hr) as [s Hs].
  destruct (sf_all U p W u s Hr Hs) as (Hps & Hsn & Hlt & Hu1 & Hu2 & HN).
  pose proof (sf_mono U p W) as HM.
  rewrite HN.
  destruct (le_lt_dec i s) as [L1|L1]; [destruct (le_lt_dec s (i + j)) as [L2|L2]|].
  - exfalso. apply Hout.
    pose proof (Local.mono_le (nthq U) HM i s L1).
    pose proof (Local.mono_le (nthq U) HM (S s) (i + j + 1)%nat ltac:(lia)).
    split; lra.
  - apply Nloc_zero. lia.
  - apply Nloc_zero. lia.
Qed.

Theorem Nspec_le_1 j i : (j <= p)%nat -> (i < npts_of U p)%nat -> Nspec U p j i u <= 1.
Proof.
  intros Hj Hi. rewrite <- (Nspec_unity_deg j Hj).
  apply (qsum_term_le (fun i => Nspec U p j i u)); [intro k; apply Nspec_nonneg|].
  apply in_seq. lia.
Qed.
End SpecLevel.

(* ------------------------------------------------------------------ *)
(* 6. list plumbing                                                    *)
(* ------------------------------------------------------------------ *)
Lemma Forall2_Qeq_nth : forall a b : list Q, length a = length b ->
  (forall i, (i < length a)%nat -> nth i a 0 == nth i b 0) -> Forall2 Qeq a b.
Proof.
  induction a as [|x a IH]; intros [|y b] HL H; try discriminate; constructor.
  - apply (H 0%nat). cbn [length]. lia.
  - apply IH; [cbn [length] in HL; lia|].
    intros i Hi. apply (H (S i)). cbn [length]. lia.
Qed.

Lemma nth_map2 {A B C} (f : A -> B -> C) da db dc : forall a b i,
  (i < length a)%nat -> (i < length b)%nat ->
  nth i (map2 f a b) dc = f (nth i a da) (nth i b db).
Proof.
  induction a as [|x a IH]; intros [|y b] [|i] Ha Hb; cbn [length] in *; try lia.
  - reflexivity.
  - cbn [map2 nth]. apply IH; lia.
Qed.

Lemma nth_map_in {A B} (f : A -> B) da db : forall l i,
  (i < length l)%nat -> nth i (map f l) db = f (nth i l da).
Proof.
  induction l as [|x l IH]; intros [|i] H; cbn [length] in *; try lia.
  - reflexivity.
  - cbn [map nth]. apply IH. lia.
Qed.

Lemma qsum_map2_seq {B} (f : Q -> B -> Q) (db : B) : forall (r : list Q) (P : list B),
  length r = length P ->
  qsum (map2 f r P) == qsum (map (fun i => f (nth i r 0) (nth i P db)) (seq 0 (length r))).
Proof.
  induction r as [|x r IH]; intros [|y P] HL; try discriminate.
  - reflexivity.
  - cbn [map2 length seq map qsum nth].
    rewrite <- seq_shift, map_map. rewrite (IH P) by (cbn [length] in HL; lia).
    reflexivity.
Qed.

Lemma coord_nth kk : forall P i, nth i (coord kk P) 0 = nth kk (nth i P []) 0.
Proof.
  induction P as [|pt P IH]; intros [|i]; cbn [coord map nth]; try (destruct kk; reflexivity).
  apply IH.
Qed.

Lemma coord_length kk P : length (coord kk P) = length P.
Proof. apply map_length. Qed.

(* ------------------------------------------------------------------ *)
(* 7. lincomb, coordinate by coordinate                                *)
(* ------------------------------------------------------------------ *)
Lemma lincomb_length d : forall r P,
  Forall (fun pt : list Q => length pt = d) P -> length (lincomb d r P) = d.
Proof.
  induction r as [|x r IH]; intros P HP; cbn [lincomb]; [apply repeat_length|].
  destruct P as [|pt P]; [apply repeat_length|].
  inversion HP as [|? ? Hpt HP']. unfold vadd, vscale.
  rewrite map2_length, map_length, (IH P HP'), Hpt. apply Nat.min_id.
Qed.

Lemma lincomb_nth d kk : (kk < d)%nat -> forall r P,
  Forall (fun pt : list Q => length pt = d) P ->
  nth kk (lincomb d r P) 0 == qsum (map2 (fun x pt => x * nth kk pt 0) r P).
Proof.
  intro Hk. induction r as [|x r IH]; intros P HP; cbn [lincomb map2 qsum].
  - unfold vzero. rewrite nth_repeat. reflexivity.
  - destruct P as [|pt P]; cbn [qsum].
    + unfold vzero. rewrite nth_repeat. reflexivity.
    + inversion HP as [|? ? Hpt HP']. unfold vadd, vscale.
      rewrite (nth_map2 _ 0 0 0)
        by (rewrite ?map_length, ?(lincomb_length d r P HP'); lia).
      rewrite Qred_correct.
      rewrite (nth_map_in _ 0 0) by lia.
      rewrite Qred_correct. rewrite (IH P HP'). reflexivity.
Qed.

(* the form announced in the task: lincomb is the coordinatewise sum *)
Lemma lincomb_correct d r P :
  length r = length P -> Forall (fun pt : list Q => length pt = d) P ->
  Forall2 Qeq (lincomb d r P)
    (map (fun kk => qsum (map (fun i => nth i r 0 * nth kk (nth i P []) 0) (seq 0 (length P))))
         (seq 0 d)).
Proof.
  intros HL HP. apply Forall2_Qeq_nth.
  - rewrite (lincomb_length d r P HP), map_length, seq_length. reflexivity.
  - rewrite (lincomb_length d r P HP). intros kk Hk.
    rewrite nth_map_seq by exact Hk.
    rewrite (lincomb_nth d kk Hk r P HP).
    rewrite (qsum_map2_seq (fun x pt => x * nth kk pt 0) [] r P HL).
    rewrite HL. reflexivity.
Qed.

(* ------------------------------------------------------------------ *)
(* 8. positivity of the weight function                                *)
(* ------------------------------------------------------------------ *)
Lemma weighted_sum_pos (f g : nat -> Q) : forall l,
  (forall i, In i l -> 0 <= f i) -> (forall i, In i l -> 0 < g i) ->
  0 <= qsum (map (fun i => f i * g i) l) /\
  (0 < qsum (map f l) -> 0 < qsum (map (fun i => f i * g i) l)).
Proof.
  induction l as [|x l IH]; intros Hf Hg; cbn [map qsum].
  - split; [lra | intro H; exact H].
  - destruct IH as [IH1 IH2];
      [intros i Hi; apply Hf; right; exact Hi | intros i Hi; apply Hg; right; exact Hi |].
    pose proof (Hf x (or_introl eq_refl)) as Fx. pose proof (Hg x (or_introl eq_refl)) as Gx.
    assert (Px : 0 <= f x * g x) by (apply Qmult_le_0_compat; lra).
    split; [lra|]. intro H.
    destruct (Qlt_le_dec 0 (qsum (map f l))) as [L|L].
    + specialize (IH2 L). lra.
    + assert (Fx' : 0 < f x) by lra.
      assert (0 < f x * g x) by (apply Qmult_lt_0_compat; assumption). lra.
Qed.

Lemma Forall_pos_nth (Wt : list Q) i : Forall (fun w => 0 < w) Wt -> (i < length Wt)%nat -> 0 < nth i Wt 0.
Proof. intros H Hi. exact (proj1 (Forall_nth _ Wt) H i 0 Hi). Qed.

Theorem weight_pos_deg U p Wt u j :
  WF U p -> in_range U p u = true -> (j <= p)%nat ->
  length Wt = npts_of U p -> Forall (fun w => 0 < w) Wt ->
  0 < qsum (map (fun i => Nspec U p j i u * nth i Wt 0) (seq 0 (npts_of U p))).
Proof.
  intros W Hr Hj HL HW.
  apply (weighted_sum_pos (fun i => Nspec U p j i u) (fun i => nth i Wt 0)).
  - intros i _. apply Nspec_nonneg; assumption.
  - intros i Hi. apply in_seq in Hi. apply Forall_pos_nth; [exact HW | lia].
  - rewrite (Nspec_unity_deg U p W u Hr j Hj). lra.
Qed.

Theorem weight_pos U p Wt u :
  WF U p -> in_range U p u = true ->
  length Wt = npts_of U p -> Forall (fun w => 0 < w) Wt ->
  0 < qsum (map (fun i => Nspec U p p i u * nth i Wt 0) (seq 0 (npts_of U p))).
Proof. intros W Hr. apply weight_pos_deg; [exact W | exact Hr | lia]. Qed.

Corollary weight_spec_pos U p Wt u :
  WF U p -> in_range U p u = true ->
  length Wt = npts_of U p -> Forall (fun w => 0 < w) Wt -> 0 < weight_spec U p Wt u.
Proof. apply weight_pos. Qed.

(* ------------------------------------------------------------------ *)
(* 9. the rational row is the rational specification                   *)
(* ------------------------------------------------------------------ *)
Theorem rbasis_row_none k j u : rbasis_row k None j u = basis_row k j u.
Proof. unfold rbasis_row. destruct (basis_row k j u); reflexivity. Qed.

Theorem rbasis_row_rat_spec k j u Wt :
  WF (kvec k) (kdeg k) -> (j <= kdeg k)%nat -> kvalid1 k u = true ->
  length Wt = knpts k -> Forall (fun w => 0 < w) Wt ->
  exists r, rbasis_row k (Some Wt) j u = Ok r /\ length r = knpts k /\
    forall i, (i < knpts k)%nat -> nth i r 0 == Rspec (kvec k) (kdeg k) Wt j i u.
Proof.
  intros W Hj Hv HL HW.
  destruct (basis_row_spec k j u W Hj Hv) as (r & Hr & Hl & Hn).
  assert (Hin : in_range (kvec k) (kdeg k) u = true) by (rewrite <- kvalid1_in_range; exact Hv).
  unfold rbasis_row. rewrite Hr. cbn [bind]. unfold rat_row. cbv zeta.
  set (D := qsum (map (fun i => nth i Wt 0 * Nspec (kvec k) (kdeg k) j i u) (seq 0 (knpts k)))).
  assert (HD : dot r Wt == D).
  { rewrite dot_correct.
    rewrite (qsum_map2_seq (fun x y => x * y) 0 r Wt) by lia.
    rewrite Hl. unfold D. apply qsum_map_ext. intros i Hi. apply in_seq in Hi.
    rewrite (Hn i) by lia. ring. }
  assert (HDpos : 0 < D).
  { pose proof (weight_pos_deg (kvec k) (kdeg k) Wt u j W Hin Hj HL HW) as HP.
    rewrite npts_of_knpts in HP. unfold D.
    rewrite (qsum_map_ext _ (fun i => Nspec (kvec k) (kdeg k) j i u * nth i Wt 0))
      by (intros i _; ring).
    exact HP. }
  destruct (Qeqb_spec (dot r Wt) 0) as [E|E]; [exfalso; rewrite HD in E; lra|].
  eexists. split; [reflexivity|]. split.
  - rewrite map2_length, HL, Hl. apply Nat.min_id.
  - intros i Hi. rewrite (nth_map2 _ 0 0 0) by lia.
    rewrite Qred_correct. unfold Rspec. rewrite npts_of_knpts. fold D.
    rewrite (Hn i Hi), HD. unfold Qdiv. ring.
Qed.

(* ------------------------------------------------------------------ *)
(* 10. C01: curve evaluation                                           *)
(* ------------------------------------------------------------------ *)
Section CurveEval.
Variable c : curve.
Variable P : list (list Q).   (* = list pt *)
Variable d : nat.
Hypothesis HP : cP c = Some P.
Hypothesis W : WF (kvec (ckv c)) (cdeg c).
Hypothesis HPl : length P = cnpts c.
Hypothesis HPd : Forall (fun pt : list Q => length pt = d) P.
Hypothesis Hd : pdim P = d.

Theorem C01_eval_spline u :
  cW c = None -> kvalid1 (ckv c) u = true ->
  exists v, curve_eval1 c u = Ok v /\
            Forall2 Qeq v (curve_spec (kvec (ckv c)) (cdeg c) d P u).
Proof.
  intros HW Hv. unfold cdeg, cnpts in *.
  destruct (basis_row_spec (ckv c) (kdeg (ckv c)) u W (le_n _) Hv) as (r & Hr & Hl & Hn).
  unfold curve_eval1. rewrite HP, HW. unfold cdeg. rewrite rbasis_row_none, Hr. cbn [bind].
  eexists. split; [reflexivity|]. rewrite Hd.
  apply Forall2_Qeq_nth.
  - rewrite (lincomb_length d r P HPd). unfold curve_spec. rewrite map_length, seq_length. reflexivity.
  - rewrite (lincomb_length d r P HPd). intros kk Hk.
    rewrite (lincomb_nth d kk Hk r P HPd).
    unfold curve_spec. rewrite nth_map_seq by exact Hk.
    unfold curve_spec1. rewrite npts_of_knpts.
    assert (HrP : length r = length P) by lia.
    rewrite (qsum_map2_seq (B := list Q) (fun x pt => x * nth kk pt 0) [] r P HrP).
    rewrite Hl. apply qsum_map_ext. intros i Hi. apply in_seq in Hi.
    rewrite (Hn i) by lia. rewrite coord_nth. reflexivity.
Qed.

Theorem C01_eval_rational Wt u :
  cW c = Some Wt -> length Wt = cnpts c -> Forall (fun w => 0 < w) Wt ->
  kvalid1 (ckv c) u = true ->
  exists v, curve_eval1 c u = Ok v /\
            Forall2 Qeq v (rational_spec (kvec (ckv c)) (cdeg c) d Wt P u).
Proof.
  intros HW HWl HWpos Hv. unfold cdeg, cnpts in *.
  destruct (rbasis_row_rat_spec (ckv c) (kdeg (ckv c)) u Wt W (le_n _) Hv HWl HWpos)
    as (r & Hr & Hl & Hn).
  unfold curve_eval1. rewrite HP, HW. unfold cdeg. rewrite Hr. cbn [bind].
  eexists. split; [reflexivity|]. rewrite Hd.
  apply Forall2_Qeq_nth.
  - rewrite (lincomb_length d r P HPd). unfold rational_spec. rewrite map_length, seq_length. reflexivity.
  - rewrite (lincomb_length d r P HPd). intros kk Hk.
    rewrite (lincomb_nth d kk Hk r P HPd).
    unfold rational_spec. rewrite nth_map_seq by exact Hk.
    unfold rational_spec1, weight_spec, curve_spec1. rewrite npts_of_knpts.
    assert (HrP : length r = length P) by lia.
    rewrite (qsum_map2_seq (B := list Q) (fun x pt => x * nth kk pt 0) [] r P HrP).
    rewrite Hl.
    set (U := kvec (ckv c)) in *. set (p := kdeg (ckv c)) in *. set (n := knpts (ckv c)) in *.
    set (D := qsum (map (fun i => Nspec U p p i u * nth i Wt 0) (seq 0 n))).
    rewrite (qsum_map_ext _ (fun i => / D *
               (Nspec U p p i u * nth i (map2 (fun w x => w * x) Wt (coord kk P)) 0))).
    + rewrite qsum_map_scale. unfold Qdiv. ring.
    + intros i Hi. apply in_seq in Hi. rewrite (Hn i) by lia.
      unfold Rspec. change (npts_of U p) with n.
      rewrite (qsum_map_ext (fun k => nth k Wt 0 * Nspec U p p k u)
                            (fun i => Nspec U p p i u * nth i Wt 0))
        by (intros; ring).
      fold D.
      rewrite (nth_map2 _ 0 0 0) by (rewrite ?coord_length; lia).
      rewrite coord_nth. unfold Qdiv. ring.
Qed.

Theorem C01_eval_outside u : kvalid1 (ckv c) u = false -> curve_eval1 c u = Err ValueError.
Proof.
  intro Hv. unfold curve_eval1. rewrite HP. unfold rbasis_row, basis_row.
  rewrite (kspan_outside (ckv c) u Hv). reflexivity.
Qed.

Theorem C01_eval_seq us : curve_eval c us = mapM (curve_eval1 c) us.
Proof. unfold curve_eval. rewrite HP. reflexivity. Qed.
End CurveEval.

(* ------------------------------------------------------------------ *)
(* 11. C02: basis-function objects  f[i, j](u)                         *)
(* ------------------------------------------------------------------ *)
Lemma valid_second_ok p j jn : valid_second p j = Ok jn -> (jn <= p)%nat /\ jn = Z.to_nat j.
Proof.
  unfold valid_second. intro H.
  destruct ((0 <=? j)%Z && (j <=? Z.of_nat p)%Z) eqn:E; [|discriminate].
  apply andb_true_iff in E. destruct E as [A B].
  apply Z.leb_le in A. apply Z.leb_le in B.
  inversion H. split; [lia | reflexivity].
Qed.

Lemma valid_second_bad p j : ~ (0 <= j <= Z.of_nat p)%Z -> valid_second p j = Err IndexError.
Proof.
  intro H. unfold valid_second.
  destruct ((0 <=? j)%Z && (j <=? Z.of_nat p)%Z) eqn:E; [exfalso|reflexivity].
  apply andb_true_iff in E. destruct E as [A B].
  apply Z.leb_le in A. apply Z.leb_le in B. apply H. lia.
Qed.

Lemma valid_first_int_ok n z :
  (- Z.of_nat n <= z < Z.of_nat n)%Z -> valid_first n (IInt z) = Ok tt.
Proof.
  intros [A B]. unfold valid_first.
  apply Z.leb_le in A. apply Z.ltb_lt in B. rewrite A, B. reflexivity.
Qed.

Lemma valid_first_int_bad n z :
  ~ (- Z.of_nat n <= z < Z.of_nat n)%Z -> valid_first n (IInt z) = Err IndexError.
Proof.
  intro H. unfold valid_first.
  destruct ((- Z.of_nat n <=? z)%Z && (z <? Z.of_nat n)%Z) eqn:E; [exfalso|reflexivity].
  apply andb_true_iff in E. destruct E as [A B].
  apply Z.leb_le in A. apply Z.ltb_lt in B. apply H. lia.
Qed.

Lemma py_index_bound n z :
  (- Z.of_nat n <= z < Z.of_nat n)%Z ->
  (Z.to_nat (if (z <? 0)%Z then (z + Z.of_nat n)%Z else z) < n)%nat.
Proof. intro H. destruct (Z.ltb_spec z 0); lia. Qed.

Theorem C02_value k u j jn z :
  WF (kvec k) (kdeg k) -> kvalid1 k u = true ->
  valid_second (kdeg k) j = Ok jn ->
  (- Z.of_nat (knpts k) <= z < Z.of_nat (knpts k))%Z ->
  exists v, func_eval k None (IInt z) j u = Ok [v] /\
    v == Nspec (kvec k) (kdeg k) jn
           (Z.to_nat (if (z <? 0)%Z then (z + Z.of_nat (knpts k))%Z else z)) u.
Proof.
  intros W Hv Hj Hz.
  destruct (valid_second_ok _ _ _ Hj) as [Hjn _].
  destruct (basis_row_spec k jn u W Hjn Hv) as (r & Hr & Hl & Hn).
  unfold func_eval. rewrite (valid_first_int_ok _ _ Hz). cbn [bind].
  rewrite Hj. cbn [bind]. rewrite rbasis_row_none, Hr. cbn [bind]. unfold select.
  eexists. split; [reflexivity|].
  apply Hn. apply py_index_bound. exact Hz.
Qed.

Theorem C02_value_rational k Wt u j jn z :
  WF (kvec k) (kdeg k) -> kvalid1 k u = true ->
  length Wt = knpts k -> Forall (fun w => 0 < w) Wt ->
  valid_second (kdeg k) j = Ok jn ->
  (- Z.of_nat (knpts k) <= z < Z.of_nat (knpts k))%Z ->
  exists v, func_eval k (Some Wt) (IInt z) j u = Ok [v] /\
    v == Rspec (kvec k) (kdeg k) Wt jn
           (Z.to_nat (if (z <? 0)%Z then (z + Z.of_nat (knpts k))%Z else z)) u.
Proof.
  intros W Hv HL HW Hj Hz.
  destruct (valid_second_ok _ _ _ Hj) as [Hjn _].
  destruct (rbasis_row_rat_spec k jn u Wt W Hjn Hv HL HW) as (r & Hr & Hl & Hn).
  unfold func_eval. rewrite (valid_first_int_ok _ _ Hz). cbn [bind].
  rewrite Hj. cbn [bind]. rewrite Hr. cbn [bind]. unfold select.
  eexists. split; [reflexivity|].
  apply Hn. apply py_index_bound. exact Hz.
Qed.

Theorem C02_bad_index k Wo u j z :
  ~ (- Z.of_nat (knpts k) <= z < Z.of_nat (knpts k))%Z ->
  func_eval k Wo (IInt z) j u = Err IndexError.
Proof.
  intro H. unfold func_eval. rewrite (valid_first_int_bad _ _ H). reflexivity.
Qed.

Theorem C02_bad_degree k Wo i u j :
  ~ (0 <= j <= Z.of_nat (kdeg k))%Z -> valid_first (knpts k) i = Ok tt ->
  func_eval k Wo i j u = Err IndexError.
Proof.
  intros H Hi. unfold func_eval. rewrite Hi. cbn [bind].
  rewrite (valid_second_bad _ _ H). reflexivity.
Qed.

Theorem C02_outside k Wo i u j jn :
  valid_first (knpts k) i = Ok tt -> valid_second (kdeg k) j = Ok jn ->
  kvalid1 k u = false -> func_eval k Wo i j u = Err ValueError.
Proof.
  intros Hi Hj Hv. unfold func_eval. rewrite Hi. cbn [bind]. rewrite Hj. cbn [bind].
  unfold rbasis_row, basis_row. rewrite (kspan_outside k u Hv). reflexivity.
Qed.

(* C02 properties of the VALUES the model returns (sum to one, non-negative, at most one) *)
Theorem C02_row_unity k j u r :
  WF (kvec k) (kdeg k) -> (j <= kdeg k)%nat -> kvalid1 k u = true ->
  basis_row k j u = Ok r -> qsum r == 1.
Proof.
  intros W Hj Hv Hr.
  destruct (basis_row_spec k j u W Hj Hv) as (r' & Hr' & Hl & Hn).
  rewrite Hr in Hr'. inversion Hr'; subst r'. clear Hr'.
  assert (Hin : in_range (kvec k) (kdeg k) u = true) by (rewrite <- kvalid1_in_range; exact Hv).
  rewrite <- (Nspec_unity_deg (kvec k) (kdeg k) W u Hin j Hj). rewrite npts_of_knpts.
  rewrite <- (qsum_map_ext (fun i => nth i r 0) _ (seq 0 (knpts k)))
    by (intros i Hi; apply in_seq in Hi; apply Hn; lia).
  rewrite <- Hl. clear. 
  assert (E : map (fun i => nth i r 0) (seq 0 (length r)) = r).
  { induction r as [|x r IH]; [reflexivity|].
    cbn [length seq map nth]. rewrite <- seq_shift, map_map. cbn [nth]. rewrite IH. reflexivity. }
  rewrite E. reflexivity.
Qed.

Theorem C02_row_bounds k j u r i :
  WF (kvec k) (kdeg k) -> (j <= kdeg k)%nat -> kvalid1 k u = true ->
  basis_row k j u = Ok r -> (i < knpts k)%nat -> 0 <= nth i r 0 <= 1.
Proof.
  intros W Hj Hv Hr Hi.
  destruct (basis_row_spec k j u W Hj Hv) as (r' & Hr' & Hl & Hn).
  rewrite Hr in Hr'. inversion Hr'; subst r'. clear Hr'.
  assert (Hin : in_range (kvec k) (kdeg k) u = true) by (rewrite <- kvalid1_in_range; exact Hv).
  rewrite (Hn i Hi). split.
  - apply Nspec_nonneg; assumption.
  - apply Nspec_le_1; assumption.
Qed.

(* ------------------------------------------------------------------ *)
(* 12. non-vacuity: the hypotheses of the main theorems are satisfiable *)
(*     (interior node, the umax node, a rational curve in dimension 2)  *)
(* ------------------------------------------------------------------ *)
Definition ex_kv : kv := mkkv [0; 0; 0; 1#2; 1; 1; 1] 2.
Definition ex_P : list (list Q) := [[0; 0]; [1; 2]; [3; 1]; [4; 0]].
Definition ex_W : list Q := [1; 2; 1#2; 1].
Definition ex_curve : curve := mkcurve ex_kv (Some ex_P) (Some ex_W).

Example ex_hyps :
  WF (kvec ex_kv) (kdeg ex_kv) /\ kvalid1 ex_kv (1#3) = true /\ kvalid1 ex_kv 1 = true /\
  length ex_P = cnpts ex_curve /\ Forall (fun pt : list Q => length pt = 2%nat) ex_P /\
  pdim ex_P = 2%nat /\ length ex_W = cnpts ex_curve /\ Forall (fun w => 0 < w) ex_W /\
  valid_second (kdeg ex_kv) 1 = Ok 1%nat.
Proof.
  repeat split; try reflexivity;
    repeat (constructor; try reflexivity).
Qed.

Example ex_rational_umax :
  exists v, curve_eval1 ex_curve 1 = Ok v /\
  Forall2 Qeq v (rational_spec (kvec ex_kv) 2 2 ex_W ex_P 1).
Proof.
  destruct ex_hyps as (W & _ & Hv & HPl & HPd & Hd & HWl & HWp & _).
  exact (C01_eval_rational ex_curve ex_P 2 eq_refl W HPl HPd Hd ex_W 1 eq_refl HWl HWp Hv).
Qed.

Print Assumptions horner_red_correct.
Print Assumptions Nloc_proper.
Print Assumptions basis_row_spec.
Print Assumptions Nspec_nonneg.
Print Assumptions Nspec_unity.
Print Assumptions Nspec_unity_deg.
Print Assumptions Nspec_support.
Print Assumptions Nspec_le_1.
Print Assumptions lincomb_correct.
Print Assumptions weight_pos.
Print Assumptions weight_pos_deg.
Print Assumptions rbasis_row_rat_spec.
Print Assumptions C01_eval_spline.
Print Assumptions C01_eval_rational.
Print Assumptions C01_eval_outside.
Print Assumptions C01_eval_seq.
Print Assumptions C02_value.
Print Assumptions C02_value_rational.
Print Assumptions C02_bad_index.
Print Assumptions C02_bad_degree.
Print Assumptions C02_outside.
Print Assumptions C02_row_unity.
Print Assumptions C02_row_bounds.
Print Assumptions ex_rational_umax.
