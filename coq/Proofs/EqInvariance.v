(* Curve equality (model of BaseCurve.__eq__) is invariant under knot insertion.
   E1: the unconstrained projection of a spline space onto a refinement of it (by knot insertion) is the
       insertion matrix, and its error form vanishes identically (E1_matrix, E1_vec, E1_error_bilinear,
       plain form spline2spline_onto_refinement).  Stated for any well-formed new vector kn whose knots
       are == to those of kinsert k nodes (what kor returns), kn := kf being the plain case.
   E2: c_update of a polynomial curve to a refinement = c_knot_insert (c_update_refine /
       c_update_to_refinement), error functional 0 and acceptance for every t >= 0
       (c_update_to_refinement_error_zero, c_update_refine_succeeds / c_update_to_refinement_succeeds).
   E3: a curve and its refinement compare equal with c_eq in both operand orders
       (c_eq_insert_r, c_eq_insert_l under separation of the refined knots; c_eq_insert_explicit_r/_l under
       the explicit hypothesis "the union is the refined vector up to =="; kor_refinement_r/_l prove that
       hypothesis from separation; c_eq_insert_r_true / _l_true: the answer IS Ok true once the certified
       inverse of the projection succeeds); c_eq_refl: c_eq a a = Ok r -> r = true with no hypothesis.
   Everything is proved; nothing is left as NOT PROVED. *)
From Coq Require Import QArith Qabs List Bool Arith Lia Lqa Setoid Morphisms Permutation.
From NurbsV Require Import Base.Res Base.QList Spec.BSpline Spec.KnotSpec Gen.Consts Model.KV Model.Basis
  Model.CurveM Model.Ops Model.CurveOps Model.Linalg Model.Quadrature Model.LeastSq Model.CurveLS.
From NurbsV Require Import Proofs.KVProofs Proofs.EvalProofs Proofs.InsertBasic Proofs.InsertList
  Proofs.InsertCompose Proofs.InsertCurve Proofs.RemoveBasic Proofs.MatProofs Proofs.LSProofs
  Proofs.UndoProofs Proofs.EqBasic.
From NurbsV Require Proofs.UnionProofs.
Import ListNotations.
Open Scope Q_scope.

(* ------------------------------------------------------------------ *)
(* 1. E1: k coarse (the OLD space), kf = k + nodes, M the insertion    *)
(*    matrix; kn any well-formed vector with the knots of kf up to ==  *)
(*    (the vector kor gives back; kn := kf is the plain case): the NEW *)
(*    space                                                            *)
(* ------------------------------------------------------------------ *)
Section Refine.
  Variables (k kf kn : kv) (nodes : list Q) (M : mat).
  Hypothesis W : WF (kvec k) (kdeg k).
  Hypothesis HM : knot_insert k nodes = Ok M.
  Hypothesis Hk : kinsert k nodes = Ok kf.
  Hypothesis Hd : kdeg kf = kdeg k.
  Hypothesis Wn : WF (kvec kn) (kdeg kn).
  Hypothesis Hnv : Forall2 Qeq (kvec kn) (kvec kf).
  Hypothesis Hnd : kdeg kn = kdeg kf.

  Let no := knpts k.
  Let nn := knpts kn.

  Lemma kn_npts : knpts kn = knpts kf.
  Proof using Hnv Hnd. exact (kc_npts kf kn Hnv Hnd). Qed.

  Lemma RM_shaped : shaped nn no M.
  Proof using All.
    unfold nn, no. rewrite kn_npts.
    apply (M_shaped k kf k nodes M W HM Hk Hd W); [|reflexivity].
    clear. induction (kvec k); constructor; [reflexivity|assumption].
  Qed.

  Lemma RM_length : length M = nn.
  Proof using All. exact (proj1 RM_shaped). Qed.

  Lemma RMz_length z : length (mvec M z) = nn.
  Proof using All. rewrite mvec_length. exact RM_length. Qed.

  (* the basis relation: sum_r g_r (M z)_r = sum_i f_i z_i *)
  Theorem E1_dot u f g z :
    basis_row k (kdeg k) u = Ok f -> basis_row kn (kdeg kn) u = Ok g -> length z = no ->
    dot f z == dot g (mvec M z).
  Proof using All.
    intros Hf Hg Hz.
    rewrite (basis_row_dot kn u g (mvec M z) Wn Hg (RMz_length z)).
    rewrite (basis_row_dot k u f z W Hf Hz).
    rewrite Hnd, Hd.
    rewrite (curve_spec1_knots_proper (kvec kn) (kvec kf) _ _ _ Hnv).
    destruct (knot_insert_curve k nodes M kf W HM Hk Hd) as [_ C].
    symmetry. apply C; [exact Hz|].
    rewrite <- kvalid1_in_range. exact (basis_row_valid _ _ _ _ Hf).
  Qed.

  Lemma E1_nodes z : length z = no ->
    forall u f gk, In u (quad_nodes k kn) ->
      basis_row k (kdeg k) u = Ok f -> basis_row kn (kdeg kn) u = Ok gk ->
      dot f z == dot gk (mvec M z).
  Proof using All. intros Hz u f gk _ Hf Hg. exact (E1_dot u f gk z Hf Hg Hz). Qed.

  Lemma nn_pos' : (0 < nn)%nat.
  Proof using Wn. exact (wf_knpts_pos kn Wn). Qed.

  Section Proj.
    Variables (T E : mat).
    Hypothesis HS : spline2spline k kn None = Ok (T, E).

    Lemma E1_grams : exists g, grams_of k kn = Ok g.
    Proof using HS.
      destruct (s2s_none_unfold _ _ _ _ HS) as (g & _ & Hg & _). exists g. exact Hg.
    Qed.

    Theorem E1_vec z : length z = no -> veq (mvec T z) (mvec M z).
    Proof using All.
      intro Hz. destruct E1_grams as [g Hg].
      apply (spline2spline_reproduces k kn T E g HS Hg z (mvec M z) Hz (RMz_length z) (E1_nodes z Hz)).
    Qed.

    (* E1 (i): the projection matrix IS the insertion matrix *)
    Theorem E1_matrix : meq T M.
    Proof using All.
      destruct E1_grams as [g Hg].
      apply (meq_ext nn no); [exact (spline2spline_T_shaped k kn T E g HS Hg)|exact RM_shaped|].
      intros v Hv. apply E1_vec. exact Hv.
    Qed.

    (* E1 (ii): the error form vanishes (bilinear version: what fit_error reads) *)
    Theorem E1_error_bilinear x y : length x = no -> length y = no ->
      dot x (mvec E y) == 0.
    Proof using All.
      intros Hx Hy. destruct E1_grams as [g Hg].
      destruct (grams_of_shaped _ _ _ Hg) as (S1 & S2 & S3).
      pose proof (shaped_len _ _ _ S1) as L1. pose proof (shaped_len _ _ _ S2) as L2.
      pose proof (spline2spline_T_shaped k kn T E g HS Hg) as ST. pose proof (shaped_len _ _ _ ST) as LT.
      rewrite (spline2spline_error_action k kn T E g y HS Hg nn_pos' Hy).
      rewrite dot_vsub_r by (rewrite !mvec_length, mtrans_n_length; exact L1).
      rewrite <- (dot_mvec_adjoint_gen (knpts k) (gGF g) x (mvec T y) Hx)
        by (rewrite mvec_length; congruence).
      rewrite (E1_vec y Hy).
      rewrite (grams_of_transfer k kn g x (mvec M x) Hg Hx (RMz_length x) (E1_nodes x Hx)).
      rewrite (grams_of_transfer_FF k kn g x y (mvec M x) (mvec M y) Hg Hx Hy (RMz_length x) (RMz_length y)
                 (E1_nodes x Hx) (E1_nodes y Hy)).
      rewrite (dot_sym (mvec (gGG g) (mvec M x)) (mvec M y)).
      rewrite (grams_of_GG_symmetric k kn g Hg (mvec M y) (mvec M x) (RMz_length y) (RMz_length x)). ring.
    Qed.

    Corollary E1_error x : length x = no -> dot x (mvec E x) == 0.
    Proof using All. intro Hx. apply E1_error_bilinear; exact Hx. Qed.
  End Proj.
  (* ---------------------------------------------------------------- *)
  (* E2: the curve level                                                *)
  (* ---------------------------------------------------------------- *)
  Lemma kn_len_nodes : length (kvec kn) = (length (kvec k) + length nodes)%nat.
  Proof using Hk Hnv.
    rewrite (Forall2_Qeq_length _ _ Hnv). destruct (kinsert_vec _ _ _ Hk) as [Ev _].
    rewrite Ev, (Permutation_length (sortq_perm _)), app_length. reflexivity.
  Qed.

  Lemma nodes_nil_of_eqb' : kv_eqb kn k = true -> nodes = [].
  Proof using All.
    intro EK. unfold kv_eqb in EK. apply andb_true_iff in EK. destruct EK as [EK _].
    apply ql_eqb_Forall2 in EK. apply Forall2_Qeq_length in EK.
    pose proof kn_len_nodes as L. apply length_zero_iff_nil. lia.
  Qed.

  Lemma E2_limits : limits_eqb k kn = true.
  Proof using All.
    pose proof (kinsert_wf _ _ _ Hk) as Wf.
    destruct (in_range_limits _ _ _ _ (kinsert_in_range k nodes M kf W HM Hk Hd)
                (Qlt_le_weak _ _ (wf_umin_lt_umax _ _ Wf)) (Qlt_le_weak _ _ (wf_umin_lt_umax _ _ W)))
      as [E1 E2].
    unfold limits_eqb. rewrite !kumin_umin, !kumax_umax.
    assert (F1 : umin_of (kvec kn) (kdeg kn) == umin_of (kvec kf) (kdeg kf)).
    { unfold umin_of. rewrite Hnd. apply Forall2_Qeq_nthq. exact Hnv. }
    assert (F2 : umax_of (kvec kn) (kdeg kn) == umax_of (kvec kf) (kdeg kf)).
    { unfold umax_of. rewrite Hnd, (Forall2_Qeq_length _ _ Hnv).
      apply Forall2_Qeq_nthq. exact Hnv. }
    apply andb_true_iff. split; apply Qeqb_eq; [rewrite F1, E1|rewrite F2, E2]; reflexivity.
  Qed.

  Section Points.
    Variables (P : list pt) (d : nat).
    Hypothesis HPl : length P = knpts k.
    Hypothesis HPd : Forall (fun q : pt => length q = d) P.

    Lemma RP_pdim : pdim P = d.
    Proof using W HPl HPd. exact (P_pdim k k W eq_refl P d HPl HPd). Qed.

    Lemma RP1_dims A : Forall (fun q : pt => length q = d) (mat_apply A P).
    Proof using W HPl HPd. apply mat_apply_dims; [exact HPd|exact RP_pdim]. Qed.

    (* the control points produced by the projection are those of knot insertion *)
    Lemma E2_points T E : spline2spline k kn None = Ok (T, E) ->
      Forall2 (Forall2 Qeq) (mat_apply T P) (mat_apply M P).
    Proof using All.
      intro HS. apply (points_eq_by_coords _ _ d).
      - rewrite !mat_apply_length. rewrite (meq_length _ _ (E1_matrix T E HS)). reflexivity.
      - apply RP1_dims.
      - apply RP1_dims.
      - intros kk Hkk.
        rewrite (coord_mat_apply_veq T P d kk Hkk HPd RP_pdim).
        rewrite (coord_mat_apply_veq M P d kk Hkk HPd RP_pdim).
        apply (E1_vec T E HS). rewrite coord_length. exact HPl.
    Qed.

    Lemma E2_points_nil : nodes = [] -> Forall2 (Forall2 Qeq) P (mat_apply M P).
    Proof using W HM HPl HPd.
      intro E. apply meq_sym. exact (U4_points_nil k k nodes M W HM eq_refl P d HPl HPd E).
    Qed.

    (* the error functional of the projection vanishes *)
    Theorem E2_fit_error T E : spline2spline k kn None = Ok (T, E) -> fit_error E P == 0.
    Proof using All.
      intro HS. apply fit_error_zero. rewrite RP_pdim. intros a b Ha Hb.
      change (coordq a P) with (coord a P). change (coordq b P) with (coord b P).
      apply (E1_error_bilinear T E HS); rewrite coord_length; exact HPl.
    Qed.

    (* E2 (i): c_update to the refinement returns the control points of knot insertion *)
    Theorem c_update_refine tol c2 :
      c_update (mkcurve k (Some P) None) kn tol None = Ok c2 ->
      exists P2, cP c2 = Some P2 /\ Forall2 (Forall2 Qeq) P2 (mat_apply M P) /\ cW c2 = None
                 /\ kv_eqb (ckv c2) kn = true.
    Proof using All.
      intro H. pose proof (c_update_kv _ _ _ _ _ H) as KV. revert H.
      unfold c_update. cbn [ckv cP cW]. destruct (kv_eqb kn k) eqn:EK.
      - intro H. inversion H; subst c2. exists P. cbn [cP cW].
        split; [reflexivity|]. split; [exact (E2_points_nil (nodes_nil_of_eqb' EK))|].
        split; [reflexivity|exact KV].
      - rewrite E2_limits. cbn [negb]. unfold c_fit_curve. cbn [cW cP ckv].
        destruct (spline2spline k kn None) as [[T E]|] eqn:HS; cbn [bind]; [|intro H; discriminate].
        assert (G : forall c', Ok (mkcurve kn (Some (mat_apply T P)) None) = Ok c' ->
                    exists P2, cP c' = Some P2 /\ Forall2 (Forall2 Qeq) P2 (mat_apply M P) /\ cW c' = None).
        { intros c' H. inversion H; subst c'. exists (mat_apply T P). cbn [cP cW].
          split; [reflexivity|]. split; [exact (E2_points T E HS)|reflexivity]. }
        destruct tol as [t|].
        + destruct (negb (Qeqb t 0) && Qltb t (fit_error E P)); [intro H; discriminate|].
          intro H. destruct (G c2 H) as (P2 & A & B & C). exists P2. repeat split; assumption.
        + intro H. destruct (G c2 H) as (P2 & A & B & C). exists P2. repeat split; assumption.
    Qed.

    (* E2 (ii): as soon as the certified inverse succeeds, the tolerance guard passes for every t >= 0 *)
    Theorem c_update_refine_succeeds t T E : 0 <= t ->
      spline2spline k kn None = Ok (T, E) ->
      exists c2, c_update (mkcurve k (Some P) None) kn (Some t) None = Ok c2.
    Proof using All.
      intros Ht HS. unfold c_update. cbn [ckv cP cW]. destruct (kv_eqb kn k); [eexists; reflexivity|].
      rewrite E2_limits. cbn [negb]. unfold c_fit_curve. cbn [cW cP ckv]. rewrite HS. cbn [bind].
      assert (G : Qltb t (fit_error E P) = false)
        by (rewrite (E2_fit_error T E HS); apply Qltb_ge; exact Ht).
      rewrite G, andb_false_r. eexists. reflexivity.
    Qed.
    (* E3, core: the two refined copies that c_eq compares have == control points *)
    Lemma kn_eqb_kf : kv_eqb kn kf = true.
    Proof using Hnv Hnd.
      unfold kv_eqb. rewrite (proj2 (ql_eqb_Forall2 _ _) Hnv), Hnd, Nat.eqb_refl. reflexivity.
    Qed.

    Lemma E3_core tol a' b' Pa Pb :
      c_update (mkcurve k (Some P) None) kn tol None = Ok a' ->
      c_update (mkcurve kf (Some (mat_apply M P)) None) kn tol None = Ok b' ->
      cP a' = Some Pa -> cP b' = Some Pb ->
      Forall2 (Forall2 Qeq) Pa Pb.
    Proof using All.
      intros UA UB EA EB.
      destruct (c_update_refine tol a' UA) as (P2 & A & B & _).
      rewrite EA in A. inversion A; subst P2.
      unfold c_update in UB. cbn [ckv] in UB. rewrite kn_eqb_kf in UB. inversion UB; subst b'.
      cbn [cP] in EB. inversion EB; subst Pb. exact B.
    Qed.
  End Points.
End Refine.

(* ------------------------------------------------------------------ *)
(* 2. the union of a knot vector and a refinement of it is the         *)
(*    refinement (up to ==), in both operand orders                    *)
(* ------------------------------------------------------------------ *)
Lemma kinsert_count k nodes kf x : kinsert k nodes = Ok kf ->
  count_q x (kvec kf) = (count_q x (kvec k) + count_q x nodes)%nat.
Proof.
  intro Hk. destruct (kinsert_vec _ _ _ Hk) as [Ev _]. rewrite Ev.
  rewrite (UnionProofs.count_q_perm _ _ _ (sortq_perm _)). apply UnionProofs.count_q_app.
Qed.

Theorem kor_refinement_r k nodes kf kn :
  WF (kvec k) (kdeg k) -> kinsert k nodes = Ok kf -> kdeg kf = kdeg k ->
  UnionProofs.separated (kvec k ++ kvec kf) -> kor k kf = Ok kn ->
  WF (kvec kn) (kdeg kn) /\ Forall2 Qeq (kvec kn) (kvec kf) /\ kdeg kn = kdeg kf.
Proof.
  intros W Hk Hd S H. pose proof (kinsert_wf _ _ _ Hk) as Wf. pose proof (kor_wf _ _ _ H) as Wn.
  split; [exact Wn|]. split.
  - apply sorted_counts_Forall2; [apply (wf_parts _ _ Wn)|apply (wf_parts _ _ Wf)|].
    intro y. rewrite (UnionProofs.kor_mult_law k kf kn S H y). rewrite Hd, Nat.max_id.
    rewrite !UnionProofs.lift_same_deg. rewrite (kinsert_count k nodes kf y Hk). lia.
  - rewrite (UnionProofs.kor_degree k kf kn W Wf S H). rewrite Hd. apply Nat.max_id.
Qed.

Theorem kor_refinement_l k nodes kf kn :
  WF (kvec k) (kdeg k) -> kinsert k nodes = Ok kf -> kdeg kf = kdeg k ->
  UnionProofs.separated (kvec k ++ kvec kf) -> kor kf k = Ok kn ->
  WF (kvec kn) (kdeg kn) /\ Forall2 Qeq (kvec kn) (kvec kf) /\ kdeg kn = kdeg kf.
Proof.
  intros W Hk Hd S H. pose proof (kinsert_wf _ _ _ Hk) as Wf. pose proof (kor_wf _ _ _ H) as Wn.
  pose proof (UnionProofs.separated_swap _ _ S) as S'.
  split; [exact Wn|]. split.
  - apply sorted_counts_Forall2; [apply (wf_parts _ _ Wn)|apply (wf_parts _ _ Wf)|].
    intro y. rewrite (UnionProofs.kor_mult_law kf k kn S' H y). rewrite Hd, Nat.max_id.
    rewrite !UnionProofs.lift_same_deg. rewrite (kinsert_count k nodes kf y Hk). lia.
  - rewrite (UnionProofs.kor_degree kf k kn Wf W S' H). rewrite Hd. apply Nat.max_id.
Qed.

(* separation of the refined vector is enough: every knot of k is a knot of kf *)
Lemma separated_refinement k nodes kf : kinsert k nodes = Ok kf ->
  UnionProofs.separated (kvec kf) -> UnionProofs.separated (kvec k ++ kvec kf).
Proof.
  intros Hk. apply UnionProofs.separated_incl. intros x Hx.
  apply in_app_or in Hx. destruct Hx as [Hx|Hx]; [|exact Hx].
  destruct (kinsert_vec _ _ _ Hk) as [Ev _]. rewrite Ev.
  apply (Permutation_in x (Permutation_sym (sortq_perm _))). apply in_or_app. left. exact Hx.
Qed.

(* ------------------------------------------------------------------ *)
(* 3. c_eq                                                              *)
(* ------------------------------------------------------------------ *)
Definition close_b (Pa Pb : list pt) : bool :=
  forallb (fun pq => negb (Qltb (tol_eq * tol_eq) (pt_dist2 (fst pq) (snd pq)))) (combine Pa Pb).

Lemma pt_dist2_zero a b : Forall2 Qeq a b -> pt_dist2 a b == 0.
Proof.
  unfold pt_dist2. induction 1 as [|x y a b Hxy H IH]; cbn [map2 qsum]; [reflexivity|].
  rewrite IH, Hxy. ring.
Qed.

Lemma tol_eq_sq_nonneg : 0 <= tol_eq * tol_eq.
Proof. vm_compute. discriminate. Qed.

Lemma close_b_of_meq Pa Pb : Forall2 (Forall2 Qeq) Pa Pb -> close_b Pa Pb = true.
Proof.
  unfold close_b. induction 1 as [|p q Pa Pb Hpq H IH]; cbn [combine forallb fst snd]; [reflexivity|].
  apply andb_true_iff. split; [|exact IH]. apply negb_true_iff. apply Qltb_ge.
  rewrite (pt_dist2_zero p q Hpq). exact tol_eq_sq_nonneg.
Qed.

Lemma close_b_refl Pa : close_b Pa Pa = true.
Proof. apply close_b_of_meq. apply meq_refl. Qed.

(* what an Ok answer of c_eq is made of, once the cheap tests pass *)
Lemma c_eq_ok_inv a b Pa0 Pb0 r :
  first_q (kvec (ckv a)) == first_q (kvec (ckv b)) ->
  last_q (kvec (ckv a)) == last_q (kvec (ckv b)) ->
  cP a = Some Pa0 -> cP b = Some Pb0 ->
  c_eq a b = Ok r ->
  exists kn a' b' Pa Pb,
    kor (ckv a) (ckv b) = Ok kn
    /\ c_update a kn (Some tol_update) None = Ok a' /\ c_update b kn (Some tol_update) None = Ok b'
    /\ cP a' = Some Pa /\ cP b' = Some Pb /\ r = close_b Pa Pb.
Proof.
  intros F L EA EB. unfold c_eq.
  rewrite (proj2 (Qeqb_eq _ _) F), (proj2 (Qeqb_eq _ _) L). cbn [negb]. rewrite EA, EB.
  destruct (kor (ckv a) (ckv b)) as [kn|] eqn:EK; cbn [bind]; [|intro; discriminate].
  destruct (c_update a kn (Some tol_update) None) as [a'|] eqn:UA; cbn [bind]; [|intro; discriminate].
  destruct (c_update b kn (Some tol_update) None) as [b'|] eqn:UB; cbn [bind]; [|intro; discriminate].
  destruct (cP a') as [Pa|] eqn:PA, (cP b') as [Pb|] eqn:PB; try (intro; discriminate).
  intro H. injection H as H1. exists kn, a', b', Pa, Pb.
  repeat (split; [first [reflexivity | assumption]|]). symmetry. exact H1.
Qed.

(* reflexivity: whenever c_eq a a answers, the answer is True (no hypothesis at all) *)
Theorem c_eq_refl a r : c_eq a a = Ok r -> r = true.
Proof.
  intro H. destruct (cP a) as [P|] eqn:EP.
  - destruct (c_eq_ok_inv a a P P r (Qeq_refl _) (Qeq_refl _) EP EP H)
      as (kn & a' & b' & Pa & Pb & _ & UA & UB & PA & PB & ->).
    rewrite UA in UB. inversion UB; subst b'. rewrite PA in PB. inversion PB; subst Pb.
    apply close_b_refl.
  - unfold c_eq in H. rewrite EP in H.
    destruct (negb (Qeqb (first_q (kvec (ckv a))) (first_q (kvec (ckv a))))) eqn:E1.
    { apply negb_true_iff in E1. apply Qeqb_neq in E1. exfalso. apply E1. reflexivity. }
    destruct (negb (Qeqb (last_q (kvec (ckv a))) (last_q (kvec (ckv a))))) eqn:E2.
    { apply negb_true_iff in E2. apply Qeqb_neq in E2. exfalso. apply E2. reflexivity. }
    discriminate.
Qed.

Lemma curve_eta a P : cW a = None -> cP a = Some P -> a = mkcurve (ckv a) (Some P) None.
Proof. destruct a as [k0 P0 W0]. cbn. intros -> ->. reflexivity. Qed.

(* ------------------------------------------------------------------ *)
(* 4. E3: == is invariant under knot insertion                          *)
(* ------------------------------------------------------------------ *)
Section EqInsert.
  Variables (a b : curve) (P : list pt) (d : nat) (nodes : list Q).
  Hypothesis HW : cW a = None.
  Hypothesis HP : cP a = Some P.
  Hypothesis W : WF (kvec (ckv a)) (cdeg a).
  Hypothesis HPl : length P = cnpts a.
  Hypothesis HPd : Forall (fun q : pt => length q = d) P.
  Hypothesis Hins : c_knot_insert a nodes = Ok b.
  Hypothesis Hd : kdeg (ckv b) = cdeg a.

  Lemma ins_data : exists M, kinsert (ckv a) nodes = Ok (ckv b) /\ knot_insert (ckv a) nodes = Ok M /\
                             b = mkcurve (ckv b) (Some (mat_apply M P)) None.
  Proof using HW HP Hins.
    destruct (c_knot_insert_poly a P nodes b HW HP Hins) as (kf & M & Hk & HM & E).
    exists M. rewrite E. cbn [ckv]. repeat split; assumption.
  Qed.

  Lemma ins_first_last :
    first_q (kvec (ckv a)) == first_q (kvec (ckv b)) /\ last_q (kvec (ckv a)) == last_q (kvec (ckv b)).
  Proof using All.
    destruct ins_data as (M & Hk & HM & _). pose proof (kinsert_wf _ _ _ Hk) as Wf.
    apply (UnionProofs.limits_first_last (ckv a) (ckv b) W Wf).
    exact (E2_limits (ckv a) (ckv b) (ckv b) nodes M W HM Hk Hd Wf (veq_refl _) eq_refl).
  Qed.

  (* explicit-hypothesis versions: the union vector is the refined vector up to == *)
  Theorem c_eq_insert_explicit_r kn r :
    kor (ckv a) (ckv b) = Ok kn -> Forall2 Qeq (kvec kn) (kvec (ckv b)) -> kdeg kn = kdeg (ckv b) ->
    c_eq a b = Ok r -> r = true.
  Proof using All.
    intros EK Hnv Hnd H. destruct ins_data as (M & Hk & HM & Eb). destruct ins_first_last as [F L].
    pose proof (kor_wf _ _ _ EK) as Wn.
    assert (PB : cP b = Some (mat_apply M P)) by (rewrite Eb; reflexivity).
    destruct (c_eq_ok_inv a b _ _ r F L HP PB H) as (kn' & a' & b' & Pa & Pb & EK' & UA & UB & PA & PB' & ->).
    rewrite EK in EK'. inversion EK'; subst kn'. clear EK'.
    rewrite (curve_eta a P HW HP) in UA. rewrite Eb in UB.
    apply close_b_of_meq.
    exact (E3_core (ckv a) (ckv b) kn nodes M W HM Hk Hd Wn Hnv Hnd P d HPl HPd _ a' b' Pa Pb UA UB PA PB').
  Qed.

  Theorem c_eq_insert_explicit_l kn r :
    kor (ckv b) (ckv a) = Ok kn -> Forall2 Qeq (kvec kn) (kvec (ckv b)) -> kdeg kn = kdeg (ckv b) ->
    c_eq b a = Ok r -> r = true.
  Proof using All.
    intros EK Hnv Hnd H. destruct ins_data as (M & Hk & HM & Eb). destruct ins_first_last as [F L].
    pose proof (kor_wf _ _ _ EK) as Wn.
    assert (PB : cP b = Some (mat_apply M P)) by (rewrite Eb; reflexivity).
    destruct (c_eq_ok_inv b a _ _ r (Qeq_sym _ _ F) (Qeq_sym _ _ L) PB HP H)
      as (kn' & b' & a' & Pb & Pa & EK' & UB & UA & PB' & PA & ->).
    rewrite EK in EK'. inversion EK'; subst kn'. clear EK'.
    rewrite (curve_eta a P HW HP) in UA. rewrite Eb in UB.
    apply close_b_of_meq. apply meq_sym.
    exact (E3_core (ckv a) (ckv b) kn nodes M W HM Hk Hd Wn Hnv Hnd P d HPl HPd _ a' b' Pa Pb UA UB PA PB').
  Qed.

  (* E3: under the separation hypothesis (distinct knots of the refined vector at least tol_unique apart)
     the union IS the refined vector up to ==, so == answers True in both operand orders *)
  Hypothesis Sep : UnionProofs.separated (kvec (ckv b)).

  Theorem c_eq_insert_r r : c_eq a b = Ok r -> r = true.
  Proof using All.
    intro H. destruct ins_data as (M & Hk & HM & Eb). destruct ins_first_last as [F L].
    assert (PB : cP b = Some (mat_apply M P)) by (rewrite Eb; reflexivity).
    destruct (c_eq_ok_inv a b _ _ r F L HP PB H) as (kn & _ & _ & _ & _ & EK & _).
    destruct (kor_refinement_r (ckv a) nodes (ckv b) kn W Hk Hd (separated_refinement _ _ _ Hk Sep) EK)
      as (_ & Hnv & Hnd).
    exact (c_eq_insert_explicit_r kn r EK Hnv Hnd H).
  Qed.

  Theorem c_eq_insert_l r : c_eq b a = Ok r -> r = true.
  Proof using All.
    intro H. destruct ins_data as (M & Hk & HM & Eb). destruct ins_first_last as [F L].
    assert (PB : cP b = Some (mat_apply M P)) by (rewrite Eb; reflexivity).
    destruct (c_eq_ok_inv b a _ _ r (Qeq_sym _ _ F) (Qeq_sym _ _ L) PB HP H) as (kn & _ & _ & _ & _ & EK & _).
    destruct (kor_refinement_l (ckv a) nodes (ckv b) kn W Hk Hd (separated_refinement _ _ _ Hk Sep) EK)
      as (_ & Hnv & Hnd).
    exact (c_eq_insert_explicit_l kn r EK Hnv Hnd H).
  Qed.
End EqInsert.

(* ------------------------------------------------------------------ *)
(* 5. E1 / E2 in plain form (kn := kf)                                  *)
(* ------------------------------------------------------------------ *)
Theorem spline2spline_onto_refinement k nodes kf M T E :
  WF (kvec k) (kdeg k) -> knot_insert k nodes = Ok M -> kinsert k nodes = Ok kf -> kdeg kf = kdeg k ->
  spline2spline k kf None = Ok (T, E) ->
  meq T M /\
  (forall x, length x = knpts k -> veq (mvec T x) (mvec M x)) /\
  (forall x y, length x = knpts k -> length y = knpts k -> dot x (mvec E y) == 0) /\
  (forall x, length x = knpts k -> dot x (mvec E x) == 0).
Proof.
  intros W HM Hk Hd HS. pose proof (kinsert_wf _ _ _ Hk) as Wf.
  split; [exact (E1_matrix k kf kf nodes M W HM Hk Hd Wf (veq_refl _) eq_refl T E HS)|].
  split; [exact (E1_vec k kf kf nodes M W HM Hk Hd Wf (veq_refl _) eq_refl T E HS)|].
  split; [exact (E1_error_bilinear k kf kf nodes M W HM Hk Hd Wf (veq_refl _) eq_refl T E HS)|].
  exact (E1_error k kf kf nodes M W HM Hk Hd Wf (veq_refl _) eq_refl T E HS).
Qed.

(* E2: updating a polynomial curve to a refinement of its knot vector gives the control points of
   c_knot_insert (up to ==), on the refined vector *)
Theorem c_update_to_refinement c (P : list pt) d nodes c1 tol c2 :
  cW c = None -> cP c = Some P -> WF (kvec (ckv c)) (cdeg c) ->
  length P = cnpts c -> Forall (fun q : pt => length q = d) P ->
  c_knot_insert c nodes = Ok c1 -> kdeg (ckv c1) = cdeg c ->
  c_update c (ckv c1) tol None = Ok c2 ->
  exists P1 P2, cP c1 = Some P1 /\ cP c2 = Some P2 /\ Forall2 (Forall2 Qeq) P2 P1 /\ cW c2 = None /\
                kv_eqb (ckv c2) (ckv c1) = true.
Proof.
  intros HW HP W HPl HPd H1 Hd H2.
  destruct (ins_data c c1 P nodes HW HP H1) as (M & Hk & HM & E1).
  pose proof (kinsert_wf _ _ _ Hk) as Wf.
  rewrite (curve_eta c P HW HP) in H2. cbn [ckv] in H2.
  destruct (c_update_refine (ckv c) (ckv c1) (ckv c1) nodes M W HM Hk Hd Wf (veq_refl _) eq_refl
              P d HPl HPd tol c2 H2) as (P2 & A & B & C & KV).
  exists (mat_apply M P), P2. split; [rewrite E1; reflexivity|]. repeat split; assumption.
Qed.

(* E2, acceptance: the error functional is exactly 0, so the update is accepted for every
   tolerance t >= 0 as soon as the model's certified inverse of the Gram matrix succeeds *)
Theorem c_update_to_refinement_error_zero c (P : list pt) d nodes c1 T E :
  cW c = None -> cP c = Some P -> WF (kvec (ckv c)) (cdeg c) ->
  length P = cnpts c -> Forall (fun q : pt => length q = d) P ->
  c_knot_insert c nodes = Ok c1 -> kdeg (ckv c1) = cdeg c ->
  spline2spline (ckv c) (ckv c1) None = Ok (T, E) ->
  fit_error E P == 0.
Proof.
  intros HW HP W HPl HPd H1 Hd HS.
  destruct (ins_data c c1 P nodes HW HP H1) as (M & Hk & HM & E1).
  pose proof (kinsert_wf _ _ _ Hk) as Wf.
  exact (E2_fit_error (ckv c) (ckv c1) (ckv c1) nodes M W HM Hk Hd Wf (veq_refl _) eq_refl P d HPl HPd T E HS).
Qed.

Theorem c_update_to_refinement_succeeds c (P : list pt) d nodes c1 T E t :
  cW c = None -> cP c = Some P -> WF (kvec (ckv c)) (cdeg c) ->
  length P = cnpts c -> Forall (fun q : pt => length q = d) P ->
  c_knot_insert c nodes = Ok c1 -> kdeg (ckv c1) = cdeg c ->
  spline2spline (ckv c) (ckv c1) None = Ok (T, E) -> 0 <= t ->
  exists c2, c_update c (ckv c1) (Some t) None = Ok c2.
Proof.
  intros HW HP W HPl HPd H1 Hd HS Ht.
  destruct (ins_data c c1 P nodes HW HP H1) as (M & Hk & HM & E1).
  pose proof (kinsert_wf _ _ _ Hk) as Wf.
  rewrite (curve_eta c P HW HP). cbn [ckv].
  exact (c_update_refine_succeeds (ckv c) (ckv c1) (ckv c1) nodes M W HM Hk Hd Wf (veq_refl _) eq_refl
           P d HPl HPd t T E Ht HS).
Qed.

(* ------------------------------------------------------------------ *)
(* 6. Example: a quadratic Bezier curve and its refinement by the knot  *)
(*    1/2 compare equal in both orders                                  *)
(* ------------------------------------------------------------------ *)
Definition eqx_a : curve := mkcurve (mkkv [0; 0; 0; 1; 1; 1] 2) (Some [[0; 0]; [1; 2]; [3; 1]]) None.
Definition eqx_b : curve := unwrap eqx_a (c_knot_insert eqx_a [1 # 2]).

Example eqx_insert : c_knot_insert eqx_a [1 # 2] = Ok eqx_b /\ kvec (ckv eqx_b) = [0; 0; 0; 1 # 2; 1; 1; 1].
Proof. vm_compute. split; reflexivity. Qed.

Example eqx_eq_both_orders : c_eq eqx_a eqx_b = Ok true /\ c_eq eqx_b eqx_a = Ok true /\ c_eq eqx_a eqx_a = Ok true.
Proof. vm_compute. repeat split; reflexivity. Qed.

(* the hypotheses of the E3 theorems hold on the example *)
Example eqx_hyps :
  cW eqx_a = None /\ WF (kvec (ckv eqx_a)) (cdeg eqx_a) /\ kdeg (ckv eqx_b) = cdeg eqx_a /\
  UnionProofs.separated (kvec (ckv eqx_b)).
Proof.
  split; [reflexivity|]. split; [vm_compute; reflexivity|]. split; [vm_compute; reflexivity|].
  apply UnionProofs.separated_b_sound. vm_compute. reflexivity.
Qed.

Example eqx_by_theorem r : c_eq eqx_a eqx_b = Ok r -> r = true.
Proof.
  destruct eqx_hyps as (HW & W & Hd & S).
  apply (c_eq_insert_r eqx_a eqx_b [[0; 0]; [1; 2]; [3; 1]] 2 [1 # 2] HW eq_refl W eq_refl).
  - repeat constructor.
  - exact (proj1 eqx_insert).
  - exact Hd.
  - exact S.
Qed.

(* ------------------------------------------------------------------ *)
(* 7. E3, success: the answer IS True once the projection succeeds      *)
(* ------------------------------------------------------------------ *)
Lemma c_eq_compute a b Pa0 Pb0 kn a' b' Pa Pb :
  first_q (kvec (ckv a)) == first_q (kvec (ckv b)) ->
  last_q (kvec (ckv a)) == last_q (kvec (ckv b)) ->
  cP a = Some Pa0 -> cP b = Some Pb0 ->
  kor (ckv a) (ckv b) = Ok kn ->
  c_update a kn (Some tol_update) None = Ok a' -> c_update b kn (Some tol_update) None = Ok b' ->
  cP a' = Some Pa -> cP b' = Some Pb ->
  c_eq a b = Ok (close_b Pa Pb).
Proof.
  intros F L EA EB EK UA UB PA PB. unfold c_eq.
  rewrite (proj2 (Qeqb_eq _ _) F), (proj2 (Qeqb_eq _ _) L). cbn [negb]. rewrite EA, EB.
  rewrite EK. cbn [bind]. rewrite UA. cbn [bind]. rewrite UB. cbn [bind]. rewrite PA, PB. reflexivity.
Qed.

Lemma tol_update_nonneg : 0 <= tol_update.
Proof. vm_compute. discriminate. Qed.

Section EqInsertSucceeds.
  Variables (a b : curve) (P : list pt) (d : nat) (nodes : list Q).
  Hypothesis HW : cW a = None.
  Hypothesis HP : cP a = Some P.
  Hypothesis W : WF (kvec (ckv a)) (cdeg a).
  Hypothesis HPl : length P = cnpts a.
  Hypothesis HPd : Forall (fun q : pt => length q = d) P.
  Hypothesis Hins : c_knot_insert a nodes = Ok b.
  Hypothesis Hd : kdeg (ckv b) = cdeg a.
  Hypothesis Sep : UnionProofs.separated (kvec (ckv b)).

  (* the two refined copies, for any union vector kn == ckv b on which the projection succeeds *)
  Lemma refined_copies kn T E :
    WF (kvec kn) (kdeg kn) -> Forall2 Qeq (kvec kn) (kvec (ckv b)) -> kdeg kn = kdeg (ckv b) ->
    spline2spline (ckv a) kn None = Ok (T, E) ->
    exists a' Pa Pb, c_update a kn (Some tol_update) None = Ok a' /\ c_update b kn (Some tol_update) None = Ok b /\
      cP a' = Some Pa /\ cP b = Some Pb /\ Forall2 (Forall2 Qeq) Pa Pb.
  Proof using HW HP W HPl HPd Hins Hd.
    intros Wn Hnv Hnd HS. destruct (ins_data a b P nodes HW HP Hins) as (M & Hk & HM & Eb).
    destruct (c_update_refine_succeeds (ckv a) (ckv b) kn nodes M W HM Hk Hd Wn Hnv Hnd P d HPl HPd
                tol_update T E tol_update_nonneg HS) as (a' & UA).
    destruct (c_update_refine (ckv a) (ckv b) kn nodes M W HM Hk Hd Wn Hnv Hnd P d HPl HPd _ a' UA)
      as (Pa & PA & B & _).
    rewrite <- (curve_eta a P HW HP) in UA.
    exists a', Pa, (mat_apply M P). split; [exact UA|]. split.
    - unfold c_update. rewrite (kn_eqb_kf (ckv b) kn Hnv Hnd). reflexivity.
    - split; [exact PA|]. split; [rewrite Eb; reflexivity|exact B].
  Qed.

  Theorem c_eq_insert_r_true :
    (forall kn, kor (ckv a) (ckv b) = Ok kn -> exists T E, spline2spline (ckv a) kn None = Ok (T, E)) ->
    c_eq a b = Ok true.
  Proof using All.
    intro Hproj. destruct (ins_data a b P nodes HW HP Hins) as (M & Hk & HM & Eb).
    destruct (ins_first_last a b P d nodes HW HP W HPl HPd Hins Hd) as [F L].
    pose proof (kinsert_wf _ _ _ Hk) as Wf.
    pose proof (separated_refinement _ _ _ Hk Sep) as S.
    destruct (UnionProofs.kor_succeeds (ckv a) (ckv b) W Wf S
                (E2_limits (ckv a) (ckv b) (ckv b) nodes M W HM Hk Hd Wf (veq_refl _) eq_refl)) as (kn & EK).
    destruct (kor_refinement_r (ckv a) nodes (ckv b) kn W Hk Hd S EK) as (Wn & Hnv & Hnd).
    destruct (Hproj kn EK) as (T & E & HS).
    destruct (refined_copies kn T E Wn Hnv Hnd HS) as (a' & Pa & Pb & UA & UB & PA & PB & HF).
    rewrite (c_eq_compute a b P Pb kn a' b Pa Pb F L HP PB EK UA UB PA PB).
    rewrite (close_b_of_meq Pa Pb HF). reflexivity.
  Qed.

  Theorem c_eq_insert_l_true :
    (forall kn, kor (ckv b) (ckv a) = Ok kn -> exists T E, spline2spline (ckv a) kn None = Ok (T, E)) ->
    c_eq b a = Ok true.
  Proof using All.
    intro Hproj. destruct (ins_data a b P nodes HW HP Hins) as (M & Hk & HM & Eb).
    destruct (ins_first_last a b P d nodes HW HP W HPl HPd Hins Hd) as [F L].
    pose proof (kinsert_wf _ _ _ Hk) as Wf.
    pose proof (separated_refinement _ _ _ Hk Sep) as S.
    assert (LE : limits_eqb (ckv b) (ckv a) = true).
    { pose proof (E2_limits (ckv a) (ckv b) (ckv b) nodes M W HM Hk Hd Wf (veq_refl _) eq_refl) as LE.
      unfold limits_eqb in *. apply andb_true_iff in LE. destruct LE as [A B].
      apply Qeqb_eq in A. apply Qeqb_eq in B.
      apply andb_true_iff. split; apply Qeqb_eq; symmetry; assumption. }
    destruct (UnionProofs.kor_succeeds (ckv b) (ckv a) Wf W (UnionProofs.separated_swap _ _ S) LE) as (kn & EK).
    destruct (kor_refinement_l (ckv a) nodes (ckv b) kn W Hk Hd S EK) as (Wn & Hnv & Hnd).
    destruct (Hproj kn EK) as (T & E & HS).
    destruct (refined_copies kn T E Wn Hnv Hnd HS) as (a' & Pa & Pb & UA & UB & PA & PB & HF).
    rewrite (c_eq_compute b a Pb P kn b a' Pb Pa (Qeq_sym _ _ F) (Qeq_sym _ _ L) PB HP EK UB UA PB PA).
    rewrite (close_b_of_meq Pb Pa (meq_sym _ _ HF)). reflexivity.
  Qed.
End EqInsertSucceeds.

Print Assumptions spline2spline_onto_refinement.
Print Assumptions c_eq_insert_r_true.
Print Assumptions c_eq_insert_l_true.
Print Assumptions E1_matrix.
Print Assumptions E1_error_bilinear.
Print Assumptions c_update_refine.
Print Assumptions c_update_refine_succeeds.
Print Assumptions c_update_to_refinement.
Print Assumptions c_update_to_refinement_error_zero.
Print Assumptions c_update_to_refinement_succeeds.
Print Assumptions kor_refinement_r.
Print Assumptions kor_refinement_l.
Print Assumptions c_eq_refl.
Print Assumptions c_eq_insert_explicit_r.
Print Assumptions c_eq_insert_explicit_l.
Print Assumptions c_eq_insert_r.
Print Assumptions c_eq_insert_l.
Print Assumptions eqx_eq_both_orders.
Print Assumptions eqx_by_theorem.
