(* The quadrature inner product of the model IS the exact integral.
   I1  polynomials over Q as coefficient lists; exact integral through the antiderivative.
   I2  an interpolatory rule on n nodes integrates every polynomial of length <= n exactly
       on every interval [a,b] (affine substitution via the chain rule).
   I3  the span-local Cox-de Boor recursion Nloc is a polynomial of length <= j+1 (NlocP).
   I4  the quadrature sum of a product of two basis functions on a span is the exact
       integral of the product polynomial. *)
From Coq Require Import QArith ZArith List Bool Arith Lia Lqa Setoid Morphisms.
From NurbsV Require Import Base.Res Base.QList Gen.Consts Spec.BSpline Spec.KnotSpec
  Model.KV Model.Basis Model.Ops Model.Linalg Model.Quadrature Model.LeastSq
  Proofs.MatProofs Proofs.QuadProofs Proofs.KVProofs Proofs.AdvancedProofs Proofs.BasisTheory
  Proofs.EvalProofs Proofs.LSProofs Proofs.Local.
Import ListNotations.
Open Scope Q_scope.

(* ------------------------------------------------------------------ *)
(* I1. Polynomials                                                      *)
(* ------------------------------------------------------------------ *)
Definition poly := list Q.

Fixpoint peval (f : poly) (u : Q) : Q :=
  match f with [] => 0 | c :: g => c + u * peval g u end.

Fixpoint padd (f g : poly) : poly :=
  match f, g with
  | [], _ => g
  | _, [] => f
  | a :: f', b :: g' => (a + b) :: padd f' g'
  end.

Definition pscale (c : Q) (f : poly) : poly := map (Qmult c) f.

(* X * f (the zero polynomial [] stays []) *)
Definition pmulX (f : poly) : poly := match f with [] => [] | _ => 0 :: f end.

Fixpoint pmul (f g : poly) : poly :=
  match f with
  | [] => []
  | a :: f' => padd (pscale a g) (pmulX (pmul f' g))
  end.

(* moment functional: sum_k f_k * m k.  peval, pint and the quadrature sums are all of this form *)
Fixpoint pmom (m : nat -> Q) (f : poly) : Q :=
  match f with [] => 0 | c :: g => c * m 0%nat + pmom (fun k => m (S k)) g end.

(* exact integral over [a,b] through the antiderivative *)
Definition imom (a b : Q) (k : nat) : Q := (qpow b (k + 1) - qpow a (k + 1)) / natQ (k + 1).
Definition pint (a b : Q) (f : poly) : Q := pmom (imom a b) f.

(* --- pmom --- *)
Lemma pmom_ext_lt f : forall m m', (forall k, (k < length f)%nat -> m k == m' k) -> pmom m f == pmom m' f.
Proof.
  induction f as [|c g IH]; intros m m' H; cbn [pmom]; [reflexivity|].
  rewrite (H 0%nat) by (cbn; lia).
  rewrite (IH (fun k => m (S k)) (fun k => m' (S k))) by (intros k Hk; apply H; cbn; lia).
  reflexivity.
Qed.
Lemma pmom_ext f m m' : (forall k, m k == m' k) -> pmom m f == pmom m' f.
Proof. intro H. apply pmom_ext_lt. intros; apply H. Qed.

Lemma pmom_sumn f : forall m, pmom m f == sumn (length f) (fun k => nth k f 0 * m k).
Proof.
  induction f as [|c g IH]; intro m; [reflexivity|].
  cbn [pmom length]. rewrite sumn_S_l. cbn [nth]. rewrite IH. reflexivity.
Qed.

(* the literal formula of the brief *)
Lemma pint_sumn a b f :
  pint a b f == sumn (length f) (fun k => nth k f 0 * (qpow b (k + 1) - qpow a (k + 1)) / natQ (k + 1)).
Proof.
  unfold pint. rewrite pmom_sumn. apply sumn_ext. intros k _. unfold imom, Qdiv. ring.
Qed.

Lemma pmom_mscale f : forall c m, pmom (fun k => c * m k) f == c * pmom m f.
Proof.
  induction f as [|x g IH]; intros c m; cbn [pmom]; [ring|].
  rewrite (IH c (fun k => m (S k))). ring.
Qed.
Lemma pmom_madd f : forall m m', pmom (fun k => m k + m' k) f == pmom m f + pmom m' f.
Proof.
  induction f as [|x g IH]; intros m m'; cbn [pmom]; [ring|].
  rewrite (IH (fun k => m (S k)) (fun k => m' (S k))). ring.
Qed.
Lemma pmom_msub f : forall m m', pmom (fun k => m k - m' k) f == pmom m f - pmom m' f.
Proof.
  induction f as [|x g IH]; intros m m'; cbn [pmom]; [ring|].
  rewrite (IH (fun k => m (S k)) (fun k => m' (S k))). ring.
Qed.
Lemma pmom_msum n f : forall (c : nat -> Q) (m : nat -> nat -> Q),
  pmom (fun i => sumn n (fun k => c k * m k i)) f == sumn n (fun k => c k * pmom (m k) f).
Proof.
  induction f as [|x g IH]; intros c m; cbn [pmom].
  - symmetry. apply sumn_zero. intros; ring.
  - rewrite (IH c (fun k i => m k (S i))). rewrite <- sumn_scale_l, <- sumn_add.
    apply sumn_ext. intros k _. ring.
Qed.

Lemma pmom_padd f : forall g m, pmom m (padd f g) == pmom m f + pmom m g.
Proof.
  induction f as [|a f IH]; intros [|b g] m; cbn [padd pmom]; try ring.
  rewrite IH. ring.
Qed.
Lemma pmom_pscale c f : forall m, pmom m (pscale c f) == c * pmom m f.
Proof.
  induction f as [|a f IH]; intro m; cbn [pscale map pmom]; [ring|].
  fold (pscale c f). rewrite IH. ring.
Qed.
Lemma pmom_pmulX f m : pmom m (pmulX f) == pmom (fun k => m (S k)) f.
Proof. destruct f as [|a f]; [reflexivity|]. cbn [pmulX pmom]. ring. Qed.
Lemma pmom_cons c f m : pmom m (c :: f) = c * m 0%nat + pmom (fun k => m (S k)) f.
Proof. reflexivity. Qed.
Lemma pmom_Forall2 f g : Forall2 Qeq f g -> forall m, pmom m f == pmom m g.
Proof.
  induction 1 as [|x y f g Hxy _ IH]; intro m; cbn [pmom]; [reflexivity|].
  rewrite Hxy, IH. reflexivity.
Qed.

(* --- peval as a moment functional; ring morphism --- *)
Lemma peval_pmom f u : peval f u == pmom (qpow u) f.
Proof.
  induction f as [|c g IH]; cbn [peval pmom]; [reflexivity|].
  rewrite IH. rewrite (pmom_ext g (fun k => qpow u (S k)) (fun k => u * qpow u k))
    by (intro k; apply qpow_S).
  rewrite pmom_mscale. cbn [qpow]. ring.
Qed.

Global Instance peval_proper f : Proper (Qeq ==> Qeq) (peval f).
Proof.
  intros u v H. induction f as [|c g IH]; cbn [peval]; [reflexivity|]. rewrite IH, H. reflexivity.
Qed.

Theorem peval_padd f g u : peval (padd f g) u == peval f u + peval g u.
Proof. rewrite !peval_pmom. apply pmom_padd. Qed.
Theorem peval_pscale c f u : peval (pscale c f) u == c * peval f u.
Proof. rewrite !peval_pmom. apply pmom_pscale. Qed.
Theorem peval_pmulX f u : peval (pmulX f) u == u * peval f u.
Proof. destruct f as [|a f]; cbn [pmulX peval]; ring. Qed.
Theorem peval_pmul f g u : peval (pmul f g) u == peval f u * peval g u.
Proof.
  induction f as [|a f IH]; cbn [pmul peval]; [ring|].
  rewrite peval_padd, peval_pscale, peval_pmulX, IH. ring.
Qed.

(* --- lengths --- *)
Lemma padd_length f : forall g, length (padd f g) = Nat.max (length f) (length g).
Proof. induction f as [|a f IH]; intros [|b g]; cbn [padd length]; auto. rewrite IH. reflexivity. Qed.
Lemma pscale_length c f : length (pscale c f) = length f.
Proof. apply map_length. Qed.
Lemma pmulX_length f : (length (pmulX f) <= S (length f))%nat.
Proof. destruct f; cbn; lia. Qed.
Lemma pmul_nil_r f : pmul f [] = [].
Proof. induction f as [|a f IH]; cbn [pmul]; [reflexivity|]. rewrite IH. reflexivity. Qed.
Theorem pmul_length f g : (length (pmul f g) <= length f + length g - 1)%nat.
Proof.
  destruct g as [|b g]; [rewrite pmul_nil_r; cbn; lia|].
  induction f as [|a f IH]; cbn [pmul]; [cbn; lia|].
  rewrite padd_length, pscale_length.
  destruct (pmul f (b :: g)) as [|x r] eqn:E; cbn [pmulX length] in *; lia.
Qed.

(* --- pint: linear in f, additive in the interval --- *)
Theorem pint_padd a b f g : pint a b (padd f g) == pint a b f + pint a b g.
Proof. apply pmom_padd. Qed.
Theorem pint_pscale a b c f : pint a b (pscale c f) == c * pint a b f.
Proof. apply pmom_pscale. Qed.
Theorem pint_chasles a b c f : pint a b f + pint b c f == pint a c f.
Proof.
  unfold pint. rewrite <- pmom_madd. apply pmom_ext. intro k. unfold imom, Qdiv. ring.
Qed.
Theorem pint_same a f : pint a a f == 0.
Proof.
  pose proof (pint_chasles a a a f) as H. lra.
Qed.
Theorem pint_swap a b f : pint b a f == - pint a b f.
Proof.
  pose proof (pint_chasles a b a f) as H. rewrite pint_same in H. lra.
Qed.
Lemma pint_Forall2 a b f g : Forall2 Qeq f g -> pint a b f == pint a b g.
Proof. intro H. apply pmom_Forall2. exact H. Qed.

(* ------------------------------------------------------------------ *)
(* I2. Formal derivative, fundamental theorem, affine substitution      *)
(* ------------------------------------------------------------------ *)
(* pderiv_from j [c0;c1;...] = [j c0; (j+1) c1; ...] *)
Fixpoint pderiv_from (j : nat) (f : poly) : poly :=
  match f with [] => [] | c :: g => (natQ j * c) :: pderiv_from (S j) g end.
Definition pderiv (f : poly) : poly := match f with [] => [] | _ :: g => pderiv_from 1 g end.

(* antiderivative with constant term 0 *)
Fixpoint pprim_from (j : nat) (f : poly) : poly :=
  match f with [] => [] | c :: g => (c / natQ j) :: pprim_from (S j) g end.
Definition pprim (f : poly) : poly := 0 :: pprim_from 1 f.

Lemma natQ_nz j : (0 < j)%nat -> ~ natQ j == 0.
Proof. intro H. pose proof (natQ_pos j H). lra. Qed.

Lemma pderiv_pprim_from f : forall j, (0 < j)%nat -> Forall2 Qeq (pderiv_from j (pprim_from j f)) f.
Proof.
  induction f as [|c g IH]; intros j Hj; cbn [pprim_from pderiv_from]; constructor.
  - field. apply natQ_nz. exact Hj.
  - apply IH. lia.
Qed.
Lemma pderiv_pprim f : Forall2 Qeq (pderiv (pprim f)) f.
Proof. unfold pprim, pderiv. apply pderiv_pprim_from. lia. Qed.

(* fundamental theorem *)
Lemma ftc_from a b g : forall j, (0 < j)%nat ->
  pmom (fun k => (qpow b (k + j) - qpow a (k + j)) / natQ (k + j)) (pderiv_from j g)
  == qpow b j * peval g b - qpow a j * peval g a.
Proof.
  induction g as [|c g IH]; intros j Hj; cbn [pderiv_from pmom peval]; [ring|].
  rewrite (pmom_ext _ (fun k => (qpow b (S k + j) - qpow a (S k + j)) / natQ (S k + j))
                      (fun k => (qpow b (k + S j) - qpow a (k + S j)) / natQ (k + S j))).
  2:{ intro k. replace (S k + j)%nat with (k + S j)%nat by lia. reflexivity. }
  rewrite (IH (S j)) by lia. rewrite !qpow_S. cbn [Nat.add].
  field. apply natQ_nz. exact Hj.
Qed.
Theorem pint_pderiv a b F : pint a b (pderiv F) == peval F b - peval F a.
Proof.
  destruct F as [|c g]; [cbn; ring|]. unfold pderiv, pint.
  rewrite (pmom_ext _ (imom a b) (fun k => (qpow b (k + 1) - qpow a (k + 1)) / natQ (k + 1)))
    by (intro; reflexivity).
  rewrite (ftc_from a b g 1) by lia. cbn [peval]. rewrite !qpow_S. cbn [qpow]. ring.
Qed.
Theorem pint_pprim a b f : pint a b f == peval (pprim f) b - peval (pprim f) a.
Proof. rewrite <- pint_pderiv. symmetry. apply pint_Forall2. apply pderiv_pprim. Qed.

(* derivative under a moment functional: linearity and the product rule for X * g *)
Lemma pmom_pderiv_from_padd f : forall g j m,
  pmom m (pderiv_from j (padd f g)) == pmom m (pderiv_from j f) + pmom m (pderiv_from j g).
Proof.
  induction f as [|x f IH]; intros [|y g] j m; cbn [padd pderiv_from pmom]; try ring.
  rewrite IH. ring.
Qed.
Lemma pmom_pderiv_from_pscale c f : forall j m,
  pmom m (pderiv_from j (pscale c f)) == c * pmom m (pderiv_from j f).
Proof.
  induction f as [|x f IH]; intros j m; cbn [pscale map pderiv_from pmom]; [ring|].
  fold (pscale c f). rewrite IH. ring.
Qed.
(* pderiv_from j g = j * g + pderiv_from 0 g  (pderiv_from 0 is X d/dX) *)
Lemma pmom_pderiv_from_split g : forall j m,
  pmom m (pderiv_from j g) == natQ j * pmom m g + pmom m (pderiv_from 0 g).
Proof.
  induction g as [|c g IH]; intros j m; cbn [pderiv_from pmom]; [ring|].
  rewrite (IH (S j)), (IH 1%nat). rewrite natQ_S, natQ_0, natQ_1. ring.
Qed.
Lemma pmom_euler g m : pmom m (pderiv_from 0 g) == pmom (fun k => m (S k)) (pderiv g).
Proof. destruct g as [|c g]; cbn [pderiv_from pderiv pmom]; [reflexivity|]. rewrite natQ_0. ring. Qed.

Lemma pmom_pderiv_padd f g m : pmom m (pderiv (padd f g)) == pmom m (pderiv f) + pmom m (pderiv g).
Proof.
  destruct f as [|x f], g as [|y g]; cbn [padd pderiv pmom]; try ring. apply pmom_pderiv_from_padd.
Qed.
Lemma pmom_pderiv_pscale c f m : pmom m (pderiv (pscale c f)) == c * pmom m (pderiv f).
Proof.
  destruct f as [|x f]; cbn [pscale map pderiv pmom]; [ring|]. apply pmom_pderiv_from_pscale.
Qed.
(* (c + X g)' = g + X g' *)
Lemma pmom_pderiv_cons c g m :
  pmom m (pderiv (c :: g)) == pmom m g + pmom (fun k => m (S k)) (pderiv g).
Proof.
  cbn [pderiv]. rewrite pmom_pderiv_from_split, pmom_euler, natQ_1. ring.
Qed.

(* affine substitution  f(a + h X)  by Horner: (c + X g)(a + hX) = a * G + (c + X * h * G) *)
Fixpoint paff (f : poly) (a h : Q) : poly :=
  match f with
  | [] => []
  | c :: g => let t := paff g a h in padd (pscale a t) (c :: pscale h t)
  end.

Theorem peval_paff f a h t : peval (paff f a h) t == peval f (a + h * t).
Proof.
  induction f as [|c g IH]; cbn [paff peval]; [reflexivity|].
  rewrite peval_padd, peval_pscale. cbn [peval]. rewrite peval_pscale, IH. ring.
Qed.
Theorem paff_length f a h : length (paff f a h) = length f.
Proof.
  induction f as [|c g IH]; cbn [paff length]; [reflexivity|].
  rewrite padd_length, pscale_length. cbn [length]. rewrite pscale_length, IH. lia.
Qed.

Lemma pmom_paff_cons c g a h m :
  pmom m (paff (c :: g) a h)
  == a * pmom m (paff g a h) + c * m 0%nat + h * pmom (fun k => m (S k)) (paff g a h).
Proof. cbn [paff]. rewrite pmom_padd, pmom_pscale. cbn [pmom]. rewrite pmom_pscale. ring. Qed.

Lemma pmom_paff_padd a h f : forall g m,
  pmom m (paff (padd f g) a h) == pmom m (paff f a h) + pmom m (paff g a h).
Proof.
  induction f as [|x f IH]; intros [|y g] m; cbn [padd]; try (cbn [paff pmom]; ring).
  rewrite !pmom_paff_cons, !IH. ring.
Qed.
Lemma pmom_paff_Forall2 a h f g : Forall2 Qeq f g -> forall m, pmom m (paff f a h) == pmom m (paff g a h).
Proof.
  induction 1 as [|x y f g Hxy _ IH]; intro m; [reflexivity|].
  rewrite !pmom_paff_cons, Hxy, !IH. reflexivity.
Qed.

Lemma pderiv_from_S g : forall j, Forall2 Qeq (pderiv_from (S j) g) (padd g (pderiv_from j g)).
Proof.
  induction g as [|c g IH]; intro j; cbn [pderiv_from padd]; constructor.
  - rewrite natQ_S. ring.
  - apply IH.
Qed.

(* chain rule, under every moment functional (i.e. coefficientwise) *)
Theorem chain_rule a h F : forall m,
  pmom m (pderiv (paff F a h)) == h * pmom m (paff (pderiv F) a h).
Proof.
  induction F as [|c G IH]; intro m; [cbn; ring|].
  (* left *)
  cbn [paff]. rewrite pmom_pderiv_padd, pmom_pderiv_pscale, pmom_pderiv_cons, pmom_pscale,
    pmom_pderiv_pscale, !IH.
  (* right: pderiv (c :: G) = G + X G' *)
  assert (E : pmom m (paff (pderiv (c :: G)) a h)
              == pmom m (paff G a h) + pmom m (paff (0 :: pderiv G) a h)).
  { destruct G as [|d G']; [cbn; ring|].
    rewrite <- pmom_paff_padd. apply pmom_paff_Forall2.
    cbn [pderiv padd pderiv_from].
    constructor; [rewrite natQ_1; ring|]. apply pderiv_from_S. }
  rewrite E, pmom_paff_cons. ring.
Qed.

(* substitution rule *)
Theorem pint_subst a h f : h * pint 0 1 (paff f a h) == pint a (a + h) f.
Proof.
  rewrite (pint_pprim a (a + h) f).
  set (F := pprim f).
  transitivity (peval (paff F a h) 1 - peval (paff F a h) 0).
  2:{ rewrite !peval_paff.
      setoid_replace (a + h * 1) with (a + h) by ring. setoid_replace (a + h * 0) with a by ring.
      reflexivity. }
  rewrite <- pint_pderiv. unfold pint. rewrite chain_rule.
  unfold F. rewrite (pmom_paff_Forall2 a h _ _ (pderiv_pprim f) (imom 0 1)). reflexivity.
Qed.

(* a rule exact on the monomials of degree < n integrates every polynomial of length <= n on [0,1] *)
Definition exact_monomials (n : nat) (x w : list Q) : Prop :=
  forall m, (m <= n - 1)%nat -> sumn n (fun k => nth k w 0 * qpow (nth k x 0) m) == 1 / natQ (m + 1).

Lemma imom_01 k : imom 0 1 k == 1 / natQ (k + 1).
Proof.
  unfold imom. rewrite qpow_1_l. replace (k + 1)%nat with (S k) by lia. rewrite qpow_0_l.
  unfold Qdiv. ring.
Qed.

Theorem quad_unit_exact n x w f : exact_monomials n x w -> (length f <= n)%nat ->
  sumn n (fun k => nth k w 0 * peval f (nth k x 0)) == pint 0 1 f.
Proof.
  intros H Hf.
  rewrite (sumn_ext n _ (fun k => nth k w 0 * pmom (qpow (nth k x 0)) f))
    by (intros k _; rewrite peval_pmom; reflexivity).
  rewrite <- (pmom_msum n f (fun k => nth k w 0) (fun k => qpow (nth k x 0))).
  unfold pint. apply pmom_ext_lt. intros k Hk. rewrite imom_01. apply H. lia.
Qed.

(* I2 *)
Theorem quad_exact n x w f a b : exact_monomials n x w -> (length f <= n)%nat ->
  (b - a) * sumn n (fun k => nth k w 0 * peval f (a + (b - a) * nth k x 0)) == pint a b f.
Proof.
  intros H Hf.
  rewrite (sumn_ext n _ (fun k => nth k w 0 * peval (paff f a (b - a)) (nth k x 0)))
    by (intros k _; rewrite peval_paff; reflexivity).
  rewrite (quad_unit_exact n x w _ H) by (rewrite paff_length; exact Hf).
  rewrite pint_subst. unfold pint. apply pmom_ext. intro k. unfold imom.
  setoid_replace (a + (b - a)) with b by ring. reflexivity.
Qed.

Lemma exact_rule_monomials n x w : exact_rule n x w -> exact_monomials n x w.
Proof. intros (_ & _ & _ & _ & H). exact H. Qed.

(* ------------------------------------------------------------------ *)
(* I3. The span-local Cox-de Boor functions are polynomials             *)
(* ------------------------------------------------------------------ *)
Fixpoint NlocP (U : nat -> Q) (s : nat) (j i : nat) : poly :=
  match j with
  | O => if Nat.eqb i s then [1] else []
  | S j' =>
      padd (pscale (/ (U (i + j)%nat - U i)) (pmul [- U i; 1] (NlocP U s j' i)))
           (pscale (/ (U (i + j + 1)%nat - U (i + 1)%nat)) (pmul [U (i + j + 1)%nat; - (1)] (NlocP U s j' (S i))))
  end.

(* no hypothesis on U, s, u: division by zero is 0 on both sides *)
Theorem NlocP_eval U s : forall j i u, peval (NlocP U s j i) u == Nloc U s j i u.
Proof.
  induction j as [|j IH]; intros i u.
  - cbn [NlocP Nloc]. destruct (Nat.eqb i s); cbn [peval]; ring.
  - cbn [NlocP Nloc]. rewrite peval_padd, !peval_pscale, !peval_pmul, !IH.
    cbn [peval]. unfold Qdiv. ring.
Qed.

Theorem NlocP_length U s : forall j i, (length (NlocP U s j i) <= j + 1)%nat.
Proof.
  induction j as [|j IH]; intro i.
  - cbn [NlocP]. destruct (Nat.eqb i s); cbn; lia.
  - cbn [NlocP]. rewrite padd_length, !pscale_length.
    pose proof (pmul_length [- U i; 1] (NlocP U s j i)) as A.
    pose proof (pmul_length [U (i + S j + 1)%nat; - (1)] (NlocP U s j (S i))) as B.
    pose proof (IH i). pose proof (IH (S i)). cbn [length] in A, B. lia.
Qed.

(* ------------------------------------------------------------------ *)
(* I4. The quadrature sum of a product of basis functions on a span is  *)
(*     the exact integral of the product                                *)
(* ------------------------------------------------------------------ *)
(* the inner product of two polynomials on [a,b] *)
Definition pinner (a b : Q) (f g : poly) : Q := pint a b (pmul f g).

Theorem quad_product_exact n x w f g a b : exact_monomials n x w ->
  (length f + length g - 1 <= n)%nat ->
  (b - a) * sumn n (fun k => nth k w 0 * peval f (a + (b - a) * nth k x 0) * peval g (a + (b - a) * nth k x 0))
  == pinner a b f g.
Proof.
  intros H Hn. unfold pinner.
  rewrite <- (quad_exact n x w (pmul f g) a b H) by (pose proof (pmul_length f g); lia).
  apply Qmult_comp; [reflexivity|]. apply sumn_ext. intros k _. rewrite peval_pmul. ring.
Qed.

(* any rule exact on the monomials of degree <= n - 1 >= p + q; any a b (in the model: a = U s, b = U (S s)) *)
Theorem gram_span_exact U V s s' p q i j n x w a b : exact_monomials n x w -> (p + q + 1 <= n)%nat ->
  (b - a) * sumn n (fun k => nth k w 0 * Nloc U s p i (a + (b - a) * nth k x 0)
                                       * Nloc V s' q j (a + (b - a) * nth k x 0))
  == pint a b (pmul (NlocP U s p i) (NlocP V s' q j)).
Proof.
  intros H Hn.
  rewrite <- (quad_product_exact n x w (NlocP U s p i) (NlocP V s' q j) a b H).
  - apply Qmult_comp; [reflexivity|]. apply sumn_ext. intros k _. rewrite !NlocP_eval. reflexivity.
  - pose proof (NlocP_length U s p i). pose proof (NlocP_length V s' q j). lia.
Qed.

(* with the rules the model computes *)
Corollary gram_span_exact_open U V s s' p q i j n x w a b :
  compute_open n = Ok w -> open_linspace n = Ok x -> (p + q + 1 <= n)%nat ->
  (b - a) * sumn n (fun k => nth k w 0 * Nloc U s p i (a + (b - a) * nth k x 0)
                                       * Nloc V s' q j (a + (b - a) * nth k x 0))
  == pint a b (pmul (NlocP U s p i) (NlocP V s' q j)).
Proof.
  intros Hw Hx Hn. destruct (compute_open_exact n w Hw) as (x' & Hx' & E).
  rewrite Hx in Hx'. inversion Hx'; subst x'.
  apply gram_span_exact; [apply exact_rule_monomials; exact E|exact Hn].
Qed.
Corollary gram_span_exact_closed U V s s' p q i j n x w a b :
  compute_closed n = Ok w -> closed_linspace n = Ok x -> (p + q + 1 <= n)%nat ->
  (b - a) * sumn n (fun k => nth k w 0 * Nloc U s p i (a + (b - a) * nth k x 0)
                                       * Nloc V s' q j (a + (b - a) * nth k x 0))
  == pint a b (pmul (NlocP U s p i) (NlocP V s' q j)).
Proof.
  intros Hw Hx Hn. destruct (compute_closed_exact n w Hw) as (x' & Hx' & E).
  rewrite Hx in Hx'. inversion Hx'; subst x'.
  apply gram_span_exact; [apply exact_rule_monomials; exact E|exact Hn].
Qed.

(* ------------------------------------------------------------------ *)
(* I4b. Connection to the list-level grams_of of Model/LeastSq.v        *)
(* ------------------------------------------------------------------ *)
Lemma rule_open : ls_rule_closed = false. Proof. reflexivity. Qed.

Definition entry (M : mat) (i j : nat) : Q := nth j (nth i M []) 0.

Lemma entry_outer_acc w a b r c acc i j :
  length a = r -> length b = c -> shaped r c acc -> (i < r)%nat -> (j < c)%nat ->
  entry (outer_acc w a b acc) i j == entry acc i j + w * nth i a 0 * nth j b 0.
Proof.
  intros Ha Hb HS Hi Hj. pose proof (shaped_len _ _ _ HS) as LS. unfold entry, outer_acc.
  rewrite (nth_map2_lt (fun ai row => map2 (fun bj x => Qred (x + w * ai * bj)) b row) a acc 0 [] []) by lia.
  rewrite (nth_map2_lt (fun bj x => Qred (x + w * nth i a 0 * bj)) b (nth i acc []) 0 0 0).
  - apply Qred_correct.
  - lia.
  - rewrite (shaped_row r c acc i HS) by lia. lia.
Qed.

Lemma entry_zeros r c i j : entry (zeros r c) i j == 0.
Proof.
  unfold entry, zeros. destruct (Nat.lt_ge_cases i r) as [L|L].
  - rewrite (nth_indep _ [] (repeat 0 c)) by (rewrite repeat_length; exact L).
    rewrite nth_repeat. rewrite nth_repeat. reflexivity.
  - rewrite (nth_overflow (repeat (repeat 0 c) r)) by (rewrite repeat_length; exact L).
    destruct j; reflexivity.
Qed.

(* one quadrature node of one span: the step of the inner fold of gram_span (weights scaled by the span length) *)
Definition gstepw (h : Q) (acc : grams) (wfg : Q * list Q * list Q) : grams :=
  let '(wk, f, gk) := wfg in gstep (Qred (wk * h)) f gk acc.

Lemma gram_span_fold kold knew w x01 g0 s e :
  gram_span kold knew w x01 (Ok g0) (s, e) =
  (do Fv <- mapM (basis_row kold (kdeg kold)) (map (fun x => Qred (s + (e - s) * x)) x01);
   do Gv <- mapM (basis_row knew (kdeg knew)) (map (fun x => Qred (s + (e - s) * x)) x01);
   Ok (fold_left (gstepw (e - s)) (combine (combine w Fv) Gv) g0)).
Proof. reflexivity. Qed.

Lemma gfold_entries no nn h : forall (L : list (Q * list Q * list Q)) g0,
  gshaped no nn g0 ->
  Forall (fun x => length (snd (fst x)) = no /\ length (snd x) = nn) L ->
  gshaped no nn (fold_left (gstepw h) L g0) /\
  (forall i j, (i < no)%nat -> (j < no)%nat ->
     entry (gFF (fold_left (gstepw h) L g0)) i j
     == entry (gFF g0) i j
        + h * qsum (map (fun x => fst (fst x) * nth i (snd (fst x)) 0 * nth j (snd (fst x)) 0) L)) /\
  (forall i j, (i < nn)%nat -> (j < no)%nat ->
     entry (gGF (fold_left (gstepw h) L g0)) i j
     == entry (gGF g0) i j
        + h * qsum (map (fun x => fst (fst x) * nth i (snd x) 0 * nth j (snd (fst x)) 0) L)) /\
  (forall i j, (i < nn)%nat -> (j < nn)%nat ->
     entry (gGG (fold_left (gstepw h) L g0)) i j
     == entry (gGG g0) i j
        + h * qsum (map (fun x => fst (fst x) * nth i (snd x) 0 * nth j (snd x) 0) L)).
Proof.
  induction L as [|x L IH]; intros g0 S HF; cbn [fold_left map qsum].
  - split; [exact S|]. split; [|split]; intros; ring.
  - destruct x as [[wk f] gk]. inversion HF as [|? ? HX HF']; subst. destruct HX as [Lf Lg]. cbn [fst snd] in Lf, Lg.
    destruct S as (S1 & S2 & S3).
    assert (S' : gshaped no nn (gstepw h g0 (wk, f, gk))).
    { (split; [|split]); cbn; apply shaped_outer_acc; assumption. }
    destruct (IH _ S' HF') as (T & A1 & A2 & A3).
    split; [exact T|]. split; [|split]; intros i j Hi Hj.
    + rewrite A1 by assumption. cbn [gstepw gstep gFF fst snd].
      rewrite (entry_outer_acc _ f f no no) by assumption. rewrite Qred_correct. ring.
    + rewrite A2 by assumption. cbn [gstepw gstep gGF fst snd].
      rewrite (entry_outer_acc _ gk f nn no) by assumption. rewrite Qred_correct. ring.
    + rewrite A3 by assumption. cbn [gstepw gstep gGG fst snd].
      rewrite (entry_outer_acc _ gk gk nn nn) by assumption. rewrite Qred_correct. ring.
Qed.

Lemma qsum_map_nth {A} (phi : A -> Q) (d : A) : forall l,
  qsum (map phi l) == sumn (length l) (fun k => phi (nth k l d)).
Proof.
  induction l as [|a l IH]; [reflexivity|]. cbn [map qsum length]. rewrite sumn_S_l. cbn [nth].
  rewrite IH. reflexivity.
Qed.

Lemma F2_nth' {A B} (R : A -> B -> Prop) da db a b :
  Forall2 R a b -> forall i, (i < length a)%nat -> R (nth i a da) (nth i b db).
Proof.
  induction 1; cbn; intros i Hi; [lia|]. destruct i; [assumption|]. apply IHForall2. lia.
Qed.

(* a successful basis_row is the specification *)
Lemma basis_row_ok_spec k u r : WF (kvec k) (kdeg k) -> basis_row k (kdeg k) u = Ok r ->
  length r = knpts k /\
  forall i, (i < knpts k)%nat -> nth i r 0 == Nspec (kvec k) (kdeg k) (kdeg k) i u.
Proof.
  intros W H. destruct (kvalid1 k u) eqn:V.
  - destruct (basis_row_spec k (kdeg k) u W (le_n _) V) as (r' & E & L & HN).
    rewrite H in E. inversion E; subst r'. split; assumption.
  - unfold basis_row in H. rewrite (kspan_outside k u V) in H. discriminate.
Qed.

(* one cell [s,e] of the merged knots: what gram_span adds to every entry *)
Lemma gram_span_entries kold knew w x01 n g0 g1 s e :
  WF (kvec kold) (kdeg kold) -> WF (kvec knew) (kdeg knew) ->
  length w = n -> length x01 = n ->
  gshaped (knpts kold) (knpts knew) g0 ->
  gram_span kold knew w x01 (Ok g0) (s, e) = Ok g1 ->
  let NF i u := Nspec (kvec kold) (kdeg kold) (kdeg kold) i u in
  let NG i u := Nspec (kvec knew) (kdeg knew) (kdeg knew) i u in
  let uk k := s + (e - s) * nth k x01 0 in
  gshaped (knpts kold) (knpts knew) g1 /\
  (forall i j, (i < knpts kold)%nat -> (j < knpts kold)%nat ->
     entry (gFF g1) i j == entry (gFF g0) i j
       + (e - s) * sumn n (fun k => nth k w 0 * NF i (uk k) * NF j (uk k))) /\
  (forall i j, (i < knpts knew)%nat -> (j < knpts kold)%nat ->
     entry (gGF g1) i j == entry (gGF g0) i j
       + (e - s) * sumn n (fun k => nth k w 0 * NG i (uk k) * NF j (uk k))) /\
  (forall i j, (i < knpts knew)%nat -> (j < knpts knew)%nat ->
     entry (gGG g1) i j == entry (gGG g0) i j
       + (e - s) * sumn n (fun k => nth k w 0 * NG i (uk k) * NG j (uk k))).
Proof.
  intros Wo Wn Lw Lx S0 H NF NG uk. rewrite gram_span_fold in H.
  set (nodes := map (fun x => Qred (s + (e - s) * x)) x01) in *.
  destruct (mapM (basis_row kold (kdeg kold)) nodes) as [Fv|] eqn:EF; cbn [bind] in H; [|discriminate].
  destruct (mapM (basis_row knew (kdeg knew)) nodes) as [Gv|] eqn:EG; cbn [bind] in H; [|discriminate].
  inversion H; subst g1; clear H.
  pose proof (mapM_Forall2 _ _ _ EF) as FF2. pose proof (mapM_Forall2 _ _ _ EG) as GF2.
  assert (Ln : length nodes = n) by (unfold nodes; rewrite map_length; exact Lx).
  assert (LF : length Fv = n) by (rewrite (mapM_length _ _ _ EF); exact Ln).
  assert (LG : length Gv = n) by (rewrite (mapM_length _ _ _ EG); exact Ln).
  assert (HFv : forall k, (k < n)%nat -> length (nth k Fv []) = knpts kold /\
            forall i, (i < knpts kold)%nat -> nth i (nth k Fv []) 0 == NF i (uk k)).
  { intros k Hk. pose proof (F2_nth' _ 0 [] _ _ FF2 k ltac:(lia)) as B. cbv beta in B.
    destruct (basis_row_ok_spec _ _ _ Wo B) as [L HN]. split; [exact L|].
    intros i Hi. rewrite (HN i Hi). unfold NF. apply Nspec_proper.
    unfold nodes. rewrite (nth_map_lt (fun x => Qred (s + (e - s) * x)) x01 0 0) by lia.
    apply Qred_correct. }
  assert (HGv : forall k, (k < n)%nat -> length (nth k Gv []) = knpts knew /\
            forall i, (i < knpts knew)%nat -> nth i (nth k Gv []) 0 == NG i (uk k)).
  { intros k Hk. pose proof (F2_nth' _ 0 [] _ _ GF2 k ltac:(lia)) as B. cbv beta in B.
    destruct (basis_row_ok_spec _ _ _ Wn B) as [L HN]. split; [exact L|].
    intros i Hi. rewrite (HN i Hi). unfold NG. apply Nspec_proper.
    unfold nodes. rewrite (nth_map_lt (fun x => Qred (s + (e - s) * x)) x01 0 0) by lia.
    apply Qred_correct. }
  set (L := combine (combine w Fv) Gv).
  assert (LL : length L = n) by (unfold L; rewrite !combine_length; lia).
  assert (HL : forall k, (k < n)%nat -> nth k L (0, [], []) = (nth k w 0, nth k Fv [], nth k Gv [])).
  { intros k Hk. unfold L. rewrite combine_nth by (rewrite combine_length; lia).
    rewrite combine_nth by lia. reflexivity. }
  assert (HFa : Forall (fun x => length (snd (fst x)) = knpts kold /\ length (snd x) = knpts knew) L).
  { apply Forall_forall. intros x Hx. destruct (In_nth L x (0, [], []) Hx) as (k & Hk & Ek).
    rewrite LL in Hk. rewrite (HL k Hk) in Ek. subst x. cbn [fst snd].
    split; [apply (HFv k Hk)|apply (HGv k Hk)]. }
  destruct (gfold_entries (knpts kold) (knpts knew) (e - s) L g0 S0 HFa) as (T & A1 & A2 & A3).
  split; [exact T|]. split; [|split]; intros i j Hi Hj.
  - rewrite (A1 i j Hi Hj). apply Qplus_comp; [reflexivity|]. apply Qmult_comp; [reflexivity|].
    rewrite (qsum_map_nth _ (0, [], []) L), LL. apply sumn_ext. intros k Hk. rewrite (HL k Hk). cbn [fst snd].
    rewrite (proj2 (HFv k Hk) i Hi), (proj2 (HFv k Hk) j Hj). reflexivity.
  - rewrite (A2 i j Hi Hj). apply Qplus_comp; [reflexivity|]. apply Qmult_comp; [reflexivity|].
    rewrite (qsum_map_nth _ (0, [], []) L), LL. apply sumn_ext. intros k Hk. rewrite (HL k Hk). cbn [fst snd].
    rewrite (proj2 (HGv k Hk) i Hi), (proj2 (HFv k Hk) j Hj). reflexivity.
  - rewrite (A3 i j Hi Hj). apply Qplus_comp; [reflexivity|]. apply Qmult_comp; [reflexivity|].
    rewrite (qsum_map_nth _ (0, [], []) L), LL. apply sumn_ext. intros k Hk. rewrite (HL k Hk). cbn [fst snd].
    rewrite (proj2 (HGv k Hk) i Hi), (proj2 (HGv k Hk) j Hj). reflexivity.
Qed.

(* the cells of the merged partition are non-degenerate *)
Lemma pairs_dedupq_lt : forall l, sorted_b l = true ->
  forall s e, In (s, e) (pairs (dedupq l)) -> s < e.
Proof.
  induction l as [|a l IH]; [intros _ s e []|]. destruct l as [|b t]; [intros _ s e []|].
  rewrite sorted_b_cons2, dedupq_cons2. intro H. apply andb_true_iff in H. destruct H as [H1 H2].
  apply Qleb_le in H1. specialize (IH H2).
  destruct (Qeqb_spec a b) as [E|E]; [exact IH|].
  destruct (dedupq_head t b) as (b' & r & Eq & Eb). rewrite Eq in *.
  intros s e Hin. change (pairs (a :: b' :: r)) with ((a, b') :: pairs (b' :: r)) in Hin.
  destruct Hin as [Hin|Hin].
  - injection Hin as <- <-. rewrite Eb. destruct (Qlt_le_dec a b) as [L|L]; [exact L|].
    exfalso. apply E. lra.
  - apply IH. exact Hin.
Qed.

Lemma fold_left_res_sum {A X} (f : res A -> X -> res A) (P : A -> Prop) (val : A -> Q) (contrib : X -> Q) l :
  (forall e x, f (Err e) x = Err e) ->
  (forall a x b, In x l -> P a -> f (Ok a) x = Ok b -> P b /\ val b == val a + contrib x) ->
  forall a b, P a -> fold_left f l (Ok a) = Ok b -> P b /\ val b == val a + qsum (map contrib l).
Proof.
  intros He. induction l as [|x l IH]; cbn [fold_left map qsum]; intros Hs a b Pa H.
  - inversion H; subst. split; [exact Pa|ring].
  - destruct (f (Ok a) x) as [a'|e] eqn:E.
    + destruct (Hs a x a' (or_introl eq_refl) Pa E) as [Pa' V].
      destruct (IH (fun a x b Hx => Hs a x b (or_intror Hx)) a' b Pa' H) as [Pb Vb].
      split; [exact Pb|]. rewrite Vb, V. ring.
    + rewrite (fold_left_err f l e He) in H. discriminate.
Qed.

(* the quadrature of one cell, for two functions that are polynomials inside the cell
   (the nodes of the open rule are strictly inside) *)
Lemma cell_quad n x w s e (N1 N2 : Q -> Q) f g :
  exact_monomials n x w ->
  (forall k, (k < n)%nat -> 0 < nth k x 0 < 1) -> s < e ->
  (length f + length g - 1 <= n)%nat ->
  (forall u, s < u -> u < e -> N1 u == peval f u) ->
  (forall u, s < u -> u < e -> N2 u == peval g u) ->
  (e - s) * sumn n (fun k => nth k w 0 * N1 (s + (e - s) * nth k x 0) * N2 (s + (e - s) * nth k x 0))
  == pinner s e f g.
Proof.
  intros H Hx Hse Hn H1 H2. rewrite <- (quad_product_exact n x w f g s e H Hn).
  apply Qmult_comp; [reflexivity|]. apply sumn_ext. intros k Hk.
  destruct (Hx k Hk) as [X0 X1]. set (t := nth k x 0) in *.
  assert (A : 0 < (e - s) * t) by (apply Qmult_lt_0_compat; lra).
  assert (B : 0 < (e - s) * (1 - t)) by (apply Qmult_lt_0_compat; lra).
  rewrite H1, H2 by lra. reflexivity.
Qed.

Definition ls_cells (kold knew : kv) : list (Q * Q) :=
  pairs (dedupq (sortq (kknots kold ++ kknots knew))).

(* P se i is a polynomial of length <= p+1 that coincides with the i-th basis function of (U,p)
   strictly inside the cell se *)
Definition piecewise_on (cells : list (Q * Q)) (U : list Q) (p npts : nat) (P : Q * Q -> nat -> poly) : Prop :=
  forall se i, In se cells -> (i < npts)%nat ->
    (length (P se i) <= p + 1)%nat /\
    forall u, fst se < u -> u < snd se -> Nspec U p p i u == peval (P se i) u.

(* THE CONNECTION: every entry of the model's Gram matrices is the sum over the cells of the merged
   partition of the exact integrals of the products, i.e. the L2 inner product of the basis functions.
   GF always; FF needs 2p+1 <= p+q+3 nodes, GG needs 2q+1 <= p+q+3. *)
Theorem grams_of_exact kold knew g PF PG :
  WF (kvec kold) (kdeg kold) -> WF (kvec knew) (kdeg knew) ->
  grams_of kold knew = Ok g ->
  piecewise_on (ls_cells kold knew) (kvec kold) (kdeg kold) (knpts kold) PF ->
  piecewise_on (ls_cells kold knew) (kvec knew) (kdeg knew) (knpts knew) PG ->
  (forall i j, (i < knpts knew)%nat -> (j < knpts kold)%nat ->
     entry (gGF g) i j
     == qsum (map (fun se => pinner (fst se) (snd se) (PG se i) (PF se j)) (ls_cells kold knew))) /\
  ((kdeg kold <= kdeg knew + 2)%nat ->
   forall i j, (i < knpts kold)%nat -> (j < knpts kold)%nat ->
     entry (gFF g) i j
     == qsum (map (fun se => pinner (fst se) (snd se) (PF se i) (PF se j)) (ls_cells kold knew))) /\
  ((kdeg knew <= kdeg kold + 2)%nat ->
   forall i j, (i < knpts knew)%nat -> (j < knpts knew)%nat ->
     entry (gGG g) i j
     == qsum (map (fun se => pinner (fst se) (snd se) (PG se i) (PG se j)) (ls_cells kold knew))).
Proof.
  intros Wo Wn H HPF HPG. unfold grams_of in H. cbv zeta in H. rewrite rule_open in H.
  set (n := (kdeg kold + kdeg knew + ls_quad_extra)%nat) in *.
  rewrite open_newton_cotes_is_compute in H.
  destruct (compute_open n) as [w|] eqn:EW; cbn [bind] in H; [|discriminate].
  destruct (open_linspace n) as [x01|] eqn:EX; cbn [bind] in H; [|discriminate].
  destruct (compute_open_exact n w EW) as (x' & Hx' & ER). rewrite EX in Hx'. inversion Hx'; subst x'. clear Hx'.
  pose proof (exact_rule_monomials n x01 w ER) as EM.
  destruct ER as (Lx & Lw & _).
  destruct (open_linspace_nodes n x01 EX) as (_ & _ & _ & Hin01).
  fold (ls_cells kold knew) in H. set (cells := ls_cells kold knew) in *.
  assert (Hn : (n = kdeg kold + kdeg knew + 3)%nat) by reflexivity.
  (* one cell *)
  assert (Hcell : forall a se b, In se cells -> gshaped (knpts kold) (knpts knew) a ->
            gram_span kold knew w x01 (Ok a) se = Ok b ->
            gshaped (knpts kold) (knpts knew) b /\
            (forall i j, (i < knpts knew)%nat -> (j < knpts kold)%nat ->
               entry (gGF b) i j == entry (gGF a) i j + pinner (fst se) (snd se) (PG se i) (PF se j)) /\
            ((kdeg kold <= kdeg knew + 2)%nat -> forall i j, (i < knpts kold)%nat -> (j < knpts kold)%nat ->
               entry (gFF b) i j == entry (gFF a) i j + pinner (fst se) (snd se) (PF se i) (PF se j)) /\
            ((kdeg knew <= kdeg kold + 2)%nat -> forall i j, (i < knpts knew)%nat -> (j < knpts knew)%nat ->
               entry (gGG b) i j == entry (gGG a) i j + pinner (fst se) (snd se) (PG se i) (PG se j))).
  { intros a [s e] b Hin Sa Hb.
    pose proof (pairs_dedupq_lt _ (sortq_sorted _) s e Hin) as Hse.
    destruct (gram_span_entries kold knew w x01 n a b s e Wo Wn Lw Lx Sa Hb) as (T & A1 & A2 & A3).
    cbv zeta in A1, A2, A3. cbn [fst snd].
    split; [exact T|]. split; [|split].
    - intros i j Hi Hj. rewrite (A2 i j Hi Hj). apply Qplus_comp; [reflexivity|].
      destruct (HPG (s, e) i Hin Hi) as [LG EG]. destruct (HPF (s, e) j Hin Hj) as [LF EF].
      cbn [fst snd] in EG, EF.
      apply (cell_quad n x01 w s e (fun u => Nspec (kvec knew) (kdeg knew) (kdeg knew) i u)
                                   (fun u => Nspec (kvec kold) (kdeg kold) (kdeg kold) j u));
        try assumption. lia.
    - intros Hd i j Hi Hj. rewrite (A1 i j Hi Hj). apply Qplus_comp; [reflexivity|].
      destruct (HPF (s, e) i Hin Hi) as [LG EG]. destruct (HPF (s, e) j Hin Hj) as [LF EF].
      cbn [fst snd] in EG, EF.
      apply (cell_quad n x01 w s e (fun u => Nspec (kvec kold) (kdeg kold) (kdeg kold) i u)
                                   (fun u => Nspec (kvec kold) (kdeg kold) (kdeg kold) j u));
        try assumption. lia.
    - intros Hd i j Hi Hj. rewrite (A3 i j Hi Hj). apply Qplus_comp; [reflexivity|].
      destruct (HPG (s, e) i Hin Hi) as [LG EG]. destruct (HPG (s, e) j Hin Hj) as [LF EF].
      cbn [fst snd] in EG, EF.
      apply (cell_quad n x01 w s e (fun u => Nspec (kvec knew) (kdeg knew) (kdeg knew) i u)
                                   (fun u => Nspec (kvec knew) (kdeg knew) (kdeg knew) j u));
        try assumption. lia. }
  assert (S0 : gshaped (knpts kold) (knpts knew)
                 (mkgr (zeros (knpts kold) (knpts kold)) (zeros (knpts knew) (knpts kold))
                       (zeros (knpts knew) (knpts knew))))
    by ((split; [|split]); apply shaped_zeros).
  split; [|split].
  - intros i j Hi Hj.
    destruct (fold_left_res_sum (gram_span kold knew w x01) (gshaped (knpts kold) (knpts knew))
                (fun g => entry (gGF g) i j)
                (fun se => pinner (fst se) (snd se) (PG se i) (PF se j)) cells
                ltac:(reflexivity)
                (fun a se b Hin Sa Hb => conj (proj1 (Hcell a se b Hin Sa Hb))
                                              (proj1 (proj2 (Hcell a se b Hin Sa Hb)) i j Hi Hj))
                _ g S0 H) as [_ V].
    rewrite V. cbn [gGF]. rewrite entry_zeros. ring.
  - intros Hd i j Hi Hj.
    destruct (fold_left_res_sum (gram_span kold knew w x01) (gshaped (knpts kold) (knpts knew))
                (fun g => entry (gFF g) i j)
                (fun se => pinner (fst se) (snd se) (PF se i) (PF se j)) cells
                ltac:(reflexivity)
                (fun a se b Hin Sa Hb => conj (proj1 (Hcell a se b Hin Sa Hb))
                                              (proj1 (proj2 (proj2 (Hcell a se b Hin Sa Hb))) Hd i j Hi Hj))
                _ g S0 H) as [_ V].
    rewrite V. cbn [gFF]. rewrite entry_zeros. ring.
  - intros Hd i j Hi Hj.
    destruct (fold_left_res_sum (gram_span kold knew w x01) (gshaped (knpts kold) (knpts knew))
                (fun g => entry (gGG g) i j)
                (fun se => pinner (fst se) (snd se) (PG se i) (PG se j)) cells
                ltac:(reflexivity)
                (fun a se b Hin Sa Hb => conj (proj1 (Hcell a se b Hin Sa Hb))
                                              (proj2 (proj2 (proj2 (Hcell a se b Hin Sa Hb))) Hd i j Hi Hj))
                _ g S0 H) as [_ V].
    rewrite V. cbn [gGG]. rewrite entry_zeros. ring.
Qed.

(* ---- instantiating the pieces: a cell inside one knot span of (U,p) ---- *)
Lemma Nspec_on_span U p k j i u : WF U p -> (k < npts_of U p)%nat ->
  nthq U k <= u -> u < nthq U (S k) ->
  Nspec U p j i u == peval (NlocP (nthq U) k j i) u.
Proof.
  intros W Hk H1 H2. rewrite NlocP_eval. unfold Nspec.
  assert (HM : mono (nthq U)) by (intro x; apply (wf_mono U p W)).
  apply N_local; try assumption.
  pose proof (Local.mono_le (nthq U) HM (S k) (npts_of U p) ltac:(lia)). lra.
Qed.

(* the span index of x in a sorted list: (number of knots <= x) - 1 *)
Definition span_at (U : list Q) (x : Q) : nat := (length (filter (fun y => Qleb y x) U) - 1)%nat.

(* decidable regularity of a cell: it lies in the knot span [U k, U (k+1)] with k = span_at U s, k < npts *)
Definition cell_in_span (U : list Q) (p : nat) (se : Q * Q) : bool :=
  let k := span_at U (fst se) in
  (k <? npts_of U p)%nat && Qleb (nthq U k) (fst se) && Qleb (snd se) (nthq U (S k)).

Definition cells_regular (kold knew : kv) : bool :=
  forallb (fun se => cell_in_span (kvec kold) (kdeg kold) se && cell_in_span (kvec knew) (kdeg knew) se)
          (ls_cells kold knew).

Lemma cell_in_span_pieces cells U p :
  WF U p -> (forall se, In se cells -> fst se < snd se -> cell_in_span U p se = true) ->
  (forall se, In se cells -> fst se < snd se) ->
  piecewise_on cells U p (npts_of U p) (fun se i => NlocP (nthq U) (span_at U (fst se)) p i).
Proof.
  intros W HC Hlt se i Hin Hi. split.
  - apply NlocP_length.
  - intros u H1 H2. pose proof (HC se Hin (Hlt se Hin)) as C. unfold cell_in_span in C. cbv zeta in C.
    apply andb_true_iff in C. destruct C as [C C3]. apply andb_true_iff in C. destruct C as [C1 C2].
    apply Nat.ltb_lt in C1. apply Qleb_le in C2. apply Qleb_le in C3.
    apply Nspec_on_span; try assumption; lra.
Qed.

(* the concrete form: the Gram entries are the sums, over the cells, of the exact integrals of the
   products of the span polynomials NlocP *)
Theorem grams_of_exact_spans kold knew g :
  WF (kvec kold) (kdeg kold) -> WF (kvec knew) (kdeg knew) ->
  grams_of kold knew = Ok g -> cells_regular kold knew = true ->
  let PF se j := NlocP (nthq (kvec kold)) (span_at (kvec kold) (fst se)) (kdeg kold) j in
  let PG se i := NlocP (nthq (kvec knew)) (span_at (kvec knew) (fst se)) (kdeg knew) i in
  (forall i j, (i < knpts knew)%nat -> (j < knpts kold)%nat ->
     entry (gGF g) i j
     == qsum (map (fun se => pint (fst se) (snd se) (pmul (PG se i) (PF se j))) (ls_cells kold knew))) /\
  ((kdeg kold <= kdeg knew + 2)%nat ->
   forall i j, (i < knpts kold)%nat -> (j < knpts kold)%nat ->
     entry (gFF g) i j
     == qsum (map (fun se => pint (fst se) (snd se) (pmul (PF se i) (PF se j))) (ls_cells kold knew))) /\
  ((kdeg knew <= kdeg kold + 2)%nat ->
   forall i j, (i < knpts knew)%nat -> (j < knpts knew)%nat ->
     entry (gGG g) i j
     == qsum (map (fun se => pint (fst se) (snd se) (pmul (PG se i) (PG se j))) (ls_cells kold knew))).
Proof.
  intros Wo Wn H HR PF PG.
  unfold cells_regular in HR. rewrite forallb_forall in HR.
  assert (Hlt : forall se, In se (ls_cells kold knew) -> fst se < snd se).
  { intros [s e] Hin. apply (pairs_dedupq_lt _ (sortq_sorted _) s e Hin). }
  apply (grams_of_exact kold knew g PF PG Wo Wn H).
  - apply (cell_in_span_pieces (ls_cells kold knew) (kvec kold) (kdeg kold) Wo); [|exact Hlt].
    intros se Hin _. specialize (HR se Hin). apply andb_true_iff in HR. apply HR.
  - apply (cell_in_span_pieces (ls_cells kold knew) (kvec knew) (kdeg knew) Wn); [|exact Hlt].
    intros se Hin _. specialize (HR se Hin). apply andb_true_iff in HR. apply HR.
Qed.

(* ---- a semantic sufficient condition for regularity: the cell is inside the range and
        contains no knot in its interior ---- *)
Lemma sorted_head_le : forall t a, sorted_b (a :: t) = true -> Forall (fun y => a <= y) t.
Proof.
  induction t as [|b t IH]; intros a H; [constructor|].
  rewrite sorted_b_cons2 in H. apply andb_true_iff in H. destruct H as [H1 H2]. apply Qleb_le in H1.
  constructor; [exact H1|]. specialize (IH b H2).
  eapply Forall_impl; [|exact IH]. cbv beta. intros y Hy. lra.
Qed.

Lemma filter_le_none x : forall t, Forall (fun y => x < y) t -> filter (fun y => Qleb y x) t = [].
Proof.
  induction 1 as [|y t Hy _ IH]; [reflexivity|]. cbn [filter].
  destruct (Qleb_spec y x); [lra|exact IH].
Qed.

Lemma filter_le_sorted x : forall l, sorted_b l = true ->
  (forall i, (i < length (filter (fun y => Qleb y x) l))%nat -> nth i l 0 <= x) /\
  (forall i, (length (filter (fun y => Qleb y x) l) <= i)%nat -> (i < length l)%nat -> x < nth i l 0).
Proof.
  induction l as [|a t IH]; intro H.
  - split; intros i Hi; cbn in *; lia.
  - pose proof (sorted_b_tail _ _ H) as Ht. specialize (IH Ht). destruct IH as [I1 I2].
    cbn [filter]. destruct (Qleb_spec a x) as [L|L].
    + cbn [length]. split; intros [|i] Hi; cbn [nth]; try lia; try assumption.
      * apply I1. lia.
      * intro Hl. apply I2; cbn [length] in Hl; lia.
    + assert (E : filter (fun y => Qleb y x) t = []).
      { apply filter_le_none. eapply Forall_impl; [|apply (sorted_head_le t a H)].
        cbv beta. intros y Hy. lra. }
      rewrite E in *. cbn [length] in *. split; intros [|i] Hi; cbn [nth]; try lia.
      * intros _. lra.
      * intro Hl. apply I2; lia.
Qed.

Lemma cell_in_span_ok U p s e : WF U p -> s < e ->
  nthq U p <= s -> e <= nthq U (npts_of U p) ->
  (forall y, In y U -> y <= s \/ e <= y) ->
  cell_in_span U p (s, e) = true.
Proof.
  intros W Hse Hlo Hhi Hno.
  destruct (wf_parts U p W) as (Hs & HL & _).
  destruct (filter_le_sorted s U Hs) as [F1 F2].
  unfold cell_in_span, span_at. cbn [fst snd]. unfold npts_of in *.
  set (c := length (filter (fun y => Qleb y s) U)) in *.
  assert (C1 : (p < c)%nat).
  { destruct (le_lt_dec c p) as [G|G]; [exfalso|exact G].
    pose proof (F2 p G ltac:(lia)) as K. rewrite <- (nthq_in_range U p 0) in K by lia. lra. }
  assert (C2 : (c <= length U - p - 1)%nat).
  { destruct (le_lt_dec c (length U - p - 1)) as [G|G]; [exact G|exfalso].
    pose proof (F1 (length U - p - 1)%nat G) as K.
    rewrite <- (nthq_in_range U (length U - p - 1) 0) in K by lia. lra. }
  apply andb_true_iff. split; [apply andb_true_iff; split|].
  - apply Nat.ltb_lt. lia.
  - apply Qleb_le. rewrite (nthq_in_range U (c - 1) 0) by lia. apply F1. lia.
  - apply Qleb_le. replace (S (c - 1)) with c by lia.
    rewrite (nthq_in_range U c 0) by lia.
    pose proof (F2 c (le_n _) ltac:(lia)) as K.
    assert (Hin : In (nth c U 0) U) by (apply nth_In; lia).
    destruct (Hno (nth c U 0) Hin) as [G|G]; [lra|exact G].
Qed.

(* cells inside the common range without interior knots of either vector *)
Definition cell_clean (U : list Q) (p : nat) (se : Q * Q) : Prop :=
  nthq U p <= fst se /\ snd se <= nthq U (npts_of U p) /\
  forall y, In y U -> y <= fst se \/ snd se <= y.

Theorem grams_of_exact_clean kold knew g :
  WF (kvec kold) (kdeg kold) -> WF (kvec knew) (kdeg knew) ->
  grams_of kold knew = Ok g ->
  (forall se, In se (ls_cells kold knew) ->
     cell_clean (kvec kold) (kdeg kold) se /\ cell_clean (kvec knew) (kdeg knew) se) ->
  let PF se j := NlocP (nthq (kvec kold)) (span_at (kvec kold) (fst se)) (kdeg kold) j in
  let PG se i := NlocP (nthq (kvec knew)) (span_at (kvec knew) (fst se)) (kdeg knew) i in
  (forall i j, (i < knpts knew)%nat -> (j < knpts kold)%nat ->
     entry (gGF g) i j
     == qsum (map (fun se => pint (fst se) (snd se) (pmul (PG se i) (PF se j))) (ls_cells kold knew))) /\
  ((kdeg kold <= kdeg knew + 2)%nat ->
   forall i j, (i < knpts kold)%nat -> (j < knpts kold)%nat ->
     entry (gFF g) i j
     == qsum (map (fun se => pint (fst se) (snd se) (pmul (PF se i) (PF se j))) (ls_cells kold knew))) /\
  ((kdeg knew <= kdeg kold + 2)%nat ->
   forall i j, (i < knpts knew)%nat -> (j < knpts knew)%nat ->
     entry (gGG g) i j
     == qsum (map (fun se => pint (fst se) (snd se) (pmul (PG se i) (PG se j))) (ls_cells kold knew))).
Proof.
  intros Wo Wn H HC. apply (grams_of_exact_spans kold knew g Wo Wn H).
  unfold cells_regular. apply forallb_forall. intros [s e] Hin.
  pose proof (pairs_dedupq_lt _ (sortq_sorted _) s e Hin) as Hse.
  destruct (HC (s, e) Hin) as [(A1 & A2 & A3) (B1 & B2 & B3)]. cbn [fst snd] in *.
  apply andb_true_iff. split; apply cell_in_span_ok; assumption.
Qed.

(* ---- the cells are clean when the model's distinct-knot lists lose no knot (get_unique drops the
        knots that are closer than tol_unique to an earlier one) and both vectors have the same limits ---- *)
Lemma pairs_in : forall l s e, In (s, e) (pairs l) -> In s l /\ In e l.
Proof.
  induction l as [|a l IH]; [intros s e []|]. destruct l as [|b t]; [intros s e []|].
  intros s e Hin. change (pairs (a :: b :: t)) with ((a, b) :: pairs (b :: t)) in Hin.
  destruct Hin as [Hin|Hin].
  - injection Hin as <- <-. split; [left; reflexivity|right; left; reflexivity].
  - destruct (IH s e Hin) as [A B]. split; right; assumption.
Qed.

Lemma sorted_head_le_all a t y : sorted_b (a :: t) = true -> In y (a :: t) -> a <= y.
Proof.
  intros H [<-|Hy]; [lra|]. pose proof (sorted_head_le t a H) as F. rewrite Forall_forall in F.
  apply F. exact Hy.
Qed.

Lemma pairs_dedupq_gap : forall l, sorted_b l = true ->
  forall s e, In (s, e) (pairs (dedupq l)) -> forall y, In y l -> y <= s \/ e <= y.
Proof.
  induction l as [|a l IH]; [intros _ s e []|]. destruct l as [|b t]; [intros _ s e []|].
  intro H. pose proof H as H0. rewrite sorted_b_cons2 in H. apply andb_true_iff in H. destruct H as [H1 H2].
  apply Qleb_le in H1. specialize (IH H2). rewrite dedupq_cons2.
  destruct (Qeqb_spec a b) as [E|E].
  - intros s e Hin y [<-|Hy]; [|apply (IH s e Hin y Hy)].
    destruct (IH s e Hin b (or_introl eq_refl)) as [G|G]; [left|right]; lra.
  - destruct (dedupq_head t b) as (b' & r & Eq & Eb).
    intros s e Hin y Hy. rewrite Eq in Hin.
    change (pairs (a :: b' :: r)) with ((a, b') :: pairs (b' :: r)) in Hin.
    destruct Hin as [Hin|Hin].
    + injection Hin as <- <-. destruct Hy as [<-|Hy]; [left; lra|].
      right. rewrite Eb. apply (sorted_head_le_all b t y H2 Hy).
    + rewrite <- Eq in Hin. destruct Hy as [<-|Hy]; [|apply (IH s e Hin y Hy)].
      left. destruct (pairs_in _ s e Hin) as [Hs _]. apply dedupq_in in Hs.
      pose proof (sorted_head_le_all b t s H2 Hs). lra.
Qed.

Lemma get_unique_aux_in y : forall v acc, In y (get_unique_aux v acc) -> In y v \/ In y acc.
Proof.
  induction v as [|x v IH]; intros acc H; cbn [get_unique_aux] in H; [right; exact H|].
  destruct (existsb _ acc).
  - destruct (IH acc H) as [G|G]; [left; right; exact G|right; exact G].
  - destruct (IH _ H) as [G|G]; [left; right; exact G|].
    apply in_app_or in G. destruct G as [G|[G|[]]]; [right; exact G|left; left; exact G].
Qed.

Lemma firstn_in_nth y : forall n (l : list Q), In y (firstn n l) ->
  exists i, (i < n)%nat /\ (i < length l)%nat /\ nth i l 0 = y.
Proof.
  induction n as [|n IH]; intros [|a l] H; cbn [firstn] in H; try contradiction.
  destruct H as [<-|H].
  - exists 0%nat. cbn. repeat split; lia.
  - destruct (IH l H) as (i & A & B & C). exists (S i). cbn. repeat split; try lia. exact C.
Qed.

Lemma nth_skipn_Q : forall a (v : list Q) i, nth i (skipn a v) 0 = nth (a + i) v 0.
Proof.
  induction a as [|a IH]; intros [|x v] i; cbn [skipn Nat.add nth]; try reflexivity.
  - destruct i; reflexivity.
  - apply IH.
Qed.

Lemma slice_in a b v y : In y (slice a b v) ->
  exists i, (a <= i)%nat /\ (i < b)%nat /\ (i < length v)%nat /\ nth i v 0 = y.
Proof.
  unfold slice. intro H. destruct (firstn_in_nth y _ _ H) as (i & A & B & C).
  rewrite skipn_length in B. rewrite nth_skipn_Q in C.
  exists (a + i)%nat. repeat split; try lia. exact C.
Qed.

Lemma kknots_range k y : WF (kvec k) (kdeg k) -> In y (kknots k) ->
  In y (kvec k) /\ nthq (kvec k) (kdeg k) <= y /\ y <= nthq (kvec k) (knpts k).
Proof.
  intros W H. unfold kknots, get_unique in H. apply (proj1 (sortq_in _ _)) in H.
  destruct (get_unique_aux_in y _ _ H) as [G|[]].
  destruct (slice_in _ _ _ _ G) as (i & A & B & C & D).
  rewrite <- (nthq_in_range (kvec k) i 0 C) in D. subst y.
  split; [unfold nthq; apply nth_In; exact C|].
  split; apply (wf_mono_le _ _ W); lia.
Qed.

(* the model's distinct-knot list represents every knot value *)
Definition knots_exact (k : kv) : Prop :=
  forall y, In y (kvec k) -> exists y', In y' (kknots k) /\ y' == y.

Theorem cells_clean kold knew :
  WF (kvec kold) (kdeg kold) -> WF (kvec knew) (kdeg knew) ->
  knots_exact kold -> knots_exact knew ->
  kumin kold == kumin knew -> kumax kold == kumax knew ->
  forall se, In se (ls_cells kold knew) ->
    cell_clean (kvec kold) (kdeg kold) se /\ cell_clean (kvec knew) (kdeg knew) se.
Proof.
  intros Wo Wn Xo Xn Emin Emax [s e] Hin. unfold ls_cells in Hin.
  unfold kumin, kumax, klimits in Emin, Emax. cbn [fst snd] in Emin, Emax.
  set (L := kknots kold ++ kknots knew) in *.
  pose proof (sortq_sorted L) as HS.
  assert (HR : forall y, In y L ->
            (nthq (kvec kold) (kdeg kold) <= y /\ y <= nthq (kvec kold) (knpts kold)) /\
            (nthq (kvec knew) (kdeg knew) <= y /\ y <= nthq (kvec knew) (knpts knew))).
  { intros y Hy. apply in_app_or in Hy. destruct Hy as [Hy|Hy].
    - destruct (kknots_range _ _ Wo Hy) as (_ & A & B). repeat split; lra.
    - destruct (kknots_range _ _ Wn Hy) as (_ & A & B). repeat split; lra. }
  destruct (pairs_in _ s e Hin) as [Hs He].
  apply dedupq_in in Hs. apply (proj1 (sortq_in _ _)) in Hs. apply dedupq_in in He. apply (proj1 (sortq_in _ _)) in He.
  destruct (HR s Hs) as [[S1 S2] [S3 S4]]. destruct (HR e He) as [[E1 E2] [E3 E4]].
  assert (HG : forall y', In y' L -> y' <= s \/ e <= y').
  { intros y' Hy'. apply (pairs_dedupq_gap _ HS s e Hin). apply (proj2 (sortq_in _ _)). exact Hy'. }
  unfold cell_clean. cbn [fst snd]. fold (knpts kold) (knpts knew).
  change (npts_of (kvec kold) (kdeg kold)) with (knpts kold).
  change (npts_of (kvec knew) (kdeg knew)) with (knpts knew).
  split; (split; [assumption|split; [assumption|]]); intros y Hy.
  - destruct (Xo y Hy) as (y' & Hy' & Ey).
    destruct (HG y' (in_or_app _ _ _ (or_introl Hy'))) as [G|G]; [left|right]; lra.
  - destruct (Xn y Hy) as (y' & Hy' & Ey).
    destruct (HG y' (in_or_app _ _ _ (or_intror Hy'))) as [G|G]; [left|right]; lra.
Qed.

(* THE L2 STATEMENT under semantic hypotheses only *)
Theorem grams_of_L2 kold knew g :
  WF (kvec kold) (kdeg kold) -> WF (kvec knew) (kdeg knew) ->
  knots_exact kold -> knots_exact knew ->
  kumin kold == kumin knew -> kumax kold == kumax knew ->
  grams_of kold knew = Ok g ->
  let PF se j := NlocP (nthq (kvec kold)) (span_at (kvec kold) (fst se)) (kdeg kold) j in
  let PG se i := NlocP (nthq (kvec knew)) (span_at (kvec knew) (fst se)) (kdeg knew) i in
  (forall i j, (i < knpts knew)%nat -> (j < knpts kold)%nat ->
     entry (gGF g) i j
     == qsum (map (fun se => pint (fst se) (snd se) (pmul (PG se i) (PF se j))) (ls_cells kold knew))) /\
  ((kdeg kold <= kdeg knew + 2)%nat ->
   forall i j, (i < knpts kold)%nat -> (j < knpts kold)%nat ->
     entry (gFF g) i j
     == qsum (map (fun se => pint (fst se) (snd se) (pmul (PF se i) (PF se j))) (ls_cells kold knew))) /\
  ((kdeg knew <= kdeg kold + 2)%nat ->
   forall i j, (i < knpts knew)%nat -> (j < knpts knew)%nat ->
     entry (gGG g) i j
     == qsum (map (fun se => pint (fst se) (snd se) (pmul (PG se i) (PG se j))) (ls_cells kold knew))).
Proof.
  intros Wo Wn Xo Xn Emin Emax H.
  apply (grams_of_exact_clean kold knew g Wo Wn H).
  apply cells_clean; assumption.
Qed.

(* the cells tile [first, last]: the sum of the cell integrals of one polynomial is its integral
   over the whole range *)
Lemma pairs_telescope f : forall l a,
  qsum (map (fun se => pint (fst se) (snd se) f) (pairs (a :: l))) == pint a (last (a :: l) 0) f.
Proof.
  induction l as [|b t IH]; intro a.
  - cbn. rewrite pint_same. reflexivity.
  - change (pairs (a :: b :: t)) with ((a, b) :: pairs (b :: t)). cbn [map qsum fst snd].
    rewrite IH. rewrite pint_chasles. reflexivity.
Qed.

(* ------------------------------------------------------------------ *)
(* Examples (the hypotheses are satisfiable; the statements compute)    *)
(* ------------------------------------------------------------------ *)
Example ex_pint_sq : pint 0 1 [0; 0; 1] == 1 # 3.
Proof. vm_compute. reflexivity. Qed.
Example ex_pint_ab : pint (1 # 2) 2 [1; 2; 3] == 105 # 8.
Proof. vm_compute. reflexivity. Qed.
Example ex_pmul : Forall2 Qeq (pmul [1; 1] [1; 1]) [1; 2; 1].
Proof. repeat constructor. Qed.
Example ex_paff : Forall2 Qeq (paff [0; 0; 1] 1 2) [1; 4; 4].      (* (1 + 2X)^2 *)
Proof. repeat constructor. Qed.
Example ex_pderiv : Forall2 Qeq (pderiv [5; 1; 2; 3]) [1; 4; 9].
Proof. repeat constructor. Qed.
Example ex_subst : 2 * pint 0 1 (paff [0; 0; 1] 1 2) == pint 1 3 [0; 0; 1].
Proof. vm_compute. reflexivity. Qed.

(* I4 on U = [0;0;0;1/2;1;1;1], p = q = 2, the open rule on p + q + 3 = 7 nodes, both spans, all i j *)
Definition ex_U : nat -> Q := nthq [0; 0; 0; 1 # 2; 1; 1; 1].
Definition ex_w7 : list Q := unwrap [] (compute_open 7).
Definition ex_x7 : list Q := unwrap [] (open_linspace 7).
Example ex_rule7 : compute_open 7 = Ok ex_w7 /\ open_linspace 7 = Ok ex_x7.
Proof. split; vm_compute; reflexivity. Qed.
Example ex_NlocP : Forall2 Qeq (NlocP ex_U 2 2 1) [0; 4; - (6)].    (* N_{1,2} on [0,1/2): 4u - 6u^2 *)
Proof. vm_compute. repeat constructor. Qed.
Example ex_I4_computed :
  forallb (fun s => forallb (fun i => forallb (fun j =>
    let a := ex_U s in let b := ex_U (S s) in
    Qeq_bool ((b - a) * sumn 7 (fun k => nth k ex_w7 0 * Nloc ex_U s 2 i (a + (b - a) * nth k ex_x7 0)
                                                       * Nloc ex_U s 2 j (a + (b - a) * nth k ex_x7 0)))
             (pint a b (pmul (NlocP ex_U s 2 i) (NlocP ex_U s 2 j))))
    (seq 0 4)) (seq 0 4)) [2; 3]%nat = true.
Proof. vm_compute. reflexivity. Qed.
Example ex_I4_theorem s i j :
  let a := ex_U s in let b := ex_U (S s) in
  (b - a) * sumn 7 (fun k => nth k ex_w7 0 * Nloc ex_U s 2 i (a + (b - a) * nth k ex_x7 0)
                                           * Nloc ex_U s 2 j (a + (b - a) * nth k ex_x7 0))
  == pint a b (pmul (NlocP ex_U s 2 i) (NlocP ex_U s 2 j)).
Proof.
  cbv zeta. apply gram_span_exact_open; [apply ex_rule7|apply ex_rule7|lia].
Qed.

(* the list-level theorem on the example of LSProofs (old: knot 1/2, new: one Bezier span) *)
Example ex_wf : WF (kvec ex_kold) (kdeg ex_kold) /\ WF (kvec ex_knew) (kdeg ex_knew).
Proof. split; vm_compute; reflexivity. Qed.
Example ex_cells : ls_cells ex_kold ex_knew = [(0, 1 # 2); (1 # 2, 1)] /\ cells_regular ex_kold ex_knew = true.
Proof. split; vm_compute; reflexivity. Qed.
Example ex_grams_exact :
  let PF se j := NlocP (nthq (kvec ex_kold)) (span_at (kvec ex_kold) (fst se)) 2 j in
  let PG se i := NlocP (nthq (kvec ex_knew)) (span_at (kvec ex_knew) (fst se)) 2 i in
  (forall i j, (i < 3)%nat -> (j < 4)%nat ->
     entry (gGF ex_g) i j
     == qsum (map (fun se => pint (fst se) (snd se) (pmul (PG se i) (PF se j))) [(0, 1 # 2); (1 # 2, 1)])) /\
  (forall i j, (i < 4)%nat -> (j < 4)%nat ->
     entry (gFF ex_g) i j
     == qsum (map (fun se => pint (fst se) (snd se) (pmul (PF se i) (PF se j))) [(0, 1 # 2); (1 # 2, 1)])) /\
  (forall i j, (i < 3)%nat -> (j < 3)%nat ->
     entry (gGG ex_g) i j
     == qsum (map (fun se => pint (fst se) (snd se) (pmul (PG se i) (PG se j))) [(0, 1 # 2); (1 # 2, 1)])).
Proof.
  destruct ex_wf as [Wo Wn]. destruct ex_cells as [EC ER].
  destruct (grams_of_exact_spans ex_kold ex_knew ex_g Wo Wn ex_grams ER) as (A & B & C).
  rewrite EC in A, B, C. cbv zeta.
  split; [exact A|]. split; [apply B; cbn; lia|apply C; cbn; lia].
Qed.
(* the same, checked by computation (independent of the theorem): GG[0][0] = int_0^1 (1-u)^4 = 1/5, ... *)
Example ex_grams_computed :
  entry (gGG ex_g) 0 0 == 1 # 5 /\ entry (gGG ex_g) 0 1 == 1 # 10 /\ entry (gGG ex_g) 1 1 == 2 # 15 /\
  entry (gFF ex_g) 0 0 == 1 # 10 /\ entry (gGF ex_g) 0 0 == 31 # 240.
Proof. vm_compute. repeat split. Qed.


(* the semantic hypotheses on the example *)
Example ex_knots_exact : knots_exact ex_kold /\ knots_exact ex_knew.
Proof.
  split; intros y Hy; cbn in Hy;
    repeat (destruct Hy as [<-|Hy]; [eexists; split; [|reflexivity]; vm_compute; tauto|]); contradiction.
Qed.
Example ex_limits : kumin ex_kold == kumin ex_knew /\ kumax ex_kold == kumax ex_knew.
Proof. split; vm_compute; reflexivity. Qed.

(* FINDING (why knots_exact is a hypothesis): two knots closer than tol_unique are one knot for
   kknots, the cell [1/2,1] then contains a knot and the rule no longer integrates exactly *)
Definition ex_kclose : kv := mkkv [0; 0; 0; 1 # 2; (1 # 2) + (1 # 10000000); 1; 1; 1] 2.
Definition ex_gclose : grams := unwrap (mkgr [] [] []) (grams_of ex_kclose ex_knew).
Example ex_close :
  WF (kvec ex_kclose) (kdeg ex_kclose) /\
  grams_of ex_kclose ex_knew = Ok ex_gclose /\
  ls_cells ex_kclose ex_knew = [(0, 1 # 2); (1 # 2, 1)] /\
  cells_regular ex_kclose ex_knew = false /\
  (* FF[3][3] against the exact integral over the true partition 0 < 1/2 < 1/2 + 1e-7 < 1 *)
  let U := nthq (kvec ex_kclose) in
  Qeq_bool (entry (gFF ex_gclose) 3 3)
           (pint (U 3%nat) (U 4%nat) (pmul (NlocP U 3 2 3) (NlocP U 3 2 3))
            + pint (U 4%nat) (U 5%nat) (pmul (NlocP U 4 2 3) (NlocP U 4 2 3))) = false.
Proof. vm_compute. repeat split. Qed.

Print Assumptions peval_pmul.
Print Assumptions pmul_length.
Print Assumptions pint_chasles.
Print Assumptions pint_pderiv.
Print Assumptions chain_rule.
Print Assumptions pint_subst.
Print Assumptions quad_exact.
Print Assumptions NlocP_eval.
Print Assumptions NlocP_length.
Print Assumptions gram_span_exact.
Print Assumptions gram_span_exact_open.
Print Assumptions grams_of_exact.
Print Assumptions grams_of_exact_spans.
Print Assumptions grams_of_exact_clean.
Print Assumptions cells_clean.
Print Assumptions grams_of_L2.
Print Assumptions pairs_telescope.
