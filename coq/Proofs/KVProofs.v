(* PROOFS about Model/KV.v against Spec/KnotSpec.v:
   sorting, validator => well-formedness, consequences of WF, span search. *)
From Coq Require Import QArith Qabs List Bool Arith Lia Lqa Setoid Morphisms.
From Coq Require Import Sorting.Permutation.
From NurbsV Require Import Base.Res Base.QList Spec.KnotSpec Gen.Consts Model.KV.
Import ListNotations.
Open Scope Q_scope.

(* ------------------------------------------------------------------ *)
(* 0. small helpers                                                    *)
(* ------------------------------------------------------------------ *)

Lemma sorted_b_cons2 a b t : sorted_b (a :: b :: t) = Qleb a b && sorted_b (b :: t).
Proof. reflexivity. Qed.

Lemma sorted_b_tail a l : sorted_b (a :: l) = true -> sorted_b l = true.
Proof.
  destruct l as [|b t]; [reflexivity|].
  rewrite sorted_b_cons2. intro H. apply andb_true_iff in H. tauto.
Qed.

Lemma last_cons2 (a b : Q) t d : last (a :: b :: t) d = last (b :: t) d.
Proof. reflexivity. Qed.

Lemma last_nth (l : list Q) d : last l d = nth (length l - 1) l d.
Proof.
  induction l as [|a l IH]; [reflexivity|].
  destruct l as [|b t]; [reflexivity|].
  rewrite last_cons2, IH. cbn [length].
  replace (S (S (length t)) - 1)%nat with (S (S (length t) - 1))%nat by lia.
  reflexivity.
Qed.

Lemma count_q_cons x y l :
  count_q x (y :: l) = ((if Qeqb x y then 1 else 0) + count_q x l)%nat.
Proof. unfold count_q. cbn [filter]. destruct (Qeqb x y); reflexivity. Qed.

Lemma count_q_nil x : count_q x [] = 0%nat.
Proof. reflexivity. Qed.

Lemma count_q_le_length x l : (count_q x l <= length l)%nat.
Proof.
  induction l as [|y l IH]; [cbn; lia|].
  rewrite count_q_cons. cbn [length]. destruct (Qeqb x y); lia.
Qed.

(* ------------------------------------------------------------------ *)
(* 1. sortq                                                            *)
(* ------------------------------------------------------------------ *)

Lemma insq_sorted x l : sorted_b l = true -> sorted_b (insq x l) = true.
Proof.
  induction l as [|y l IH]; intro H; [reflexivity|].
  cbn [insq]. destruct (Qleb_spec x y) as [Hxy|Hxy].
  - rewrite sorted_b_cons2, H. apply Qleb_le in Hxy. rewrite Hxy. reflexivity.
  - assert (Hyx : Qleb y x = true) by (apply Qleb_le; lra).
    destruct l as [|z t].
    + cbn [insq]. rewrite sorted_b_cons2, Hyx. reflexivity.
    + rewrite sorted_b_cons2 in H. apply andb_true_iff in H. destruct H as [Hyz Ht].
      specialize (IH Ht). cbn [insq] in IH |- *.
      destruct (Qleb x z).
      * rewrite sorted_b_cons2, Hyx, IH. reflexivity.
      * rewrite sorted_b_cons2, Hyz, IH. reflexivity.
Qed.

Lemma sortq_sorted : forall l, sorted_b (sortq l) = true.
Proof.
  induction l as [|x l IH]; [reflexivity|]. cbn [sortq]. apply insq_sorted, IH.
Qed.

Lemma insq_perm x l : Permutation (insq x l) (x :: l).
Proof.
  induction l as [|y l IH]; [apply Permutation_refl|].
  cbn [insq]. destruct (Qleb x y); [apply Permutation_refl|].
  eapply perm_trans; [apply perm_skip, IH | apply perm_swap].
Qed.

Lemma sortq_perm : forall l, Permutation (sortq l) l.
Proof.
  induction l as [|x l IH]; [apply perm_nil|]. cbn [sortq].
  eapply perm_trans; [apply insq_perm | apply perm_skip, IH].
Qed.

Lemma sortq_length : forall l, length (sortq l) = length l.
Proof. intro l. apply Permutation_length, sortq_perm. Qed.

(* ------------------------------------------------------------------ *)
(* 2. validator => WF, and every operation ends in [make]              *)
(* ------------------------------------------------------------------ *)

Theorem is_valid_wf : forall v deg,
  is_valid v deg = true ->
  wf_b v (match deg with Some d => d | None => infer_deg v end) = true.
Proof.
  intros v deg H. unfold is_valid in H. cbv zeta in H.
  set (d := match deg with Some d => d | None => infer_deg v end) in *.
  repeat match goal with
         | K : _ && _ = true |- _ => apply andb_true_iff in K; destruct K
         end.
  unfold wf_b.
  repeat (apply andb_true_iff; split); try assumption.
  match goal with K : (d <? _)%nat = true |- _ => apply Nat.ltb_lt in K end.
  apply Nat.leb_le. lia.
Qed.

Theorem make_wf : forall v deg k, make v deg = Ok k -> WF (kvec k) (kdeg k).
Proof.
  intros v deg k H. unfold make in H.
  destruct (is_valid v deg) eqn:E; [|discriminate].
  inversion H; subst k. cbn [kvec kdeg]. apply is_valid_wf, E.
Qed.

Ltac wf_step :=
  match goal with
  | H : make _ _ = Ok _ |- _ => exact (make_wf _ _ _ H)
  | H : Err _ = Ok _ |- _ => discriminate H
  | H : (if ?c then _ else _) = Ok _ |- _ => destruct c eqn:?
  | H : match ?c with Some _ => _ | None => _ end = Ok _ |- _ => destruct c eqn:?
  | H : bind ?r _ = Ok _ |- _ => destruct r eqn:?; cbn [bind] in H
  end.

Lemma kinsert_wf k nodes k' : kinsert k nodes = Ok k' -> WF (kvec k') (kdeg k').
Proof. unfold kinsert. intro H. repeat wf_step. Qed.

Lemma kremove_wf k nodes k' : kremove k nodes = Ok k' -> WF (kvec k') (kdeg k').
Proof. unfold kremove. intro H. repeat wf_step. Qed.

Lemma kor_wf a b k' : kor a b = Ok k' -> WF (kvec k') (kdeg k').
Proof. unfold kor. intro H. cbv zeta in H. repeat wf_step. Qed.

Lemma kand_wf a b k' : kand a b = Ok k' -> WF (kvec k') (kdeg k').
Proof. unfold kand. intro H. cbv zeta in H. repeat wf_step. Qed.

Lemma kshift_wf k a k' : kshift k a = Ok k' -> WF (kvec k') (kdeg k').
Proof. unfold kshift. intro H. repeat wf_step. Qed.

Lemma kscale_wf k s k' : kscale k s = Ok k' -> WF (kvec k') (kdeg k').
Proof. unfold kscale. intro H. repeat wf_step. Qed.

Lemma knormalize_wf k k' : knormalize k = Ok k' -> WF (kvec k') (kdeg k').
Proof. unfold knormalize. intro H. cbv zeta in H. repeat wf_step. Qed.

Lemma kconvert_int_wf k tol k' : kconvert_int k tol = Ok k' -> WF (kvec k') (kdeg k').
Proof. unfold kconvert_int. intro H. repeat wf_step. Qed.

Lemma kset_degree_wf k d k' :
  WF (kvec k) (kdeg k) -> kset_degree k d = Ok k' -> WF (kvec k') (kdeg k').
Proof.
  intros W H. unfold kset_degree in H.
  destruct (d <? kdeg k)%nat; [exact (kremove_wf _ _ _ H)|].
  destruct (kdeg k <? d)%nat; [exact (kinsert_wf _ _ _ H)|].
  inversion H; subst k'. exact W.
Qed.

Lemma gen_bezier_wf p k' : gen_bezier p = Ok k' -> WF (kvec k') (kdeg k').
Proof. unfold gen_bezier. intro H. repeat wf_step. Qed.

Lemma gen_integer_wf p n k' : gen_integer p n = Ok k' -> WF (kvec k') (kdeg k').
Proof. unfold gen_integer. intro H. cbv zeta in H. repeat wf_step. Qed.

Lemma gen_uniform_wf p n k' : gen_uniform p n = Ok k' -> WF (kvec k') (kdeg k').
Proof.
  unfold gen_uniform. intro H. destruct (gen_integer p n); cbn [bind] in H; [|discriminate].
  exact (knormalize_wf _ _ H).
Qed.

Lemma gen_weight_wf p ws k' : gen_weight p ws = Ok k' -> WF (kvec k') (kdeg k').
Proof.
  unfold gen_weight. intro H. destruct ws as [|w ws]; [discriminate|].
  cbv zeta in H. repeat wf_step.
Qed.

Lemma gen_random_from_wf p ws k' : gen_random_from p ws = Ok k' -> WF (kvec k') (kdeg k').
Proof.
  unfold gen_random_from. intro H. destruct (gen_weight p ws); cbn [bind] in H; [|discriminate].
  exact (knormalize_wf _ _ H).
Qed.

Lemma mapM_Forall {A B} (f : A -> res B) (P : B -> Prop) :
  (forall a b, f a = Ok b -> P b) ->
  forall l bs, mapM f l = Ok bs -> Forall P bs.
Proof.
  intros Hf. induction l as [|a l IH]; cbn [mapM]; intros bs H.
  - inversion H. constructor.
  - destruct (f a) as [b|] eqn:E; cbn [bind] in H; [|discriminate].
    destruct (mapM f l) as [bs'|]; cbn [bind] in H; [|discriminate].
    inversion H; subst bs. constructor; [exact (Hf _ _ E) | apply IH; reflexivity].
Qed.

Lemma ksplit_wf k nodes ks :
  ksplit k nodes = Ok ks -> WF (kvec k) (kdeg k) ->
  Forall (fun k' => WF (kvec k') (kdeg k')) ks.
Proof.
  unfold ksplit. intros H W.
  destruct (negb (kvalid k nodes)); [discriminate|].
  destruct nodes as [|n ns].
  - inversion H. constructor; [exact W | constructor].
  - revert H. apply mapM_Forall. intros [a b] k' Hm. exact (make_wf _ _ _ Hm).
Qed.

(* ------------------------------------------------------------------ *)
(* 3. consequences of WF                                               *)
(* ------------------------------------------------------------------ *)

Lemma sorted_adj d : forall v i, sorted_b v = true -> (S i < length v)%nat ->
  nth i v d <= nth (S i) v d.
Proof.
  induction v as [|a v IH]; intros i Hs Hi; [cbn in Hi; lia|].
  destruct v as [|b t]; [cbn in Hi; lia|].
  rewrite sorted_b_cons2 in Hs. apply andb_true_iff in Hs. destruct Hs as [Hab Ht].
  destruct i as [|i].
  - cbn [nth]. apply Qleb_le, Hab.
  - change (nth (S i) (a :: b :: t) d) with (nth i (b :: t) d).
    change (nth (S (S i)) (a :: b :: t) d) with (nth (S i) (b :: t) d).
    apply IH; [exact Ht | cbn [length] in Hi |- *; lia].
Qed.

Lemma sorted_nth d v : sorted_b v = true ->
  forall i j, (i <= j < length v)%nat -> nth i v d <= nth j v d.
Proof.
  intros Hs i j [Hij Hj].
  replace j with (i + (j - i))%nat by lia.
  assert (Hk : (i + (j - i) < length v)%nat) by lia.
  generalize dependent (j - i)%nat. clear Hij Hj. intro k.
  induction k as [|k IH]; intro Hk.
  - rewrite Nat.add_0_r. apply Qle_refl.
  - eapply Qle_trans; [apply IH; lia|].
    replace (i + S k)%nat with (S (i + k)) by lia.
    apply sorted_adj; [exact Hs | lia].
Qed.

Lemma wf_parts v p : WF v p ->
  sorted_b v = true /\ (2 * p + 2 <= length v)%nat /\
  count_q (first_q v) v = (p + 1)%nat /\ count_q (last_q v) v = (p + 1)%nat.
Proof.
  unfold WF, wf_b. intro H.
  repeat match goal with
         | K : _ && _ = true |- _ => apply andb_true_iff in K; destruct K
         end.
  repeat split; try assumption.
  - apply Nat.leb_le; assumption.
  - apply Nat.eqb_eq; assumption.
  - apply Nat.eqb_eq; assumption.
Qed.

Lemma sorted_nthq v : sorted_b v = true ->
  forall i j, (i <= j < length v)%nat -> nthq v i <= nthq v j.
Proof. intros Hs i j Hij. unfold nthq. apply sorted_nth; assumption. Qed.

Lemma wf_sorted_nth v p : WF v p ->
  forall i j, (i <= j < length v)%nat -> nthq v i <= nthq v j.
Proof. intros W. apply sorted_nthq. apply (wf_parts _ _ W). Qed.

Lemma nthq_last v : (0 < length v)%nat -> nthq v (length v - 1) = last v 0.
Proof.
  intro H. unfold nthq. rewrite (nth_indep v (last v 0) 0) by lia.
  symmetry. apply last_nth.
Qed.

Lemma sorted_mono v : sorted_b v = true -> forall i, nthq v i <= nthq v (S i).
Proof.
  intros Hs i.
  destruct (Nat.lt_ge_cases (S i) (length v)) as [Hi|Hi].
  - apply sorted_nthq; [exact Hs | lia].
  - rewrite (nthq_overflow v (S i)) by exact Hi.
    destruct (Nat.lt_ge_cases i (length v)) as [Hi'|Hi'].
    + replace i with (length v - 1)%nat by lia.
      rewrite nthq_last by lia. apply Qle_refl.
    + rewrite nthq_overflow by exact Hi'. apply Qle_refl.
Qed.

Lemma wf_mono v p : WF v p -> forall i, nthq v i <= nthq v (S i).
Proof. intro W. apply sorted_mono. apply (wf_parts _ _ W). Qed.

Lemma mono_le (U : nat -> Q) : (forall i, U i <= U (S i)) ->
  forall i j, (i <= j)%nat -> U i <= U j.
Proof.
  intros HU i j Hij. induction Hij as [|j Hij IH]; [apply Qle_refl|].
  eapply Qle_trans; [exact IH | apply HU].
Qed.

Lemma wf_mono_le v p : WF v p -> forall i j, (i <= j)%nat -> nthq v i <= nthq v j.
Proof. intros W. apply (mono_le (nthq v)). apply (wf_mono _ _ W). Qed.

(* counting lemmas: indices vs. [count_q] *)
Lemma count_le_prefix d x : forall l i,
  (forall j, (i <= j < length l)%nat -> ~ nth j l d == x) -> (count_q x l <= i)%nat.
Proof.
  induction l as [|b t IH]; intros i H; [cbn; lia|].
  rewrite count_q_cons. destruct i as [|i].
  - destruct (Qeqb_spec x b) as [E|E].
    + exfalso. apply (H O); [cbn [length]; lia|]. cbn [nth]. symmetry; exact E.
    + cbn [Nat.add]. apply IH. intros j Hj. apply (H (S j)). cbn [length]; lia.
  - assert (count_q x t <= i)%nat.
    { apply IH. intros j Hj. apply (H (S j)). cbn [length]; lia. }
    destruct (Qeqb x b); lia.
Qed.

Lemma count_ge_prefix d x : forall l n,
  (forall j, (j < n)%nat -> nth j l d == x) -> (n <= length l)%nat -> (n <= count_q x l)%nat.
Proof.
  induction l as [|b t IH]; intros n H Hn; [cbn in Hn; lia|].
  destruct n as [|n]; [lia|].
  rewrite count_q_cons.
  assert (E : Qeqb x b = true).
  { apply Qeqb_eq. symmetry. apply (H O). lia. }
  rewrite E.
  assert (n <= count_q x t)%nat.
  { apply IH; [|cbn [length] in Hn; lia]. intros j Hj. apply (H (S j)). lia. }
  lia.
Qed.

Lemma count_le_suffix d x : forall l n,
  (forall j, (j < length l - n)%nat -> ~ nth j l d == x) -> (count_q x l <= n)%nat.
Proof.
  induction l as [|b t IH]; intros n H; [cbn; lia|].
  destruct (Nat.le_gt_cases (length (b :: t)) n) as [Hn|Hn].
  - pose proof (count_q_le_length x (b :: t)). lia.
  - cbn [length] in Hn. rewrite count_q_cons.
    assert (E : Qeqb x b = false).
    { apply Qeqb_neq. intro C. apply (H O); [cbn [length]; lia|]. cbn [nth]. symmetry; exact C. }
    rewrite E. cbn [Nat.add]. apply IH. intros j Hj. apply (H (S j)). cbn [length]. lia.
Qed.

Lemma count_ge_suffix d x : forall l n,
  (forall j, (length l - n <= j < length l)%nat -> nth j l d == x) ->
  (n <= length l)%nat -> (n <= count_q x l)%nat.
Proof.
  induction l as [|b t IH]; intros n H Hn; [cbn in Hn; lia|].
  cbn [length] in Hn. rewrite count_q_cons.
  destruct (Nat.le_gt_cases n (length t)) as [Hle|Hgt].
  - assert (n <= count_q x t)%nat.
    { apply IH; [|exact Hle]. intros j Hj. apply (H (S j)). cbn [length]. lia. }
    lia.
  - assert (E : Qeqb x b = true).
    { apply Qeqb_eq. symmetry. apply (H O). cbn [length]. lia. }
    rewrite E.
    assert (length t <= count_q x t)%nat.
    { apply IH; [|lia]. intros j Hj. apply (H (S j)). cbn [length]. lia. }
    lia.
Qed.

Lemma first_q_nthq v : (0 < length v)%nat -> first_q v = nthq v 0.
Proof. intro H. unfold first_q. symmetry. apply nthq_in_range. exact H. Qed.

Lemma wf_first_block v p : WF v p -> forall i, (i <= p)%nat -> nthq v i == nthq v 0.
Proof.
  intros W i Hi. destruct (wf_parts _ _ W) as (Hs & Hl & Hf & _).
  destruct (Qeqb_spec (nthq v i) (nthq v 0)) as [E|E]; [exact E|exfalso].
  rewrite first_q_nthq in Hf by lia.
  assert (C : (count_q (nthq v 0) v <= i)%nat).
  { apply (count_le_prefix (last v 0)). intros j Hj.
    fold (nthq v j).
    assert (nthq v 0 <= nthq v i) by (apply sorted_nthq; [exact Hs|lia]).
    assert (nthq v i <= nthq v j) by (apply sorted_nthq; [exact Hs|lia]).
    intro K. apply E. lra. }
  lia.
Qed.

Lemma wf_last_block v p : WF v p ->
  forall i, (length v - p - 1 <= i)%nat -> nthq v i == last_q v.
Proof.
  intros W i Hi. destruct (wf_parts _ _ W) as (Hs & Hl & _ & Hc).
  unfold last_q in *.
  destruct (Nat.le_gt_cases (length v) i) as [Ho|Hin].
  - rewrite nthq_overflow by exact Ho. reflexivity.
  - destruct (Qeqb_spec (nthq v i) (last v 0)) as [E|E]; [exact E|exfalso].
    assert (C : (count_q (last v 0%Q) v <= length v - 1 - i)%nat).
    { apply (count_le_suffix (last v 0)). intros j Hj.
      fold (nthq v j).
      assert (nthq v j <= nthq v i) by (apply sorted_nthq; [exact Hs|lia]).
      assert (nthq v i <= nthq v (length v - 1)) by (apply sorted_nthq; [exact Hs|lia]).
      rewrite nthq_last in * by lia.
      intro K. apply E. lra. }
    lia.
Qed.

Lemma wf_interior_strict_lo v p : WF v p -> nthq v p < nthq v (S p).
Proof.
  intros W. destruct (wf_parts _ _ W) as (Hs & Hl & Hf & _).
  destruct (Qlt_le_dec (nthq v p) (nthq v (S p))) as [L|G]; [exact L|exfalso].
  rewrite first_q_nthq in Hf by lia.
  pose proof (wf_first_block _ _ W p (le_n _)) as Ep.
  assert (C : (p + 2 <= count_q (nthq v 0) v)%nat).
  { apply (count_ge_prefix (last v 0)); [|lia]. intros j Hj. fold (nthq v j).
    assert (nthq v 0 <= nthq v j) by (apply sorted_nthq; [exact Hs|lia]).
    assert (nthq v j <= nthq v (S p)) by (apply sorted_nthq; [exact Hs|lia]).
    lra. }
  lia.
Qed.

Lemma wf_interior_strict_hi v p : WF v p ->
  nthq v (length v - p - 2) < nthq v (length v - p - 1).
Proof.
  intros W. destruct (wf_parts _ _ W) as (Hs & Hl & _ & Hc).
  destruct (Qlt_le_dec (nthq v (length v - p - 2)) (nthq v (length v - p - 1))) as [L|G];
    [exact L|exfalso].
  pose proof (wf_last_block _ _ W (length v - p - 1)%nat (le_n _)) as Ep.
  unfold last_q in *.
  assert (C : (p + 2 <= count_q (last v 0%Q) v)%nat).
  { apply (count_ge_suffix (last v 0)); [|lia]. intros j Hj. fold (nthq v j).
    assert (nthq v (length v - p - 2) <= nthq v j) by (apply sorted_nthq; [exact Hs|lia]).
    assert (nthq v j <= nthq v (length v - 1)) by (apply sorted_nthq; [exact Hs|lia]).
    rewrite nthq_last in * by lia.
    lra. }
  lia.
Qed.

Lemma wf_interior_strict v p : WF v p ->
  nthq v p < nthq v (S p) /\ nthq v (length v - p - 2) < nthq v (length v - p - 1).
Proof. intro W. split; [apply wf_interior_strict_lo | apply wf_interior_strict_hi]; exact W. Qed.

Lemma wf_umin_lt_umax v p : WF v p -> umin_of v p < umax_of v p.
Proof.
  intros W. destruct (wf_parts _ _ W) as (Hs & Hl & _ & _).
  unfold umin_of, umax_of.
  pose proof (wf_interior_strict_lo _ _ W) as L.
  assert (nthq v (S p) <= nthq v (length v - p - 1)) by (apply sorted_nthq; [exact Hs|lia]).
  lra.
Qed.

(* ------------------------------------------------------------------ *)
(* 4. span search: soundness                                           *)
(* ------------------------------------------------------------------ *)

Lemma span_loop_sound : forall fuel U u lo hi s,
  span_loop fuel U u lo hi = Some s -> nthq U s <= u /\ u < nthq U (S s).
Proof.
  induction fuel as [|f IH]; intros U u lo hi s H; [discriminate|].
  cbn [span_loop] in H. cbv zeta in H.
  match type of H with
  | (if ?c then _ else _) = _ => destruct c eqn:E
  end.
  - inversion H; subst s. apply andb_true_iff in E. destruct E as [E1 E2].
    split; [apply Qleb_le, E1 | apply Qltb_lt, E2].
  - exact (IH _ _ _ _ _ H).
Qed.

Lemma kumin_umin k : kumin k = umin_of (kvec k) (kdeg k).
Proof. reflexivity. Qed.

Lemma kumax_umax k : kumax k = umax_of (kvec k) (kdeg k).
Proof. reflexivity. Qed.

Lemma umax_of_knpts k : umax_of (kvec k) (kdeg k) = nthq (kvec k) (knpts k).
Proof. reflexivity. Qed.

Theorem kspan_sound : forall k u s,
  kspan k u = Ok s -> span_ok (kvec k) (kdeg k) u s = true.
Proof.
  intros k u s H. unfold kspan in H.
  destruct (kvalid1 k u); [|discriminate].
  destruct (span_single k u) as [s'|] eqn:E; [|discriminate].
  inversion H; subst s'. clear H.
  unfold span_single in E. unfold span_ok. rewrite umax_of_knpts.
  destruct (Qeqb u (nthq (kvec k) (knpts k))).
  - inversion E; subst s. apply Nat.eqb_eq. unfold knpts. lia.
  - apply span_loop_sound in E. destruct E as [E1 E2].
    apply andb_true_iff. split; [apply Qleb_le, E1 | apply Qltb_lt, E2].
Qed.

Lemma kspan_outside k u : kvalid1 k u = false -> kspan k u = Err ValueError.
Proof. intro H. unfold kspan. rewrite H. reflexivity. Qed.

Lemma kvalid1_in_range k u : kvalid1 k u = in_range (kvec k) (kdeg k) u.
Proof.
  unfold kvalid1, in_range. rewrite kumin_umin, kumax_umax.
  unfold Qltb, Qleb. rewrite !negb_involutive. reflexivity.
Qed.

(* ------------------------------------------------------------------ *)
(* 5. span search: completeness and uniqueness                         *)
(* ------------------------------------------------------------------ *)

Lemma mid_bounds : forall lo hi, (lo + 2 <= hi -> lo < (lo + hi) / 2 < hi)%nat.
Proof.
  intros lo hi H. pose proof (Nat.div_mod (lo + hi) 2 ltac:(lia)) as E.
  pose proof (Nat.mod_upper_bound (lo + hi) 2 ltac:(lia)) as B. lia.
Qed.

Lemma mid_eq : forall lo hi, (hi = S lo -> (lo + hi) / 2 = lo)%nat.
Proof.
  intros lo hi H. pose proof (Nat.div_mod (lo + hi) 2 ltac:(lia)) as E.
  pose proof (Nat.mod_upper_bound (lo + hi) 2 ltac:(lia)) as B. lia.
Qed.

Lemma span_loop_complete : forall fuel U u lo hi,
  (lo < hi)%nat -> (hi - lo <= fuel)%nat ->
  nthq U lo <= u -> u < nthq U hi ->
  exists s, span_loop fuel U u lo hi = Some s.
Proof.
  induction fuel as [|f IH]; intros U u lo hi Hlt Hf Hlo Hhi; [lia|].
  cbn [span_loop]. cbv zeta.
  destruct (Nat.eq_dec hi (S lo)) as [E1|E1].
  - (* hi = lo + 1: the answer is lo, found immediately *)
    rewrite (mid_eq lo hi E1).
    assert (L : Qltb u (nthq U lo) = false) by (apply Qltb_ge; exact Hlo).
    rewrite L. rewrite (mid_eq lo hi E1).
    assert (A : Qleb (nthq U lo) u = true) by (apply Qleb_le; exact Hlo).
    assert (B : Qltb u (nthq U (S lo)) = true) by (apply Qltb_lt; rewrite <- E1; exact Hhi).
    rewrite A, B. cbn [andb]. eexists; reflexivity.
  - pose proof (mid_bounds lo hi ltac:(lia)) as Hm.
    set (mid := ((lo + hi) / 2)%nat) in *.
    match goal with
    | |- exists s, (if ?c then _ else _) = _ => destruct c
    end; [eexists; reflexivity|].
    destruct (Qltb_spec u (nthq U mid)) as [Hu|Hu].
    + apply IH; [lia | lia | exact Hlo | exact Hu].
    + apply IH; [lia | lia | lra | exact Hhi].
Qed.

Theorem kspan_complete : forall k u,
  WF (kvec k) (kdeg k) -> kvalid1 k u = true -> exists s, kspan k u = Ok s.
Proof.
  intros k u W Hv. unfold kspan. rewrite Hv.
  assert (Hex : exists s, span_single k u = Some s).
  { unfold span_single.
    destruct (Qeqb_spec u (nthq (kvec k) (knpts k))) as [E|E]; [eexists; reflexivity|].
    rewrite kvalid1_in_range in Hv. unfold in_range in Hv.
    apply andb_true_iff in Hv. destruct Hv as [H1 H2].
    apply Qleb_le in H1. apply Qleb_le in H2.
    rewrite umax_of_knpts in H2. unfold umin_of in H1.
    destruct (wf_parts _ _ W) as (Hs & Hl & _ & _).
    pose proof (wf_mono _ _ W (knpts k)) as Hm.
    apply span_loop_complete.
    - unfold knpts. lia.
    - unfold knpts. lia.
    - exact H1.
    - replace (knpts k + 1)%nat with (S (knpts k)) by lia.
      destruct (Qlt_le_dec u (nthq (kvec k) (knpts k))) as [L|G]; [lra|].
      exfalso. apply E. lra. }
  destruct Hex as [s Hs]. rewrite Hs. eexists; reflexivity.
Qed.

Lemma span_unique U u s t :
  (forall i, nthq U i <= nthq U (S i)) ->
  nthq U s <= u < nthq U (S s) -> nthq U t <= u < nthq U (S t) -> s = t.
Proof.
  intros HU [Hs1 Hs2] [Ht1 Ht2].
  destruct (Nat.lt_trichotomy s t) as [L|[E|G]]; [exfalso| exact E |exfalso].
  - pose proof (mono_le (nthq U) HU (S s) t ltac:(lia)). lra.
  - pose proof (mono_le (nthq U) HU (S t) s ltac:(lia)). lra.
Qed.

(* under WF, the result of kspan is the unique index satisfying the spec *)
Corollary kspan_unique_wf k u s t :
  WF (kvec k) (kdeg k) ->
  nthq (kvec k) s <= u < nthq (kvec k) (S s) ->
  nthq (kvec k) t <= u < nthq (kvec k) (S t) -> s = t.
Proof. intro W. apply span_unique. apply (wf_mono _ _ W). Qed.

(* non-vacuity: a concrete well-formed vector *)
Example wf_example : WF [0; 0; 0; 1#2; 1; 1; 1] 2.
Proof. reflexivity. Qed.

Print Assumptions sortq_sorted.
Print Assumptions sortq_perm.
Print Assumptions make_wf.
Print Assumptions ksplit_wf.
Print Assumptions wf_first_block.
Print Assumptions wf_last_block.
Print Assumptions wf_umin_lt_umax.
Print Assumptions wf_interior_strict.
Print Assumptions kspan_complete.
Print Assumptions span_unique.
Print Assumptions is_valid_wf.
Print Assumptions kspan_sound.
