(* Consequences of the linear independence of B-splines (Proofs/LinIndep.v) on the curve objects.
   L3  completeness of == at equal degree: two polynomial curves of the same degree that are the same
       function compare equal whenever c_eq answers.
   L4  semantic removability: if the function of c1 is representable on the coarser vector, then the control
       points of c1 are the insertion matrix applied to that representation, and knot_remove returns it. *)
From Coq Require Import QArith Qabs List Bool Arith Lia Lqa Setoid Morphisms Permutation.
From NurbsV Require Import Base.Res Base.QList Spec.BSpline Spec.KnotSpec Gen.Consts Model.KV Model.Basis
  Model.CurveM Model.Ops Model.CurveOps Model.Linalg Model.Quadrature Model.LeastSq Model.CurveLS.
From NurbsV Require Import Proofs.KVProofs Proofs.EvalProofs Proofs.InsertBasic Proofs.InsertList
  Proofs.InsertCompose Proofs.InsertCurve Proofs.RemoveBasic Proofs.MatProofs Proofs.LSProofs
  Proofs.UndoProofs Proofs.GenericUndo Proofs.EqBasic Proofs.EqInvariance Proofs.LinIndep.
From NurbsV Require Proofs.UnionProofs.
Import ListNotations.
Open Scope Q_scope.

(* ------------------------------------------------------------------ *)
(* 0. knot_insert succeeds whenever kinsert does (degree kept)          *)
(* ------------------------------------------------------------------ *)

(* a sorted vector between the ends of a WF vector, with the right counts, is WF *)
Lemma wf_of_counts U p V :
  WF U p -> sorted_b V = true ->
  (forall y, In y V -> first_q U <= y <= last_q U) ->
  count_q (first_q U) V = (p + 1)%nat -> count_q (last_q U) V = (p + 1)%nat ->
  (forall y, (count_q y V <= p + 1)%nat) ->
  WF V p /\ first_q V == first_q U /\ last_q V == last_q U.
Proof.
  intros W Hs Src CF CL Bound.
  assert (Len : (0 < length V)%nat).
  { pose proof (count_q_le_length (first_q U) V). lia. }
  assert (F : first_q V == first_q U).
  { destruct (UnionProofs.count_pos_in (first_q U) V ltac:(lia)) as (y & Hy & Ey).
    pose proof (UnionProofs.sorted_first_le V y Hs Hy).
    pose proof (Src _ (UnionProofs.first_q_in V Len)). lra. }
  assert (G : last_q V == last_q U).
  { destruct (UnionProofs.count_pos_in (last_q U) V ltac:(lia)) as (y & Hy & Ey).
    pose proof (UnionProofs.sorted_le_last V y Hs Hy).
    pose proof (Src _ (UnionProofs.last_q_in V Len)). lra. }
  pose proof (UnionProofs.wf_first_ne_last _ _ W) as NE.
  assert (Two : (2 * p + 2 <= length V)%nat).
  { assert (N : ~ first_q U == last_q U) by (intro C; lra).
    pose proof (UnionProofs.count_two_le _ _ N V). lia. }
  split; [|split; assumption].
  unfold WF, wf_b. rewrite Hs. rewrite F, G, CF, CL.
  assert (B1 : (2 * p + 2 <=? length V)%nat = true) by (apply Nat.leb_le, Two).
  rewrite B1, Nat.eqb_refl. cbn [andb].
  apply forallb_forall. intros x _. apply Nat.leb_le, Bound.
Qed.

Lemma in_closed_valid1 k x : WF (kvec k) (kdeg k) -> in_closed k x = kvalid1 k x.
Proof.
  intro W. unfold in_closed. rewrite kvalid1_in_range. unfold in_range.
  rewrite (Qleb_proper _ _ (wf_first_umin _ _ W) x x (Qeq_refl x)).
  rewrite (Qleb_proper x x (Qeq_refl x) _ _ (wf_last_umax _ _ W)). reflexivity.
Qed.

Lemma in_closed_bounds k x : in_closed k x = true -> first_q (kvec k) <= x <= last_q (kvec k).
Proof.
  unfold in_closed. intro H. apply andb_true_iff in H. destruct H as [A B].
  apply Qleb_le in A. apply Qleb_le in B. split; assumption.
Qed.

Lemma once_ok k x : WF (kvec k) (kdeg k) -> in_closed k x = true ->
  exists inc, one_knot_insert_once k x = Ok inc.
Proof.
  intros W H. unfold one_knot_insert_once. rewrite H. cbn [negb].
  rewrite (in_closed_valid1 k x W) in H.
  destruct (kspan_complete k x W H) as [s Hs]. rewrite Hs. cbn [bind]. eexists. reflexivity.
Qed.

Lemma cnt_single y x : count_q y [x] = (if Qeqb y x then 1 else 0)%nat.
Proof. rewrite count_q_cons, count_q_nil. destruct (Qeqb y x); reflexivity. Qed.

(* inserting one strictly interior knot whose multiplicity is at most p *)
Lemma kinsert1_ok k x : WF (kvec k) (kdeg k) ->
  first_q (kvec k) < x -> x < last_q (kvec k) -> (count_q x (kvec k) <= kdeg k)%nat ->
  exists k2, kinsert k [x] = Ok k2 /\ kdeg k2 = kdeg k /\
             first_q (kvec k2) == first_q (kvec k) /\ last_q (kvec k2) == last_q (kvec k).
Proof.
  intros W A B C. set (U := kvec k) in *. set (p := kdeg k) in *.
  destruct (wf_parts U p W) as (Hs & Hl & Hf & Hc).
  assert (Hv : kvalid k [x] = true).
  { cbn [kvalid forallb]. rewrite andb_true_r. rewrite <- (in_closed_valid1 k x W).
    unfold in_closed. fold U. apply andb_true_iff. split; apply Qleb_le; lra. }
  assert (Cnt : forall y, count_q y (sortq (U ++ [x])) = (count_q y U + (if Qeqb y x then 1 else 0))%nat).
  { intro y. rewrite (UnionProofs.count_q_perm _ _ _ (sortq_perm _)), UnionProofs.count_q_app, cnt_single.
    reflexivity. }
  destruct (wf_of_counts U p (sortq (U ++ [x])) W (sortq_sorted _)) as (WV & FV & LV).
  - intros y Hy. apply (Permutation_in y (sortq_perm _)) in Hy. apply in_app_or in Hy.
    destruct Hy as [Hy|[Hy|[]]].
    + split; [apply UnionProofs.sorted_first_le | apply UnionProofs.sorted_le_last]; assumption.
    + rewrite <- Hy. lra.
  - rewrite Cnt, Hf. destruct (Qeqb_spec (first_q U) x) as [E|E]; [lra|lia].
  - rewrite Cnt, Hc. destruct (Qeqb_spec (last_q U) x) as [E|E]; [lra|lia].
  - intro y. rewrite Cnt. pose proof (UnionProofs.wf_count_le U p W y).
    destruct (Qeqb_spec y x) as [E|E]; [|lia].
    rewrite (count_q_proper y x U E). lia.
  - exists (mkkv (sortq (U ++ [x])) p). unfold kinsert. rewrite Hv. fold U.
    rewrite (UnionProofs.make_of_wf _ _ WV). cbn [kvec kdeg]. repeat split; assumption.
Qed.

Lemma loop_ok x : forall t kc acc,
  WF (kvec kc) (kdeg kc) -> first_q (kvec kc) < x -> x < last_q (kvec kc) ->
  (count_q x (kvec kc) + t <= kdeg kc + 1)%nat ->
  exists M kf, one_knot_insert_loop t kc x acc = Ok (M, kf).
Proof.
  induction t as [|t IH]; intros kc acc W A B C; cbn [one_knot_insert_loop].
  - eexists. eexists. reflexivity.
  - assert (Hc : in_closed kc x = true).
    { unfold in_closed. apply andb_true_iff. split; apply Qleb_le; lra. }
    destruct (once_ok kc x W Hc) as [inc E1]. rewrite E1. cbn [bind].
    destruct (kinsert1_ok kc x W A B ltac:(lia)) as (k2 & E2 & D2 & F2 & L2). rewrite E2. cbn [bind].
    apply IH.
    + exact (kinsert_wf _ _ _ E2).
    + lra.
    + lra.
    + destruct (kinsert_vec _ _ _ E2) as [Ev _]. rewrite Ev, D2.
      rewrite (UnionProofs.count_q_perm _ _ _ (sortq_perm _)), UnionProofs.count_q_app, cnt_single.
      assert (Qeqb x x = true) by (apply Qeqb_eq; reflexivity). rewrite H. lia.
Qed.

Lemma one_knot_insert_ok k x t : WF (kvec k) (kdeg k) ->
  first_q (kvec k) < x -> x < last_q (kvec k) -> (0 < t)%nat ->
  (count_q x (kvec k) + t <= kdeg k + 1)%nat ->
  exists M kf, one_knot_insert k x t = Ok (M, kf).
Proof.
  intros W A B Ht C. unfold one_knot_insert.
  assert (Hc : in_closed k x = true).
  { unfold in_closed. apply andb_true_iff. split; apply Qleb_le; lra. }
  rewrite Hc. cbn [negb].
  destruct (Nat.eqb_spec t 0) as [E|E]; [lia|].
  apply loop_ok; assumption.
Qed.

Lemma dedupq_In x : forall l, In x (dedupq l) -> In x l.
Proof.
  induction l as [|a l IH]; [auto|]. destruct l as [|b t]; [auto|].
  change (dedupq (a :: b :: t)) with (if Qeqb a b then dedupq (b :: t) else a :: dedupq (b :: t)).
  destruct (Qeqb a b); intro H.
  - right. apply IH, H.
  - destruct H as [H|H]; [left; exact H | right; apply IH, H].
Qed.

Lemma ends_of_range k k' : WF (kvec k) (kdeg k) -> WF (kvec k') (kdeg k') ->
  (forall u, in_range (kvec k') (kdeg k') u = in_range (kvec k) (kdeg k) u) ->
  first_q (kvec k') == first_q (kvec k) /\ last_q (kvec k') == last_q (kvec k).
Proof.
  intros W W' H.
  destruct (in_range_limits _ _ _ _ H (Qlt_le_weak _ _ (wf_umin_lt_umax _ _ W'))
              (Qlt_le_weak _ _ (wf_umin_lt_umax _ _ W))) as [E1 E2].
  rewrite (wf_first_umin _ _ W'), (wf_first_umin _ _ W), (wf_last_umax _ _ W'), (wf_last_umax _ _ W).
  split; assumption.
Qed.

Lemma fold_ok (k : kv) (nodes : list Q) : WF (kvec k) (kdeg k) ->
  forall l m kc,
  WF (kvec kc) (kdeg kc) -> kdeg kc = kdeg k ->
  first_q (kvec kc) == first_q (kvec k) -> last_q (kvec kc) == last_q (kvec k) ->
  (forall x, In x l -> first_q (kvec k) < x /\ x < last_q (kvec k) /\ (0 < count_q x nodes)%nat) ->
  (forall y, (count_q y (kvec kc) + wsum (fun x => count_q x nodes) l y <= kdeg k + 1)%nat) ->
  exists r, fold_left (ki_step nodes) l (Ok (m, kc)) = Ok r.
Proof.
  intros W. induction l as [|x l IH]; intros m kc Wc Dc Fc Lc Hl Hb; cbn [fold_left].
  - eexists. reflexivity.
  - destruct (Hl x (or_introl eq_refl)) as (A & B & C).
    destruct (one_knot_insert_ok kc x (count_q x nodes) Wc ltac:(lra) ltac:(lra) C) as (inc & k' & E).
    { specialize (Hb x). cbn [wsum] in Hb. unfold cnt1 in Hb.
      assert (Qeqb x x = true) by (apply Qeqb_eq; reflexivity). rewrite H in Hb. rewrite Dc. lia. }
    unfold ki_step at 2. cbn [bind]. rewrite E. cbn [bind].
    destruct (one_knot_insert_inv kc x _ inc k' Wc E) as (W' & D' & _ & _ & R' & _).
    destruct (one_knot_insert_counts kc x _ inc k' Wc E) as [_ Cn].
    destruct (ends_of_range kc k' Wc W' R') as [F' L'].
    apply IH.
    + exact W'.
    + congruence.
    + rewrite F'. exact Fc.
    + rewrite L'. exact Lc.
    + intros z Hz. apply Hl. right. exact Hz.
    + intro y. rewrite Cn. specialize (Hb y). cbn [wsum] in Hb. lia.
Qed.

Theorem knot_insert_succeeds k nodes kf :
  WF (kvec k) (kdeg k) -> kinsert k nodes = Ok kf -> kdeg kf = kdeg k ->
  exists M, knot_insert k nodes = Ok M.
Proof.
  intros W Hk Hd.
  destruct (kinsert_no_ends k nodes kf W Hk Hd) as (Ev & Hf & Hl).
  destruct (kinsert_vec _ _ _ Hk) as [_ Hv].
  pose proof (kinsert_wf _ _ _ Hk) as Wf.
  assert (Hcl : forallb (in_closed k) nodes = true).
  { apply forallb_forall. intros x Hx. rewrite (in_closed_valid1 k x W).
    unfold kvalid in Hv. rewrite forallb_forall in Hv. apply Hv, Hx. }
  rewrite knot_insert_full_fst. unfold knot_insert_full. rewrite Hcl. cbn [negb].
  destruct (fold_ok k nodes W (ki_nodes k nodes) (ident (knpts k)) k W eq_refl (Qeq_refl _) (Qeq_refl _))
    as [r Hr].
  - intros x Hx. unfold ki_nodes in Hx. apply filter_In in Hx. destruct Hx as [Hx Hne].
    apply dedupq_In in Hx. apply (Permutation_in x (sortq_perm _)) in Hx.
    rewrite forallb_forall in Hcl. pose proof (in_closed_bounds k x (Hcl x Hx)) as [B1 B2].
    apply andb_true_iff in Hne. destruct Hne as [N1 N2].
    apply negb_true_iff, Qeqb_neq in N1. apply negb_true_iff, Qeqb_neq in N2.
    repeat split.
    + destruct (Qlt_le_dec (first_q (kvec k)) x) as [L|G]; [exact L|]. exfalso. apply N1. lra.
    + destruct (Qlt_le_dec x (last_q (kvec k))) as [L|G]; [exact L|]. exfalso. apply N2. lra.
    + apply (UnionProofs.in_count_pos x x nodes Hx (Qeq_refl x)).
  - intro y. rewrite (wsum_ki_nodes k nodes y Hf Hl).
    pose proof (UnionProofs.wf_count_le _ _ Wf y) as K.
    rewrite Ev, (UnionProofs.count_q_perm _ _ _ (sortq_perm _)), UnionProofs.count_q_app, Hd in K. exact K.
  - rewrite Hr. cbn [bind]. eexists. reflexivity.
Qed.


(* ------------------------------------------------------------------ *)
(* 0b. a WF vector whose multiplicities dominate those of k, on the     *)
(*     same interval and at the same degree, is (up to ==) a knot       *)
(*     insertion into k                                                 *)
(* ------------------------------------------------------------------ *)
Lemma remove_all_In : forall ns l l' z, remove_all ns l = Some l' -> In z l' -> In z l.
Proof.
  induction ns as [|x ns IH]; cbn [remove_all]; intros l l' z H Hz.
  - inversion H; subst. exact Hz.
  - destruct (remove1 x l) as [r|] eqn:R; [|discriminate].
    destruct (remove1_perm x l r R) as (y & _ & P).
    apply (Permutation_in z (Permutation_sym P)). right. exact (IH r l' z H Hz).
Qed.

Theorem refinement_by_nodes k kn nodes :
  WF (kvec k) (kdeg k) -> WF (kvec kn) (kdeg kn) -> kdeg kn = kdeg k ->
  limits_eqb k kn = true ->
  (forall y, count_q y (kvec kn) = (count_q y (kvec k) + count_q y nodes)%nat) ->
  exists kf M, kinsert k nodes = Ok kf /\ knot_insert k nodes = Ok M /\ kdeg kf = kdeg k /\
               Forall2 Qeq (kvec kn) (kvec kf) /\ kdeg kn = kdeg kf.
Proof.
  intros W Wn Hd Hlim Cn.
  destruct (UnionProofs.limits_first_last k kn W Wn Hlim) as [EF EL].
  set (V := sortq (kvec k ++ nodes)).
  assert (CV : forall y, count_q y V = count_q y (kvec kn)).
  { intro y. unfold V. rewrite (UnionProofs.count_q_perm _ _ _ (sortq_perm _)), UnionProofs.count_q_app.
    rewrite Cn. reflexivity. }
  assert (HF : Forall2 Qeq V (kvec kn)).
  { apply sorted_counts_Forall2; [apply sortq_sorted | apply (wf_parts _ _ Wn) | exact CV]. }
  pose proof (wf_Forall2 _ _ V Wn HF (sortq_sorted _)) as WV. rewrite Hd in WV.
  assert (Hv : kvalid k nodes = true).
  { unfold kvalid. apply forallb_forall. intros x Hx.
    rewrite <- (in_closed_valid1 k x W). unfold in_closed.
    pose proof (UnionProofs.in_count_pos x x nodes Hx (Qeq_refl x)) as Px.
    destruct (UnionProofs.count_pos_in x (kvec kn)) as (z & Hin & Ez); [rewrite Cn; lia|].
    pose proof (UnionProofs.sorted_first_le _ z (proj1 (wf_parts _ _ Wn)) Hin).
    pose proof (UnionProofs.sorted_le_last _ z (proj1 (wf_parts _ _ Wn)) Hin).
    apply andb_true_iff. split; apply Qleb_le; lra. }
  assert (Hk : kinsert k nodes = Ok (mkkv V (kdeg k))).
  { unfold kinsert. rewrite Hv. fold V. exact (UnionProofs.make_of_wf _ _ WV). }
  destruct (knot_insert_succeeds k nodes _ W Hk eq_refl) as [M HM].
  exists (mkkv V (kdeg k)), M. cbn [kvec kdeg].
  repeat split; try assumption. apply veq_sym. exact HF.
Qed.

Theorem refinement_is_insertion k kn :
  WF (kvec k) (kdeg k) -> WF (kvec kn) (kdeg kn) -> kdeg kn = kdeg k ->
  limits_eqb k kn = true ->
  (forall x, count_q x (kvec k) <= count_q x (kvec kn))%nat ->
  exists nodes kf M, kinsert k nodes = Ok kf /\ knot_insert k nodes = Ok M /\ kdeg kf = kdeg k /\
                     Forall2 Qeq (kvec kn) (kvec kf) /\ kdeg kn = kdeg kf.
Proof.
  intros W Wn Hd Hlim Hc.
  destruct (remove_all_some (kvec k) (kvec kn) Hc) as [nodes R].
  exists nodes. apply (refinement_by_nodes k kn nodes W Wn Hd Hlim).
  intro y. rewrite (count_q_remove_all y _ _ _ R). lia.
Qed.

Print Assumptions knot_insert_succeeds.
Print Assumptions refinement_is_insertion.

Lemma curve_spec_knots_proper U1 U2 p d (P : list (list Q)) u :
  Forall2 Qeq U1 U2 -> Forall2 Qeq (curve_spec U1 p d P u) (curve_spec U2 p d P u).
Proof.
  intro H. unfold curve_spec. induction (seq 0 d) as [|x l IH]; cbn [map]; constructor; [|exact IH].
  apply curve_spec1_knots_proper. exact H.
Qed.

(* ------------------------------------------------------------------ *)
(* L3, core: explicit refinement data for both operands                 *)
(* ------------------------------------------------------------------ *)
Section EqComplete.
  Variables (a b : curve) (Pa0 Pb0 : list pt) (d : nat).
  Hypothesis HWa : cW a = None.
  Hypothesis HPa : cP a = Some Pa0.
  Hypothesis Wa : WF (kvec (ckv a)) (cdeg a).
  Hypothesis HPal : length Pa0 = cnpts a.
  Hypothesis HPad : Forall (fun q : pt => length q = d) Pa0.
  Hypothesis HWb : cW b = None.
  Hypothesis HPb : cP b = Some Pb0.
  Hypothesis Wb : WF (kvec (ckv b)) (cdeg b).
  Hypothesis HPbl : length Pb0 = cnpts b.
  Hypothesis HPbd : Forall (fun q : pt => length q = d) Pb0.
  Hypothesis Hdeg : cdeg b = cdeg a.
  (* the same function on the common range *)
  Hypothesis Hfun : forall u, in_range (kvec (ckv a)) (cdeg a) u = true ->
    Forall2 Qeq (curve_spec (kvec (ckv a)) (cdeg a) d Pa0 u) (curve_spec (kvec (ckv b)) (cdeg b) d Pb0 u).

  (* the union vector is a refinement, by knot insertion, of both operands (up to == on the knots) *)
  Variables (kn kfa kfb : kv) (na nb : list Q) (Ma Mb : mat).
  Hypothesis EK : kor (ckv a) (ckv b) = Ok kn.
  Hypothesis HMa : knot_insert (ckv a) na = Ok Ma.
  Hypothesis Hka : kinsert (ckv a) na = Ok kfa.
  Hypothesis Hda : kdeg kfa = cdeg a.
  Hypothesis Hnva : Forall2 Qeq (kvec kn) (kvec kfa).
  Hypothesis Hnda : kdeg kn = kdeg kfa.
  Hypothesis HMb : knot_insert (ckv b) nb = Ok Mb.
  Hypothesis Hkb : kinsert (ckv b) nb = Ok kfb.
  Hypothesis Hdb : kdeg kfb = cdeg b.
  Hypothesis Hnvb : Forall2 Qeq (kvec kn) (kvec kfb).
  Hypothesis Hndb : kdeg kn = kdeg kfb.

  Lemma ec_Wn : WF (kvec kn) (kdeg kn).
  Proof using EK. exact (kor_wf _ _ _ EK). Qed.

  Lemma ec_range_a u : in_range (kvec kn) (kdeg kn) u = in_range (kvec (ckv a)) (cdeg a) u.
  Proof using Wa HMa Hka Hda Hnva Hnda.
    rewrite (in_range_knots_proper _ _ (kdeg kn) u Hnva), Hnda.
    exact (kinsert_in_range (ckv a) na Ma kfa Wa HMa Hka Hda u).
  Qed.

  Lemma ec_range_b u : in_range (kvec kn) (kdeg kn) u = in_range (kvec (ckv b)) (cdeg b) u.
  Proof using Wb HMb Hkb Hdb Hnvb Hndb.
    rewrite (in_range_knots_proper _ _ (kdeg kn) u Hnvb), Hndb.
    exact (kinsert_in_range (ckv b) nb Mb kfb Wb HMb Hkb Hdb u).
  Qed.

  (* the two refined control-point lists represent the same function over kn, hence are == *)
  Theorem refined_points_eq :
    Forall2 (Forall2 Qeq) (mat_apply Ma Pa0) (mat_apply Mb Pb0).
  Proof using All.
    pose proof ec_Wn as Wn.
    assert (Pda : pdim Pa0 = d) by exact (P_pdim (ckv a) (ckv a) Wa eq_refl Pa0 d HPal HPad).
    assert (Pdb : pdim Pb0 = d) by exact (P_pdim (ckv b) (ckv b) Wb eq_refl Pb0 d HPbl HPbd).
    destruct (knot_insert_curve (ckv a) na Ma kfa Wa HMa Hka Hda) as [LMa _].
    destruct (knot_insert_curve (ckv b) nb Mb kfb Wb HMb Hkb Hdb) as [LMb _].
    apply (lin_indep_points (kvec kn) (kdeg kn) d).
    - exact Wn.
    - rewrite mat_apply_length, LMa. unfold knpts, npts_of.
      rewrite (Forall2_Qeq_length _ _ Hnva), Hnda. reflexivity.
    - rewrite mat_apply_length, LMb. unfold knpts, npts_of.
      rewrite (Forall2_Qeq_length _ _ Hnvb), Hndb. reflexivity.
    - apply mat_apply_dims; assumption.
    - apply mat_apply_dims; assumption.
    - intros u Hu.
      assert (Hua : in_range (kvec (ckv a)) (cdeg a) u = true) by (rewrite <- ec_range_a; exact Hu).
      assert (Hub : in_range (kvec (ckv b)) (cdeg b) u = true) by (rewrite <- ec_range_b; exact Hu).
      eapply veq_trans; [apply (curve_spec_knots_proper _ _ _ _ _ _ Hnva)|].
      rewrite Hnda, Hda.
      eapply veq_trans;
        [exact (mat_apply_curve (ckv a) na Ma kfa Wa HMa Hka Hda d u Hua Pa0 HPal HPad)|].
      eapply veq_trans; [exact (Hfun u Hua)|].
      apply veq_sym.
      eapply veq_trans; [apply (curve_spec_knots_proper _ _ _ _ _ _ Hnvb)|].
      rewrite <- Hdeg.
      exact (mat_apply_curve (ckv b) nb Mb kfb Wb HMb Hkb Hdb d u Hub Pb0 HPbl HPbd).
  Qed.

  Theorem c_eq_complete_explicit r : c_eq a b = Ok r -> r = true.
  Proof using All.
    intro H. pose proof ec_Wn as Wn.
    destruct (UnionProofs.limits_first_last (ckv a) (ckv b) Wa Wb (UnionProofs.kor_limits _ _ _ EK)) as [F L].
    destruct (c_eq_ok_inv a b _ _ r F L HPa HPb H) as (kn' & a' & b' & Pa & Pb & EK' & UA & UB & PA & PB & ->).
    rewrite EK in EK'. inversion EK'; subst kn'. clear EK'.
    rewrite (curve_eta a Pa0 HWa HPa) in UA. rewrite (curve_eta b Pb0 HWb HPb) in UB.
    destruct (c_update_refine (ckv a) kfa kn na Ma Wa HMa Hka Hda Wn Hnva Hnda Pa0 d HPal HPad _ a' UA)
      as (Pa' & A1 & A2 & _).
    destruct (c_update_refine (ckv b) kfb kn nb Mb Wb HMb Hkb Hdb Wn Hnvb Hndb Pb0 d HPbl HPbd _ b' UB)
      as (Pb' & B1 & B2 & _).
    rewrite PA in A1. inversion A1; subst Pa'. rewrite PB in B1. inversion B1; subst Pb'.
    apply close_b_of_meq.
    eapply meq_trans; [exact A2|]. eapply meq_trans; [exact refined_points_eq|]. apply meq_sym. exact B2.
  Qed.
End EqComplete.

Print Assumptions c_eq_complete_explicit.

(* ------------------------------------------------------------------ *)
(* L3: completeness of == at equal degree, under separation of the knots *)
(* ------------------------------------------------------------------ *)
Lemma kor_same_degree_refines a b kn :
  WF (kvec a) (kdeg a) -> WF (kvec b) (kdeg b) -> kdeg b = kdeg a ->
  UnionProofs.separated (kvec a ++ kvec b) -> kor a b = Ok kn ->
  kdeg kn = kdeg a /\ limits_eqb a kn = true /\ limits_eqb b kn = true /\
  (forall x, count_q x (kvec a) <= count_q x (kvec kn))%nat /\
  (forall x, count_q x (kvec b) <= count_q x (kvec kn))%nat.
Proof.
  intros Wa Wb Hd S EK.
  pose proof (kor_wf _ _ _ EK) as Wn.
  pose proof (UnionProofs.kor_degree a b kn Wa Wb S EK) as Dn. rewrite Hd, Nat.max_id in Dn.
  pose proof (UnionProofs.kor_mult_law a b kn S EK) as Law.
  assert (Law' : forall x, count_q x (kvec kn) = Nat.max (count_q x (kvec a)) (count_q x (kvec b))).
  { intro x. rewrite Law, Hd, Nat.max_id, !UnionProofs.lift_same_deg. reflexivity. }
  destruct (UnionProofs.limits_first_last a b Wa Wb (UnionProofs.kor_limits _ _ _ EK)) as [EF EL].
  destruct (wf_parts _ _ Wa) as (Hsa & _ & Fa & La). destruct (wf_parts _ _ Wb) as (Hsb & _ & Fb & Lb).
  rewrite Hd in Fb, Lb.
  destruct (wf_of_counts (kvec a) (kdeg a) (kvec kn) Wa (proj1 (wf_parts _ _ Wn))) as (_ & Fn & Ln).
  - intros y Hy. pose proof (UnionProofs.in_count_pos y y _ Hy (Qeq_refl y)) as P. rewrite Law' in P.
    destruct (Nat.max_spec (count_q y (kvec a)) (count_q y (kvec b))) as [[_ E]|[_ E]]; rewrite E in P.
    + destruct (UnionProofs.count_pos_in y (kvec b) P) as (z & Hz & Ez). rewrite Ez, EF, EL.
      split; [apply UnionProofs.sorted_first_le | apply UnionProofs.sorted_le_last]; assumption.
    + destruct (UnionProofs.count_pos_in y (kvec a) P) as (z & Hz & Ez). rewrite Ez.
      split; [apply UnionProofs.sorted_first_le | apply UnionProofs.sorted_le_last]; assumption.
  - rewrite Law', Fa, (count_q_proper _ _ (kvec b) EF), Fb. lia.
  - rewrite Law', La, (count_q_proper _ _ (kvec b) EL), Lb. lia.
  - intro y. rewrite <- Dn. apply (UnionProofs.wf_count_le _ _ Wn).
  - assert (LA : limits_eqb a kn = true).
    { unfold limits_eqb. rewrite !kumin_umin, !kumax_umax.
      rewrite <- (wf_first_umin _ _ Wa), <- (wf_first_umin _ _ Wn), <- (wf_last_umax _ _ Wa), <- (wf_last_umax _ _ Wn).
      apply andb_true_iff. split; apply Qeqb_eq; symmetry; assumption. }
    assert (LB : limits_eqb b kn = true).
    { unfold limits_eqb. rewrite !kumin_umin, !kumax_umax.
      rewrite <- (wf_first_umin _ _ Wb), <- (wf_first_umin _ _ Wn), <- (wf_last_umax _ _ Wb), <- (wf_last_umax _ _ Wn).
      apply andb_true_iff. split; apply Qeqb_eq; [rewrite Fn, EF | rewrite Ln, EL]; reflexivity. }
    repeat split; try assumption; intro x; rewrite Law'; lia.
Qed.

Theorem c_eq_complete (a b : curve) (Pa0 Pb0 : list pt) (d : nat) (r : bool) :
  cW a = None -> cP a = Some Pa0 -> WF (kvec (ckv a)) (cdeg a) ->
  length Pa0 = cnpts a -> Forall (fun q : pt => length q = d) Pa0 ->
  cW b = None -> cP b = Some Pb0 -> WF (kvec (ckv b)) (cdeg b) ->
  length Pb0 = cnpts b -> Forall (fun q : pt => length q = d) Pb0 ->
  cdeg b = cdeg a ->
  UnionProofs.separated (kvec (ckv a) ++ kvec (ckv b)) ->
  first_q (kvec (ckv a)) == first_q (kvec (ckv b)) -> last_q (kvec (ckv a)) == last_q (kvec (ckv b)) ->
  (forall u, in_range (kvec (ckv a)) (cdeg a) u = true ->
     Forall2 Qeq (curve_spec (kvec (ckv a)) (cdeg a) d Pa0 u) (curve_spec (kvec (ckv b)) (cdeg b) d Pb0 u)) ->
  c_eq a b = Ok r -> r = true.
Proof.
  intros HWa HPa Wa HPal HPad HWb HPb Wb HPbl HPbd Hdeg S F L Hfun H.
  destruct (c_eq_ok_inv a b _ _ r F L HPa HPb H) as (kn & _ & _ & _ & _ & EK & _).
  pose proof (kor_wf _ _ _ EK) as Wn.
  destruct (kor_same_degree_refines (ckv a) (ckv b) kn Wa Wb Hdeg S EK) as (Dn & LA & LB & CA & CB).
  destruct (refinement_is_insertion (ckv a) kn Wa Wn Dn LA CA) as (na & kfa & Ma & Hka & HMa & Hda & Hnva & Hnda).
  destruct (refinement_is_insertion (ckv b) kn Wb Wn (eq_trans Dn (eq_sym Hdeg)) LB CB)
    as (nb & kfb & Mb & Hkb & HMb & Hdb & Hnvb & Hndb).
  exact (c_eq_complete_explicit a b Pa0 Pb0 d HWa HPa Wa HPal HPad HWb HPb Wb HPbl HPbd Hdeg Hfun
           kn kfa kfb na nb Ma Mb EK HMa Hka Hda Hnva Hnda HMb Hkb Hdb Hnvb Hndb r H).
Qed.

Print Assumptions c_eq_complete.

(* L3, success form: the answer IS True as soon as the two certified projections onto the union succeed *)
Lemma limits_of_first_last a b : WF (kvec a) (kdeg a) -> WF (kvec b) (kdeg b) ->
  first_q (kvec a) == first_q (kvec b) -> last_q (kvec a) == last_q (kvec b) -> limits_eqb a b = true.
Proof.
  intros Wa Wb F L. unfold limits_eqb. rewrite !kumin_umin, !kumax_umax.
  rewrite <- (wf_first_umin _ _ Wa), <- (wf_first_umin _ _ Wb), <- (wf_last_umax _ _ Wa), <- (wf_last_umax _ _ Wb).
  apply andb_true_iff. split; apply Qeqb_eq; assumption.
Qed.

Theorem c_eq_complete_true (a b : curve) (Pa0 Pb0 : list pt) (d : nat) :
  cW a = None -> cP a = Some Pa0 -> WF (kvec (ckv a)) (cdeg a) ->
  length Pa0 = cnpts a -> Forall (fun q : pt => length q = d) Pa0 ->
  cW b = None -> cP b = Some Pb0 -> WF (kvec (ckv b)) (cdeg b) ->
  length Pb0 = cnpts b -> Forall (fun q : pt => length q = d) Pb0 ->
  cdeg b = cdeg a ->
  UnionProofs.separated (kvec (ckv a) ++ kvec (ckv b)) ->
  first_q (kvec (ckv a)) == first_q (kvec (ckv b)) -> last_q (kvec (ckv a)) == last_q (kvec (ckv b)) ->
  (forall u, in_range (kvec (ckv a)) (cdeg a) u = true ->
     Forall2 Qeq (curve_spec (kvec (ckv a)) (cdeg a) d Pa0 u) (curve_spec (kvec (ckv b)) (cdeg b) d Pb0 u)) ->
  (forall kn, kor (ckv a) (ckv b) = Ok kn ->
     (exists T E, spline2spline (ckv a) kn None = Ok (T, E)) /\
     (exists T E, spline2spline (ckv b) kn None = Ok (T, E))) ->
  c_eq a b = Ok true.
Proof.
  intros HWa HPa Wa HPal HPad HWb HPb Wb HPbl HPbd Hdeg S F L Hfun Hproj.
  destruct (UnionProofs.kor_succeeds (ckv a) (ckv b) Wa Wb S (limits_of_first_last _ _ Wa Wb F L)) as (kn & EK).
  pose proof (kor_wf _ _ _ EK) as Wn.
  destruct (kor_same_degree_refines (ckv a) (ckv b) kn Wa Wb Hdeg S EK) as (Dn & LA & LB & CA & CB).
  destruct (refinement_is_insertion (ckv a) kn Wa Wn Dn LA CA) as (na & kfa & Ma & Hka & HMa & Hda & Hnva & Hnda).
  destruct (refinement_is_insertion (ckv b) kn Wb Wn (eq_trans Dn (eq_sym Hdeg)) LB CB)
    as (nb & kfb & Mb & Hkb & HMb & Hdb & Hnvb & Hndb).
  destruct (Hproj kn EK) as [(Ta & Ea & HSa) (Tb & Eb & HSb)].
  destruct (c_update_refine_succeeds (ckv a) kfa kn na Ma Wa HMa Hka Hda Wn Hnva Hnda Pa0 d HPal HPad
              tol_update Ta Ea tol_update_nonneg HSa) as (a' & UA).
  destruct (c_update_refine_succeeds (ckv b) kfb kn nb Mb Wb HMb Hkb Hdb Wn Hnvb Hndb Pb0 d HPbl HPbd
              tol_update Tb Eb tol_update_nonneg HSb) as (b' & UB).
  destruct (c_update_refine (ckv a) kfa kn na Ma Wa HMa Hka Hda Wn Hnva Hnda Pa0 d HPal HPad _ a' UA)
    as (Pa & PA & _).
  destruct (c_update_refine (ckv b) kfb kn nb Mb Wb HMb Hkb Hdb Wn Hnvb Hndb Pb0 d HPbl HPbd _ b' UB)
    as (Pb & PB & _).
  rewrite <- (curve_eta a Pa0 HWa HPa) in UA. rewrite <- (curve_eta b Pb0 HWb HPb) in UB.
  pose proof (c_eq_compute a b Pa0 Pb0 kn a' b' Pa Pb F L HPa HPb EK UA UB PA PB) as HC.
  rewrite HC. f_equal.
  exact (c_eq_complete a b Pa0 Pb0 d _ HWa HPa Wa HPal HPad HWb HPb Wb HPbl HPbd Hdeg S F L Hfun HC).
Qed.

Print Assumptions c_eq_complete_true.

(* ------------------------------------------------------------------ *)
(* L4: semantic removability                                           *)
(* ------------------------------------------------------------------ *)
Lemma coord_meq kk (A B : list (list Q)) : Forall2 (Forall2 Qeq) A B -> veq (coord kk A) (coord kk B).
Proof.
  induction 1 as [|x y A B Hxy H IH]; cbn [coord map]; constructor; [|exact IH].
  apply (veq_nth x y Hxy kk).
Qed.

Lemma limits_eqb_sym a b : limits_eqb a b = true -> limits_eqb b a = true.
Proof.
  unfold limits_eqb. intro H. apply andb_true_iff in H. destruct H as [A B].
  apply Qeqb_eq in A. apply Qeqb_eq in B. apply andb_true_iff. split; apply Qeqb_eq; symmetry; assumption.
Qed.

Section Removable.
  Variables (c1 : curve) (P1 : list pt) (d : nat) (nodes : list Q) (knew : kv) (Q0 : list pt).
  Hypothesis HW1 : cW c1 = None.
  Hypothesis HP1 : cP c1 = Some P1.
  Hypothesis Wf : WF (kvec (ckv c1)) (cdeg c1).
  Hypothesis HP1l : length P1 = cnpts c1.
  Hypothesis HP1d : Forall (fun q : pt => length q = d) P1.
  (* the coarser vector: same degree, same interval *)
  Hypothesis Hrem : kremove (ckv c1) nodes = Ok knew.
  Hypothesis Hdeg : kdeg knew = cdeg c1.
  Hypothesis Hlim : limits_eqb (ckv c1) knew = true.
  (* SEMANTIC removability: some coefficient list over knew has the function of c1 *)
  Hypothesis HQl : length Q0 = knpts knew.
  Hypothesis HQd : Forall (fun q : pt => length q = d) Q0.
  Hypothesis Hfun : forall u, in_range (kvec (ckv c1)) (cdeg c1) u = true ->
    Forall2 Qeq (curve_spec (kvec knew) (kdeg knew) d Q0 u) (curve_spec (kvec (ckv c1)) (cdeg c1) d P1 u).

  Lemma rm_Wc : WF (kvec knew) (kdeg knew).
  Proof using Hrem. exact (kremove_wf _ _ _ Hrem). Qed.

  Lemma rm_counts y : count_q y (kvec (ckv c1)) = (count_q y (kvec knew) + count_q y nodes)%nat.
  Proof using Hrem. destruct (kremove_spec _ _ _ Hrem) as [R _]. exact (count_q_remove_all y _ _ _ R). Qed.

  (* the vector of c1 is, up to ==, the insertion of [nodes] into knew; M is the insertion matrix *)
  Lemma rm_insertion : exists kf2 M,
    kinsert knew nodes = Ok kf2 /\ knot_insert knew nodes = Ok M /\ kdeg kf2 = kdeg knew /\
    Forall2 Qeq (kvec (ckv c1)) (kvec kf2) /\ kdeg (ckv c1) = kdeg kf2.
  Proof using Wf Hrem Hdeg Hlim.
    apply (refinement_by_nodes knew (ckv c1) nodes rm_Wc Wf (eq_sym Hdeg) (limits_eqb_sym _ _ Hlim)).
    exact rm_counts.
  Qed.

  Lemma rm_pdim1 : pdim P1 = d.
  Proof using Wf HP1l HP1d. exact (P_pdim (ckv c1) (ckv c1) Wf eq_refl P1 d HP1l HP1d). Qed.

  Lemma rm_pdimQ : pdim Q0 = d.
  Proof using Hrem HQl HQd. exact (P_pdim knew knew rm_Wc eq_refl Q0 d HQl HQd). Qed.

  Section WithMatrix.
    Variables (kf2 : kv) (M : mat).
    Hypothesis Hk2 : kinsert knew nodes = Ok kf2.
    Hypothesis HM : knot_insert knew nodes = Ok M.
    Hypothesis Hd2 : kdeg kf2 = kdeg knew.
    Hypothesis Hv2 : Forall2 Qeq (kvec (ckv c1)) (kvec kf2).
    Hypothesis Hdd : kdeg (ckv c1) = kdeg kf2.

    Lemma rm_range u : in_range (kvec (ckv c1)) (cdeg c1) u = in_range (kvec knew) (kdeg knew) u.
    Proof using Hrem Hk2 HM Hd2 Hv2 Hdd.
      unfold cdeg. rewrite (in_range_knots_proper _ _ (kdeg (ckv c1)) u Hv2), Hdd.
      exact (kinsert_in_range knew nodes M kf2 rm_Wc HM Hk2 Hd2 u).
    Qed.

    Lemma rm_LM : length M = knpts (ckv c1).
    Proof using Hrem Hk2 HM Hd2 Hv2 Hdd.
      destruct (knot_insert_curve knew nodes M kf2 rm_Wc HM Hk2 Hd2) as [LM _].
      rewrite LM. unfold knpts. rewrite (Forall2_Qeq_length _ _ Hv2), Hdd. reflexivity.
    Qed.

    Lemma rm_HC : forall P u, length P = knpts knew -> in_range (kvec knew) (kdeg knew) u = true ->
      curve_spec1 (kvec (ckv c1)) (kdeg (ckv c1)) (mvec M P) u == curve_spec1 (kvec knew) (kdeg knew) P u.
    Proof using Hrem Hk2 HM Hd2 Hv2 Hdd.
      intros P u HP Hu.
      destruct (knot_insert_curve knew nodes M kf2 rm_Wc HM Hk2 Hd2) as [_ C].
      rewrite (curve_spec1_knots_proper _ _ _ _ _ Hv2), Hdd, Hd2. exact (C P u HP Hu).
    Qed.

    (* L4 (i): the control points of c1 ARE the insertion matrix applied to the coarse representation *)
    Theorem removable_points_are_inserted : Forall2 (Forall2 Qeq) P1 (mat_apply M Q0).
    Proof using All.
      apply (lin_indep_points (kvec (ckv c1)) (cdeg c1) d).
      - exact Wf.
      - exact HP1l.
      - rewrite mat_apply_length. exact rm_LM.
      - exact HP1d.
      - apply mat_apply_dims; [exact HQd | exact rm_pdimQ].
      - intros u Hu.
        assert (Hu' : in_range (kvec knew) (kdeg knew) u = true) by (rewrite <- rm_range; exact Hu).
        apply veq_sym. eapply veq_trans; [|exact (Hfun u Hu)].
        eapply veq_trans; [apply (curve_spec_knots_proper _ _ _ _ _ _ Hv2)|].
        unfold cdeg. rewrite Hdd, Hd2.
        exact (mat_apply_curve knew nodes M kf2 rm_Wc HM Hk2 Hd2 d u Hu' Q0 HQl HQd).
    Qed.

    Section Projection.
      Variables (T E : mat).
      Hypothesis HS : spline2spline (ckv c1) knew (knots_opt knew) = Ok (T, E).

      Lemma rm_coord1 kk : (kk < d)%nat -> veq (coord kk P1) (mvec M (coord kk Q0)).
      Proof using All.
        intro Hkk. eapply veq_trans; [exact (coord_meq kk _ _ removable_points_are_inserted)|].
        exact (coord_mat_apply_veq M Q0 d kk Hkk HQd rm_pdimQ).
      Qed.

      (* the projection returns the coarse representation *)
      Lemma rm_points : Forall2 (Forall2 Qeq) (mat_apply T P1) Q0.
      Proof using All.
        apply (points_eq_by_coords _ _ d).
        - rewrite mat_apply_length, (GU4_T_length (ckv c1) knew rm_Wc T E HS). symmetry. exact HQl.
        - apply mat_apply_dims; [exact HP1d | exact rm_pdim1].
        - exact HQd.
        - intros kk Hkk.
          eapply veq_trans; [exact (coord_mat_apply_veq T P1 d kk Hkk HP1d rm_pdim1)|].
          eapply veq_trans; [exact (mvec_proper T T (meq_refl T) _ _ (rm_coord1 kk Hkk))|].
          apply (GU4_vec (ckv c1) knew M Wf rm_Wc rm_LM rm_HC T E HS).
          rewrite coord_length. exact HQl.
      Qed.

      (* the error functional vanishes *)
      Lemma rm_fit_error : fit_error E P1 == 0.
      Proof using All.
        apply fit_error_zero. rewrite rm_pdim1. intros a b Ha Hb.
        change (coordq a P1) with (coord a P1). change (coordq b P1) with (coord b P1).
        rewrite (dot_proper _ _ (rm_coord1 a Ha) _ _
                   (mvec_proper E E (meq_refl E) _ _ (rm_coord1 b Hb))).
        apply (GU4_err (ckv c1) knew M Wf rm_Wc rm_LM rm_HC T E HS); rewrite coord_length; exact HQl.
      Qed.
    End Projection.

    (* L4 (ii): whatever knot_remove returns has the coarse representation as control points *)
    Theorem removable_knot_remove_returns tol c2 :
      c_knot_remove c1 nodes tol = Ok c2 ->
      exists P2, cP c2 = Some P2 /\ Forall2 (Forall2 Qeq) P2 Q0 /\ cW c2 = None /\ kv_eqb (ckv c2) knew = true.
    Proof using All.
      unfold c_knot_remove. rewrite Hrem. cbn [bind]. intro H.
      pose proof (c_update_kv _ _ _ _ _ H) as KV. revert H.
      unfold c_update. destruct (kv_eqb knew (ckv c1)) eqn:EK.
      - (* knew is the vector of c1 up to ==: nothing was removed *)
        intro H. inversion H; subst c2. exists P1. split; [exact HP1|]. split; [|split; [exact HW1|exact KV]].
        unfold kv_eqb in EK. apply andb_true_iff in EK. destruct EK as [EK _]. apply ql_eqb_Forall2 in EK.
        apply (lin_indep_points (kvec (ckv c1)) (cdeg c1) d); try assumption.
        + transitivity (knpts knew); [exact HQl|].
          unfold knpts, npts_of, cdeg. rewrite (Forall2_Qeq_length _ _ EK), Hdeg. reflexivity.
        + intros u Hu. apply veq_sym. eapply veq_trans; [|exact (Hfun u Hu)].
          rewrite Hdeg. apply curve_spec_knots_proper. apply veq_sym. exact EK.
      - rewrite HP1, Hlim. cbn [negb]. unfold c_fit_curve. rewrite HW1, HP1.
        destruct (spline2spline (ckv c1) knew (knots_opt knew)) as [[T E]|] eqn:HS; cbn [bind];
          [|intro H; discriminate].
        assert (G : forall c', Ok (mkcurve knew (Some (mat_apply T P1)) None) = Ok c' ->
                    exists P2, cP c' = Some P2 /\ Forall2 (Forall2 Qeq) P2 Q0 /\ cW c' = None).
        { intros c' H. inversion H; subst c'. exists (mat_apply T P1). cbn [cP cW].
          split; [reflexivity|]. split; [exact (rm_points T E HS)|reflexivity]. }
        destruct tol as [t|].
        + destruct (negb (Qeqb t 0) && Qltb t (fit_error E P1)); [intro H; discriminate|].
          intro H. destruct (G c2 H) as (P2 & A & B & C). exists P2. repeat split; assumption.
        + intro H. destruct (G c2 H) as (P2 & A & B & C). exists P2. repeat split; assumption.
    Qed.

    (* L4 (iii): knot_remove succeeds for every tolerance t >= 0 as soon as the certified inverses of the
       projection succeed: the error functional is exactly 0 *)
    Theorem removable_knot_remove_succeeds t T E : 0 <= t ->
      spline2spline (ckv c1) knew (knots_opt knew) = Ok (T, E) ->
      exists c2, c_knot_remove c1 nodes (Some t) = Ok c2.
    Proof using All.
      intros Ht HS. unfold c_knot_remove. rewrite Hrem. cbn [bind].
      unfold c_update. destruct (kv_eqb knew (ckv c1)); [eexists; reflexivity|].
      rewrite HP1, Hlim. cbn [negb]. unfold c_fit_curve. rewrite HW1, HP1, HS. cbn [bind].
      assert (G : Qltb t (fit_error E P1) = false)
        by (rewrite (rm_fit_error T E HS); apply Qltb_ge; exact Ht).
      rewrite G, andb_false_r. eexists. reflexivity.
    Qed.
  End WithMatrix.

  (* the statements without the auxiliary insertion data (which always exist: rm_insertion) *)
  Theorem removable_points : exists kf2 M,
    kinsert knew nodes = Ok kf2 /\ knot_insert knew nodes = Ok M /\
    Forall2 Qeq (kvec (ckv c1)) (kvec kf2) /\ kdeg kf2 = kdeg knew /\
    Forall2 (Forall2 Qeq) P1 (mat_apply M Q0).
  Proof using All.
    destruct rm_insertion as (kf2 & M & Hk2 & HM & Hd2 & Hv2 & Hdd).
    exists kf2, M. repeat (split; [assumption|]).
    exact (removable_points_are_inserted kf2 M Hk2 HM Hd2 Hv2 Hdd).
  Qed.

  Theorem removable_returns tol c2 :
    c_knot_remove c1 nodes tol = Ok c2 ->
    exists P2, cP c2 = Some P2 /\ Forall2 (Forall2 Qeq) P2 Q0 /\ cW c2 = None /\ kv_eqb (ckv c2) knew = true.
  Proof using All.
    destruct rm_insertion as (kf2 & M & Hk2 & HM & Hd2 & Hv2 & Hdd).
    exact (removable_knot_remove_returns kf2 M Hk2 HM Hd2 Hv2 Hdd tol c2).
  Qed.

  Theorem removable_succeeds t T E : 0 <= t ->
    spline2spline (ckv c1) knew (knots_opt knew) = Ok (T, E) ->
    exists c2, c_knot_remove c1 nodes (Some t) = Ok c2.
  Proof using All.
    destruct rm_insertion as (kf2 & M & Hk2 & HM & Hd2 & Hv2 & Hdd).
    exact (removable_knot_remove_succeeds kf2 M Hk2 HM Hd2 Hv2 Hdd t T E).
  Qed.
End Removable.

Print Assumptions removable_points.
Print Assumptions removable_returns.
Print Assumptions removable_succeeds.

(* ------------------------------------------------------------------ *)
(* Non-vacuity: the quadratic Bezier curve eqx_a of EqInvariance.v and  *)
(* its refinement eqx_b by the knot 1/2                                 *)
(* ------------------------------------------------------------------ *)
Definition lx_Pa : list pt := [[0; 0]; [1; 2]; [3; 1]].
Definition lx_Pb : list pt := match cP eqx_b with Some P => P | None => [] end.

Example lx_facts :
  cP eqx_a = Some lx_Pa /\ cP eqx_b = Some lx_Pb /\ cW eqx_a = None /\ cW eqx_b = None /\
  WF (kvec (ckv eqx_a)) (cdeg eqx_a) /\ WF (kvec (ckv eqx_b)) (cdeg eqx_b) /\
  cdeg eqx_b = cdeg eqx_a /\ length lx_Pa = cnpts eqx_a /\ length lx_Pb = cnpts eqx_b /\
  kdeg (ckv eqx_b) = cdeg eqx_a.
Proof. vm_compute. repeat split; reflexivity. Qed.

Example lx_dims : Forall (fun q : pt => length q = 2%nat) lx_Pa /\ Forall (fun q : pt => length q = 2%nat) lx_Pb.
Proof. split; vm_compute; repeat constructor. Qed.

(* the two curves are the same function (knot insertion preserves the curve) *)
Example lx_same_function u : in_range (kvec (ckv eqx_a)) (cdeg eqx_a) u = true ->
  Forall2 Qeq (curve_spec (kvec (ckv eqx_a)) (cdeg eqx_a) 2 lx_Pa u)
              (curve_spec (kvec (ckv eqx_b)) (cdeg eqx_b) 2 lx_Pb u).
Proof.
  intro Hu. destruct lx_facts as (PA & PB & WA & WB & Wa & Wb & Hd & La & Lb & Hd').
  destruct (c_knot_insert_spline eqx_a [1 # 2] eqx_b lx_Pa 2 u (proj1 eqx_insert) Wa Hd' PA WA La (proj1 lx_dims) Hu)
    as (P' & HP' & _ & _ & H).
  rewrite PB in HP'. inversion HP'; subst P'. rewrite Hd. apply veq_sym. exact H.
Qed.

(* L3 on the example *)
Example lx_L3 r : c_eq eqx_a eqx_b = Ok r -> r = true.
Proof.
  destruct lx_facts as (PA & PB & WA & WB & Wa & Wb & Hd & La & Lb & _). destruct lx_dims as [Da Db].
  apply (c_eq_complete eqx_a eqx_b lx_Pa lx_Pb 2 r WA PA Wa La Da WB PB Wb Lb Db Hd).
  - apply UnionProofs.separated_b_sound. vm_compute. reflexivity.
  - apply Qeqb_eq. vm_compute. reflexivity.
  - apply Qeqb_eq. vm_compute. reflexivity.
  - exact lx_same_function.
Qed.

(* L4 on the example: the knot 1/2 of eqx_b is removable, the coarse representation is lx_Pa *)
Definition lx_knew : kv := mkkv [0; 0; 0; 1; 1; 1] 2.

Example lx_L4_hyps : kremove (ckv eqx_b) [1 # 2] = Ok lx_knew /\ kdeg lx_knew = cdeg eqx_b /\
  limits_eqb (ckv eqx_b) lx_knew = true /\ length lx_Pa = knpts lx_knew.
Proof. vm_compute. repeat split; reflexivity. Qed.

Example lx_L4_fun u : in_range (kvec (ckv eqx_b)) (cdeg eqx_b) u = true ->
  Forall2 Qeq (curve_spec (kvec lx_knew) (kdeg lx_knew) 2 lx_Pa u) (curve_spec (kvec (ckv eqx_b)) (cdeg eqx_b) 2 lx_Pb u).
Proof.
  intro Hu. apply (lx_same_function u).
  destruct lx_facts as (PA & PB & WA & WB & Wa & Wb & Hd & La & Lb & Hd').
  destruct (ins_data eqx_a eqx_b lx_Pa [1 # 2] WA PA (proj1 eqx_insert)) as (M & Hk & HM & _).
  pose proof (kinsert_in_range (ckv eqx_a) [1 # 2] M (ckv eqx_b) Wa HM Hk Hd' u) as R.
  unfold cdeg in *. rewrite <- R. exact Hu.
Qed.

Example lx_L4 tol c2 : c_knot_remove eqx_b [1 # 2] tol = Ok c2 ->
  exists P2, cP c2 = Some P2 /\ Forall2 (Forall2 Qeq) P2 lx_Pa /\ cW c2 = None /\ kv_eqb (ckv c2) lx_knew = true.
Proof.
  destruct lx_facts as (PA & PB & WA & WB & Wa & Wb & Hd & La & Lb & _). destruct lx_dims as [Da Db].
  destruct lx_L4_hyps as (Hrem & Hdeg & Hlim & HQl).
  exact (removable_returns eqx_b lx_Pb 2 [1 # 2] lx_knew lx_Pa WB PB Wb Lb Db Hrem Hdeg Hlim HQl Da lx_L4_fun tol c2).
Qed.

Example lx_L4_points : exists kf2 M,
  kinsert lx_knew [1 # 2] = Ok kf2 /\ knot_insert lx_knew [1 # 2] = Ok M /\
  Forall2 Qeq (kvec (ckv eqx_b)) (kvec kf2) /\ kdeg kf2 = kdeg lx_knew /\
  Forall2 (Forall2 Qeq) lx_Pb (mat_apply M lx_Pa).
Proof.
  destruct lx_facts as (PA & PB & WA & WB & Wa & Wb & Hd & La & Lb & _). destruct lx_dims as [Da Db].
  destruct lx_L4_hyps as (Hrem & Hdeg & Hlim & HQl).
  exact (removable_points eqx_b lx_Pb 2 [1 # 2] lx_knew lx_Pa WB PB Wb Lb Db Hrem Hdeg Hlim HQl Da lx_L4_fun).
Qed.

(* the model agrees on the example *)
Example lx_compute : c_eq eqx_a eqx_b = Ok true /\
  match c_knot_remove eqx_b [1 # 2] (Some tol_update) with
  | Ok c2 => match cP c2 with Some P2 => ptl_eqb P2 lx_Pa | None => false end
  | Err _ => false
  end = true.
Proof. vm_compute. split; reflexivity. Qed.
