(* C08: curve arithmetic is pointwise.
   A1  linearity of the specification (scalar control values and the Qred-wrapped vector forms),
   A2  the model operations c_neg, c_mul_scalar, c_div_scalar, c_add_scalar on polynomial
       and on rational curves,
   A3  quotient form (c_div, c_rdiv): algebraic core and the model-level statements,
   A4  sum of curves after a change of basis (abstract matrices) and c_add / c_sub. *)
From Coq Require Import QArith List Lia Lqa Arith Bool Setoid Morphisms.
From NurbsV Require Import Base.QList Base.Res Spec.BSpline Spec.KnotSpec Model.KV Model.Basis
  Model.CurveM Model.Ops Model.CurveOps Model.CurveLS Model.MathOps
  Proofs.Local Proofs.Table Proofs.BasisTheory Proofs.KVProofs Proofs.EvalProofs
  Proofs.InsertSeq Proofs.InsertList Proofs.InsertCompose Proofs.InsertCurve.
Import ListNotations.
Open Scope Q_scope.

(* ------------------------------------------------------------------ *)
(* 0. sums against the basis, as a functional of the coefficient map   *)
(* ------------------------------------------------------------------ *)
Definition csum (U : list Q) (p : nat) (u : Q) (f : nat -> Q) : Q :=
  qsum (map (fun i => Nspec U p p i u * f i) (seq 0 (npts_of U p))).

Lemma spec1_csum U p P u : curve_spec1 U p P u = csum U p u (fun i => nth i P 0).
Proof. reflexivity. Qed.

Lemma csum_ext U p u f g :
  (forall i, (i < npts_of U p)%nat -> f i == g i) -> csum U p u f == csum U p u g.
Proof.
  intro H. unfold csum. apply qsum_map_ext. intros i Hi. apply in_seq in Hi.
  rewrite (H i) by lia. reflexivity.
Qed.

Lemma csum_scale U p u s f : csum U p u (fun i => s * f i) == s * csum U p u f.
Proof.
  unfold csum. rewrite <- qsum_map_scale. apply qsum_map_ext. intros i _. ring.
Qed.

Lemma csum_add U p u f g : csum U p u (fun i => f i + g i) == csum U p u f + csum U p u g.
Proof.
  unfold csum. rewrite <- qsum_map_add. apply qsum_map_ext. intros i _. ring.
Qed.

Lemma csum_const U p u s : WF U p -> in_range U p u = true -> csum U p u (fun _ => s) == s.
Proof.
  intros W Hr. unfold csum.
  rewrite (qsum_map_ext _ (fun i => s * Nspec U p p i u)) by (intros i _; ring).
  rewrite qsum_map_scale, (Nspec_unity U p W u Hr). ring.
Qed.

Lemma curve_spec1_pw U p P f u :
  (forall i, (i < npts_of U p)%nat -> nth i P 0 == f i) -> curve_spec1 U p P u == csum U p u f.
Proof. intro H. rewrite spec1_csum. apply csum_ext. exact H. Qed.

(* ------------------------------------------------------------------ *)
(* A1. linearity of the specification, scalar control values           *)
(* ------------------------------------------------------------------ *)
Lemma nth_map_lin (f : Q -> Q) (P : list Q) i : f 0 == 0 -> nth i (map f P) 0 == f (nth i P 0).
Proof.
  intro H0. destruct (le_lt_dec (length P) i) as [L|L].
  - rewrite !nth_overflow by (rewrite ?map_length; exact L). rewrite H0. reflexivity.
  - rewrite (nth_map_in f 0 0) by exact L. reflexivity.
Qed.

Theorem spec1_scale U p s (P : list Q) u :
  curve_spec1 U p (map (fun x => s * x) P) u == s * curve_spec1 U p P u.
Proof.
  rewrite (curve_spec1_pw U p _ (fun i => s * nth i P 0)).
  - rewrite csum_scale. reflexivity.
  - intros i _. apply (nth_map_lin (fun x => s * x)). ring.
Qed.

Theorem spec1_opp U p (P : list Q) u :
  curve_spec1 U p (map Qopp P) u == - curve_spec1 U p P u.
Proof.
  rewrite (curve_spec1_pw U p _ (fun i => (-1) * nth i P 0)).
  - rewrite csum_scale. rewrite <- spec1_csum. ring.
  - intros i _. rewrite (nth_map_lin Qopp) by ring. ring.
Qed.

Lemma nth_map2_eqlen (f : Q -> Q -> Q) (P R : list Q) i :
  length P = length R -> f 0 0 == 0 -> nth i (map2 f P R) 0 == f (nth i P 0) (nth i R 0).
Proof.
  intros HL H0. destruct (le_lt_dec (length P) i) as [L|L].
  - rewrite !nth_overflow by (rewrite ?map2_length; lia). rewrite H0. reflexivity.
  - rewrite (nth_map2 f 0 0 0) by lia. reflexivity.
Qed.

Theorem spec1_add U p (P R : list Q) u : length P = length R ->
  curve_spec1 U p (map2 Qplus P R) u == curve_spec1 U p P u + curve_spec1 U p R u.
Proof.
  intro HL. rewrite (curve_spec1_pw U p _ (fun i => nth i P 0 + nth i R 0)).
  - rewrite csum_add. reflexivity.
  - intros i _. apply (nth_map2_eqlen Qplus); [exact HL | ring].
Qed.

Theorem spec1_sub U p (P R : list Q) u : length P = length R ->
  curve_spec1 U p (map2 Qminus P R) u == curve_spec1 U p P u - curve_spec1 U p R u.
Proof.
  intro HL. rewrite (curve_spec1_pw U p _ (fun i => nth i P 0 + (-1) * nth i R 0)).
  - rewrite csum_add, csum_scale. rewrite <- !spec1_csum. ring.
  - intros i _. rewrite (nth_map2_eqlen Qminus) by (try exact HL; ring). ring.
Qed.

Theorem spec1_shift U p s (P : list Q) u :
  WF U p -> in_range U p u = true -> length P = npts_of U p ->
  curve_spec1 U p (map (fun x => x + s) P) u == curve_spec1 U p P u + s.
Proof.
  intros W Hr HL. rewrite (curve_spec1_pw U p _ (fun i => nth i P 0 + s)).
  - rewrite csum_add, (csum_const U p u s W Hr). reflexivity.
  - intros i Hi. rewrite (nth_map_in (fun x => x + s) 0 0) by lia. reflexivity.
Qed.

(* general affine form: the one lemma behind all the vector statements *)
Theorem spec1_affine U p a b c (P R X : list Q) u :
  WF U p -> in_range U p u = true ->
  (forall i, (i < npts_of U p)%nat -> nth i X 0 == a * nth i P 0 + b * nth i R 0 + c) ->
  curve_spec1 U p X u == a * curve_spec1 U p P u + b * curve_spec1 U p R u + c.
Proof.
  intros W Hr H. rewrite (curve_spec1_pw U p X _ u H).
  rewrite !csum_add, !csum_scale, (csum_const U p u c W Hr). reflexivity.
Qed.

(* without the constant no hypothesis on U, u is needed *)
Theorem spec1_lin2 U p a b (P R X : list Q) u :
  (forall i, (i < npts_of U p)%nat -> nth i X 0 == a * nth i P 0 + b * nth i R 0) ->
  curve_spec1 U p X u == a * curve_spec1 U p P u + b * curve_spec1 U p R u.
Proof.
  intros H. rewrite (curve_spec1_pw U p X _ u H).
  rewrite !csum_add, !csum_scale. reflexivity.
Qed.

(* ------------------------------------------------------------------ *)
(* A1 (vector forms). coordinates of the Qred-wrapped point operations *)
(* ------------------------------------------------------------------ *)
Notation dims d P := (Forall (fun pt : list Q => length pt = d) P).

Lemma curve_spec_length U p d P u : length (curve_spec U p d P u) = d.
Proof. unfold curve_spec. rewrite map_length, seq_length. reflexivity. Qed.

Lemma curve_spec_nth U p d P u kk : (kk < d)%nat ->
  nth kk (curve_spec U p d P u) 0 = curve_spec1 U p (coord kk P) u.
Proof. intro H. unfold curve_spec. apply (nth_map_seq (fun k => curve_spec1 U p (coord k P) u)). exact H. Qed.

Lemma rational_spec_length U p d Wt P u : length (rational_spec U p d Wt P u) = d.
Proof. unfold rational_spec. rewrite map_length, seq_length. reflexivity. Qed.

Lemma rational_spec_nth U p d Wt P u kk : (kk < d)%nat ->
  nth kk (rational_spec U p d Wt P u) 0 = rational_spec1 U p Wt (coord kk P) u.
Proof. intro H. unfold rational_spec. apply (nth_map_seq (fun k => rational_spec1 U p Wt (coord k P) u)). exact H. Qed.

Lemma nth_nil_Q kk : nth kk (@nil Q) 0 = 0.
Proof. destruct kk; reflexivity. Qed.

Lemma nth_vscale s (a : list Q) kk : nth kk (vscale s a) 0 == s * nth kk a 0.
Proof.
  unfold vscale. rewrite (nth_map_lin (fun x => Qred (s * x))).
  - apply Qred_correct.
  - rewrite Qred_correct. ring.
Qed.

Lemma nth_vadd (a b : list Q) kk : length a = length b ->
  nth kk (vadd a b) 0 == nth kk a 0 + nth kk b 0.
Proof.
  intro HL. unfold vadd. rewrite (nth_map2_eqlen (fun x y => Qred (x + y))).
  - apply Qred_correct.
  - exact HL.
  - rewrite Qred_correct. ring.
Qed.

Lemma dims_nth d (P : list (list Q)) i : dims d P -> (i < length P)%nat -> length (nth i P []) = d.
Proof. intros H Hi. exact (proj1 (Forall_nth _ P) H i [] Hi). Qed.

Lemma coord_map_vscale s kk (P : list (list Q)) i :
  nth i (coord kk (map (vscale s) P)) 0 == s * nth i (coord kk P) 0.
Proof.
  rewrite !coord_nth. destruct (le_lt_dec (length P) i) as [L|L].
  - rewrite (nth_overflow (map (vscale s) P) []) by (rewrite map_length; exact L).
    rewrite (nth_overflow P []) by exact L. rewrite nth_nil_Q. ring.
  - rewrite (nth_map_in (vscale s) [] []) by exact L. apply nth_vscale.
Qed.

Lemma coord_map_vadd_l d v kk (P : list (list Q)) i :
  length v = d -> dims d P -> (i < length P)%nat ->
  nth i (coord kk (map (fun q => vadd v q) P)) 0 == nth i (coord kk P) 0 + nth kk v 0.
Proof.
  intros Hv HP Hi. rewrite !coord_nth.
  rewrite (nth_map_in (fun q => vadd v q) [] []) by exact Hi. cbv beta.
  rewrite (nth_vadd v (nth i P []) kk) by (rewrite (dims_nth d P i HP Hi); exact Hv). ring.
Qed.

Lemma coord_map2_vadd d kk (P R : list (list Q)) i :
  length P = length R -> dims d P -> dims d R ->
  nth i (coord kk (map2 vadd P R)) 0 == nth i (coord kk P) 0 + nth i (coord kk R) 0.
Proof.
  intros HL HP HR. rewrite !coord_nth. destruct (le_lt_dec (length P) i) as [L|L].
  - rewrite (nth_overflow (map2 vadd P R) []) by (rewrite map2_length; unfold pt in *; lia).
    rewrite (nth_overflow P []), (nth_overflow R []) by lia. rewrite nth_nil_Q. ring.
  - rewrite (nth_map2 vadd [] [] []) by (unfold pt in *; lia).
    apply nth_vadd. rewrite (dims_nth d P i HP L), (dims_nth d R i HR) by lia. reflexivity.
Qed.

Lemma dims_map_vscale d s (P : list (list Q)) : dims d P -> dims d (map (vscale s) P).
Proof.
  intro H. induction H as [|a P Ha H IH]; cbn [map]; constructor; [|exact IH].
  unfold vscale. rewrite map_length. exact Ha.
Qed.

Lemma dims_map_vadd_l d v (P : list (list Q)) : length v = d -> dims d P -> dims d (map (fun q => vadd v q) P).
Proof.
  intros Hv H. induction H as [|a P Ha H IH]; cbn [map]; constructor; [|exact IH].
  unfold vadd. rewrite map2_length, Hv, Ha. apply Nat.min_id.
Qed.

Lemma dims_map2_vadd d : forall (P R : list (list Q)), dims d P -> dims d R -> dims d (map2 vadd P R).
Proof.
  induction P as [|a P IH]; intros [|b R] HP HR; cbn [map2]; try constructor.
  - inversion HP as [|? ? A HP']; inversion HR as [|? ? B HR']. unfold vadd.
    rewrite map2_length, A, B. apply Nat.min_id.
  - inversion HP as [|? ? A HP']; inversion HR as [|? ? B HR']. apply IH; assumption.
Qed.

(* vector-valued linearity, Forall2 Qeq on curve_spec *)
Theorem spec_vscale U p d s (P : list (list Q)) u :
  Forall2 Qeq (curve_spec U p d (map (vscale s) P) u) (map (Qmult s) (curve_spec U p d P u)).
Proof.
  apply Forall2_Qeq_nth.
  - rewrite map_length, !curve_spec_length. reflexivity.
  - rewrite curve_spec_length. intros kk Hkk.
    rewrite (nth_map_in (Qmult s) 0 0) by (rewrite curve_spec_length; exact Hkk).
    rewrite !curve_spec_nth by exact Hkk.
    rewrite (spec1_lin2 U p s 0 (coord kk P) [] _ u).
    + ring.
    + intros i _. rewrite coord_map_vscale, nth_nil_Q. ring.
Qed.

Theorem spec_vadd U p d (P R : list (list Q)) u :
  length P = length R -> dims d P -> dims d R ->
  Forall2 Qeq (curve_spec U p d (map2 vadd P R) u)
              (map2 Qplus (curve_spec U p d P u) (curve_spec U p d R u)).
Proof.
  intros HL HP HR. apply Forall2_Qeq_nth.
  - rewrite map2_length, !curve_spec_length, Nat.min_id. reflexivity.
  - rewrite curve_spec_length. intros kk Hkk.
    rewrite (nth_map2 Qplus 0 0 0) by (rewrite curve_spec_length; exact Hkk).
    rewrite !curve_spec_nth by exact Hkk.
    rewrite (spec1_lin2 U p 1 1 (coord kk P) (coord kk R) _ u).
    + ring.
    + intros i _. rewrite (coord_map2_vadd d kk P R i HL HP HR). ring.
Qed.

Theorem spec_vadd_const U p d v (P : list (list Q)) u :
  WF U p -> in_range U p u = true -> length P = npts_of U p ->
  length v = d -> dims d P ->
  Forall2 Qeq (curve_spec U p d (map (fun q => vadd v q) P) u)
              (map2 Qplus (curve_spec U p d P u) v).
Proof.
  intros W Hr HL Hv HP. apply Forall2_Qeq_nth.
  - rewrite map2_length, !curve_spec_length, Hv, Nat.min_id. reflexivity.
  - rewrite curve_spec_length. intros kk Hkk.
    rewrite (nth_map2 Qplus 0 0 0) by (rewrite ?curve_spec_length; lia).
    rewrite !curve_spec_nth by exact Hkk.
    rewrite (spec1_affine U p 1 0 (nth kk v 0) (coord kk P) [] _ u W Hr).
    + ring.
    + intros i Hi. rewrite (coord_map_vadd_l d v kk P i Hv HP) by lia. rewrite nth_nil_Q. ring.
Qed.

(* the same with any pointwise description g of the factor (Qopp, division by s, ...) *)
Theorem spec_vscale_gen U p d s (g : Q -> Q) (P : list (list Q)) u :
  (forall x, g x == s * x) ->
  Forall2 Qeq (curve_spec U p d (map (vscale s) P) u) (map g (curve_spec U p d P u)).
Proof.
  intro Hg. apply Forall2_Qeq_nth.
  - rewrite map_length, !curve_spec_length. reflexivity.
  - rewrite curve_spec_length. intros kk Hkk.
    rewrite (nth_map_in g 0 0) by (rewrite curve_spec_length; exact Hkk).
    rewrite !curve_spec_nth by exact Hkk. rewrite Hg.
    rewrite (spec1_lin2 U p s 0 (coord kk P) [] _ u).
    + ring.
    + intros i _. rewrite coord_map_vscale, nth_nil_Q. ring.
Qed.

(* ------------------------------------------------------------------ *)
(* A1 (rational forms). the weights are unchanged                      *)
(* ------------------------------------------------------------------ *)
Lemma nth_map2_mult : forall (Wt X : list Q) i,
  nth i (map2 (fun w x => w * x) Wt X) 0 == nth i Wt 0 * nth i X 0.
Proof.
  induction Wt as [|w Wt IH]; intros [|x X] [|i]; cbn [map2 nth]; try ring.
  - apply IH.
Qed.

Lemma rat1_num U p (Wt X : list Q) u :
  curve_spec1 U p (map2 (fun w x => w * x) Wt X) u == csum U p u (fun i => nth i Wt 0 * nth i X 0).
Proof. apply curve_spec1_pw. intros i _. apply nth_map2_mult. Qed.

Theorem rat1_scale U p (Wt P X : list Q) s u :
  (forall i, (i < npts_of U p)%nat -> nth i X 0 == s * nth i P 0) ->
  rational_spec1 U p Wt X u == s * rational_spec1 U p Wt P u.
Proof.
  intro H. unfold rational_spec1. rewrite !rat1_num.
  rewrite (csum_ext U p u _ (fun i => s * (nth i Wt 0 * nth i P 0))).
  - rewrite csum_scale. unfold Qdiv. ring.
  - intros i Hi. rewrite (H i Hi). ring.
Qed.

Theorem rat1_affine U p (Wt P X : list Q) a c u :
  ~ weight_spec U p Wt u == 0 ->
  (forall i, (i < npts_of U p)%nat -> nth i X 0 == a * nth i P 0 + c) ->
  rational_spec1 U p Wt X u == a * rational_spec1 U p Wt P u + c.
Proof.
  intros Hw H. unfold rational_spec1. rewrite !rat1_num.
  rewrite (csum_ext U p u _ (fun i => a * (nth i Wt 0 * nth i P 0) + c * nth i Wt 0)).
  - rewrite csum_add, !csum_scale.
    change (csum U p u (fun i => nth i Wt 0)) with (weight_spec U p Wt u).
    field. exact Hw.
  - intros i Hi. rewrite (H i Hi). ring.
Qed.

Theorem rat1_scale_map U p (Wt P : list Q) s u :
  rational_spec1 U p Wt (map (fun x => s * x) P) u == s * rational_spec1 U p Wt P u.
Proof. apply rat1_scale. intros i _. apply (nth_map_lin (fun x => s * x)). ring. Qed.

Theorem rat1_shift_map U p (Wt P : list Q) s u :
  WF U p -> in_range U p u = true -> length P = npts_of U p ->
  length Wt = npts_of U p -> Forall (fun w => 0 < w) Wt ->
  rational_spec1 U p Wt (map (fun x => x + s) P) u == rational_spec1 U p Wt P u + s.
Proof.
  intros W Hr HL HLw Hpos.
  pose proof (weight_spec_pos U p Wt u W Hr HLw Hpos) as Hp.
  rewrite (rat1_affine U p Wt P _ 1 s u).
  - ring.
  - lra.
  - intros i Hi. rewrite (nth_map_in (fun x => x + s) 0 0) by lia. ring.
Qed.

Theorem rat_vscale_gen U p d s (g : Q -> Q) Wt (P : list (list Q)) u :
  (forall x, g x == s * x) ->
  Forall2 Qeq (rational_spec U p d Wt (map (vscale s) P) u) (map g (rational_spec U p d Wt P u)).
Proof.
  intro Hg. apply Forall2_Qeq_nth.
  - rewrite map_length, !rational_spec_length. reflexivity.
  - rewrite rational_spec_length. intros kk Hkk.
    rewrite (nth_map_in g 0 0) by (rewrite rational_spec_length; exact Hkk).
    rewrite !rational_spec_nth by exact Hkk. rewrite Hg.
    apply rat1_scale. intros i _. apply coord_map_vscale.
Qed.

Theorem rat_vscale U p d s Wt (P : list (list Q)) u :
  Forall2 Qeq (rational_spec U p d Wt (map (vscale s) P) u) (map (Qmult s) (rational_spec U p d Wt P u)).
Proof. apply rat_vscale_gen. intro x. reflexivity. Qed.

Theorem rat_vadd_const_nz U p d v Wt (P : list (list Q)) u :
  ~ weight_spec U p Wt u == 0 -> length P = npts_of U p ->
  length v = d -> dims d P ->
  Forall2 Qeq (rational_spec U p d Wt (map (fun q => vadd v q) P) u)
              (map2 Qplus (rational_spec U p d Wt P u) v).
Proof.
  intros Hw HL Hv HP. apply Forall2_Qeq_nth.
  - rewrite map2_length, !rational_spec_length, Hv, Nat.min_id. reflexivity.
  - rewrite rational_spec_length. intros kk Hkk.
    rewrite (nth_map2 Qplus 0 0 0) by (rewrite ?rational_spec_length; lia).
    rewrite !rational_spec_nth by exact Hkk.
    rewrite (rat1_affine U p Wt (coord kk P) _ 1 (nth kk v 0) u Hw).
    + ring.
    + intros i Hi. rewrite (coord_map_vadd_l d v kk P i Hv HP) by lia. ring.
Qed.

Theorem rat_vadd_const U p d v Wt (P : list (list Q)) u :
  WF U p -> in_range U p u = true -> length P = npts_of U p ->
  length Wt = npts_of U p -> Forall (fun w => 0 < w) Wt ->
  length v = d -> dims d P ->
  Forall2 Qeq (rational_spec U p d Wt (map (fun q => vadd v q) P) u)
              (map2 Qplus (rational_spec U p d Wt P u) v).
Proof.
  intros W Hr HL HLw Hpos. apply rat_vadd_const_nz; [|exact HL].
  pose proof (weight_spec_pos U p Wt u W Hr HLw Hpos). lra.
Qed.

(* the rational basis sums to one: the fact behind the shift (sum_i R_i = 1) *)
Theorem Rspec_unity U p Wt u :
  ~ weight_spec U p Wt u == 0 ->
  qsum (map (fun i => Rspec U p Wt p i u) (seq 0 (npts_of U p))) == 1.
Proof.
  intro Hw. unfold Rspec.
  set (D := qsum (map (fun k => nth k Wt 0 * Nspec U p p k u) (seq 0 (npts_of U p)))).
  assert (HD : D == weight_spec U p Wt u).
  { unfold D, weight_spec, curve_spec1. apply qsum_map_ext. intros i _. ring. }
  rewrite (qsum_map_ext _ (fun i => / D * (Nspec U p p i u * nth i Wt 0)))
    by (intros i _; unfold Qdiv; ring).
  rewrite qsum_map_scale.
  change (qsum (map (fun i => Nspec U p p i u * nth i Wt 0) (seq 0 (npts_of U p))))
    with (weight_spec U p Wt u).
  rewrite HD. field. exact Hw.
Qed.

(* ------------------------------------------------------------------ *)
(* A2. the model operations                                            *)
(* ------------------------------------------------------------------ *)
Lemma map_points_inv f c c' : map_points f c = Ok c' ->
  exists P, cP c = Some P /\ c' = mkcurve (ckv c) (Some (map f P)) (cW c).
Proof.
  unfold map_points. destruct (cP c) as [P|]; intro H; [|discriminate].
  inversion H. exists P. split; reflexivity.
Qed.

Lemma map_points_ok f c P : cP c = Some P ->
  map_points f c = Ok (mkcurve (ckv c) (Some (map f P)) (cW c)).
Proof. intro H. unfold map_points. rewrite H. reflexivity. Qed.

Lemma map_points_none f c : cP c = None -> map_points f c = Err ValueError.
Proof. intro H. unfold map_points. rewrite H. reflexivity. Qed.

(* shape of the results: same knot vector, same weights, same number and dimension of points *)
Theorem c_neg_shape c c' P : c_neg c = Ok c' -> cP c = Some P ->
  c' = mkcurve (ckv c) (Some (map (vscale (-1)) P)) (cW c).
Proof.
  intros H HP. destruct (map_points_inv _ _ _ H) as (P0 & E & ->). rewrite HP in E.
  inversion E. reflexivity.
Qed.

Theorem c_mul_scalar_shape c s c' P : c_mul_scalar c s = Ok c' -> cP c = Some P ->
  c' = mkcurve (ckv c) (Some (map (vscale s) P)) (cW c).
Proof.
  intros H HP. destruct (map_points_inv _ _ _ H) as (P0 & E & ->). rewrite HP in E.
  inversion E. reflexivity.
Qed.

Theorem c_div_scalar_zero c s : s == 0 -> c_div_scalar c s = Err ZeroDivisionError.
Proof. intro H. unfold c_div_scalar. apply Qeqb_eq in H. rewrite H. reflexivity. Qed.

Theorem c_div_scalar_shape c s c' P : c_div_scalar c s = Ok c' -> cP c = Some P ->
  ~ s == 0 /\ c' = mkcurve (ckv c) (Some (map (vscale (/ s)) P)) (cW c).
Proof.
  unfold c_div_scalar. intros H HP. destruct (Qeqb_spec s 0) as [E0|N0]; [discriminate|].
  split; [exact N0|].
  destruct (map_points_inv _ _ _ H) as (P0 & E & ->). rewrite HP in E.
  inversion E. reflexivity.
Qed.

Theorem c_add_scalar_shape c v c' P : c_add_scalar c v = Ok c' -> cP c = Some P ->
  c' = mkcurve (ckv c) (Some (map (fun q => vadd v q) P)) (cW c).
Proof.
  intros H HP. destruct (map_points_inv _ _ _ H) as (P0 & E & ->). rewrite HP in E.
  inversion E. reflexivity.
Qed.

(* totality: with control points, the scalar forms always answer *)
Theorem c_neg_total c P : cP c = Some P -> exists c', c_neg c = Ok c'.
Proof. intro H. eexists. apply map_points_ok. exact H. Qed.
Theorem c_mul_scalar_total c s P : cP c = Some P -> exists c', c_mul_scalar c s = Ok c'.
Proof. intro H. eexists. apply map_points_ok. exact H. Qed.
Theorem c_add_scalar_total c v P : cP c = Some P -> exists c', c_add_scalar c v = Ok c'.
Proof. intro H. eexists. apply map_points_ok. exact H. Qed.
Theorem c_div_scalar_total c s P : cP c = Some P -> ~ s == 0 -> exists c', c_div_scalar c s = Ok c'.
Proof.
  intros H Hs. unfold c_div_scalar. apply Qeqb_neq in Hs. rewrite Hs. eexists. apply map_points_ok. exact H.
Qed.

Section ModelOps.
Variable c : curve.
Variable P : list (list Q).
Variable d : nat.
Hypothesis HcP : cP c = Some P.

(* --- polynomial curves --- *)
Theorem c_neg_spline c' u : c_neg c = Ok c' -> cW c = None ->
  exists P', cP c' = Some P' /\ cW c' = None /\ ckv c' = ckv c /\
    length P' = length P /\ (dims d P -> dims d P') /\
    Forall2 Qeq (curve_spec (kvec (ckv c')) (cdeg c') d P' u)
                (map Qopp (curve_spec (kvec (ckv c)) (cdeg c) d P u)).
Proof.
  intros H HW. rewrite (c_neg_shape c c' P H HcP). cbn [cP cW ckv]. unfold cdeg. cbn [ckv].
  eexists. split; [reflexivity|]. split; [exact HW|]. split; [reflexivity|].
  split; [apply map_length|]. split; [apply dims_map_vscale|].
  apply spec_vscale_gen. intro x. ring.
Qed.

Theorem c_mul_scalar_spline s c' u : c_mul_scalar c s = Ok c' -> cW c = None ->
  exists P', cP c' = Some P' /\ cW c' = None /\ ckv c' = ckv c /\
    length P' = length P /\ (dims d P -> dims d P') /\
    Forall2 Qeq (curve_spec (kvec (ckv c')) (cdeg c') d P' u)
                (map (Qmult s) (curve_spec (kvec (ckv c)) (cdeg c) d P u)).
Proof.
  intros H HW. rewrite (c_mul_scalar_shape c s c' P H HcP). cbn [cP cW ckv]. unfold cdeg. cbn [ckv].
  eexists. split; [reflexivity|]. split; [exact HW|]. split; [reflexivity|].
  split; [apply map_length|]. split; [apply dims_map_vscale|].
  apply spec_vscale.
Qed.

Theorem c_div_scalar_spline s c' u : c_div_scalar c s = Ok c' -> cW c = None ->
  ~ s == 0 /\
  exists P', cP c' = Some P' /\ cW c' = None /\ ckv c' = ckv c /\
    length P' = length P /\ (dims d P -> dims d P') /\
    Forall2 Qeq (curve_spec (kvec (ckv c')) (cdeg c') d P' u)
                (map (fun x => x / s) (curve_spec (kvec (ckv c)) (cdeg c) d P u)).
Proof.
  intros H HW. destruct (c_div_scalar_shape c s c' P H HcP) as [Hs ->]. split; [exact Hs|].
  cbn [cP cW ckv]. unfold cdeg. cbn [ckv].
  eexists. split; [reflexivity|]. split; [exact HW|]. split; [reflexivity|].
  split; [apply map_length|]. split; [apply dims_map_vscale|].
  apply spec_vscale_gen. intro x. unfold Qdiv. ring.
Qed.

Theorem c_add_scalar_spline v c' u : c_add_scalar c v = Ok c' -> cW c = None ->
  WF (kvec (ckv c)) (cdeg c) -> in_range (kvec (ckv c)) (cdeg c) u = true ->
  length P = cnpts c -> length v = d -> dims d P ->
  exists P', cP c' = Some P' /\ cW c' = None /\ ckv c' = ckv c /\
    length P' = length P /\ dims d P' /\
    Forall2 Qeq (curve_spec (kvec (ckv c')) (cdeg c') d P' u)
                (map2 Qplus (curve_spec (kvec (ckv c)) (cdeg c) d P u) v).
Proof.
  intros H HW W Hr HL Hv HP. rewrite (c_add_scalar_shape c v c' P H HcP).
  cbn [cP cW ckv]. unfold cdeg, cnpts in *. cbn [ckv].
  eexists. split; [reflexivity|]. split; [exact HW|]. split; [reflexivity|].
  split; [apply map_length|]. split; [apply dims_map_vadd_l; assumption|].
  apply spec_vadd_const; assumption.
Qed.

(* --- rational curves: the weights are unchanged --- *)
Variable Wt : list Q.
Hypothesis HcW : cW c = Some Wt.

Theorem c_neg_rational c' u : c_neg c = Ok c' ->
  exists P', cP c' = Some P' /\ cW c' = Some Wt /\ ckv c' = ckv c /\
    length P' = length P /\ (dims d P -> dims d P') /\
    Forall2 Qeq (rational_spec (kvec (ckv c')) (cdeg c') d Wt P' u)
                (map Qopp (rational_spec (kvec (ckv c)) (cdeg c) d Wt P u)).
Proof.
  intros H. rewrite (c_neg_shape c c' P H HcP). cbn [cP cW ckv]. unfold cdeg. cbn [ckv].
  eexists. split; [reflexivity|]. split; [exact HcW|]. split; [reflexivity|].
  split; [apply map_length|]. split; [apply dims_map_vscale|].
  apply rat_vscale_gen. intro x. ring.
Qed.

Theorem c_mul_scalar_rational s c' u : c_mul_scalar c s = Ok c' ->
  exists P', cP c' = Some P' /\ cW c' = Some Wt /\ ckv c' = ckv c /\
    length P' = length P /\ (dims d P -> dims d P') /\
    Forall2 Qeq (rational_spec (kvec (ckv c')) (cdeg c') d Wt P' u)
                (map (Qmult s) (rational_spec (kvec (ckv c)) (cdeg c) d Wt P u)).
Proof.
  intros H. rewrite (c_mul_scalar_shape c s c' P H HcP). cbn [cP cW ckv]. unfold cdeg. cbn [ckv].
  eexists. split; [reflexivity|]. split; [exact HcW|]. split; [reflexivity|].
  split; [apply map_length|]. split; [apply dims_map_vscale|].
  apply rat_vscale.
Qed.

Theorem c_div_scalar_rational s c' u : c_div_scalar c s = Ok c' ->
  ~ s == 0 /\
  exists P', cP c' = Some P' /\ cW c' = Some Wt /\ ckv c' = ckv c /\
    length P' = length P /\ (dims d P -> dims d P') /\
    Forall2 Qeq (rational_spec (kvec (ckv c')) (cdeg c') d Wt P' u)
                (map (fun x => x / s) (rational_spec (kvec (ckv c)) (cdeg c) d Wt P u)).
Proof.
  intros H. destruct (c_div_scalar_shape c s c' P H HcP) as [Hs ->]. split; [exact Hs|].
  cbn [cP cW ckv]. unfold cdeg. cbn [ckv].
  eexists. split; [reflexivity|]. split; [exact HcW|]. split; [reflexivity|].
  split; [apply map_length|]. split; [apply dims_map_vscale|].
  apply rat_vscale_gen. intro x. unfold Qdiv. ring.
Qed.

Theorem c_add_scalar_rational v c' u : c_add_scalar c v = Ok c' ->
  WF (kvec (ckv c)) (cdeg c) -> in_range (kvec (ckv c)) (cdeg c) u = true ->
  length P = cnpts c -> length Wt = cnpts c -> Forall (fun w => 0 < w) Wt ->
  length v = d -> dims d P ->
  exists P', cP c' = Some P' /\ cW c' = Some Wt /\ ckv c' = ckv c /\
    length P' = length P /\ dims d P' /\
    Forall2 Qeq (rational_spec (kvec (ckv c')) (cdeg c') d Wt P' u)
                (map2 Qplus (rational_spec (kvec (ckv c)) (cdeg c) d Wt P u) v).
Proof.
  intros H W Hr HL HLw Hpos Hv HP. rewrite (c_add_scalar_shape c v c' P H HcP).
  cbn [cP cW ckv]. unfold cdeg, cnpts in *. cbn [ckv].
  eexists. split; [reflexivity|]. split; [exact HcW|]. split; [reflexivity|].
  split; [apply map_length|]. split; [apply dims_map_vadd_l; assumption|].
  apply rat_vadd_const; assumption.
Qed.
End ModelOps.

(* ------------------------------------------------------------------ *)
(* A3. quotient form: algebraic core                                   *)
(* ------------------------------------------------------------------ *)
(* the general pointwise form: the control values X of the quotient satisfy w_i * X_i = x_i.
   No hypothesis on the denominator: where it vanishes both sides are 0 (0/0 := 0 in Q). *)
Theorem quotient_gen U p (w x X : list Q) u :
  (forall i, (i < npts_of U p)%nat -> nth i w 0 * nth i X 0 == nth i x 0) ->
  rational_spec1 U p w X u == curve_spec1 U p x u / curve_spec1 U p w u.
Proof.
  intro H. unfold rational_spec1, weight_spec. rewrite rat1_num.
  rewrite (csum_ext U p u _ (fun i => nth i x 0)) by exact H.
  rewrite <- spec1_csum. reflexivity.
Qed.

Lemma nz_existsb (w : list Q) i :
  existsb (fun x => Qeqb x 0) w = false -> (i < length w)%nat -> ~ nth i w 0 == 0.
Proof.
  intros Hnz Hi. pose proof (existsb_nth (fun x => Qeqb x 0) w (n := i) 0 Hi Hnz) as K.
  cbv beta in K. apply Qeqb_neq in K. exact K.
Qed.

Lemma nz_Forall (w : list Q) i :
  Forall (fun wi => ~ wi == 0) w -> (i < length w)%nat -> ~ nth i w 0 == 0.
Proof. intros H Hi. exact (proj1 (Forall_nth _ w) H i 0 Hi). Qed.

Lemma existsb_zero_Forall (w : list Q) :
  existsb (fun x => Qeqb x 0) w = false <-> Forall (fun wi => ~ wi == 0) w.
Proof.
  induction w as [|a w IH]; cbn [existsb]; split; intro H; try constructor; try reflexivity.
  - apply orb_false_iff in H. apply Qeqb_neq. tauto.
  - apply orb_false_iff in H. apply IH. tauto.
  - inversion H as [|? ? A B]. apply orb_false_iff. split; [apply Qeqb_neq; exact A | apply IH; exact B].
Qed.

Theorem quotient_core U p (w x : list Q) u :
  length x = length w -> Forall (fun wi => ~ wi == 0) w ->
  rational_spec1 U p w (map2 (fun xi wi => xi / wi) x w) u
  == curve_spec1 U p x u / curve_spec1 U p w u.
Proof.
  intros HL Hnz. apply quotient_gen. intros i _.
  destruct (le_lt_dec (length w) i) as [L|L].
  - rewrite (nth_overflow w), (nth_overflow x) by lia. ring.
  - rewrite (nth_map2 (fun xi wi => xi / wi) 0 0 0) by lia.
    field. apply nz_Forall; assumption.
Qed.

(* s / A: the numerator is s * sum_i N_i = s (partition of unity) *)
Theorem rdiv_gen U p s (w X : list Q) u :
  WF U p -> in_range U p u = true ->
  (forall i, (i < npts_of U p)%nat -> nth i w 0 * nth i X 0 == s) ->
  rational_spec1 U p w X u == s / curve_spec1 U p w u.
Proof.
  intros W Hr H. unfold rational_spec1, weight_spec. rewrite rat1_num.
  rewrite (csum_ext U p u _ (fun _ => s)) by exact H.
  rewrite (csum_const U p u s W Hr). reflexivity.
Qed.

Theorem rdiv_core U p s (w : list Q) u :
  WF U p -> in_range U p u = true ->
  length w = npts_of U p -> Forall (fun wi => ~ wi == 0) w ->
  rational_spec1 U p w (map (fun wi => s / wi) w) u == s / curve_spec1 U p w u.
Proof.
  intros W Hr HL Hnz. apply rdiv_gen; try assumption. intros i Hi.
  rewrite (nth_map_in (fun wi => s / wi) 0 0) by lia.
  field. apply nz_Forall; [exact Hnz | lia].
Qed.

(* vector-valued numerator, the shape c_div builds: points Q_i / w_i, weights w *)
Lemma coord_map2_unscale kk (Qa : list (list Q)) (w : list Q) i :
  length Qa = length w -> existsb (fun x => Qeqb x 0) w = false ->
  nth i w 0 * nth i (coord kk (map2 (fun q wi => vscale (/ wi) q) Qa w)) 0 == nth i (coord kk Qa) 0.
Proof.
  intros HL Hnz. rewrite !coord_nth. destruct (le_lt_dec (length w) i) as [L|L].
  - rewrite (nth_overflow w) by exact L. rewrite (nth_overflow Qa []) by lia.
    rewrite nth_nil_Q. ring.
  - rewrite (nth_map2 (fun q wi => vscale (/ wi) q) [] 0 []) by (unfold pt in *; lia).
    rewrite (nth_vscale (/ nth i w 0) (nth i Qa []) kk). field. apply nz_existsb; assumption.
Qed.

Theorem quotient_curve U p d (Qa : list (list Q)) (w : list Q) u :
  length Qa = length w -> existsb (fun x => Qeqb x 0) w = false ->
  Forall2 Qeq (rational_spec U p d w (map2 (fun q wi => vscale (/ wi) q) Qa w) u)
              (map (fun x => x / curve_spec1 U p w u) (curve_spec U p d Qa u)).
Proof.
  intros HL Hnz. apply Forall2_Qeq_nth.
  - rewrite map_length, rational_spec_length, curve_spec_length. reflexivity.
  - rewrite rational_spec_length. intros kk Hkk.
    rewrite (nth_map_in (fun x => x / curve_spec1 U p w u) 0 0) by (rewrite curve_spec_length; exact Hkk).
    rewrite rational_spec_nth, curve_spec_nth by exact Hkk.
    apply quotient_gen. intros i _. apply coord_map2_unscale; assumption.
Qed.

(* ------------------------------------------------------------------ *)
(* A4. sum after a change of basis (abstract matrices)                 *)
(* ------------------------------------------------------------------ *)
Theorem add_common Uc pc Ua pa Ub pb (Ma Mb : mat) (Pa Pb : list Q) u :
  length Ma = length Mb ->
  curve_spec1 Uc pc (mvec Ma Pa) u == curve_spec1 Ua pa Pa u ->
  curve_spec1 Uc pc (mvec Mb Pb) u == curve_spec1 Ub pb Pb u ->
  curve_spec1 Uc pc (map2 Qplus (mvec Ma Pa) (mvec Mb Pb)) u
  == curve_spec1 Ua pa Pa u + curve_spec1 Ub pb Pb u.
Proof.
  intros HL HA HB. rewrite spec1_add by (rewrite !mvec_length; exact HL).
  rewrite HA, HB. reflexivity.
Qed.

Theorem sub_common Uc pc Ua pa Ub pb (Ma Mb : mat) (Pa Pb : list Q) u :
  length Ma = length Mb ->
  curve_spec1 Uc pc (mvec Ma Pa) u == curve_spec1 Ua pa Pa u ->
  curve_spec1 Uc pc (mvec Mb Pb) u == curve_spec1 Ub pb Pb u ->
  curve_spec1 Uc pc (map2 Qminus (mvec Ma Pa) (mvec Mb Pb)) u
  == curve_spec1 Ua pa Pa u - curve_spec1 Ub pb Pb u.
Proof.
  intros HL HA HB. rewrite spec1_sub by (rewrite !mvec_length; exact HL).
  rewrite HA, HB. reflexivity.
Qed.

(* a matrix that preserves scalar curves preserves vector curves, coordinate by coordinate *)
Definition preserves (Uc : list Q) (pc : nat) (U : list Q) (p n : nat) (M : mat) (u : Q) : Prop :=
  forall X : list Q, length X = n -> curve_spec1 Uc pc (mvec M X) u == curve_spec1 U p X u.

Lemma preserves_coord Uc pc U p n M u d kk (P : list (list Q)) :
  preserves Uc pc U p n M u -> length P = n -> dims d P -> pdim P = d -> (kk < d)%nat ->
  curve_spec1 Uc pc (coord kk (mat_apply M P)) u == curve_spec1 U p (coord kk P) u.
Proof.
  intros C HL HP Hd Hkk.
  rewrite (curve_spec1_ext _ _ _ _ u (coord_mat_apply M P d kk Hkk HP Hd)).
  apply C. rewrite coord_length. exact HL.
Qed.

Theorem add_common_vec Uc pc Ua pa Ub pb na nb d (Ma Mb : mat) (Pa Pb : list (list Q)) u :
  length Ma = length Mb ->
  preserves Uc pc Ua pa na Ma u -> preserves Uc pc Ub pb nb Mb u ->
  length Pa = na -> length Pb = nb ->
  dims d Pa -> pdim Pa = d -> dims d Pb -> pdim Pb = d ->
  Forall2 Qeq (curve_spec Uc pc d (map2 vadd (mat_apply Ma Pa) (mat_apply Mb Pb)) u)
              (map2 Qplus (curve_spec Ua pa d Pa u) (curve_spec Ub pb d Pb u)).
Proof.
  intros HL CA CB HLa HLb HPa Hda HPb Hdb. apply Forall2_Qeq_nth.
  - rewrite map2_length, !curve_spec_length, Nat.min_id. reflexivity.
  - rewrite curve_spec_length. intros kk Hkk.
    rewrite (nth_map2 Qplus 0 0 0) by (rewrite curve_spec_length; exact Hkk).
    rewrite !curve_spec_nth by exact Hkk.
    rewrite (spec1_lin2 Uc pc 1 1 (coord kk (mat_apply Ma Pa)) (coord kk (mat_apply Mb Pb)) _ u).
    + rewrite (preserves_coord Uc pc Ua pa na Ma u d kk Pa CA HLa HPa Hda Hkk).
      rewrite (preserves_coord Uc pc Ub pb nb Mb u d kk Pb CB HLb HPb Hdb Hkk). ring.
    + intros i _.
      rewrite (coord_map2_vadd d kk (mat_apply Ma Pa) (mat_apply Mb Pb) i).
      * ring.
      * rewrite !mat_apply_length. exact HL.
      * apply mat_apply_dims; assumption.
      * apply mat_apply_dims; assumption.
Qed.

(* ------------------------------------------------------------------ *)
(* A4/A3 on the model: c_add, c_sub, c_div, c_rdiv                     *)
(* ------------------------------------------------------------------ *)
(* What knot insertion / degree elevation give for a change-of-basis matrix ka -> kc at u
   (Proofs/InsertCompose.knot_insert_curve, Proofs/BezierProofs.bezier_elevate_many);
   that matrix_transformation returns such matrices is NOT proved here. *)
Definition refines (ka kc : kv) (M : mat) (u : Q) : Prop :=
  length M = knpts kc /\
  preserves (kvec kc) (kdeg kc) (kvec ka) (kdeg ka) (knpts ka) M u.

Lemma Forall2_Qeq_nth_inv : forall a b : list Q, Forall2 Qeq a b -> forall i, nth i a 0 == nth i b 0.
Proof.
  intros a b H. induction H as [|x y a b Hxy H IH]; intros [|i]; cbn [nth]; try reflexivity.
  - exact Hxy.
  - apply IH.
Qed.

Lemma Forall2_Qeq_len : forall a b : list Q, Forall2 Qeq a b -> length a = length b.
Proof. intros a b H. induction H; cbn [length]; congruence. Qed.

Lemma Forall2_Qeq_trans (a b c : list Q) : Forall2 Qeq a b -> Forall2 Qeq b c -> Forall2 Qeq a c.
Proof.
  intros H1 H2. apply Forall2_Qeq_nth.
  - rewrite (Forall2_Qeq_len _ _ H1). apply Forall2_Qeq_len. exact H2.
  - intros i _. rewrite (Forall2_Qeq_nth_inv _ _ H1 i). apply Forall2_Qeq_nth_inv. exact H2.
Qed.

Lemma c_add_inv a b c' Pa Pb :
  c_add a b = Ok c' -> cP a = Some Pa -> cP b = Some Pb -> cW a = None -> cW b = None ->
  exists kc Ma Mb, limits_eqb (ckv a) (ckv b) = true /\ kor (ckv a) (ckv b) = Ok kc /\
    matrix_transformation (ckv a) kc = Ok Ma /\ matrix_transformation (ckv b) kc = Ok Mb /\
    c' = mkcurve kc (Some (map2 vadd (mat_apply Ma Pa) (mat_apply Mb Pb))) None.
Proof.
  unfold c_add. intros H Ha Hb Wa Wb. rewrite Ha, Hb, Wa, Wb in H.
  destruct (limits_eqb (ckv a) (ckv b)) eqn:EL; cbn [negb] in H; [|discriminate].
  destruct (kor (ckv a) (ckv b)) as [kc|] eqn:Ek; cbn [bind] in H; [|discriminate].
  destruct (matrix_transformation (ckv a) kc) as [Ma|] eqn:Ea; cbn [bind] in H; [|discriminate].
  destruct (matrix_transformation (ckv b) kc) as [Mb|] eqn:Eb; cbn [bind] in H; [|discriminate].
  inversion H. exists kc, Ma, Mb. repeat split; try assumption; reflexivity.
Qed.

Lemma c_add_limits a b Pa Pb :
  cP a = Some Pa -> cP b = Some Pb -> cW a = None -> cW b = None ->
  limits_eqb (ckv a) (ckv b) = false -> c_add a b = Err ValueError.
Proof.
  intros Ha Hb Wa Wb HL. unfold c_add. rewrite Ha, Hb, Wa, Wb, HL. reflexivity.
Qed.

Theorem c_add_pointwise a b c' Pa Pb d u :
  c_add a b = Ok c' -> cP a = Some Pa -> cP b = Some Pb -> cW a = None -> cW b = None ->
  length Pa = cnpts a -> length Pb = cnpts b ->
  dims d Pa -> pdim Pa = d -> dims d Pb -> pdim Pb = d ->
  (forall kc Ma Mb, kor (ckv a) (ckv b) = Ok kc ->
     matrix_transformation (ckv a) kc = Ok Ma -> matrix_transformation (ckv b) kc = Ok Mb ->
     refines (ckv a) kc Ma u /\ refines (ckv b) kc Mb u) ->
  exists kc P', kor (ckv a) (ckv b) = Ok kc /\ c' = mkcurve kc (Some P') None /\
    length P' = knpts kc /\ dims d P' /\
    Forall2 Qeq (curve_spec (kvec kc) (kdeg kc) d P' u)
                (map2 Qplus (curve_spec (kvec (ckv a)) (cdeg a) d Pa u)
                            (curve_spec (kvec (ckv b)) (cdeg b) d Pb u)).
Proof.
  intros H Ha Hb Wa Wb HLa HLb HPa Hda HPb Hdb Href.
  destruct (c_add_inv a b c' Pa Pb H Ha Hb Wa Wb) as (kc & Ma & Mb & _ & Hk & HMa & HMb & ->).
  destruct (Href kc Ma Mb Hk HMa HMb) as [[LA CA] [LB CB]].
  exists kc. eexists. split; [exact Hk|]. split; [reflexivity|].
  split; [|split].
  - rewrite map2_length, !mat_apply_length, LA, LB. apply Nat.min_id.
  - apply dims_map2_vadd; apply mat_apply_dims; assumption.
  - unfold cdeg, cnpts in *.
    apply (add_common_vec _ _ _ _ _ _ (knpts (ckv a)) (knpts (ckv b))); try assumption. congruence.
Qed.

Lemma c_sub_inv a b c' Pb : c_sub a b = Ok c' -> cP b = Some Pb ->
  c_add a (mkcurve (ckv b) (Some (map (vscale (-1)) Pb)) (cW b)) = Ok c'.
Proof.
  unfold c_sub. intros H Hb. unfold c_neg in H. rewrite (map_points_ok _ b Pb Hb) in H.
  exact H.
Qed.

Theorem c_sub_pointwise a b c' Pa Pb d u :
  c_sub a b = Ok c' -> cP a = Some Pa -> cP b = Some Pb -> cW a = None -> cW b = None ->
  length Pa = cnpts a -> length Pb = cnpts b ->
  dims d Pa -> pdim Pa = d -> dims d Pb -> pdim Pb = d ->
  (forall kc Ma Mb, kor (ckv a) (ckv b) = Ok kc ->
     matrix_transformation (ckv a) kc = Ok Ma -> matrix_transformation (ckv b) kc = Ok Mb ->
     refines (ckv a) kc Ma u /\ refines (ckv b) kc Mb u) ->
  exists kc P', kor (ckv a) (ckv b) = Ok kc /\ c' = mkcurve kc (Some P') None /\
    length P' = knpts kc /\ dims d P' /\
    Forall2 Qeq (curve_spec (kvec kc) (kdeg kc) d P' u)
                (map2 Qminus (curve_spec (kvec (ckv a)) (cdeg a) d Pa u)
                             (curve_spec (kvec (ckv b)) (cdeg b) d Pb u)).
Proof.
  intros H Ha Hb Wa Wb HLa HLb HPa Hda HPb Hdb Href.
  pose proof (c_sub_inv a b c' Pb H Hb) as H'. rewrite Wb in H'.
  set (nb := mkcurve (ckv b) (Some (map (vscale (-1)) Pb)) None) in H'.
  assert (Hdn : pdim (map (vscale (-1)) Pb) = d).
  { destruct Pb as [|q Pb]; [exact Hdb|]. cbn [map pdim] in *. unfold vscale. rewrite map_length. exact Hdb. }
  destruct (c_add_pointwise a nb c' Pa (map (vscale (-1)) Pb) d u H' Ha eq_refl Wa eq_refl HLa)
    as (kc & P' & Hk & E & LP & DP & F); try assumption.
  - rewrite map_length. exact HLb.
  - apply dims_map_vscale. exact HPb.
  - exists kc, P'. split; [exact Hk|]. split; [exact E|]. split; [exact LP|]. split; [exact DP|].
    apply (Forall2_Qeq_trans _ _ _ F). unfold nb, cdeg. cbn [ckv].
    apply Forall2_Qeq_nth.
    + rewrite !map2_length, !curve_spec_length. reflexivity.
    + rewrite map2_length, !curve_spec_length, Nat.min_id. intros kk Hkk.
      rewrite (nth_map2 Qplus 0 0 0), (nth_map2 Qminus 0 0 0) by (rewrite curve_spec_length; exact Hkk).
      rewrite (Forall2_Qeq_nth_inv _ _
                 (spec_vscale_gen (kvec (ckv b)) (kdeg (ckv b)) d (-1) Qopp Pb u ltac:(intro x; ring)) kk).
      rewrite (nth_map_in Qopp 0 0) by (rewrite curve_spec_length; exact Hkk). ring.
Qed.

(* c_div: quotient of the two curves (denominator = first coordinate of b) *)
Lemma c_div_inv a b c' Pa Pb :
  c_div a b = Ok c' -> cP a = Some Pa -> cP b = Some Pb -> cW a = None -> cW b = None ->
  exists kc Ma Mb, limits_eqb (ckv a) (ckv b) = true /\ kor (ckv a) (ckv b) = Ok kc /\
    matrix_transformation (ckv a) kc = Ok Ma /\ matrix_transformation (ckv b) kc = Ok Mb /\
    let w := coord 0 (mat_apply Mb Pb) in
    existsb (fun x => Qeqb x 0) w = false /\
    c' = mkcurve kc (Some (map2 (fun q wi => vscale (/ wi) q) (mat_apply Ma Pa) w)) (Some w).
Proof.
  unfold c_div. intros H Ha Hb Wa Wb. rewrite Ha, Hb, Wa, Wb in H.
  destruct (limits_eqb (ckv a) (ckv b)) eqn:EL; cbn [negb] in H; [|discriminate].
  destruct (kor (ckv a) (ckv b)) as [kc|] eqn:Ek; cbn [bind] in H; [|discriminate].
  destruct (matrix_transformation (ckv a) kc) as [Ma|] eqn:Ea; cbn [bind] in H; [|discriminate].
  destruct (matrix_transformation (ckv b) kc) as [Mb|] eqn:Eb; cbn [bind] in H; [|discriminate].
  fold (coord 0 (mat_apply Mb Pb)) in H.
  destruct (existsb (fun x => Qeqb x 0) (coord 0 (mat_apply Mb Pb))) eqn:E; [discriminate|].
  inversion H. exists kc, Ma, Mb. cbv zeta. repeat split; try assumption; reflexivity.
Qed.

Theorem c_div_pointwise a b c' Pa Pb da db u :
  c_div a b = Ok c' -> cP a = Some Pa -> cP b = Some Pb -> cW a = None -> cW b = None ->
  length Pa = cnpts a -> length Pb = cnpts b ->
  dims da Pa -> pdim Pa = da -> dims db Pb -> pdim Pb = db -> (0 < db)%nat ->
  (forall kc Ma Mb, kor (ckv a) (ckv b) = Ok kc ->
     matrix_transformation (ckv a) kc = Ok Ma -> matrix_transformation (ckv b) kc = Ok Mb ->
     refines (ckv a) kc Ma u /\ refines (ckv b) kc Mb u) ->
  exists kc P' w, kor (ckv a) (ckv b) = Ok kc /\ c' = mkcurve kc (Some P') (Some w) /\
    length P' = knpts kc /\ length w = knpts kc /\ Forall (fun wi => ~ wi == 0) w /\
    weight_spec (kvec kc) (kdeg kc) w u == curve_spec1 (kvec (ckv b)) (cdeg b) (coord 0 Pb) u /\
    Forall2 Qeq (rational_spec (kvec kc) (kdeg kc) da w P' u)
                (map (fun x => x / curve_spec1 (kvec (ckv b)) (cdeg b) (coord 0 Pb) u)
                     (curve_spec (kvec (ckv a)) (cdeg a) da Pa u)).
Proof.
  intros H Ha Hb Wa Wb HLa HLb HPa Hda HPb Hdb Hpos Href.
  destruct (c_div_inv a b c' Pa Pb H Ha Hb Wa Wb) as (kc & Ma & Mb & _ & Hk & HMa & HMb & Hnz & ->).
  destruct (Href kc Ma Mb Hk HMa HMb) as [[LA CA] [LB CB]].
  unfold cdeg, cnpts in *.
  set (w := coord 0 (mat_apply Mb Pb)) in *.
  assert (Lw : length w = knpts kc) by (unfold w; rewrite coord_length, mat_apply_length; exact LB).
  assert (Hw : curve_spec1 (kvec kc) (kdeg kc) w u
               == curve_spec1 (kvec (ckv b)) (kdeg (ckv b)) (coord 0 Pb) u).
  { apply (preserves_coord _ _ _ _ (knpts (ckv b)) Mb u db 0 Pb); assumption. }
  exists kc. eexists. exists w. split; [exact Hk|]. split; [reflexivity|].
  split; [|split; [exact Lw|split; [apply existsb_zero_Forall; exact Hnz|split; [exact Hw|]]]].
  - rewrite map2_length, mat_apply_length, Lw, LA. apply Nat.min_id.
  - eapply Forall2_Qeq_trans.
    + apply quotient_curve; [rewrite mat_apply_length, Lw; exact LA | exact Hnz].
    + apply Forall2_Qeq_nth.
      * rewrite !map_length, !curve_spec_length. reflexivity.
      * rewrite map_length, curve_spec_length. intros kk Hkk.
        rewrite !(nth_map_in (fun x => x / _) 0 0) by (rewrite curve_spec_length; exact Hkk).
        rewrite !curve_spec_nth by exact Hkk.
        rewrite (preserves_coord _ _ _ _ (knpts (ckv a)) Ma u da kk Pa CA HLa HPa Hda Hkk).
        rewrite Hw. reflexivity.
Qed.

(* c_rdiv: s / A for a scalar polynomial curve A *)
Lemma c_rdiv_inv s a c' Pa :
  c_rdiv s a = Ok c' -> cP a = Some Pa -> cW a = None ->
  let w := coord 0 Pa in
  existsb (fun x => Qeqb x 0) w = false /\
  c' = mkcurve (ckv a) (Some (map (fun wi => [Qred (s / wi)]) w)) (Some w).
Proof.
  unfold c_rdiv. intros H Ha Wa. rewrite Ha, Wa in H. fold (coord 0 Pa) in H. cbv zeta.
  destruct (existsb (fun x => Qeqb x 0) (coord 0 Pa)) eqn:E; [discriminate|].
  inversion H. split; reflexivity.
Qed.

Theorem c_rdiv_zero s a Pa : cP a = Some Pa -> cW a = None ->
  existsb (fun x => Qeqb x 0) (coord 0 Pa) = true -> c_rdiv s a = Err ZeroDivisionError.
Proof.
  intros Ha Wa E. unfold c_rdiv. rewrite Ha, Wa. fold (coord 0 Pa). rewrite E. reflexivity.
Qed.

Theorem c_rdiv_pointwise s a c' Pa u :
  c_rdiv s a = Ok c' -> cP a = Some Pa -> cW a = None ->
  WF (kvec (ckv a)) (cdeg a) -> in_range (kvec (ckv a)) (cdeg a) u = true ->
  length Pa = cnpts a ->
  exists P' w, c' = mkcurve (ckv a) (Some P') (Some w) /\ w = coord 0 Pa /\
    length P' = cnpts a /\ dims 1%nat P' /\ Forall (fun wi => ~ wi == 0) w /\
    Forall2 Qeq (rational_spec (kvec (ckv a)) (cdeg a) 1 w P' u)
                [s / curve_spec1 (kvec (ckv a)) (cdeg a) (coord 0 Pa) u].
Proof.
  intros H Ha Wa W Hr HL. destruct (c_rdiv_inv s a c' Pa H Ha Wa) as [Hnz ->].
  unfold cdeg, cnpts in *.
  eexists. exists (coord 0 Pa). split; [reflexivity|]. split; [reflexivity|].
  split; [rewrite map_length, coord_length; exact HL|].
  split; [apply Forall_forall; intros q Hq; apply in_map_iff in Hq; destruct Hq as (x & <- & _); reflexivity|].
  split; [apply existsb_zero_Forall; exact Hnz|].
  unfold rational_spec. cbn [seq map]. constructor; [|constructor].
  apply rdiv_gen; try assumption. intros i Hi.
  assert (Li : (i < length (coord 0 Pa))%nat) by (rewrite coord_length; unfold pt, npts_of, knpts in *; lia).
  rewrite (coord_nth 0 (map (fun wi => [Qred (s / wi)]) (coord 0 Pa)) i).
  rewrite (nth_map_in (fun wi => [Qred (s / wi)]) 0 []) by exact Li.
  cbn [nth]. rewrite Qred_correct. field. apply nz_existsb; assumption.
Qed.

(* ------------------------------------------------------------------ *)
(* the hypothesis `refines` is what the proved refinements deliver     *)
(* ------------------------------------------------------------------ *)
Theorem refines_ident k u : refines k k (ident (knpts k)) u.
Proof.
  split; [apply ident_length|].
  intros X HX. apply curve_spec1_ext. apply mvec_ident. exact HX.
Qed.

Theorem refines_knot_insert k nodes M k' u :
  WF (kvec k) (kdeg k) -> knot_insert k nodes = Ok M -> kinsert k nodes = Ok k' ->
  kdeg k' = kdeg k -> in_range (kvec k) (kdeg k) u = true -> refines k k' M u.
Proof.
  intros W HM Hk Hd Hu. destruct (knot_insert_curve k nodes M k' W HM Hk Hd) as [L C].
  split; [exact L|]. intros X HX. rewrite Hd. apply C; assumption.
Qed.

(* A4, common knot vector: when the two change-of-basis matrices are identities the sum is
   A1's additivity *)
Corollary add_same_kv U p (Pa Pb : list Q) u :
  length Pa = npts_of U p -> length Pb = npts_of U p ->
  curve_spec1 U p (map2 Qplus (mvec (ident (npts_of U p)) Pa) (mvec (ident (npts_of U p)) Pb)) u
  == curve_spec1 U p Pa u + curve_spec1 U p Pb u.
Proof.
  intros HA HB. apply add_common; [reflexivity| |];
    apply curve_spec1_ext; apply mvec_ident; assumption.
Qed.

(* A5 (product certificate).
   NOT PROVED: for mul_coeffs a b pa pb = Ok (kc, pc), "zero collocation residual at every node
   implies C(u) = A(u) * B(u) for every u".  The for-all-u conclusion needs root counting for
   piecewise polynomials (a polynomial of degree p+q vanishing at 2(p+q+1) nodes of a span is 0),
   which this development does not have; the node-wise statement is its own hypothesis. *)

(* ------------------------------------------------------------------ *)
(* Examples: the hypotheses are satisfiable                            *)
(* ------------------------------------------------------------------ *)
From NurbsV Require Proofs.BezierProofs.

Definition ex_ka : kv := mkkv [0; 0; 0; 1; 1; 1] 2.
Definition ex_kb : kv := mkkv [0; 0; 1; 1] 1.
Definition ex_a : curve := mkcurve ex_ka (Some [[1; 2]; [3; 1]; [2; 5]]) None.
Definition ex_b : curve := mkcurve ex_kb (Some [[1]; [2]]) None.
Definition ex_b2 : curve := mkcurve ex_ka (Some [[1; 0]; [2; 2]; [4; 1]]) None.
Definition ex_r : curve := mkcurve ex_ka (Some [[1; 2]; [3; 1]; [2; 5]]) (Some [1; 2; 1 # 2]).

Example ex_div : c_div ex_a ex_b
  = Ok (mkcurve ex_ka (Some [[1; 2]; [2; 2 # 3]; [1; 5 # 2]]) (Some [1; 3 # 2; 2])).
Proof. vm_compute. reflexivity. Qed.

Example ex_rdiv : c_rdiv 3 ex_b = Ok (mkcurve ex_kb (Some [[3]; [3 # 2]]) (Some [1; 2])).
Proof. vm_compute. reflexivity. Qed.

Example ex_add : c_add ex_a ex_b2 = Ok (mkcurve ex_ka (Some [[2; 2]; [5; 3]; [6; 6]]) None).
Proof. vm_compute. reflexivity. Qed.

Example ex_neg_rat : c_neg ex_r
  = Ok (mkcurve ex_ka (Some [[-1; -2]; [-3; -1]; [-2; -5]]) (Some [1; 2; 1 # 2])).
Proof. vm_compute. reflexivity. Qed.

Example ex_div_scalar_zero : c_div_scalar ex_a 0 = Err ZeroDivisionError.
Proof. apply c_div_scalar_zero. reflexivity. Qed.

Example ex_wf_a : WF (kvec ex_ka) (kdeg ex_ka).
Proof. vm_compute. reflexivity. Qed.
Example ex_wf_b : WF (kvec ex_kb) (kdeg ex_kb).
Proof. vm_compute. reflexivity. Qed.

(* the refinement hypothesis of c_add_pointwise / c_div_pointwise, discharged for the examples:
   identity for ex_ka -> ex_ka, Bezier degree elevation for ex_kb -> ex_ka *)
Lemma ex_refines_aa u : forall kc Ma Mb, kor (ckv ex_a) (ckv ex_b2) = Ok kc ->
  matrix_transformation (ckv ex_a) kc = Ok Ma -> matrix_transformation (ckv ex_b2) kc = Ok Mb ->
  refines (ckv ex_a) kc Ma u /\ refines (ckv ex_b2) kc Mb u.
Proof.
  intros kc Ma Mb Hk HMa HMb. vm_compute in Hk. inversion Hk; subst kc.
  vm_compute in HMa. inversion HMa; subst Ma. vm_compute in HMb. inversion HMb; subst Mb.
  split; apply (refines_ident ex_ka u).
Qed.

Lemma ex_refines_ab u : in_range (kvec ex_ka) 2 u = true ->
  forall kc Ma Mb, kor (ckv ex_a) (ckv ex_b) = Ok kc ->
  matrix_transformation (ckv ex_a) kc = Ok Ma -> matrix_transformation (ckv ex_b) kc = Ok Mb ->
  refines (ckv ex_a) kc Ma u /\ refines (ckv ex_b) kc Mb u.
Proof.
  intros Hu kc Ma Mb Hk HMa HMb. vm_compute in Hk. inversion Hk; subst kc.
  vm_compute in HMa. inversion HMa; subst Ma. vm_compute in HMb. inversion HMb; subst Mb.
  split; [apply (refines_ident ex_ka u)|].
  split; [reflexivity|]. intros X HX.
  apply (BezierProofs.in_range_bez 2 0 1 u) in Hu.
  apply (BezierProofs.bezier_elevate_S 1 0 1 X u); [reflexivity | exact HX | exact Hu].
Qed.

Example ex_add_pointwise u :
  Forall2 Qeq (curve_spec (kvec ex_ka) 2 2 [[2; 2]; [5; 3]; [6; 6]] u)
              (map2 Qplus (curve_spec (kvec ex_ka) 2 2 [[1; 2]; [3; 1]; [2; 5]] u)
                          (curve_spec (kvec ex_ka) 2 2 [[1; 0]; [2; 2]; [4; 1]] u)).
Proof.
  destruct (c_add_pointwise ex_a ex_b2 _ _ _ 2 u ex_add eq_refl eq_refl eq_refl eq_refl)
    as (kc & P' & Hk & E & _ & _ & F); try reflexivity.
  - repeat constructor.
  - repeat constructor.
  - apply ex_refines_aa.
  - vm_compute in Hk. inversion Hk; subst kc. inversion E; subst P'. exact F.
Qed.

Example ex_div_pointwise u : in_range (kvec ex_ka) 2 u = true ->
  Forall2 Qeq (rational_spec (kvec ex_ka) 2 2 [1; 3 # 2; 2] [[1; 2]; [2; 2 # 3]; [1; 5 # 2]] u)
              (map (fun x => x / curve_spec1 (kvec ex_kb) 1 [1; 2] u)
                   (curve_spec (kvec ex_ka) 2 2 [[1; 2]; [3; 1]; [2; 5]] u)).
Proof.
  intro Hu.
  destruct (c_div_pointwise ex_a ex_b _ _ _ 2 1 u ex_div eq_refl eq_refl eq_refl eq_refl)
    as (kc & P' & w & Hk & E & _ & _ & _ & _ & F); try reflexivity.
  - repeat constructor.
  - repeat constructor.
  - lia.
  - apply ex_refines_ab. exact Hu.
  - vm_compute in Hk. inversion Hk; subst kc. inversion E; subst P' w. exact F.
Qed.

Example ex_rdiv_pointwise u : in_range (kvec ex_kb) 1 u = true ->
  Forall2 Qeq (rational_spec (kvec ex_kb) 1 1 [1; 2] [[3]; [3 # 2]] u)
              [3 / curve_spec1 (kvec ex_kb) 1 [1; 2] u].
Proof.
  intro Hu.
  destruct (c_rdiv_pointwise 3 ex_b _ _ u ex_rdiv eq_refl eq_refl ex_wf_b Hu eq_refl)
    as (P' & w & E & Ew & _ & _ & _ & F).
  inversion E; subst P' w. exact F.
Qed.

Example ex_add_scalar_rat u : in_range (kvec ex_ka) 2 u = true ->
  forall c', c_add_scalar ex_r [10; 20] = Ok c' ->
  exists P', cP c' = Some P' /\
    Forall2 Qeq (rational_spec (kvec ex_ka) 2 2 [1; 2; 1 # 2] P' u)
      (map2 Qplus (rational_spec (kvec ex_ka) 2 2 [1; 2; 1 # 2] [[1; 2]; [3; 1]; [2; 5]] u) [10; 20]).
Proof.
  intros Hu c' H.
  destruct (c_add_scalar_rational ex_r _ 2 eq_refl _ eq_refl [10; 20] c' u H ex_wf_a Hu eq_refl eq_refl)
    as (P' & HP' & _ & Hkv & _ & _ & F); try reflexivity.
  - repeat constructor.
  - repeat constructor.
  - exists P'. split; [exact HP'|]. unfold cdeg in F. rewrite Hkv in F. exact F.
Qed.

(* ------------------------------------------------------------------ *)
Print Assumptions spec1_scale.
Print Assumptions spec1_add.
Print Assumptions spec1_shift.
Print Assumptions spec_vscale.
Print Assumptions spec_vadd.
Print Assumptions spec_vadd_const.
Print Assumptions rat_vadd_const.
Print Assumptions c_neg_spline.
Print Assumptions c_mul_scalar_spline.
Print Assumptions c_div_scalar_spline.
Print Assumptions c_add_scalar_spline.
Print Assumptions c_neg_rational.
Print Assumptions c_mul_scalar_rational.
Print Assumptions c_div_scalar_rational.
Print Assumptions c_add_scalar_rational.
Print Assumptions quotient_core.
Print Assumptions rdiv_core.
Print Assumptions quotient_curve.
Print Assumptions add_common.
Print Assumptions add_common_vec.
Print Assumptions c_add_pointwise.
Print Assumptions c_sub_pointwise.
Print Assumptions c_div_pointwise.
Print Assumptions c_rdiv_pointwise.
Print Assumptions ex_div_pointwise.
