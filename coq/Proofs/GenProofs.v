(* PROOFS about the knot-vector generators and the affine maps (shift / scale / normalize)
   of Model/KV.v: structure of the results (degree, npts, breakpoints, multiplicities)
   and invariance of the B-spline basis under an increasing affine reparametrisation
   at list level. *)
From Coq Require Import QArith Qabs List Bool Arith Lia Lqa Setoid Morphisms.
From NurbsV Require Import Base.Res Base.QList Spec.KnotSpec Spec.BSpline Gen.Consts Model.KV.
From NurbsV Require Import Proofs.KVProofs Proofs.InsertBasic Proofs.BasisTheory.
Import ListNotations.
Open Scope Q_scope.

(* ------------------------------------------------------------------ *)
(* 0. helpers                                                          *)
(* ------------------------------------------------------------------ *)

Lemma wf_count_first v d : WF v d -> count_q (first_q v) v = (d + 1)%nat.
Proof. intro W. apply (wf_parts _ _ W). Qed.

Lemma wf_count_last v d : WF v d -> count_q (last_q v) v = (d + 1)%nat.
Proof. intro W. apply (wf_parts _ _ W). Qed.

Lemma make_none_deg v k p :
  make v None = Ok k -> count_q (first_q v) v = (p + 1)%nat -> kdeg k = p.
Proof.
  intros H C. pose proof (make_wf _ _ _ H) as W. rewrite (make_vec _ _ _ H) in W.
  pose proof (wf_count_first _ _ W). lia.
Qed.

Lemma make_none_npts v k p :
  make v None = Ok k -> count_q (first_q v) v = (p + 1)%nat ->
  knpts k = (length v - p - 1)%nat.
Proof.
  intros H C. unfold knpts. rewrite (make_none_deg _ _ _ H C), (make_vec _ _ _ H). reflexivity.
Qed.

Global Instance count_q_proper : Proper (Qeq ==> eq ==> eq) count_q.
Proof.
  intros x y E v w <-. induction v as [|z v IH]; [reflexivity|].
  rewrite !count_q_cons, IH, E. reflexivity.
Qed.

Lemma count_q_map_inj (f : Q -> Q) :
  (forall x y, f x == f y <-> x == y) ->
  forall x v, count_q (f x) (map f v) = count_q x v.
Proof.
  intros Hf x v. induction v as [|z v IH]; [reflexivity|].
  cbn [map]. rewrite !count_q_cons, IH.
  destruct (Qeqb_spec (f x) (f z)) as [E|E], (Qeqb_spec x z) as [F|F]; try reflexivity; exfalso.
  - apply F, Hf, E.
  - apply E, Hf, F.
Qed.

Lemma count_q_repeat_same x y n : x == y -> count_q x (repeat y n) = n.
Proof.
  intro E. induction n as [|n IH]; [reflexivity|].
  cbn [repeat]. rewrite count_q_cons, IH.
  destruct (Qeqb_spec x y); [reflexivity | contradiction].
Qed.

Lemma count_q_repeat_diff x y n : ~ x == y -> count_q x (repeat y n) = 0%nat.
Proof.
  intro E. induction n as [|n IH]; [reflexivity|].
  cbn [repeat]. rewrite count_q_cons, IH.
  destruct (Qeqb_spec x y); [contradiction | reflexivity].
Qed.

Lemma count_q_none x v : (forall y, In y v -> ~ x == y) -> count_q x v = 0%nat.
Proof.
  induction v as [|z v IH]; intro H; [reflexivity|].
  rewrite count_q_cons, IH by (intros y Hy; apply H; right; exact Hy).
  destruct (Qeqb_spec x z) as [E|E]; [|reflexivity].
  exfalso. apply (H z); [left; reflexivity | exact E].
Qed.

Lemma first_q_map (f : Q -> Q) v : v <> [] -> first_q (map f v) = f (first_q v).
Proof. destruct v; [congruence | reflexivity]. Qed.

Lemma last_map (f : Q -> Q) v d : v <> [] -> last (map f v) d = f (last v d).
Proof.
  induction v as [|a v IH]; [congruence|]. intros _.
  destruct v as [|b t]; [reflexivity|].
  cbn [map]. rewrite !last_cons2. apply IH. discriminate.
Qed.

Lemma last_q_map (f : Q -> Q) v : v <> [] -> last_q (map f v) = f (last_q v).
Proof. apply last_map. Qed.

Lemma nthq_map (f : Q -> Q) v i : v <> [] -> nthq (map f v) i = f (nthq v i).
Proof.
  intro H. unfold nthq. rewrite (last_map f v 0 H). apply map_nth.
Qed.

Lemma wf_nonempty v d : WF v d -> v <> [].
Proof.
  intros W E. destruct (wf_parts _ _ W) as (_ & L & _). subst v. cbn in L. lia.
Qed.

Lemma Forall2_Qeq_length (a b : list Q) : Forall2 Qeq a b -> length a = length b.
Proof. induction 1; cbn; congruence. Qed.

Lemma Forall2_Qeq_last (a b : list Q) d e : Forall2 Qeq a b -> d == e -> last a d == last b e.
Proof.
  intros H E. induction H as [|x y a b Hxy H IH]; [exact E|].
  destruct H as [|x' y' a b Hxy' H]; [exact Hxy|].
  rewrite !last_cons2. exact IH.
Qed.

Lemma Forall2_Qeq_nth (a b : list Q) d e : Forall2 Qeq a b -> d == e ->
  forall i, nth i a d == nth i b e.
Proof.
  intros H E. induction H as [|x y a b Hxy H IH]; intros [|i]; cbn [nth]; auto.
Qed.

Lemma Forall2_Qeq_nthq (a b : list Q) : Forall2 Qeq a b -> forall i, nthq a i == nthq b i.
Proof.
  intros H i. unfold nthq. apply Forall2_Qeq_nth; [exact H|].
  apply Forall2_Qeq_last; [exact H | reflexivity].
Qed.

Lemma Forall2_Qeq_count (a b : list Q) x : Forall2 Qeq a b -> count_q x a = count_q x b.
Proof.
  induction 1 as [|y z a b Hyz H IH]; [reflexivity|].
  rewrite !count_q_cons, IH, Hyz. reflexivity.
Qed.

Lemma Forall2_Qeq_map (f g : Q -> Q) v : (forall x, f x == g x) -> Forall2 Qeq (map f v) (map g v).
Proof. intro H. induction v; cbn; constructor; auto. Qed.

Lemma Forall2_Qeq_refl (v : list Q) : Forall2 Qeq v v.
Proof. induction v; constructor; auto. reflexivity. Qed.

(* ------------------------------------------------------------------ *)
(* G3. affine maps keep the structure                                  *)
(* ------------------------------------------------------------------ *)

(* general: re-making the image of a well-formed vector under an injective map *)
Lemma make_map_struct (f : Q -> Q) k k' :
  (forall x y, f x == f y <-> x == y) ->
  make (map f (kvec k)) None = Ok k' ->
  WF (kvec k) (kdeg k) ->
  kvec k' = map f (kvec k) /\ kdeg k' = kdeg k /\ knpts k' = knpts k /\
  forall x, count_q (f x) (kvec k') = count_q x (kvec k).
Proof.
  intros Hf H W.
  pose proof (wf_nonempty _ _ W) as Hne.
  assert (C : count_q (first_q (map f (kvec k))) (map f (kvec k)) = (kdeg k + 1)%nat).
  { rewrite first_q_map by exact Hne. rewrite count_q_map_inj by exact Hf.
    apply wf_count_first, W. }
  pose proof (make_vec _ _ _ H) as Hv.
  pose proof (make_none_deg _ _ _ H C) as Hd.
  repeat split.
  - exact Hv.
  - exact Hd.
  - unfold knpts. rewrite Hd, Hv, map_length. reflexivity.
  - intro x. rewrite Hv. apply count_q_map_inj, Hf.
Qed.

Lemma shift_inj a x y : Qred (x + a) == Qred (y + a) <-> x == y.
Proof. rewrite !Qred_correct. split; intro H; lra. Qed.

Lemma scale_inj s x y : 0 < s -> (Qred (x * s) == Qred (y * s) <-> x == y).
Proof.
  intro Hs. rewrite !Qred_correct. split; intro H; [|rewrite H; reflexivity].
  destruct (Q_dec x y) as [[L|L]|L]; [exfalso; nra | exfalso; nra | exact L].
Qed.

Lemma div_inj s x y : 0 < s -> (Qred (x / s) == Qred (y / s) <-> x == y).
Proof.
  intro Hs. rewrite !Qred_correct. split; intro H; [|rewrite H; reflexivity].
  assert (E : x == (x / s) * s) by (field; lra).
  assert (F : y == (y / s) * s) by (field; lra).
  rewrite E, F, H. reflexivity.
Qed.

Theorem kshift_vec k a k' :
  kshift k a = Ok k' -> kvec k' = map (fun x => Qred (x + a)) (kvec k).
Proof. unfold kshift. apply make_vec. Qed.

Theorem kshift_struct k a k' :
  kshift k a = Ok k' -> WF (kvec k) (kdeg k) ->
  kdeg k' = kdeg k /\ knpts k' = knpts k /\
  forall x, count_q (Qred (x + a)) (kvec k') = count_q x (kvec k).
Proof.
  unfold kshift. intros H W.
  destruct (make_map_struct (fun x => Qred (x + a)) k k' (shift_inj a) H W) as (_ & A & B & C).
  repeat split; assumption.
Qed.

Theorem kscale_vec k s k' :
  kscale k s = Ok k' -> 0 < s /\ kvec k' = map (fun x => Qred (x * s)) (kvec k).
Proof.
  unfold kscale. destruct (Qltb_spec 0 s) as [Hs|Hs]; [|discriminate].
  intro H. split; [exact Hs | exact (make_vec _ _ _ H)].
Qed.

Theorem kscale_struct k s k' :
  kscale k s = Ok k' -> WF (kvec k) (kdeg k) ->
  kdeg k' = kdeg k /\ knpts k' = knpts k /\
  forall x, count_q (Qred (x * s)) (kvec k') = count_q x (kvec k).
Proof.
  unfold kscale. destruct (Qltb_spec 0 s) as [Hs|Hs]; [|discriminate]. intros H W.
  destruct (make_map_struct (fun x => Qred (x * s)) k k' (fun x y => scale_inj s x y Hs) H W)
    as (_ & A & B & C).
  repeat split; assumption.
Qed.

(* limits of a well-formed vector are its first and last entries *)
Lemma wf_umin_first v p : WF v p -> umin_of v p == first_q v.
Proof.
  intro W. destruct (wf_parts _ _ W) as (_ & L & _).
  unfold umin_of. rewrite first_q_nthq by lia. apply (wf_first_block _ _ W). lia.
Qed.

Lemma wf_umax_last v p : WF v p -> umax_of v p == last_q v.
Proof. intro W. unfold umax_of. apply (wf_last_block _ _ W). lia. Qed.

Lemma wf_first_lt_last v p : WF v p -> first_q v < last_q v.
Proof.
  intro W. rewrite <- (wf_umin_first _ _ W), <- (wf_umax_last _ _ W).
  apply wf_umin_lt_umax, W.
Qed.

Lemma make_nonempty v d k : make v d = Ok k -> v <> [].
Proof.
  unfold make. destruct (is_valid v d) eqn:E; [|discriminate]. intros _ Hv. subst v.
  discriminate E.
Qed.

Definition norm_map (v : list Q) (x : Q) : Q := (x - first_q v) / (last_q v - first_q v).

(* decomposition of knormalize into its two makes *)
Lemma knormalize_inv k k' : knormalize k = Ok k' ->
  exists k1, kshift k (- first_q (kvec k)) = Ok k1 /\
    make (map (fun x => Qred (x / last_q (kvec k1))) (kvec k1)) None = Ok k'.
Proof.
  unfold knormalize. destruct (kshift k (- first_q (kvec k))) as [k1|e] eqn:E; cbn [bind]; [|discriminate].
  intro H. exists k1. split; [reflexivity | exact H].
Qed.

Lemma knormalize_facts k k' : knormalize k = Ok k' ->
  exists k1, kshift k (- first_q (kvec k)) = Ok k1 /\
    make (map (fun x => Qred (x / last_q (kvec k1))) (kvec k1)) None = Ok k' /\
    kvec k <> [] /\
    last_q (kvec k1) == last_q (kvec k) - first_q (kvec k) /\
    0 < last_q (kvec k1).
Proof.
  intro H. destruct (knormalize_inv _ _ H) as (k1 & H1 & H2). exists k1.
  pose proof (kshift_vec _ _ _ H1) as V1.
  pose proof (kshift_wf _ _ _ H1) as W1.
  assert (Hne : kvec k <> []).
  { intro E. unfold kshift in H1. apply make_nonempty in H1. rewrite E in H1. apply H1. reflexivity. }
  assert (L : last_q (kvec k1) == last_q (kvec k) - first_q (kvec k)).
  { rewrite V1, last_q_map by exact Hne. rewrite Qred_correct. ring. }
  assert (F : first_q (kvec k1) == 0).
  { rewrite V1, first_q_map by exact Hne. rewrite Qred_correct. ring. }
  pose proof (wf_first_lt_last _ _ W1) as P.
  repeat split; try assumption. lra.
Qed.

Theorem knormalize_vec k k' : knormalize k = Ok k' ->
  Forall2 Qeq (kvec k')
    (map (fun x => (x - first_q (kvec k)) / (last_q (kvec k) - first_q (kvec k))) (kvec k)).
Proof.
  intro H. destruct (knormalize_facts _ _ H) as (k1 & H1 & H2 & Hne & L & P).
  rewrite (make_vec _ _ _ H2), (kshift_vec _ _ _ H1), map_map.
  apply Forall2_Qeq_map. intro x.
  cbv beta. rewrite (kshift_vec _ _ _ H1) in L. rewrite Qred_correct, L, Qred_correct. unfold Qminus. reflexivity.
Qed.

Lemma knormalize_first_lt_last k k' : knormalize k = Ok k' -> first_q (kvec k) < last_q (kvec k).
Proof.
  intro H. destruct (knormalize_facts _ _ H) as (k1 & _ & _ & _ & L & P). lra.
Qed.

(* the result of a successful normalisation lives on [0, 1] *)
Theorem knormalize_limits k k' : knormalize k = Ok k' ->
  umin_of (kvec k') (kdeg k') == 0 /\ umax_of (kvec k') (kdeg k') == 1.
Proof.
  intro H. pose proof (knormalize_wf _ _ H) as W'.
  pose proof (knormalize_vec _ _ H) as V.
  pose proof (knormalize_first_lt_last _ _ H) as P.
  destruct (knormalize_facts _ _ H) as (_ & _ & _ & Hne & _ & _).
  destruct (wf_parts _ _ W') as (_ & L' & _).
  split.
  - rewrite (wf_umin_first _ _ W'). rewrite first_q_nthq by lia.
    rewrite (Forall2_Qeq_nthq _ _ V). rewrite nthq_map by exact Hne.
    rewrite <- first_q_nthq by (destruct (kvec k); [congruence | cbn; lia]).
    unfold Qdiv. ring.
  - rewrite (wf_umax_last _ _ W'). unfold last_q.
    rewrite (Forall2_Qeq_last _ _ 0 0 V) by reflexivity.
    rewrite last_map by exact Hne. fold (last_q (kvec k)). field. lra.
Qed.

Theorem knormalize_struct k k' : knormalize k = Ok k' -> WF (kvec k) (kdeg k) ->
  kdeg k' = kdeg k /\ knpts k' = knpts k /\
  (forall x, count_q ((x - first_q (kvec k)) / (last_q (kvec k) - first_q (kvec k))) (kvec k')
             = count_q x (kvec k)) /\
  umin_of (kvec k') (kdeg k') == 0 /\ umax_of (kvec k') (kdeg k') == 1.
Proof.
  intros H W. destruct (knormalize_facts _ _ H) as (k1 & H1 & H2 & Hne & L & P).
  destruct (kshift_struct _ _ _ H1 W) as (D1 & N1 & C1).
  pose proof (kshift_wf _ _ _ H1) as W1.
  destruct (make_map_struct (fun x => Qred (x / last_q (kvec k1))) k1 k'
              (fun x y => div_inj _ x y P) H2 W1) as (_ & D2 & N2 & C2).
  split; [congruence|]. split; [congruence|]. split; [|exact (knormalize_limits _ _ H)].
  intro x. rewrite <- C1, <- C2. apply count_q_proper; [|reflexivity].
  rewrite Qred_correct, L, Qred_correct. unfold Qminus. reflexivity.
Qed.

(* ------------------------------------------------------------------ *)
(* G6. the basis is invariant under an increasing affine               *)
(*     reparametrisation (list level)                                  *)
(* ------------------------------------------------------------------ *)

Lemma ind0_ext (U V : nat -> Q) n i u v :
  (forall i, U i == V i) -> u == v -> ind0 U n i u = ind0 V n i v.
Proof.
  intros H E. unfold ind0.
  rewrite (Qleb_proper _ _ (H i) _ _ E), (Qltb_proper _ _ E _ _ (H (S i))),
          (Qeqb_proper _ _ E _ _ (H n)), (Qltb_proper _ _ (H i) _ _ E),
          (Qeqb_proper _ _ (H (S i)) _ _ (H n)).
  reflexivity.
Qed.

Lemma N_ext (U V : nat -> Q) n u v :
  (forall i, U i == V i) -> u == v -> forall j i, N U n j i u == N V n j i v.
Proof.
  intros H E. induction j as [|j' IH]; intro i; cbn [N].
  - rewrite (ind0_ext U V n i u v H E). reflexivity.
  - rewrite (IH i), (IH (S i)), E, (H i), (H (i + S j')%nat), (H (i + S j' + 1)%nat), (H (i + 1)%nat).
    reflexivity.
Qed.

Lemma npts_of_map (f : Q -> Q) U p : npts_of (map f U) p = npts_of U p.
Proof. unfold npts_of. rewrite map_length. reflexivity. Qed.

(* general form: any list map that is pointwise an increasing affine map *)
Theorem Nspec_reparam (f : Q -> Q) (c a : Q) U p j i u u' :
  0 < c -> (forall x, f x == c * x + a) -> U <> [] -> u' == c * u + a ->
  Nspec (map f U) p j i u' == Nspec U p j i u.
Proof.
  intros Hc Hf Hne Hu. unfold Nspec. rewrite npts_of_map.
  rewrite (N_ext (nthq (map f U)) (fun i => c * nthq U i + a) (npts_of U p) u' (c * u + a)).
  - apply N_affine. exact Hc.
  - intro k. rewrite nthq_map by exact Hne. apply Hf.
  - exact Hu.
Qed.

Theorem Nspec_affine (c a : Q) U p j i u :
  0 < c -> U <> [] ->
  Nspec (map (fun x => Qred (c * x + a)) U) p j i (c * u + a) == Nspec U p j i u.
Proof.
  intros Hc Hne. apply (Nspec_reparam _ c a); try assumption; try reflexivity.
  intro x. apply Qred_correct.
Qed.

Theorem curve_spec1_reparam (f : Q -> Q) (c a : Q) U p P u u' :
  0 < c -> (forall x, f x == c * x + a) -> U <> [] -> u' == c * u + a ->
  curve_spec1 (map f U) p P u' == curve_spec1 U p P u.
Proof.
  intros Hc Hf Hne Hu. unfold curve_spec1. rewrite npts_of_map.
  apply qsum_map_ext. intros i _.
  rewrite (Nspec_reparam f c a U p p i u u' Hc Hf Hne Hu). reflexivity.
Qed.

Corollary curve_spec1_affine (c a : Q) U p P u :
  0 < c -> U <> [] ->
  curve_spec1 (map (fun x => Qred (c * x + a)) U) p P (c * u + a) == curve_spec1 U p P u.
Proof.
  intros Hc Hne. apply (curve_spec1_reparam _ c a); try assumption; try reflexivity.
  intro x. apply Qred_correct.
Qed.

(* the exact maps of the model: shift (c = 1) and scale (a = 0) *)
Corollary Nspec_shift a U p j i u : U <> [] ->
  Nspec (map (fun x => Qred (x + a)) U) p j i (u + a) == Nspec U p j i u.
Proof.
  intro Hne. apply (Nspec_reparam _ 1 a); try assumption; [lra | | ring].
  intro x. rewrite Qred_correct. ring.
Qed.

Corollary Nspec_scale s U p j i u : 0 < s -> U <> [] ->
  Nspec (map (fun x => Qred (x * s)) U) p j i (u * s) == Nspec U p j i u.
Proof.
  intros Hs Hne. apply (Nspec_reparam _ s 0); try assumption; [ | ring].
  intro x. rewrite Qred_correct. ring.
Qed.

Corollary curve_spec1_shift a U p P u : U <> [] ->
  curve_spec1 (map (fun x => Qred (x + a)) U) p P (u + a) == curve_spec1 U p P u.
Proof.
  intro Hne. apply (curve_spec1_reparam _ 1 a); try assumption; [lra | | ring].
  intro x. rewrite Qred_correct. ring.
Qed.

Corollary curve_spec1_scale s U p P u : 0 < s -> U <> [] ->
  curve_spec1 (map (fun x => Qred (x * s)) U) p P (u * s) == curve_spec1 U p P u.
Proof.
  intros Hs Hne. apply (curve_spec1_reparam _ s 0); try assumption; [ | ring].
  intro x. rewrite Qred_correct. ring.
Qed.

(* ... and on the model operations themselves *)
Corollary kshift_basis k a k' p j i u : kshift k a = Ok k' ->
  Nspec (kvec k') p j i (u + a) == Nspec (kvec k) p j i u.
Proof.
  intro H. rewrite (kshift_vec _ _ _ H). apply Nspec_shift.
  intro E. unfold kshift in H. apply make_nonempty in H. rewrite E in H. apply H. reflexivity.
Qed.

Corollary kscale_basis k s k' p j i u : kscale k s = Ok k' ->
  Nspec (kvec k') p j i (u * s) == Nspec (kvec k) p j i u.
Proof.
  intro H. destruct (kscale_vec _ _ _ H) as [Hs V]. rewrite V. apply Nspec_scale; [exact Hs|].
  intro E. unfold kscale in H. destruct (Qltb 0 s); [|discriminate].
  apply make_nonempty in H. rewrite E in H. apply H. reflexivity.
Qed.

Corollary knormalize_basis k k' p j i u : knormalize k = Ok k' ->
  Nspec (kvec k') p j i ((u - first_q (kvec k)) / (last_q (kvec k) - first_q (kvec k)))
  == Nspec (kvec k) p j i u.
Proof.
  intro H. destruct (knormalize_facts _ _ H) as (k1 & H1 & H2 & Hne & L & P).
  rewrite (make_vec _ _ _ H2), (kshift_vec _ _ _ H1), map_map.
  rewrite (kshift_vec _ _ _ H1) in L, P.
  set (lv := last_q (map (fun x : Q => Qred (x + - first_q (kvec k))) (kvec k))) in *.
  apply (Nspec_reparam _ (/ lv) (- first_q (kvec k) / lv)); try assumption.
  - apply Qinv_lt_0_compat. exact P.
  - intro x. rewrite !Qred_correct. field. lra.
  - rewrite <- L. field. lra.
Qed.

(* ------------------------------------------------------------------ *)
(* G1. bezier                                                          *)
(* ------------------------------------------------------------------ *)

Lemma last_app_repeat (l : list Q) x n d : last (l ++ repeat x (S n)) d = x.
Proof.
  change (repeat x (S n)) with (x :: repeat x n). rewrite repeat_cons, app_assoc. apply last_last.
Qed.

Lemma Q01 : ~ 0 == 1.
Proof. intro E. lra. Qed.

Theorem gen_bezier_struct p k : gen_bezier p = Ok k ->
  kdeg k = p /\ knpts k = (p + 1)%nat /\
  kvec k = repeat 0 (p + 1) ++ repeat 1 (p + 1) /\
  umin_of (kvec k) p == 0 /\ umax_of (kvec k) p == 1.
Proof.
  unfold gen_bezier. intro H.
  pose proof (make_vec _ _ _ H) as V.
  assert (C : count_q (first_q (repeat 0 (p + 1) ++ repeat 1 (p + 1)))
                (repeat 0 (p + 1) ++ repeat 1 (p + 1)) = (p + 1)%nat).
  { replace (first_q (repeat 0 (p + 1) ++ repeat 1 (p + 1))) with 0
      by (replace (p + 1)%nat with (S p) by lia; reflexivity).
    rewrite count_q_app, count_q_repeat_same by reflexivity.
    rewrite count_q_repeat_diff by exact Q01. lia. }
  pose proof (make_none_deg _ _ _ H C) as D.
  pose proof (make_wf _ _ _ H) as W. rewrite D in W.
  split; [exact D|]. split.
  - rewrite (make_none_npts _ _ _ H C), app_length, !repeat_length. lia.
  - split; [exact V|]. split.
    + rewrite (wf_umin_first _ _ W), V. replace (p + 1)%nat with (S p) by lia. reflexivity.
    + rewrite (wf_umax_last _ _ W), V. unfold last_q.
      replace (p + 1)%nat with (S p) by lia. rewrite last_app_repeat. reflexivity.
Qed.

(* ------------------------------------------------------------------ *)
(* G2. integer                                                         *)
(* ------------------------------------------------------------------ *)

Definition iz (i : nat) : Q := inject_Z (Z.of_nat i).

Lemma iz_inj a b : iz a == iz b <-> a = b.
Proof.
  unfold iz. rewrite inject_Z_injective. split; [apply Nat2Z.inj | intro E; rewrite E; reflexivity].
Qed.

Lemma count_iz_seq a : forall l s,
  count_q (iz a) (map iz (seq s l)) = if ((s <=? a) && (a <? s + l))%nat then 1%nat else 0%nat.
Proof.
  induction l as [|l IH]; intro s; cbn [seq map].
  - rewrite count_q_nil.
    destruct (Nat.leb_spec s a), (Nat.ltb_spec a (s + 0)); cbn [andb]; try reflexivity; lia.
  - rewrite count_q_cons, IH.
    destruct (Qeqb_spec (iz a) (iz s)) as [E|E]; rewrite iz_inj in E;
      destruct (Nat.leb_spec s a), (Nat.ltb_spec a (s + S l)),
               (Nat.leb_spec (S s) a), (Nat.ltb_spec a (S s + l));
      cbn [andb]; try reflexivity; lia.
Qed.

Lemma nthq_mid (A B C : list Q) i : (i < length B)%nat ->
  nthq (A ++ B ++ C) (length A + i) = nth i B 0.
Proof.
  intro H. unfold nthq. rewrite app_nth2 by lia.
  replace (length A + i - length A)%nat with i by lia.
  rewrite app_nth1 by exact H. apply nth_indep. exact H.
Qed.

Lemma nth_map_iz_seq i l : (i < l)%nat -> nth i (map iz (seq 0 l)) 0 = iz i.
Proof.
  intro H. change 0 with (iz 0). rewrite map_nth, seq_nth by exact H. reflexivity.
Qed.

Definition integer_vec (p n : nat) : list Q :=
  repeat 0 p ++ map iz (seq 0 (n - p - 1 + 2)) ++ repeat (iz (n - p - 1 + 1)) p.

Lemma gen_integer_inv p n k : gen_integer p n = Ok k ->
  (p < n)%nat /\ make (integer_vec p n) None = Ok k.
Proof.
  unfold gen_integer. destruct (Nat.ltb_spec p n) as [Hpn|Hpn]; [|discriminate].
  intro M. split; [exact Hpn | exact M].
Qed.

Lemma integer_vec_first p n : first_q (integer_vec p n) = 0.
Proof.
  unfold integer_vec. destruct p; [|reflexivity].
  replace (n - 0 - 1 + 2)%nat with (S (S (n - 0 - 1))) by lia. reflexivity.
Qed.

Lemma integer_vec_count p n : count_q (first_q (integer_vec p n)) (integer_vec p n) = (p + 1)%nat.
Proof.
  rewrite integer_vec_first. unfold integer_vec.
  rewrite !count_q_app, count_q_repeat_same by reflexivity.
  change (count_q 0 (map iz (seq 0 (n - p - 1 + 2))))
    with (count_q (iz 0) (map iz (seq 0 (n - p - 1 + 2)))).
  rewrite count_iz_seq.
  rewrite count_q_repeat_diff.
  - destruct (Nat.leb_spec 0 0), (Nat.ltb_spec 0 (0 + (n - p - 1 + 2))); cbn [andb]; lia.
  - change 0 with (iz 0). rewrite iz_inj. lia.
Qed.

Theorem gen_integer_struct p n k : gen_integer p n = Ok k ->
  kdeg k = p /\ knpts k = n /\
  (forall i, (i <= n - p)%nat -> nthq (kvec k) (p + i) == inject_Z (Z.of_nat i)).
Proof.
  intro H. destruct (gen_integer_inv _ _ _ H) as [Hpn M].
  pose proof (integer_vec_count p n) as C.
  split; [exact (make_none_deg _ _ _ M C)|]. split.
  - rewrite (make_none_npts _ _ _ M C). unfold integer_vec.
    rewrite !app_length, !repeat_length, map_length, seq_length. lia.
  - intros i Hi. rewrite (make_vec _ _ _ M). unfold integer_vec.
    pose proof (nthq_mid (repeat 0 p) (map iz (seq 0 (n - p - 1 + 2))) (repeat (iz (n - p - 1 + 1)) p) i) as E.
    rewrite repeat_length, map_length, seq_length in E.
    rewrite E by lia. rewrite nth_map_iz_seq by lia. reflexivity.
Qed.

Theorem gen_integer_refuses p n : (n <= p)%nat -> gen_integer p n = Err AssertionError.
Proof.
  intro H. unfold gen_integer. destruct (Nat.ltb_spec p n); [lia | reflexivity].
Qed.

(* first and last value of the integer vector, read off the block lemmas *)
Lemma gen_integer_first_last p n k : gen_integer p n = Ok k ->
  first_q (kvec k) == 0 /\ last_q (kvec k) == inject_Z (Z.of_nat (n - p)).
Proof.
  intro H. pose proof (gen_integer_wf _ _ _ H) as W.
  destruct (gen_integer_struct _ _ _ H) as (D & Np & B). rewrite D in W.
  destruct (gen_integer_inv _ _ _ H) as [Hpn _].
  destruct (wf_parts _ _ W) as (_ & L & _).
  split.
  - rewrite first_q_nthq by lia. rewrite <- (wf_first_block _ _ W p) by lia.
    pose proof (B 0%nat ltac:(lia)) as B0. rewrite Nat.add_0_r in B0. exact B0.
  - rewrite <- (wf_last_block _ _ W (p + (n - p))%nat).
    + apply B. lia.
    + unfold knpts in Np. rewrite D in Np. lia.
Qed.

(* ------------------------------------------------------------------ *)
(* G4. uniform                                                         *)
(* ------------------------------------------------------------------ *)

Theorem gen_uniform_struct p n k : gen_uniform p n = Ok k ->
  kdeg k = p /\ knpts k = n /\
  umin_of (kvec k) (kdeg k) == 0 /\ umax_of (kvec k) (kdeg k) == 1 /\
  (forall i, (i <= n - p)%nat ->
     nthq (kvec k) (p + i) == inject_Z (Z.of_nat i) / inject_Z (Z.of_nat (n - p))).
Proof.
  unfold gen_uniform. destruct (gen_integer p n) as [k0|e] eqn:G; cbn [bind]; [|discriminate].
  intro H. pose proof (gen_integer_wf _ _ _ G) as W0.
  destruct (gen_integer_struct _ _ _ G) as (D0 & N0 & B0).
  destruct (gen_integer_first_last _ _ _ G) as (F0 & L0).
  destruct (knormalize_struct _ _ H W0) as (D & Np & _ & Lo & Hi).
  split; [congruence|]. split; [congruence|]. split; [exact Lo|]. split; [exact Hi|].
  intros i Hle.
  rewrite (Forall2_Qeq_nthq _ _ (knormalize_vec _ _ H)).
  rewrite nthq_map by exact (wf_nonempty _ _ W0).
  rewrite (B0 i Hle), F0, L0. unfold Qminus. rewrite !Qplus_0_r.
  reflexivity.
Qed.

(* ------------------------------------------------------------------ *)
(* G5. weight / random                                                 *)
(* ------------------------------------------------------------------ *)

Lemma cumsum_length : forall ws acc, length (cumsum acc ws) = length ws.
Proof. induction ws as [|w ws IH]; intro acc; cbn; [reflexivity | rewrite IH; reflexivity]. Qed.

Lemma cumsum_gt : forall ws acc, Forall (fun w => 0 < w) ws ->
  forall y, In y (cumsum acc ws) -> acc < y.
Proof.
  induction ws as [|w ws IH]; intros acc HF y Hy; [destruct Hy|].
  inversion HF as [|w' ws' Hw HF']; subst. cbn [cumsum] in Hy. cbv zeta in Hy.
  assert (A : acc < Qred (acc + w)) by (rewrite Qred_correct; lra).
  destruct Hy as [Hy|Hy].
  - rewrite <- Hy. exact A.
  - pose proof (IH _ HF' y Hy). lra.
Qed.

Lemma cumsum_diff : forall ws acc i, (i < length ws)%nat ->
  nth (S i) (acc :: cumsum acc ws) 0 - nth i (acc :: cumsum acc ws) 0 == nth i ws 0.
Proof.
  induction ws as [|w ws IH]; intros acc i Hi; [cbn in Hi; lia|].
  cbn [cumsum]. cbv zeta. destruct i as [|i].
  - cbn [nth]. rewrite Qred_correct. ring.
  - change (nth (S (S i)) (acc :: Qred (acc + w) :: cumsum (Qred (acc + w)) ws) 0)
      with (nth (S i) (Qred (acc + w) :: cumsum (Qred (acc + w)) ws) 0).
    change (nth (S i) (acc :: Qred (acc + w) :: cumsum (Qred (acc + w)) ws) 0)
      with (nth i (Qred (acc + w) :: cumsum (Qred (acc + w)) ws) 0).
    change (nth (S i) (w :: ws) 0) with (nth i ws 0).
    apply IH. cbn [length] in Hi. lia.
Qed.

Lemma In_last (l : list Q) d : l <> [] -> In (last l d) l.
Proof.
  induction l as [|a l IH]; [congruence|]. intros _.
  destruct l as [|b t]; [left; reflexivity|].
  rewrite last_cons2. right. apply IH. discriminate.
Qed.

Definition weight_vec (p : nat) (ws : list Q) : list Q :=
  repeat 0 p ++ (0 :: cumsum 0 ws) ++ repeat (last_q (0 :: cumsum 0 ws)) p.

Lemma gen_weight_inv p ws k : gen_weight p ws = Ok k ->
  ws <> [] /\ make (weight_vec p ws) None = Ok k.
Proof.
  unfold gen_weight. destruct ws as [|w ws]; [discriminate|].
  intro H. split; [discriminate | exact H].
Qed.

Lemma weight_vec_first p ws : first_q (weight_vec p ws) = 0.
Proof. unfold weight_vec. destruct p; reflexivity. Qed.

Lemma weight_vec_count p ws : ws <> [] -> Forall (fun w => 0 < w) ws ->
  count_q (first_q (weight_vec p ws)) (weight_vec p ws) = (p + 1)%nat.
Proof.
  intros Hne HF. rewrite weight_vec_first. unfold weight_vec.
  rewrite !count_q_app, count_q_repeat_same by reflexivity.
  rewrite count_q_cons.
  assert (Z : count_q 0 (cumsum 0 ws) = 0%nat).
  { apply count_q_none. intros y Hy E. pose proof (cumsum_gt _ _ HF y Hy). lra. }
  rewrite Z. rewrite count_q_repeat_diff.
  - destruct (Qeqb_spec 0 0) as [_|N]; [lia | exfalso; apply N; reflexivity].
  - intro E. unfold last_q in E.
    assert (Hc : cumsum 0 ws <> []).
    { destruct ws; [congruence | discriminate]. }
    assert (I : In (last (0 :: cumsum 0 ws) 0) (cumsum 0 ws)).
    { destruct (cumsum 0 ws) as [|a t] eqn:Ec; [congruence|].
      rewrite last_cons2. apply In_last. discriminate. }
    pose proof (cumsum_gt _ _ HF _ I). lra.
Qed.

Theorem gen_weight_struct p ws k : gen_weight p ws = Ok k -> Forall (fun w => 0 < w) ws ->
  kdeg k = p /\ knpts k = (p + length ws)%nat.
Proof.
  intros H HF. destruct (gen_weight_inv _ _ _ H) as [Hne M].
  pose proof (weight_vec_count p ws Hne HF) as C.
  split; [exact (make_none_deg _ _ _ M C)|].
  rewrite (make_none_npts _ _ _ M C). unfold weight_vec.
  rewrite !app_length, !repeat_length. cbn [length]. rewrite cumsum_length. lia.
Qed.

(* consecutive breakpoints differ by the weights (no positivity needed) *)
Theorem gen_weight_steps p ws k : gen_weight p ws = Ok k ->
  forall i, (i < length ws)%nat ->
    nthq (kvec k) (p + i + 1) - nthq (kvec k) (p + i) == nth i ws 0.
Proof.
  intros H i Hi. destruct (gen_weight_inv _ _ _ H) as [Hne M].
  rewrite (make_vec _ _ _ M). unfold weight_vec.
  pose proof (nthq_mid (repeat 0 p) (0 :: cumsum 0 ws) (repeat (last_q (0 :: cumsum 0 ws)) p)) as E.
  rewrite repeat_length in E. cbn [length] in E. rewrite cumsum_length in E.
  replace (p + i + 1)%nat with (p + S i)%nat by lia.
  rewrite (E (S i)) by lia. rewrite (E i) by lia.
  apply cumsum_diff. exact Hi.
Qed.

(* limits of the normalised vector: for EVERY draw ws on which the generator succeeds *)
Theorem gen_random_from_limits p ws k : gen_random_from p ws = Ok k ->
  umin_of (kvec k) (kdeg k) == 0 /\ umax_of (kvec k) (kdeg k) == 1.
Proof.
  unfold gen_random_from. destruct (gen_weight p ws) as [k0|e]; cbn [bind]; [|discriminate].
  apply knormalize_limits.
Qed.

Theorem gen_random_from_struct p ws k : gen_random_from p ws = Ok k ->
  Forall (fun w => 0 < w) ws ->
  kdeg k = p /\ knpts k = (p + length ws)%nat /\
  umin_of (kvec k) (kdeg k) == 0 /\ umax_of (kvec k) (kdeg k) == 1.
Proof.
  intros H HF. pose proof (gen_random_from_limits _ _ _ H) as Lim. revert H.
  unfold gen_random_from. destruct (gen_weight p ws) as [k0|e] eqn:G; cbn [bind]; [|discriminate].
  intro H. pose proof (gen_weight_wf _ _ _ G) as W0.
  destruct (gen_weight_struct _ _ _ G HF) as (D0 & N0).
  destruct (knormalize_struct _ _ H W0) as (D & Np & _).
  split; [congruence|]. split; [congruence | exact Lim].
Qed.

(* ------------------------------------------------------------------ *)
(* Examples: the hypotheses are satisfiable                            *)
(* ------------------------------------------------------------------ *)

Example gen_uniform_2_5 :
  gen_uniform 2 5 = Ok (mkkv [0; 0; 0; 1#3; 2#3; 1; 1; 1] 2).
Proof. vm_compute. reflexivity. Qed.

Example gen_bezier_3 : gen_bezier 3 = Ok (mkkv [0; 0; 0; 0; 1; 1; 1; 1] 3).
Proof. vm_compute. reflexivity. Qed.

Example gen_integer_1_4 : gen_integer 1 4 = Ok (mkkv [0; 0; 1; 2; 3; 3] 1).
Proof. vm_compute. reflexivity. Qed.

Example gen_weight_2 : gen_weight 2 [1#2; 3#2] = Ok (mkkv [0; 0; 0; 1#2; 2; 2; 2] 2).
Proof. vm_compute. reflexivity. Qed.

Example gen_random_from_2 :
  gen_random_from 2 [1#2; 3#2] = Ok (mkkv [0; 0; 0; 1#4; 1; 1; 1] 2).
Proof. vm_compute. reflexivity. Qed.

Example kshift_ex :
  kshift (mkkv [0; 0; 1#2; 1; 1] 1) (3#2) = Ok (mkkv [3#2; 3#2; 2; 5#2; 5#2] 1).
Proof. vm_compute. reflexivity. Qed.

(* ------------------------------------------------------------------ *)
(* Completeness of [make] on well-formed vectors, and totality of the  *)
(* generators / affine maps (the success halves)                       *)
(* ------------------------------------------------------------------ *)

Lemma wf_iff v p : WF v p <->
  sorted_b v = true /\ (2 * p + 2 <= length v)%nat /\
  count_q (first_q v) v = (p + 1)%nat /\ count_q (last_q v) v = (p + 1)%nat /\
  (forall x, In x v -> (count_q x v <= p + 1)%nat).
Proof.
  unfold WF, wf_b. rewrite !andb_true_iff, Nat.leb_le, !Nat.eqb_eq, forallb_forall.
  split.
  - intros ((((A & B) & C) & D) & E). repeat split; try assumption.
    intros x Hx. apply Nat.leb_le, E, Hx.
  - intros (A & B & C & D & E). repeat split; try assumption.
    intros x Hx. apply Nat.leb_le, E, Hx.
Qed.

Lemma infer_deg_step a t : (2 <= length t)%nat ->
  infer_deg (a :: t) = if Qeqb a (hd 0 t) then S (infer_deg t) else O.
Proof.
  destruct t as [|b [|c t']]; cbn [length]; intro H; try lia. reflexivity.
Qed.

Lemma infer_deg_spec : forall p v, (p + 2 <= length v)%nat ->
  (forall i, (i < p)%nat -> nth i v 0 == nth (S i) v 0) ->
  ~ nth p v 0 == nth (S p) v 0 ->
  infer_deg v = p.
Proof.
  induction p as [|p IH]; intros v L E N.
  - destruct v as [|a [|b [|c t]]]; cbn [length] in L; try lia; [reflexivity|].
    cbn [nth] in N. cbn [infer_deg]. destruct (Qeqb_spec a b); [contradiction | reflexivity].
  - destruct v as [|a t]; cbn [length] in L; [lia|].
    rewrite infer_deg_step by lia.
    assert (A : Qeqb a (hd 0 t) = true).
    { apply Qeqb_eq. pose proof (E 0%nat ltac:(lia)) as E0. cbn [nth] in E0.
      destruct t; [cbn in L; lia | exact E0]. }
    rewrite A. f_equal. apply IH.
    + lia.
    + intros i Hi. apply (E (S i)). lia.
    + exact N.
Qed.

Lemma wf_infer_deg v p : WF v p -> infer_deg v = p.
Proof.
  intro W. destruct (wf_parts _ _ W) as (_ & L & _).
  apply infer_deg_spec; [lia | |].
  - intros i Hi. rewrite <- !(nthq_in_range v _ 0) by lia.
    rewrite (wf_first_block _ _ W i), (wf_first_block _ _ W (S i)) by lia. reflexivity.
  - rewrite <- !(nthq_in_range v _ 0) by lia.
    pose proof (wf_interior_strict_lo _ _ W). lra.
Qed.

(* [make] accepts exactly the well-formed vectors, with the degree read off the first block *)
Theorem make_complete v p : WF v p -> make v None = Ok (mkkv v p).
Proof.
  intro W. pose proof (wf_infer_deg _ _ W) as D.
  destruct (proj1 (wf_iff v p) W) as (S & L & Cf & Cl & Fa).
  assert (E1 : first_q v == nthz p v).
  { unfold nthz. rewrite first_q_nthq by lia. rewrite <- (nthq_in_range v p 0) by lia.
    symmetry. apply (wf_first_block _ _ W). lia. }
  assert (E2 : nthz (length v - p - 1) v == last_q v).
  { unfold nthz. rewrite <- (nthq_in_range v _ 0) by lia. apply (wf_last_block _ _ W). lia. }
  unfold make.
  assert (V : is_valid v None = true).
  { unfold is_valid. cbv zeta. rewrite D, S.
    rewrite <- E1, E2, Cf, Cl.
    assert (X1 : (2 <=? length v)%nat = true) by (apply Nat.leb_le; lia).
    assert (X2 : (p <? length v - p - 1)%nat = true) by (apply Nat.ltb_lt; lia).
    assert (X3 : Qeqb (first_q v) (first_q v) = true) by (apply Qeqb_eq; reflexivity).
    assert (X4 : Qeqb (last_q v) (last_q v) = true) by (apply Qeqb_eq; reflexivity).
    assert (X5 : forallb (fun k : Q => (count_q k v <=? p + 1)%nat) v = true).
    { apply forallb_forall. intros x Hx. apply Nat.leb_le, Fa, Hx. }
    rewrite X1, X2, X3, X4, X5, !Nat.eqb_refl. reflexivity. }
  rewrite V, D. reflexivity.
Qed.

Corollary make_iff_wf v k : make v None = Ok k <-> (WF v (kdeg k) /\ kvec k = v).
Proof.
  split.
  - intro H. pose proof (make_wf _ _ _ H) as W. pose proof (make_vec _ _ _ H) as V.
    rewrite V in W. split; assumption.
  - intros [W V]. rewrite (make_complete _ _ W). destruct k as [kv kd]. cbn in V |- *. subst. reflexivity.
Qed.

(* sortedness of concatenations / maps / constant blocks *)
Lemma sorted_b_app l1 l2 : sorted_b l1 = true -> sorted_b l2 = true ->
  (forall x y, In x l1 -> In y l2 -> x <= y) -> sorted_b (l1 ++ l2) = true.
Proof.
  induction l1 as [|a l1 IH]; intros S1 S2 H; [exact S2|].
  destruct l1 as [|b t].
  - cbn [app]. destruct l2 as [|c l2]; [reflexivity|].
    rewrite sorted_b_cons2, S2, andb_true_r. apply Qleb_le, H; left; reflexivity.
  - rewrite sorted_b_cons2 in S1. apply andb_true_iff in S1. destruct S1 as [Sab St].
    change ((a :: b :: t) ++ l2) with (a :: b :: (t ++ l2)).
    rewrite sorted_b_cons2, Sab. cbn [andb].
    apply (IH St S2). intros x y Hx Hy. apply H; [right; exact Hx | exact Hy].
Qed.

Lemma sorted_b_repeat x n : sorted_b (repeat x n) = true.
Proof.
  induction n as [|n IH]; [reflexivity|]. destruct n as [|n]; [reflexivity|].
  change (repeat x (S (S n))) with (x :: x :: repeat x n).
  rewrite sorted_b_cons2. change (x :: repeat x n) with (repeat x (S n)). rewrite IH, andb_true_r.
  apply Qleb_le. apply Qle_refl.
Qed.

Lemma sorted_b_map (f : Q -> Q) v : (forall x y, x <= y -> f x <= f y) ->
  sorted_b v = true -> sorted_b (map f v) = true.
Proof.
  intro Hf. induction v as [|a v IH]; intro S; [reflexivity|].
  destruct v as [|b t]; [reflexivity|].
  rewrite sorted_b_cons2 in S. apply andb_true_iff in S. destruct S as [Sab St].
  change (map f (a :: b :: t)) with (f a :: f b :: map f t).
  rewrite sorted_b_cons2. change (f b :: map f t) with (map f (b :: t)). rewrite (IH St), andb_true_r.
  apply Qleb_le, Hf, Qleb_le, Sab.
Qed.

(* the image of a well-formed vector under an increasing injective map is well-formed *)
Lemma wf_map (f : Q -> Q) v p :
  (forall x y, f x == f y <-> x == y) -> (forall x y, x <= y -> f x <= f y) ->
  WF v p -> WF (map f v) p.
Proof.
  intros Hi Hm W. pose proof (wf_nonempty _ _ W) as Hne.
  destruct (proj1 (wf_iff v p) W) as (S & L & Cf & Cl & Fa).
  apply wf_iff. repeat split.
  - apply sorted_b_map; assumption.
  - rewrite map_length. exact L.
  - rewrite first_q_map, count_q_map_inj by assumption. exact Cf.
  - rewrite last_q_map, count_q_map_inj by assumption. exact Cl.
  - intros x Hx. apply in_map_iff in Hx. destruct Hx as (y & <- & Hy).
    rewrite count_q_map_inj by assumption. apply Fa, Hy.
Qed.

Theorem kshift_total k a : WF (kvec k) (kdeg k) ->
  kshift k a = Ok (mkkv (map (fun x => Qred (x + a)) (kvec k)) (kdeg k)).
Proof.
  intro W. unfold kshift. apply make_complete. apply wf_map; [apply shift_inj | | exact W].
  intros x y H. rewrite !Qred_correct. lra.
Qed.

Theorem kscale_total k s : WF (kvec k) (kdeg k) -> 0 < s ->
  kscale k s = Ok (mkkv (map (fun x => Qred (x * s)) (kvec k)) (kdeg k)).
Proof.
  intros W Hs. unfold kscale.
  assert (E : Qltb 0 s = true) by (apply Qltb_lt; exact Hs). rewrite E.
  apply make_complete. apply wf_map; [intros x y; apply scale_inj, Hs | | exact W].
  intros x y H. rewrite !Qred_correct. nra.
Qed.

Theorem knormalize_total k : WF (kvec k) (kdeg k) -> exists k', knormalize k = Ok k'.
Proof.
  intro W. unfold knormalize. rewrite (kshift_total _ _ W). cbn [bind kvec].
  set (v1 := map (fun x => Qred (x + - first_q (kvec k))) (kvec k)).
  assert (W1 : WF v1 (kdeg k)).
  { apply wf_map; [apply shift_inj | | exact W]. intros x y H. rewrite !Qred_correct. lra. }
  assert (P : 0 < last_q v1).
  { pose proof (wf_first_lt_last _ _ W1) as F. unfold v1 in F at 1.
    rewrite first_q_map in F by exact (wf_nonempty _ _ W). rewrite Qred_correct in F. lra. }
  eexists. apply make_complete.
  apply (wf_map _ v1 (kdeg k)); [intros x y; apply div_inj, P | | exact W1].
  intros x y H. rewrite !Qred_correct. unfold Qdiv.
  apply Qmult_le_compat_r; [exact H|]. apply Qlt_le_weak, Qinv_lt_0_compat, P.
Qed.

(* bezier: always succeeds *)
Lemma bezier_wf p : WF (repeat 0 (p + 1) ++ repeat 1 (p + 1)) p.
Proof.
  apply wf_iff.
  assert (C0 : count_q 0 (repeat 0 (p + 1) ++ repeat 1 (p + 1)) = (p + 1)%nat).
  { rewrite count_q_app, count_q_repeat_same by reflexivity.
    rewrite count_q_repeat_diff by exact Q01. lia. }
  assert (C1 : count_q 1 (repeat 0 (p + 1) ++ repeat 1 (p + 1)) = (p + 1)%nat).
  { rewrite count_q_app, (count_q_repeat_same 1 1) by reflexivity.
    rewrite count_q_repeat_diff by (intro E; lra). lia. }
  repeat split.
  - apply sorted_b_app; try apply sorted_b_repeat.
    intros x y Hx Hy. apply repeat_spec in Hx, Hy. subst. lra.
  - rewrite app_length, !repeat_length. lia.
  - replace (first_q (repeat 0 (p + 1) ++ repeat 1 (p + 1))) with 0
      by (replace (p + 1)%nat with (S p) by lia; reflexivity).
    exact C0.
  - replace (last_q (repeat 0 (p + 1) ++ repeat 1 (p + 1))) with 1.
    + exact C1.
    + unfold last_q. replace (p + 1)%nat with (S p) by lia. rewrite last_app_repeat. reflexivity.
  - intros x Hx. apply in_app_or in Hx. destruct Hx as [Hx|Hx]; apply repeat_spec in Hx; subst x.
    + rewrite C0. lia.
    + rewrite C1. lia.
Qed.

Theorem gen_bezier_total p :
  gen_bezier p = Ok (mkkv (repeat 0 (p + 1) ++ repeat 1 (p + 1)) p).
Proof. unfold gen_bezier. apply make_complete, bezier_wf. Qed.

(* integer: succeeds exactly when p < n *)
Lemma iz_le a b : (a <= b)%nat -> iz a <= iz b.
Proof. intro H. unfold iz. rewrite <- Zle_Qle. lia. Qed.

Lemma sorted_iz_seq : forall l s, sorted_b (map iz (seq s l)) = true.
Proof.
  induction l as [|l IH]; intro s; [reflexivity|].
  destruct l as [|l]; [reflexivity|].
  change (map iz (seq s (S (S l)))) with (iz s :: iz (S s) :: map iz (seq (S (S s)) l)).
  rewrite sorted_b_cons2.
  change (iz (S s) :: map iz (seq (S (S s)) l)) with (map iz (seq (S s) (S l))).
  rewrite IH, andb_true_r. apply Qleb_le, iz_le. lia.
Qed.

Lemma last_app_ne (l1 l2 : list Q) d : l2 <> [] -> last (l1 ++ l2) d = last l2 d.
Proof.
  intro H. induction l1 as [|a l1 IH]; [reflexivity|].
  cbn [app]. destruct (l1 ++ l2) as [|b t] eqn:E.
  - apply app_eq_nil in E. destruct E. contradiction.
  - rewrite last_cons2. exact IH.
Qed.

Lemma integer_vec_last p n : last_q (integer_vec p n) = iz (n - p - 1 + 1).
Proof.
  unfold integer_vec, last_q. destruct p as [|p].
  - cbn [repeat app]. rewrite app_nil_r.
    replace (n - 0 - 1 + 2)%nat with (S (n - 0 - 1 + 1)) by lia.
    rewrite seq_S, map_app. cbn [map]. rewrite last_last. reflexivity.
  - rewrite app_assoc. apply last_app_repeat.
Qed.

Lemma count_iz_repeat0 j p : count_q (iz j) (repeat 0 p) = if (j =? 0)%nat then p else 0%nat.
Proof.
  destruct (Nat.eqb_spec j 0) as [E|E].
  - subst j. apply count_q_repeat_same. reflexivity.
  - apply count_q_repeat_diff. change 0 with (iz 0). rewrite iz_inj. exact E.
Qed.

Lemma count_iz_repeat j a p : count_q (iz j) (repeat (iz a) p) = if (j =? a)%nat then p else 0%nat.
Proof.
  destruct (Nat.eqb_spec j a) as [E|E].
  - subst j. apply count_q_repeat_same. reflexivity.
  - apply count_q_repeat_diff. rewrite iz_inj. exact E.
Qed.

Lemma count_integer_vec j p n :
  count_q (iz j) (integer_vec p n) =
  ((if (j =? 0)%nat then p else 0) + (if (j <? n - p - 1 + 2)%nat then 1 else 0)
   + (if (j =? n - p - 1 + 1)%nat then p else 0))%nat.
Proof.
  unfold integer_vec. rewrite !count_q_app, count_iz_repeat0, count_iz_seq, count_iz_repeat.
  destruct (Nat.leb_spec 0 j); [|lia]. cbn [andb Nat.add]. lia.
Qed.

Lemma integer_wf p n : (p < n)%nat -> WF (integer_vec p n) p.
Proof.
  intro Hpn. apply wf_iff. repeat split.
  - unfold integer_vec. apply sorted_b_app; [apply sorted_b_repeat | |].
    + apply sorted_b_app; [apply sorted_iz_seq | apply sorted_b_repeat |].
      intros x y Hx Hy. apply repeat_spec in Hy. subst y.
      apply in_map_iff in Hx. destruct Hx as (j & <- & Hj). apply in_seq in Hj.
      apply iz_le. lia.
    + intros x y Hx Hy. apply repeat_spec in Hx. subst x. change 0 with (iz 0).
      apply in_app_or in Hy. destruct Hy as [Hy|Hy].
      * apply in_map_iff in Hy. destruct Hy as (j & <- & _). apply iz_le. lia.
      * apply repeat_spec in Hy. subst y. apply iz_le. lia.
  - unfold integer_vec. rewrite !app_length, !repeat_length, map_length, seq_length. lia.
  - apply integer_vec_count.
  - rewrite integer_vec_last, count_integer_vec.
    destruct (Nat.eqb_spec (n - p - 1 + 1) 0); [lia|].
    destruct (Nat.ltb_spec (n - p - 1 + 1) (n - p - 1 + 2)); [|lia].
    rewrite Nat.eqb_refl. lia.
  - intros x Hx.
    assert (J : exists j, x = iz j).
    { unfold integer_vec in Hx. apply in_app_or in Hx. destruct Hx as [Hx|Hx].
      - apply repeat_spec in Hx. exists 0%nat. exact Hx.
      - apply in_app_or in Hx. destruct Hx as [Hx|Hx].
        + apply in_map_iff in Hx. destruct Hx as (j & <- & _). exists j. reflexivity.
        + apply repeat_spec in Hx. eexists. exact Hx. }
    destruct J as [j ->]. rewrite count_integer_vec.
    destruct (Nat.eqb_spec j 0), (Nat.ltb_spec j (n - p - 1 + 2)), (Nat.eqb_spec j (n - p - 1 + 1)); lia.
Qed.

Theorem gen_integer_total p n : (p < n)%nat -> gen_integer p n = Ok (mkkv (integer_vec p n) p).
Proof.
  intro H. unfold gen_integer. destruct (Nat.ltb_spec p n); [|lia].
  apply (make_complete (integer_vec p n) p), integer_wf, H.
Qed.

Theorem gen_uniform_total p n : (p < n)%nat -> exists k, gen_uniform p n = Ok k.
Proof.
  intro H. unfold gen_uniform. rewrite (gen_integer_total _ _ H). cbn [bind].
  apply knormalize_total. cbn [kvec kdeg]. apply integer_wf, H.
Qed.

Theorem gen_uniform_refuses p n : (n <= p)%nat -> gen_uniform p n = Err AssertionError.
Proof. intro H. unfold gen_uniform. rewrite (gen_integer_refuses _ _ H). reflexivity. Qed.

(* weight: succeeds for every non-empty list of positive weights *)
Lemma sorted_cumsum : forall ws acc, Forall (fun w => 0 < w) ws ->
  sorted_b (acc :: cumsum acc ws) = true.
Proof.
  induction ws as [|w ws IH]; intros acc HF; [reflexivity|].
  inversion HF as [|w' ws' Hw HF']; subst. cbn [cumsum]. cbv zeta.
  rewrite sorted_b_cons2, (IH _ HF'), andb_true_r.
  apply Qleb_le. rewrite Qred_correct. lra.
Qed.

Lemma sorted_le_last : forall (l : list Q) d x, sorted_b l = true -> In x l -> x <= last l d.
Proof.
  induction l as [|a l IH]; intros d x S Hx; [destruct Hx|].
  destruct l as [|b t].
  - destruct Hx as [<-|[]]. cbn. apply Qle_refl.
  - rewrite sorted_b_cons2 in S. apply andb_true_iff in S. destruct S as [Sab St].
    rewrite last_cons2. destruct Hx as [<-|Hx].
    + apply Qleb_le in Sab. eapply Qle_trans; [exact Sab|]. apply IH; [exact St | left; reflexivity].
    + apply IH; assumption.
Qed.

Lemma count_cumsum_le1 : forall ws acc x, Forall (fun w => 0 < w) ws ->
  (count_q x (cumsum acc ws) <= 1)%nat.
Proof.
  induction ws as [|w ws IH]; intros acc x HF; [cbn; lia|].
  inversion HF as [|w' ws' Hw HF']; subst. cbn [cumsum]. cbv zeta.
  rewrite count_q_cons. destruct (Qeqb_spec x (Qred (acc + w))) as [E|E].
  - rewrite count_q_none; [lia|]. intros y Hy C.
    pose proof (cumsum_gt _ _ HF' y Hy). lra.
  - pose proof (IH (Qred (acc + w)) x HF'). lia.
Qed.

Lemma count_q_In x v : In x v -> (1 <= count_q x v)%nat.
Proof.
  induction v as [|y v IH]; intro H; [destruct H|].
  rewrite count_q_cons. destruct H as [->|H].
  - destruct (Qeqb_spec x x) as [_|N]; [lia | exfalso; apply N; reflexivity].
  - specialize (IH H). lia.
Qed.

Lemma count_q_repeat_le x y n : (count_q x (repeat y n) <= n)%nat.
Proof. pose proof (count_q_le_length x (repeat y n)) as H. rewrite repeat_length in H. exact H. Qed.

Lemma weight_wf p ws : ws <> [] -> Forall (fun w => 0 < w) ws -> WF (weight_vec p ws) p.
Proof.
  intros Hne HF.
  set (ks := 0 :: cumsum 0 ws).
  assert (Sk : sorted_b ks = true) by (apply sorted_cumsum, HF).
  assert (Hc : cumsum 0 ws <> []) by (destruct ws; [congruence | discriminate]).
  assert (IL : In (last_q ks) (cumsum 0 ws)).
  { unfold last_q, ks. destruct (cumsum 0 ws) as [|a t] eqn:Ec; [congruence|].
    rewrite last_cons2. apply In_last. discriminate. }
  assert (PL : 0 < last_q ks) by (apply (cumsum_gt _ _ HF _ IL)).
  assert (K1 : forall x, (count_q x ks <= 1)%nat).
  { intro x. unfold ks. rewrite count_q_cons. destruct (Qeqb_spec x 0) as [E|E].
    - rewrite count_q_none; [lia|]. intros y Hy C. pose proof (cumsum_gt _ _ HF y Hy). lra.
    - pose proof (count_cumsum_le1 ws 0 x HF). lia. }
  assert (LV : last_q (weight_vec p ws) = last_q ks).
  { unfold weight_vec. fold ks. unfold last_q at 1. destruct p as [|p].
    - cbn [repeat app]. rewrite app_nil_r. reflexivity.
    - rewrite app_assoc. apply last_app_repeat. }
  assert (CA : forall x, count_q x (weight_vec p ws) =
             (count_q x (repeat 0%Q p) + count_q x ks + count_q x (repeat (last_q ks) p))%nat).
  { intro x. unfold weight_vec. fold ks. rewrite !count_q_app. lia. }
  apply wf_iff. repeat split.
  - unfold weight_vec. fold ks. apply sorted_b_app; [apply sorted_b_repeat | |].
    + apply sorted_b_app; [exact Sk | apply sorted_b_repeat |].
      intros x y Hx Hy. apply repeat_spec in Hy. subst y. apply sorted_le_last; assumption.
    + intros x y Hx Hy. apply repeat_spec in Hx. subst x.
      apply in_app_or in Hy. destruct Hy as [Hy|Hy].
      * destruct Hy as [<-|Hy]; [apply Qle_refl|]. pose proof (cumsum_gt _ _ HF y Hy). lra.
      * apply repeat_spec in Hy. subst y. lra.
  - unfold weight_vec. rewrite !app_length, !repeat_length. cbn [length]. rewrite cumsum_length.
    destruct ws; [congruence | cbn [length]; lia].
  - apply weight_vec_count; assumption.
  - rewrite LV, CA. rewrite (count_q_repeat_same (last_q ks) (last_q ks)) by reflexivity.
    rewrite count_q_repeat_diff by (intro E; lra).
    pose proof (K1 (last_q ks)).
    assert (1 <= count_q (last_q ks) ks)%nat by (apply count_q_In; right; exact IL).
    lia.
  - intros x _. rewrite CA. pose proof (K1 x).
    destruct (Qeq_dec x 0) as [E|E].
    + rewrite (count_q_repeat_diff x (last_q ks)) by (intro C; lra).
      pose proof (count_q_repeat_le x 0 p). lia.
    + rewrite (count_q_repeat_diff x 0) by exact E.
      pose proof (count_q_repeat_le x (last_q ks) p). lia.
Qed.

Theorem gen_weight_total p ws : ws <> [] -> Forall (fun w => 0 < w) ws ->
  gen_weight p ws = Ok (mkkv (weight_vec p ws) p).
Proof.
  intros Hne HF. unfold gen_weight. destruct ws as [|w ws]; [congruence|].
  apply (make_complete (weight_vec p (w :: ws)) p), weight_wf; assumption.
Qed.

Theorem gen_weight_refuses_empty p : gen_weight p [] = Err AssertionError.
Proof. reflexivity. Qed.

Theorem gen_random_from_total p ws : ws <> [] -> Forall (fun w => 0 < w) ws ->
  exists k, gen_random_from p ws = Ok k.
Proof.
  intros Hne HF. unfold gen_random_from. rewrite (gen_weight_total _ _ Hne HF). cbn [bind].
  apply knormalize_total. cbn [kvec kdeg]. apply weight_wf; assumption.
Qed.

(* G5 in one statement *)
Corollary gen_weight_full p ws k : gen_weight p ws = Ok k -> Forall (fun w => 0 < w) ws ->
  kdeg k = p /\ knpts k = (p + length ws)%nat /\
  (forall i, (i < length ws)%nat ->
     nthq (kvec k) (p + i + 1) - nthq (kvec k) (p + i) == nth i ws 0).
Proof.
  intros H HF. destruct (gen_weight_struct _ _ _ H HF) as [D N].
  split; [exact D|]. split; [exact N | exact (gen_weight_steps _ _ _ H)].
Qed.

(* G3 in one statement per operation *)
Corollary kshift_full k a k' : kshift k a = Ok k' ->
  kvec k' = map (fun x => Qred (x + a)) (kvec k) /\
  (WF (kvec k) (kdeg k) ->
   kdeg k' = kdeg k /\ knpts k' = knpts k /\
   forall x, count_q (Qred (x + a)) (kvec k') = count_q x (kvec k)).
Proof. intro H. split; [exact (kshift_vec _ _ _ H) | exact (kshift_struct _ _ _ H)]. Qed.

Corollary kscale_full k s k' : kscale k s = Ok k' ->
  0 < s /\ kvec k' = map (fun x => Qred (x * s)) (kvec k) /\
  (WF (kvec k) (kdeg k) ->
   kdeg k' = kdeg k /\ knpts k' = knpts k /\
   forall x, count_q (Qred (x * s)) (kvec k') = count_q x (kvec k)).
Proof.
  intro H. destruct (kscale_vec _ _ _ H) as [Hs V].
  split; [exact Hs|]. split; [exact V | exact (kscale_struct _ _ _ H)].
Qed.

Print Assumptions make_none_deg.
Print Assumptions count_q_map_inj.
Print Assumptions kshift_full.
Print Assumptions kscale_full.
Print Assumptions knormalize_vec.
Print Assumptions knormalize_limits.
Print Assumptions knormalize_struct.
Print Assumptions Nspec_reparam.
Print Assumptions Nspec_affine.
Print Assumptions curve_spec1_affine.
Print Assumptions Nspec_shift.
Print Assumptions Nspec_scale.
Print Assumptions curve_spec1_shift.
Print Assumptions curve_spec1_scale.
Print Assumptions kshift_basis.
Print Assumptions kscale_basis.
Print Assumptions knormalize_basis.
Print Assumptions gen_bezier_struct.
Print Assumptions gen_bezier_total.
Print Assumptions gen_integer_struct.
Print Assumptions gen_integer_refuses.
Print Assumptions gen_integer_total.
Print Assumptions gen_uniform_struct.
Print Assumptions gen_uniform_total.
Print Assumptions gen_weight_full.
Print Assumptions gen_weight_total.
Print Assumptions gen_random_from_limits.
Print Assumptions gen_random_from_struct.
Print Assumptions gen_random_from_total.
Print Assumptions make_complete.
Print Assumptions kshift_total.
Print Assumptions kscale_total.
Print Assumptions knormalize_total.
Print Assumptions gen_uniform_2_5.
