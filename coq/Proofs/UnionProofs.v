(* PROOFS about knot-vector union / intersection (property C17):
   under a separation hypothesis (distinct knots are at least tol_unique apart) the model
   [kor] obeys the multiplicity law  mult(x, U|V) = max (lift x U) (lift x V),
   the result degree is the max degree, and [kand] takes the min multiplicity. *)
From Coq Require Import QArith Qabs List Bool Arith Lia Lqa Setoid Morphisms.
From Coq Require Import Sorting.Permutation.
From NurbsV Require Import Base.Res Base.QList Spec.KnotSpec Gen.Consts Model.KV.
From NurbsV Require Import Proofs.KVProofs Proofs.KVMachine.
From NurbsV Require Check.C17.
Import ListNotations.
Open Scope Q_scope.

(* ------------------------------------------------------------------ *)
(* 0. statements' vocabulary                                           *)
(* ------------------------------------------------------------------ *)

Definition separated (l : list Q) : Prop :=
  forall x y, In x l -> In y l -> ~ x == y -> tol_unique <= Qabs (x - y).

Definition lift (d p : nat) (x : Q) (U : list Q) : nat :=
  let c := count_q x U in if (c =? 0)%nat then 0%nat else (c + (d - p))%nat.

Lemma lift_is_spec_lift d p x U : lift d p x U = Check.C17.lift d p x U.
Proof. reflexivity. Qed.

(* no two entries are equal as rationals *)
Definition nodupq (l : list Q) : Prop := forall x, (count_q x l <= 1)%nat.

(* ------------------------------------------------------------------ *)
(* 1. counting                                                         *)
(* ------------------------------------------------------------------ *)

Global Instance count_q_proper : Proper (Qeq ==> eq ==> eq) count_q.
Proof.
  intros x y E l l' <-. induction l as [|z l IH]; [reflexivity|].
  rewrite !count_q_cons, IH.
  destruct (Qeqb_spec x z) as [A|A], (Qeqb_spec y z) as [B|B]; try reflexivity; exfalso.
  - apply B. rewrite <- E. exact A.
  - apply A. rewrite E. exact B.
Qed.

Lemma count_q_app x l1 l2 : count_q x (l1 ++ l2) = (count_q x l1 + count_q x l2)%nat.
Proof. unfold count_q. rewrite filter_app, app_length. reflexivity. Qed.

Lemma count_q_repeat x k m : count_q x (repeat k m) = if Qeqb x k then m else 0%nat.
Proof.
  induction m as [|m IH]; cbn [repeat].
  - rewrite count_q_nil. destruct (Qeqb x k); reflexivity.
  - rewrite count_q_cons, IH. destruct (Qeqb x k); reflexivity.
Qed.

Lemma count_q_perm x l l' : Permutation l l' -> count_q x l = count_q x l'.
Proof.
  intro P. induction P.
  - reflexivity.
  - rewrite !count_q_cons. lia.
  - rewrite !count_q_cons. lia.
  - congruence.
Qed.

Lemma count_q_sortq x l : count_q x (sortq l) = count_q x l.
Proof. apply count_q_perm, sortq_perm. Qed.

Lemma existsb_count x l : existsb (Qeqb x) l = negb (count_q x l =? 0)%nat.
Proof.
  induction l as [|y l IH]; [reflexivity|].
  cbn [existsb]. rewrite count_q_cons, IH. destruct (Qeqb x y); cbn [orb]; [reflexivity|].
  reflexivity.
Qed.

Lemma count_pos_in x l : (0 < count_q x l)%nat -> exists y, In y l /\ x == y.
Proof.
  intro H. assert (E : existsb (Qeqb x) l = true).
  { rewrite existsb_count. apply negb_true_iff, Nat.eqb_neq. lia. }
  apply existsb_exists in E. destruct E as (y & Hy & Ey). exists y. split; [exact Hy|].
  apply Qeqb_eq, Ey.
Qed.

Lemma in_count_pos x y l : In y l -> x == y -> (0 < count_q x l)%nat.
Proof.
  intros Hy E. assert (K : existsb (Qeqb x) l = true).
  { apply existsb_exists. exists y. split; [exact Hy | apply Qeqb_eq, E]. }
  rewrite existsb_count in K. apply negb_true_iff, Nat.eqb_neq in K. lia.
Qed.

Lemma count_q_filter_le x (P : Q -> bool) l : (count_q x (filter P l) <= count_q x l)%nat.
Proof.
  induction l as [|y l IH]; [cbn; lia|].
  cbn [filter]. destruct (P y); rewrite !count_q_cons; lia.
Qed.

Lemma wf_count_le v p : WF v p -> forall x, (count_q x v <= p + 1)%nat.
Proof.
  intros W x. destruct (Nat.eq_dec (count_q x v) 0) as [Z|NZ]; [lia|].
  destruct (count_pos_in x v ltac:(lia)) as (y & Hy & E).
  rewrite E. unfold WF, wf_b in W.
  apply andb_true_iff in W. destruct W as [_ F].
  rewrite forallb_forall in F. apply Nat.leb_le, F, Hy.
Qed.

(* ------------------------------------------------------------------ *)
(* 2. nodupq                                                           *)
(* ------------------------------------------------------------------ *)

Lemma nodupq_nil : nodupq [].
Proof. intro x. cbn. lia. Qed.

Lemma nodupq_tail y l : nodupq (y :: l) -> nodupq l.
Proof. intros H x. specialize (H x). rewrite count_q_cons in H. lia. Qed.

Lemma nodupq_head x y l : nodupq (y :: l) -> x == y -> count_q x l = 0%nat.
Proof.
  intros H E. specialize (H x). rewrite count_q_cons in H.
  assert (B : Qeqb x y = true) by (apply Qeqb_eq, E). rewrite B in H. lia.
Qed.

Lemma nodupq_perm l l' : Permutation l l' -> nodupq l -> nodupq l'.
Proof. intros P H x. rewrite <- (count_q_perm x _ _ P). apply H. Qed.

Lemma nodupq_filter (P : Q -> bool) l : nodupq l -> nodupq (filter P l).
Proof. intros H x. pose proof (count_q_filter_le x P l). specialize (H x). lia. Qed.

Lemma nodupq_snoc l x : nodupq l -> count_q x l = 0%nat -> nodupq (l ++ [x]).
Proof.
  intros H Z y. rewrite count_q_app, count_q_cons, count_q_nil.
  destruct (Qeqb_spec y x) as [E|E].
  - rewrite E, Z. lia.
  - specialize (H y). lia.
Qed.

(* ------------------------------------------------------------------ *)
(* 3. get_unique                                                       *)
(* ------------------------------------------------------------------ *)

Lemma tol_unique_pos : 0 < tol_unique.
Proof. apply Qltb_lt. vm_compute. reflexivity. Qed.

Lemma tol_mult_le_unique : tol_mult <= tol_unique.
Proof. apply Qleb_le. vm_compute. reflexivity. Qed.

Lemma near_unique_of_eq x y : x == y -> Qabs (x - y) < tol_unique.
Proof.
  intro E. apply Qabs_Qlt_condition. pose proof tol_unique_pos. split; lra.
Qed.

Lemma separated_incl l l' : (forall x, In x l' -> In x l) -> separated l -> separated l'.
Proof. intros I S x y Hx Hy N. apply S; auto. Qed.

Lemma separated_near l x y :
  separated l -> In x l -> In y l -> Qabs (x - y) < tol_unique -> x == y.
Proof.
  intros S Hx Hy N. destruct (Qeqb_spec x y) as [E|E]; [exact E|exfalso].
  pose proof (S x y Hx Hy E). lra.
Qed.

Lemma aux_acc_sub v : forall acc y, In y acc -> In y (get_unique_aux v acc).
Proof.
  induction v as [|x v IH]; intros acc y H; cbn [get_unique_aux]; [exact H|].
  destruct (existsb _ acc); apply IH; [exact H|]. apply in_or_app. left. exact H.
Qed.

Lemma aux_in v : forall acc y, In y (get_unique_aux v acc) -> In y acc \/ In y v.
Proof.
  induction v as [|x v IH]; intros acc y H; cbn [get_unique_aux] in H; [left; exact H|].
  destruct (existsb _ acc).
  - destruct (IH _ _ H); [left; assumption | right; right; assumption].
  - destruct (IH _ _ H) as [K|K]; [|right; right; assumption].
    apply in_app_or in K. destruct K as [K|[K|[]]]; [left; exact K | right; left; exact K].
Qed.

Lemma aux_cover v : forall acc x, In x v ->
  exists y, In y (get_unique_aux v acc) /\ Qabs (x - y) < tol_unique.
Proof.
  induction v as [|z v IH]; intros acc x H; [destruct H|].
  cbn [get_unique_aux]. destruct H as [->|H].
  - destruct (existsb (fun k => Qltb (Qabs (x - k)) tol_unique) acc) eqn:E.
    + apply existsb_exists in E. destruct E as (k & Hk & Nk).
      exists k. split; [apply aux_acc_sub, Hk | apply Qltb_lt, Nk].
    + exists x. split; [apply aux_acc_sub, in_or_app; right; left; reflexivity|].
      apply near_unique_of_eq. reflexivity.
  - destruct (existsb _ acc); apply IH, H.
Qed.

Lemma aux_nodupq v : forall acc, nodupq acc -> nodupq (get_unique_aux v acc).
Proof.
  induction v as [|x v IH]; intros acc H; cbn [get_unique_aux]; [exact H|].
  destruct (existsb (fun k => Qltb (Qabs (x - k)) tol_unique) acc) eqn:E; [apply IH, H|].
  apply IH, nodupq_snoc; [exact H|].
  destruct (Nat.eq_dec (count_q x acc) 0) as [Z|NZ]; [exact Z|exfalso].
  destruct (count_pos_in x acc ltac:(lia)) as (k & Hk & Ek).
  assert (T : existsb (fun k => Qltb (Qabs (x - k)) tol_unique) acc = true).
  { apply existsb_exists. exists k. split; [exact Hk|]. apply Qltb_lt, near_unique_of_eq, Ek. }
  congruence.
Qed.

Lemma get_unique_nodupq v : nodupq (get_unique v).
Proof.
  unfold get_unique. eapply nodupq_perm; [apply Permutation_sym, sortq_perm|].
  apply aux_nodupq, nodupq_nil.
Qed.

Lemma get_unique_in v y : In y (get_unique v) -> In y v.
Proof.
  unfold get_unique. intro H.
  apply (Permutation_in _ (sortq_perm _)) in H.
  apply aux_in in H. destruct H as [[]|H]. exact H.
Qed.

Lemma get_unique_cover v x : separated v -> In x v ->
  exists y, In y (get_unique v) /\ x == y.
Proof.
  intros S Hx. destruct (aux_cover v [] x Hx) as (y & Hy & N).
  exists y. split.
  - unfold get_unique. apply (Permutation_in _ (Permutation_sym (sortq_perm _))). exact Hy.
  - apply (separated_near v); [exact S | exact Hx | | exact N].
    apply aux_in in Hy. destruct Hy as [[]|Hy]. exact Hy.
Qed.

(* ------------------------------------------------------------------ *)
(* 4. kknots                                                           *)
(* ------------------------------------------------------------------ *)

Lemma in_firstn {A} n (l : list A) x : In x (firstn n l) -> In x l.
Proof. intro H. rewrite <- (firstn_skipn n l). apply in_or_app. left. exact H. Qed.

Lemma in_skipn {A} n (l : list A) x : In x (skipn n l) -> In x l.
Proof. intro H. rewrite <- (firstn_skipn n l). apply in_or_app. right. exact H. Qed.

Lemma in_slice a b v x : In x (slice a b v) -> In x v.
Proof. unfold slice. intro H. eapply in_skipn, in_firstn, H. Qed.

Lemma kknots_in k y : In y (kknots k) -> In y (kvec k).
Proof. unfold kknots. intro H. eapply in_slice, get_unique_in, H. Qed.

Lemma nth_in_firstn (d : Q) : forall m l i, (i < m)%nat -> (i < length l)%nat ->
  In (nth i l d) (firstn m l).
Proof.
  induction m as [|m IH]; intros l i Hm Hl; [lia|].
  destruct l as [|y l]; [cbn in Hl; lia|].
  cbn [firstn]. destruct i as [|i]; [left; reflexivity|].
  right. cbn [nth]. apply IH; [lia | cbn [length] in Hl; lia].
Qed.

Lemma nth_in_slice (d : Q) : forall v p m i, (p <= i < p + m)%nat -> (i < length v)%nat ->
  In (nth i v d) (firstn m (skipn p v)).
Proof.
  induction v as [|y v IH]; intros p m i Hi Hl; [cbn in Hl; lia|].
  destruct p as [|p].
  - cbn [skipn]. apply nth_in_firstn; [lia | exact Hl].
  - destruct i as [|i]; [lia|]. cbn [skipn nth]. apply IH; [lia | cbn [length] in Hl; lia].
Qed.

Lemma slice_cover v p x : WF v p -> In x v ->
  exists y, In y (slice p (length v - p - 1 + 1) v) /\ x == y.
Proof.
  intros W Hx. destruct (wf_parts _ _ W) as (Hs & Hl & _ & _).
  destruct (In_nth v x (last v 0) Hx) as (i & Hi & <-).
  fold (nthq v i). unfold slice.
  destruct (Nat.lt_ge_cases i p) as [L|G].
  - exists (nthq v p). split.
    + unfold nthq. apply nth_in_slice; lia.
    + rewrite (wf_first_block _ _ W i) by lia. rewrite (wf_first_block _ _ W p) by lia. reflexivity.
  - destruct (Nat.lt_ge_cases (length v - p - 1) i) as [L2|G2].
    + exists (nthq v (length v - p - 1)). split.
      * unfold nthq. apply nth_in_slice; lia.
      * rewrite (wf_last_block _ _ W i) by lia.
        rewrite (wf_last_block _ _ W (length v - p - 1)%nat) by lia. reflexivity.
    + exists (nthq v i). split; [|reflexivity]. unfold nthq. apply nth_in_slice; lia.
Qed.

Lemma kknots_cover k x : WF (kvec k) (kdeg k) -> separated (kvec k) -> In x (kvec k) ->
  exists y, In y (kknots k) /\ x == y.
Proof.
  intros W S Hx. destruct (slice_cover _ _ x W Hx) as (y & Hy & E).
  destruct (get_unique_cover (slice (kdeg k) (knpts k + 1) (kvec k)) y) as (z & Hz & Ez).
  - eapply separated_incl; [|exact S]. intros w. apply in_slice.
  - exact Hy.
  - exists z. split; [exact Hz|]. rewrite E. exact Ez.
Qed.

Lemma kknots_nodupq k : nodupq (kknots k).
Proof. apply get_unique_nodupq. Qed.

(* ------------------------------------------------------------------ *)
(* 5. one pass of the union = a pointwise max                          *)
(* ------------------------------------------------------------------ *)

Definition pass_step (f : Q -> nat) (allk : list Q) (acc : res (list nat)) (x : Q) : res (list nat) :=
  do ms <- acc;
  match index_of x allk with
  | None => Err ValueError
  | Some i => let m := f x in
              if (nth i ms 0 <? m)%nat then Ok (set_nth i m ms) else Ok ms
  end.

Lemma or_pass_fold deg allk k mults :
  or_pass deg allk k mults =
  fold_left (pass_step (fun x => (kmult_raw (kvec k) x + deg - kdeg k)%nat) allk) (kvec k) mults.
Proof. reflexivity. Qed.

Lemma fold_pass_err f allk l e : fold_left (pass_step f allk) l (Err e) = Err e.
Proof. induction l as [|x l IH]; [reflexivity|]. cbn [fold_left pass_step bind]. exact IH. Qed.

Lemma map2_id_on (F : Q -> nat -> nat) : forall ks ms,
  length ms = length ks -> (forall k m, In k ks -> F k m = m) -> map2 F ks ms = ms.
Proof.
  induction ks as [|k ks IH]; intros [|m ms] L H; try reflexivity; try (cbn in L; lia).
  cbn [map2]. rewrite H by (left; reflexivity). f_equal. apply IH; [cbn in L; lia|].
  intros k' m' K. apply H. right. exact K.
Qed.

Lemma map2_ext_in {A B C} (F G : A -> B -> C) : forall ks ms,
  (forall k m, In k ks -> F k m = G k m) -> map2 F ks ms = map2 G ks ms.
Proof.
  induction ks as [|k ks IH]; intros [|m ms] H; try reflexivity.
  cbn [map2]. rewrite H by (left; reflexivity). f_equal. apply IH.
  intros k' m' K. apply H. right. exact K.
Qed.

Lemma map2_map2 {A B} (F G : A -> B -> B) : forall ks ms,
  map2 F ks (map2 G ks ms) = map2 (fun k m => F k (G k m)) ks ms.
Proof.
  induction ks as [|k ks IH]; intros [|m ms]; try reflexivity.
  cbn [map2]. f_equal. apply IH.
Qed.

Lemma map2_repeat {A B C} (F : A -> B -> C) c : forall ks,
  map2 F ks (repeat c (length ks)) = map (fun k => F k c) ks.
Proof. induction ks as [|k ks IH]; [reflexivity|]. cbn [length repeat map2 map]. f_equal. exact IH. Qed.

Lemma count_zero_notin x l : count_q x l = 0%nat -> forall k, In k l -> Qeqb x k = false.
Proof.
  intros Z k Hk. destruct (Qeqb_spec x k) as [E|E]; [exfalso|reflexivity].
  pose proof (in_count_pos x k l Hk E). lia.
Qed.

(* the imperative update at the index found = a structural pointwise update *)
Lemma step_bump x m : forall allk i ms,
  nodupq allk -> length ms = length allk -> index_of x allk = Some i ->
  (if (nth i ms 0 <? m)%nat then set_nth i m ms else ms)
  = map2 (fun k m' => if Qeqb x k then Nat.max m' m else m') allk ms.
Proof.
  induction allk as [|y allk IH]; intros i ms N L H; [discriminate|].
  destruct ms as [|m0 ms]; [cbn in L; lia|].
  cbn [index_of] in H. cbn [map2].
  destruct (Qeqb_spec x y) as [E|E].
  - inversion H; subst i. cbn [nth set_nth].
    rewrite (map2_id_on _ allk ms).
    + destruct (Nat.ltb_spec m0 m); f_equal; lia.
    + cbn in L; lia.
    + intros k m' K. rewrite (count_zero_notin x allk (nodupq_head _ _ _ N E) k K). reflexivity.
  - destruct (index_of x allk) as [i'|] eqn:I; [|discriminate]. inversion H; subst i.
    cbn [nth set_nth]. rewrite <- (IH i' ms (nodupq_tail _ _ N) ltac:(cbn in L; lia) eq_refl).
    destruct (nth i' ms 0 <? m)%nat; reflexivity.
Qed.

Lemma existsb_cons_eq (k x : Q) l : existsb (Qeqb k) (x :: l) = Qeqb x k || existsb (Qeqb k) l.
Proof.
  cbn [existsb]. f_equal.
  destruct (Qeqb_spec k x) as [A|A], (Qeqb_spec x k) as [B|B]; try reflexivity; exfalso.
  - apply B. symmetry. exact A.
  - apply A. symmetry. exact B.
Qed.

Lemma fold_pass_spec (f : Q -> nat) allk :
  Proper (Qeq ==> eq) f -> nodupq allk ->
  forall l ms ms', length ms = length allk ->
  fold_left (pass_step f allk) l (Ok ms) = Ok ms' ->
  ms' = map2 (fun k m => if existsb (Qeqb k) l then Nat.max m (f k) else m) allk ms
  /\ (forall x, In x l -> (0 < count_q x allk)%nat).
Proof.
  intros Pf N. induction l as [|x l IH]; intros ms ms' L H.
  - cbn [fold_left] in H. inversion H; subst ms'. split; [|intros x []].
    symmetry. apply map2_id_on; [exact L|]. intros; reflexivity.
  - cbn [fold_left] in H. unfold pass_step at 2 in H. cbn [bind] in H.
    destruct (index_of x allk) as [i|] eqn:I; [|rewrite fold_pass_err in H; discriminate].
    cbv zeta in H.
    assert (E : (if (nth i ms 0 <? f x)%nat then Ok (set_nth i (f x) ms) else Ok ms)
                = Ok (if (nth i ms 0 <? f x)%nat then set_nth i (f x) ms else ms)).
    { destruct (nth i ms 0 <? f x)%nat; reflexivity. }
    rewrite E in H. clear E. rewrite (step_bump x (f x) allk i ms N L I) in H.
    apply IH in H.
    2:{ rewrite map2_length, L. apply Nat.min_id. }
    destruct H as [-> Hin]. split.
    + rewrite map2_map2. apply map2_ext_in. intros k m K.
      rewrite existsb_cons_eq.
      destruct (Qeqb_spec x k) as [A|A]; cbn [orb].
      * rewrite (Pf _ _ A). destruct (existsb (Qeqb k) l); lia.
      * reflexivity.
    + intros z [<-|Hz]; [|apply Hin, Hz].
      clear - I. revert i I. induction allk as [|y allk IH]; intros i I; [discriminate|].
      cbn [index_of] in I. rewrite count_q_cons. destruct (Qeqb x y); [lia|].
      destruct (index_of x allk) as [i'|]; [|discriminate].
      specialize (IH i' eq_refl). lia.
Qed.

Global Instance kmult_raw_proper v : Proper (Qeq ==> eq) (kmult_raw v).
Proof.
  intros x y E. unfold kmult_raw. f_equal. apply filter_ext. intro z.
  assert (K : Qabs (x - z) == Qabs (y - z)) by (rewrite E; reflexivity).
  rewrite K. reflexivity.
Qed.

Lemma or_pass_spec deg allk k ms ms' :
  nodupq allk -> length ms = length allk ->
  or_pass deg allk k (Ok ms) = Ok ms' ->
  ms' = map2 (fun x m => if existsb (Qeqb x) (kvec k)
                         then Nat.max m (kmult_raw (kvec k) x + deg - kdeg k)%nat else m) allk ms
  /\ (forall x, In x (kvec k) -> (0 < count_q x allk)%nat).
Proof.
  intros N L H. rewrite or_pass_fold in H.
  apply (fold_pass_spec _ allk) in H; [exact H | | exact N | exact L].
  intros x y E. rewrite E. reflexivity.
Qed.

(* ------------------------------------------------------------------ *)
(* 6. counting in [expand]                                             *)
(* ------------------------------------------------------------------ *)

Lemma expand_cons k ks m ms : expand (k :: ks) (m :: ms) = repeat k m ++ expand ks ms.
Proof. reflexivity. Qed.

Lemma count_expand_map (h g : Q -> nat) x : Proper (Qeq ==> eq) g ->
  forall ks, nodupq ks -> (forall k, In k ks -> h k = g k) ->
  count_q x (expand ks (map h ks)) = if existsb (Qeqb x) ks then g x else 0%nat.
Proof.
  intros Pg. induction ks as [|k ks IH]; intros N H; [reflexivity|].
  cbn [map]. rewrite expand_cons, count_q_app, count_q_repeat. cbn [existsb].
  rewrite IH; [|exact (nodupq_tail _ _ N) | intros k' K; apply H; right; exact K].
  destruct (Qeqb_spec x k) as [E|E]; cbn [orb].
  - rewrite existsb_count, (nodupq_head _ _ _ N E). cbn [Nat.eqb negb].
    rewrite H by (left; reflexivity). rewrite (Pg _ _ E). lia.
  - reflexivity.
Qed.

Lemma make_none_vec v k : make v None = Ok k -> kvec k = v.
Proof.
  unfold make. destruct (is_valid v None); intro H; [|discriminate].
  inversion H. reflexivity.
Qed.

(* under separation the tolerance-based multiplicity is the exact count *)
Lemma kmult_raw_sep l v x : separated l -> In x l -> (forall y, In y v -> In y l) ->
  kmult_raw v x = count_q x v.
Proof.
  intros S Hx I. apply mult_partial. intros y Hy.
  destruct (Qeqb_spec y x) as [E|E]; [left; exact E|right].
  assert (N : ~ x == y) by (intro C; apply E; symmetry; exact C).
  pose proof (S x y Hx (I y Hy) N). pose proof tol_mult_le_unique. lra.
Qed.

(* ------------------------------------------------------------------ *)
(* 7. T1: limits                                                       *)
(* ------------------------------------------------------------------ *)

Theorem kor_limits a b k : kor a b = Ok k -> limits_eqb a b = true.
Proof. unfold kor. destruct (limits_eqb a b); [reflexivity|]. cbn [negb]. discriminate. Qed.

Theorem kor_limits_err a b : limits_eqb a b = false -> kor a b = Err ValueError.
Proof. intro H. unfold kor. rewrite H. reflexivity. Qed.

Theorem kand_limits a b k : kand a b = Ok k -> limits_eqb a b = true.
Proof. unfold kand. destruct (limits_eqb a b); [reflexivity|]. cbn [negb]. discriminate. Qed.

Theorem kand_limits_err a b : limits_eqb a b = false -> kand a b = Err ValueError.
Proof. intro H. unfold kand. rewrite H. reflexivity. Qed.

(* ------------------------------------------------------------------ *)
(* 8. T2: the multiplicity law of the union                            *)
(* ------------------------------------------------------------------ *)

Global Instance lift_proper d p : Proper (Qeq ==> eq ==> eq) (lift d p).
Proof.
  intros x y E U U' <-. unfold lift.
  rewrite (count_q_proper x y E U U eq_refl). reflexivity.
Qed.

Lemma allk_in a b y : In y (get_unique (kknots a ++ kknots b)) -> In y (kvec a ++ kvec b).
Proof.
  intro H. apply get_unique_in in H. apply in_app_or in H. apply in_or_app.
  destruct H as [H|H]; [left|right]; apply kknots_in, H.
Qed.

Lemma passes_count a b m1 m2 :
  separated (kvec a ++ kvec b) ->
  let allk := get_unique (kknots a ++ kknots b) in
  let d := Nat.max (kdeg a) (kdeg b) in
  or_pass d allk a (Ok (repeat 0%nat (length allk))) = Ok m1 ->
  or_pass d allk b (Ok m1) = Ok m2 ->
  forall x, count_q x (sortq (expand allk m2)) =
            Nat.max (lift d (kdeg a) x (kvec a)) (lift d (kdeg b) x (kvec b)).
Proof.
  intros S allk d P1 P2 x.
  assert (N : nodupq allk) by apply get_unique_nodupq.
  apply or_pass_spec in P1; [|exact N|apply repeat_length]. destruct P1 as [E1 C1].
  apply or_pass_spec in P2; [|exact N|].
  2:{ rewrite E1, map2_length, repeat_length. apply Nat.min_id. }
  destruct P2 as [E2 C2].
  rewrite count_q_sortq.
  rewrite E2, E1, map2_map2, map2_repeat.
  set (g := fun x => Nat.max (lift d (kdeg a) x (kvec a)) (lift d (kdeg b) x (kvec b))).
  rewrite (count_expand_map _ g).
  - destruct (existsb (Qeqb x) allk) eqn:EX; [reflexivity|].
    rewrite existsb_count in EX. apply negb_false_iff, Nat.eqb_eq in EX.
    assert (Za : count_q x (kvec a) = 0%nat).
    { destruct (Nat.eq_dec (count_q x (kvec a)) 0) as [Z|NZ]; [exact Z|exfalso].
      destruct (count_pos_in x (kvec a) ltac:(lia)) as (y & Hy & Ey).
      pose proof (C1 y Hy) as K. rewrite <- Ey in K. lia. }
    assert (Zb : count_q x (kvec b) = 0%nat).
    { destruct (Nat.eq_dec (count_q x (kvec b)) 0) as [Z|NZ]; [exact Z|exfalso].
      destruct (count_pos_in x (kvec b) ltac:(lia)) as (y & Hy & Ey).
      pose proof (C2 y Hy) as K. rewrite <- Ey in K. lia. }
    unfold lift. rewrite Za, Zb. reflexivity.
  - intros u v E. unfold g. rewrite E. reflexivity.
  - exact N.
  - intros y Hy. unfold g, lift. cbv zeta.
    pose proof (allk_in a b y Hy) as Iy.
    rewrite (kmult_raw_sep _ (kvec a) y S Iy) by (intros; apply in_or_app; left; assumption).
    rewrite (kmult_raw_sep _ (kvec b) y S Iy) by (intros; apply in_or_app; right; assumption).
    rewrite !existsb_count.
    destruct (count_q y (kvec a) =? 0)%nat eqn:A, (count_q y (kvec b) =? 0)%nat eqn:B;
      cbn [negb]; unfold d; lia.
Qed.

Theorem kor_mult_law a b k :
  separated (kvec a ++ kvec b) ->
  kor a b = Ok k ->
  forall x, count_q x (kvec k) =
            Nat.max (lift (Nat.max (kdeg a) (kdeg b)) (kdeg a) x (kvec a))
                    (lift (Nat.max (kdeg a) (kdeg b)) (kdeg b) x (kvec b)).
Proof.
  intros S H x. unfold kor in H. destruct (negb (limits_eqb a b)); [discriminate|].
  cbv zeta in H.
  destruct (or_pass _ _ a _) as [m1|] eqn:P1; [|discriminate]. cbn [bind] in H.
  destruct (or_pass _ _ b _) as [m2|] eqn:P2; [|discriminate]. cbn [bind] in H.
  rewrite (make_none_vec _ _ H). exact (passes_count a b m1 m2 S P1 P2 x).
Qed.

(* ------------------------------------------------------------------ *)
(* 9. T3: the degree of the union                                      *)
(* ------------------------------------------------------------------ *)

Lemma lift_le d p x U : WF U p -> (p <= d)%nat -> (lift d p x U <= d + 1)%nat.
Proof.
  intros W L. unfold lift. cbv zeta. pose proof (wf_count_le _ _ W x).
  destruct (count_q x U =? 0)%nat; lia.
Qed.

Lemma lift_ge_count d p x U : (count_q x U <= lift d p x U)%nat.
Proof. unfold lift. cbv zeta. destruct (Nat.eqb_spec (count_q x U) 0); lia. Qed.

Lemma lift_first d p U : WF U p -> (p <= d)%nat -> lift d p (first_q U) U = (d + 1)%nat.
Proof.
  intros W L. destruct (wf_parts _ _ W) as (_ & _ & F & _).
  unfold lift. cbv zeta. rewrite F. replace (p + 1 =? 0)%nat with false; [lia|].
  symmetry. apply Nat.eqb_neq. lia.
Qed.

Lemma lift_same_deg p x U : lift p p x U = count_q x U.
Proof. unfold lift. cbv zeta. destruct (Nat.eqb_spec (count_q x U) 0); lia. Qed.

Theorem kor_degree a b k :
  WF (kvec a) (kdeg a) -> WF (kvec b) (kdeg b) ->
  separated (kvec a ++ kvec b) ->
  kor a b = Ok k -> kdeg k = Nat.max (kdeg a) (kdeg b).
Proof.
  intros Wa Wb S H.
  pose proof (kor_wf _ _ _ H) as W.
  pose proof (kor_mult_law a b k S H) as Law.
  set (d := Nat.max (kdeg a) (kdeg b)) in *.
  destruct (wf_parts _ _ W) as (_ & _ & F & _).
  (* upper bound: the first knot of the result has at most d+1 copies *)
  pose proof (Law (first_q (kvec k))) as L1. rewrite F in L1.
  pose proof (lift_le d (kdeg a) (first_q (kvec k)) _ Wa ltac:(unfold d; lia)).
  pose proof (lift_le d (kdeg b) (first_q (kvec k)) _ Wb ltac:(unfold d; lia)).
  (* lower bound: the first knot of a is there d+1 times *)
  pose proof (Law (first_q (kvec a))) as L2.
  rewrite (lift_first d (kdeg a) _ Wa ltac:(unfold d; lia)) in L2.
  pose proof (wf_count_le _ _ W (first_q (kvec a))).
  lia.
Qed.

(* ------------------------------------------------------------------ *)
(* 10. T4: refinement                                                  *)
(* ------------------------------------------------------------------ *)

Theorem kor_refines_left a b k :
  separated (kvec a ++ kvec b) -> kor a b = Ok k ->
  forall x, (lift (Nat.max (kdeg a) (kdeg b)) (kdeg a) x (kvec a) <= count_q x (kvec k))%nat
            /\ (count_q x (kvec a) <= count_q x (kvec k))%nat.
Proof.
  intros S H x. rewrite (kor_mult_law a b k S H x).
  pose proof (lift_ge_count (Nat.max (kdeg a) (kdeg b)) (kdeg a) x (kvec a)). lia.
Qed.

Theorem kor_refines_right a b k :
  separated (kvec a ++ kvec b) -> kor a b = Ok k ->
  forall x, (lift (Nat.max (kdeg a) (kdeg b)) (kdeg b) x (kvec b) <= count_q x (kvec k))%nat
            /\ (count_q x (kvec b) <= count_q x (kvec k))%nat.
Proof.
  intros S H x. rewrite (kor_mult_law a b k S H x).
  pose proof (lift_ge_count (Nat.max (kdeg a) (kdeg b)) (kdeg b) x (kvec b)). lia.
Qed.

(* every knot of the union comes from one of the operands *)
Theorem kor_no_new_knots a b k :
  separated (kvec a ++ kvec b) -> kor a b = Ok k ->
  forall x, (0 < count_q x (kvec k))%nat ->
            (0 < count_q x (kvec a))%nat \/ (0 < count_q x (kvec b))%nat.
Proof.
  intros S H x. rewrite (kor_mult_law a b k S H x). unfold lift. cbv zeta.
  destruct (Nat.eqb_spec (count_q x (kvec a)) 0), (Nat.eqb_spec (count_q x (kvec b)) 0); lia.
Qed.

(* ------------------------------------------------------------------ *)
(* 11. T5: commutativity and idempotence (as multisets up to Qeq)      *)
(* ------------------------------------------------------------------ *)

Lemma separated_swap l1 l2 : separated (l1 ++ l2) -> separated (l2 ++ l1).
Proof.
  apply separated_incl. intros x H. apply in_app_or in H. apply in_or_app. tauto.
Qed.

Lemma separated_double l : separated l -> separated (l ++ l).
Proof.
  apply separated_incl. intros x H. apply in_app_or in H. tauto.
Qed.

Theorem kor_comm_mult a b k k' :
  separated (kvec a ++ kvec b) -> kor a b = Ok k -> kor b a = Ok k' ->
  forall x, count_q x (kvec k') = count_q x (kvec k).
Proof.
  intros S H H' x.
  rewrite (kor_mult_law a b k S H x), (kor_mult_law b a k' (separated_swap _ _ S) H' x).
  rewrite (Nat.max_comm (kdeg b) (kdeg a)). apply Nat.max_comm.
Qed.

Theorem kor_comm_degree a b k k' :
  WF (kvec a) (kdeg a) -> WF (kvec b) (kdeg b) ->
  separated (kvec a ++ kvec b) -> kor a b = Ok k -> kor b a = Ok k' ->
  kdeg k' = kdeg k.
Proof.
  intros Wa Wb S H H'.
  rewrite (kor_degree a b k Wa Wb S H), (kor_degree b a k' Wb Wa (separated_swap _ _ S) H').
  apply Nat.max_comm.
Qed.

Theorem kor_idem_mult a k :
  separated (kvec a) -> kor a a = Ok k ->
  forall x, count_q x (kvec k) = count_q x (kvec a).
Proof.
  intros S H x. rewrite (kor_mult_law a a k (separated_double _ S) H x).
  rewrite !Nat.max_id. apply lift_same_deg.
Qed.

Theorem kor_idem_degree a k :
  WF (kvec a) (kdeg a) -> separated (kvec a) -> kor a a = Ok k -> kdeg k = kdeg a.
Proof.
  intros W S H. rewrite (kor_degree a a k W W (separated_double _ S) H). apply Nat.max_id.
Qed.

(* ------------------------------------------------------------------ *)
(* 12. T6: the intersection takes the min multiplicity                 *)
(* ------------------------------------------------------------------ *)

Lemma existsb_Qeqb_proper x y l : x == y -> existsb (Qeqb x) l = existsb (Qeqb y) l.
Proof. intro E. rewrite !existsb_count, E. reflexivity. Qed.

Lemma kand_count a b :
  WF (kvec a) (kdeg a) -> WF (kvec b) (kdeg b) ->
  separated (kvec a ++ kvec b) ->
  let common := filter (fun x => existsb (Qeqb x) (kknots b)) (kknots a) in
  let ms := map (fun x => Nat.min (kmult_raw (kvec a) x) (kmult_raw (kvec b) x)) common in
  forall x, count_q x (sortq (expand common ms)) = Nat.min (count_q x (kvec a)) (count_q x (kvec b)).
Proof.
  intros Wa Wb S common ms x. unfold ms.
  assert (Sa : separated (kvec a)).
  { eapply separated_incl; [|exact S]. intros; apply in_or_app; left; assumption. }
  assert (Sb : separated (kvec b)).
  { eapply separated_incl; [|exact S]. intros; apply in_or_app; right; assumption. }
  rewrite count_q_sortq.
  set (g := fun x => Nat.min (count_q x (kvec a)) (count_q x (kvec b))).
  rewrite (count_expand_map _ g).
  - destruct (existsb (Qeqb x) common) eqn:EX; [reflexivity|]. unfold g.
    destruct (Nat.eq_dec (count_q x (kvec a)) 0) as [Za|NZa]; [lia|].
    destruct (Nat.eq_dec (count_q x (kvec b)) 0) as [Zb|NZb]; [lia|]. exfalso.
    destruct (count_pos_in x (kvec a) ltac:(lia)) as (ya & Hya & Eya).
    destruct (count_pos_in x (kvec b) ltac:(lia)) as (yb & Hyb & Eyb).
    destruct (kknots_cover a ya Wa Sa Hya) as (za & Hza & Eza).
    destruct (kknots_cover b yb Wb Sb Hyb) as (zb & Hzb & Ezb).
    assert (T : existsb (Qeqb x) common = true).
    { apply existsb_exists. exists za. split.
      - apply filter_In. split; [exact Hza|]. apply existsb_exists. exists zb.
        split; [exact Hzb|]. apply Qeqb_eq. rewrite <- Eza, <- Ezb, <- Eya, <- Eyb. reflexivity.
      - apply Qeqb_eq. rewrite Eya. exact Eza. }
    congruence.
  - intros u v E. unfold g. rewrite E. reflexivity.
  - apply nodupq_filter, kknots_nodupq.
  - intros y Hy. unfold g. apply filter_In in Hy. destruct Hy as [Hy _].
    apply kknots_in in Hy.
    assert (Iy : In y (kvec a ++ kvec b)) by (apply in_or_app; left; exact Hy).
    rewrite (kmult_raw_sep _ (kvec a) y S Iy) by (intros; apply in_or_app; left; assumption).
    rewrite (kmult_raw_sep _ (kvec b) y S Iy) by (intros; apply in_or_app; right; assumption).
    reflexivity.
Qed.

Theorem kand_mult_law a b k :
  WF (kvec a) (kdeg a) -> WF (kvec b) (kdeg b) ->
  separated (kvec a ++ kvec b) ->
  kand a b = Ok k ->
  forall x, count_q x (kvec k) = Nat.min (count_q x (kvec a)) (count_q x (kvec b)).
Proof.
  intros Wa Wb S H x. unfold kand in H. destruct (negb (limits_eqb a b)); [discriminate|].
  cbv zeta in H. rewrite (make_none_vec _ _ H). exact (kand_count a b Wa Wb S x).
Qed.

Corollary kand_mult_law_eqdeg a b k :
  WF (kvec a) (kdeg a) -> WF (kvec b) (kdeg b) ->
  separated (kvec a ++ kvec b) ->
  kdeg a = kdeg b -> kand a b = Ok k ->
  forall x, count_q x (kvec k) = Nat.min (count_q x (kvec a)) (count_q x (kvec b)).
Proof. intros Wa Wb S _. apply kand_mult_law; assumption. Qed.

(* ------------------------------------------------------------------ *)
(* 13. T7: the union succeeds                                          *)
(* ------------------------------------------------------------------ *)

Lemma first_q_in v : (0 < length v)%nat -> In (first_q v) v.
Proof. intro H. unfold first_q. apply nth_In. exact H. Qed.

Lemma last_q_in v : (0 < length v)%nat -> In (last_q v) v.
Proof. intro H. unfold last_q. rewrite last_nth. apply nth_In. lia. Qed.

Lemma sorted_first_le v y : sorted_b v = true -> In y v -> first_q v <= y.
Proof.
  intros Hs Hy. destruct (In_nth v y 0 Hy) as (j & Hj & <-).
  unfold first_q. apply sorted_nth; [exact Hs | lia].
Qed.

Lemma sorted_le_last v y : sorted_b v = true -> In y v -> y <= last_q v.
Proof.
  intros Hs Hy. destruct (In_nth v y 0 Hy) as (j & Hj & <-).
  unfold last_q. rewrite last_nth. apply sorted_nth; [exact Hs | lia].
Qed.

Lemma count_two_le x y : ~ x == y -> forall l, (count_q x l + count_q y l <= length l)%nat.
Proof.
  intros N. induction l as [|z l IH]; [cbn; lia|].
  rewrite !count_q_cons. cbn [length].
  destruct (Qeqb_spec x z) as [A|A], (Qeqb_spec y z) as [B|B]; try lia.
  exfalso. apply N. rewrite A, B. reflexivity.
Qed.

Lemma infer_deg_cons3 a b c t :
  infer_deg (a :: b :: c :: t) = if Qeqb a b then S (infer_deg (b :: c :: t)) else 0%nat.
Proof. reflexivity. Qed.

Lemma infer_deg_count : forall v, sorted_b v = true ->
  (exists y, In y v /\ ~ first_q v == y) ->
  (infer_deg v + 1)%nat = count_q (first_q v) v.
Proof.
  induction v as [|a v IH]; intros Hs (y & Hy & Ny); [destruct Hy|].
  destruct v as [|b v].
  - exfalso. destruct Hy as [<-|[]]. apply Ny. reflexivity.
  - change (first_q (a :: b :: v)) with a in *.
    destruct (Qeqb_spec a b) as [E|E].
    + destruct v as [|c t].
      * exfalso. destruct Hy as [<-|[<-|[]]]; apply Ny; [reflexivity | exact E].
      * assert (B : Qeqb a b = true) by (apply Qeqb_eq, E).
        rewrite infer_deg_cons3, B.
        rewrite (count_q_cons a a). assert (R : Qeqb a a = true) by (apply Qeqb_eq; reflexivity).
        rewrite R, E.
        assert (K : (infer_deg (b :: c :: t) + 1)%nat = count_q b (b :: c :: t)).
        { apply (IH (sorted_b_tail _ _ Hs)).
          change (first_q (b :: c :: t)) with b. exists y. split.
          - destruct Hy as [<-|Hy]; [exfalso; apply Ny; reflexivity | exact Hy].
          - intro C. apply Ny. rewrite E. exact C. }
        lia.
    + assert (B : Qeqb a b = false) by (apply Qeqb_neq, E).
      assert (I0 : infer_deg (a :: b :: v) = 0%nat).
      { destruct v as [|c t]; [reflexivity|]. rewrite infer_deg_cons3, B. reflexivity. }
      rewrite I0. rewrite (count_q_cons a a).
      assert (R : Qeqb a a = true) by (apply Qeqb_eq; reflexivity). rewrite R.
      assert (Z : count_q a (b :: v) = 0%nat).
      { destruct (Nat.eq_dec (count_q a (b :: v)) 0) as [Z|NZ]; [exact Z|exfalso].
        destruct (count_pos_in a (b :: v) ltac:(lia)) as (z & Hz & Ez).
        rewrite sorted_b_cons2 in Hs. apply andb_true_iff in Hs. destruct Hs as [Hab Ht].
        apply Qleb_le in Hab.
        pose proof (sorted_first_le (b :: v) z Ht Hz) as L.
        change (first_q (b :: v)) with b in L. apply E. lra. }
      rewrite Z. reflexivity.
Qed.

Lemma wf_forallb v p : WF v p -> forallb (fun x => (count_q x v <=? p + 1)%nat) v = true.
Proof. unfold WF, wf_b. intro W. apply andb_true_iff in W. tauto. Qed.

Lemma wf_first_ne_last v p : WF v p -> first_q v < last_q v.
Proof.
  intro W. destruct (wf_parts _ _ W) as (_ & Hl & _ & _).
  pose proof (wf_umin_lt_umax _ _ W) as L. unfold umin_of, umax_of in L.
  rewrite (wf_first_block _ _ W p) in L by lia.
  rewrite (wf_last_block _ _ W (length v - p - 1)%nat) in L by lia.
  rewrite first_q_nthq by lia. exact L.
Qed.

Lemma wf_infer_deg v p : WF v p -> infer_deg v = p.
Proof.
  intro W. destruct (wf_parts _ _ W) as (Hs & Hl & Hf & _).
  pose proof (wf_first_ne_last _ _ W) as L.
  assert (K : (infer_deg v + 1)%nat = count_q (first_q v) v).
  { apply infer_deg_count; [exact Hs|]. exists (last_q v). split; [apply last_q_in; lia|].
    intro C. lra. }
  lia.
Qed.

(* any well-formed vector is accepted by the constructor with its degree inferred *)
Lemma wf_is_valid v p : WF v p -> is_valid v None = true.
Proof.
  intro W. destruct (wf_parts _ _ W) as (Hs & Hl & Hf & Hc).
  unfold is_valid. cbv zeta. rewrite (wf_infer_deg _ _ W).
  assert (E1 : first_q v == nthz p v).
  { unfold nthz. rewrite <- (nthq_in_range v p 0) by lia.
    rewrite first_q_nthq by lia. symmetry. apply (wf_first_block _ _ W). lia. }
  assert (E2 : nthz (length v - p - 1) v == last_q v).
  { unfold nthz. rewrite <- (nthq_in_range v (length v - p - 1) 0) by lia.
    apply (wf_last_block _ _ W). lia. }
  assert (B1 : (2 <=? length v)%nat = true) by (apply Nat.leb_le; lia).
  assert (B2 : (p <? length v - p - 1)%nat = true) by (apply Nat.ltb_lt; lia).
  assert (B3 : Qeqb (first_q v) (nthz p v) = true) by (apply Qeqb_eq, E1).
  assert (B4 : Qeqb (nthz (length v - p - 1) v) (last_q v) = true) by (apply Qeqb_eq, E2).
  assert (B5 : (count_q (first_q v) v =? p + 1)%nat = true) by (apply Nat.eqb_eq, Hf).
  assert (B6 : (count_q (last_q v) v =? p + 1)%nat = true) by (apply Nat.eqb_eq, Hc).
  assert (B7 : (count_q (nthz p v) v =? count_q (nthz (length v - p - 1) v) v)%nat = true).
  { apply Nat.eqb_eq. rewrite <- E1, E2. lia. }
  rewrite B1, Hs, B2, B3, B4, B5, B6, (wf_forallb _ _ W), B7. reflexivity.
Qed.

Lemma make_of_wf v p : WF v p -> make v None = Ok (mkkv v p).
Proof.
  intro W. unfold make. rewrite (wf_is_valid _ _ W), (wf_infer_deg _ _ W). reflexivity.
Qed.

Lemma index_of_some x : forall l, (0 < count_q x l)%nat -> exists i, index_of x l = Some i.
Proof.
  induction l as [|y l IH]; intro H; [cbn in H; lia|].
  cbn [index_of]. rewrite count_q_cons in H.
  destruct (Qeqb x y); [eexists; reflexivity|].
  destruct (IH ltac:(lia)) as (i & ->). eexists; reflexivity.
Qed.

Lemma fold_pass_ok f allk : forall l ms,
  (forall x, In x l -> (0 < count_q x allk)%nat) ->
  exists ms', fold_left (pass_step f allk) l (Ok ms) = Ok ms'.
Proof.
  induction l as [|x l IH]; intros ms H; [eexists; reflexivity|].
  cbn [fold_left]. unfold pass_step at 2. cbn [bind].
  destruct (index_of_some x allk (H x (or_introl eq_refl))) as (i & ->). cbv zeta.
  destruct (nth i ms 0 <? f x)%nat; apply IH; intros z Hz; apply H; right; exact Hz.
Qed.

Lemma allk_cover_left a b x :
  WF (kvec a) (kdeg a) -> separated (kvec a ++ kvec b) -> In x (kvec a) ->
  (0 < count_q x (get_unique (kknots a ++ kknots b)))%nat.
Proof.
  intros W S Hx.
  assert (Sa : separated (kvec a)).
  { eapply separated_incl; [|exact S]. intros; apply in_or_app; left; assumption. }
  destruct (kknots_cover a x W Sa Hx) as (y & Hy & E).
  destruct (get_unique_cover (kknots a ++ kknots b) y) as (z & Hz & Ez).
  - eapply separated_incl; [|exact S]. intros w Hw. apply in_app_or in Hw. apply in_or_app.
    destruct Hw as [Hw|Hw]; [left|right]; apply kknots_in, Hw.
  - apply in_or_app. left. exact Hy.
  - apply (in_count_pos x z); [exact Hz|]. rewrite E. exact Ez.
Qed.

Lemma get_unique_app_swap_count l1 l2 x : separated (l1 ++ l2) ->
  (0 < count_q x (get_unique (l1 ++ l2)))%nat -> (0 < count_q x (get_unique (l2 ++ l1)))%nat.
Proof.
  intros S H. destruct (count_pos_in _ _ H) as (y & Hy & E).
  apply get_unique_in in Hy.
  destruct (get_unique_cover (l2 ++ l1) y) as (z & Hz & Ez).
  - apply separated_swap, S.
  - apply in_app_or in Hy. apply in_or_app. tauto.
  - apply (in_count_pos x z); [exact Hz|]. rewrite E. exact Ez.
Qed.

Lemma allk_cover_right a b x :
  WF (kvec b) (kdeg b) -> separated (kvec a ++ kvec b) -> In x (kvec b) ->
  (0 < count_q x (get_unique (kknots a ++ kknots b)))%nat.
Proof.
  intros W S Hx. apply get_unique_app_swap_count.
  - eapply separated_incl; [|exact S]. intros w Hw. apply in_app_or in Hw. apply in_or_app.
    destruct Hw as [Hw|Hw]; [right|left]; apply kknots_in, Hw.
  - apply allk_cover_left; [exact W | apply separated_swap, S | exact Hx].
Qed.

Lemma limits_first_last a b :
  WF (kvec a) (kdeg a) -> WF (kvec b) (kdeg b) -> limits_eqb a b = true ->
  first_q (kvec a) == first_q (kvec b) /\ last_q (kvec a) == last_q (kvec b).
Proof.
  intros Wa Wb L. unfold limits_eqb in L. apply andb_true_iff in L. destruct L as [L1 L2].
  apply Qeqb_eq in L1. apply Qeqb_eq in L2.
  destruct (wf_parts _ _ Wa) as (_ & Hla & _ & _).
  destruct (wf_parts _ _ Wb) as (_ & Hlb & _ & _).
  unfold kumin, kumax, klimits, knpts in L1, L2. cbn [fst snd] in L1, L2.
  rewrite (wf_first_block _ _ Wa), (wf_first_block _ _ Wb) in L1 by lia.
  rewrite (wf_last_block _ _ Wa), (wf_last_block _ _ Wb) in L2 by lia.
  rewrite !first_q_nthq by lia. split; assumption.
Qed.

Lemma lift_last d p U : WF U p -> (p <= d)%nat -> lift d p (last_q U) U = (d + 1)%nat.
Proof.
  intros W L. destruct (wf_parts _ _ W) as (_ & _ & _ & F).
  unfold lift. cbv zeta. rewrite F. replace (p + 1 =? 0)%nat with false; [lia|].
  symmetry. apply Nat.eqb_neq. lia.
Qed.

(* a sorted list with the multiplicities of the law is well formed at degree d *)
Lemma law_wf a b v :
  WF (kvec a) (kdeg a) -> WF (kvec b) (kdeg b) -> limits_eqb a b = true ->
  let d := Nat.max (kdeg a) (kdeg b) in
  sorted_b v = true ->
  (forall x, count_q x v = Nat.max (lift d (kdeg a) x (kvec a)) (lift d (kdeg b) x (kvec b))) ->
  WF v d.
Proof.
  intros Wa Wb L d Hs Law.
  destruct (limits_first_last a b Wa Wb L) as [EF EL].
  destruct (wf_parts _ _ Wa) as (Hsa & Hla & _ & _).
  destruct (wf_parts _ _ Wb) as (Hsb & Hlb & _ & _).
  assert (Da : (kdeg a <= d)%nat) by (unfold d; lia).
  assert (Db : (kdeg b <= d)%nat) by (unfold d; lia).
  assert (Bound : forall x, (count_q x v <= d + 1)%nat).
  { intro x. rewrite Law. pose proof (lift_le d _ x _ Wa Da). pose proof (lift_le d _ x _ Wb Db). lia. }
  assert (CF : count_q (first_q (kvec a)) v = (d + 1)%nat).
  { pose proof (Bound (first_q (kvec a))) as B. rewrite Law in B |- *.
    rewrite (lift_first d _ _ Wa Da) in *. lia. }
  assert (CL : count_q (last_q (kvec a)) v = (d + 1)%nat).
  { pose proof (Bound (last_q (kvec a))) as B. rewrite Law in B |- *.
    rewrite (lift_last d _ _ Wa Da) in *. lia. }
  assert (Src : forall y, In y v -> first_q (kvec a) <= y <= last_q (kvec a)).
  { intros y Hy. pose proof (in_count_pos y y v Hy (Qeq_refl y)) as P. rewrite Law in P.
    assert (C : (0 < count_q y (kvec a))%nat \/ (0 < count_q y (kvec b))%nat).
    { unfold lift in P. cbv zeta in P.
      destruct (Nat.eqb_spec (count_q y (kvec a)) 0), (Nat.eqb_spec (count_q y (kvec b)) 0); lia. }
    destruct C as [C|C]; destruct (count_pos_in _ _ C) as (z & Hz & Ez); rewrite Ez.
    - split; [apply sorted_first_le | apply sorted_le_last]; assumption.
    - rewrite EF, EL. split; [apply sorted_first_le | apply sorted_le_last]; assumption. }
  assert (Len : (0 < length v)%nat).
  { pose proof (count_q_le_length (first_q (kvec a)) v). lia. }
  assert (F : first_q v == first_q (kvec a)).
  { destruct (count_pos_in (first_q (kvec a)) v ltac:(lia)) as (y & Hy & Ey).
    pose proof (sorted_first_le v y Hs Hy).
    pose proof (Src _ (first_q_in v Len)). lra. }
  assert (G : last_q v == last_q (kvec a)).
  { destruct (count_pos_in (last_q (kvec a)) v ltac:(lia)) as (y & Hy & Ey).
    pose proof (sorted_le_last v y Hs Hy).
    pose proof (Src _ (last_q_in v Len)). lra. }
  pose proof (wf_first_ne_last _ _ Wa) as NE.
  assert (Two : (2 * d + 2 <= length v)%nat).
  { assert (N : ~ first_q (kvec a) == last_q (kvec a)) by (intro C; lra).
    pose proof (count_two_le _ _ N v). lia. }
  unfold WF, wf_b. rewrite Hs. rewrite F, G, CF, CL.
  assert (B1 : (2 * d + 2 <=? length v)%nat = true) by (apply Nat.leb_le, Two).
  rewrite B1, Nat.eqb_refl. cbn [andb].
  apply forallb_forall. intros x _. apply Nat.leb_le, Bound.
Qed.

Theorem kor_succeeds a b :
  WF (kvec a) (kdeg a) -> WF (kvec b) (kdeg b) ->
  separated (kvec a ++ kvec b) -> limits_eqb a b = true ->
  exists k, kor a b = Ok k.
Proof.
  intros Wa Wb S L. unfold kor. rewrite L. cbn [negb]. cbv zeta.
  set (allk := get_unique (kknots a ++ kknots b)).
  set (d := Nat.max (kdeg a) (kdeg b)).
  destruct (fold_pass_ok (fun x => (kmult_raw (kvec a) x + d - kdeg a)%nat) allk (kvec a)
              (repeat 0%nat (length allk))) as (m1 & P1).
  { intros x Hx. apply allk_cover_left; assumption. }
  rewrite <- or_pass_fold in P1. rewrite P1. cbn [bind].
  destruct (fold_pass_ok (fun x => (kmult_raw (kvec b) x + d - kdeg b)%nat) allk (kvec b) m1)
    as (m2 & P2).
  { intros x Hx. apply allk_cover_right; assumption. }
  rewrite <- or_pass_fold in P2. rewrite P2. cbn [bind].
  assert (W : WF (sortq (expand allk m2)) d).
  { apply (law_wf a b); try assumption; [apply sortq_sorted|].
    exact (passes_count a b m1 m2 S P1 P2). }
  rewrite (make_of_wf _ _ W). eexists; reflexivity.
Qed.

(* ------------------------------------------------------------------ *)
(* 13b. the intersection succeeds; its degree is the min degree        *)
(* ------------------------------------------------------------------ *)

Lemma and_law_wf a b v :
  WF (kvec a) (kdeg a) -> WF (kvec b) (kdeg b) -> limits_eqb a b = true ->
  sorted_b v = true ->
  (forall x, count_q x v = Nat.min (count_q x (kvec a)) (count_q x (kvec b))) ->
  WF v (Nat.min (kdeg a) (kdeg b)).
Proof.
  intros Wa Wb L Hs Law. set (d := Nat.min (kdeg a) (kdeg b)).
  destruct (limits_first_last a b Wa Wb L) as [EF EL].
  destruct (wf_parts _ _ Wa) as (Hsa & Hla & Fa & La).
  destruct (wf_parts _ _ Wb) as (Hsb & Hlb & Fb & Lb).
  assert (Bound : forall x, (count_q x v <= d + 1)%nat).
  { intro x. rewrite Law. pose proof (wf_count_le _ _ Wa x). pose proof (wf_count_le _ _ Wb x).
    unfold d. lia. }
  assert (CF : count_q (first_q (kvec a)) v = (d + 1)%nat).
  { rewrite Law, Fa, EF, Fb. unfold d. lia. }
  assert (CL : count_q (last_q (kvec a)) v = (d + 1)%nat).
  { rewrite Law, La, EL, Lb. unfold d. lia. }
  assert (Src : forall y, In y v -> first_q (kvec a) <= y <= last_q (kvec a)).
  { intros y Hy. pose proof (in_count_pos y y v Hy (Qeq_refl y)) as P. rewrite Law in P.
    destruct (count_pos_in y (kvec a) ltac:(lia)) as (z & Hz & Ez). rewrite Ez.
    split; [apply sorted_first_le | apply sorted_le_last]; assumption. }
  assert (Len : (0 < length v)%nat).
  { pose proof (count_q_le_length (first_q (kvec a)) v). lia. }
  assert (F : first_q v == first_q (kvec a)).
  { destruct (count_pos_in (first_q (kvec a)) v ltac:(lia)) as (y & Hy & Ey).
    pose proof (sorted_first_le v y Hs Hy).
    pose proof (Src _ (first_q_in v Len)). lra. }
  assert (G : last_q v == last_q (kvec a)).
  { destruct (count_pos_in (last_q (kvec a)) v ltac:(lia)) as (y & Hy & Ey).
    pose proof (sorted_le_last v y Hs Hy).
    pose proof (Src _ (last_q_in v Len)). lra. }
  pose proof (wf_first_ne_last _ _ Wa) as NE.
  assert (Two : (2 * d + 2 <= length v)%nat).
  { assert (N : ~ first_q (kvec a) == last_q (kvec a)) by (intro C; lra).
    pose proof (count_two_le _ _ N v). lia. }
  unfold WF, wf_b. rewrite Hs. rewrite F, G, CF, CL.
  assert (B1 : (2 * d + 2 <=? length v)%nat = true) by (apply Nat.leb_le, Two).
  rewrite B1, Nat.eqb_refl. cbn [andb].
  apply forallb_forall. intros x _. apply Nat.leb_le, Bound.
Qed.

Theorem kand_succeeds a b :
  WF (kvec a) (kdeg a) -> WF (kvec b) (kdeg b) ->
  separated (kvec a ++ kvec b) -> limits_eqb a b = true ->
  exists k, kand a b = Ok k /\ kdeg k = Nat.min (kdeg a) (kdeg b).
Proof.
  intros Wa Wb S L. unfold kand. rewrite L. cbn [negb]. cbv zeta.
  match goal with |- exists k, make ?v None = _ /\ _ =>
    assert (W : WF v (Nat.min (kdeg a) (kdeg b))) end.
  { apply (and_law_wf a b); try assumption; [apply sortq_sorted|].
    exact (kand_count a b Wa Wb S). }
  rewrite (make_of_wf _ _ W). eexists. split; reflexivity.
Qed.

Theorem kand_degree a b k :
  WF (kvec a) (kdeg a) -> WF (kvec b) (kdeg b) ->
  separated (kvec a ++ kvec b) ->
  kand a b = Ok k -> kdeg k = Nat.min (kdeg a) (kdeg b).
Proof.
  intros Wa Wb S H.
  destruct (kand_succeeds a b Wa Wb S (kand_limits _ _ _ H)) as (k' & H' & D).
  rewrite H in H'. inversion H'. subst k'. exact D.
Qed.

Theorem kand_comm_mult a b k k' :
  WF (kvec a) (kdeg a) -> WF (kvec b) (kdeg b) ->
  separated (kvec a ++ kvec b) -> kand a b = Ok k -> kand b a = Ok k' ->
  (forall x, count_q x (kvec k') = count_q x (kvec k)) /\ kdeg k' = kdeg k.
Proof.
  intros Wa Wb S H H'. split.
  - intro x. rewrite (kand_mult_law a b k Wa Wb S H x).
    rewrite (kand_mult_law b a k' Wb Wa (separated_swap _ _ S) H' x). apply Nat.min_comm.
  - rewrite (kand_degree a b k Wa Wb S H), (kand_degree b a k' Wb Wa (separated_swap _ _ S) H').
    apply Nat.min_comm.
Qed.

(* ------------------------------------------------------------------ *)
(* 13c. the model agrees with the executable closed forms of Check/C17 *)
(* ------------------------------------------------------------------ *)

Lemma sorted_cons_iff a l :
  sorted_b (a :: l) = true <-> ((forall y, In y l -> a <= y) /\ sorted_b l = true).
Proof.
  revert a. induction l as [|b t IH]; intro a.
  - cbn. split; [intros _; split; [intros y []|reflexivity] | reflexivity].
  - rewrite sorted_b_cons2, andb_true_iff, Qleb_le. split.
    + intros [Hab Ht]. split; [|exact Ht]. intros y [<-|Hy]; [exact Hab|].
      apply IH in Ht. destruct Ht as [Ht _]. specialize (Ht y Hy). lra.
    + intros [H Ht]. split; [apply H; left; reflexivity | exact Ht].
Qed.

(* two sorted lists with the same multiplicities are equal entry by entry *)
Lemma sorted_same_counts : forall l1 l2,
  sorted_b l1 = true -> sorted_b l2 = true ->
  (forall x, count_q x l1 = count_q x l2) -> Forall2 Qeq l1 l2.
Proof.
  induction l1 as [|x l1 IH]; intros l2 S1 S2 C.
  - destruct l2 as [|y l2]; [constructor|exfalso].
    specialize (C y). rewrite count_q_nil in C.
    pose proof (in_count_pos y y (y :: l2) (or_introl eq_refl) (Qeq_refl y)). lia.
  - destruct l2 as [|y l2].
    { exfalso. specialize (C x). rewrite count_q_nil in C.
      pose proof (in_count_pos x x (x :: l1) (or_introl eq_refl) (Qeq_refl x)). lia. }
    apply sorted_cons_iff in S1. destruct S1 as [M1 S1].
    apply sorted_cons_iff in S2. destruct S2 as [M2 S2].
    assert (E : x == y).
    { assert (A : x <= y).
      { pose proof (in_count_pos y y (y :: l2) (or_introl eq_refl) (Qeq_refl y)) as P.
        rewrite <- C in P. destruct (count_pos_in _ _ P) as (z & [<-|Hz] & Ez); [lra|].
        specialize (M1 z Hz). lra. }
      assert (B : y <= x).
      { pose proof (in_count_pos x x (x :: l1) (or_introl eq_refl) (Qeq_refl x)) as P.
        rewrite C in P. destruct (count_pos_in _ _ P) as (z & [<-|Hz] & Ez); [lra|].
        specialize (M2 z Hz). lra. }
      lra. }
    constructor; [exact E|]. apply IH; [exact S1 | exact S2|].
    intro z. specialize (C z). rewrite !count_q_cons in C.
    destruct (Qeqb_spec z x) as [A|A], (Qeqb_spec z y) as [B|B]; try lia; exfalso.
    + apply B. rewrite A. exact E.
    + apply A. rewrite B. symmetry. exact E.
Qed.

Lemma dedup_cons2 a b t :
  dedup_sorted (a :: b :: t) = if Qeqb a b then dedup_sorted (b :: t) else a :: dedup_sorted (b :: t).
Proof. reflexivity. Qed.

Lemma dedup_in : forall s y, In y (dedup_sorted s) -> In y s.
Proof.
  induction s as [|a s IH]; intros y H; [exact H|].
  destruct s as [|b t]; [exact H|].
  rewrite dedup_cons2 in H. destruct (Qeqb a b).
  - right. apply IH, H.
  - destruct H as [<-|H]; [left; reflexivity | right; apply IH, H].
Qed.

Lemma dedup_cover : forall s x, (0 < count_q x s)%nat -> (0 < count_q x (dedup_sorted s))%nat.
Proof.
  induction s as [|a s IH]; intros x H; [exact H|].
  destruct s as [|b t]; [exact H|].
  rewrite dedup_cons2. rewrite count_q_cons in H.
  destruct (Qeqb_spec a b) as [E|E].
  - apply IH. destruct (Qeqb_spec x a) as [A|A]; [|lia].
    rewrite count_q_cons. assert (B : Qeqb x b = true) by (apply Qeqb_eq; rewrite A; exact E).
    rewrite B. lia.
  - rewrite count_q_cons. destruct (Qeqb x a); [lia|]. apply IH. lia.
Qed.

Lemma dedup_sorted_sorted : forall s, sorted_b s = true -> sorted_b (dedup_sorted s) = true.
Proof.
  induction s as [|a s IH]; intro H; [reflexivity|].
  destruct s as [|b t]; [reflexivity|].
  rewrite dedup_cons2. pose proof (sorted_b_tail _ _ H) as Ht.
  destruct (Qeqb a b); [apply IH, Ht|].
  apply sorted_cons_iff. split; [|apply IH, Ht].
  intros y Hy. apply dedup_in in Hy. apply sorted_cons_iff in H. apply H, Hy.
Qed.

Lemma dedup_nodupq : forall s, sorted_b s = true -> nodupq (dedup_sorted s).
Proof.
  induction s as [|a s IH]; intro H; [apply nodupq_nil|].
  destruct s as [|b t].
  - intro x. cbn [dedup_sorted]. rewrite count_q_cons, count_q_nil. destruct (Qeqb x a); lia.
  - rewrite dedup_cons2. pose proof (sorted_b_tail _ _ H) as Ht.
    destruct (Qeqb_spec a b) as [E|E]; [apply IH, Ht|].
    intro x. rewrite count_q_cons. pose proof (IH Ht x) as K.
    destruct (Qeqb_spec x a) as [A|A]; [|lia].
    assert (Z : count_q x (dedup_sorted (b :: t)) = 0%nat).
    { destruct (Nat.eq_dec (count_q x (dedup_sorted (b :: t))) 0) as [Z|NZ]; [exact Z|exfalso].
      destruct (count_pos_in x (dedup_sorted (b :: t)) ltac:(lia)) as (z & Hz & Ez).
      apply dedup_in in Hz.
      rewrite sorted_b_cons2 in H. apply andb_true_iff in H. destruct H as [Hab _].
      apply Qleb_le in Hab.
      pose proof (sorted_first_le (b :: t) z Ht Hz) as L.
      change (first_q (b :: t)) with b in L. apply E. lra. }
    lia.
Qed.

Lemma concat_repeat_expand (h : Q -> nat) : forall ks,
  concat (map (fun x => repeat x (h x)) ks) = expand ks (map h ks).
Proof.
  induction ks as [|k ks IH]; [reflexivity|].
  cbn [map concat]. rewrite expand_cons, IH. reflexivity.
Qed.

Lemma sorted_repeat_app k l : forall m,
  sorted_b l = true -> (forall y, In y l -> k <= y) -> sorted_b (repeat k m ++ l) = true.
Proof.
  induction m as [|m IH]; intros Hs Hk; [exact Hs|].
  cbn [repeat app]. apply sorted_cons_iff. split; [|apply IH; assumption].
  intros y Hy. apply in_app_or in Hy. destruct Hy as [Hy|Hy].
  - apply repeat_spec in Hy. subst y. apply Qle_refl.
  - apply Hk, Hy.
Qed.

Lemma sorted_concat_repeat (h : Q -> nat) : forall ks, sorted_b ks = true ->
  sorted_b (concat (map (fun x => repeat x (h x)) ks)) = true.
Proof.
  induction ks as [|k ks IH]; intro H; [reflexivity|].
  cbn [map concat]. apply sorted_cons_iff in H. destruct H as [M Hs].
  apply sorted_repeat_app; [apply IH, Hs|].
  intros y Hy. apply in_concat in Hy. destruct Hy as (l & Hl & Hy).
  apply in_map_iff in Hl. destruct Hl as (z & <- & Hz).
  apply repeat_spec in Hy. subst y. apply M, Hz.
Qed.

Lemma spec_list_sorted (g : Q -> nat) U V :
  sorted_b (concat (map (fun x => repeat x (g x)) (C17.values U V))) = true.
Proof. apply sorted_concat_repeat, dedup_sorted_sorted, sortq_sorted. Qed.

Lemma spec_list_count (g : Q -> nat) U V : Proper (Qeq ==> eq) g ->
  (forall x, count_q x (U ++ V) = 0%nat -> g x = 0%nat) ->
  forall x, count_q x (concat (map (fun x => repeat x (g x)) (C17.values U V))) = g x.
Proof.
  intros Pg Z x. rewrite concat_repeat_expand.
  rewrite (count_expand_map g g x Pg).
  - destruct (existsb (Qeqb x) (C17.values U V)) eqn:E; [reflexivity|].
    symmetry. apply Z.
    rewrite existsb_count in E. apply negb_false_iff, Nat.eqb_eq in E.
    destruct (Nat.eq_dec (count_q x (U ++ V)) 0) as [K|K]; [exact K|exfalso].
    assert (P : (0 < count_q x (sortq (U ++ V)))%nat) by (rewrite count_q_sortq; lia).
    apply dedup_cover in P. unfold C17.values in E. lia.
  - apply dedup_nodupq, sortq_sorted.
  - reflexivity.
Qed.

Theorem kor_matches_spec a b k :
  WF (kvec a) (kdeg a) -> WF (kvec b) (kdeg b) ->
  separated (kvec a ++ kvec b) ->
  kor a b = Ok k ->
  C17.view_eqb (kvec k, kdeg k) (C17.spec_or (kvec a) (kdeg a) (kvec b) (kdeg b)) = true.
Proof.
  intros Wa Wb S H. unfold C17.view_eqb, C17.spec_or. cbv zeta. cbn [fst snd].
  rewrite (kor_degree a b k Wa Wb S H), Nat.eqb_refl, andb_true_r.
  apply ql_eqb_Forall2. set (d := Nat.max (kdeg a) (kdeg b)).
  destruct (wf_parts _ _ (kor_wf _ _ _ H)) as (Hs & _).
  apply sorted_same_counts; [exact Hs | apply spec_list_sorted|].
  intro x. rewrite (kor_mult_law a b k S H x). fold d.
  change (C17.lift) with lift.
  rewrite (spec_list_count
             (fun x => Nat.max (lift d (kdeg a) x (kvec a)) (lift d (kdeg b) x (kvec b)))).
  - reflexivity.
  - intros u v E. rewrite E. reflexivity.
  - intros y Z. rewrite count_q_app in Z. unfold lift. cbv zeta.
    replace (count_q y (kvec a)) with 0%nat by lia.
    replace (count_q y (kvec b)) with 0%nat by lia. reflexivity.
Qed.

Theorem kand_matches_spec a b k :
  WF (kvec a) (kdeg a) -> WF (kvec b) (kdeg b) ->
  separated (kvec a ++ kvec b) ->
  kdeg a = kdeg b -> kand a b = Ok k ->
  C17.view_eqb (kvec k, kdeg k) (C17.spec_and_eqdeg (kvec a) (kdeg a) (kvec b)) = true.
Proof.
  intros Wa Wb S D H. unfold C17.view_eqb, C17.spec_and_eqdeg. cbn [fst snd].
  rewrite (kand_degree a b k Wa Wb S H), <- D, Nat.min_id, Nat.eqb_refl, andb_true_r.
  apply ql_eqb_Forall2.
  destruct (wf_parts _ _ (kand_wf _ _ _ H)) as (Hs & _).
  apply sorted_same_counts; [exact Hs | apply spec_list_sorted|].
  intro x. rewrite (kand_mult_law a b k Wa Wb S H x).
  rewrite (spec_list_count (fun x => Nat.min (count_q x (kvec a)) (count_q x (kvec b)))).
  - reflexivity.
  - intros u v E. rewrite E. reflexivity.
  - intros y Z. rewrite count_q_app in Z. lia.
Qed.

(* ------------------------------------------------------------------ *)
(* 14. the hypotheses are satisfiable: a concrete pair                 *)
(* ------------------------------------------------------------------ *)

Definition separated_b (l : list Q) : bool :=
  forallb (fun x => forallb (fun y => Qeqb x y || Qleb tol_unique (Qabs (x - y))) l) l.

Lemma separated_b_sound l : separated_b l = true -> separated l.
Proof.
  unfold separated_b. intros H x y Hx Hy N.
  rewrite forallb_forall in H. specialize (H x Hx).
  rewrite forallb_forall in H. specialize (H y Hy).
  apply orb_true_iff in H. destruct H as [H|H].
  - exfalso. apply N. apply Qeqb_eq, H.
  - apply Qleb_le, H.
Qed.

Definition ex_a : kv := mkkv [0; 0; 0; 1#2; 1; 1; 1] 2.
Definition ex_b : kv := mkkv [0; 0; 1#4; 1#2; 1#2; 1; 1] 1.

Example ex_wf_a : WF (kvec ex_a) (kdeg ex_a).
Proof. vm_compute. reflexivity. Qed.
Example ex_wf_b : WF (kvec ex_b) (kdeg ex_b).
Proof. vm_compute. reflexivity. Qed.
Example ex_separated : separated (kvec ex_a ++ kvec ex_b).
Proof. apply separated_b_sound. vm_compute. reflexivity. Qed.
Example ex_limits : limits_eqb ex_a ex_b = true.
Proof. vm_compute. reflexivity. Qed.

(* degree 2 and 1: the simple knot 1/4 of b is doubled, its double knot 1/2 is tripled *)
Example ex_kor :
  exists k, kor ex_a ex_b = Ok k /\ kdeg k = 2%nat /\
            ql_eqb (kvec k) [0; 0; 0; 1#4; 1#4; 1#2; 1#2; 1#2; 1; 1; 1] = true.
Proof.
  destruct (kor_succeeds ex_a ex_b ex_wf_a ex_wf_b ex_separated ex_limits) as (k & H).
  exists k. split; [exact H|]. revert H. vm_compute. intro H. inversion H. split; reflexivity.
Qed.

Example ex_kand :
  exists k, kand ex_a ex_b = Ok k /\ kdeg k = 1%nat /\
            ql_eqb (kvec k) [0; 0; 1#2; 1; 1] = true.
Proof. eexists. split; [vm_compute; reflexivity|]. split; reflexivity. Qed.

Example ex_law_instance k : kor ex_a ex_b = Ok k ->
  count_q (1#2) (kvec k) = 3%nat /\ count_q (1#4) (kvec k) = 2%nat /\ count_q (3#4) (kvec k) = 0%nat.
Proof.
  intro H. rewrite !(kor_mult_law ex_a ex_b k ex_separated H). vm_compute. auto.
Qed.

Print Assumptions kor_limits.
Print Assumptions kor_limits_err.
Print Assumptions kand_limits.
Print Assumptions kand_limits_err.
Print Assumptions kor_mult_law.
Print Assumptions kor_degree.
Print Assumptions kor_refines_left.
Print Assumptions kor_refines_right.
Print Assumptions kor_no_new_knots.
Print Assumptions kor_comm_mult.
Print Assumptions kor_comm_degree.
Print Assumptions kor_idem_mult.
Print Assumptions kor_idem_degree.
Print Assumptions kand_mult_law.
Print Assumptions kand_mult_law_eqdeg.
Print Assumptions kor_succeeds.
Print Assumptions kand_succeeds.
Print Assumptions kand_degree.
Print Assumptions kand_comm_mult.
Print Assumptions kor_matches_spec.
Print Assumptions kand_matches_spec.
Print Assumptions ex_kor.
