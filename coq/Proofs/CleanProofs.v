(* The knot-clean loop (remove_while / c_knot_clean) and the join (c_join).
   K1  the loop ends by refusal, not by exhaustion of its fuel; it only ever removes copies of x.
   K2  one exactly removable copy is removed, exactly (one step of the loop).
   K3  clean undoes insertions.
   K4  the joined curve (before cleaning) is piecewise the operands. *)
From Coq Require Import QArith Qabs List Bool Arith Lia Lqa Setoid Morphisms Permutation.
From NurbsV Require Import Base.Res Base.QList Spec.BSpline Spec.KnotSpec Gen.Consts Model.KV Model.Basis
  Model.CurveM Model.Ops Model.CurveOps Model.Linalg Model.Quadrature Model.LeastSq Model.CurveLS.
From NurbsV Require Import Proofs.KVProofs Proofs.EvalProofs Proofs.InsertBasic Proofs.InsertList
  Proofs.InsertCompose Proofs.InsertCurve Proofs.RemoveBasic Proofs.MatProofs Proofs.LSProofs
  Proofs.UndoProofs Proofs.GenericUndo Proofs.EqBasic Proofs.EqInvariance Proofs.LinIndep
  Proofs.LinIndepCurves Proofs.StateProofs Proofs.SplitProofs.
From NurbsV Require Proofs.UnionProofs Proofs.GenProofs.
Import ListNotations.
Open Scope Q_scope.

(* ------------------------------------------------------------------ *)
(* K1. The loop ends by refusal                                         *)
(* ------------------------------------------------------------------ *)
Lemma kv_eqb_parts a b : kv_eqb a b = true -> Forall2 Qeq (kvec a) (kvec b) /\ kdeg a = kdeg b.
Proof.
  unfold kv_eqb. intro H. apply andb_true_iff in H. destruct H as [A B].
  split; [apply ql_eqb_Forall2; exact A | apply Nat.eqb_eq; exact B].
Qed.

(* one accepted step: the new vector is well-formed, one copy of x shorter, every other count unchanged *)
Lemma step_counts c x tol c' :
  c_knot_remove c [x] tol = Ok c' ->
  WF (kvec (ckv c')) (kdeg (ckv c')) /\
  length (kvec (ckv c)) = S (length (kvec (ckv c'))) /\
  (forall z, count_q z (kvec (ckv c)) = (count_q z (kvec (ckv c')) + (if Qeqb z x then 1 else 0))%nat).
Proof.
  intro H. destruct (c_knot_remove_knots _ _ _ _ H) as (knew & Hr & He & W & Hc & Hl).
  destruct (kv_eqb_parts _ _ He) as [HF Hd].
  assert (W' : WF (kvec (ckv c')) (kdeg (ckv c'))).
  { rewrite Hd. destruct (kremove_spec _ _ _ Hr) as [R _].
    unfold c_knot_remove in H. rewrite Hr in H. cbn [bind] in H.
    unfold c_update in H. destruct (kv_eqb knew (ckv c)) eqn:E.
    - (* impossible: the lengths differ *)
      exfalso. destruct (kv_eqb_parts _ _ E) as [HF' _].
      pose proof (Forall2_Qeq_length _ _ HF') as L. cbn [length] in Hl. lia.
    - assert (ckv c' = knew).
      { destruct (cP c).
        - destruct (negb (limits_eqb (ckv c) knew)); [discriminate|].
          destruct (c_fit_curve knew c (knots_opt knew)) as [[P' err]|]; cbn [bind] in H; [|discriminate].
          destruct tol as [t|].
          + destruct (negb (Qeqb t 0) && Qltb t err); [discriminate|]. inversion H; reflexivity.
          + inversion H; reflexivity.
        - inversion H; reflexivity. }
      rewrite H0. exact W. }
  split; [exact W'|]. split.
  - rewrite Hl. rewrite (Forall2_Qeq_length _ _ HF). cbn [length]. lia.
  - intro z. rewrite (Hc z), (F2Q_count _ _ z HF), cnt_single. reflexivity.
Qed.

Lemma Qeqb_refl x : Qeqb x x = true.
Proof. apply Qeqb_eq. reflexivity. Qed.

(* K1, core: with more fuel than copies of x the loop stops on a refusal *)
Theorem remove_while_ends_refused : forall fuel c x tol,
  (count_q x (kvec (ckv c)) < fuel)%nat ->
  exists e, c_knot_remove (remove_while fuel c x tol) [x] tol = Err e.
Proof.
  induction fuel as [|f IH]; intros c x tol Hf; [lia|].
  cbn [remove_while]. destruct (c_knot_remove c [x] tol) as [c'|e] eqn:E.
  - apply IH. destruct (step_counts _ _ _ _ E) as (_ & _ & Hc).
    specialize (Hc x). rewrite Qeqb_refl in Hc. lia.
  - exists e. exact E.
Qed.

(* an accepted removal of x is only possible from a vector that does not consist of copies of x alone *)
Lemma step_count_lt_length c x tol c' :
  c_knot_remove c [x] tol = Ok c' -> (count_q x (kvec (ckv c)) < length (kvec (ckv c)))%nat.
Proof.
  intro E. destruct (step_counts _ _ _ _ E) as (W & Hl & Hc).
  specialize (Hc x). rewrite Qeqb_refl in Hc.
  pose proof (UnionProofs.wf_count_le _ _ W x) as B.
  destruct (wf_parts _ _ W) as (_ & L & _). lia.
Qed.

(* K1 for the fuel that c_knot_clean uses: no hypothesis on the curve at all *)
Theorem remove_while_length_refused c x tol :
  exists e, c_knot_remove (remove_while (length (kvec (ckv c))) c x tol) [x] tol = Err e.
Proof.
  destruct (c_knot_remove c [x] tol) as [c'|e] eqn:E.
  - apply remove_while_ends_refused. exact (step_count_lt_length _ _ _ _ E).
  - exists e. destruct (length (kvec (ckv c))); cbn [remove_while]; [exact E|]. rewrite E. exact E.
Qed.

(* what the loop does to the knot vector: it removes j copies of x and nothing else *)
Theorem remove_while_counts : forall fuel c x tol,
  exists j, (j <= fuel)%nat /\
    length (kvec (ckv c)) = (length (kvec (ckv (remove_while fuel c x tol))) + j)%nat /\
    forall z, count_q z (kvec (ckv c)) =
              (count_q z (kvec (ckv (remove_while fuel c x tol))) + (if Qeqb z x then j else 0))%nat.
Proof.
  induction fuel as [|f IH]; intros c x tol; cbn [remove_while].
  - exists 0%nat. split; [lia|]. split; [lia|]. intro z. destruct (Qeqb z x); lia.
  - destruct (c_knot_remove c [x] tol) as [c'|e] eqn:E.
    + destruct (IH c' x tol) as (j & Hj & Hl & Hc).
      destruct (step_counts _ _ _ _ E) as (_ & Hl1 & Hc1).
      exists (S j). split; [lia|]. split; [lia|].
      intro z. rewrite (Hc1 z), (Hc z). destruct (Qeqb z x); lia.
    + exists 0%nat. split; [lia|]. split; [lia|]. intro z. destruct (Qeqb z x); lia.
Qed.

Corollary remove_while_count_le fuel c x tol y :
  (count_q y (kvec (ckv (remove_while fuel c x tol))) <= count_q y (kvec (ckv c)))%nat.
Proof. destruct (remove_while_counts fuel c x tol) as (j & _ & _ & Hc). rewrite (Hc y). lia. Qed.

Corollary remove_while_count_other fuel c x tol y : ~ y == x ->
  count_q y (kvec (ckv (remove_while fuel c x tol))) = count_q y (kvec (ckv c)).
Proof.
  intro N. destruct (remove_while_counts fuel c x tol) as (j & _ & _ & Hc). rewrite (Hc y).
  destruct (Qeqb_spec y x); [contradiction|lia].
Qed.

(* the vector stays well-formed, and so does the degree: kremove infers it, the curve keeps it *)
Theorem remove_while_wf : forall fuel c x tol,
  WF (kvec (ckv c)) (kdeg (ckv c)) ->
  WF (kvec (ckv (remove_while fuel c x tol))) (kdeg (ckv (remove_while fuel c x tol))).
Proof.
  induction fuel as [|f IH]; intros c x tol W; cbn [remove_while]; [exact W|].
  destruct (c_knot_remove c [x] tol) as [c'|e] eqn:E; [|exact W].
  apply IH. exact (proj1 (step_counts _ _ _ _ E)).
Qed.

(* the same at the level of c_knot_clean, for one requested knot (the shape c_join uses) *)
Theorem knot_clean_single_refused c x tol r :
  c_knot_clean c (Some [x]) tol = Ok r ->
  (r = c /\ (x == kumin (ckv c) \/ x == kumax (ckv c))) \/
  (r = remove_while (length (kvec (ckv c))) c x (Some tol) /\
   exists e, c_knot_remove r [x] (Some tol) = Err e).
Proof.
  unfold c_knot_clean. destruct (Qltb tol 0); [discriminate|].
  cbn [sortq insq dedupq filter].
  destruct (Qeqb_spec x (kumin (ckv c))) as [A|A]; cbn [negb andb].
  - cbn [fold_left]. intro H; injection H as <-. left. split; [reflexivity|left; exact A].
  - destruct (Qeqb_spec x (kumax (ckv c))) as [B|B]; cbn [negb].
    + cbn [fold_left]. intro H; injection H as <-. left. split; [reflexivity|right; exact B].
    + cbn [fold_left]. intro H; injection H as <-. right. split; [reflexivity|].
      apply remove_while_length_refused.
Qed.

Print Assumptions remove_while_ends_refused.
Print Assumptions remove_while_length_refused.
Print Assumptions remove_while_counts.
Print Assumptions remove_while_wf.
Print Assumptions knot_clean_single_refused.

(* ------------------------------------------------------------------ *)
(* K4. The joined curve (before cleaning) is piecewise the operands     *)
(* ------------------------------------------------------------------ *)
Lemma sorted_firstn : forall n l, sorted_b l = true -> sorted_b (firstn n l) = true.
Proof.
  induction n as [|n IH]; intros l H; [reflexivity|].
  destruct l as [|a l]; [reflexivity|]. cbn [firstn].
  apply UnionProofs.sorted_cons_iff in H. destruct H as [M S].
  apply UnionProofs.sorted_cons_iff. split; [|apply IH, S].
  intros y Hy. apply M. exact (UnionProofs.in_firstn _ _ _ Hy).
Qed.

Lemma last_app_ne (l1 l2 : list Q) d : l2 <> [] -> last (l1 ++ l2) d = last l2 d.
Proof.
  intro N. induction l1 as [|a l1 IH]; [reflexivity|].
  cbn [app]. destruct (l1 ++ l2) eqn:E.
  - destruct l1; [cbn in E; contradiction | discriminate].
  - cbn [last]. exact IH.
Qed.

Lemma nth_firstn_lt (l : list Q) n i d : (i < n)%nat -> nth i (firstn n l) d = nth i l d.
Proof.
  revert l i. induction n as [|n IH]; intros l i H; [lia|].
  destruct l as [|a l]; [reflexivity|]. destruct i as [|i]; [reflexivity|].
  cbn [firstn nth]. apply IH. lia.
Qed.

Lemma nth_skipn_plus (l : list Q) d : forall n i, nth i (skipn n l) d = nth (n + i) l d.
Proof.
  intros n. revert l. induction n as [|n IH]; intros l i; [reflexivity|].
  destruct l as [|a l]; [destruct i; reflexivity|]. cbn [skipn Nat.add nth]. apply IH.
Qed.

Lemma count_q_firstn_skipn x n (l : list Q) : count_q x l = (count_q x (firstn n l) + count_q x (skipn n l))%nat.
Proof. rewrite <- UnionProofs.count_q_app, firstn_skipn. reflexivity. Qed.

Lemma count_q_all x : forall l, (forall y, In y l -> y == x) -> count_q x l = length l.
Proof.
  induction l as [|a l IH]; intro H; [reflexivity|]. rewrite count_q_cons.
  rewrite IH by (intros y Hy; apply H; right; exact Hy).
  destruct (Qeqb_spec x a) as [E|E]; [reflexivity|]. exfalso. apply E. symmetry. apply H. left. reflexivity.
Qed.

Lemma count_q_none x : forall l, (forall y, In y l -> ~ y == x) -> count_q x l = 0%nat.
Proof.
  induction l as [|a l IH]; intro H; [reflexivity|]. rewrite count_q_cons.
  rewrite IH by (intros y Hy; apply H; right; exact Hy).
  destruct (Qeqb_spec x a) as [E|E]; [|reflexivity]. exfalso. apply (H a); [left; reflexivity|]. symmetry. exact E.
Qed.

Section Join.
Variables Ua Ub : list Q.
Variable p : nat.
Hypothesis Wa : WF Ua p.
Hypothesis Wb : WF Ub p.
Hypothesis Hj : last_q Ua == first_q Ub.

Let na := npts_of Ua p.
Definition join_vec : list Q := firstn (npts_of Ua p) Ua ++ Ub.

Let La : (2 * p + 2 <= length Ua)%nat := sf_len Ua p Wa.
Let Lb : (2 * p + 2 <= length Ub)%nat := sf_len Ub p Wb.

Lemma join_len_firstn : length (firstn na Ua) = na.
Proof. apply firstn_length_le. unfold na, npts_of. lia. Qed.

Lemma join_length : length join_vec = (na + length Ub)%nat.
Proof. unfold join_vec. fold na. rewrite app_length, join_len_firstn. reflexivity. Qed.

Lemma join_Ub_ne : Ub <> [].
Proof. intro E. rewrite E in Lb. cbn in Lb. lia. Qed.

(* the second operand sits inside the joined vector at offset npts(A) *)
Lemma join_nth_b m : nthq join_vec (na + m) = nthq Ub m.
Proof.
  unfold nthq, join_vec. fold na. rewrite (last_app_ne _ _ 0 join_Ub_ne).
  rewrite <- join_len_firstn at 1. apply app_nth2_plus.
Qed.

Lemma join_nth_a_lt m : (m < na)%nat -> nthq join_vec m = nthq Ua m.
Proof.
  intro H. unfold join_vec. fold na. unfold nthq at 1.
  rewrite app_nth1 by (rewrite join_len_firstn; exact H).
  rewrite nth_firstn_lt by exact H. symmetry. apply nthq_in_range. unfold na, npts_of in H. lia.
Qed.

(* the first operand sits inside the joined vector at offset 0: its last p+1 knots are == the first p+1 of B *)
Lemma join_nth_a m : (m < length Ua)%nat -> nthq Ua m == nthq join_vec (0 + m).
Proof.
  intro H. cbn [Nat.add]. pose proof La as La'. pose proof Lb as Lb'. destruct (Nat.lt_ge_cases m na) as [L|G].
  - rewrite join_nth_a_lt by exact L. reflexivity.
  - replace m with (na + (m - na))%nat at 2 by lia. rewrite join_nth_b.
    rewrite (wf_last_block _ _ Wa m) by (unfold na, npts_of in G; lia).
    rewrite Hj. rewrite (first_q_nthq Ub) by lia.
    symmetry. apply (wf_first_block _ _ Wb). unfold na, npts_of in G |- *. lia.
Qed.

Lemma join_In_a y : In y (firstn na Ua) -> first_q Ua <= y /\ y < last_q Ua.
Proof.
  intro Hy. destruct (In_nth _ _ 0 Hy) as (i & Hi & E). rewrite join_len_firstn in Hi.
  rewrite nth_firstn_lt in E by exact Hi.
  destruct (wf_parts _ _ Wa) as (Hs & _).
  split.
  - apply UnionProofs.sorted_first_le; [exact Hs|]. exact (UnionProofs.in_firstn _ _ _ Hy).
  - rewrite <- E. rewrite <- (nthq_in_range Ua i 0) by (unfold na, npts_of in Hi; lia).
    pose proof (wf_interior_strict_hi _ _ Wa) as S.
    rewrite (wf_last_block _ _ Wa (length Ua - p - 1)) in S by lia.
    assert (nthq Ua i <= nthq Ua (length Ua - p - 2)).
    { apply (wf_mono_le _ _ Wa). unfold na, npts_of in Hi. lia. }
    lra.
Qed.

Lemma join_In_b y : In y Ub -> first_q Ub <= y <= last_q Ub.
Proof.
  intro Hy. destruct (wf_parts _ _ Wb) as (Hs & _). split.
  - apply UnionProofs.sorted_first_le; assumption.
  - apply UnionProofs.sorted_le_last; assumption.
Qed.

Lemma join_first : first_q join_vec = first_q Ua.
Proof.
  unfold first_q, join_vec. fold na. rewrite app_nth1 by (rewrite join_len_firstn; unfold na, npts_of; lia).
  apply nth_firstn_lt. unfold na, npts_of. lia.
Qed.

Lemma join_last : last_q join_vec = last_q Ub.
Proof. unfold last_q, join_vec. apply last_app_ne. exact join_Ub_ne. Qed.

(* multiplicities in the joined vector: those of A without its closing block, plus those of B *)
Lemma join_count_a y : count_q y Ua = (count_q y (firstn na Ua) + (if Qeqb y (last_q Ua) then p + 1 else 0))%nat.
Proof.
  rewrite (count_q_firstn_skipn y na Ua). f_equal.
  assert (Hall : forall z, In z (skipn na Ua) -> z == last_q Ua).
  { intros z Hz. destruct (In_nth _ _ 0 Hz) as (i & Hi & E). rewrite <- E.
    rewrite nth_skipn_plus. rewrite skipn_length in Hi.
    rewrite <- (nthq_in_range Ua (na + i) 0) by lia.
    apply (wf_last_block _ _ Wa). unfold na, npts_of. lia. }
  assert (Hlen : length (skipn na Ua) = (p + 1)%nat) by (rewrite skipn_length; unfold na, npts_of; lia).
  destruct (Qeqb_spec y (last_q Ua)) as [E|E].
  - rewrite <- Hlen. apply count_q_all. intros z Hz. rewrite E. apply Hall, Hz.
  - apply count_q_none. intros z Hz C. apply E. rewrite <- C. apply Hall, Hz.
Qed.

Lemma join_count y : count_q y join_vec =
  (count_q y Ua - (if Qeqb y (last_q Ua) then p + 1 else 0) + count_q y Ub)%nat.
Proof. unfold join_vec. fold na. rewrite UnionProofs.count_q_app, (join_count_a y). lia. Qed.

Theorem join_wf : WF join_vec p.
Proof.
  destruct (wf_parts _ _ Wa) as (Hsa & _ & Hfa & Hla).
  destruct (wf_parts _ _ Wb) as (Hsb & _ & Hfb & Hlb).
  pose proof (UnionProofs.wf_first_ne_last _ _ Wa) as NEa.
  pose proof (UnionProofs.wf_first_ne_last _ _ Wb) as NEb.
  assert (Cnt : forall y, (count_q y join_vec <= p + 1)%nat).
  { intro y. rewrite join_count.
    pose proof (UnionProofs.wf_count_le _ _ Wa y) as Ba. pose proof (UnionProofs.wf_count_le _ _ Wb y) as Bb.
    destruct (Qeqb_spec y (last_q Ua)) as [E|E]; [lia|].
    destruct (Qlt_le_dec y (last_q Ua)) as [L|G].
    - rewrite (count_q_none y Ub); [lia|]. intros z Hz C. pose proof (join_In_b z Hz). lra.
    - rewrite (count_q_none y Ua); [lia|]. intros z Hz C.
      pose proof (UnionProofs.sorted_le_last _ z Hsa Hz). apply E. lra. }
  unfold WF, wf_b. repeat (apply andb_true_iff; split).
  - unfold join_vec. apply GenProofs.sorted_b_app; [apply sorted_firstn, Hsa | exact Hsb |].
    intros x y Hx Hy. pose proof (join_In_a x Hx). pose proof (join_In_b y Hy). lra.
  - apply Nat.leb_le. rewrite join_length. unfold na, npts_of. lia.
  - apply Nat.eqb_eq. rewrite join_first, join_count, Hfa.
    destruct (Qeqb_spec (first_q Ua) (last_q Ua)) as [E|E]; [lra|].
    rewrite (count_q_none _ Ub); [lia|]. intros z Hz C. pose proof (join_In_b z Hz). lra.
  - apply Nat.eqb_eq. rewrite join_last, join_count, Hlb.
    destruct (Qeqb_spec (last_q Ub) (last_q Ua)) as [E|E]; [lra|].
    rewrite (count_q_none _ Ua); [lia|]. intros z Hz C.
    pose proof (UnionProofs.sorted_le_last _ z Hsa Hz). lra.
  - apply forallb_forall. intros x _. apply Nat.leb_le. apply Cnt.
Qed.

Lemma join_npts : npts_of join_vec p = (npts_of Ua p + npts_of Ub p)%nat.
Proof. unfold npts_of at 1. rewrite join_length. unfold na, npts_of. lia. Qed.

Section JoinCurve.
Variables Pa Pb : list Q.
Hypothesis HPa : length Pa = npts_of Ua p.
Hypothesis HPb : length Pb = npts_of Ub p.

Lemma join_npts_points : npts_of join_vec p = length (Pa ++ Pb).
Proof. rewrite join_npts, app_length, HPa, HPb. reflexivity. Qed.

(* on [umin A, umax A) the joined curve is A *)
Theorem join_left u : in_range Ua p u = true -> u < umax_of Ua p ->
  curve_spec1 join_vec p (Pa ++ Pb) u == curve_spec1 Ua p Pa u.
Proof.
  intros Hr Hlt.
  assert (Hlen : (0 + length Ua <= length join_vec)%nat) by (rewrite join_length; unfold na, npts_of; lia).
  pose proof (curve_restrict join_vec Ua p 0 join_wf Wa Hlen join_nth_a u Hr (or_introl Hlt) (Pa ++ Pb)) as R.
  rewrite <- R. cbn [skipn]. rewrite <- HPa, firstn_app, Nat.sub_diag, firstn_all, firstn_O, app_nil_r. reflexivity.
Qed.

(* on [umin B, umax B] the joined curve is B (at the junction: the value of B, the right limit) *)
Theorem join_right u : in_range Ub p u = true ->
  curve_spec1 join_vec p (Pa ++ Pb) u == curve_spec1 Ub p Pb u.
Proof.
  intros Hr.
  assert (Hlen : (na + length Ub <= length join_vec)%nat) by (rewrite join_length; lia).
  assert (Hsub : forall m, (m < length Ub)%nat -> nthq Ub m == nthq join_vec (na + m)).
  { intros m _. rewrite join_nth_b. reflexivity. }
  assert (Hend : u < umax_of Ub p \/ (na + length Ub = length join_vec)%nat) by (right; rewrite join_length; reflexivity).
  pose proof (curve_restrict join_vec Ub p na join_wf Wb Hlen Hsub u Hr Hend (Pa ++ Pb)) as R.
  rewrite <- R. unfold na. rewrite <- HPa, skipn_app, Nat.sub_diag, skipn_all, skipn_O, app_nil_l.
  rewrite <- HPb, firstn_all. reflexivity.
Qed.
End JoinCurve.
End Join.

Print Assumptions join_wf.
Print Assumptions join_left.
Print Assumptions join_right.

(* the same for points of dimension d, coordinate by coordinate *)
Lemma coord_app k (A B : list (list Q)) : coord k (A ++ B) = coord k A ++ coord k B.
Proof. unfold coord. apply map_app. Qed.
Lemma coord_length k (A : list (list Q)) : length (coord k A) = length A.
Proof. unfold coord. apply map_length. Qed.

Theorem join_left_pts Ua Ub p (Pa Pb : list (list Q)) d u :
  WF Ua p -> WF Ub p -> last_q Ua == first_q Ub ->
  length Pa = npts_of Ua p -> length Pb = npts_of Ub p ->
  in_range Ua p u = true -> u < umax_of Ua p ->
  Forall2 Qeq (curve_spec (join_vec Ua Ub p) p d (Pa ++ Pb) u) (curve_spec Ua p d Pa u).
Proof.
  intros Wa Wb Hj HPa HPb Hr Hlt. unfold curve_spec.
  induction (seq 0 d) as [|k l IH]; cbn [map]; constructor; [|exact IH].
  rewrite coord_app. apply (join_left Ua Ub p Wa Wb Hj); rewrite ?coord_length; assumption.
Qed.

Theorem join_right_pts Ua Ub p (Pa Pb : list (list Q)) d u :
  WF Ua p -> WF Ub p -> last_q Ua == first_q Ub ->
  length Pa = npts_of Ua p -> length Pb = npts_of Ub p ->
  in_range Ub p u = true ->
  Forall2 Qeq (curve_spec (join_vec Ua Ub p) p d (Pa ++ Pb) u) (curve_spec Ub p d Pb u).
Proof.
  intros Wa Wb Hj HPa HPb Hr. unfold curve_spec.
  induction (seq 0 d) as [|k l IH]; cbn [map]; constructor; [|exact IH].
  rewrite coord_app. apply (join_right Ua Ub p Wa Wb Hj); rewrite ?coord_length; assumption.
Qed.

(* the range of the joined vector is [umin A, umax B] and the junction knot is strictly inside *)
Lemma join_limits Ua Ub p : WF Ua p -> WF Ub p -> last_q Ua == first_q Ub ->
  umin_of (join_vec Ua Ub p) p == umin_of Ua p /\ umax_of (join_vec Ua Ub p) p == umax_of Ub p /\
  umin_of Ua p < last_q Ua /\ last_q Ua < umax_of Ub p.
Proof.
  intros Wa Wb Hj. pose proof (sf_len _ _ Wa) as La. pose proof (sf_len _ _ Wb) as Lb.
  split; [|split; [|split]].
  - unfold umin_of. rewrite (join_nth_a_lt Ua Ub p Wa Wb) by (unfold npts_of; lia). reflexivity.
  - unfold umax_of. rewrite (join_length Ua Ub p Wa Wb).
    replace (npts_of Ua p + length Ub - p - 1)%nat with (npts_of Ua p + (length Ub - p - 1))%nat by lia.
    rewrite (join_nth_b Ua Ub p Wa Wb). reflexivity.
  - rewrite <- (wf_first_umin _ _ Wa). apply (UnionProofs.wf_first_ne_last _ _ Wa).
  - rewrite <- (wf_last_umax _ _ Wb), Hj. apply (UnionProofs.wf_first_ne_last _ _ Wb).
Qed.

(* K4, model level: for two polynomial curves of the same degree, c_join is knot_clean at the junction of the curve
   (join_vec, Pa ++ Pb) - which is piecewise the operands by join_left_pts / join_right_pts - and the cleaning is the
   remove_while loop on the junction knot, which stops on a refusal (K1) *)
Definition joined (a b : curve) (Pa Pb : list pt) : curve :=
  mkcurve (mkkv (join_vec (kvec (ckv a)) (kvec (ckv b)) (kdeg (ckv a))) (kdeg (ckv a))) (Some (Pa ++ Pb)) None.

Theorem c_join_same_degree a b Pa Pb :
  cP a = Some Pa -> cP b = Some Pb -> cW a = None -> cW b = None ->
  kdeg (ckv b) = kdeg (ckv a) ->
  WF (kvec (ckv a)) (kdeg (ckv a)) -> WF (kvec (ckv b)) (kdeg (ckv b)) ->
  last_q (kvec (ckv a)) == first_q (kvec (ckv b)) ->
  let J := joined a b Pa Pb in
  let t := last_q (kvec (ckv a)) in
  c_join a b = c_knot_clean J (Some [t]) tol_kclean /\
  c_join a b = Ok (remove_while (length (kvec (ckv J))) J t (Some tol_kclean)) /\
  exists e, c_knot_remove (remove_while (length (kvec (ckv J))) J t (Some tol_kclean)) [t] (Some tol_kclean) = Err e.
Proof.
  intros HPa HPb HWa HWb Hd Wa Wb Hj J t. rewrite Hd in Wb.
  assert (E1 : c_join a b = c_knot_clean J (Some [t]) tol_kclean).
  { unfold c_join. destruct (Qeqb_spec (last_q (kvec (ckv a))) (first_q (kvec (ckv b)))) as [_|N]; [|contradiction].
    cbn [negb]. rewrite HPa, HPb, Hd, Nat.max_id. unfold c_set_degree. rewrite Hd, Nat.eqb_refl. cbn [bind].
    rewrite HPa, HPb, HWa, HWb.
    change (knpts (ckv a)) with (npts_of (kvec (ckv a)) (kdeg (ckv a))).
    fold (join_vec (kvec (ckv a)) (kvec (ckv b)) (kdeg (ckv a))).
    rewrite (UnionProofs.make_of_wf _ _ (join_wf _ _ _ Wa Wb Hj)). cbn [bind]. reflexivity. }
  split; [exact E1|].
  destruct (join_limits _ _ _ Wa Wb Hj) as (L1 & L2 & L3 & L4).
  assert (E2 : c_knot_clean J (Some [t]) tol_kclean = Ok (remove_while (length (kvec (ckv J))) J t (Some tol_kclean))).
  { unfold c_knot_clean. replace (Qltb tol_kclean 0) with false by (vm_compute; reflexivity).
    cbn [sortq insq dedupq filter]. rewrite kumin_umin, kumax_umax. unfold J, joined. cbn [ckv kvec kdeg].
    destruct (Qeqb_spec t (umin_of (join_vec (kvec (ckv a)) (kvec (ckv b)) (kdeg (ckv a))) (kdeg (ckv a)))) as [A|A].
    { exfalso. unfold t in A. lra. }
    destruct (Qeqb_spec t (umax_of (join_vec (kvec (ckv a)) (kvec (ckv b)) (kdeg (ckv a))) (kdeg (ckv a)))) as [B|B].
    { exfalso. unfold t in B. lra. }
    cbn [negb andb fold_left ckv kvec]. reflexivity. }
  split; [rewrite E1; exact E2|]. apply remove_while_length_refused.
Qed.

Print Assumptions join_left_pts.
Print Assumptions join_right_pts.
Print Assumptions c_join_same_degree.

(* ------------------------------------------------------------------ *)
(* K2. One exactly removable copy is removed, exactly                   *)
(* ------------------------------------------------------------------ *)
(* an accepted removal of one knot returns the vector computed by kremove, syntactically *)
Lemma step_kv c x tol c' : c_knot_remove c [x] tol = Ok c' -> kremove (ckv c) [x] = Ok (ckv c').
Proof.
  intro H. destruct (c_knot_remove_knots _ _ _ _ H) as (knew & Hr & He & W & Hc & Hl).
  rewrite Hr. f_equal. symmetry.
  unfold c_knot_remove in H. rewrite Hr in H. cbn [bind] in H.
  unfold c_update in H. destruct (kv_eqb knew (ckv c)) eqn:E.
  - exfalso. destruct (kv_eqb_parts _ _ E) as [HF' _].
    pose proof (Forall2_Qeq_length _ _ HF') as L. cbn [length] in Hl. lia.
  - destruct (cP c).
    + destruct (negb (limits_eqb (ckv c) knew)); [discriminate|].
      destruct (c_fit_curve knew c (knots_opt knew)) as [[P' err]|]; cbn [bind] in H; [|discriminate].
      destruct tol as [t|].
      * destruct (negb (Qeqb t 0) && Qltb t err); [discriminate|]. inversion H; reflexivity.
      * inversion H; reflexivity.
    + inversion H; reflexivity.
Qed.

Theorem remove_while_exact_step (c1 : curve) (P1 : list pt) (d : nat) (x : Q) (knew : kv) (Q0 : list pt) :
  cW c1 = None -> cP c1 = Some P1 -> WF (kvec (ckv c1)) (cdeg c1) ->
  length P1 = cnpts c1 -> Forall (fun q : pt => length q = d) P1 ->
  kremove (ckv c1) [x] = Ok knew -> kdeg knew = cdeg c1 -> limits_eqb (ckv c1) knew = true ->
  length Q0 = knpts knew -> Forall (fun q : pt => length q = d) Q0 ->
  (forall u, in_range (kvec (ckv c1)) (cdeg c1) u = true ->
     Forall2 Qeq (curve_spec (kvec knew) (kdeg knew) d Q0 u) (curve_spec (kvec (ckv c1)) (cdeg c1) d P1 u)) ->
  forall (t : Q) (T E : mat), 0 <= t ->
  spline2spline (ckv c1) knew (knots_opt knew) = Ok (T, E) ->
  exists c2 P2,
    c_knot_remove c1 [x] (Some t) = Ok c2 /\
    (forall f, remove_while (S f) c1 x (Some t) = remove_while f c2 x (Some t)) /\
    ckv c2 = knew /\ cP c2 = Some P2 /\ Forall2 (Forall2 Qeq) P2 Q0 /\ cW c2 = None.
Proof.
  intros HW HP W HPl HPd Hrem Hdeg Hlim HQl HQd Hfun t T E Ht HS.
  destruct (removable_succeeds c1 P1 d [x] knew Q0 HW HP W HPl HPd Hrem Hdeg Hlim HQl HQd Hfun t T E Ht HS) as [c2 H2].
  destruct (removable_returns c1 P1 d [x] knew Q0 HW HP W HPl HPd Hrem Hdeg Hlim HQl HQd Hfun (Some t) c2 H2)
    as (P2 & HP2 & HF & HW2 & _).
  exists c2, P2. split; [exact H2|]. split; [intro f; cbn [remove_while]; rewrite H2; reflexivity|].
  split; [|repeat split; assumption].
  pose proof (step_kv _ _ _ _ H2) as K. rewrite Hrem in K. inversion K. reflexivity.
Qed.

Print Assumptions remove_while_exact_step.

(* ------------------------------------------------------------------ *)
(* K3. Clean undoes insertions                                          *)
(* ------------------------------------------------------------------ *)
(* removing one copy of a strictly interior knot that is present succeeds at the level of knot vectors *)
Lemma kremove_one_ok k x :
  WF (kvec k) (kdeg k) -> first_q (kvec k) < x < last_q (kvec k) -> (0 < count_q x (kvec k))%nat ->
  exists knew, kremove k [x] = Ok knew /\ kdeg knew = kdeg k /\ WF (kvec knew) (kdeg knew) /\
    first_q (kvec knew) == first_q (kvec k) /\ last_q (kvec knew) == last_q (kvec k) /\
    forall y, count_q y (kvec k) = (count_q y (kvec knew) + (if Qeqb y x then 1 else 0))%nat.
Proof.
  intros W Hx Hc. destruct (remove1_some x (kvec k) Hc) as [l R].
  assert (RA : remove_all [x] (kvec k) = Some l) by (cbn [remove_all]; rewrite R; reflexivity).
  destruct (wf_parts _ _ W) as (Hs & Hl & Hf & Hla).
  pose proof (count_q_remove1 (first_q (kvec k)) x _ _ R) as C1.
  pose proof (count_q_remove1 (last_q (kvec k)) x _ _ R) as C2.
  destruct (Qeqb_spec (first_q (kvec k)) x) as [E|_]; [lra|].
  destruct (Qeqb_spec (last_q (kvec k)) x) as [E|_]; [lra|].
  destruct (wf_of_counts (kvec k) (kdeg k) l W) as (Wl & F & L).
  - exact (remove_all_sorted _ _ _ Hs RA).
  - intros y Hy. pose proof (remove_all_In _ _ _ y RA Hy) as Hy'. split.
    + apply UnionProofs.sorted_first_le; assumption.
    + apply UnionProofs.sorted_le_last; assumption.
  - lia.
  - lia.
  - intro y. pose proof (count_q_remove1 y x _ _ R). pose proof (UnionProofs.wf_count_le _ _ W y). lia.
  - exists (mkkv l (kdeg k)). cbn [kvec kdeg]. split.
    + unfold kremove. rewrite RA. exact (UnionProofs.make_of_wf _ _ Wl).
    + repeat split; try assumption. intro y. exact (count_q_remove1 y x _ _ R).
Qed.

Lemma curve_spec_proper_coef U p d (P P' : list (list Q)) u :
  Forall2 (Forall2 Qeq) P P' -> Forall2 Qeq (curve_spec U p d P u) (curve_spec U p d P' u).
Proof.
  intro H. unfold curve_spec. induction (seq 0 d) as [|k l IH]; cbn [map]; constructor; [|exact IH].
  apply curve_spec1_proper_coef. exact (coord_meq k P P' H).
Qed.

Lemma F2_dims d (A B : list (list Q)) : Forall2 (Forall2 Qeq) A B ->
  Forall (fun q : list Q => length q = d) B -> Forall (fun q : list Q => length q = d) A.
Proof.
  induction 1 as [|a b A B Hab H IH]; intro HB; constructor; inversion HB; subst.
  - exact (Forall2_Qeq_length _ _ Hab).
  - apply IH. assumption.
Qed.

Lemma in_range_first_last U V p u : WF U p -> WF V p ->
  first_q U == first_q V -> last_q U == last_q V -> in_range U p u = in_range V p u.
Proof.
  intros WU WV F L. unfold in_range.
  rewrite <- (Qleb_proper _ _ (wf_first_umin _ _ WU) u u (Qeq_refl u)).
  rewrite <- (Qleb_proper _ _ (wf_first_umin _ _ WV) u u (Qeq_refl u)).
  rewrite <- (Qleb_proper u u (Qeq_refl u) _ _ (wf_last_umax _ _ WU)).
  rewrite <- (Qleb_proper u u (Qeq_refl u) _ _ (wf_last_umax _ _ WV)).
  rewrite (Qleb_proper _ _ F u u (Qeq_refl u)), (Qleb_proper u u (Qeq_refl u) _ _ L). reflexivity.
Qed.

Section CleanUndo.
(* the coarse curve g = (kg, Pg), polynomial, of dimension d; x strictly inside its interval *)
Variables (kg : kv) (Pg : list pt) (d : nat) (x t : Q).
Hypothesis Wg : WF (kvec kg) (kdeg kg).
Hypothesis HPgl : length Pg = knpts kg.
Hypothesis HPgd : Forall (fun q : pt => length q = d) Pg.
Hypothesis Hx : first_q (kvec kg) < x < last_q (kvec kg).
Hypothesis Ht : 0 <= t.

(* c (with control points P) is a polynomial curve over a vector that is the one of g plus m copies of x,
   at the same degree, and it is the same function as g *)
Definition refines_by (m : nat) (c : curve) (P : list pt) : Prop :=
  cW c = None /\ cP c = Some P /\ WF (kvec (ckv c)) (cdeg c) /\ cdeg c = kdeg kg /\
  length P = cnpts c /\ Forall (fun q : pt => length q = d) P /\
  first_q (kvec (ckv c)) == first_q (kvec kg) /\ last_q (kvec (ckv c)) == last_q (kvec kg) /\
  (forall y, count_q y (kvec (ckv c)) = (count_q y (kvec kg) + (if Qeqb y x then m else 0))%nat) /\
  (forall u, in_range (kvec kg) (kdeg kg) u = true ->
     Forall2 Qeq (curve_spec (kvec (ckv c)) (cdeg c) d P u) (curve_spec (kvec kg) (kdeg kg) d Pg u)).

(* the certificates of the model's linear solves along the way down: starting from the vector k, m times: kremove k [x]
   succeeds and the solve spline2spline k knw (knots_opt knw) that c_knot_remove performs is certified *)
Fixpoint certs (m : nat) (k : kv) : Prop :=
  match m with
  | O => True
  | S m' => exists knw T E, kremove k [x] = Ok knw /\ spline2spline k knw (knots_opt knw) = Ok (T, E) /\ certs m' knw
  end.

Lemma undo_step m c P : refines_by (S m) c P ->
  (forall knw, kremove (ckv c) [x] = Ok knw -> exists T E, spline2spline (ckv c) knw (knots_opt knw) = Ok (T, E)) ->
  exists c' P', c_knot_remove c [x] (Some t) = Ok c' /\ refines_by m c' P'.
Proof using All.
  intros (HW & HP & W & Hdeg & HPl & HPd & HF & HL & Hcnt & Hfun) Hcert.
  unfold cdeg in *.
  destruct (kremove_one_ok (ckv c) x W) as (knew & Hrem & Hd1 & Wn & F1 & L1 & C1).
  { rewrite HF, HL. exact Hx. }
  { rewrite (Hcnt x), Qeqb_refl. lia. }
  assert (Cn : forall y, count_q y (kvec knew) = (count_q y (kvec kg) + (if Qeqb y x then m else 0))%nat).
  { intro y. pose proof (C1 y) as A. rewrite (Hcnt y) in A. destruct (Qeqb y x); lia. }
  assert (Hlim : limits_eqb (ckv c) knew = true).
  { apply limits_of_first_last; [exact W | exact Wn | symmetry; exact F1 | symmetry; exact L1]. }
  assert (Hlimg : limits_eqb kg knew = true).
  { apply limits_of_first_last; [exact Wg | exact Wn | rewrite F1, HF; reflexivity | rewrite L1, HL; reflexivity]. }
  assert (Hdn : kdeg knew = kdeg kg) by (rewrite Hd1; exact Hdeg).
  destruct (refinement_by_nodes kg knew (repeat x m) Wg Wn Hdn Hlimg) as (kf & M & Hk & HM & Hdf & HFk & Hdk).
  { intro y. rewrite (Cn y), UnionProofs.count_q_repeat. reflexivity. }
  set (Q0 := mat_apply M Pg).
  destruct (knot_insert_curve kg (repeat x m) M kf Wg HM Hk Hdf) as [LM _].
  assert (HQl : length Q0 = knpts knew).
  { unfold Q0. rewrite mat_apply_length, LM. unfold knpts. rewrite (Forall2_Qeq_length _ _ HFk), Hdk. reflexivity. }
  assert (HQd : Forall (fun q : pt => length q = d) Q0).
  { unfold Q0. apply mat_apply_dims; [exact HPgd|]. exact (P_pdim kg kg Wg eq_refl Pg d HPgl HPgd). }
  assert (Hrange : forall u, in_range (kvec (ckv c)) (kdeg (ckv c)) u = in_range (kvec kg) (kdeg kg) u).
  { intro u. rewrite Hdeg. apply in_range_first_last; [rewrite <- Hdeg; exact W | exact Wg | exact HF | exact HL]. }
  assert (HfunQ : forall u, in_range (kvec kg) (kdeg kg) u = true ->
            Forall2 Qeq (curve_spec (kvec knew) (kdeg knew) d Q0 u) (curve_spec (kvec kg) (kdeg kg) d Pg u)).
  { intros u Hu. rewrite Hdn.
    eapply veq_trans; [apply (curve_spec_knots_proper _ _ _ _ _ _ HFk)|].
    exact (mat_apply_curve kg (repeat x m) M kf Wg HM Hk Hdf d u Hu Pg HPgl HPgd). }
  assert (Hfun1 : forall u, in_range (kvec (ckv c)) (kdeg (ckv c)) u = true ->
            Forall2 Qeq (curve_spec (kvec knew) (kdeg knew) d Q0 u) (curve_spec (kvec (ckv c)) (kdeg (ckv c)) d P u)).
  { intros u Hu. rewrite Hrange in Hu. eapply veq_trans; [exact (HfunQ u Hu)|]. apply veq_sym. exact (Hfun u Hu). }
  destruct (Hcert knew Hrem) as (T & E & HS).
  destruct (remove_while_exact_step c P d x knew Q0 HW HP W HPl HPd Hrem Hd1 Hlim HQl HQd Hfun1 t T E Ht HS)
    as (c' & P' & H' & _ & Hkv & HP' & HFP & HW').
  exists c', P'. split; [exact H'|].
  unfold refines_by, cdeg, cnpts. rewrite Hkv.
  repeat match goal with |- _ /\ _ => split end; try assumption.
  - transitivity (length Q0); [exact (meq_length _ _ HFP) | exact HQl].
  - exact (F2_dims d _ _ HFP HQd).
  - rewrite F1. exact HF.
  - rewrite L1. exact HL.
  - intros u Hu. eapply veq_trans; [apply (curve_spec_proper_coef _ _ _ _ _ _ HFP)|]. exact (HfunQ u Hu).
Qed.

(* at m = 0 the state IS g, up to == (linear independence of the B-splines) *)
Lemma undo_done c P : refines_by 0 c P ->
  Forall2 Qeq (kvec (ckv c)) (kvec kg) /\ kdeg (ckv c) = kdeg kg /\ Forall2 (Forall2 Qeq) P Pg.
Proof using Wg HPgl HPgd.
  intros (HW & HP & W & Hdeg & HPl & HPd & HF & HL & Hcnt & Hfun). unfold cdeg, cnpts in *.
  assert (HFv : Forall2 Qeq (kvec (ckv c)) (kvec kg)).
  { apply sorted_counts_Forall2; [apply (wf_parts _ _ W) | apply (wf_parts _ _ Wg) |].
    intro y. rewrite (Hcnt y). destruct (Qeqb y x); lia. }
  split; [exact HFv|]. split; [exact Hdeg|].
  apply (lin_indep_points (kvec kg) (kdeg kg) d P Pg Wg); try assumption.
  - unfold pt in *. rewrite HPl. unfold knpts, npts_of. rewrite (Forall2_Qeq_length _ _ HFv), Hdeg. reflexivity.
  - intros u Hu. eapply veq_trans; [|exact (Hfun u Hu)]. rewrite Hdeg.
    apply veq_sym. apply curve_spec_knots_proper. exact HFv.
Qed.

Theorem remove_while_undoes : forall m c P, refines_by m c P -> certs m (ckv c) ->
  forall fuel, (m <= fuel)%nat ->
  exists c2 P2, remove_while fuel c x (Some t) = remove_while (fuel - m) c2 x (Some t) /\
    cW c2 = None /\ cP c2 = Some P2 /\
    Forall2 Qeq (kvec (ckv c2)) (kvec kg) /\ kdeg (ckv c2) = kdeg kg /\ Forall2 (Forall2 Qeq) P2 Pg.
Proof using All.
  induction m as [|m IH]; intros c P HR HC fuel Hf.
  - exists c, P. rewrite Nat.sub_0_r. split; [reflexivity|].
    destruct (undo_done c P HR) as (A & B & C). destruct HR as (HW & HP & _).
    repeat split; assumption.
  - destruct HC as (knw & T & E & Hrem & HS & HC).
    destruct (undo_step m c P HR) as (c' & P' & H' & HR').
    { intros k' Hk'. rewrite Hrem in Hk'. inversion Hk'; subst k'. exists T, E. exact HS. }
    pose proof (step_kv _ _ _ _ H') as Hkv. rewrite Hrem in Hkv. inversion Hkv as [Hkv'].
    destruct fuel as [|f]; [lia|].
    destruct (IH c' P' HR' ltac:(rewrite <- Hkv'; exact HC) f ltac:(lia)) as (c2 & P2 & E2 & Rest).
    exists c2, P2. split; [|exact Rest].
    cbn [remove_while]. rewrite H'. rewrite E2. reflexivity.
Qed.

(* every extra copy is gone in the final curve *)
Corollary remove_while_undoes_count m c P fuel : refines_by m c P -> certs m (ckv c) -> (m <= fuel)%nat ->
  (count_q x (kvec (ckv (remove_while fuel c x (Some t)))) <= count_q x (kvec kg))%nat.
Proof using All.
  intros HR HC Hf. destruct (remove_while_undoes m c P HR HC fuel Hf) as (c2 & P2 & E & _ & _ & HFv & _).
  rewrite E. rewrite <- (F2Q_count _ _ x HFv). apply remove_while_count_le.
Qed.
End CleanUndo.

Print Assumptions remove_while_undoes.

(* boolean form of the certificates, decidable by computation on examples *)
Fixpoint certs_b (x : Q) (m : nat) (k : kv) : bool :=
  match m with
  | O => true
  | S m' => match kremove k [x] with
            | Ok knw => is_ok (spline2spline k knw (knots_opt knw)) && certs_b x m' knw
            | Err _ => false
            end
  end.

Lemma certs_b_sound x : forall m k, certs_b x m k = true -> certs x m k.
Proof.
  induction m as [|m IH]; intros k H; cbn [certs_b certs] in *; [exact I|].
  destruct (kremove k [x]) as [knw|]; [|discriminate].
  apply andb_true_iff in H. destruct H as [A B].
  destruct (spline2spline k knw (knots_opt knw)) as [[T E]|] eqn:S; [|discriminate].
  exists knw, T, E. repeat split; [exact S | apply IH, B].
Qed.

(* K3 as stated: k copies of an interior knot x inserted into a polynomial curve q (degree kept), then the clean loop
   on x: it passes, after exactly k accepted steps, through the curve q itself (knots and control points up to ==) *)
Theorem clean_undoes_insert (q : curve) (Pq : list pt) (d : nat) (x : Q) (k : nat) (c1 : curve) (t : Q) (fuel : nat) :
  cW q = None -> cP q = Some Pq -> WF (kvec (ckv q)) (cdeg q) ->
  length Pq = cnpts q -> Forall (fun p : pt => length p = d) Pq ->
  first_q (kvec (ckv q)) < x < last_q (kvec (ckv q)) ->
  c_knot_insert q (repeat x k) = Ok c1 -> kdeg (ckv c1) = cdeg q ->
  0 <= t -> (k <= fuel)%nat ->
  certs x k (ckv c1) ->
  exists c2 P2, remove_while fuel c1 x (Some t) = remove_while (fuel - k) c2 x (Some t) /\
    cW c2 = None /\ cP c2 = Some P2 /\
    Forall2 Qeq (kvec (ckv c2)) (kvec (ckv q)) /\ kdeg (ckv c2) = cdeg q /\ Forall2 (Forall2 Qeq) P2 Pq.
Proof.
  intros HW HP W HPl HPd Hx Hins Hd Ht Hf HC. unfold cdeg, cnpts in *.
  destruct (c_knot_insert_poly q Pq (repeat x k) c1 HW HP Hins) as (kf & M & Hk & HM & E1).
  assert (Ekv : ckv c1 = kf) by (rewrite E1; reflexivity). rewrite Ekv in Hd.
  destruct (kinsert_no_ends _ _ _ W Hk Hd) as (Ev & _ & _).
  pose proof (kinsert_wf _ _ _ Hk) as Wf.
  destruct (knot_insert_curve (ckv q) (repeat x k) M kf W HM Hk Hd) as [LM _].
  pose proof (kinsert_in_range (ckv q) (repeat x k) M kf W HM Hk Hd) as Hir.
  destruct (in_range_limits _ _ _ _ Hir) as [Emin Emax].
  { apply Qlt_le_weak, wf_umin_lt_umax, Wf. }
  { apply Qlt_le_weak, wf_umin_lt_umax, W. }
  apply (remove_while_undoes (ckv q) Pq d x t W HPl HPd Hx Ht k c1 (mat_apply M Pq)); [|exact HC|exact Hf].
  unfold refines_by, cdeg, cnpts. rewrite E1. cbn [ckv cP cW].
  repeat match goal with |- _ /\ _ => split end; try reflexivity; try assumption.
  - rewrite mat_apply_length. exact LM.
  - apply mat_apply_dims; [exact HPd|]. exact (P_pdim (ckv q) (ckv q) W eq_refl Pq d HPl HPd).
  - rewrite (wf_first_umin _ _ Wf), (wf_first_umin _ _ W). exact Emin.
  - rewrite (wf_last_umax _ _ Wf), (wf_last_umax _ _ W). exact Emax.
  - intro y. rewrite Ev, UnionProofs.count_q_sortq, UnionProofs.count_q_app, UnionProofs.count_q_repeat. reflexivity.
  - intros u Hu. rewrite Hd. exact (mat_apply_curve (ckv q) (repeat x k) M kf W HM Hk Hd d u Hu Pq HPl HPd).
Qed.

(* corollary: in the final curve of the loop every inserted copy is gone *)
Corollary clean_undoes_insert_count (q : curve) (Pq : list pt) (d : nat) (x : Q) (k : nat) (c1 : curve) (t : Q) (fuel : nat) :
  cW q = None -> cP q = Some Pq -> WF (kvec (ckv q)) (cdeg q) ->
  length Pq = cnpts q -> Forall (fun p : pt => length p = d) Pq ->
  first_q (kvec (ckv q)) < x < last_q (kvec (ckv q)) ->
  c_knot_insert q (repeat x k) = Ok c1 -> kdeg (ckv c1) = cdeg q ->
  0 <= t -> (k <= fuel)%nat ->
  certs x k (ckv c1) ->
  (count_q x (kvec (ckv (remove_while fuel c1 x (Some t)))) <= count_q x (kvec (ckv q)))%nat.
Proof.
  intros HW HP W HPl HPd Hx Hins Hd Ht Hf HC.
  destruct (clean_undoes_insert q Pq d x k c1 t fuel HW HP W HPl HPd Hx Hins Hd Ht Hf HC)
    as (c2 & P2 & E & _ & _ & HFv & _).
  rewrite E. rewrite <- (F2Q_count _ _ x HFv). apply remove_while_count_le.
Qed.

Print Assumptions clean_undoes_insert.
Print Assumptions clean_undoes_insert_count.

(* the same through c_knot_clean (its fuel, the length of the vector, is always enough) *)
Theorem knot_clean_undoes_insert (q : curve) (Pq : list pt) (d : nat) (x : Q) (k : nat) (c1 : curve) (t : Q) (r : curve) :
  cW q = None -> cP q = Some Pq -> WF (kvec (ckv q)) (cdeg q) ->
  length Pq = cnpts q -> Forall (fun p : pt => length p = d) Pq ->
  first_q (kvec (ckv q)) < x < last_q (kvec (ckv q)) ->
  c_knot_insert q (repeat x k) = Ok c1 -> kdeg (ckv c1) = cdeg q ->
  certs x k (ckv c1) ->
  c_knot_clean c1 (Some [x]) t = Ok r ->
  (exists c2 P2, r = remove_while (length (kvec (ckv c1)) - k) c2 x (Some t) /\
     cW c2 = None /\ cP c2 = Some P2 /\
     Forall2 Qeq (kvec (ckv c2)) (kvec (ckv q)) /\ kdeg (ckv c2) = cdeg q /\ Forall2 (Forall2 Qeq) P2 Pq) /\
  (count_q x (kvec (ckv r)) <= count_q x (kvec (ckv q)))%nat /\
  (forall y, ~ y == x -> count_q y (kvec (ckv r)) = count_q y (kvec (ckv q))) /\
  exists e, c_knot_remove r [x] (Some t) = Err e.
Proof.
  intros HW HP W HPl HPd Hx Hins Hd HC Hclean.
  assert (Ht : 0 <= t).
  { unfold c_knot_clean in Hclean. destruct (Qltb_spec t 0) as [L|G]; [discriminate|]. apply Qnot_lt_le. exact G. }
  unfold cdeg, cnpts in *.
  destruct (c_knot_insert_poly q Pq (repeat x k) c1 HW HP Hins) as (kf & M & Hk & HM & E1).
  assert (Ekv : ckv c1 = kf) by (rewrite E1; reflexivity).
  pose proof Hd as Hd'. rewrite Ekv in Hd'.
  destruct (kinsert_no_ends _ _ _ W Hk Hd') as (Ev & _ & _).
  pose proof (kinsert_wf _ _ _ Hk) as Wf.
  pose proof (kinsert_in_range (ckv q) (repeat x k) M kf W HM Hk Hd') as Hir.
  destruct (in_range_limits _ _ _ _ Hir) as [Emin Emax].
  { apply Qlt_le_weak, wf_umin_lt_umax, Wf. }
  { apply Qlt_le_weak, wf_umin_lt_umax, W. }
  assert (Hlen : (k <= length (kvec (ckv c1)))%nat).
  { rewrite Ekv, Ev, sortq_length, app_length, repeat_length. lia. }
  assert (Cnt : forall y, count_q y (kvec (ckv c1)) = (count_q y (kvec (ckv q)) + (if Qeqb y x then k else 0))%nat).
  { intro y. rewrite Ekv, Ev, UnionProofs.count_q_sortq, UnionProofs.count_q_app, UnionProofs.count_q_repeat. reflexivity. }
  destruct (knot_clean_single_refused c1 x t r Hclean) as [[_ [A|A]]|[Er Href]].
  - exfalso. rewrite kumin_umin, Ekv, Emin, <- (wf_first_umin _ _ W) in A. lra.
  - exfalso. rewrite kumax_umax, Ekv, Emax, <- (wf_last_umax _ _ W) in A. lra.
  - split; [|split; [|split]].
    + destruct (clean_undoes_insert q Pq d x k c1 t _ HW HP W HPl HPd Hx Hins Hd Ht Hlen HC) as (c2 & P2 & E & Rest).
      exists c2, P2. split; [rewrite Er; exact E | exact Rest].
    + rewrite Er. exact (clean_undoes_insert_count q Pq d x k c1 t _ HW HP W HPl HPd Hx Hins Hd Ht Hlen HC).
    + intros y Hy. rewrite Er, (remove_while_count_other _ _ _ _ y Hy), (Cnt y).
      destruct (Qeqb_spec y x); [contradiction|lia].
    + exact Href.
Qed.

Print Assumptions knot_clean_undoes_insert.

(* ------------------------------------------------------------------ *)
(* Examples                                                             *)
(* ------------------------------------------------------------------ *)
(* a quadratic Bezier curve in the plane, the knot 1/2 inserted twice *)
Definition cx_q : curve := mkcurve (mkkv [0; 0; 0; 1; 1; 1] 2) (Some [[0; 0]; [1; 2]; [3; 1]]) None.
Definition cx_c1 : curve := match c_knot_insert cx_q [1#2; 1#2] with Ok c => c | Err _ => cx_q end.

Example cx_insert : c_knot_insert cx_q (repeat (1#2) 2) = Ok cx_c1 /\ kdeg (ckv cx_c1) = cdeg cx_q /\
  ql_eqb (kvec (ckv cx_c1)) [0; 0; 0; 1#2; 1#2; 1; 1; 1] = true.
Proof. vm_compute. repeat split; reflexivity. Qed.

(* the certificates of the two solves on the way down hold *)
Example cx_certs : certs_b (1#2) 2 (ckv cx_c1) = true.
Proof. vm_compute. reflexivity. Qed.

(* the model: knot_clean gives back the Bezier vector and the control points *)
Example cx_clean_compute :
  match c_knot_clean cx_c1 (Some [1#2]) tol_kclean with
  | Ok r => ql_eqb (kvec (ckv r)) [0; 0; 0; 1; 1; 1] && opt_eqb ptl_eqb (cP r) (cP cx_q)
  | Err _ => false
  end = true.
Proof. vm_compute. reflexivity. Qed.

(* the theorem on the example (hypotheses are satisfiable) *)
Example cx_clean_thm r : c_knot_clean cx_c1 (Some [1#2]) tol_kclean = Ok r ->
  (count_q (1#2) (kvec (ckv r)) <= 0)%nat /\ exists e, c_knot_remove r [1#2] (Some tol_kclean) = Err e.
Proof.
  intro H. destruct cx_insert as (Hins & Hd & _).
  destruct (knot_clean_undoes_insert cx_q [[0; 0]; [1; 2]; [3; 1]] 2 (1#2) 2 cx_c1 tol_kclean r) as (_ & C & _ & R);
    try reflexivity; try assumption.
  - repeat constructor.
  - split; reflexivity.
  - apply certs_b_sound, cx_certs.
  - split; [exact C | exact R].
Qed.

(* two linear pieces joined: [0,1] with points 0,1 and [1,3] with points 1,4 (a corner at u = 1, so the junction knot stays) *)
Definition jx_a : curve := mkcurve (mkkv [0; 0; 1; 1] 1) (Some [[0]; [1]]) None.
Definition jx_b : curve := mkcurve (mkkv [1; 1; 3; 3] 1) (Some [[1]; [4]]) None.
(* ... and with points 1,3: the two pieces are the same line u -> u, the junction knot is cleaned away *)
Definition jx_b' : curve := mkcurve (mkkv [1; 1; 3; 3] 1) (Some [[1]; [3]]) None.

Example jx_join_vec : join_vec (kvec (ckv jx_a)) (kvec (ckv jx_b)) 1 = [0; 0; 1; 1; 3; 3].
Proof. reflexivity. Qed.

Example jx_join_compute :
  match c_join jx_a jx_b with
  | Ok r => ql_eqb (kvec (ckv r)) [0; 0; 1; 3; 3] && opt_eqb ptl_eqb (cP r) (Some [[0]; [1]; [4]])
  | Err _ => false
  end = true.
Proof. vm_compute. reflexivity. Qed.

Example jx_join_compute' :
  match c_join jx_a jx_b' with
  | Ok r => ql_eqb (kvec (ckv r)) [0; 0; 3; 3] && opt_eqb ptl_eqb (cP r) (Some [[0]; [3]])
  | Err _ => false
  end = true.
Proof. vm_compute. reflexivity. Qed.

(* K4 on the example: the hypotheses hold and the joined curve restricts to the operands *)
Example jx_join_pieces u :
  (in_range [0; 0; 1; 1] 1 u = true -> u < 1 ->
     curve_spec1 [0; 0; 1; 1; 3; 3] 1 ([0; 1] ++ [1; 4]) u == curve_spec1 [0; 0; 1; 1] 1 [0; 1] u) /\
  (in_range [1; 1; 3; 3] 1 u = true ->
     curve_spec1 [0; 0; 1; 1; 3; 3] 1 ([0; 1] ++ [1; 4]) u == curve_spec1 [1; 1; 3; 3] 1 [1; 4] u).
Proof.
  assert (Wa : WF [0; 0; 1; 1] 1) by (vm_compute; reflexivity).
  assert (Wb : WF [1; 1; 3; 3] 1) by (vm_compute; reflexivity).
  assert (Hj : last_q [0; 0; 1; 1] == first_q [1; 1; 3; 3]) by reflexivity.
  split.
  - intros Hr Hlt. exact (join_left _ _ 1 Wa Wb Hj [0; 1] [1; 4] eq_refl eq_refl u Hr Hlt).
  - intros Hr. exact (join_right _ _ 1 Wa Wb Hj [0; 1] [1; 4] eq_refl eq_refl u Hr).
Qed.

Example jx_join_thm : exists e,
  c_join jx_a jx_b = Ok (remove_while 6 (joined jx_a jx_b [[0]; [1]] [[1]; [4]]) 1 (Some tol_kclean)) /\
  c_knot_remove (remove_while 6 (joined jx_a jx_b [[0]; [1]] [[1]; [4]]) 1 (Some tol_kclean)) [1] (Some tol_kclean) = Err e.
Proof.
  destruct (c_join_same_degree jx_a jx_b [[0]; [1]] [[1]; [4]]) as (_ & E & e & R); try reflexivity.
  exists e. split; [exact E | exact R].
Qed.
