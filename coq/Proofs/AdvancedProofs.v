(* PROOFS about Model/Advanced.v: nearest point on a polyline, intersection of planar polylines.
   P1  quad_clamp_min (algebraic core), lerp_dist2 / seg_point_dist2 (the squared distance along a piece is a
       quadratic in the local parameter), seg_project_min (range + minimality, degenerate piece included),
       seg_point_degenerate / seg_project_degenerate.
   P2  project_polyline_spec (non-empty, sorted, in range, each element is the projection on a piece at the global
       minimum pmin; pmin is a lower bound over all pieces and parameters).
   P3  project_polyline_on_curve.
   I1  seg_intersect_sound.   I2  seg_intersect_complete.
   I3  intersect_polylines_sound / _nodup / _keeps / _empty / _complete.
   [sincr] = strictly increasing; [veq] = Forall2 Qeq (Proofs/MatProofs.v). *)
From Coq Require Import QArith Qabs List Bool Arith Lia Lqa Setoid Morphisms.
From Coq Require Import Sorting.Permutation.
From NurbsV Require Import Base.Res Base.QList Spec.KnotSpec Model.KV Model.Advanced.
From NurbsV Require Import Proofs.KVProofs Proofs.MatProofs.
Import ListNotations.
Open Scope Q_scope.

(* ================================================================== *)
(* P1a. algebraic core                                                 *)
(* ================================================================== *)
Lemma sq_nonneg (x : Q) : 0 <= x * x.
Proof. nra. Qed.

Definition quad (G B D t : Q) : Q := G - 2 * t * B + t * t * D.

Lemma qclamp_range lo hi x : lo <= hi -> lo <= qclamp lo hi x <= hi.
Proof.
  intro H. unfold qclamp. destruct (Qltb_spec x lo); [lra|].
  destruct (Qltb_spec hi x); lra.
Qed.

Global Instance qclamp_proper : Proper (Qeq ==> Qeq ==> Qeq ==> Qeq) qclamp.
Proof.
  intros a a' Ha b b' Hb x x' Hx. unfold qclamp.
  destruct (Qltb_spec x a), (Qltb_spec x' a'); try (exfalso; lra); [assumption|].
  destruct (Qltb_spec b x), (Qltb_spec b' x'); try (exfalso; lra); assumption.
Qed.

Theorem quad_clamp_min G B D : 0 < D ->
  forall t, 0 <= t <= 1 -> quad G B D (qclamp 0 1 (B / D)) <= quad G B D t.
Proof.
  intros HD t Ht. unfold quad, qclamp.
  assert (E : B == (B / D) * D) by (field; lra).
  set (r := B / D) in *. clearbody r.
  destruct (Qltb_spec r 0).
  - assert (0 <= (0 - r) * D) by (apply Qmult_le_0_compat; lra).
    assert (0 <= t * ((0 - r) * D)) by (apply Qmult_le_0_compat; lra).
    assert (0 <= t * t * D) by (apply Qmult_le_0_compat; [apply Qmult_le_0_compat|]; lra).
    rewrite E. lra.
  - destruct (Qltb_spec 1 r).
    + assert (0 <= (r - 1) * D) by (apply Qmult_le_0_compat; lra).
      assert (0 <= (1 - t) * ((r - 1) * D)) by (apply Qmult_le_0_compat; lra).
      assert (0 <= (1 - t) * (1 - t) * D) by (apply Qmult_le_0_compat; [apply Qmult_le_0_compat|]; lra).
      rewrite E. lra.
    + assert (0 <= (t - r) * (t - r) * D) by (apply Qmult_le_0_compat; [apply sq_nonneg|lra]).
      rewrite E. lra.
Qed.

(* the affine change of parameter commutes with the clamp *)
Lemma qclamp_affine a b r : a < b ->
  (qclamp a b (a + (b - a) * r) - a) / (b - a) == qclamp 0 1 r.
Proof.
  intro H. unfold qclamp.
  destruct (Qltb_spec (a + (b - a) * r) a); destruct (Qltb_spec r 0); try (exfalso; nra).
  - field; lra.
  - destruct (Qltb_spec b (a + (b - a) * r)); destruct (Qltb_spec 1 r); try (exfalso; nra);
      field; lra.
Qed.

(* ================================================================== *)
(* P1b. list level: the squared distance along a piece is a quadratic   *)
(* ================================================================== *)
Definition lerp (t : Q) (p q : pt) : pt := map2 (fun x y => Qred (x + t * (y - x))) p q.

Lemma seg_point_lerp a b p q u : seg_point (a, b, p, q) u = lerp ((u - a) / (b - a)) p q.
Proof. reflexivity. Qed.

Lemma lerp_length t p q : length p = length q -> length (lerp t p q) = length p.
Proof. intro H. unfold lerp. rewrite map2_length. lia. Qed.

Lemma vsubq_length a b : length a = length b -> length (vsubq a b) = length a.
Proof. intro H. unfold vsubq. rewrite map2_length. lia. Qed.

Lemma vsubq_veq a b : veq (vsubq a b) (vsub a b).
Proof.
  revert b; induction a as [|x a IH]; intros [|y b]; cbn; constructor.
  - apply Qred_correct.
  - apply IH.
Qed.

Global Instance lerp_proper : Proper (Qeq ==> veq ==> veq ==> veq) lerp.
Proof.
  intros t t' Ht p p' Hp. revert t t' Ht. induction Hp; intros t t' Ht q q' Hq.
  - constructor.
  - destruct Hq; cbn; constructor.
    + rewrite !Qred_correct, H, H0, Ht. reflexivity.
    + apply IHHp; assumption.
Qed.

Global Instance vsubq_proper : Proper (veq ==> veq ==> veq) vsubq.
Proof.
  intros p p' Hp. induction Hp; intros q q' Hq.
  - constructor.
  - destruct Hq; cbn; constructor.
    + rewrite !Qred_correct, H, H0. reflexivity.
    + apply IHHp; assumption.
Qed.

Global Instance dist2_proper : Proper (veq ==> veq ==> Qeq) dist2.
Proof.
  intros a a' Ha b b' Hb. unfold dist2, vdotq. 
  apply dot_proper; apply vsubq_proper; assumption.
Qed.

Lemma dist2_nonneg a b : 0 <= dist2 a b.
Proof. unfold dist2, vdotq. apply norm2_nonneg. Qed.

Theorem lerp_dist2 t : forall p q x, length p = length q -> length x = length p ->
  dist2 (lerp t p q) x == quad (dist2 x p) (vdotq (vsubq x p) (vsubq q p)) (dist2 q p) t.
Proof.
  unfold dist2, vdotq, vsubq, lerp, quad.
  induction p as [|p0 p IH]; intros [|q0 q] [|x0 x]; cbn [length]; intros H1 H2; try discriminate.
  - cbn. ring.
  - cbn [map2]. rewrite !dot_cons. rewrite IH by congruence. rewrite !Qred_correct. ring.
Qed.

Corollary seg_point_dist2 a b p q x u : length p = length q -> length x = length p ->
  dist2 (seg_point (a, b, p, q) u) x ==
  quad (dist2 x p) (vdotq (vsubq x p) (vsubq q p)) (dist2 q p) ((u - a) / (b - a)).
Proof. intros. rewrite seg_point_lerp. apply lerp_dist2; assumption. Qed.

(* degenerate direction *)
Lemma dot_self_zero d : dot d d == 0 -> Forall (fun x => x == 0) d.
Proof.
  induction d as [|x d IH]; intro H; constructor.
  - rewrite dot_cons in H. pose proof (norm2_nonneg d) as N. unfold norm2 in N.
    pose proof (sq_nonneg x). nra.
  - apply IH. rewrite dot_cons in H. pose proof (norm2_nonneg d) as N. unfold norm2 in N.
    pose proof (sq_nonneg x). lra.
Qed.

Lemma dot_zero_r y d : Forall (fun x => x == 0) d -> dot y d == 0.
Proof.
  intro H. revert y. induction H; intros [|y0 y]; try reflexivity.
  - rewrite dot_cons, IHForall, H. ring.
Qed.

Global Instance quad_proper : Proper (Qeq ==> Qeq ==> Qeq ==> Qeq ==> Qeq) quad.
Proof. intros G G' HG B B' HB D D' HD t t' Ht. unfold quad. rewrite HG, HB, HD, Ht. reflexivity. Qed.

Lemma param_range a b u : a < b -> a <= u <= b -> 0 <= (u - a) / (b - a) <= 1.
Proof.
  intros H Hu. split.
  - apply Qle_shift_div_l; lra.
  - apply Qle_shift_div_r; lra.
Qed.

Lemma seg_project_eq a b p q x :
  seg_project (a, b, p, q) x =
  if Qeqb (dist2 q p) 0 then a
  else qclamp a b (Qred (a + (b - a) * (vdotq (vsubq x p) (vsubq q p) / dist2 q p))).
Proof. reflexivity. Qed.

(* ================================================================== *)
(* P1. the nearest point of one piece                                  *)
(* ================================================================== *)
Theorem seg_project_min a b p q x :
  a < b -> length p = length q -> length x = length p ->
  a <= seg_project (a, b, p, q) x <= b /\
  forall u, a <= u <= b ->
    dist2 (seg_point (a, b, p, q) (seg_project (a, b, p, q) x)) x <= dist2 (seg_point (a, b, p, q) u) x.
Proof.
  intros Hab Hpq Hxp.
  rewrite seg_project_eq.
  destruct (Qeqb_spec (dist2 q p) 0) as [Z|NZ].
  - split; [lra|]. intros u Hu. rewrite !seg_point_dist2 by assumption.
    assert (B0 : vdotq (vsubq x p) (vsubq q p) == 0).
    { apply dot_zero_r, dot_self_zero. exact Z. }
    rewrite B0, Z. unfold quad. lra.
  - assert (HD : 0 < dist2 q p).
    { pose proof (dist2_nonneg q p). destruct (Qlt_le_dec 0 (dist2 q p)); [assumption|]. exfalso. apply NZ. lra. }
    split; [apply qclamp_range; lra|]. intros u Hu.
    rewrite !seg_point_dist2 by assumption.
    rewrite Qred_correct, (qclamp_affine a b _ Hab).
    apply quad_clamp_min; [exact HD|]. apply param_range; assumption.
Qed.

(* ================================================================== *)
(* I1. intersection of two planar pieces is sound                      *)
(* ================================================================== *)
Lemma len2 (p : pt) : length p = 2%nat -> exists p0 p1, p = [p0; p1].
Proof. destruct p as [|p0 [|p1 [|]]]; cbn; intro H; try discriminate. eauto. Qed.

Lemma affine_range a b l : a < b -> 0 <= l <= 1 -> a <= a + (b - a) * l <= b.
Proof.
  intros H Hl.
  assert (0 <= (b - a) * l) by (apply Qmult_le_0_compat; lra).
  assert (0 <= (b - a) * (1 - l)) by (apply Qmult_le_0_compat; lra).
  lra.
Qed.

Lemma affine_param a b l : a < b -> (a + (b - a) * l - a) / (b - a) == l.
Proof. intro H. field. lra. Qed.

Lemma seg_point_proper_u s u u' : u == u' -> veq (seg_point s u) (seg_point s u').
Proof.
  destruct s as [[[a b] p] q]. intro H. rewrite !seg_point_lerp.
  apply lerp_proper; [rewrite H|..]; reflexivity.
Qed.

Theorem seg_intersect_sound a b p q c d v w t u :
  a < b -> c < d ->
  length p = 2%nat -> length q = 2%nat -> length v = 2%nat -> length w = 2%nat ->
  seg_intersect (a, b, p, q) (c, d, v, w) = Some (t, u) ->
  a <= t <= b /\ c <= u <= d /\ veq (seg_point (a, b, p, q) t) (seg_point (c, d, v, w) u).
Proof.
  intros Hab Hcd Lp Lq Lv Lw.
  destruct (len2 p Lp) as (p0 & p1 & ->). destruct (len2 q Lq) as (q0 & q1 & ->).
  destruct (len2 v Lv) as (v0 & v1 & ->). destruct (len2 w Lw) as (w0 & w1 & ->).
  unfold seg_intersect. cbn [vsubq map2 nth].
  set (det := Qred (q0 - p0) * Qred (w1 - v1) - Qred (q1 - p1) * Qred (w0 - v0)).
  set (lam := _ / det). set (mu := _ / det).
  destruct (Qeqb_spec det 0) as [Z|NZ]; [discriminate|].
  destruct (Qleb_spec 0 lam); [|discriminate].
  destruct (Qleb_spec lam 1); [|discriminate].
  destruct (Qleb_spec 0 mu); [|discriminate].
  destruct (Qleb_spec mu 1); [|discriminate].
  cbn [andb]. intro H. injection H as Ht Hu.
  assert (Et : t == a + (b - a) * lam) by (rewrite <- Ht; apply Qred_correct).
  assert (Eu : u == c + (d - c) * mu) by (rewrite <- Hu; apply Qred_correct).
  clear Ht Hu. rewrite Et, Eu at 1 2.
  split; [apply affine_range; lra|]. split; [apply affine_range; lra|].
  rewrite (seg_point_proper_u _ _ _ Et), (seg_point_proper_u _ _ _ Eu).
  cbn [seg_point map2].
  assert (NZ' : ~ (q0 - p0) * (w1 - v1) - (q1 - p1) * (w0 - v0) == 0).
  { intro X. apply NZ. unfold det. rewrite !Qred_correct. exact X. }
  constructor; [|constructor; [|constructor]];
    rewrite !Qred_correct, !affine_param by assumption;
    unfold lam, mu, det; rewrite !Qred_correct; field; exact NZ'.
Qed.

(* ================================================================== *)
(* P2. the whole polyline                                              *)
(* ================================================================== *)
Fixpoint sincr (l : list Q) : Prop :=
  match l with
  | a :: ((b :: _) as t) => a < b /\ sincr t
  | _ => True
  end.

Lemma sincr_first_le_last b t : sincr (b :: t) -> b <= last (b :: t) 0.
Proof.
  revert b; induction t as [|c t IH]; intros b H; [cbn; lra|].
  rewrite last_cons2. destruct H as [H1 H2]. specialize (IH c H2). lra.
Qed.

Lemma segments_cons2 a b kt p q pt' :
  segments (a :: b :: kt) (p :: q :: pt') = (a, b, p, q) :: segments (b :: kt) (q :: pt').
Proof. reflexivity. Qed.

Lemma segments_in d : forall ks P, sincr ks -> Forall (fun p : pt => length p = d) P ->
  forall a b p q, In (a, b, p, q) (segments ks P) ->
  a < b /\ first_q ks <= a /\ b <= last_q ks /\ length p = d /\ length q = d.
Proof.
  induction ks as [|a0 kt IH]; intros P HS HP a b p q HI; [destruct HI|].
  destruct kt as [|b0 kt']; [destruct P as [|? [|? ?]]; destruct HI|].
  destruct P as [|p0 [|q0 P']]; try (destruct HI; fail).
  rewrite segments_cons2 in HI. destruct HS as [H1 H2].
  inversion HP as [|? ? Lp HP']; subst. destruct HI as [E|HI].
  - injection E as <- <- <- <-. inversion HP' as [|? ? Lq ?]; subst.
    unfold first_q, last_q. rewrite last_cons2. cbn [nth].
    pose proof (sincr_first_le_last _ _ H2). repeat split; try lra; assumption.
  - destruct (IH (q0 :: P') H2 HP' a b p q HI) as (A & B & C & D & E).
    unfold first_q, last_q in *. rewrite last_cons2. cbn [nth] in *. repeat split; try lra; assumption.
Qed.

Lemma segments_nonempty ks P : (2 <= length ks)%nat -> (2 <= length P)%nat -> segments ks P <> [].
Proof.
  destruct ks as [|a [|b kt]]; cbn [length]; try lia.
  destruct P as [|p [|q P']]; cbn [length]; try lia. intros _ _. rewrite segments_cons2. discriminate.
Qed.

(* minimum of a list *)
Definition qminf (m y : Q) : Q := if Qltb y m then y else m.

Lemma qmin_fold_le : forall t x y, In y (x :: t) -> fold_left qminf t x <= y.
Proof.
  induction t as [|z t IH]; intros x y H.
  - destruct H as [->|[]]. cbn. lra.
  - cbn [fold_left].
    assert (A : fold_left qminf t (qminf x z) <= qminf x z) by (apply IH; left; reflexivity).
    assert (B : qminf x z <= x /\ qminf x z <= z).
    { unfold qminf. destruct (Qltb_spec z x); lra. }
    destruct H as [->|[->|H]]; [lra|lra|]. apply IH. right. exact H.
Qed.

Lemma qmin_fold_in : forall t x, In (fold_left qminf t x) (x :: t).
Proof.
  induction t as [|z t IH]; intros x; [left; reflexivity|].
  cbn [fold_left]. destruct (IH (qminf x z)) as [E|H].
  - rewrite <- E. unfold qminf. destruct (Qltb z x); [right; left|left]; reflexivity.
  - right; right; exact H.
Qed.

Lemma qmin_list_le l y : In y l -> qmin_list l <= y.
Proof. destruct l as [|x t]; [intros []|]. apply qmin_fold_le. Qed.

Lemma qmin_list_in l : l <> [] -> In (qmin_list l) l.
Proof. destruct l as [|x t]; [congruence|]. intros _. apply qmin_fold_in. Qed.

(* dedupq *)
Lemma dedupq_cons2 a b t : dedupq (a :: b :: t) = if Qeqb a b then dedupq (b :: t) else a :: dedupq (b :: t).
Proof. reflexivity. Qed.

Lemma dedupq_in x : forall l, In x (dedupq l) -> In x l.
Proof.
  induction l as [|a l IH]; [auto|]. destruct l as [|b t]; [auto|].
  rewrite dedupq_cons2. destruct (Qeqb a b); intro H.
  - right. apply IH, H.
  - destruct H as [H|H]; [left; exact H|right; apply IH, H].
Qed.

Lemma dedupq_head : forall l a, exists a' r, dedupq (a :: l) = a' :: r /\ a' == a.
Proof.
  induction l as [|b t IH]; intro a; [exists a, []; split; reflexivity|].
  rewrite dedupq_cons2. destruct (Qeqb_spec a b) as [E|E].
  - destruct (IH b) as (a' & r & H1 & H2). exists a', r. split; [exact H1|]. rewrite H2, E. reflexivity.
  - exists a, (dedupq (b :: t)). split; reflexivity.
Qed.

Lemma dedupq_nonempty l : l <> [] -> dedupq l <> [].
Proof.
  destruct l as [|a l]; [congruence|]. intros _.
  destruct (dedupq_head l a) as (a' & r & H & _). rewrite H. discriminate.
Qed.

Lemma dedupq_sorted : forall l, sorted_b l = true -> sorted_b (dedupq l) = true.
Proof.
  induction l as [|a l IH]; [auto|]. destruct l as [|b t]; [auto|].
  rewrite sorted_b_cons2, dedupq_cons2. intro H. apply andb_true_iff in H. destruct H as [H1 H2].
  destruct (Qeqb a b); [apply IH, H2|].
  specialize (IH H2). destruct (dedupq_head t b) as (b' & r & E & Eb). rewrite E in *.
  rewrite sorted_b_cons2, IH, andb_true_r. rewrite Eb. exact H1.
Qed.

Lemma sortq_in x l : In x (sortq l) <-> In x l.
Proof.
  split; apply Permutation_in; [apply sortq_perm | apply Permutation_sym, sortq_perm].
Qed.

Definition cand (x : pt) (s : Q * Q * pt * pt) : Q * Q :=
  (seg_project s x, dist2 (seg_point s (seg_project s x)) x).
Definition pmin (ks : list Q) (P : list pt) (x : pt) : Q :=
  qmin_list (map snd (project_candidates ks P x)).

Lemma project_candidates_eq ks P x : project_candidates ks P x = map (cand x) (segments ks P).
Proof. reflexivity. Qed.

Lemma project_polyline_eq ks P x :
  project_polyline ks P x =
  dedupq (sortq (map fst (filter (fun c => Qeqb (snd c) (pmin ks P x)) (map (cand x) (segments ks P))))).
Proof. reflexivity. Qed.

Lemma pmin_le ks P x s : In s (segments ks P) -> pmin ks P x <= dist2 (seg_point s (seg_project s x)) x.
Proof.
  intro H. unfold pmin. apply qmin_list_le. rewrite project_candidates_eq, map_map.
  apply in_map_iff. exists s. split; [reflexivity|exact H].
Qed.

Lemma pmin_attained ks P x : segments ks P <> [] ->
  exists s, In s (segments ks P) /\ dist2 (seg_point s (seg_project s x)) x = pmin ks P x.
Proof.
  intro H. unfold pmin. rewrite project_candidates_eq, map_map.
  assert (N : map (fun s => snd (cand x s)) (segments ks P) <> []).
  { destruct (segments ks P); [congruence|discriminate]. }
  apply qmin_list_in in N. apply in_map_iff in N. destruct N as (s & E & HI).
  exists s. split; [exact HI|exact E].
Qed.

(* membership in the result *)
Lemma project_polyline_in ks P x t : In t (project_polyline ks P x) ->
  exists s, In s (segments ks P) /\ t = seg_project s x /\ dist2 (seg_point s t) x == pmin ks P x.
Proof.
  rewrite project_polyline_eq. intro H. apply dedupq_in in H. apply (proj1 (sortq_in _ _)) in H.
  apply in_map_iff in H. destruct H as (c & <- & H). apply filter_In in H. destruct H as [H1 H2].
  apply in_map_iff in H1. destruct H1 as (s & <- & HI).
  exists s. split; [exact HI|]. split; [reflexivity|]. apply Qeqb_eq in H2. exact H2.
Qed.

Lemma project_polyline_nonempty ks P x : segments ks P <> [] -> project_polyline ks P x <> [].
Proof.
  intro H. destruct (pmin_attained ks P x H) as (s & HI & E).
  rewrite project_polyline_eq. apply dedupq_nonempty.
  intro C. assert (K : In (seg_project s x) (sortq (map fst (filter (fun c => Qeqb (snd c) (pmin ks P x)) (map (cand x) (segments ks P)))))).
  { apply sortq_in. apply in_map_iff. exists (cand x s). split; [reflexivity|].
    apply filter_In. split; [apply in_map, HI|]. apply Qeqb_eq. cbn [cand snd]. rewrite E. reflexivity. }
  rewrite C in K. destruct K.
Qed.

Lemma project_polyline_sorted ks P x : sorted_b (project_polyline ks P x) = true.
Proof. rewrite project_polyline_eq. apply dedupq_sorted, sortq_sorted. Qed.

Theorem project_polyline_spec d ks P x :
  sincr ks -> length ks = length P -> (2 <= length P)%nat ->
  Forall (fun p : pt => length p = d) P -> length x = d ->
  project_polyline ks P x <> [] /\
  sorted_b (project_polyline ks P x) = true /\
  (forall t, In t (project_polyline ks P x) ->
     first_q ks <= t <= last_q ks /\
     exists a b p q, In (a, b, p, q) (segments ks P) /\ a <= t <= b /\
       t = seg_project (a, b, p, q) x /\
       dist2 (seg_point (a, b, p, q) t) x == pmin ks P x) /\
  (forall a b p q, In (a, b, p, q) (segments ks P) -> forall u, a <= u <= b ->
     pmin ks P x <= dist2 (seg_point (a, b, p, q) u) x).
Proof.
  intros HS HL H2 HP Hx.
  split; [apply project_polyline_nonempty, segments_nonempty; lia|].
  split; [apply project_polyline_sorted|]. split.
  - intros t Ht. destruct (project_polyline_in ks P x t Ht) as ([[[a b] p] q] & HI & E & HD).
    destruct (segments_in d ks P HS HP a b p q HI) as (A & B & C & Lp & Lq).
    destruct (seg_project_min a b p q x A) as [R _]; [congruence|congruence|].
    unfold pt in *. rewrite <- E in R. split; [lra|]. exists a, b, p, q. repeat split; try assumption; lra.
  - intros a b p q HI u Hu.
    destruct (segments_in d ks P HS HP a b p q HI) as (A & B & C & Lp & Lq).
    destruct (seg_project_min a b p q x A) as [_ M]; [congruence|congruence|].
    eapply Qle_trans; [apply (pmin_le ks P x _ HI)|]. apply M, Hu.
Qed.

(* ================================================================== *)
(* I2. intersection is complete for transversal pieces                 *)
(* ================================================================== *)
Theorem seg_intersect_complete a b p q c d v w t u :
  a < b -> c < d ->
  length p = 2%nat -> length q = 2%nat -> length v = 2%nat -> length w = 2%nat ->
  ~ (nth 0 q 0 - nth 0 p 0) * (nth 1 w 0 - nth 1 v 0)
    - (nth 1 q 0 - nth 1 p 0) * (nth 0 w 0 - nth 0 v 0) == 0 ->
  a <= t <= b -> c <= u <= d ->
  veq (seg_point (a, b, p, q) t) (seg_point (c, d, v, w) u) ->
  exists t' u', seg_intersect (a, b, p, q) (c, d, v, w) = Some (t', u') /\ t' == t /\ u' == u.
Proof.
  intros Hab Hcd Lp Lq Lv Lw.
  destruct (len2 p Lp) as (p0 & p1 & ->). destruct (len2 q Lq) as (q0 & q1 & ->).
  destruct (len2 v Lv) as (v0 & v1 & ->). destruct (len2 w Lw) as (w0 & w1 & ->).
  cbn [nth]. intros NZ Ht Hu HV.
  cbn [seg_point map2] in HV.
  inversion HV as [|? ? ? ? E0 HV']; subst. inversion HV' as [|? ? ? ? E1 _]; subst. clear HV HV'.
  rewrite !Qred_correct in E0, E1.
  pose proof (param_range a b t Hab Ht) as Rl. pose proof (param_range c d u Hcd Hu) as Rm.
  assert (Tl : t == a + (b - a) * ((t - a) / (b - a))) by (field; lra).
  assert (Tm : u == c + (d - c) * ((u - c) / (d - c))) by (field; lra).
  set (l := (t - a) / (b - a)) in *. set (m := (u - c) / (d - c)) in *. clearbody l m.
  unfold seg_intersect. cbn [vsubq map2 nth].
  set (det := Qred (q0 - p0) * Qred (w1 - v1) - Qred (q1 - p1) * Qred (w0 - v0)).
  set (lam := _ / det). set (mu := _ / det).
  assert (NZ' : ~ det == 0).
  { intro X. apply NZ. unfold det in X. rewrite !Qred_correct in X. exact X. }
  assert (G0 : v0 - p0 == l * (q0 - p0) - m * (w0 - v0)) by lra.
  assert (G1 : v1 - p1 == l * (q1 - p1) - m * (w1 - v1)) by lra.
  assert (El : lam == l).
  { unfold lam, det. rewrite !Qred_correct. rewrite G0, G1. field. exact NZ. }
  assert (Em : mu == m).
  { unfold mu, det. rewrite !Qred_correct. rewrite G0, G1. field. exact NZ. }
  clearbody lam mu det.
  destruct (Qeqb_spec det 0) as [Z|_]; [contradiction|].
  destruct (Qleb_spec 0 lam); [|exfalso; lra]. destruct (Qleb_spec lam 1); [|exfalso; lra].
  destruct (Qleb_spec 0 mu); [|exfalso; lra]. destruct (Qleb_spec mu 1); [|exfalso; lra].
  cbn [andb]. eexists; eexists. split; [reflexivity|].
  rewrite !Qred_correct, El, Em. split; symmetry; assumption.
Qed.

(* ================================================================== *)
(* P3. a point of the curve projects onto itself                       *)
(* ================================================================== *)
Lemma dist2_self b : dist2 b b == 0.
Proof.
  unfold dist2, vdotq, vsubq. induction b as [|x b IH]; [reflexivity|].
  cbn [map2]. rewrite dot_cons, IH, Qred_correct. ring.
Qed.

Lemma dist2_veq_zero a b : veq a b -> dist2 a b == 0.
Proof. intro H. rewrite H. apply dist2_self. Qed.

Lemma vsubq_zero_veq : forall a b, length a = length b ->
  Forall (fun x => x == 0) (vsubq a b) -> veq a b.
Proof.
  induction a as [|x a IH]; intros [|y b]; cbn [length]; intros HL H; try discriminate; constructor.
  - cbn in H. inversion H as [|? ? H0 _]; subst. rewrite Qred_correct in H0. lra.
  - apply IH; [congruence|]. cbn in H. inversion H; assumption.
Qed.

Lemma dist2_zero_veq a b : length a = length b -> dist2 a b == 0 -> veq a b.
Proof. intros HL H. apply vsubq_zero_veq; [exact HL|]. apply dot_self_zero. exact H. Qed.

Lemma seg_point_length a b p q u : length p = length q -> length (seg_point (a, b, p, q) u) = length p.
Proof. intro H. rewrite seg_point_lerp. apply lerp_length, H. Qed.

Theorem project_polyline_on_curve d ks P x a b p q u0 :
  sincr ks -> length ks = length P -> (2 <= length P)%nat ->
  Forall (fun p : pt => length p = d) P ->
  In (a, b, p, q) (segments ks P) -> a <= u0 <= b -> veq x (seg_point (a, b, p, q) u0) ->
  pmin ks P x == 0 /\
  forall t, In t (project_polyline ks P x) ->
    exists a' b' p' q', In (a', b', p', q') (segments ks P) /\ a' <= t <= b' /\
      veq (seg_point (a', b', p', q') t) x.
Proof.
  intros HS HL H2 HP HI Hu Hx.
  destruct (segments_in d ks P HS HP a b p q HI) as (A & B & C & Lp & Lq).
  assert (Lx : length x = d).
  { rewrite (veq_length _ _ Hx), seg_point_length; congruence. }
  destruct (project_polyline_spec d ks P x HS HL H2 HP Lx) as (_ & _ & S3 & S4).
  assert (M0 : pmin ks P x == 0).
  { apply Qle_antisym.
    - rewrite <- (dist2_veq_zero (seg_point (a, b, p, q) u0) x) by (symmetry; exact Hx).
      apply (S4 a b p q HI u0 Hu).
    - destruct (pmin_attained ks P x) as (s & _ & E); [apply segments_nonempty; lia|].
      rewrite <- E. apply dist2_nonneg. }
  split; [exact M0|]. intros t Ht.
  destruct (S3 t Ht) as (_ & a' & b' & p' & q' & HI' & R & _ & D).
  exists a', b', p', q'. split; [exact HI'|]. split; [exact R|].
  destruct (segments_in d ks P HS HP a' b' p' q' HI') as (_ & _ & _ & Lp' & Lq').
  apply dist2_zero_veq; [rewrite seg_point_length; congruence|]. rewrite D. exact M0.
Qed.

(* ================================================================== *)
(* I3. intersection of two planar polylines                            *)
(* ================================================================== *)
Definition raw_meets (A B : list (Q * Q * pt * pt)) : list (Q * Q) :=
  concat (map (fun s => concat (map (fun r => match seg_intersect s r with Some x => [x] | None => [] end) B)) A).

Lemma intersect_polylines_eq ka Pa kb Pb :
  intersect_polylines ka Pa kb Pb = dedup_pairs (raw_meets (segments ka Pa) (segments kb Pb)).
Proof. reflexivity. Qed.

Lemma raw_meets_in A B x :
  In x (raw_meets A B) <-> exists s r, In s A /\ In r B /\ seg_intersect s r = Some x.
Proof.
  unfold raw_meets. rewrite in_concat. split.
  - intros (l & Hl & Hx). apply in_map_iff in Hl. destruct Hl as (s & <- & Hs).
    apply in_concat in Hx. destruct Hx as (l' & Hl' & Hx). apply in_map_iff in Hl'.
    destruct Hl' as (r & <- & Hr). exists s, r. split; [exact Hs|]. split; [exact Hr|].
    destruct (seg_intersect s r) as [y|]; [|destruct Hx]. destruct Hx as [->|[]]. reflexivity.
  - intros (s & r & Hs & Hr & E). eexists. split; [apply in_map_iff; exists s; split; [reflexivity|exact Hs]|].
    apply in_concat. eexists. split; [apply in_map_iff; exists r; split; [reflexivity|exact Hr]|].
    rewrite E. left. reflexivity.
Qed.

Lemma dedup_pairs_in x : forall l, In x (dedup_pairs l) -> In x l.
Proof.
  induction l as [|y l IH]; [auto|]. cbn [dedup_pairs].
  destruct (existsb (pair_eqb y) l); intro H.
  - right. apply IH, H.
  - destruct H as [H|H]; [left; exact H|right; apply IH, H].
Qed.

Definition pair_distinct (x y : Q * Q) : Prop := pair_eqb x y = false.

Lemma dedup_pairs_nodup : forall l, ForallOrdPairs pair_distinct (dedup_pairs l).
Proof.
  induction l as [|y l IH]; [constructor|]. cbn [dedup_pairs].
  destruct (existsb (pair_eqb y) l) eqn:E; [exact IH|].
  constructor; [|exact IH]. apply Forall_forall. intros z Hz. apply dedup_pairs_in in Hz.
  unfold pair_distinct. destruct (pair_eqb y z) eqn:F; [|reflexivity].
  assert (existsb (pair_eqb y) l = true) by (apply existsb_exists; exists z; split; assumption).
  congruence.
Qed.

Lemma pair_eqb_spec x y : pair_eqb x y = true <-> fst x == fst y /\ snd x == snd y.
Proof. unfold pair_eqb. rewrite andb_true_iff, !Qeqb_eq. reflexivity. Qed.

(* dedup_pairs keeps a representative of every pair *)
Lemma dedup_pairs_complete : forall l x, In x l -> exists y, In y (dedup_pairs l) /\ pair_eqb x y = true.
Proof.
  induction l as [|z l IH]; [intros ? []|]. intros x [->|H]; cbn [dedup_pairs].
  - destruct (existsb (pair_eqb x) l) eqn:E.
    + apply existsb_exists in E. destruct E as (y & Hy & Exy).
      destruct (IH y Hy) as (y' & Hy' & Eyy'). exists y'. split; [exact Hy'|].
      apply pair_eqb_spec in Exy. apply pair_eqb_spec in Eyy'. apply pair_eqb_spec.
      destruct Exy as [A B], Eyy' as [C D]. split; [rewrite A; exact C|rewrite B; exact D].
    + exists x. split; [left; reflexivity|]. apply pair_eqb_spec. split; reflexivity.
  - destruct (IH x H) as (y & Hy & E). exists y. split; [|exact E].
    destruct (existsb (pair_eqb z) l); [exact Hy|right; exact Hy].
Qed.

Definition planar (P : list pt) : Prop := Forall (fun p : pt => length p = 2%nat) P.

Theorem intersect_polylines_sound ka Pa kb Pb t u :
  sincr ka -> sincr kb -> planar Pa -> planar Pb ->
  In (t, u) (intersect_polylines ka Pa kb Pb) ->
  first_q ka <= t <= last_q ka /\ first_q kb <= u <= last_q kb /\
  exists a b p q c d v w,
    In (a, b, p, q) (segments ka Pa) /\ In (c, d, v, w) (segments kb Pb) /\
    seg_intersect (a, b, p, q) (c, d, v, w) = Some (t, u) /\
    a <= t <= b /\ c <= u <= d /\
    veq (seg_point (a, b, p, q) t) (seg_point (c, d, v, w) u).
Proof.
  intros Sa Sb HPa HPb H. rewrite intersect_polylines_eq in H. apply dedup_pairs_in in H.
  apply raw_meets_in in H. destruct H as ([[[a b] p] q] & [[[c d] v] w] & Hs & Hr & E).
  destruct (segments_in 2 ka Pa Sa HPa a b p q Hs) as (A1 & A2 & A3 & A4 & A5).
  destruct (segments_in 2 kb Pb Sb HPb c d v w Hr) as (B1 & B2 & B3 & B4 & B5).
  destruct (seg_intersect_sound a b p q c d v w t u A1 B1 A4 A5 B4 B5 E) as (R1 & R2 & R3).
  split; [lra|]. split; [lra|]. exists a, b, p, q, c, d, v, w. repeat split; try assumption; lra.
Qed.

Theorem intersect_polylines_nodup ka Pa kb Pb :
  ForallOrdPairs pair_distinct (intersect_polylines ka Pa kb Pb).
Proof. rewrite intersect_polylines_eq. apply dedup_pairs_nodup. Qed.

(* every meeting of two pieces found by seg_intersect is represented in the result *)
Theorem intersect_polylines_keeps ka Pa kb Pb s r x :
  In s (segments ka Pa) -> In r (segments kb Pb) -> seg_intersect s r = Some x ->
  exists y, In y (intersect_polylines ka Pa kb Pb) /\ fst x == fst y /\ snd x == snd y.
Proof.
  intros Hs Hr E. rewrite intersect_polylines_eq.
  destruct (dedup_pairs_complete (raw_meets (segments ka Pa) (segments kb Pb)) x) as (y & Hy & Exy).
  - apply raw_meets_in. exists s, r. auto.
  - exists y. split; [exact Hy|]. apply pair_eqb_spec, Exy.
Qed.

Theorem intersect_polylines_empty ka Pa kb Pb :
  sincr ka -> sincr kb -> planar Pa -> planar Pb ->
  (forall a b p q c d v w, In (a, b, p, q) (segments ka Pa) -> In (c, d, v, w) (segments kb Pb) ->
     forall t u, a <= t <= b -> c <= u <= d ->
       ~ veq (seg_point (a, b, p, q) t) (seg_point (c, d, v, w) u)) ->
  intersect_polylines ka Pa kb Pb = [].
Proof.
  intros Sa Sb HPa HPb H. rewrite intersect_polylines_eq.
  assert (E : raw_meets (segments ka Pa) (segments kb Pb) = []).
  { destruct (raw_meets (segments ka Pa) (segments kb Pb)) as [|[t u] l] eqn:E; [reflexivity|]. exfalso.
    assert (K : In (t, u) (raw_meets (segments ka Pa) (segments kb Pb))) by (rewrite E; left; reflexivity).
    apply raw_meets_in in K. destruct K as ([[[a b] p] q] & [[[c d] v] w] & Hs & Hr & E').
    destruct (segments_in 2 ka Pa Sa HPa a b p q Hs) as (A1 & A2 & A3 & A4 & A5).
    destruct (segments_in 2 kb Pb Sb HPb c d v w Hr) as (B1 & B2 & B3 & B4 & B5).
    destruct (seg_intersect_sound a b p q c d v w t u A1 B1 A4 A5 B4 B5 E') as (R1 & R2 & R3).
    exact (H a b p q c d v w Hs Hr t u R1 R2 R3). }
  rewrite E. reflexivity.
Qed.

(* completeness at the level of polylines: a transversal meeting of two pieces is reported *)
Theorem intersect_polylines_complete ka Pa kb Pb a b p q c d v w t u :
  sincr ka -> sincr kb -> planar Pa -> planar Pb ->
  In (a, b, p, q) (segments ka Pa) -> In (c, d, v, w) (segments kb Pb) ->
  ~ (nth 0 q 0 - nth 0 p 0) * (nth 1 w 0 - nth 1 v 0)
    - (nth 1 q 0 - nth 1 p 0) * (nth 0 w 0 - nth 0 v 0) == 0 ->
  a <= t <= b -> c <= u <= d ->
  veq (seg_point (a, b, p, q) t) (seg_point (c, d, v, w) u) ->
  exists y, In y (intersect_polylines ka Pa kb Pb) /\ fst y == t /\ snd y == u.
Proof.
  intros Sa Sb HPa HPb Hs Hr NZ Ht Hu HV.
  destruct (segments_in 2 ka Pa Sa HPa a b p q Hs) as (A1 & A2 & A3 & A4 & A5).
  destruct (segments_in 2 kb Pb Sb HPb c d v w Hr) as (B1 & B2 & B3 & B4 & B5).
  destruct (seg_intersect_complete a b p q c d v w t u A1 B1 A4 A5 B4 B5 NZ Ht Hu HV) as (t' & u' & E & Et & Eu).
  destruct (intersect_polylines_keeps ka Pa kb Pb _ _ _ Hs Hr E) as (y & Hy & F1 & F2).
  exists y. split; [exact Hy|]. cbn [fst snd] in *. split; [rewrite <- F1; exact Et|rewrite <- F2; exact Eu].
Qed.

(* ================================================================== *)
(* Degenerate piece (q == p): every point of the piece is p            *)
(* ================================================================== *)
Lemma lerp_same t p : veq (lerp t p p) p.
Proof.
  unfold lerp. induction p as [|x p IH]; constructor; [|exact IH].
  rewrite Qred_correct. ring.
Qed.

Lemma seg_point_degenerate a b p q u :
  length p = length q -> dist2 q p == 0 -> veq (seg_point (a, b, p, q) u) p.
Proof.
  intros HL H. assert (E : veq q p) by (apply dist2_zero_veq; [congruence|exact H]).
  rewrite seg_point_lerp. rewrite E. apply lerp_same.
Qed.

Lemma seg_project_degenerate a b p q x : dist2 q p == 0 -> seg_project (a, b, p, q) x = a.
Proof. intro H. rewrite seg_project_eq. apply Qeqb_eq in H. rewrite H. reflexivity. Qed.

(* ================================================================== *)
(* Examples                                                            *)
(* ================================================================== *)
Definition exP : list pt := [[0; 0]; [1; 0]; [1; 1]].
Definition exK : list Q := [0; 1; 2].

(* the hypotheses of the theorems are satisfiable *)
Example ex_hyps : sincr exK /\ length exK = length exP /\ (2 <= length exP)%nat /\ planar exP.
Proof. cbn. repeat split; try lra; try lia. repeat constructor. Qed.

(* projection of (1/2, 2): piece 1 gives (1/2,0) at distance^2 4, piece 2 gives (1,1) at distance^2 5/4 *)
Example ex_project : ql_eqb (project_polyline exK exP [1 # 2; 2]) [2] = true.
Proof. vm_compute. reflexivity. Qed.
Example ex_project_inside : ql_eqb (project_polyline exK exP [1 # 2; -1 # 3]) [1 # 2] = true.
Proof. vm_compute. reflexivity. Qed.
Example ex_project_min : Qeqb (pmin exK exP [1 # 2; 2]) (5 # 4) = true.
Proof. vm_compute. reflexivity. Qed.
(* a tie: (0,1) is at distance 1 from both pieces *)
Example ex_project_tie : ql_eqb (project_polyline exK exP [0; 1]) [0; 2] = true.
Proof. vm_compute. reflexivity. Qed.
(* the corner is the nearest point of both pieces: one parameter only *)
Example ex_project_corner : ql_eqb (project_polyline exK exP [2; -1]) [1] = true.
Proof. vm_compute. reflexivity. Qed.
(* a point of the curve *)
Example ex_project_on : ql_eqb (project_polyline exK exP [1; 1 # 3]) [4 # 3] = true.
Proof. vm_compute. reflexivity. Qed.

(* two crossing segments *)
Example ex_cross :
  match seg_intersect (0, 1, [0; 0], [2; 2]) (0, 1, [0; 2], [2; 0]) with
  | Some (t, u) => Qeqb t (1 # 2) && Qeqb u (1 # 2)
  | None => false
  end = true.
Proof. vm_compute. reflexivity. Qed.
Example ex_parallel : seg_intersect (0, 1, [0; 0], [2; 2]) (0, 1, [0; 1], [2; 3]) = None.
Proof. vm_compute. reflexivity. Qed.
Example ex_miss : seg_intersect (0, 1, [0; 0], [1; 1]) (0, 1, [0; 5], [5; 0]) = None.
Proof. vm_compute. reflexivity. Qed.
(* the polyline exP against the segment (0,1/2)-(2,1/2) with knots 0,1: one meeting, on piece 2 *)
Example ex_polylines :
  list_eqb pair_eqb (intersect_polylines exK exP [0; 1] [[0; 1 # 2]; [2; 1 # 2]]) [(3 # 2, 1 # 2)] = true.
Proof. vm_compute. reflexivity. Qed.
(* meeting at a shared vertex of two pieces is reported once per parameter pair *)
Example ex_polylines_vertex :
  list_eqb pair_eqb (intersect_polylines exK exP [0; 1] [[0; -1]; [2; 1]]) [(1, 1 # 2)] = true.
Proof. vm_compute. reflexivity. Qed.

Print Assumptions quad_clamp_min.
Print Assumptions seg_point_dist2.
Print Assumptions seg_project_min.
Print Assumptions project_polyline_spec.
Print Assumptions project_polyline_on_curve.
Print Assumptions seg_intersect_sound.
Print Assumptions seg_intersect_complete.
Print Assumptions intersect_polylines_sound.
Print Assumptions intersect_polylines_nodup.
Print Assumptions intersect_polylines_keeps.
Print Assumptions intersect_polylines_empty.
Print Assumptions intersect_polylines_complete.
