(* Forced (tolerance = None) knot removal / degree reduction, and insertion requests naming an end knot.
   N1  c_knot_remove c ns None      : the new curve takes the old curve's values at every distinct knot of the
                                       new vector (degree of the new vector at least 1).
   N2  c_degree_decrease c t None   : the same.
   N3  a forced removal succeeds as soon as the vectors are compatible and the certified solve succeeds.
   N4  an insertion request naming an end knot is refused with ValueError. *)
From Coq Require Import QArith Qabs List Bool Arith Lia Lqa Setoid Morphisms Permutation.
From NurbsV Require Import Base.Res Base.QList Spec.BSpline Spec.KnotSpec Gen.Consts Model.KV Model.Basis
  Model.CurveM Model.Ops Model.CurveOps Model.Linalg Model.Quadrature Model.LeastSq Model.CurveLS.
From NurbsV Require Import Proofs.KVProofs Proofs.EvalProofs Proofs.InsertBasic Proofs.InsertList
  Proofs.InsertCompose Proofs.InsertCurve Proofs.RemoveBasic Proofs.MatProofs Proofs.LSProofs
  Proofs.UndoProofs.
From NurbsV Require Proofs.UnionProofs Proofs.IntegralProofs Proofs.LinIndepCurves Proofs.StateProofs Spec.BSplineExec
  Proofs.SmallClosures.
Import ListNotations.
Open Scope Q_scope.

(* ------------------------------------------------------------------ *)
(* 0. what a forced update does                                         *)
(* ------------------------------------------------------------------ *)
Lemma c_update_forced_cases c knew nodes c' (P : list pt) :
  cW c = None -> cP c = Some P -> c_update c knew None nodes = Ok c' ->
  c' = c \/
  (kv_eqb knew (ckv c) = false /\ limits_eqb (ckv c) knew = true /\
   exists T E, spline2spline (ckv c) knew nodes = Ok (T, E) /\
               c' = mkcurve knew (Some (mat_apply T P)) None).
Proof.
  intros HW HP H. unfold c_update in H.
  destruct (kv_eqb knew (ckv c)) eqn:E1; [left; inversion H; reflexivity|].
  right. rewrite HP in H.
  destruct (limits_eqb (ckv c) knew) eqn:E2; cbn [negb] in H; [|discriminate].
  unfold c_fit_curve in H. rewrite HW, HP in H.
  destruct (spline2spline (ckv c) knew nodes) as [[T E]|] eqn:ES; cbn [bind] in H; [|discriminate].
  inversion H. split; [reflexivity|]. split; [reflexivity|].
  exists T, E. split; reflexivity.
Qed.

(* rows of a mapM'd matrix *)
Lemma mapM_row {A} (f : A -> res (list Q)) (da : A) : forall l F, mapM f l = Ok F ->
  forall i, (i < length l)%nat -> f (nth i l da) = Ok (nth i F []).
Proof.
  intros l F H. apply mapM_Forall2 in H. induction H as [|a b l F Hab H IH]; intros i Hi.
  - cbn in Hi. lia.
  - destruct i as [|i]; [exact Hab|]. cbn [nth]. apply IH. cbn [length] in Hi. lia.
Qed.

(* ------------------------------------------------------------------ *)
(* 1. the projection with interpolation nodes keeps the values there    *)
(* ------------------------------------------------------------------ *)
Section Interp.
  Variables (kold knew : kv) (ns : list Q) (T E : mat).
  Hypothesis Wo : WF (kvec kold) (kdeg kold).
  Hypothesis Wn : WF (kvec knew) (kdeg knew).
  Hypothesis HS : spline2spline kold knew (Some ns) = Ok (T, E).

  (* scalar form: coefficients v over the old basis, T v over the new one *)
  Theorem s2s_interpolates_spec1 v z :
    length v = knpts kold -> In z ns ->
    curve_spec1 (kvec knew) (kdeg knew) (mvec T v) z == curve_spec1 (kvec kold) (kdeg kold) v z.
  Proof using All.
    intros Hv Hz.
    destruct (s2s_some_unfold _ _ _ _ _ HS) as (Hle & g & GGinv & F & G & LLinv & Hg & _ & HF & HG & _).
    destruct (In_nth ns z 0 Hz) as (i & Hi & Ei).
    pose proof (mapM_row _ 0 ns F HF i Hi) as RF. rewrite Ei in RF.
    pose proof (mapM_row _ 0 ns G HG i Hi) as RG. rewrite Ei in RG.
    pose proof (spline2spline_interpolates_vec kold knew ns T E g F G HS Hg HF HG v Hv) as HI.
    pose proof (veq_nth _ _ HI i) as HN. rewrite !nth_mvec in HN.
    assert (LT : length (mvec T v) = knpts knew).
    { rewrite MatProofs.mvec_length. exact (StateProofs.spline2spline_T_rows _ _ _ _ _ HS). }
    rewrite <- (basis_row_dot knew z _ _ Wn RG LT).
    rewrite <- (basis_row_dot kold z _ _ Wo RF Hv).
    exact HN.
  Qed.
End Interp.

(* ------------------------------------------------------------------ *)
(* 2. the curve level: a forced update with interpolation nodes         *)
(* ------------------------------------------------------------------ *)
Lemma curve_spec_refl U p d (P : list (list Q)) u : Forall2 Qeq (curve_spec U p d P u) (curve_spec U p d P u).
Proof. unfold curve_spec. apply BSplineExec.Forall2_map_seq. intro k. reflexivity. Qed.

Theorem forced_update_interpolates c knew ns c' (P : list pt) d :
  cW c = None -> cP c = Some P ->
  WF (kvec (ckv c)) (kdeg (ckv c)) -> WF (kvec knew) (kdeg knew) ->
  length P = knpts (ckv c) -> Forall (fun q : pt => length q = d) P ->
  c_update c knew None (Some ns) = Ok c' ->
  exists P', cP c' = Some P' /\ cW c' = None /\ length P' = knpts (ckv c') /\
    Forall (fun q : pt => length q = d) P' /\
    (c' = c \/ ckv c' = knew) /\
    forall z, (c' = c \/ In z ns) ->
      Forall2 Qeq (curve_spec (kvec (ckv c')) (kdeg (ckv c')) d P' z)
                  (curve_spec (kvec (ckv c)) (kdeg (ckv c)) d P z).
Proof.
  intros HW HP Wo Wn HPl HPd HU.
  destruct (c_update_forced_cases c knew (Some ns) c' P HW HP HU) as [Ec|(E1 & E2 & T & E & HS & Ec)].
  - subst c'. exists P. repeat split; try assumption.
    + left. reflexivity.
    + intros z _. apply curve_spec_refl.
  - subst c'. cbn [ckv cP cW].
    assert (Hd : pdim P = d).
    { apply pdim_Forall; [|exact HPd]. pose proof (wf_knpts_pos (ckv c) Wo).
      unfold pt in *. destruct P; [cbn in HPl; lia|discriminate]. }
    exists (mat_apply T P). split; [reflexivity|]. split; [reflexivity|]. split.
    { rewrite mat_apply_length. exact (StateProofs.spline2spline_T_rows _ _ _ _ _ HS). }
    split; [apply mat_apply_dims; assumption|].
    split; [right; reflexivity|].
    intros z [Ec|Hz].
    { exfalso. apply (f_equal ckv) in Ec. cbn [ckv] in Ec. rewrite Ec, kv_eqb_refl in E1. discriminate. }
    unfold curve_spec. apply EvalProofs.Forall2_Qeq_nth; [rewrite !map_length; reflexivity|].
    rewrite map_length, seq_length. intros kk Hk.
    rewrite !(nth_map_seq _ d 0 kk Hk).
    rewrite (curve_spec1_ext _ _ _ _ z (coord_mat_apply T P d kk Hk HPd Hd)).
    apply (s2s_interpolates_spec1 (ckv c) knew ns T E Wo Wn HS); [|exact Hz].
    rewrite coord_length. exact HPl.
Qed.

(* the distinct knots of a well-formed vector lie in its interval *)
Lemma kknots_valid k z : WF (kvec k) (kdeg k) -> In z (kknots k) -> kvalid1 k z = true.
Proof.
  intros W H. destruct (IntegralProofs.kknots_range k z W H) as (_ & A & B).
  unfold kvalid1, kumin, kumax, klimits. cbn [fst snd].
  rewrite (proj2 (Qltb_ge _ _) A), (proj2 (Qltb_ge _ _) B). reflexivity.
Qed.

(* ------------------------------------------------------------------ *)
(* N1. forced knot removal interpolates at the remaining knots          *)
(* ------------------------------------------------------------------ *)
Theorem forced_knot_remove_interpolates c ns c' (P : list pt) d :
  cW c = None -> cP c = Some P ->
  WF (kvec (ckv c)) (kdeg (ckv c)) ->
  length P = knpts (ckv c) -> Forall (fun q : pt => length q = d) P ->
  c_knot_remove c ns None = Ok c' ->
  (1 <= kdeg (ckv c'))%nat ->
  exists P', cP c' = Some P' /\ cW c' = None /\ length P' = knpts (ckv c') /\
    Forall (fun q : pt => length q = d) P' /\
    forall z, In z (kknots (ckv c')) ->
      Forall2 Qeq (curve_spec (kvec (ckv c')) (kdeg (ckv c')) d P' z)
                  (curve_spec (kvec (ckv c)) (kdeg (ckv c)) d P z).
Proof.
  intros HW HP Wo HPl HPd H Hdeg. unfold c_knot_remove in H.
  destruct (kremove (ckv c) ns) as [knew|] eqn:K; cbn [bind] in H; [|discriminate].
  pose proof (kremove_wf _ _ _ K) as Wn.
  unfold knots_opt in H.
  destruct (c_update_forced_cases c knew _ c' P HW HP H) as [Ec|(E1 & E2 & T & E & HS & Ec)].
  - subst c'. exists P. repeat split; try assumption. intros z _. apply curve_spec_refl.
  - assert (Ek : ckv c' = knew) by (rewrite Ec; reflexivity).
    rewrite Ek in Hdeg.
    destruct (Nat.eqb_spec (kdeg knew) 0) as [Z|NZ]; [lia|].
    destruct (forced_update_interpolates c knew (kknots knew) c' P d HW HP Wo Wn HPl HPd H)
      as (P' & A1 & A2 & A3 & A4 & _ & A5).
    exists P'. repeat split; try assumption.
    intros z Hz. apply A5. right. rewrite <- Ek. exact Hz.
Qed.

(* ------------------------------------------------------------------ *)
(* N2. forced degree reduction interpolates at the knots                *)
(* ------------------------------------------------------------------ *)
Theorem forced_degree_decrease_interpolates c t c' (P : list pt) d :
  cW c = None -> cP c = Some P ->
  WF (kvec (ckv c)) (kdeg (ckv c)) ->
  length P = knpts (ckv c) -> Forall (fun q : pt => length q = d) P ->
  c_degree_decrease c t None = Ok c' ->
  (1 <= kdeg (ckv c'))%nat ->
  exists P', cP c' = Some P' /\ cW c' = None /\ length P' = knpts (ckv c') /\
    Forall (fun q : pt => length q = d) P' /\
    forall z, In z (kknots (ckv c')) ->
      Forall2 Qeq (curve_spec (kvec (ckv c')) (kdeg (ckv c')) d P' z)
                  (curve_spec (kvec (ckv c)) (kdeg (ckv c)) d P z).
Proof.
  intros HW HP Wo HPl HPd H Hdeg. unfold c_degree_decrease in H.
  destruct (Nat.eqb t 0); [discriminate|].
  destruct (kdeg (ckv c) <? t)%nat; [discriminate|].
  destruct (kset_degree (ckv c) (kdeg (ckv c) - t)) as [knew|] eqn:K; cbn [bind] in H; [|discriminate].
  pose proof (kset_degree_wf _ _ _ Wo K) as Wn.
  unfold knots_opt in H.
  destruct (c_update_forced_cases c knew _ c' P HW HP H) as [Ec|(E1 & E2 & T & E & HS & Ec)].
  - subst c'. exists P. repeat split; try assumption. intros z _. apply curve_spec_refl.
  - assert (Ek : ckv c' = knew) by (rewrite Ec; reflexivity).
    rewrite Ek in Hdeg.
    destruct (Nat.eqb_spec (kdeg knew) 0) as [Z|NZ]; [lia|].
    destruct (forced_update_interpolates c knew (kknots knew) c' P d HW HP Wo Wn HPl HPd H)
      as (P' & A1 & A2 & A3 & A4 & _ & A5).
    exists P'. repeat split; try assumption.
    intros z Hz. apply A5. right. rewrite <- Ek. exact Hz.
Qed.

(* ------------------------------------------------------------------ *)
(* N3. a forced removal succeeds when the vectors are compatible        *)
(* ------------------------------------------------------------------ *)
Theorem forced_knot_remove_succeeds c ns knew T E :
  cW c = None ->
  kremove (ckv c) ns = Ok knew ->
  limits_eqb (ckv c) knew = true ->
  spline2spline (ckv c) knew (knots_opt knew) = Ok (T, E) ->
  exists c', c_knot_remove c ns None = Ok c' /\
    (c' = c \/ c' = mkcurve knew (option_map (mat_apply T) (cP c)) None).
Proof.
  intros HW K HL HS. unfold c_knot_remove. rewrite K. cbn [bind]. unfold c_update.
  destruct (kv_eqb knew (ckv c)); [exists c; split; [reflexivity|left; reflexivity]|].
  destruct (cP c) as [P|] eqn:HP.
  - rewrite HL. cbn [negb]. unfold c_fit_curve. rewrite HW, HP, HS. cbn [bind].
    eexists. split; [reflexivity|]. right. reflexivity.
  - rewrite HW. eexists. split; [reflexivity|]. right. reflexivity.
Qed.

(* ------------------------------------------------------------------ *)
(* N4. insertion requests naming an end knot                            *)
(* ------------------------------------------------------------------ *)
Import InsertCompose.

Lemma make_err v dg e : make v dg = Err e -> e = ValueError.
Proof. unfold make. destruct (is_valid v dg); intro H; [discriminate|]. inversion H. reflexivity. Qed.

Lemma kinsert_err k ns e : kinsert k ns = Err e -> e = ValueError.
Proof.
  unfold kinsert. destruct (kvalid k ns); intro H; [exact (make_err _ _ _ H)|]. inversion H. reflexivity.
Qed.

(* the strictly interior part of a request *)
Definition interior (k : kv) (x : Q) : bool :=
  negb (Qeqb x (first_q (kvec k))) && negb (Qeqb x (last_q (kvec k))).

Lemma interior_proper k x y : x == y -> interior k x = interior k y.
Proof. intro E. unfold interior. rewrite E. reflexivity. Qed.

Lemma filter_interior_length k ns : ~ first_q (kvec k) == last_q (kvec k) ->
  (length (filter (interior k) ns) + count_q (first_q (kvec k)) ns + count_q (last_q (kvec k)) ns
   = length ns)%nat.
Proof.
  intro N. induction ns as [|x ns IH]; [reflexivity|].
  rewrite !count_q_cons. cbn [filter length]. unfold interior at 1.
  destruct (Qeqb_spec (first_q (kvec k)) x) as [A|A]; destruct (Qeqb_spec (last_q (kvec k)) x) as [B|B];
    destruct (Qeqb_spec x (first_q (kvec k))) as [A'|A']; destruct (Qeqb_spec x (last_q (kvec k))) as [B'|B'];
    cbn [negb andb length]; try lia; exfalso;
    try (apply N; rewrite A, B; reflexivity);
    try (apply A'; symmetry; exact A); try (apply B'; symmetry; exact B);
    try (apply A; symmetry; exact A'); try (apply B; symmetry; exact B').
Qed.

Lemma kvalid_bounds k ns : WF (kvec k) (kdeg k) -> kvalid k ns = true ->
  forall y, In y ns -> first_q (kvec k) <= y <= last_q (kvec k).
Proof.
  intros W Hv y Hy. unfold kvalid in Hv. rewrite forallb_forall in Hv.
  apply LinIndepCurves.in_closed_bounds. rewrite (LinIndepCurves.in_closed_valid1 k y W). apply Hv, Hy.
Qed.

(* A. what a successful kinsert does to the degree: it rises by the number of copies of the first knot in
      the request, which is also the number of copies of the last knot *)
Lemma kinsert_degree k ns k' :
  WF (kvec k) (kdeg k) -> kinsert k ns = Ok k' ->
  kvec k' = sortq (kvec k ++ ns) /\
  kdeg k' = (kdeg k + count_q (first_q (kvec k)) ns)%nat /\
  kdeg k' = (kdeg k + count_q (last_q (kvec k)) ns)%nat.
Proof.
  intros W H. destruct (kinsert_vec _ _ _ H) as [Ev Hv].
  pose proof (kinsert_wf _ _ _ H) as W'.
  pose proof (kvalid_bounds k ns W Hv) as Hb.
  set (U := kvec k) in *. set (p := kdeg k) in *.
  set (V := kvec k') in *. set (dg := kdeg k') in *.
  destruct (wf_parts U p W) as (Hs & Hl & Hf & Hc).
  destruct (wf_parts V dg W') as (Hs' & Hl' & Hf' & Hc').
  assert (LenU : (0 < length U)%nat) by lia.
  assert (LenV : (0 < length V)%nat) by lia.
  assert (InV : forall y, In y V <-> In y (U ++ ns)).
  { intro y. rewrite Ev. split; intro K.
    - exact (Permutation_in y (sortq_perm _) K).
    - exact (Permutation_in y (Permutation_sym (sortq_perm _)) K). }
  assert (Rng : forall y, In y V -> first_q U <= y <= last_q U).
  { intros y Hy. apply InV in Hy. apply in_app_or in Hy. destruct Hy as [Hy|Hy].
    - split; [apply UnionProofs.sorted_first_le | apply UnionProofs.sorted_le_last]; assumption.
    - apply Hb, Hy. }
  assert (F : first_q V == first_q U).
  { assert (I1 : In (first_q U) V) by (apply InV, in_or_app; left; apply UnionProofs.first_q_in, LenU).
    pose proof (UnionProofs.sorted_first_le V _ Hs' I1).
    pose proof (Rng _ (UnionProofs.first_q_in V LenV)). lra. }
  assert (G : last_q V == last_q U).
  { assert (I1 : In (last_q U) V) by (apply InV, in_or_app; left; apply UnionProofs.last_q_in, LenU).
    pose proof (UnionProofs.sorted_le_last V _ Hs' I1).
    pose proof (Rng _ (UnionProofs.last_q_in V LenV)). lra. }
  assert (Cnt : forall y, count_q y V = (count_q y U + count_q y ns)%nat).
  { intro y. rewrite Ev, (UnionProofs.count_q_perm _ _ _ (sortq_perm _)), UnionProofs.count_q_app.
    reflexivity. }
  split; [exact Ev|].
  rewrite (count_q_proper _ _ V F), Cnt, Hf in Hf'.
  rewrite (count_q_proper _ _ V G), Cnt, Hc in Hc'.
  split; lia.
Qed.

(* B. the matrix of knot_insert only sees the strictly interior part of the request *)
Lemma wsum_ext (c c' : Q -> nat) y : forall l, (forall x, In x l -> c x = c' x) -> wsum c l y = wsum c' l y.
Proof.
  induction l as [|a l IH]; intro H; [reflexivity|]. cbn [wsum].
  rewrite (H a (or_introl eq_refl)), IH; [reflexivity|]. intros x Hx. apply H. right. exact Hx.
Qed.

Lemma count_q_filter_in (f : Q -> bool) x : (forall a b, a == b -> f a = f b) -> f x = true ->
  forall l, count_q x (filter f l) = count_q x l.
Proof.
  intros Hp Hx. induction l as [|a l IH]; [reflexivity|]. cbn [filter].
  destruct (f a) eqn:E; rewrite !count_q_cons, ?IH; [reflexivity|].
  destruct (Qeqb_spec x a) as [A|A]; [|reflexivity]. rewrite (Hp x a A) in Hx. congruence.
Qed.

Lemma count_q_filter_out (f : Q -> bool) x : (forall a b, a == b -> f a = f b) -> f x = false ->
  forall l, count_q x (filter f l) = 0%nat.
Proof.
  intros Hp Hx. induction l as [|a l IH]; [reflexivity|]. cbn [filter].
  destruct (f a) eqn:E; [|exact IH]. rewrite count_q_cons, IH.
  destruct (Qeqb_spec x a) as [A|A]; [|reflexivity]. rewrite (Hp x a A) in Hx. congruence.
Qed.

Lemma wsum_ki_nodes_gen k nodes y :
  wsum (fun x => count_q x nodes) (ki_nodes k nodes) y = count_q y (filter (interior k) nodes).
Proof.
  set (c' := fun x => count_q x (filter (interior k) nodes)).
  rewrite (wsum_ext _ c').
  - unfold ki_nodes. fold (interior k).
    change (fun x : Q => negb (Qeqb x (first_q (kvec k))) && negb (Qeqb x (last_q (kvec k)))) with (interior k).
    rewrite wsum_filter.
    + rewrite (wsum_dedupq c').
      * rewrite (existsb_perm y _ _ (sortq_perm nodes)).
        destruct (existsb (Qeqb y) nodes) eqn:E; [reflexivity|].
        unfold c'. symmetry.
        pose proof (count_q_zero_notin y nodes E) as Z.
        pose proof (count_q_le_length y (filter (interior k) nodes)).
        destruct (interior k y) eqn:I.
        -- rewrite (count_q_filter_in _ y (interior_proper k) I). exact Z.
        -- apply (count_q_filter_out _ y (interior_proper k) I).
      * intros a b E. unfold c'. apply count_q_proper, E.
      * apply sortq_sorted.
    + intros x _ Hx. unfold c'. apply (count_q_filter_out _ x (interior_proper k) Hx).
  - intros x Hx. unfold c'. unfold ki_nodes in Hx. apply filter_In in Hx. destruct Hx as [_ Hx].
    symmetry. apply (count_q_filter_in _ x (interior_proper k)). exact Hx.
Qed.

Lemma knot_insert_length k nodes M :
  WF (kvec k) (kdeg k) -> knot_insert k nodes = Ok M ->
  (length M + kdeg k + 1 = length (kvec k) + length (filter (interior k) nodes))%nat.
Proof.
  intros W H.
  destruct (knot_insert_curve_full k nodes M W H) as (kf & Hfull & Wf & Df & Lf & _).
  unfold knot_insert_full in Hfull.
  destruct (negb (forallb (in_closed k) nodes)); [discriminate|].
  destruct (fold_counts nodes _ _ _ Hfull) as (m & kc & E & Himp).
  inversion E; subst m kc. destruct (Himp W) as [_ Hc]. cbn [snd] in Hc.
  assert (F2 : Forall2 Qeq (kvec kf) (sortq (kvec k ++ filter (interior k) nodes))).
  { apply sorted_counts_Forall2.
    - apply (wf_parts _ _ Wf).
    - apply sortq_sorted.
    - intro y. rewrite Hc, wsum_ki_nodes_gen.
      rewrite (UnionProofs.count_q_perm _ _ _ (sortq_perm _)), UnionProofs.count_q_app. reflexivity. }
  pose proof (Forall2_Qeq_length _ _ F2) as L. rewrite sortq_length, app_length in L.
  destruct (wf_parts _ _ Wf) as (_ & Hl & _ & _).
  rewrite Lf. unfold knpts. rewrite Df in *. lia.
Qed.

(* C. the only error of knot_insert on a request inside the closed interval is ValueError
      (a multiplicity pushed above degree + 1) *)
Lemma loop_err x e : forall t kc acc,
  WF (kvec kc) (kdeg kc) -> first_q (kvec kc) < x -> x < last_q (kvec kc) ->
  one_knot_insert_loop t kc x acc = Err e -> e = ValueError.
Proof.
  induction t as [|t IH]; intros kc acc W A B H; cbn [one_knot_insert_loop] in H; [discriminate|].
  assert (Hc : in_closed kc x = true).
  { unfold in_closed. apply andb_true_iff. split; apply Qleb_le; lra. }
  destruct (LinIndepCurves.once_ok kc x W Hc) as [inc E1]. rewrite E1 in H. cbn [bind] in H.
  destruct (kinsert kc [x]) as [k2|e2] eqn:E2; cbn [bind] in H.
  - pose proof (kinsert_wf _ _ _ E2) as W2.
    destruct (inv_single kc x inc k2 W E1 E2) as (_ & _ & _ & _ & R & _).
    destruct (LinIndepCurves.ends_of_range kc k2 W W2 R) as [F' L'].
    apply (IH k2 (mmul inc acc) W2); [lra|lra|exact H].
  - inversion H; subst e2. exact (kinsert_err _ _ _ E2).
Qed.

Lemma one_knot_insert_err k x t e :
  WF (kvec k) (kdeg k) -> first_q (kvec k) < x -> x < last_q (kvec k) -> (0 < t)%nat ->
  one_knot_insert k x t = Err e -> e = ValueError.
Proof.
  intros W A B Ht H. unfold one_knot_insert in H.
  assert (Hc : in_closed k x = true).
  { unfold in_closed. apply andb_true_iff. split; apply Qleb_le; lra. }
  rewrite Hc in H. cbn [negb] in H.
  destruct (Nat.eqb_spec t 0) as [Z|Z]; [lia|].
  exact (loop_err x e t k _ W A B H).
Qed.

Lemma fold_err (k : kv) (nodes : list Q) e :
  forall l m kc,
  WF (kvec kc) (kdeg kc) ->
  first_q (kvec kc) == first_q (kvec k) -> last_q (kvec kc) == last_q (kvec k) ->
  (forall x, In x l -> first_q (kvec k) < x /\ x < last_q (kvec k) /\ (0 < count_q x nodes)%nat) ->
  fold_left (ki_step nodes) l (Ok (m, kc)) = Err e -> e = ValueError.
Proof.
  induction l as [|x l IH]; intros m kc Wc Fc Lc Hl H; cbn [fold_left] in H; [discriminate|].
  destruct (Hl x (or_introl eq_refl)) as (A & B & C).
  unfold ki_step at 2 in H. cbn [bind] in H.
  destruct (one_knot_insert kc x (count_q x nodes)) as [[inc k']|e1] eqn:E1; cbn [bind] in H.
  - destruct (one_knot_insert_inv kc x _ inc k' Wc E1) as (W' & _ & _ & _ & R' & _).
    destruct (LinIndepCurves.ends_of_range kc k' Wc W' R') as [F' L'].
    apply (IH (mmul inc m) k' W').
    + rewrite F'. exact Fc.
    + rewrite L'. exact Lc.
    + intros z Hz. apply Hl. right. exact Hz.
    + exact H.
  - rewrite (fold_left_err (ki_step nodes)) in H.
    + inversion H; subst e1.
      apply (one_knot_insert_err kc x (count_q x nodes) e Wc); [lra|lra|exact C|exact E1].
    + intros y. reflexivity.
Qed.

Lemma knot_insert_err k nodes e :
  WF (kvec k) (kdeg k) -> kvalid k nodes = true -> knot_insert k nodes = Err e -> e = ValueError.
Proof.
  intros W Hv H.
  assert (Hcl : forallb (in_closed k) nodes = true).
  { apply forallb_forall. intros x Hx. rewrite (LinIndepCurves.in_closed_valid1 k x W).
    unfold kvalid in Hv. rewrite forallb_forall in Hv. apply Hv, Hx. }
  rewrite knot_insert_full_fst in H. unfold knot_insert_full in H. rewrite Hcl in H. cbn [negb] in H.
  destruct (fold_left (ki_step nodes) (ki_nodes k nodes) (Ok (ident (knpts k), k))) as [r|e1] eqn:EF;
    cbn [bind] in H; [discriminate|].
  inversion H; subst e1.
  apply (fold_err k nodes e (ki_nodes k nodes) (ident (knpts k)) k W (Qeq_refl _) (Qeq_refl _)); [|exact EF].
  intros x Hx. unfold ki_nodes in Hx. apply filter_In in Hx. destruct Hx as [Hx Hne].
  apply LinIndepCurves.dedupq_In in Hx. apply (Permutation_in x (sortq_perm _)) in Hx.
  rewrite forallb_forall in Hcl. pose proof (LinIndepCurves.in_closed_bounds k x (Hcl x Hx)) as [B1 B2].
  apply andb_true_iff in Hne. destruct Hne as [N1 N2].
  apply negb_true_iff, Qeqb_neq in N1. apply negb_true_iff, Qeqb_neq in N2.
  repeat split.
  - destruct (Qlt_le_dec (first_q (kvec k)) x) as [L|G]; [exact L|]. exfalso. apply N1. lra.
  - destruct (Qlt_le_dec x (last_q (kvec k))) as [L|G]; [exact L|]. exfalso. apply N2. lra.
  - apply (UnionProofs.in_count_pos x x nodes Hx (Qeq_refl x)).
Qed.

(* a request whose numbers of copies of the two end knots differ is refused by kinsert itself *)
Theorem kinsert_unbalanced_ends_refused k ns :
  WF (kvec k) (kdeg k) ->
  count_q (first_q (kvec k)) ns <> count_q (last_q (kvec k)) ns ->
  kinsert k ns = Err ValueError.
Proof.
  intros W N. destruct (kinsert k ns) as [k'|e] eqn:E.
  - destruct (kinsert_degree k ns k' W E) as (_ & A & B). lia.
  - rewrite (kinsert_err _ _ _ E). reflexivity.
Qed.

Lemma end_named_count k ns :
  WF (kvec k) (kdeg k) ->
  (exists z, In z ns /\ (z == kumin k \/ z == kumax k)) ->
  (0 < count_q (first_q (kvec k)) ns + count_q (last_q (kvec k)) ns)%nat.
Proof.
  intros W (z & Hz & [E|E]).
  - rewrite kumin_umin, <- (wf_first_umin _ _ W) in E.
    pose proof (UnionProofs.in_count_pos (first_q (kvec k)) z ns Hz ltac:(symmetry; exact E)). lia.
  - rewrite kumax_umax, <- (wf_last_umax _ _ W) in E.
    pose proof (UnionProofs.in_count_pos (last_q (kvec k)) z ns Hz ltac:(symmetry; exact E)). lia.
Qed.

(* N4: the knot-vector level.  A request naming an end knot either makes kinsert fail, or (both end knots
   named the same number a >= 1 of times, every other multiplicity still admissible) yields a vector whose
   inferred degree is p + a > p. *)
Theorem kinsert_end_knot k ns :
  WF (kvec k) (kdeg k) ->
  (exists z, In z ns /\ (z == kumin k \/ z == kumax k)) ->
  kinsert k ns = Err ValueError \/
  exists k', kinsert k ns = Ok k' /\ (kdeg k < kdeg k')%nat /\
             kdeg k' = (kdeg k + count_q (first_q (kvec k)) ns)%nat /\
             kdeg k' = (kdeg k + count_q (last_q (kvec k)) ns)%nat.
Proof.
  intros W He. pose proof (end_named_count k ns W He) as Hc.
  destruct (kinsert k ns) as [k'|e] eqn:E.
  - right. exists k'. destruct (kinsert_degree k ns k' W E) as (_ & A & B).
    split; [reflexivity|]. split; [lia|]. split; assumption.
  - left. rewrite (kinsert_err _ _ _ E). reflexivity.
Qed.

(* N4: the curve level.  On a curve carrying control points or weights the request is refused with
   ValueError: either by kinsert, or by knot_insert (an interior multiplicity above p + 1), or by apply
   (the insertion matrix ignores the end nodes and has a < knpts k' ... rows: size mismatch). *)
Theorem c_knot_insert_end_knot_refused c ns :
  WF (kvec (ckv c)) (kdeg (ckv c)) ->
  (cP c <> None \/ cW c <> None) ->
  kvalid (ckv c) ns = true ->
  (exists z, In z ns /\ (z == kumin (ckv c) \/ z == kumax (ckv c))) ->
  c_knot_insert c ns = Err ValueError.
Proof.
  intros W Hdata Hv He. set (k := ckv c) in *.
  pose proof (end_named_count k ns W He) as Hc.
  unfold c_knot_insert. fold k.
  destruct (kinsert k ns) as [k'|e] eqn:E; cbn [bind];
    [|rewrite (kinsert_err _ _ _ E); reflexivity].
  destruct (kinsert_degree k ns k' W E) as (Ev & A & B).
  pose proof (kinsert_wf _ _ _ E) as W'.
  destruct (knot_insert k ns) as [M|e] eqn:EM; cbn [bind];
    [|rewrite (knot_insert_err k ns e W Hv EM); reflexivity].
  pose proof (knot_insert_length k ns M W EM) as LM.
  pose proof (filter_interior_length k ns) as FL.
  assert (NE : ~ first_q (kvec k) == last_q (kvec k)).
  { pose proof (UnionProofs.wf_first_ne_last _ _ W). intro C. lra. }
  specialize (FL NE).
  destruct (wf_parts _ _ W) as (_ & Hl & _ & _).
  destruct (wf_parts _ _ W') as (_ & Hl' & _ & _).
  assert (LK : length (kvec k') = (length (kvec k) + length ns)%nat)
    by (rewrite Ev, sortq_length, app_length; reflexivity).
  assert (Hneq : (length M =? knpts k')%nat = false).
  { apply Nat.eqb_neq. unfold knpts. lia. }
  unfold apply_matrix. rewrite Hneq. cbn [negb].
  destruct (cP c) as [P|]; [reflexivity|].
  destruct (cW c) as [Wt|]; [reflexivity|].
  destruct Hdata as [H|H]; exfalso; apply H; reflexivity.
Qed.

(* the class of requests for which the model does something else: a curve with neither control points nor
   weights has nothing to transform, apply only rebinds the knot vector - at the raised degree *)
Theorem c_knot_insert_end_knot_bare c ns k' M :
  cP c = None -> cW c = None ->
  kinsert (ckv c) ns = Ok k' -> knot_insert (ckv c) ns = Ok M ->
  c_knot_insert c ns = Ok (mkcurve k' None None).
Proof.
  intros HP HW E EM. unfold c_knot_insert. rewrite E, EM. cbn [bind].
  unfold apply_matrix. rewrite HP, HW. reflexivity.
Qed.

(* ------------------------------------------------------------------ *)
(* N1 / N2, read at the knot VALUES of the new vector                   *)
(* ------------------------------------------------------------------ *)
(* kknots lists one representative of every 1e-6 cluster of knots (known finding K2): the first knot is always
   represented; every knot value is represented when the knots are separated. *)
Lemma curve_spec_u_proper U p d (P : list (list Q)) u u' :
  u == u' -> Forall2 Qeq (curve_spec U p d P u) (curve_spec U p d P u').
Proof.
  intro E. unfold curve_spec. apply BSplineExec.Forall2_map_seq. intro k.
  unfold curve_spec1. apply qsum_map_ext. intros i _. rewrite (Nspec_proper U p p i u u' E). reflexivity.
Qed.

Lemma interp_at_equal_node U' p' U p d (P' P : list (list Q)) ks x :
  (forall z, In z ks -> Forall2 Qeq (curve_spec U' p' d P' z) (curve_spec U p d P z)) ->
  (exists y, In y ks /\ x == y) ->
  Forall2 Qeq (curve_spec U' p' d P' x) (curve_spec U p d P x).
Proof.
  intros H (y & Hy & E).
  apply (veq_trans _ _ _ (curve_spec_u_proper U' p' d P' x y E)).
  apply (veq_trans _ _ _ (H y Hy)).
  apply curve_spec_u_proper. symmetry. exact E.
Qed.

Lemma forced_remove_wf c ns tol c' :
  WF (kvec (ckv c)) (kdeg (ckv c)) -> c_knot_remove c ns tol = Ok c' -> WF (kvec (ckv c')) (kdeg (ckv c')).
Proof.
  intros W H. unfold c_knot_remove in H.
  destruct (kremove (ckv c) ns) as [knew|] eqn:K; cbn [bind] in H; [|discriminate].
  pose proof (kremove_wf _ _ _ K) as Wn. unfold c_update in H.
  destruct (kv_eqb knew (ckv c)); [inversion H; subst c'; exact W|].
  destruct (cP c).
  - destruct (negb (limits_eqb (ckv c) knew)); [discriminate|].
    destruct (c_fit_curve knew c (knots_opt knew)) as [[P' err]|]; cbn [bind] in H; [|discriminate].
    destruct tol as [t|].
    + destruct (negb (Qeqb t 0) && Qltb t err); [discriminate|]. inversion H; subst c'. exact Wn.
    + inversion H; subst c'. exact Wn.
  - inversion H; subst c'. exact Wn.
Qed.

Lemma forced_decrease_wf c t tol c' :
  WF (kvec (ckv c)) (kdeg (ckv c)) -> c_degree_decrease c t tol = Ok c' -> WF (kvec (ckv c')) (kdeg (ckv c')).
Proof.
  intros W H. unfold c_degree_decrease in H.
  destruct (Nat.eqb t 0); [discriminate|].
  destruct (kdeg (ckv c) <? t)%nat; [discriminate|].
  destruct (kset_degree (ckv c) (kdeg (ckv c) - t)) as [knew|] eqn:K; cbn [bind] in H; [|discriminate].
  pose proof (kset_degree_wf _ _ _ W K) as Wn. unfold c_update in H.
  destruct (kv_eqb knew (ckv c)); [inversion H; subst c'; exact W|].
  destruct (cP c).
  - destruct (negb (limits_eqb (ckv c) knew)); [discriminate|].
    destruct (c_fit_curve knew c (knots_opt knew)) as [[P' err]|]; cbn [bind] in H; [|discriminate].
    destruct tol as [t0|].
    + destruct (negb (Qeqb t0 0) && Qltb t0 err); [discriminate|]. inversion H; subst c'. exact Wn.
    + inversion H; subst c'. exact Wn.
  - inversion H; subst c'. exact Wn.
Qed.

Lemma first_knot_represented k : WF (kvec k) (kdeg k) ->
  exists y, In y (kknots k) /\ first_q (kvec k) == y.
Proof.
  intro W. apply UnionProofs.count_pos_in. rewrite (SmallClosures.kknots_first_once k W). lia.
Qed.

Section AtKnotValues.
  Variables (c c' : curve) (P : list pt) (d : nat).
  Hypothesis HW : cW c = None.
  Hypothesis HP : cP c = Some P.
  Hypothesis Wo : WF (kvec (ckv c)) (kdeg (ckv c)).
  Hypothesis HPl : length P = knpts (ckv c).
  Hypothesis HPd : Forall (fun q : pt => length q = d) P.
  Hypothesis Hdeg : (1 <= kdeg (ckv c'))%nat.

  Let concl (good : Q -> Prop) : Prop :=
    exists P', cP c' = Some P' /\ cW c' = None /\ length P' = knpts (ckv c') /\
      Forall (fun q : pt => length q = d) P' /\
      forall x, good x ->
        Forall2 Qeq (curve_spec (kvec (ckv c')) (kdeg (ckv c')) d P' x)
                    (curve_spec (kvec (ckv c)) (kdeg (ckv c)) d P x).

  (* the start of the interval, always *)
  Theorem forced_knot_remove_interpolates_start ns :
    c_knot_remove c ns None = Ok c' -> concl (fun x => x == first_q (kvec (ckv c'))).
  Proof using All.
    intro H. pose proof (forced_remove_wf c ns None c' Wo H) as Wn.
    destruct (forced_knot_remove_interpolates c ns c' P d HW HP Wo HPl HPd H Hdeg) as (P' & A1 & A2 & A3 & A4 & A5).
    exists P'. repeat split; try assumption. intros x Hx.
    apply (interp_at_equal_node _ _ _ _ _ _ _ (kknots (ckv c')) x A5).
    destruct (first_knot_represented (ckv c') Wn) as (y & Hy & E).
    exists y. split; [exact Hy|]. rewrite Hx. exact E.
  Qed.

  (* every knot value of the new vector, when its knots are at least 1e-6 apart *)
  Theorem forced_knot_remove_interpolates_all ns :
    c_knot_remove c ns None = Ok c' -> UnionProofs.separated (kvec (ckv c')) ->
    concl (fun x => In x (kvec (ckv c'))).
  Proof using All.
    intros H Sep. pose proof (forced_remove_wf c ns None c' Wo H) as Wn.
    destruct (forced_knot_remove_interpolates c ns c' P d HW HP Wo HPl HPd H Hdeg) as (P' & A1 & A2 & A3 & A4 & A5).
    exists P'. repeat split; try assumption. intros x Hx.
    apply (interp_at_equal_node _ _ _ _ _ _ _ (kknots (ckv c')) x A5).
    exact (UnionProofs.kknots_cover (ckv c') x Wn Sep Hx).
  Qed.

  Theorem forced_degree_decrease_interpolates_start t :
    c_degree_decrease c t None = Ok c' -> concl (fun x => x == first_q (kvec (ckv c'))).
  Proof using All.
    intro H. pose proof (forced_decrease_wf c t None c' Wo H) as Wn.
    destruct (forced_degree_decrease_interpolates c t c' P d HW HP Wo HPl HPd H Hdeg) as (P' & A1 & A2 & A3 & A4 & A5).
    exists P'. repeat split; try assumption. intros x Hx.
    apply (interp_at_equal_node _ _ _ _ _ _ _ (kknots (ckv c')) x A5).
    destruct (first_knot_represented (ckv c') Wn) as (y & Hy & E).
    exists y. split; [exact Hy|]. rewrite Hx. exact E.
  Qed.

  Theorem forced_degree_decrease_interpolates_all t :
    c_degree_decrease c t None = Ok c' -> UnionProofs.separated (kvec (ckv c')) ->
    concl (fun x => In x (kvec (ckv c'))).
  Proof using All.
    intros H Sep. pose proof (forced_decrease_wf c t None c' Wo H) as Wn.
    destruct (forced_degree_decrease_interpolates c t c' P d HW HP Wo HPl HPd H Hdeg) as (P' & A1 & A2 & A3 & A4 & A5).
    exists P'. repeat split; try assumption. intros x Hx.
    apply (interp_at_equal_node _ _ _ _ _ _ _ (kknots (ckv c')) x A5).
    exact (UnionProofs.kknots_cover (ckv c') x Wn Sep Hx).
  Qed.
End AtKnotValues.

(* ------------------------------------------------------------------ *)
(* Examples (vm_compute)                                                *)
(* ------------------------------------------------------------------ *)
Ltac vmr := vm_compute; reflexivity.

(* a plane cubic with two interior knots; the knot 1/3 is removed with tolerance None *)
Definition fx_k : kv := mkkv [0; 0; 0; 0; 1 # 3; 2 # 3; 1; 1; 1; 1] 3.
Definition fx_P : list pt := [[0; 0]; [1; 2]; [3; 1]; [4; -1]; [2; 2]; [5; 0]].
Definition fx_c : curve := mkcurve fx_k (Some fx_P) None.
Definition fx_c' : curve := unwrap fx_c (c_knot_remove fx_c [1 # 3] None).
Definition points_of (c : curve) : list pt := match cP c with Some P => P | None => [] end.
Definition fx_P' : list pt := points_of fx_c'.

Example fx_removed : c_knot_remove fx_c [1 # 3] None = Ok fx_c'
  /\ kvec (ckv fx_c') = [0; 0; 0; 0; 2 # 3; 1; 1; 1; 1] /\ kdeg (ckv fx_c') = 3%nat
  /\ kknots (ckv fx_c') = [0; 2 # 3; 1].
Proof. repeat apply conj; vmr. Qed.

(* the removal is a real approximation: it is refused under a small tolerance, and the value at the removed
   knot changes ... *)
Example fx_lossy :
  c_knot_remove fx_c [1 # 3] (Some (1 # 1000000)) = Err ValueError
  /\ ql_eqb (BSplineExec.curve_x (kvec (ckv fx_c')) 3 2 fx_P' (1 # 3))
            (BSplineExec.curve_x (kvec fx_k) 3 2 fx_P (1 # 3)) = false.
Proof. repeat apply conj; vmr. Qed.

(* ... but the values at the remaining knots 0, 2/3, 1 agree (executable specification) *)
Example fx_values_agree :
  forallb (fun z => ql_eqb (BSplineExec.curve_x (kvec (ckv fx_c')) 3 2 fx_P' z)
                           (BSplineExec.curve_x (kvec fx_k) 3 2 fx_P z)) [0; 2 # 3; 1] = true.
Proof. vmr. Qed.

(* the hypotheses of N1 are satisfiable: the theorem instantiated on the example *)
Example fx_N1_instance :
  exists P', cP fx_c' = Some P' /\ cW fx_c' = None /\ length P' = knpts (ckv fx_c') /\
    Forall (fun q : pt => length q = 2%nat) P' /\
    forall z, In z (kknots (ckv fx_c')) ->
      Forall2 Qeq (curve_spec (kvec (ckv fx_c')) (kdeg (ckv fx_c')) 2 P' z)
                  (curve_spec (kvec (ckv fx_c)) (kdeg (ckv fx_c)) 2 fx_P z).
Proof.
  apply (forced_knot_remove_interpolates fx_c [1 # 3] fx_c' fx_P 2).
  - reflexivity.
  - reflexivity.
  - vmr.
  - reflexivity.
  - repeat constructor.
  - vmr.
  - vm_compute. lia.
Qed.

(* forced degree reduction of a cubic with a double interior knot: values at the knots of the quadratic agree,
   the reduction is refused under a small tolerance *)
Definition fx_k2 : kv := mkkv [0; 0; 0; 0; 1 # 2; 1 # 2; 1; 1; 1; 1] 3.
Definition fx_c2 : curve := mkcurve fx_k2 (Some fx_P) None.
Definition fx_d : curve := unwrap fx_c2 (c_degree_decrease fx_c2 1 None).
Definition fx_Pd : list pt := points_of fx_d.
Example fx_decrease : c_degree_decrease fx_c2 1 None = Ok fx_d
  /\ kvec (ckv fx_d) = [0; 0; 0; 1 # 2; 1; 1; 1] /\ kdeg (ckv fx_d) = 2%nat
  /\ kknots (ckv fx_d) = [0; 1 # 2; 1]
  /\ forallb (fun z => ql_eqb (BSplineExec.curve_x (kvec (ckv fx_d)) 2 2 fx_Pd z)
                              (BSplineExec.curve_x (kvec fx_k2) 3 2 fx_P z)) [0; 1 # 2; 1] = true
  /\ ql_eqb (BSplineExec.curve_x (kvec (ckv fx_d)) 2 2 fx_Pd (1 # 4))
            (BSplineExec.curve_x (kvec fx_k2) 3 2 fx_P (1 # 4)) = false
  /\ c_degree_decrease fx_c2 1 (Some (1 # 1000000)) = Err ValueError.
Proof. repeat apply conj; vmr. Qed.

(* insertion requests naming an end knot *)
Definition fx_b : curve := mkcurve (mkkv [0; 0; 0; 1; 1; 1] 2) (Some [[0]; [1]; [3]]) None.
Example fx_insert_end_refused :
  c_knot_insert fx_b [0] = Err ValueError /\ kinsert (ckv fx_b) [0] = Err ValueError.
Proof. repeat apply conj; vmr. Qed.

(* both ends named once: kinsert answers the degree-3 vector, the curve operation refuses in apply *)
Example fx_insert_both_ends :
  kinsert (ckv fx_b) [0; 1] = Ok (mkkv [0; 0; 0; 0; 1; 1; 1; 1] 3)
  /\ c_knot_insert fx_b [0; 1] = Err ValueError
  /\ c_knot_insert fx_b [0; 1 # 2; 1] = Err ValueError.
Proof. repeat apply conj; vmr. Qed.

(* degree 0 is no exception *)
Example fx_insert_end_degree0 :
  c_knot_insert (mkcurve (mkkv [0; 1 # 2; 1] 0) (Some [[0]; [-2]]) None) [0] = Err ValueError
  /\ c_knot_insert (mkcurve (mkkv [0; 1 # 2; 1] 0) (Some [[0]; [-2]]) None) [0; 1] = Err ValueError.
Proof. repeat apply conj; vmr. Qed.

(* the exception: a curve without control points and weights is rebound to the degree-3 vector *)
Example fx_insert_bare :
  c_knot_insert (mkcurve (mkkv [0; 0; 0; 1; 1; 1] 2) None None) [0; 1]
  = Ok (mkcurve (mkkv [0; 0; 0; 0; 1; 1; 1; 1] 3) None None).
Proof. vmr. Qed.

(* the theorem instantiated *)
Example fx_N4_instance : c_knot_insert fx_b [0; 1 # 2; 1] = Err ValueError.
Proof.
  apply c_knot_insert_end_knot_refused.
  - vmr.
  - left. discriminate.
  - vmr.
  - exists 0. split; [left; reflexivity|]. left. vmr.
Qed.

Print Assumptions s2s_interpolates_spec1.
Print Assumptions forced_update_interpolates.
Print Assumptions forced_knot_remove_interpolates.
Print Assumptions forced_degree_decrease_interpolates.
Print Assumptions forced_knot_remove_succeeds.
Print Assumptions forced_knot_remove_interpolates_start.
Print Assumptions forced_knot_remove_interpolates_all.
Print Assumptions forced_degree_decrease_interpolates_start.
Print Assumptions forced_degree_decrease_interpolates_all.
Print Assumptions kinsert_degree.
Print Assumptions kinsert_unbalanced_ends_refused.
Print Assumptions kinsert_end_knot.
Print Assumptions knot_insert_length.
Print Assumptions knot_insert_err.
Print Assumptions c_knot_insert_end_knot_refused.
Print Assumptions c_knot_insert_end_knot_bare.
