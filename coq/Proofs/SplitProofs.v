(* C07: splitting a B-spline curve restricts it exactly.
   S1  sequence level: B-splines only see their own knots (index shift of the span-local recursion):
       Nloc_window / Nloc_shift / N_window / N_shift
   S2  list level: a clamped sub-vector [piece] of a well-formed vector [big] carries the same basis
       functions on its interval; the curve of the sliced control values is the restriction:
       abstract form Nspec_restrict / Nspec_outside / curve_restrict (Section Restrict),
       concrete form piece_wf / piece_decomp / split_basis / split_basis_outside / split_curve_spec /
       split_restrict_piece_of.  The sub-list is characterised up to == (ksplit writes the end knots
       with the representative of the cut point, which need not be the one stored in big).
   S3  model level: ksplit_structure, ksplit_total, ksplit_refuses, split_curve_restrict (main),
       split_curve_pos, knot_insert_total, split_curve_total, split_curve_refuses.
       split_curve_restrict needs [exact_mult]: split_curve reads the multiplicity of a node with the
       tolerance tol_mult; Example split_needs_exact_mult shows the statement is false without it.
       The right end point u = kumax piece is included for the last piece only (at an inner cut the
       refined curve of an arbitrary control polygon is the right limit, the piece has the left one).
   S4  curves: c_split_spline, c_split_rational (positive weights). *)
From Coq Require Import QArith Qabs List Lia Lqa Arith Bool Setoid Morphisms.
From Coq Require Import Sorting.Permutation.
From NurbsV Require Import Base.QList Base.Res Spec.BSpline Spec.KnotSpec Model.KV Model.Ops.
From NurbsV Require Import Proofs.Local Proofs.BasisTheory Proofs.KVProofs Proofs.KVMachine
  Proofs.EvalProofs Proofs.InsertList Proofs.InsertCompose Proofs.GenProofs Proofs.UnionProofs.
Import ListNotations.
Open Scope Q_scope.

(* ================================================================== *)
(* S1. sequence level                                                  *)
(* ================================================================== *)

(* The span-local recursion of degree j at index i reads the knots i .. i+j+1 only;
   if V agrees there with U shifted by k, the values agree (for every u). *)
Lemma Nloc_window (U V : nat -> Q) (k s : nat) (u : Q) : forall j i,
  (forall m, (i <= m <= i + j + 1)%nat -> V m == U (m + k)%nat) ->
  Nloc V s j i u == Nloc U (s + k) j (i + k) u.
Proof.
  induction j as [|j IH]; intros i H; cbn [Nloc].
  - destruct (Nat.eqb_spec i s), (Nat.eqb_spec (i + k) (s + k)); try lia; reflexivity.
  - rewrite (IH i) by (intros m Hm; apply H; lia).
    rewrite (IH (S i)) by (intros m Hm; apply H; lia).
    rewrite (H i), (H (i + S j)%nat), (H (i + S j + 1)%nat), (H (i + 1)%nat) by lia.
    replace (i + S j + k)%nat with (i + k + S j)%nat by lia.
    replace (i + S j + 1 + k)%nat with (i + k + S j + 1)%nat by lia.
    replace (i + 1 + k)%nat with (i + k + 1)%nat by lia.
    replace (S i + k)%nat with (S (i + k)) by lia.
    reflexivity.
Qed.

(* S1 as stated: V m := U (m + k) *)
Theorem Nloc_shift (U : nat -> Q) (k s : nat) (u : Q) j i :
  Nloc (fun m => U (m + k)%nat) s j i u == Nloc U (s + k) j (i + k) u.
Proof. apply Nloc_window. intros m _. reflexivity. Qed.

(* the same for the specification N, away from the closing points of both sequences *)
Theorem N_window (U V : nat -> Q) (n n' k s : nat) (u : Q) :
  mono U -> mono V ->
  V s <= u -> u < V (S s) -> U (s + k)%nat <= u -> u < U (S (s + k)) ->
  ~ u == U n -> ~ u == V n' ->
  forall j i, (forall m, (i <= m <= i + j + 1)%nat -> V m == U (m + k)%nat) ->
  N V n' j i u == N U n j (i + k) u.
Proof.
  intros HU HV A1 A2 B1 B2 C1 C2 j i H.
  rewrite (N_local V n' s u HV A1 A2 C2).
  rewrite (N_local U n (s + k) u HU B1 B2 C1).
  apply Nloc_window. exact H.
Qed.

Theorem N_shift (U : nat -> Q) (n n' k s : nat) (u : Q) :
  mono U ->
  U (s + k)%nat <= u -> u < U (S s + k)%nat ->
  ~ u == U n -> ~ u == U (n' + k)%nat ->
  forall j i, N (fun m => U (m + k)%nat) n' j i u == N U n j (i + k) u.
Proof.
  intros HU A1 A2 C1 C2 j i.
  apply (N_window U (fun m => U (m + k)%nat) n n' k s u); try assumption.
  - intro m. apply (HU (m + k)%nat).
  - intros m _. reflexivity.
Qed.

(* ================================================================== *)
(* S2. list level, abstract form                                       *)
(* ================================================================== *)

Lemma nth_firstn_skipn (Qv : list Q) n l i : (i < n)%nat ->
  nth i (firstn n (skipn l Qv)) 0 = nth (l + i) Qv 0.
Proof.
  intro Hi. revert Qv. induction l as [|l IH]; intro Qv.
  - cbn [skipn Nat.add]. revert i Hi Qv. induction n as [|n IHn]; intros i Hi Qv; [lia|].
    destruct Qv as [|x Qv]; [destruct i; reflexivity|].
    destruct i as [|i]; [reflexivity|]. cbn [firstn nth]. apply IHn. lia.
  - destruct Qv as [|x Qv].
    + cbn [skipn]. rewrite firstn_nil. destruct i, l; reflexivity.
    + cbn [skipn Nat.add nth]. apply IH.
Qed.

Lemma qsum_seq_split (f : nat -> Q) a b c :
  qsum (map f (seq 0 (a + b + c))) ==
  qsum (map f (seq 0 a)) + qsum (map f (seq a b)) + qsum (map f (seq (a + b) c)).
Proof.
  rewrite !seq_app, !map_app, !qsum_app. cbn [Nat.add]. ring.
Qed.

Lemma qsum_seq_offset (f : nat -> Q) a n :
  qsum (map f (seq a n)) == qsum (map (fun i => f (a + i)%nat) (seq 0 n)).
Proof.
  revert a. induction n as [|n IH]; intro a; [reflexivity|].
  cbn [seq map qsum]. rewrite (IH (S a)). rewrite Nat.add_0_r.
  rewrite <- (seq_shift n 0), map_map.
  rewrite (qsum_map_ext (fun i => f (S a + i)%nat) (fun x => f (a + S x)%nat)).
  - reflexivity.
  - intros i _. replace (S a + i)%nat with (a + S i)%nat by lia. reflexivity.
Qed.

Section Restrict.
Variables big piece : list Q.
Variables p lower : nat.
Hypothesis Wb : WF big p.
Hypothesis Wp : WF piece p.
Hypothesis Hlen : (lower + length piece <= length big)%nat.
Hypothesis Hsub : forall m, (m < length piece)%nat -> nthq piece m == nthq big (lower + m).

Let Lb : (2 * p + 2 <= length big)%nat := sf_len big p Wb.
Let Lp : (2 * p + 2 <= length piece)%nat := sf_len piece p Wp.

Lemma restrict_npts : (lower + npts_of piece p <= npts_of big p)%nat.
Proof. unfold npts_of. lia. Qed.

(* the interval of the piece lies inside the interval of the big vector *)
Lemma restrict_umin : umin_of big p <= umin_of piece p.
Proof.
  unfold umin_of. rewrite (Hsub p) by lia.
  apply (wf_mono_le _ _ Wb). lia.
Qed.

Lemma restrict_umax : umax_of piece p <= umax_of big p.
Proof.
  unfold umax_of. rewrite (Hsub (length piece - p - 1)) by lia.
  apply (wf_mono_le _ _ Wb). lia.
Qed.

Lemma restrict_umax_last : (lower + length piece = length big)%nat ->
  umax_of piece p == umax_of big p.
Proof.
  intro E. unfold umax_of. rewrite (Hsub (length piece - p - 1)) by lia.
  replace (lower + (length piece - p - 1))%nat with (length big - p - 1)%nat by lia. reflexivity.
Qed.

Section AtU.
Variable u : Q.
Hypothesis Hr : in_range piece p u = true.
(* either u is not the right end of the piece, or the piece is the tail of the big vector *)
Hypothesis Hend : u < umax_of piece p \/ (lower + length piece = length big)%nat.

Lemma restrict_in_range : in_range big p u = true.
Proof.
  destruct (in_range_bounds _ _ _ Hr) as [A B].
  pose proof restrict_umin. pose proof restrict_umax.
  unfold in_range. apply andb_true_iff. split; apply Qleb_le; lra.
Qed.

Lemma restrict_span s : span_ok piece p u s = true -> span_ok big p u (lower + s) = true.
Proof.
  intro Hs.
  destruct (sf_all piece p Wp u s Hr Hs) as (Hps & Hsn & Hlt & Hu1 & Hu2 & _).
  unfold npts_of in Hsn.
  pose proof restrict_umax as HM.
  destruct (in_range_bounds _ _ _ Hr) as [_ Bu].
  unfold span_ok at 1.
  destruct (Qeqb_spec u (umax_of big p)) as [E|E].
  - (* u is the end of the big vector: the piece is its tail *)
    assert (Eu : u == umax_of piece p) by lra.
    destruct Hend as [C|C]; [lra|].
    pose proof (span_ok_umax piece p u s Eu Hs) as Es.
    apply Nat.eqb_eq. lia.
  - assert (Hne : ~ u == umax_of piece p).
    { intro Eu. destruct Hend as [C|C]; [lra|].
      apply E. rewrite Eu. apply restrict_umax_last. exact C. }
    destruct (span_ok_interior piece p u s Hne Hs) as [A B].
    rewrite (Hsub s) in A by lia. rewrite (Hsub (S s)) in B by lia.
    replace (lower + S s)%nat with (S (lower + s)) in B by lia.
    apply andb_true_iff. split; [apply Qleb_le, A | apply Qltb_lt, B].
Qed.

(* S2, basis functions: the piece's functions are the big vector's, shifted by [lower] *)
Theorem Nspec_restrict j i : (j <= p)%nat -> (i < npts_of piece p)%nat ->
  Nspec piece p j i u == Nspec big p j (lower + i) u.
Proof.
  intros Hj Hi. unfold npts_of in Hi.
  destruct (span_exists piece p u Wp Hr) as [s Hs].
  destruct (sf_all piece p Wp u s Hr Hs) as (_ & _ & _ & _ & _ & HN1).
  destruct (sf_all big p Wb u (lower + s) restrict_in_range (restrict_span s Hs))
    as (_ & _ & _ & _ & _ & HN2).
  rewrite HN1, HN2.
  replace (lower + s)%nat with (s + lower)%nat by lia.
  replace (lower + i)%nat with (i + lower)%nat by lia.
  apply Nloc_window. intros m Hm. rewrite (Hsub m) by lia.
  replace (lower + m)%nat with (m + lower)%nat by lia. reflexivity.
Qed.

(* S2, support: the other functions of the big vector vanish on the piece's interval *)
Theorem Nspec_outside m : (m < lower \/ lower + npts_of piece p <= m)%nat ->
  Nspec big p p m u == 0.
Proof.
  intro Hm.
  destruct (span_exists piece p u Wp Hr) as [s Hs].
  destruct (sf_all piece p Wp u s Hr Hs) as (Hps & Hsn & _).
  destruct (sf_all big p Wb u (lower + s) restrict_in_range (restrict_span s Hs))
    as (_ & _ & _ & _ & _ & HN2).
  rewrite HN2. apply Nloc_zero. lia.
Qed.

(* S2, curves: slicing the control values restricts the curve *)
Theorem curve_restrict (Qv : list Q) :
  curve_spec1 piece p (firstn (npts_of piece p) (skipn lower Qv)) u == curve_spec1 big p Qv u.
Proof.
  unfold curve_spec1.
  pose proof restrict_npts as Hn.
  set (np := npts_of piece p) in *.
  replace (npts_of big p) with (lower + np + (npts_of big p - lower - np))%nat by lia.
  rewrite qsum_seq_split.
  rewrite (qsum_map_zero (fun i => Nspec big p p i u * nth i Qv 0) (seq 0 lower)).
  2:{ intros i Hi. apply in_seq in Hi. rewrite (Nspec_outside i) by lia. ring. }
  rewrite (qsum_map_zero (fun i => Nspec big p p i u * nth i Qv 0) (seq (lower + np) _)).
  2:{ intros i Hi. apply in_seq in Hi. rewrite (Nspec_outside i) by (fold np; lia). ring. }
  rewrite (qsum_seq_offset _ lower np).
  rewrite (qsum_map_ext _ (fun i => Nspec big p p (lower + i) u * nth (lower + i) Qv 0)).
  - ring.
  - intros i Hi. apply in_seq in Hi.
    rewrite nth_firstn_skipn by lia. rewrite Nspec_restrict by (fold np; lia). reflexivity.
Qed.
End AtU.
End Restrict.

(* ================================================================== *)
(* S2. list level, concrete form: the piece between two full knots     *)
(* ================================================================== *)

Lemma sorted_filter (f : Q -> bool) : forall l, sorted_b l = true -> sorted_b (filter f l) = true.
Proof.
  induction l as [|x l IH]; intro H; [reflexivity|].
  apply sorted_cons_iff in H. destruct H as [M S]. cbn [filter].
  destruct (f x); [|apply IH, S].
  apply sorted_cons_iff. split; [|apply IH, S].
  intros y Hy. apply filter_In in Hy. apply M, Hy.
Qed.

Lemma count_q_filter (f : Q -> bool) y : (forall x x', x == x' -> f x = f x') ->
  forall l, count_q y (filter f l) = if f y then count_q y l else 0%nat.
Proof.
  intro Pf. induction l as [|x l IH]; cbn [filter].
  - rewrite count_q_nil. destruct (f y); reflexivity.
  - destruct (f x) eqn:Fx; rewrite ?count_q_cons, IH.
    + destruct (Qeqb_spec y x) as [E|E]; destruct (f y) eqn:Fy; try reflexivity.
      rewrite (Pf _ _ E) in Fy. congruence.
    + destruct (Qeqb_spec y x) as [E|E]; destruct (f y) eqn:Fy; try reflexivity.
      rewrite (Pf _ _ E) in Fy. congruence.
Qed.

Lemma filter_none {A} (f : A -> bool) l : (forall x, In x l -> f x = false) -> filter f l = [].
Proof.
  induction l as [|x l IH]; intro H; [reflexivity|]. cbn [filter].
  rewrite (H x) by (left; reflexivity). apply IH. intros y Hy. apply H. right. exact Hy.
Qed.

Definition mid (a b x : Q) : bool := Qltb a x && Qltb x b.
Definition below (a x : Q) : bool := Qltb x a.
Definition above (b x : Q) : bool := Qltb b x.

Lemma mid_proper a b x x' : x == x' -> mid a b x = mid a b x'.
Proof. intro E. unfold mid. rewrite E. reflexivity. Qed.
Lemma below_proper a x x' : x == x' -> below a x = below a x'.
Proof. intro E. unfold below. rewrite E. reflexivity. Qed.
Lemma above_proper b x x' : x == x' -> above b x = above b x'.
Proof. intro E. unfold above. rewrite E. reflexivity. Qed.

Definition piece_count (big : list Q) (p : nat) (a b y : Q) : nat :=
  ((if Qeqb y a then p + 1 else 0) + (if mid a b y then count_q y big else 0)
   + (if Qeqb y b then p + 1 else 0))%nat.

(* v is, up to ==, the clamped vector on [a, b] cut out of big *)
Definition is_piece (big : list Q) (p : nat) (a b : Q) (v : list Q) : Prop :=
  sorted_b v = true /\ forall y, count_q y v = piece_count big p a b y.

Definition piece_of (big : list Q) (p : nat) (a b : Q) : list Q :=
  repeat a (p + 1) ++ filter (mid a b) big ++ repeat b (p + 1).

Definition lower_of (big : list Q) (a : Q) : nat := length (filter (below a) big).

Ltac bcases :=
  repeat match goal with
  | |- context [Qleb ?a ?b] => destruct (Qleb_spec a b)
  | |- context [Qltb ?a ?b] => destruct (Qltb_spec a b)
  | |- context [Qeqb ?a ?b] => destruct (Qeqb_spec a b)
  end; cbn [andb orb negb].

Lemma piece_of_is_piece big p a b : sorted_b big = true -> a < b ->
  is_piece big p a b (piece_of big p a b).
Proof.
  intros Sb Hab. unfold is_piece, piece_of. split.
  - apply sorted_b_app; [apply sorted_b_repeat | |].
    + apply sorted_b_app; [apply sorted_filter, Sb | apply sorted_b_repeat |].
      intros x y Hx Hy. apply filter_In in Hx. destruct Hx as [_ Hx].
      apply repeat_spec in Hy. subst y. unfold mid in Hx. apply andb_true_iff in Hx.
      destruct Hx as [_ Hx]. apply Qltb_lt in Hx. lra.
    + intros x y Hx Hy. apply repeat_spec in Hx. subst x.
      apply in_app_or in Hy. destruct Hy as [Hy|Hy].
      * apply filter_In in Hy. destruct Hy as [_ Hy]. unfold mid in Hy.
        apply andb_true_iff in Hy. destruct Hy as [Hy _]. apply Qltb_lt in Hy. lra.
      * apply repeat_spec in Hy. subst y. lra.
  - intro y. rewrite !count_q_app, !count_q_repeat.
    rewrite (count_q_filter (mid a b) y (mid_proper a b)). unfold piece_count. lia.
Qed.

Section Piece.
Variable big : list Q.
Variable p : nat.
Variables a b : Q.
Variable v : list Q.
Hypothesis Wb : WF big p.
Hypothesis Hab : a < b.
Hypothesis Hv : is_piece big p a b v.

Let Sv : sorted_b v = true := proj1 Hv.
Let Cv : forall y, count_q y v = piece_count big p a b y := proj2 Hv.

Lemma piece_count_a : count_q a v = (p + 1)%nat.
Proof. rewrite Cv. unfold piece_count, mid. bcases; try lia; exfalso; lra. Qed.

Lemma piece_count_b : count_q b v = (p + 1)%nat.
Proof. rewrite Cv. unfold piece_count, mid. bcases; try lia; exfalso; lra. Qed.

Lemma piece_in_bounds x : In x v -> a <= x /\ x <= b.
Proof.
  intro Hx. pose proof (in_count_pos x x v Hx (Qeq_refl x)) as P.
  rewrite Cv in P. unfold piece_count, mid in P. revert P. bcases; intro P; try lra; lia.
Qed.

Lemma piece_count_le y : (count_q y v <= p + 1)%nat.
Proof.
  rewrite Cv. unfold piece_count, mid. pose proof (wf_count_le big p Wb y).
  bcases; try lia; exfalso; lra.
Qed.

Lemma piece_len : (2 * p + 2 <= length v)%nat.
Proof.
  assert (N : ~ a == b) by lra.
  pose proof (count_two_le a b N v). rewrite piece_count_a, piece_count_b in H. lia.
Qed.

Lemma piece_first : first_q v == a.
Proof.
  pose proof piece_len as L.
  assert (Hin : In (first_q v) v) by (apply first_q_in; lia).
  destruct (piece_in_bounds _ Hin) as [A _].
  destruct (count_pos_in a v ltac:(rewrite piece_count_a; lia)) as (z & Hz & Ez).
  pose proof (sorted_first_le v z Sv Hz). lra.
Qed.

Lemma piece_last : last_q v == b.
Proof.
  pose proof piece_len as L.
  assert (Hin : In (last_q v) v) by (apply last_q_in; lia).
  destruct (piece_in_bounds _ Hin) as [_ B].
  destruct (count_pos_in b v ltac:(rewrite piece_count_b; lia)) as (z & Hz & Ez).
  pose proof (UnionProofs.sorted_le_last v z Sv Hz). lra.
Qed.

Theorem piece_wf : WF v p.
Proof.
  apply wf_intro.
  - exact Sv.
  - exact piece_len.
  - rewrite piece_first. exact piece_count_a.
  - rewrite piece_last. exact piece_count_b.
  - intros y _. apply piece_count_le.
Qed.

Lemma piece_umin : umin_of v p == a.
Proof. rewrite (wf_umin_first v p piece_wf). exact piece_first. Qed.

Lemma piece_umax : umax_of v p == b.
Proof. rewrite (wf_umax_last v p piece_wf). exact piece_last. Qed.

(* from here on: a and b are full knots of big *)
Hypothesis Ca : count_q a big = (p + 1)%nat.
Hypothesis Cb : count_q b big = (p + 1)%nat.

(* the big vector is (entries below a) ++ piece ++ (entries above b), up to == *)
Theorem piece_decomp : Forall2 Qeq big (filter (below a) big ++ v ++ filter (above b) big).
Proof.
  destruct (wf_parts _ _ Wb) as (Sb & _).
  apply sorted_same_counts.
  - exact Sb.
  - apply sorted_b_app; [apply sorted_filter, Sb | |].
    + apply sorted_b_app; [exact Sv | apply sorted_filter, Sb |].
      intros x y Hx Hy. destruct (piece_in_bounds x Hx) as [_ B].
      apply filter_In in Hy. destruct Hy as [_ Hy]. unfold above in Hy. apply Qltb_lt in Hy. lra.
    + intros x y Hx Hy. apply filter_In in Hx. destruct Hx as [_ Hx]. unfold below in Hx.
      apply Qltb_lt in Hx. apply in_app_or in Hy. destruct Hy as [Hy|Hy].
      * destruct (piece_in_bounds y Hy) as [A _]. lra.
      * apply filter_In in Hy. destruct Hy as [_ Hy]. unfold above in Hy. apply Qltb_lt in Hy. lra.
  - intro y. rewrite !count_q_app.
    rewrite (count_q_filter (below a) y (below_proper a)).
    rewrite (count_q_filter (above b) y (above_proper b)).
    rewrite Cv. unfold piece_count, mid, below, above.
    assert (Ya : y == a -> count_q y big = (p + 1)%nat) by (intro E; rewrite E; exact Ca).
    assert (Yb : y == b -> count_q y big = (p + 1)%nat) by (intro E; rewrite E; exact Cb).
    destruct (Qeqb_spec y a) as [Ea|Ea]; [rewrite ?(Ya Ea)|];
      (destruct (Qeqb_spec y b) as [Eb|Eb]; [rewrite ?(Yb Eb)|]);
      bcases; try lia; exfalso; lra.
Qed.

Lemma piece_lower_len :
  (lower_of big a + length v + length (filter (above b) big) = length big)%nat.
Proof.
  pose proof (Forall2_Qeq_length _ _ piece_decomp) as E.
  rewrite !app_length in E. unfold lower_of. lia.
Qed.

Lemma piece_sub m : (m < length v)%nat -> nthq v m == nthq big (lower_of big a + m).
Proof.
  intro Hm. rewrite (Forall2_Qeq_nthq _ _ piece_decomp (lower_of big a + m)).
  pose proof piece_lower_len as L.
  set (R := filter (above b) big) in *. unfold lower_of in *. set (Lo := filter (below a) big) in *.
  rewrite (nthq_in_range (Lo ++ v ++ R) _ 0) by (rewrite !app_length; lia).
  rewrite app_nth2 by lia. replace (length Lo + m - length Lo)%nat with m by lia.
  rewrite app_nth1 by lia. rewrite (nthq_in_range v m 0 Hm). reflexivity.
Qed.

Lemma piece_tail : b == last_q big -> (lower_of big a + length v = length big)%nat.
Proof.
  intro E. pose proof piece_lower_len as L.
  rewrite (filter_none (above b) big) in L; [cbn [length] in L; lia|].
  intros x Hx. destruct (wf_parts _ _ Wb) as (Sb & _).
  pose proof (UnionProofs.sorted_le_last big x Sb Hx). unfold above. apply Qltb_ge. lra.
Qed.

(* the span of a in big ends the block of a's: the library's  lower = span - degree  *)
Lemma piece_lower_span s : span_ok big p a s = true -> (s - p)%nat = lower_of big a.
Proof.
  intro Hs. pose proof piece_wf as Wv. pose proof piece_len as Lv.
  pose proof piece_lower_len as LL.
  assert (Hne : ~ a == umax_of big p).
  { intro E. pose proof (piece_sub (length v - p - 1)%nat ltac:(lia)) as K.
    fold (umax_of v p) in K. rewrite piece_umax in K.
    assert (nthq big (lower_of big a + (length v - p - 1)) <= umax_of big p).
    { unfold umax_of. apply (wf_mono_le _ _ Wb). lia. }
    lra. }
  destruct (span_ok_interior big p a s Hne Hs) as [A B].
  assert (E : s = (lower_of big a + p)%nat).
  { apply (span_unique big a s (lower_of big a + p)%nat (wf_mono _ _ Wb)); [split; assumption|].
    pose proof (piece_sub p ltac:(lia)) as K1. pose proof (piece_sub (S p) ltac:(lia)) as K2.
    pose proof (wf_interior_strict_lo v p Wv) as St.
    fold (umin_of v p) in K1, St. rewrite piece_umin in K1, St.
    replace (lower_of big a + S p)%nat with (S (lower_of big a + p)) in K2 by lia.
    split; lra. }
  lia.
Qed.

(* S2: restriction of the basis and of the curve to [a, b) -- and to [a, b] for the last piece *)
Section PieceAtU.
Variable u : Q.
Hypothesis Hu1 : a <= u.
Hypothesis Hu2 : u < b \/ (u <= b /\ b == last_q big).

Lemma piece_u_range : in_range v p u = true.
Proof.
  unfold in_range. rewrite piece_umin, piece_umax.
  apply andb_true_iff. split; apply Qleb_le; [exact Hu1 | destruct Hu2; lra].
Qed.

Lemma piece_u_end : u < umax_of v p \/ (lower_of big a + length v = length big)%nat.
Proof.
  destruct Hu2 as [C|[_ C]]; [left; rewrite piece_umax; exact C | right; apply piece_tail, C].
Qed.

Lemma piece_len_le : (lower_of big a + length v <= length big)%nat.
Proof. pose proof piece_lower_len. lia. Qed.

Theorem split_basis i : (i < npts_of v p)%nat ->
  Nspec v p p i u == Nspec big p p (lower_of big a + i) u.
Proof.
  intro Hi.
  apply (Nspec_restrict big v p (lower_of big a) Wb piece_wf piece_len_le piece_sub u
           piece_u_range piece_u_end p i (le_n p) Hi).
Qed.

Theorem split_basis_outside m :
  (m < lower_of big a \/ lower_of big a + npts_of v p <= m)%nat -> Nspec big p p m u == 0.
Proof.
  apply (Nspec_outside big v p (lower_of big a) Wb piece_wf piece_len_le piece_sub u
           piece_u_range piece_u_end).
Qed.

Theorem split_curve_spec (Qv : list Q) :
  curve_spec1 v p (firstn (npts_of v p) (skipn (lower_of big a) Qv)) u == curve_spec1 big p Qv u.
Proof.
  apply (curve_restrict big v p (lower_of big a) Wb piece_wf piece_len_le piece_sub u
           piece_u_range piece_u_end).
Qed.

Lemma piece_big_range : in_range big p u = true.
Proof.
  apply (restrict_in_range big v p (lower_of big a) Wb piece_wf piece_len_le piece_sub u
           piece_u_range).
Qed.
End PieceAtU.
End Piece.

(* lower_of big a is the index of the first occurrence of a in big *)
Theorem lower_of_first big p a b v : WF big p -> a < b ->
  count_q a big = (p + 1)%nat -> count_q b big = (p + 1)%nat -> is_piece big p a b v ->
  nthq big (lower_of big a) == a /\ forall i, (i < lower_of big a)%nat -> nthq big i < a.
Proof.
  intros W Hab Ca Cb IP. split.
  - pose proof (piece_len big p a b v Hab IP) as L.
    replace (lower_of big a) with (lower_of big a + 0)%nat at 1 by lia.
    rewrite <- (piece_sub big p a b v W Hab IP Ca Cb 0%nat ltac:(lia)).
    rewrite <- (piece_first big p a b v Hab IP). unfold first_q. rewrite (nthq_in_range v 0 0) by lia.
    reflexivity.
  - intros i Hi. rewrite (Forall2_Qeq_nthq _ _ (piece_decomp big p a b v W Hab IP Ca Cb) i).
    unfold lower_of in Hi.
    rewrite (nthq_in_range _ i 0) by (rewrite app_length; lia).
    rewrite app_nth1 by exact Hi.
    pose proof (nth_In (filter (below a) big) 0 Hi) as K. apply filter_In in K.
    destruct K as [_ K]. unfold below in K. apply Qltb_lt, K.
Qed.

(* S2 as stated, for the vector that ksplit builds *)
Theorem split_restrict_piece_of big p a b : WF big p -> a < b ->
  count_q a big = (p + 1)%nat -> count_q b big = (p + 1)%nat ->
  let piece := piece_of big p a b in
  let lower := lower_of big a in
  WF piece p /\
  Forall2 Qeq big (filter (below a) big ++ piece ++ filter (above b) big) /\
  forall u, a <= u -> (u < b \/ (u <= b /\ b == last_q big)) ->
    (forall i, (i < npts_of piece p)%nat -> Nspec piece p p i u == Nspec big p p (lower + i) u) /\
    (forall m, (m < lower \/ lower + npts_of piece p <= m)%nat -> Nspec big p p m u == 0) /\
    (forall Qv, curve_spec1 piece p (firstn (npts_of piece p) (skipn lower Qv)) u
                == curve_spec1 big p Qv u).
Proof.
  intros W Hab Ca Cb piece lower. destruct (wf_parts _ _ W) as (Sb & _).
  pose proof (piece_of_is_piece big p a b Sb Hab) as IP. fold piece in IP.
  split; [exact (piece_wf big p a b piece W Hab IP)|].
  split; [exact (piece_decomp big p a b piece W Hab IP Ca Cb)|].
  intros u Hu1 Hu2. split; [|split].
  - exact (split_basis big p a b piece W Hab IP Ca Cb u Hu1 Hu2).
  - exact (split_basis_outside big p a b piece W Hab IP Ca Cb u Hu1 Hu2).
  - exact (split_curve_spec big p a b piece W Hab IP Ca Cb u Hu1 Hu2).
Qed.

(* ================================================================== *)
(* S3. model level: ksplit and split_curve                             *)
(* ================================================================== *)

(* ---------- A. generic plumbing ---------- *)
Lemma dedupq_eq : forall l, dedupq l = dedup_sorted l.
Proof. reflexivity. Qed.

Lemma mapM_nth {A B} (f : A -> res B) (da : A) (db : B) : forall l r, mapM f l = Ok r ->
  forall m, (m < length l)%nat -> f (nth m l da) = Ok (nth m r db).
Proof.
  induction l as [|a l IH]; intros r H m Hm; [cbn in Hm; lia|].
  cbn [mapM] in H. destruct (f a) as [b|] eqn:E; cbn [bind] in H; [|discriminate].
  destruct (mapM f l) as [bs|] eqn:E2; cbn [bind] in H; [|discriminate].
  inversion H; subst r. destruct m as [|m]; [exact E|].
  cbn [nth]. apply IH; [reflexivity | cbn [length] in Hm; lia].
Qed.

Lemma mapM_total {A B} (f : A -> res B) : forall l,
  (forall a, In a l -> exists b, f a = Ok b) -> exists r, mapM f l = Ok r.
Proof.
  induction l as [|a l IH]; intro H; [exists []; reflexivity|].
  destruct (H a (or_introl eq_refl)) as [b Eb].
  destruct IH as [r Er]; [intros a' Ha'; apply H; right; exact Ha'|].
  exists (b :: r). cbn [mapM]. rewrite Eb, Er. reflexivity.
Qed.

Lemma pairs_cons2 a b t : pairs (a :: b :: t) = (a, b) :: pairs (b :: t).
Proof. reflexivity. Qed.

Lemma pairs_length : forall l, length (pairs l) = (length l - 1)%nat.
Proof.
  induction l as [|a l IH]; [reflexivity|]. destruct l as [|b t]; [reflexivity|].
  rewrite pairs_cons2. cbn [length] in *. rewrite IH. lia.
Qed.

Lemma pairs_nth (d : Q) : forall l m, (S m < length l)%nat ->
  nth m (pairs l) (d, d) = (nth m l d, nth (S m) l d).
Proof.
  induction l as [|a l IH]; intros m Hm; [cbn in Hm; lia|].
  destruct l as [|b t]; [cbn in Hm; lia|].
  rewrite pairs_cons2. destruct m as [|m]; [reflexivity|].
  change (nth (S m) ((a, b) :: pairs (b :: t)) (d, d)) with (nth m (pairs (b :: t)) (d, d)).
  rewrite IH by (cbn [length] in *; lia). reflexivity.
Qed.

Lemma sorted_nodup_strict (d : Q) : forall l m, sorted_b l = true -> nodupq l ->
  (S m < length l)%nat -> nth m l d < nth (S m) l d.
Proof.
  induction l as [|a l IH]; intros m Hs N Hm; [cbn in Hm; lia|].
  destruct l as [|b t]; [cbn in Hm; lia|].
  destruct m as [|m].
  - cbn [nth]. rewrite sorted_b_cons2 in Hs. apply andb_true_iff in Hs. destruct Hs as [Hab _].
    apply Qleb_le in Hab. destruct (Qeq_dec a b) as [E|E].
    + exfalso. specialize (N a). rewrite !count_q_cons in N.
      assert (E1 : Qeqb a a = true) by (apply Qeqb_eq; reflexivity).
      assert (E2 : Qeqb a b = true) by (apply Qeqb_eq; exact E).
      rewrite E1, E2 in N. lia.
    + destruct (Qlt_le_dec a b) as [L|G]; [exact L|]. exfalso. apply E. lra.
  - change (nth (S m) (a :: b :: t) d) with (nth m (b :: t) d).
    change (nth (S (S m)) (a :: b :: t) d) with (nth (S m) (b :: t) d).
    apply IH; [exact (sorted_b_tail _ _ Hs) | exact (nodupq_tail _ _ N) | cbn [length] in *; lia].
Qed.

Lemma nodup_sorted_eq l1 l2 : sorted_b l1 = true -> sorted_b l2 = true -> nodupq l1 -> nodupq l2 ->
  (forall y, (0 < count_q y l1)%nat <-> (0 < count_q y l2)%nat) -> Forall2 Qeq l1 l2.
Proof.
  intros S1 S2 N1 N2 H. apply sorted_same_counts; try assumption.
  intro y. specialize (H y). specialize (N1 y). specialize (N2 y). lia.
Qed.

Lemma Forall2_Qeq_nth0 (l1 l2 : list Q) m : Forall2 Qeq l1 l2 -> nth m l1 0 == nth m l2 0.
Proof. intro H. apply InsertCompose.Forall2_Qeq_nth_d; [exact H | reflexivity]. Qed.

Lemma dedup_count_pos s y : (0 < count_q y (dedup_sorted s))%nat <-> (0 < count_q y s)%nat.
Proof.
  split; [|apply dedup_cover].
  intro H. destruct (count_pos_in _ _ H) as (z & Hz & Ez).
  apply dedup_in in Hz. exact (in_count_pos y z s Hz Ez).
Qed.

Lemma sorted_perm_first v l x0 : sorted_b v = true -> Permutation v l -> In x0 l ->
  (forall y, In y l -> x0 <= y) -> first_q v == x0.
Proof.
  intros S P H0 Hmin.
  assert (Hv0 : In x0 v) by (apply (Permutation_in x0 (Permutation_sym P)), H0).
  pose proof (sorted_first_le v x0 S Hv0) as A.
  assert (L : (0 < length v)%nat) by (destruct v; [destruct Hv0 | cbn; lia]).
  pose proof (Hmin _ (Permutation_in _ P (first_q_in v L))) as B. lra.
Qed.

Lemma sorted_perm_last v l x0 : sorted_b v = true -> Permutation v l -> In x0 l ->
  (forall y, In y l -> y <= x0) -> last_q v == x0.
Proof.
  intros S P H0 Hmax.
  assert (Hv0 : In x0 v) by (apply (Permutation_in x0 (Permutation_sym P)), H0).
  pose proof (UnionProofs.sorted_le_last v x0 S Hv0) as A.
  assert (L : (0 < length v)%nat) by (destruct v; [destruct Hv0 | cbn; lia]).
  pose proof (Hmax _ (Permutation_in _ P (last_q_in v L))) as B. lra.
Qed.

Lemma span_ok_proper U p u u' s : u == u' -> span_ok U p u s = span_ok U p u' s.
Proof.
  intro E. unfold span_ok.
  rewrite (Qeqb_proper _ _ E _ _ (Qeq_refl (umax_of U p))).
  rewrite (Qleb_proper _ _ (Qeq_refl (nthq U s)) _ _ E).
  rewrite (Qltb_proper _ _ E _ _ (Qeq_refl (nthq U (S s)))). reflexivity.
Qed.

Lemma in_range_proper U p u u' : u == u' -> in_range U p u = in_range U p u'.
Proof. intro E. unfold in_range. rewrite E. reflexivity. Qed.

(* ---------- B. is_piece: change of reference vector and of end points ---------- *)
Lemma is_piece_transfer big big' p a b a' b' v :
  is_piece big p a b v -> a == a' -> b == b' ->
  (forall y, mid a b y = true -> count_q y big' = count_q y big) ->
  is_piece big' p a' b' v.
Proof.
  intros [S C] Ea Eb H. split; [exact S|]. intro y. rewrite C. unfold piece_count.
  assert (M : mid a' b' y = mid a b y) by (unfold mid; rewrite Ea, Eb; reflexivity).
  rewrite M, <- Ea, <- Eb. destruct (mid a b y) eqn:Em; [rewrite (H y Em)|]; reflexivity.
Qed.

Lemma is_piece_same_length big p a b v v' : WF big p -> a < b ->
  is_piece big p a b v -> is_piece big p a b v' -> length v = length v'.
Proof.
  intros W Hab [S C] [S' C']. apply Forall2_Qeq_length. apply sorted_same_counts; try assumption.
  intro y. rewrite C, C'. reflexivity.
Qed.

(* a well-formed vector is its own piece between its ends *)
Lemma wf_is_piece_self v p : WF v p -> is_piece v p (first_q v) (last_q v) v.
Proof.
  intro W. destruct (wf_parts _ _ W) as (S & L & Cf & Cl). split; [exact S|].
  intro y. unfold piece_count, mid.
  pose proof (wf_first_ne_last v p W) as FL.
  assert (Y1 : y == first_q v -> count_q y v = (p + 1)%nat) by (intro E; rewrite E; exact Cf).
  assert (Y2 : y == last_q v -> count_q y v = (p + 1)%nat) by (intro E; rewrite E; exact Cl).
  assert (Y3 : y < first_q v -> count_q y v = 0%nat).
  { intro Hy. apply count_q_none. intros z Hz C. pose proof (sorted_first_le v z S Hz). lra. }
  assert (Y4 : last_q v < y -> count_q y v = 0%nat).
  { intro Hy. apply count_q_none. intros z Hz C. pose proof (UnionProofs.sorted_le_last v z S Hz). lra. }
  bcases; try (exfalso; lra); try lia;
    first [rewrite Y1 by assumption | rewrite Y2 by assumption | rewrite Y3 by lra | rewrite Y4 by lra]; lia.
Qed.

(* ---------- C. cut points and the pieces of ksplit ---------- *)
Lemma cp_sorted k nodes : sorted_b (cut_points k nodes) = true.
Proof. unfold cut_points. rewrite dedupq_eq. apply dedup_sorted_sorted, sortq_sorted. Qed.

Lemma cp_nodup k nodes : nodupq (cut_points k nodes).
Proof. unfold cut_points. rewrite dedupq_eq. apply dedup_nodupq, sortq_sorted. Qed.

Lemma cp_mem k nodes y : (0 < count_q y (cut_points k nodes))%nat <->
  (y == kumin k \/ y == kumax k \/ (0 < count_q y nodes)%nat).
Proof.
  unfold cut_points. rewrite dedupq_eq, dedup_count_pos, count_q_sortq, !count_q_cons.
  destruct (Qeqb_spec y (kumin k)), (Qeqb_spec y (kumax k)); split; intro H; try tauto; try lia;
    destruct H as [H|[H|H]]; try contradiction; lia.
Qed.

Lemma kvalid_bounds k nodes z : kvalid k nodes = true -> In z nodes -> kumin k <= z /\ z <= kumax k.
Proof.
  intros H Hz. unfold kvalid in H. rewrite forallb_forall in H. specialize (H z Hz).
  apply valid_iff in H. rewrite kumin_umin, kumax_umax. exact H.
Qed.

Section CutPoints.
Variable k : kv.
Variable nodes : list Q.
Hypothesis W : WF (kvec k) (kdeg k).
Hypothesis Hval : kvalid k nodes = true.

Let cp := cut_points k nodes.

Lemma kumin_lt_kumax : kumin k < kumax k.
Proof. rewrite kumin_umin, kumax_umax. apply wf_umin_lt_umax, W. Qed.

Lemma cp_bounds y : In y cp -> kumin k <= y /\ y <= kumax k.
Proof.
  intro Hy. pose proof (in_count_pos y y cp Hy (Qeq_refl y)) as P.
  apply cp_mem in P. pose proof kumin_lt_kumax.
  destruct P as [E|[E|P]]; [lra | lra |].
  destruct (count_pos_in _ _ P) as (z & Hz & Ez).
  destruct (kvalid_bounds k nodes z Hval Hz). lra.
Qed.

Lemma cp_length : (2 <= length cp)%nat.
Proof.
  pose proof kumin_lt_kumax as L.
  assert (N : ~ kumin k == kumax k) by lra.
  pose proof (count_two_le _ _ N cp) as H.
  assert (A : (0 < count_q (kumin k) cp)%nat) by (apply cp_mem; left; reflexivity).
  assert (B : (0 < count_q (kumax k) cp)%nat) by (apply cp_mem; right; left; reflexivity).
  lia.
Qed.

Lemma cp_first : nth 0 cp 0 == kumin k.
Proof.
  pose proof cp_length as L. fold (first_q cp).
  assert (Hin : In (first_q cp) cp) by (apply first_q_in; lia).
  destruct (cp_bounds _ Hin) as [A _].
  assert (P : (0 < count_q (kumin k) cp)%nat) by (apply cp_mem; left; reflexivity).
  destruct (count_pos_in _ _ P) as (z & Hz & Ez).
  pose proof (sorted_first_le cp z (cp_sorted k nodes) Hz). lra.
Qed.

Lemma cp_last : nth (length cp - 1) cp 0 == kumax k.
Proof.
  pose proof cp_length as L. rewrite <- last_nth. fold (last_q cp).
  assert (Hin : In (last_q cp) cp) by (apply last_q_in; lia).
  destruct (cp_bounds _ Hin) as [_ A].
  assert (P : (0 < count_q (kumax k) cp)%nat) by (apply cp_mem; right; left; reflexivity).
  destruct (count_pos_in _ _ P) as (z & Hz & Ez).
  pose proof (UnionProofs.sorted_le_last cp z (cp_sorted k nodes) Hz). lra.
Qed.

Lemma cp_strict m : (S m < length cp)%nat -> nth m cp 0 < nth (S m) cp 0.
Proof. apply sorted_nodup_strict; [apply cp_sorted | apply cp_nodup]. Qed.

Lemma cp_nth_in m : (m < length cp)%nat -> (0 < count_q (nth m cp 0%Q) cp)%nat.
Proof. intro H. apply (in_count_pos _ (nth m cp 0)); [apply nth_In, H | reflexivity]. Qed.
End CutPoints.

Lemma cut_points_nil k : WF (kvec k) (kdeg k) -> cut_points k [] = [kumin k; kumax k].
Proof.
  intro W. pose proof (kumin_lt_kumax k W) as L. unfold cut_points. cbn [sortq insq].
  destruct (Qleb_spec (kumin k) (kumax k)) as [A|A]; [|exfalso; lra].
  cbn [dedupq]. destruct (Qeqb_spec (kumin k) (kumax k)) as [B|B]; [exfalso; lra | reflexivity].
Qed.

Theorem ksplit_piece k nodes pieces : WF (kvec k) (kdeg k) -> ksplit k nodes = Ok pieces ->
  kvalid k nodes = true /\
  S (length pieces) = length (cut_points k nodes) /\
  forall m, (m < length pieces)%nat ->
    kdeg (nth m pieces k) = kdeg k /\
    is_piece (kvec k) (kdeg k) (nth m (cut_points k nodes) 0) (nth (S m) (cut_points k nodes) 0)
             (kvec (nth m pieces k)).
Proof.
  intros W H. unfold ksplit in H.
  destruct (kvalid k nodes) eqn:Hval; cbn [negb] in H; [|discriminate].
  split; [reflexivity|].
  destruct nodes as [|n0 ns].
  - inversion H; subst pieces. rewrite (cut_points_nil k W). split; [reflexivity|].
    intros m Hm. cbn [length] in Hm. assert (m = 0)%nat by lia. subst m. cbn [nth].
    split; [reflexivity|].
    apply (is_piece_transfer (kvec k) (kvec k) (kdeg k) (first_q (kvec k)) (last_q (kvec k))).
    + apply wf_is_piece_self, W.
    + rewrite kumin_umin. symmetry. apply wf_umin_first, W.
    + rewrite kumax_umax. symmetry. apply wf_umax_last, W.
    + reflexivity.
  - set (cp := cut_points k (n0 :: ns)) in *.
    pose proof (cp_length k (n0 :: ns) W) as Lcp. fold cp in Lcp.
    pose proof (mapM_length _ _ _ H) as Lp. rewrite pairs_length in Lp.
    split; [lia|]. intros m Hm.
    pose proof (mapM_nth _ (0, 0) k _ _ H m ltac:(rewrite pairs_length; lia)) as Hn.
    rewrite pairs_nth in Hn by lia.
    set (a := nth m cp 0) in *. set (b := nth (S m) cp 0) in *.
    assert (Hab : a < b) by (apply (cp_strict k (n0 :: ns)); fold cp; lia).
    change (make (piece_of (kvec k) (kdeg k) a b) None = Ok (nth m pieces k)) in Hn.
    destruct (make_none_inv _ _ Hn) as [Ek Wv].
    destruct (wf_parts _ _ W) as (Sk & _).
    pose proof (piece_of_is_piece (kvec k) (kdeg k) a b Sk Hab) as IP.
    pose proof (piece_wf (kvec k) (kdeg k) a b _ W Hab IP) as Wp.
    rewrite Ek. cbn [kdeg kvec]. split; [|exact IP].
    rewrite (UnionProofs.wf_infer_deg _ _ Wp). reflexivity.
Qed.

(* ---------- D. the refined vector [big] built by split_curve ---------- *)

(* the tolerance-based multiplicity agrees with the exact one at the nodes: no node is a
   near-miss (closer than tol_mult, but not equal) of a knot of the vector *)
Definition exact_mult (k : kv) (nodes : list Q) : Prop :=
  forall x, In x nodes -> kmult_raw (kvec k) x = count_q x (kvec k).

Definition fne (k : kv) (x : Q) : bool :=
  negb (Qeqb x (first_q (kvec k))) && negb (Qeqb x (last_q (kvec k))).

Lemma fne_proper k x x' : x == x' -> fne k x = fne k x'.
Proof. intro E. unfold fne. rewrite E. reflexivity. Qed.

Lemma split_nodes_eq k nodes : split_nodes k nodes = filter (fne k) (dedup_sorted (sortq nodes)).
Proof. reflexivity. Qed.

Lemma split_nodes_in k nodes x : In x (split_nodes k nodes) -> In x nodes.
Proof.
  rewrite split_nodes_eq. intro H. apply filter_In in H. destruct H as [H _].
  apply dedup_in in H. exact (Permutation_in x (sortq_perm nodes) H).
Qed.

Lemma split_nodes_sorted k nodes : sorted_b (split_nodes k nodes) = true.
Proof. rewrite split_nodes_eq. apply sorted_filter, dedup_sorted_sorted, sortq_sorted. Qed.

Lemma split_nodes_nodup k nodes : nodupq (split_nodes k nodes).
Proof. rewrite split_nodes_eq. apply nodupq_filter, dedup_nodupq, sortq_sorted. Qed.

Lemma split_nodes_mem k nodes y : (0 < count_q y (split_nodes k nodes))%nat <->
  ((0 < count_q y nodes)%nat /\ ~ y == first_q (kvec k) /\ ~ y == last_q (kvec k)).
Proof.
  rewrite split_nodes_eq, (count_q_filter (fne k) y (fne_proper k)).
  pose proof (dedup_count_pos (sortq nodes) y) as D. rewrite count_q_sortq in D.
  unfold fne. destruct (Qeqb_spec y (first_q (kvec k))), (Qeqb_spec y (last_q (kvec k)));
    cbn [negb andb]; split; intro H; try tauto; try lia.
Qed.

Lemma mapM_map {A B} (f : A -> res B) (g : A -> B) : forall l r, mapM f l = Ok r ->
  (forall x b, In x l -> f x = Ok b -> b = g x) -> r = map g l.
Proof.
  induction l as [|a l IH]; intros r H Hg; cbn [mapM] in H.
  - inversion H. reflexivity.
  - destruct (f a) as [b|] eqn:E; cbn [bind] in H; [|discriminate].
    destruct (mapM f l) as [bs|] eqn:E2; cbn [bind] in H; [|discriminate].
    inversion H; subst r. cbn [map]. f_equal.
    + apply Hg; [left; reflexivity | exact E].
    + apply IH; [reflexivity|]. intros x b' Hx. apply Hg. right. exact Hx.
Qed.

Lemma sorted_gap_count (l : list Q) m y : sorted_b l = true -> (S m < length l)%nat ->
  nth m l 0 < y -> y < nth (S m) l 0 -> count_q y l = 0%nat.
Proof.
  intros Hs Hm A B. apply count_q_none. intros z Hz E.
  destruct (In_nth l z 0 Hz) as (j & Hj & Ej). subst z.
  destruct (le_lt_dec j m) as [L|L].
  - pose proof (sorted_nth 0 l Hs j m ltac:(lia)). lra.
  - pose proof (sorted_nth 0 l Hs (S m) j ltac:(lia)). lra.
Qed.

Section BigFacts.
Variable k : kv.
Variable nodes : list Q.
Variable many : list (list Q).
Variable big : kv.
Hypothesis W : WF (kvec k) (kdeg k).
Hypothesis Hex : exact_mult k nodes.
Hypothesis Hmany :
  mapM (fun x => do m <- kmult k x; Ok (repeat x (kdeg k + 1 - m))) (split_nodes k nodes) = Ok many.
Hypothesis Hbig : kinsert k (concat many) = Ok big.

Let p := kdeg k.
Let cuts := split_nodes k nodes.
Let mn := concat many.

Lemma many_eq : many = map (fun x => repeat x (p + 1 - kmult_raw (kvec k) x)) cuts.
Proof.
  apply (mapM_map _ _ _ _ Hmany). intros x b _ H. unfold kmult in H.
  destruct (kvalid1 k x); cbn [bind] in H; [|discriminate]. inversion H. reflexivity.
Qed.

Lemma mn_count y :
  count_q y mn = if existsb (Qeqb y) cuts then (p + 1 - count_q y (kvec k))%nat else 0%nat.
Proof.
  unfold mn. rewrite many_eq.
  rewrite (concat_repeat_expand (fun x => (p + 1 - kmult_raw (kvec k) x)%nat)).
  apply (count_expand_map _ (fun x => (p + 1 - count_q x (kvec k))%nat)).
  - intros x x' E. rewrite E. reflexivity.
  - apply split_nodes_nodup.
  - intros x Hx. rewrite (Hex x (split_nodes_in k nodes x Hx)). reflexivity.
Qed.

Lemma mn_valid : kvalid k mn = true.
Proof. unfold kinsert in Hbig. fold mn in Hbig. destruct (kvalid k mn); [reflexivity | discriminate]. Qed.

Lemma big_inv : big = mkkv (sortq (kvec k ++ mn)) (infer_deg (sortq (kvec k ++ mn))) /\
  WF (sortq (kvec k ++ mn)) (infer_deg (sortq (kvec k ++ mn))).
Proof.
  unfold kinsert in Hbig. fold mn in Hbig. rewrite mn_valid in Hbig. apply make_none_inv, Hbig.
Qed.

Lemma big_vec : kvec big = sortq (kvec k ++ mn).
Proof. destruct big_inv as [E _]. rewrite E. reflexivity. Qed.

Lemma big_wf : WF (kvec big) (kdeg big).
Proof. apply (kinsert_wf _ _ _ Hbig). Qed.

Lemma big_count y : count_q y (kvec big) = (count_q y (kvec k) + count_q y mn)%nat.
Proof. rewrite big_vec, count_q_sortq, count_q_app. reflexivity. Qed.

Lemma kumin_first : kumin k == first_q (kvec k).
Proof. rewrite kumin_umin. apply wf_umin_first, W. Qed.

Lemma kumax_last : kumax k == last_q (kvec k).
Proof. rewrite kumax_umax. apply wf_umax_last, W. Qed.

Lemma big_first : first_q (kvec big) == first_q (kvec k).
Proof.
  destruct (wf_parts _ _ W) as (Sk & Lk & _).
  rewrite big_vec. apply (sorted_perm_first _ (kvec k ++ mn)).
  - apply sortq_sorted.
  - apply sortq_perm.
  - apply in_or_app. left. apply first_q_in. lia.
  - intros y Hy. apply in_app_or in Hy. destruct Hy as [Hy|Hy].
    + apply sorted_first_le; assumption.
    + destruct (kvalid_bounds k mn y mn_valid Hy) as [A _]. rewrite <- kumin_first. exact A.
Qed.

Lemma big_last : last_q (kvec big) == last_q (kvec k).
Proof.
  destruct (wf_parts _ _ W) as (Sk & Lk & _).
  rewrite big_vec. apply (sorted_perm_last _ (kvec k ++ mn)).
  - apply sortq_sorted.
  - apply sortq_perm.
  - apply in_or_app. left. apply last_q_in. lia.
  - intros y Hy. apply in_app_or in Hy. destruct Hy as [Hy|Hy].
    + apply UnionProofs.sorted_le_last; assumption.
    + destruct (kvalid_bounds k mn y mn_valid Hy) as [_ A]. rewrite <- kumax_last. exact A.
Qed.

Lemma cuts_not_first : existsb (Qeqb (first_q (kvec k))) cuts = false.
Proof.
  rewrite existsb_count. apply negb_false_iff, Nat.eqb_eq.
  destruct (Nat.eq_dec (count_q (first_q (kvec k)) cuts) 0) as [Z|NZ]; [exact Z|exfalso].
  assert (P : (0 < count_q (first_q (kvec k)) cuts)%nat) by lia.
  apply split_nodes_mem in P. destruct P as (_ & N & _). apply N. reflexivity.
Qed.

Lemma big_deg : kdeg big = p.
Proof.
  pose proof big_wf as Wb. destruct (wf_parts _ _ Wb) as (_ & _ & Cf & _).
  rewrite big_first in Cf. rewrite big_count, mn_count, cuts_not_first in Cf.
  destruct (wf_parts _ _ W) as (_ & _ & Cf' & _). fold p in Cf'. lia.
Qed.

Lemma big_wf_p : WF (kvec big) p.
Proof. rewrite <- big_deg. exact big_wf. Qed.

Lemma big_kumin : kumin big == kumin k.
Proof.
  rewrite kumin_first, kumin_umin, (wf_umin_first _ _ big_wf). exact big_first.
Qed.

Lemma big_kumax : kumax big == kumax k.
Proof.
  rewrite kumax_last, kumax_umax, (wf_umax_last _ _ big_wf). exact big_last.
Qed.

Lemma big_in_range u : in_range (kvec big) (kdeg big) u = in_range (kvec k) (kdeg k) u.
Proof.
  unfold in_range. rewrite <- !kumin_umin, <- !kumax_umax.
  rewrite (Qleb_proper _ _ big_kumin u u (Qeq_refl u)).
  rewrite (Qleb_proper u u (Qeq_refl u) _ _ big_kumax). reflexivity.
Qed.

(* every cut is a full knot of big *)
Lemma big_cut_count y : (0 < count_q y cuts)%nat -> count_q y (kvec big) = (p + 1)%nat.
Proof.
  intro H. rewrite big_count, mn_count, existsb_count.
  assert (E : (count_q y cuts =? 0)%nat = false) by (apply Nat.eqb_neq; lia).
  rewrite E. cbn [negb]. pose proof (wf_count_le _ _ W y). fold p in H0. lia.
Qed.

Lemma big_noncut_count y : count_q y cuts = 0%nat -> count_q y (kvec big) = count_q y (kvec k).
Proof.
  intro H. rewrite big_count, mn_count, existsb_count, H. cbn. lia.
Qed.

Lemma big_first_count : count_q (first_q (kvec k)) (kvec big) = (p + 1)%nat.
Proof. rewrite <- big_first. destruct (wf_parts _ _ big_wf_p) as (_ & _ & C & _). exact C. Qed.

Lemma big_last_count : count_q (last_q (kvec k)) (kvec big) = (p + 1)%nat.
Proof. rewrite <- big_last. destruct (wf_parts _ _ big_wf_p) as (_ & _ & _ & C). exact C. Qed.

(* the cut points of (k, nodes) and of (big, cuts) agree *)
Hypothesis Hval : kvalid k nodes = true.
Hypothesis Hval' : kvalid big cuts = true.

Let cp := cut_points k nodes.
Let cp' := cut_points big cuts.

Lemma cp_same : Forall2 Qeq cp cp'.
Proof.
  apply nodup_sorted_eq; try apply cp_sorted; try apply cp_nodup.
  intro y. unfold cp, cp'. rewrite !cp_mem. fold cuts.
  pose proof (split_nodes_mem k nodes y) as Mm. fold cuts in Mm.
  pose proof big_kumin as E1. pose proof big_kumax as E2.
  pose proof kumin_first as F1. pose proof kumax_last as F2.
  destruct (Qeq_dec y (kumin k)) as [A|A]; [split; intros _; left; lra|].
  destruct (Qeq_dec y (kumax k)) as [B|B]; [split; intros _; right; left; lra|].
  split; intros [H|[H|H]]; try (exfalso; lra).
  - right. right. apply Mm. repeat split; [exact H | lra | lra].
  - right. right. apply Mm in H. tauto.
Qed.

Lemma cp_same_length : length cp = length cp'.
Proof. apply Forall2_Qeq_length, cp_same. Qed.

(* each cut point is a full knot of big *)
Lemma cp_full m : (m < length cp)%nat -> count_q (nth m cp 0) (kvec big) = (p + 1)%nat.
Proof.
  intro Hm. pose proof (cp_nth_in k nodes m Hm) as P. fold cp in P.
  apply cp_mem in P. destruct P as [E|[E|P]].
  - rewrite E, kumin_first. exact big_first_count.
  - rewrite E, kumax_last. exact big_last_count.
  - destruct (Qeq_dec (nth m cp 0) (first_q (kvec k))) as [A|A];
      [rewrite A; exact big_first_count|].
    destruct (Qeq_dec (nth m cp 0) (last_q (kvec k))) as [B|B];
      [rewrite B; exact big_last_count|].
    apply big_cut_count. apply split_nodes_mem. tauto.
Qed.

(* strictly between two consecutive cut points nothing was inserted *)
Lemma cp_gap m y : (S m < length cp)%nat -> mid (nth m cp 0) (nth (S m) cp 0) y = true ->
  count_q y (kvec big) = count_q y (kvec k).
Proof.
  intros Hm Hy. unfold mid in Hy. apply andb_true_iff in Hy. destruct Hy as [A B].
  apply Qltb_lt in A. apply Qltb_lt in B.
  apply big_noncut_count.
  destruct (Nat.eq_dec (count_q y cuts) 0) as [Z|NZ]; [exact Z|exfalso].
  assert (P : (0 < count_q y cp)%nat).
  { apply cp_mem. right. right. apply (split_nodes_mem k nodes y). fold cuts. lia. }
  rewrite (sorted_gap_count cp m y (cp_sorted k nodes) Hm A B) in P. lia.
Qed.
End BigFacts.

(* ---------- E. split_curve ---------- *)
Lemma split_curve_inv k nodes Ms : split_curve k nodes = Ok Ms ->
  forallb (in_closed k) nodes = true /\
  exists many big bigm pieces',
    mapM (fun x => do m <- kmult k x; Ok (repeat x (kdeg k + 1 - m))) (split_nodes k nodes) = Ok many /\
    kinsert k (concat many) = Ok big /\ knot_insert k (concat many) = Ok bigm /\
    ksplit big (split_nodes k nodes) = Ok pieces' /\
    mapM (fun piece : kv => do s <- kspan big (kumin piece);
            Ok (firstn (knpts piece) (skipn (s - kdeg k) bigm))) pieces' = Ok Ms.
Proof.
  unfold split_curve. intro H.
  destruct (forallb (in_closed k) nodes); cbn [negb] in H; [|discriminate]. split; [reflexivity|].
  cbv zeta in H.
  destruct (mapM _ (split_nodes k nodes)) as [many|] eqn:E1; cbn [bind] in H; [|discriminate].
  destruct (kinsert k (concat many)) as [big|] eqn:E2; cbn [bind] in H; [|discriminate].
  destruct (knot_insert k (concat many)) as [bigm|] eqn:E3; cbn [bind] in H; [|discriminate].
  destruct (ksplit big (split_nodes k nodes)) as [pieces'|] eqn:E4; cbn [bind] in H; [|discriminate].
  exists many, big, bigm, pieces'. repeat split; try assumption; reflexivity.
Qed.

Lemma mvec_slice (M : mat) (P : list Q) n l :
  mvec (firstn n (skipn l M)) P = firstn n (skipn l (mvec M P)).
Proof. unfold mvec. rewrite skipn_map, firstn_map. reflexivity. Qed.

(* S3: the m-th matrix of split_curve turns the control values of the curve into control values
   of its restriction to the m-th piece of ksplit *)
Theorem split_curve_restrict k nodes Ms pieces :
  WF (kvec k) (kdeg k) -> exact_mult k nodes ->
  split_curve k nodes = Ok Ms -> ksplit k nodes = Ok pieces ->
  length Ms = length pieces /\
  forall m, (m < length pieces)%nat ->
    length (nth m Ms []) = knpts (nth m pieces k) /\
    forall P u, length P = knpts k ->
      kumin (nth m pieces k) <= u ->
      (u < kumax (nth m pieces k) \/ (u <= kumax (nth m pieces k) /\ S m = length pieces)) ->
      curve_spec1 (kvec (nth m pieces k)) (kdeg k) (mvec (nth m Ms []) P) u
      == curve_spec1 (kvec k) (kdeg k) P u.
Proof.
  intros W Hex HS HK.
  destruct (split_curve_inv k nodes Ms HS) as (Hcl & many & big & bigm & pieces' & Hmany & Hbig & Hbigm & Hks' & HMs).
  destruct (ksplit_piece k nodes pieces W HK) as (Hval & Lp & Hpc).
  pose proof (big_wf k many big Hbig) as Wb0.
  pose proof (big_deg k nodes many big W Hex Hmany Hbig) as Db.
  assert (Wb : WF (kvec big) (kdeg k)) by (rewrite <- Db; exact Wb0).
  destruct (ksplit_piece big (split_nodes k nodes) pieces' Wb0 Hks') as (Hval' & Lp' & Hpc').
  pose proof (cp_same k nodes many big W Hbig) as CS.
  pose proof (cp_same_length k nodes many big W Hbig) as CL.
  pose proof (mapM_length _ _ _ HMs) as LMs.
  set (cp := cut_points k nodes) in *. set (cp' := cut_points big (split_nodes k nodes)) in *.
  unfold mat in *. split; [lia|]. intros m Hm.
  destruct (Hpc m Hm) as [Dpc IPpc]. destruct (Hpc' m ltac:(lia)) as [Dpc' IPpc'].
  set (pc := nth m pieces k) in *. set (pc' := nth m pieces' big) in *.
  set (p := kdeg k) in *.
  set (a := nth m cp 0) in *. set (b := nth (S m) cp 0) in *.
  assert (Ea : a == nth m cp' 0) by (apply Forall2_Qeq_nth0, CS).
  assert (Eb : b == nth (S m) cp' 0) by (apply Forall2_Qeq_nth0, CS).
  assert (Hab : a < b) by (apply (cp_strict k nodes m); fold cp; lia).
  assert (Ca : count_q a (kvec big) = (p + 1)%nat)
    by (apply (cp_full k nodes many big W Hex Hmany Hbig m); fold cp; lia).
  assert (Cb : count_q b (kvec big) = (p + 1)%nat)
    by (apply (cp_full k nodes many big W Hex Hmany Hbig (S m)); fold cp; lia).
  assert (IP1 : is_piece (kvec big) p a b (kvec pc)).
  { apply (is_piece_transfer (kvec k) (kvec big) p a b a b (kvec pc) IPpc);
      [reflexivity | reflexivity |].
    intros y Hy. apply (cp_gap k nodes many big Hex Hmany Hbig m y); [fold cp; lia | exact Hy]. }
  assert (IP2 : is_piece (kvec big) p a b (kvec pc')).
  { rewrite Db in IPpc'.
    apply (is_piece_transfer (kvec big) (kvec big) p _ _ a b (kvec pc') IPpc');
      [symmetry; exact Ea | symmetry; exact Eb | reflexivity]. }
  pose proof (is_piece_same_length _ _ _ _ _ _ Wb Hab IP1 IP2) as Lv.
  (* the matrix *)
  pose proof (mapM_nth _ big ([] : mat) _ _ HMs m ltac:(lia)) as HM. cbv beta in HM. fold pc' in HM.
  destruct (kspan big (kumin pc')) as [s|] eqn:Es; cbn [bind] in HM; [|discriminate].
  inversion HM as [HM']. clear HM.
  apply kspan_sound in Es. rewrite Db in Es. fold p in Es.
  assert (Ek' : kumin pc' == a).
  { rewrite kumin_umin, Dpc', Db. exact (piece_umin _ _ _ _ _ Wb Hab IP2). }
  rewrite (span_ok_proper _ _ _ _ s Ek') in Es.
  pose proof (piece_lower_span _ _ _ _ _ Wb Hab IP2 Ca Cb s Es) as Els.
  assert (En : knpts pc' = npts_of (kvec pc) p).
  { unfold knpts, npts_of. rewrite Dpc', Db, Lv. reflexivity. }
  unfold mat in HM'.
  destruct (knot_insert_curve k (concat many) bigm big W Hbigm Hbig Db) as [LM HC].
  split.
  { rewrite <- HM', firstn_length, skipn_length, En, Els. unfold mat in *. rewrite LM.
    pose proof (piece_lower_len _ _ _ _ _ Wb Hab IP1 Ca Cb) as PL.
    pose proof (piece_len _ _ _ _ _ Hab IP1) as PL2.
    unfold knpts, npts_of. rewrite Dpc, Db. fold p. lia. }
  intros P u HP Hu1 Hu2.
  rewrite <- HM'. rewrite mvec_slice, En. fold p. rewrite Els.
  (* the interval *)
  assert (Ek : kumin pc == a).
  { rewrite kumin_umin, Dpc. exact (piece_umin _ _ _ _ _ Wb Hab IP1). }
  assert (Ekx : kumax pc == b).
  { rewrite kumax_umax, Dpc. exact (piece_umax _ _ _ _ _ Wb Hab IP1). }
  assert (Hu1' : a <= u) by lra.
  assert (Hu2' : u < b \/ (u <= b /\ b == last_q (kvec big))).
  { destruct Hu2 as [C|[C1 C2]]; [left; lra|right]. split; [lra|].
    rewrite (big_last k many big W Hbig), <- (kumax_last k W).
    unfold b. replace (S m) with (length cp - 1)%nat by lia.
    apply (cp_last k nodes W Hval). }
  rewrite (split_curve_spec _ _ _ _ _ Wb Hab IP1 Ca Cb u Hu1' Hu2' (mvec bigm P)).
  apply HC; [exact HP|].
  rewrite <- (big_in_range k many big W Hbig), Db.
  exact (piece_big_range _ _ _ _ _ Wb Hab IP1 Ca Cb u Hu1' Hu2').
Qed.

(* ---------- F. structure of the pieces, refusals ---------- *)
Theorem ksplit_structure k nodes pieces : WF (kvec k) (kdeg k) -> ksplit k nodes = Ok pieces ->
  let cp := cut_points k nodes in
  S (length pieces) = length cp /\
  nth 0 cp 0 == kumin k /\ nth (length cp - 1) cp 0 == kumax k /\
  forall m, (m < length pieces)%nat ->
    let pc := nth m pieces k in
    WF (kvec pc) (kdeg pc) /\ kdeg pc = kdeg k /\
    nth m cp 0 < nth (S m) cp 0 /\
    kumin pc == nth m cp 0 /\ kumax pc == nth (S m) cp 0 /\
    first_q (kvec pc) == nth m cp 0 /\ last_q (kvec pc) == nth (S m) cp 0.
Proof.
  intros W H cp. destruct (ksplit_piece k nodes pieces W H) as (Hval & Lp & Hpc). fold cp in Lp, Hpc.
  split; [exact Lp|].
  split; [apply (cp_first k nodes W Hval)|].
  split; [apply (cp_last k nodes W Hval)|].
  intros m Hm pc. destruct (Hpc m Hm) as [D IP]. fold pc in D, IP.
  assert (Hab : nth m cp 0 < nth (S m) cp 0) by (apply (cp_strict k nodes m); fold cp; lia).
  pose proof (piece_wf _ _ _ _ _ W Hab IP) as Wp.
  rewrite kumin_umin, kumax_umax, D. repeat split.
  - exact Wp.
  - exact Hab.
  - exact (piece_umin _ _ _ _ _ W Hab IP).
  - exact (piece_umax _ _ _ _ _ W Hab IP).
  - exact (piece_first _ _ _ _ _ Hab IP).
  - exact (piece_last _ _ _ _ _ Hab IP).
Qed.

Theorem ksplit_total k nodes : WF (kvec k) (kdeg k) -> kvalid k nodes = true ->
  exists pieces, ksplit k nodes = Ok pieces.
Proof.
  intros W Hval. unfold ksplit. rewrite Hval. cbn [negb].
  destruct nodes as [|n0 ns]; [eexists; reflexivity|].
  apply mapM_total. intros [a b] Hin.
  destruct (In_nth _ _ (0, 0) Hin) as (m & Hm & Em). rewrite pairs_length in Hm.
  rewrite pairs_nth in Em by lia. inversion Em as [[Ea Eb]].
  assert (Hab : nth m (cut_points k (n0 :: ns)) 0 < nth (S m) (cut_points k (n0 :: ns)) 0)
    by (apply cp_strict; lia).
  set (a' := nth m (cut_points k (n0 :: ns)) 0) in *.
  set (b' := nth (S m) (cut_points k (n0 :: ns)) 0) in *.
  destruct (wf_parts _ _ W) as (Sk & _).
  exists (mkkv (piece_of (kvec k) (kdeg k) a' b') (kdeg k)).
  apply (make_of_wf (piece_of (kvec k) (kdeg k) a' b') (kdeg k)).
  apply (piece_wf (kvec k) (kdeg k) a' b' _ W Hab). apply piece_of_is_piece; assumption.
Qed.

(* ksplit refuses exactly when a node is outside the interval, and then with ValueError *)
Theorem ksplit_refuses k nodes : WF (kvec k) (kdeg k) ->
  (kvalid k nodes = false -> ksplit k nodes = Err ValueError) /\
  (forall e, ksplit k nodes = Err e -> e = ValueError /\ kvalid k nodes = false).
Proof.
  intro W. split.
  - intro H. unfold ksplit. rewrite H. reflexivity.
  - intros e H. destruct (kvalid k nodes) eqn:Hval.
    + destruct (ksplit_total k nodes W Hval) as [ps E]. congruence.
    + unfold ksplit in H. rewrite Hval in H. cbn [negb] in H. inversion H. split; reflexivity.
Qed.

Lemma in_closed_valid k x : WF (kvec k) (kdeg k) -> in_closed k x = kvalid1 k x.
Proof.
  intro W. rewrite kvalid1_in_range. unfold in_closed, in_range.
  rewrite (Qleb_proper _ _ (wf_first_umin _ _ W) x x (Qeq_refl x)).
  rewrite (Qleb_proper x x (Qeq_refl x) _ _ (wf_last_umax _ _ W)). reflexivity.
Qed.

Lemma forallb_in_closed k nodes : WF (kvec k) (kdeg k) -> forallb (in_closed k) nodes = kvalid k nodes.
Proof.
  intro W. unfold kvalid. induction nodes as [|x l IH]; [reflexivity|].
  cbn [forallb]. rewrite IH, (in_closed_valid k x W). reflexivity.
Qed.

(* split_curve refuses a node outside the interval with AssertionError; it answers only inside *)
Theorem split_curve_outside k nodes : WF (kvec k) (kdeg k) ->
  kvalid k nodes = false -> split_curve k nodes = Err AssertionError.
Proof.
  intros W H. unfold split_curve. rewrite (forallb_in_closed k nodes W), H. reflexivity.
Qed.

Theorem split_curve_inside k nodes Ms : WF (kvec k) (kdeg k) ->
  split_curve k nodes = Ok Ms -> kvalid k nodes = true.
Proof.
  intros W H. destruct (split_curve_inv k nodes Ms H) as [Hc _].
  rewrite <- (forallb_in_closed k nodes W). exact Hc.
Qed.

(* positive weights stay positive through every matrix of split_curve *)
Theorem split_curve_pos k nodes Ms Wv : WF (kvec k) (kdeg k) -> split_curve k nodes = Ok Ms ->
  length Wv = knpts k -> Forall (fun w => 0 < w) Wv ->
  forall M, In M Ms -> Forall (fun w => 0 < w) (mvec M Wv).
Proof.
  intros W HS HL Hpos M HM.
  destruct (split_curve_inv k nodes Ms HS) as (_ & many & big & bigm & pieces' & _ & _ & Hbigm & _ & HMs).
  pose proof (knot_insert_pos k (concat many) bigm Wv W Hbigm HL Hpos) as Hp.
  assert (HF : Forall (fun M : mat => exists n l, M = firstn n (skipn l bigm)) Ms).
  { revert HMs. apply mapM_Forall. intros pc M' H.
    destruct (kspan big (kumin pc)) as [s|]; cbn [bind] in H; [|discriminate].
    inversion H. eexists _, _. reflexivity. }
  rewrite Forall_forall in HF. destruct (HF M HM) as (n & l & E). rewrite E, mvec_slice.
  apply Forall_forall. intros w Hw. apply in_firstn, in_skipn in Hw.
  rewrite Forall_forall in Hp. apply Hp, Hw.
Qed.

(* ================================================================== *)
(* S4. curves: c_split                                                 *)
(* ================================================================== *)
From NurbsV Require Import Model.Basis Model.CurveM Model.CurveOps Proofs.Table Proofs.InsertCurve.

(* any matrix that maps control values to control values of the same scalar curve at u
   does so for vector-valued and for rational curves *)
Section Transform.
Variables U' U : list Q.
Variables p n d : nat.
Variable M : mat.
Variable u : Q.
Hypothesis Hn : (0 < n)%nat.
Hypothesis C : forall Pv, length Pv = n -> curve_spec1 U' p (mvec M Pv) u == curve_spec1 U p Pv u.

Lemma transform_coord (P : list (list Q)) kk :
  length P = n -> Forall (fun pt : list Q => length pt = d) P -> (kk < d)%nat ->
  curve_spec1 U' p (coord kk (mat_apply M P)) u == curve_spec1 U p (coord kk P) u.
Proof.
  intros HL HP Hkk.
  assert (Hne : P <> []) by (destruct P; [cbn in HL; lia | discriminate]).
  pose proof (pdim_Forall P d Hne HP) as Hpd.
  rewrite (curve_spec1_ext _ _ _ _ u (coord_mat_apply M P d kk Hkk HP Hpd)).
  apply C. rewrite coord_length. exact HL.
Qed.

Theorem transform_spline (P : list (list Q)) :
  length P = n -> Forall (fun pt : list Q => length pt = d) P ->
  Forall2 Qeq (curve_spec U' p d (mat_apply M P) u) (curve_spec U p d P u).
Proof.
  intros HL HP. unfold curve_spec. apply EvalProofs.Forall2_Qeq_nth.
  - rewrite !map_length. reflexivity.
  - rewrite map_length, seq_length. intros kk Hkk.
    rewrite !Table.nth_map_seq by exact Hkk. apply transform_coord; assumption.
Qed.

Theorem transform_rational (Wt : list Q) (P : list (list Q)) :
  length P = n -> length Wt = n -> Forall (fun pt : list Q => length pt = d) P ->
  existsb (fun w => Qeqb w 0) (mvec M Wt) = false ->
  Forall2 Qeq
    (rational_spec U' p d (mvec M Wt) (wunscale (mvec M Wt) (mat_apply M (wscale Wt P))) u)
    (rational_spec U p d Wt P u).
Proof.
  intros HL HWl HP Hnz.
  assert (HLw : length Wt = length P) by lia.
  pose proof (wscale_dims d Wt P HP) as HPw.
  pose proof (wscale_length Wt P HLw) as HLPw.
  assert (Hne : wscale Wt P <> []) by (destruct (wscale Wt P); [cbn in HLPw; lia | discriminate]).
  pose proof (pdim_Forall _ d Hne HPw) as Hpd.
  pose proof (mat_apply_dims M _ d HPw Hpd) as HQ.
  set (k0 := mkkv [] 0).
  unfold rational_spec. apply EvalProofs.Forall2_Qeq_nth.
  - rewrite !map_length. reflexivity.
  - rewrite map_length, seq_length. intros kk Hkk.
    rewrite !Table.nth_map_seq by exact Hkk.
    unfold rational_spec1, weight_spec.
    rewrite (C Wt HWl).
    rewrite (curve_spec1_ext _ _ _ _ u
               (coord_wunscale k0 k0 eq_refl d (mvec M Wt) (mat_apply M (wscale Wt P)) kk
                  ltac:(rewrite mvec_length, mat_apply_length; reflexivity) HQ Hkk Hnz)).
    rewrite (transform_coord (wscale Wt P) kk (eq_trans HLPw HL) HPw Hkk).
    rewrite <- (curve_spec1_ext _ _ _ _ u (coord_wscale k0 k0 eq_refl d Wt P kk HLw HP Hkk)).
    reflexivity.
Qed.
End Transform.

Definition split_nodes_of (c : curve) (nodes : option (list Q)) : list Q :=
  match nodes with Some l => l | None => kknots (ckv c) end.

Lemma c_split_inv c nodes cs : c_split c nodes = Ok cs ->
  exists pieces Ms P,
    ksplit (ckv c) (split_nodes_of c nodes) = Ok pieces /\
    split_curve (ckv c) (split_nodes_of c nodes) = Ok Ms /\ cP c = Some P /\
    cs = map2 (fun (piece : kv) (M : mat) =>
                 match cW c with
                 | None => mkcurve piece (Some (mat_apply M P)) None
                 | Some Wt => let W' := mvec M Wt in
                     mkcurve piece (Some (wunscale W' (mat_apply M (wscale Wt P)))) (Some W')
                 end) pieces Ms.
Proof.
  unfold c_split. fold (split_nodes_of c nodes). intro H.
  destruct (ksplit (ckv c) (split_nodes_of c nodes)) as [pieces|]; cbn [bind] in H; [|discriminate].
  destruct (split_curve (ckv c) (split_nodes_of c nodes)) as [Ms|]; cbn [bind] in H; [|discriminate].
  destruct (cP c) as [P|]; [|discriminate].
  inversion H. exists pieces, Ms, P. repeat split; reflexivity.
Qed.

(* S4, polynomial curves *)
Theorem c_split_spline c nodes cs (P : list (list Q)) d :
  c_split c nodes = Ok cs ->
  WF (kvec (ckv c)) (cdeg c) -> exact_mult (ckv c) (split_nodes_of c nodes) ->
  cP c = Some P -> cW c = None ->
  length P = cnpts c -> Forall (fun pt : list Q => length pt = d) P ->
  exists pieces, ksplit (ckv c) (split_nodes_of c nodes) = Ok pieces /\ length cs = length pieces /\
    forall m, (m < length cs)%nat ->
      ckv (nth m cs c) = nth m pieces (ckv c) /\ cW (nth m cs c) = None /\
      exists Pm, cP (nth m cs c) = Some Pm /\ length Pm = cnpts (nth m cs c) /\
        forall u, kumin (ckv (nth m cs c)) <= u ->
          (u < kumax (ckv (nth m cs c)) \/ (u <= kumax (ckv (nth m cs c)) /\ S m = length cs)) ->
          Forall2 Qeq (curve_spec (kvec (ckv (nth m cs c))) (cdeg c) d Pm u)
                      (curve_spec (kvec (ckv c)) (cdeg c) d P u).
Proof.
  intros H W Hex HP HW HL HPd. unfold cdeg, cnpts in *.
  destruct (c_split_inv c nodes cs H) as (pieces & Ms & P' & Hks & Hsc & HP' & Ecs).
  rewrite HP in HP'. inversion HP'; subst P'. rewrite HW in Ecs.
  destruct (split_curve_restrict (ckv c) _ Ms pieces W Hex Hsc Hks) as [LM HR].
  assert (Lcs : length cs = length pieces).
  { rewrite Ecs, map2_length. unfold mat in *. rewrite LM. apply Nat.min_id. }
  exists pieces. split; [exact Hks|]. split; [exact Lcs|].
  intros m Hm.
  assert (Em : nth m cs c = mkcurve (nth m pieces (ckv c)) (Some (mat_apply (nth m Ms []) P)) None).
  { rewrite Ecs. unfold mat in *. rewrite (nth_map2 _ (ckv c) [] c) by lia. reflexivity. }
  rewrite Em. cbn [ckv cP cW].
  destruct (HR m ltac:(lia)) as [LMm HRm].
  split; [reflexivity|]. split; [reflexivity|].
  exists (mat_apply (nth m Ms []) P). split; [reflexivity|].
  split; [rewrite mat_apply_length; exact LMm|].
  intros u Hu1 Hu2.
  apply (transform_spline _ _ _ (knpts (ckv c)) d (nth m Ms []) u (wf_knpts_pos _ W)); try assumption.
  intros Pv HPv. apply HRm; [exact HPv | exact Hu1 |].
  destruct Hu2 as [A|[A B]]; [left; exact A | right; split; [exact A | lia]].
Qed.

(* S4, rational curves (weights whose images are non-zero, e.g. positive weights) *)
Theorem c_split_rational c nodes cs (P : list (list Q)) (Wt : list Q) d :
  c_split c nodes = Ok cs ->
  WF (kvec (ckv c)) (cdeg c) -> exact_mult (ckv c) (split_nodes_of c nodes) ->
  cP c = Some P -> cW c = Some Wt ->
  length P = cnpts c -> length Wt = cnpts c -> Forall (fun pt : list Q => length pt = d) P ->
  Forall (fun w => 0 < w) Wt ->
  exists pieces, ksplit (ckv c) (split_nodes_of c nodes) = Ok pieces /\ length cs = length pieces /\
    forall m, (m < length cs)%nat ->
      ckv (nth m cs c) = nth m pieces (ckv c) /\
      exists Pm Wm, cP (nth m cs c) = Some Pm /\ cW (nth m cs c) = Some Wm /\
        length Pm = cnpts (nth m cs c) /\ length Wm = cnpts (nth m cs c) /\
        Forall (fun w => 0 < w) Wm /\
        forall u, kumin (ckv (nth m cs c)) <= u ->
          (u < kumax (ckv (nth m cs c)) \/ (u <= kumax (ckv (nth m cs c)) /\ S m = length cs)) ->
          Forall2 Qeq (rational_spec (kvec (ckv (nth m cs c))) (cdeg c) d Wm Pm u)
                      (rational_spec (kvec (ckv c)) (cdeg c) d Wt P u).
Proof.
  intros H W Hex HP HW HL HWl HPd Hpos. unfold cdeg, cnpts in *.
  destruct (c_split_inv c nodes cs H) as (pieces & Ms & P' & Hks & Hsc & HP' & Ecs).
  rewrite HP in HP'. inversion HP'; subst P'. rewrite HW in Ecs.
  destruct (split_curve_restrict (ckv c) _ Ms pieces W Hex Hsc Hks) as [LM HR].
  assert (Lcs : length cs = length pieces).
  { rewrite Ecs, map2_length. unfold mat in *. rewrite LM. apply Nat.min_id. }
  exists pieces. split; [exact Hks|]. split; [exact Lcs|].
  intros m Hm.
  set (Mm := nth m Ms []).
  assert (Em : nth m cs c = mkcurve (nth m pieces (ckv c))
                 (Some (wunscale (mvec Mm Wt) (mat_apply Mm (wscale Wt P)))) (Some (mvec Mm Wt))).
  { rewrite Ecs. unfold mat in *. rewrite (nth_map2 _ (ckv c) [] c) by lia. reflexivity. }
  rewrite Em. cbn [ckv cP cW].
  destruct (HR m ltac:(lia)) as [LMm HRm]. fold Mm in LMm, HRm.
  assert (Hin : In Mm Ms) by (apply nth_In; unfold mat in *; lia).
  pose proof (split_curve_pos (ckv c) _ Ms Wt W Hsc HWl Hpos Mm Hin) as Hpm.
  assert (Hnz : existsb (fun w => Qeqb w 0) (mvec Mm Wt) = false).
  { destruct (existsb (fun w => Qeqb w 0) (mvec Mm Wt)) eqn:E; [|reflexivity]. exfalso.
    apply existsb_exists in E. destruct E as (w & Hw & Ew). apply Qeqb_eq in Ew.
    rewrite Forall_forall in Hpm. specialize (Hpm w Hw). lra. }
  split; [reflexivity|].
  exists (wunscale (mvec Mm Wt) (mat_apply Mm (wscale Wt P))), (mvec Mm Wt).
  split; [reflexivity|]. split; [reflexivity|].
  split; [unfold wunscale; rewrite map2_length, mvec_length, mat_apply_length, LMm; apply Nat.min_id|].
  split; [rewrite mvec_length; exact LMm|].
  split; [exact Hpm|].
  intros u Hu1 Hu2.
  apply (transform_rational _ _ _ (knpts (ckv c)) d Mm u (wf_knpts_pos _ W)); try assumption.
  intros Pv HPv. apply HRm; [exact HPv | exact Hu1 |].
  destruct Hu2 as [A|[A B]]; [left; exact A | right; split; [exact A | lia]].
Qed.

(* ================================================================== *)
(* Totality: inside the interval, knot_insert and split_curve answer   *)
(* ================================================================== *)
Definition tinv (k0 kc : kv) : Prop :=
  WF (kvec kc) (kdeg kc) /\ kdeg kc = kdeg k0 /\
  first_q (kvec kc) = first_q (kvec k0) /\ last_q (kvec kc) = last_q (kvec k0).

Lemma tinv_refl k : WF (kvec k) (kdeg k) -> tinv k k.
Proof. intro W. repeat split. exact W. Qed.

Lemma tinv_step k0 kc x : tinv k0 kc ->
  first_q (kvec k0) <= x -> x < last_q (kvec k0) ->
  (count_q x (kvec kc) < kdeg k0 + 1)%nat ->
  exists inc k2, one_knot_insert_once kc x = Ok inc /\ kinsert kc [x] = Ok k2 /\ tinv k0 k2 /\
    forall y, count_q y (kvec k2) = (count_q y (kvec kc) + cnt1 y x)%nat.
Proof.
  intros (W & D & F & L) H1 H2 Hc.
  assert (Hcl : in_closed kc x = true).
  { unfold in_closed. rewrite F, L. apply andb_true_iff. split; apply Qleb_le; lra. }
  assert (Hv : kvalid1 kc x = true) by (rewrite <- (in_closed_valid kc x W); exact Hcl).
  destruct (kspan_complete kc x W Hv) as [s Hs].
  pose proof (kspan_sound kc x s Hs) as Hok.
  assert (Hr : in_range (kvec kc) (kdeg kc) x = true) by (rewrite <- kvalid1_in_range; exact Hv).
  assert (Hx : x < umax_of (kvec kc) (kdeg kc)) by (rewrite (wf_umax_last _ _ W), L; exact H2).
  assert (Hx' : ~ x == umax_of (kvec kc) (kdeg kc)) by lra.
  rewrite <- D in Hc.
  pose proof (ins_kv_wf (kvec kc) (kdeg kc) W x s Hr Hx' Hok Hc) as W2.
  exists (ins_matrix (kvec kc) (kdeg kc) (knpts kc) s x), (mkkv (ins_kv (kvec kc) x) (kdeg kc)).
  split; [unfold one_knot_insert_once; rewrite Hcl, Hs; reflexivity|].
  split.
  { unfold kinsert. cbn [kvalid forallb]. rewrite Hv. cbn [andb].
    apply (make_of_wf _ _ W2). }
  split.
  - unfold tinv. cbn [kvec kdeg]. rewrite (ins_kv_insr _ _ W x).
    split; [rewrite <- (ins_kv_insr _ _ W x); exact W2|]. split; [exact D|]. split.
    + rewrite <- F. apply insr_first; [apply (InsertCompose.wf_nonempty _ _ W) | rewrite F; exact H1].
    + rewrite <- L. apply (insr_last_q _ _ x W Hx).
  - intro y. cbn [kvec]. rewrite (ins_kv_insr _ _ W x), count_q_insr. unfold cnt1. lia.
Qed.

Lemma tinv_loop k0 x : first_q (kvec k0) <= x -> x < last_q (kvec k0) ->
  forall times acc kc, tinv k0 kc -> (count_q x (kvec kc) + times <= kdeg k0 + 1)%nat ->
  exists M kf, one_knot_insert_loop times kc x acc = Ok (M, kf) /\ tinv k0 kf /\
    forall y, count_q y (kvec kf) = (count_q y (kvec kc) + times * cnt1 y x)%nat.
Proof.
  intros H1 H2. induction times as [|t IH]; intros acc kc Hi Hc; cbn [one_knot_insert_loop].
  - exists acc, kc. split; [reflexivity|]. split; [exact Hi|]. intro y. lia.
  - destruct (tinv_step k0 kc x Hi H1 H2 ltac:(lia)) as (inc & k2 & E1 & E2 & Hi2 & Hc2).
    rewrite E1, E2. cbn [bind].
    destruct (IH (mmul inc acc) k2 Hi2) as (M & kf & E & Hif & Hcf).
    { rewrite Hc2. unfold cnt1. assert (Qeqb x x = true) by (apply Qeqb_eq; reflexivity).
      rewrite H. lia. }
    exists M, kf. split; [exact E|]. split; [exact Hif|].
    intro y. rewrite Hcf, Hc2. lia.
Qed.

Lemma tinv_fold k0 nodes : forall l m kc, tinv k0 kc -> nodupq l ->
  (forall x, In x l -> first_q (kvec k0) <= x /\ x < last_q (kvec k0) /\ (0 < count_q x nodes)%nat /\
                      (count_q x (kvec kc) + count_q x nodes <= kdeg k0 + 1)%nat) ->
  exists r, fold_left (ki_step nodes) l (Ok (m, kc)) = Ok r.
Proof.
  induction l as [|x l IH]; intros m kc Hi Nd H; cbn [fold_left]; [eexists; reflexivity|].
  destruct (H x (or_introl eq_refl)) as (H1 & H2 & H3 & H4).
  destruct Hi as (W & D & F & L).
  destruct (tinv_loop k0 x H1 H2 (count_q x nodes) (ident (knpts kc)) kc
              (conj W (conj D (conj F L))) H4) as (M & kf & E & Hif & Hcf).
  assert (E1 : one_knot_insert kc x (count_q x nodes) = Ok (M, kf)).
  { unfold one_knot_insert, in_closed. rewrite F, L.
    assert (A : Qleb (first_q (kvec k0)) x && Qleb x (last_q (kvec k0)) = true)
      by (apply andb_true_iff; split; apply Qleb_le; lra).
    rewrite A. cbn [negb].
    destruct (Nat.eqb_spec (count_q x nodes) 0) as [Z|Z]; [lia | exact E]. }
  unfold ki_step at 2. cbn [bind]. rewrite E1. cbn [bind].
  apply (IH (mmul M m) kf Hif (nodupq_tail _ _ Nd)).
  intros y Hy. destruct (H y (or_intror Hy)) as (G1 & G2 & G3 & G4).
  repeat split; try assumption.
  rewrite Hcf. unfold cnt1. destruct (Qeqb_spec y x) as [Eyx|Eyx]; [exfalso|lia].
  pose proof (Nd y) as K. rewrite count_q_cons in K.
  pose proof (in_count_pos y y l Hy (Qeq_refl y)).
  assert (Qeqb y x = true) by (apply Qeqb_eq; exact Eyx). rewrite H5 in K. lia.
Qed.

Theorem knot_insert_total k nodes : WF (kvec k) (kdeg k) ->
  forallb (in_closed k) nodes = true ->
  (forall x, (count_q x (kvec k) + count_q x nodes <= kdeg k + 1)%nat) ->
  exists M, knot_insert k nodes = Ok M.
Proof.
  intros W Hcl Hc. rewrite knot_insert_full_fst. unfold knot_insert_full. rewrite Hcl. cbn [negb].
  destruct (tinv_fold k nodes (ki_nodes k nodes) (ident (knpts k)) k (tinv_refl k W)) as [r E].
  - apply (split_nodes_nodup k nodes).
  - intros x Hx. pose proof (split_nodes_in k nodes x Hx) as Hn.
    pose proof (in_count_pos x x _ Hx (Qeq_refl x)) as P.
    apply (split_nodes_mem k nodes x) in P. destruct P as (P1 & P2 & P3).
    rewrite forallb_forall in Hcl. specialize (Hcl x Hn). unfold in_closed in Hcl.
    apply andb_true_iff in Hcl. destruct Hcl as [A B]. apply Qleb_le in A. apply Qleb_le in B.
    repeat split; [exact A | | exact P1 | apply Hc].
    destruct (Qlt_le_dec x (last_q (kvec k))) as [Lt|Ge]; [exact Lt|]. exfalso. apply P3. lra.
  - rewrite E. cbn [bind]. eexists. reflexivity.
Qed.

Theorem split_curve_total k nodes : WF (kvec k) (kdeg k) -> kvalid k nodes = true ->
  exists Ms, split_curve k nodes = Ok Ms.
Proof.
  intros W Hval. set (p := kdeg k). set (cuts := split_nodes k nodes).
  assert (Hcv : forall x, In x cuts -> kvalid1 k x = true).
  { intros x Hx. unfold kvalid in Hval. rewrite forallb_forall in Hval.
    apply Hval, (split_nodes_in k nodes x Hx). }
  (* 1. the multiplicities *)
  destruct (mapM_total (fun x => do m <- kmult k x; Ok (repeat x (kdeg k + 1 - m))) cuts) as [many Hmany].
  { intros x Hx. unfold kmult. rewrite (Hcv x Hx). cbn [bind]. eexists. reflexivity. }
  pose proof (many_eq k nodes many Hmany) as Em. fold cuts p in Em.
  set (mn := concat many).
  assert (Hmn_in : forall y, In y mn -> In y cuts).
  { intros y Hy. unfold mn in Hy. rewrite Em in Hy. apply in_concat in Hy.
    destruct Hy as (l & Hl & Hy). apply in_map_iff in Hl. destruct Hl as (x & <- & Hx).
    apply repeat_spec in Hy. subst y. exact Hx. }
  assert (Hmn_count : forall y, count_q y mn =
            if existsb (Qeqb y) cuts then (p + 1 - kmult_raw (kvec k) y)%nat else 0%nat).
  { intro y. unfold mn. rewrite Em.
    rewrite (concat_repeat_expand (fun x => (p + 1 - kmult_raw (kvec k) x)%nat)).
    apply (count_expand_map _ (fun x => (p + 1 - kmult_raw (kvec k) x)%nat)).
    - intros x x' E. rewrite E. reflexivity.
    - apply split_nodes_nodup.
    - reflexivity. }
  assert (Hbound : forall y, (count_q y (kvec k) + count_q y mn <= p + 1)%nat).
  { intro y. rewrite Hmn_count. pose proof (mult_ge (kvec k) y). pose proof (wf_count_le _ _ W y).
    fold p in H0. destruct (existsb (Qeqb y) cuts); lia. }
  assert (Hmn_val : kvalid k mn = true).
  { unfold kvalid. apply forallb_forall. intros y Hy. apply Hcv, Hmn_in, Hy. }
  (* 2. the refined vector *)
  destruct (wf_parts _ _ W) as (Sk & Lk & Cf & Cl). fold p in Lk, Cf, Cl.
  assert (Wv : WF (sortq (kvec k ++ mn)) p).
  { assert (Ef : first_q (sortq (kvec k ++ mn)) == first_q (kvec k)).
    { apply (sorted_perm_first _ (kvec k ++ mn)); [apply sortq_sorted | apply sortq_perm | |].
      - apply in_or_app. left. apply first_q_in. lia.
      - intros y Hy. apply in_app_or in Hy. destruct Hy as [Hy|Hy];
          [apply sorted_first_le; assumption|].
        destruct (kvalid_bounds k mn y Hmn_val Hy) as [A _]. rewrite <- (kumin_first k W). exact A. }
    assert (El : last_q (sortq (kvec k ++ mn)) == last_q (kvec k)).
    { apply (sorted_perm_last _ (kvec k ++ mn)); [apply sortq_sorted | apply sortq_perm | |].
      - apply in_or_app. left. apply last_q_in. lia.
      - intros y Hy. apply in_app_or in Hy. destruct Hy as [Hy|Hy];
          [apply UnionProofs.sorted_le_last; assumption|].
        destruct (kvalid_bounds k mn y Hmn_val Hy) as [_ A]. rewrite <- (kumax_last k W). exact A. }
    assert (Z1 : count_q (first_q (kvec k)) mn = 0%nat).
    { rewrite Hmn_count. unfold cuts. rewrite (cuts_not_first k nodes). reflexivity. }
    assert (Z2 : count_q (last_q (kvec k)) mn = 0%nat).
    { rewrite Hmn_count.
      destruct (existsb (Qeqb (last_q (kvec k))) cuts) eqn:E; [exfalso|reflexivity].
      rewrite existsb_count in E. apply negb_true_iff, Nat.eqb_neq in E.
      assert (P : (0 < count_q (last_q (kvec k)) cuts)%nat) by lia.
      apply (split_nodes_mem k nodes) in P. destruct P as (_ & _ & N). apply N. reflexivity. }
    apply wf_intro.
    - apply sortq_sorted.
    - rewrite sortq_length, app_length. lia.
    - rewrite Ef, count_q_sortq, count_q_app, Z1. lia.
    - rewrite El, count_q_sortq, count_q_app, Z2. lia.
    - intros y _. rewrite count_q_sortq, count_q_app. apply Hbound. }
  set (big := mkkv (sortq (kvec k ++ mn)) p).
  assert (Hbig : kinsert k mn = Ok big).
  { unfold kinsert. rewrite Hmn_val. apply (make_of_wf _ _ Wv). }
  (* 3. the matrix *)
  destruct (knot_insert_total k mn W) as [bigm Hbigm].
  { rewrite (forallb_in_closed k mn W). exact Hmn_val. }
  { exact Hbound. }
  (* 4. the pieces *)
  assert (Wb : WF (kvec big) (kdeg big)) by exact Wv.
  assert (Hval' : kvalid big cuts = true).
  { unfold kvalid. apply forallb_forall. intros x Hx. apply valid_iff.
    rewrite <- kumin_umin, <- kumax_umax.
    rewrite (big_kumin k many big W Hbig), (big_kumax k many big W Hbig).
    pose proof (Hcv x Hx) as V. apply valid_iff in V. rewrite <- kumin_umin, <- kumax_umax in V.
    exact V. }
  destruct (ksplit_total big cuts Wb Hval') as [pieces' Hks].
  destruct (ksplit_structure big cuts pieces' Wb Hks) as (Lp & _ & _ & Hst).
  destruct (mapM_total (fun piece : kv => do s <- kspan big (kumin piece);
              Ok (firstn (knpts piece) (skipn (s - kdeg k) bigm))) pieces') as [Ms HMs].
  { intros pc Hpc. destruct (In_nth _ _ big Hpc) as (m & Hm & <-).
    destruct (Hst m Hm) as (_ & _ & _ & Emin & _).
    assert (V : kvalid1 big (kumin (nth m pieces' big)) = true).
    { apply valid_iff. rewrite <- kumin_umin, <- kumax_umax, Emin.
      apply (cp_bounds big cuts Wb Hval'). apply nth_In. lia. }
    destruct (kspan_complete big _ Wb V) as [s Hs]. rewrite Hs. cbn [bind]. eexists. reflexivity. }
  exists Ms. unfold split_curve. rewrite (forallb_in_closed k nodes W), Hval. cbn [negb]. cbv zeta.
  fold cuts. rewrite Hmany. cbn [bind]. fold mn. rewrite Hbig, Hbigm. cbn [bind].
  rewrite Hks. cbn [bind]. exact HMs.
Qed.

(* split_curve refuses exactly when a node is outside the interval, and then with AssertionError *)
Theorem split_curve_refuses k nodes : WF (kvec k) (kdeg k) ->
  (kvalid k nodes = false -> split_curve k nodes = Err AssertionError) /\
  (forall e, split_curve k nodes = Err e -> e = AssertionError /\ kvalid k nodes = false).
Proof.
  intro W. split; [apply split_curve_outside, W|].
  intros e H. destruct (kvalid k nodes) eqn:Hval.
  - destruct (split_curve_total k nodes W Hval) as [Ms E]. congruence.
  - rewrite (split_curve_outside k nodes W Hval) in H. inversion H. split; reflexivity.
Qed.

(* ================================================================== *)
(* Non-vacuity: the hypotheses are satisfiable                         *)
(* ================================================================== *)
(* degree 2, knots [0;0;0;1/2;1;1;1] (EvalProofs.ex_kv), split at 1/4 *)
Definition sp_nodes : list Q := [1#4].
Definition sp_big : list Q := [0; 0; 0; 1#4; 1#4; 1#4; 1#2; 1; 1; 1].
Definition sp_piece : list Q := [1#4; 1#4; 1#4; 1#2; 1; 1; 1].

(* S1 *)
Example sp_seq_hyps :
  mono (nthq sp_big) /\ nthq sp_big (3 + 3) <= 3#4 /\ 3#4 < nthq sp_big (S 3 + 3) /\
  ~ 3#4 == nthq sp_big 7 /\ ~ 3#4 == nthq sp_big (4 + 3).
Proof.
  split; [intro i; apply sorted_mono; reflexivity|].
  split; [apply Qleb_le; reflexivity|].
  split; [apply Qltb_lt; reflexivity|].
  split; apply Qeqb_neq; reflexivity.
Qed.

Example sp_seq : forall j i,
  N (fun m => nthq sp_big (m + 3)) 4 j i (3#4) == N (nthq sp_big) 7 j (i + 3) (3#4).
Proof.
  destruct sp_seq_hyps as (A & B & C & D & E).
  exact (N_shift (nthq sp_big) 7 4 3 3 (3#4) A B C D E).
Qed.

(* S2 *)
Example sp_piece_hyps :
  WF sp_big 2 /\ (1#4) < 1 /\ count_q (1#4) sp_big = 3%nat /\ count_q 1 sp_big = 3%nat /\
  is_piece sp_big 2 (1#4) 1 sp_piece /\ lower_of sp_big (1#4) = 3%nat /\ 1 == last_q sp_big.
Proof.
  split; [reflexivity|]. split; [reflexivity|]. split; [reflexivity|]. split; [reflexivity|].
  split; [|split; reflexivity].
  change sp_piece with (piece_of sp_big 2 (1#4) 1). apply piece_of_is_piece; reflexivity.
Qed.

Example sp_piece_curve : forall Qv u, 1#4 <= u -> u <= 1 ->
  curve_spec1 sp_piece 2 (firstn 4 (skipn 3 Qv)) u == curve_spec1 sp_big 2 Qv u.
Proof.
  intros Qv u Hu1 Hu2. destruct sp_piece_hyps as (W & Hab & Ca & Cb & IP & _ & El).
  apply (split_curve_spec sp_big 2 (1#4) 1 sp_piece W Hab IP Ca Cb u Hu1).
  right. split; assumption.
Qed.

(* S3 / S4 *)
Example sp_exact : exact_mult ex_kv sp_nodes.
Proof. intros x [<-|[]]. vm_compute. reflexivity. Qed.

Example sp_split_ok :
  match split_curve ex_kv sp_nodes, ksplit ex_kv sp_nodes, c_split ex_curve (Some sp_nodes) with
  | Ok Ms, Ok pieces, Ok cs =>
      Nat.eqb (length Ms) 2 && Nat.eqb (length pieces) 2 && Nat.eqb (length cs) 2
      && ql_eqb (kvec (nth 0 pieces ex_kv)) [0; 0; 0; 1#4; 1#4; 1#4]
      && ql_eqb (kvec (nth 1 pieces ex_kv)) sp_piece
  | _, _, _ => false
  end = true.
Proof. vm_compute. reflexivity. Qed.

Example sp_split_restrict : forall Ms pieces,
  split_curve ex_kv sp_nodes = Ok Ms -> ksplit ex_kv sp_nodes = Ok pieces ->
  length Ms = length pieces /\
  forall m, (m < length pieces)%nat ->
    length (nth m Ms []) = knpts (nth m pieces ex_kv) /\
    forall P u, length P = knpts ex_kv ->
      kumin (nth m pieces ex_kv) <= u ->
      (u < kumax (nth m pieces ex_kv) \/ (u <= kumax (nth m pieces ex_kv) /\ S m = length pieces)) ->
      curve_spec1 (kvec (nth m pieces ex_kv)) 2 (mvec (nth m Ms []) P) u
      == curve_spec1 (kvec ex_kv) 2 P u.
Proof.
  intros Ms pieces. destruct ex_hyps as (W & _).
  exact (split_curve_restrict ex_kv sp_nodes Ms pieces W sp_exact).
Qed.

(* The hypothesis exact_mult cannot be dropped: split_curve measures the multiplicity of a node with
   the tolerance tol_mult.  A node closer than tol_mult to a DOUBLE knot of a degree-2 vector is
   inserted only once; the second matrix then does not reproduce the curve exactly. *)
Definition bad_k : kv := mkkv [0; 0; 0; 1#2; 1#2; 1; 1; 1] 2.
Definition bad_nodes : list Q := [Qred ((1#2) + Gen.Consts.tol_mult / 2)].

Example split_needs_exact_mult :
  WF (kvec bad_k) (kdeg bad_k) /\
  match split_curve bad_k bad_nodes, ksplit bad_k bad_nodes with
  | Ok Ms, Ok pieces =>
      Qleb (kumin (nth 1 pieces bad_k)) (3#4) && Qltb (3#4) (kumax (nth 1 pieces bad_k))
      && negb (Qeqb (curve_spec1 (kvec (nth 1 pieces bad_k)) 2 (mvec (nth 1 Ms []) [0; 0; 0; 1; 0]) (3#4))
                    (curve_spec1 (kvec bad_k) 2 [0; 0; 0; 1; 0] (3#4)))
  | _, _ => false
  end = true.
Proof. split; vm_compute; reflexivity. Qed.

Print Assumptions Nloc_window.
Print Assumptions N_window.
Print Assumptions N_shift.
Print Assumptions Nspec_restrict.
Print Assumptions Nspec_outside.
Print Assumptions curve_restrict.
Print Assumptions piece_wf.
Print Assumptions piece_decomp.
Print Assumptions split_basis.
Print Assumptions split_basis_outside.
Print Assumptions split_curve_spec.
Print Assumptions lower_of_first.
Print Assumptions split_restrict_piece_of.
Print Assumptions ksplit_structure.
Print Assumptions ksplit_refuses.
Print Assumptions split_curve_outside.
Print Assumptions split_curve_inside.
Print Assumptions split_curve_restrict.
Print Assumptions split_curve_pos.
Print Assumptions knot_insert_total.
Print Assumptions split_curve_total.
Print Assumptions split_curve_refuses.
Print Assumptions c_split_spline.
Print Assumptions c_split_rational.
Print Assumptions sp_split_restrict.
Print Assumptions split_needs_exact_mult.
