(* Boehm's knot-insertion identity on the span-local recursion, for every degree and index. *)
From Coq Require Import QArith List Lia Lqa Arith Bool Setoid.
From NurbsV Require Import Proofs.Local.
Open Scope Q_scope.

(* inserted sequence *)
Definition ins (U : nat -> Q) (k : nat) (x : Q) : nat -> Q :=
  fun i => if (i <=? k)%nat then U i else if (i =? S k)%nat then x else U (pred i).

Definition alpha (U : nat -> Q) (k : nat) (x : Q) (j i : nat) : Q :=
  if (i + j <=? k)%nat then 1
  else if (i <=? k)%nat then (x - U i) / (U (i + j)%nat - U i)
  else 0.

Definition newspan (U : nat -> Q) (k : nat) (x u : Q) (s : nat) : nat :=
  if (s <? k)%nat then s
  else if (s =? k)%nat then (if Qlt_le_dec u x then k else S k)
  else S s.

Section Boehm.
Variable U : nat -> Q.
Variable k : nat.
Variable x : Q.
Hypothesis HU : mono U.
Hypothesis Hx1 : U k <= x.
Hypothesis Hx2 : x < U (S k).
Let V := ins U k x.

Lemma V_le i : (i <= k)%nat -> V i = U i.
Proof. intros. unfold V, ins. destruct (Nat.leb_spec i k); [reflexivity | lia]. Qed.
Lemma V_mid : V (S k) = x.
Proof. unfold V, ins. destruct (Nat.leb_spec (S k) k); [lia|]. rewrite Nat.eqb_refl. reflexivity. Qed.
Lemma V_gt i : (S k < i)%nat -> V i = U (pred i).
Proof. intros. unfold V, ins. destruct (Nat.leb_spec i k); [lia|].
  destruct (Nat.eqb_spec i (S k)); [lia | reflexivity]. Qed.
Lemma V_gt' i : (k < i)%nat -> V (S i) = U i.
Proof. intros. rewrite V_gt by lia. reflexivity. Qed.

Lemma V_mono : mono V.
Proof.
  intro i. destruct (lt_eq_lt_dec i k) as [[H|H]|H].
  - rewrite !V_le by lia. apply HU.
  - subst i. rewrite V_le, V_mid by lia. exact Hx1.
  - destruct (Nat.eq_dec i (S k)).
    + subst i. rewrite V_mid, V_gt by lia. cbn. lra.
    + rewrite !V_gt by lia. replace (pred (S i)) with (S (pred i)) by lia. apply HU.
Qed.

Variable s : nat.
Variable u : Q.
Hypothesis Hu1 : U s <= u.
Hypothesis Hu2 : u < U (S s).
Let s' := newspan U k x u s.

Lemma s'_ok : V s' <= u /\ u < V (S s').
Proof.
  unfold s', newspan.
  destruct (Nat.ltb_spec s k).
  - rewrite !V_le by lia. split; assumption.
  - destruct (Nat.eqb_spec s k).
    + subst s. destruct (Qlt_le_dec u x).
      * rewrite V_le, V_mid by lia. split; assumption.
      * rewrite V_mid, V_gt by lia. cbn. split; assumption.
    + rewrite (V_gt' s) by lia. rewrite (V_gt' (S s)) by lia. split; assumption.
Qed.

Lemma boehm_base : forall i,
  Nloc U s 0 i u == alpha U k x 0 i * Nloc V s' 0 i u + (1 - alpha U k x 0 (S i)) * Nloc V s' 0 (S i) u.
Proof.
  intro i. cbn [Nloc]. unfold alpha, s', newspan. rewrite !Nat.add_0_r.
  destruct (Nat.ltb_spec s k); [| destruct (Nat.eqb_spec s k); [destruct (Qlt_le_dec u x)|]];
  repeat match goal with
  | |- context [Nat.eqb ?a ?b] => destruct (Nat.eqb_spec a b)
  | |- context [Nat.leb ?a ?b] => destruct (Nat.leb_spec a b)
  end; try lia; try ring.
Qed.

(* activity facts for a general monotone sequence with a proper span *)
Lemma active_bounds (W : nat -> Q) (t : nat) (j i : nat) :
  mono W -> W t <= u -> u < W (S t) -> (t <= i + j)%nat -> (i <= t)%nat ->
  W i <= u /\ u < W (i + j + 1)%nat.
Proof.
  intros HW H1 H2 Ha Hb. split.
  - pose proof (mono_le W HW i t Hb). lra.
  - pose proof (mono_le W HW (S t) (i + j + 1)%nat ltac:(lia)). lra.
Qed.

Ltac nat_cases :=
  repeat match goal with
  | |- context [Nat.leb ?a ?b] => destruct (Nat.leb_spec a b)
  | |- context [Nat.eqb ?a ?b] => destruct (Nat.eqb_spec a b)
  end; try lia.

(* coefficient of N̂_{j',i} *)
Lemma coef0 j' i a0 :
  (a0 == 0 \/ (V i <= u /\ u < V (i + j' + 1)%nat)) ->
  (u - U i) / (U (i + S j')%nat - U i) * alpha U k x j' i * a0
  == alpha U k x (S j') i * ((u - V i) / (V (i + S j')%nat - V i)) * a0.
Proof.
  intros [Hz | [Ha Hb]]; [rewrite Hz; ring|].
  replace (i + j' + 1)%nat with (i + S j')%nat in Hb by lia.
  unfold alpha.
  destruct (le_lt_dec (i + S j') k) as [C1|C1].
  - (* everything left of k *)
    destruct (Nat.leb_spec (i + S j') k); [|lia]. destruct (Nat.leb_spec (i + j') k); [|lia].
    rewrite !V_le by lia. ring.
  - destruct (Nat.leb_spec (i + S j') k); [lia|].
    destruct (le_lt_dec i k) as [C2|C2].
    + destruct (Nat.leb_spec i k); [|lia].
      rewrite (V_le i) in * by lia.
      destruct (Nat.eq_dec (i + S j') (S k)) as [C3|C3].
      * (* i + j = k+1 *)
        destruct (Nat.leb_spec (i + j') k); [|lia].
        rewrite C3 in *. rewrite V_mid in *.
        pose proof (mono_le U HU i k C2).
        field. split; lra.
      * destruct (Nat.leb_spec (i + j') k); [lia|].
        replace (i + S j')%nat with (S (i + j')) in * by lia.
        rewrite (V_gt' (i + j')) in * by lia.
        pose proof (mono_le U HU (i + j') (S (i + j')) ltac:(lia)).
        field. split; lra.
    + destruct (Nat.leb_spec i k); [lia|]. destruct (Nat.leb_spec (i + j') k); [lia|]. ring.
Qed.

(* coefficient of N̂_{j',i+2} *)
Lemma coef2 j' i a2 :
  (a2 == 0 \/ (V (S (S i)) <= u /\ u < V (S (S i) + j' + 1)%nat)) ->
  (U (i + S j' + 1)%nat - u) / (U (i + S j' + 1)%nat - U (i + 1)%nat) * (1 - alpha U k x j' (S (S i))) * a2
  == (1 - alpha U k x (S j') (S i)) *
     ((V (S i + S j' + 1)%nat - u) / (V (S i + S j' + 1)%nat - V (S i + 1)%nat)) * a2.
Proof.
  intros [Hz | [Ha Hb]]; [rewrite Hz; ring|].
  replace (S (S i) + j' + 1)%nat with (S (i + S j' + 1)) in Hb by lia.
  replace (S i + S j' + 1)%nat with (S (i + S j' + 1)) by lia.
  replace (S i + 1)%nat with (S (S i)) by lia.
  replace (i + 1)%nat with (S i) by lia.
  unfold alpha.
  replace (S (S i) + j')%nat with (i + S j' + 1)%nat by lia.
  replace (S i + S j')%nat with (i + S j' + 1)%nat by lia.
  destruct (le_lt_dec (i + S j' + 1) k) as [C1|C1].
  - destruct (Nat.leb_spec (i + S j' + 1) k); [|lia]. ring.
  - destruct (Nat.leb_spec (i + S j' + 1) k); [lia|].
    rewrite (V_gt' (i + S j' + 1)) in * by lia.
    destruct (le_lt_dec (S i) k) as [C2|C2].
    + destruct (Nat.leb_spec (S i) k); [|lia].
      destruct (le_lt_dec (S (S i)) k) as [C3|C3].
      * destruct (Nat.leb_spec (S (S i)) k); [|lia].
        rewrite (V_le (S (S i))) in * by lia.
        pose proof (mono_le U HU (S i) (S (S i)) ltac:(lia)).
        field. split; lra.
      * destruct (Nat.leb_spec (S (S i)) k); [lia|].
        assert (E : S (S i) = S k) by lia. rewrite E in *.
        rewrite V_mid in *.
        assert (E2 : S i = k) by lia. rewrite E2 in *.
        field. split; lra.
    + destruct (Nat.leb_spec (S i) k); [lia|]. destruct (Nat.leb_spec (S (S i)) k); [lia|].
      rewrite (V_gt' (S i)) by lia. ring.
Qed.

(* coefficient of N̂_{j',i+1} *)
Lemma coef1 j' i a1 :
  (a1 == 0 \/ (V (S i) <= u /\ u < V (S i + j' + 1)%nat)) ->
  ( (u - U i) / (U (i + S j')%nat - U i) * (1 - alpha U k x j' (S i))
  + (U (i + S j' + 1)%nat - u) / (U (i + S j' + 1)%nat - U (i + 1)%nat) * alpha U k x j' (S i) ) * a1
  ==
  ( alpha U k x (S j') i * ((V (i + S j' + 1)%nat - u) / (V (i + S j' + 1)%nat - V (i + 1)%nat))
  + (1 - alpha U k x (S j') (S i)) * ((u - V (S i)) / (V (S i + S j')%nat - V (S i))) ) * a1.
Proof.
  intros [Hz | [Ha Hb]]; [rewrite Hz; ring|].
  replace (S i + j' + 1)%nat with (i + S j' + 1)%nat in Hb by lia.
  replace (S i + S j')%nat with (i + S j' + 1)%nat by lia.
  replace (i + 1)%nat with (S i) by lia.
  unfold alpha.
  replace (S i + j')%nat with (i + S j')%nat by lia.
  replace (S i + S j')%nat with (i + S j' + 1)%nat by lia.
  destruct (le_lt_dec (i + S j' + 1) k) as [C1|C1].
  - (* A: all left *)
    destruct (Nat.leb_spec (i + S j' + 1) k); [|lia]. destruct (Nat.leb_spec (i + S j') k); [|lia].
    rewrite !V_le by lia. ring.
  - destruct (Nat.leb_spec (i + S j' + 1) k); [lia|].
    destruct (le_lt_dec (i + S j') k) as [C2|C2].
    + (* B: i + j = k *)
      destruct (Nat.leb_spec (i + S j') k); [|lia].
      destruct (Nat.leb_spec (S i) k); [|lia].
      assert (E : (i + S j' + 1)%nat = S k) by lia. rewrite E in *.
      rewrite V_mid in *. rewrite (V_le (S i)) in * by lia.
      match goal with |- (?A * (1 - 1) + ?B * 1) * _ == _ =>
        setoid_replace (A * (1 - 1) + B * 1) with B by ring end.
      field. split; lra.
    + destruct (Nat.leb_spec (i + S j') k); [lia|].
      replace (i + S j' + 1)%nat with (S (i + S j')) in * by lia.
      rewrite (V_gt' (i + S j')) in * by lia.
      destruct (le_lt_dec i k) as [C3|C3].
      * destruct (Nat.leb_spec i k); [|lia].
        destruct (le_lt_dec (S i) k) as [C4|C4].
        -- (* C1 *)
           destruct (Nat.leb_spec (S i) k); [|lia].
           rewrite (V_le (S i)) in * by lia.
           pose proof (HU i). pose proof (HU (i + S j')%nat).
           field. split; [|split]; lra.
        -- (* C2: i = k *)
           destruct (Nat.leb_spec (S i) k); [lia|].
           assert (E : i = k) by lia. rewrite E in *.
           rewrite V_mid in *.
           match goal with |- (?A * (1 - 0) + ?B * 0) * _ == _ =>
             setoid_replace (A * (1 - 0) + B * 0) with A by ring end.
           field. split; lra.
      * (* D *)
        destruct (Nat.leb_spec i k); [lia|]. destruct (Nat.leb_spec (S i) k); [lia|].
        rewrite (V_gt' i) in * by lia. ring.
Qed.

Lemma V_active j' i :
  (s' <= i + j')%nat -> (i <= s')%nat -> V i <= u /\ u < V (i + j' + 1)%nat.
Proof.
  intros. destruct s'_ok as [A B].
  apply (active_bounds V s' j' i V_mono A B); assumption.
Qed.

Lemma Vloc_cases j' i :
  Nloc V s' j' i u == 0 \/ (V i <= u /\ u < V (i + j' + 1)%nat).
Proof.
  destruct (le_lt_dec s' (i + j')); [destruct (le_lt_dec i s')|].
  - right. apply V_active; assumption.
  - left. apply Nloc_zero. lia.
  - left. apply Nloc_zero. lia.
Qed.

Theorem boehm : forall j i,
  Nloc U s j i u == alpha U k x j i * Nloc V s' j i u + (1 - alpha U k x j (S i)) * Nloc V s' j (S i) u.
Proof.
  induction j as [|j' IH]; intro i.
  - apply boehm_base.
  - cbn [Nloc]. rewrite (IH i), (IH (S i)).
    pose proof (coef0 j' i _ (Vloc_cases j' i)) as E0.
    pose proof (coef1 j' i _ (Vloc_cases j' (S i))) as E1.
    pose proof (coef2 j' i _ (Vloc_cases j' (S (S i)))) as E2.
    set (a0 := Nloc V s' j' i u) in *.
    set (a1 := Nloc V s' j' (S i) u) in *.
    set (a2 := Nloc V s' j' (S (S i)) u) in *.
    replace (S i + S j')%nat with (i + S j' + 1)%nat in * by lia.
    replace (S i + S j' + 1)%nat with (S (i + S j' + 1)) in * by lia.
    replace (S i + 1)%nat with (S (S i)) in * by lia.
    match goal with |- ?L == ?R =>
      assert (HL : L == (u - U i) / (U (i + S j')%nat - U i) * alpha U k x j' i * a0
        + ((u - U i) / (U (i + S j')%nat - U i) * (1 - alpha U k x j' (S i))
           + (U (i + S j' + 1)%nat - u) / (U (i + S j' + 1)%nat - U (i + 1)%nat) * alpha U k x j' (S i)) * a1
        + (U (i + S j' + 1)%nat - u) / (U (i + S j' + 1)%nat - U (i + 1)%nat) * (1 - alpha U k x j' (S (S i))) * a2) by ring
    end.
    rewrite HL, E0, E1, E2. ring.
Qed.
End Boehm.
