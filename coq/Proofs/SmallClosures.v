(* Three small closures.
   S1  separated knots are exact knots: [UnionProofs.separated (kvec k)] implies [IntegralProofs.knots_exact k];
       the L2 theorem [grams_of_L2] restated under the separation hypothesis.
   S2  degree_clean undoes the degree elevation of a Bezier curve:
       the loop [decrease_while] ends by refusal (never by exhaustion of its fuel), every accepted step lowers the
       degree by one, and on an elevated Bezier curve it passes through the original curve.
   S3  examples. *)
From Coq Require Import QArith Qabs List Bool Arith Lia Lqa Setoid Morphisms Permutation.
From NurbsV Require Import Base.Res Base.QList Spec.BSpline Spec.KnotSpec Gen.Consts Model.KV Model.Basis
  Model.CurveM Model.Ops Model.CurveOps Model.Linalg Model.Quadrature Model.LeastSq Model.CurveLS.
From NurbsV Require Import Proofs.KVProofs Proofs.EvalProofs Proofs.InsertBasic Proofs.InsertList
  Proofs.InsertCompose Proofs.InsertCurve Proofs.RemoveBasic Proofs.MatProofs Proofs.LSProofs
  Proofs.UndoProofs Proofs.GenericUndo Proofs.EqBasic Proofs.EqInvariance Proofs.LinIndep
  Proofs.LinIndepCurves Proofs.StateProofs Proofs.SplitProofs Proofs.CleanProofs Proofs.BezierProofs.
From NurbsV Require Proofs.UnionProofs Proofs.GenProofs Proofs.IntegralProofs.
Import ListNotations.
Open Scope Q_scope.

(* ------------------------------------------------------------------ *)
(* S1. separated knots are exact knots                                  *)
(* ------------------------------------------------------------------ *)
Theorem separated_knots_exact k :
  WF (kvec k) (kdeg k) -> UnionProofs.separated (kvec k) -> IntegralProofs.knots_exact k.
Proof.
  intros W S y Hy. destruct (UnionProofs.kknots_cover k y W S Hy) as (y' & Hy' & E).
  exists y'. split; [exact Hy'|]. symmetry. exact E.
Qed.

Import IntegralProofs.

Corollary grams_of_L2_separated kold knew g :
  WF (kvec kold) (kdeg kold) -> WF (kvec knew) (kdeg knew) ->
  UnionProofs.separated (kvec kold) -> UnionProofs.separated (kvec knew) ->
  kumin kold == kumin knew -> kumax kold == kumax knew ->
  grams_of kold knew = Ok g ->
  let PF se j := NlocP (nthq (kvec kold)) (span_at (kvec kold) (fst se)) (kdeg kold) j in
  let PG se i := NlocP (nthq (kvec knew)) (span_at (kvec knew) (fst se)) (kdeg knew) i in
  (forall i j, (i < knpts knew)%nat -> (j < knpts kold)%nat ->
     entry (gGF g) i j
     == qsum (map (fun se => pint (fst se) (snd se) (pmul (PG se i) (PF se j))) (ls_cells kold knew))) /\
  ((kdeg kold <= kdeg knew + 2)%nat ->
   forall i j, (i < knpts kold)%nat -> (j < knpts kold)%nat ->
     entry (gFF g) i j
     == qsum (map (fun se => pint (fst se) (snd se) (pmul (PF se i) (PF se j))) (ls_cells kold knew))) /\
  ((kdeg knew <= kdeg kold + 2)%nat ->
   forall i j, (i < knpts knew)%nat -> (j < knpts knew)%nat ->
     entry (gGG g) i j
     == qsum (map (fun se => pint (fst se) (snd se) (pmul (PG se i) (PG se j))) (ls_cells kold knew))).
Proof.
  intros Wo Wn So Sn Emin Emax H.
  exact (grams_of_L2 kold knew g Wo Wn (separated_knots_exact kold Wo So) (separated_knots_exact knew Wn Sn) Emin Emax H).
Qed.

Print Assumptions separated_knots_exact.
Print Assumptions grams_of_L2_separated.

(* ------------------------------------------------------------------ *)
(* S2a. the degree-clean loop ends by refusal                           *)
(* ------------------------------------------------------------------ *)
(* the first element of a list always survives __get_unique *)
Lemma get_unique_head x l : In x (get_unique (x :: l)).
Proof.
  unfold get_unique. apply (Permutation_in _ (Permutation_sym (sortq_perm _))).
  cbn [get_unique_aux existsb app]. apply UnionProofs.aux_acc_sub. left. reflexivity.
Qed.

(* the first knot is one of the distinct knots, once *)
Lemma kknots_first_once k : WF (kvec k) (kdeg k) -> count_q (first_q (kvec k)) (kknots k) = 1%nat.
Proof.
  intro W. destruct (wf_parts _ _ W) as (Hs & Hl & Hf & Hla).
  pose proof (UnionProofs.kknots_nodupq k (first_q (kvec k))) as Hle.
  assert (Hpos : (0 < count_q (first_q (kvec k)) (kknots k))%nat); [|lia].
  unfold kknots, slice, knpts.
  pose proof (nth_skipn_plus (kvec k) 0 (kdeg k) 0) as Hn.
  destruct (skipn (kdeg k) (kvec k)) as [|x r] eqn:Esk.
  { exfalso. pose proof (skipn_length (kdeg k) (kvec k)) as L. rewrite Esk in L. cbn [length] in L. lia. }
  replace (length (kvec k) - kdeg k - 1 + 1 - kdeg k)%nat with (S (length (kvec k) - 2 * kdeg k - 1)) by lia.
  cbn [firstn]. apply (UnionProofs.in_count_pos _ x); [apply get_unique_head|].
  cbn [nth] in Hn. rewrite Hn, Nat.add_0_r.
  rewrite <- (nthq_in_range (kvec k) (kdeg k) 0) by lia.
  rewrite (wf_first_block _ _ W (kdeg k)) by lia.
  unfold first_q. rewrite (nthq_in_range (kvec k) 0 0) by lia. reflexivity.
Qed.

(* lowering the degree by one through the degree setter does lower it by one *)
Lemma kset_degree_pred k knew : WF (kvec k) (kdeg k) -> (1 <= kdeg k)%nat ->
  kset_degree k (kdeg k - 1) = Ok knew -> kdeg knew = (kdeg k - 1)%nat /\ WF (kvec knew) (kdeg knew).
Proof.
  intros W Hp H. unfold kset_degree in H.
  assert (E1 : (kdeg k - 1 <? kdeg k)%nat = true) by (apply Nat.ltb_lt; lia).
  rewrite E1 in H. replace (kdeg k - (kdeg k - 1))%nat with 1%nat in H by lia.
  destruct (kremove_spec _ _ _ H) as [R Wn]. split; [|exact Wn].
  destruct (wf_parts _ _ W) as (Hs & Hl & Hf & Hla).
  destruct (wf_parts _ _ Wn) as (Hsn & Hln & Hfn & Hlan).
  set (f := first_q (kvec k)) in *.
  pose proof (count_q_remove_all f _ _ _ R) as C.
  unfold repeat_list in C. cbn [repeat concat] in C. rewrite app_nil_r in C.
  unfold f in C at 3. rewrite (kknots_first_once k W) in C. fold f in C.
  assert (Cn : count_q f (kvec knew) = kdeg k) by lia.
  (* the first knot of the new vector is the old one *)
  assert (Ef : first_q (kvec knew) == f).
  { apply Qle_antisym.
    - destruct (UnionProofs.count_pos_in f (kvec knew)) as (y & Hy & Ey); [lia|].
      rewrite Ey. apply UnionProofs.sorted_first_le; assumption.
    - apply UnionProofs.sorted_first_le; [exact Hs|].
      apply (remove_all_In _ _ _ _ R). apply UnionProofs.first_q_in. lia. }
  rewrite (count_q_proper _ _ (kvec knew) Ef) in Hfn. lia.
Qed.

(* one accepted step of the loop: the new vector is the one of the degree setter, the degree is one lower *)
Lemma decrease_step c tol c' : WF (kvec (ckv c)) (kdeg (ckv c)) ->
  c_degree_decrease c 1 tol = Ok c' ->
  (1 <= kdeg (ckv c))%nat /\ kset_degree (ckv c) (kdeg (ckv c) - 1) = Ok (ckv c') /\ kdeg (ckv c') = (kdeg (ckv c) - 1)%nat /\ WF (kvec (ckv c')) (kdeg (ckv c')).
Proof.
  intros W H. unfold c_degree_decrease in H. cbn [Nat.eqb] in H.
  destruct (Nat.ltb_spec (kdeg (ckv c)) 1) as [L|G]; [discriminate|].
  destruct (kset_degree (ckv c) (kdeg (ckv c) - 1)) as [knew|] eqn:K; cbn [bind] in H; [|discriminate].
  destruct (kset_degree_pred _ _ W G K) as [D Wn].
  assert (E : ckv c' = knew).
  { unfold c_update in H. destruct (kv_eqb knew (ckv c)) eqn:EK.
    - exfalso. destruct (kv_eqb_parts _ _ EK) as [_ D']. lia.
    - destruct (cP c).
      + destruct (negb (limits_eqb (ckv c) knew)); [discriminate|].
        destruct (c_fit_curve knew c (knots_opt knew)) as [[P' err]|]; cbn [bind] in H; [|discriminate].
        destruct tol as [t|].
        * destruct (negb (Qeqb t 0) && Qltb t err); [discriminate|]. inversion H; reflexivity.
        * inversion H; reflexivity.
      + inversion H; reflexivity. }
  rewrite E. repeat split; assumption.
Qed.

(* a curve of degree 0 is refused *)
Lemma decrease_degree0_refused c tol : kdeg (ckv c) = 0%nat -> c_degree_decrease c 1 tol = Err ValueError.
Proof. intro H. unfold c_degree_decrease. rewrite H. reflexivity. Qed.

(* the loop keeps the vector well-formed and lowers the degree by the number of accepted steps *)
Theorem decrease_while_steps : forall fuel c tol, WF (kvec (ckv c)) (kdeg (ckv c)) ->
  WF (kvec (ckv (decrease_while fuel c tol))) (kdeg (ckv (decrease_while fuel c tol))) /\ exists j, (j <= fuel)%nat /\ (j <= kdeg (ckv c))%nat /\ kdeg (ckv (decrease_while fuel c tol)) = (kdeg (ckv c) - j)%nat.
Proof.
  induction fuel as [|f IH]; intros c tol W; cbn [decrease_while].
  - split; [exact W|]. exists 0%nat. repeat split; lia.
  - destruct (c_degree_decrease c 1 (Some tol)) as [c'|e] eqn:E.
    + destruct (decrease_step _ _ _ W E) as (G & _ & D & W').
      destruct (IH c' tol W') as (Wr & j & Hj & Hjd & Hd).
      split; [exact Wr|]. exists (S j). repeat split; lia.
    + split; [exact W|]. exists 0%nat. repeat split; lia.
Qed.

(* with more fuel than the degree the loop stops on a refusal *)
Theorem decrease_while_ends_refused : forall fuel c tol, WF (kvec (ckv c)) (kdeg (ckv c)) ->
  (kdeg (ckv c) < fuel)%nat ->
  exists e, c_degree_decrease (decrease_while fuel c tol) 1 (Some tol) = Err e.
Proof.
  induction fuel as [|f IH]; intros c tol W Hf; [lia|].
  cbn [decrease_while]. destruct (c_degree_decrease c 1 (Some tol)) as [c'|e] eqn:E.
  - destruct (decrease_step _ _ _ W E) as (G & _ & D & W'). apply IH; [exact W'|lia].
  - exists e. exact E.
Qed.

(* for the fuel of c_degree_clean *)
Corollary degree_clean_ends_refused c tol r : WF (kvec (ckv c)) (kdeg (ckv c)) ->
  c_degree_clean c tol = Ok r ->
  0 <= tol /\ WF (kvec (ckv r)) (kdeg (ckv r)) /\ (kdeg (ckv r) <= kdeg (ckv c))%nat /\ exists e, c_degree_decrease r 1 (Some tol) = Err e.
Proof.
  intros W H. unfold c_degree_clean in H.
  remember (S (kdeg (ckv c))) as fuel eqn:Ef.
  destruct (Qltb_spec tol 0) as [L|G]; [discriminate|]. injection H as Er. rewrite <- Er.
  split; [apply Qnot_lt_le; exact G|].
  destruct (decrease_while_steps fuel c tol W) as (Wr & j & _ & _ & D).
  split; [exact Wr|]. split; [lia|].
  apply decrease_while_ends_refused; [exact W|lia].
Qed.

Print Assumptions decrease_while_ends_refused.
Print Assumptions degree_clean_ends_refused.

(* ------------------------------------------------------------------ *)
(* S2b. one exactly reducible step (generic)                            *)
(* ------------------------------------------------------------------ *)
(* c1 (control points P1) is, up to ==, the image under a curve-preserving matrix M of a coefficient list Q0 over the
   vector knew that the degree setter returns: then degree_decrease is accepted under every tolerance >= 0 as soon as
   the certified solves succeed, and it returns Q0 up to == *)
Lemma reducible_step (c1 : curve) (P1 : list pt) (d times : nat) (knew : kv) (M : mat) (Q0 : list pt) (tl : Q) (T E : mat) :
  cW c1 = None -> cP c1 = Some P1 ->
  WF (kvec (ckv c1)) (kdeg (ckv c1)) -> WF (kvec knew) (kdeg knew) ->
  (0 < times)%nat -> (times <= kdeg (ckv c1))%nat ->
  kset_degree (ckv c1) (kdeg (ckv c1) - times) = Ok knew ->
  length M = knpts (ckv c1) ->
  (forall P u, length P = knpts knew -> in_range (kvec knew) (kdeg knew) u = true ->
     curve_spec1 (kvec (ckv c1)) (kdeg (ckv c1)) (mvec M P) u == curve_spec1 (kvec knew) (kdeg knew) P u) ->
  limits_eqb (ckv c1) knew = true -> kv_eqb knew (ckv c1) = false ->
  Forall (fun q : pt => length q = d) P1 -> pdim P1 = d ->
  length Q0 = knpts knew -> Forall (fun q : pt => length q = d) Q0 -> pdim Q0 = d ->
  Forall2 (Forall2 Qeq) P1 (mat_apply M Q0) ->
  0 <= tl -> spline2spline (ckv c1) knew (knots_opt knew) = Ok (T, E) ->
  c_degree_decrease c1 times (Some tl) = Ok (mkcurve knew (Some (mat_apply T P1)) None) /\
  Forall2 (Forall2 Qeq) (mat_apply T P1) Q0.
Proof.
  intros HW HP Wf Wc Ht0 Htd Hset LM HC Hlim Hne HP1d Hpd1 HQl HQd HpdQ HPM Htl HS.
  assert (Hcoord : forall kk, (kk < d)%nat -> veq (coord kk P1) (mvec M (coord kk Q0))).
  { intros kk Hkk. eapply veq_trans; [exact (coord_meq kk _ _ HPM)|].
    exact (coord_mat_apply_veq M Q0 d kk Hkk HQd HpdQ). }
  assert (Hpts : Forall2 (Forall2 Qeq) (mat_apply T P1) Q0).
  { apply (points_eq_by_coords _ _ d).
    - rewrite mat_apply_length, (GU4_T_length (ckv c1) knew Wc T E HS). symmetry. exact HQl.
    - apply mat_apply_dims; [exact HP1d | exact Hpd1].
    - exact HQd.
    - intros kk Hkk.
      eapply veq_trans; [exact (coord_mat_apply_veq T P1 d kk Hkk HP1d Hpd1)|].
      eapply veq_trans; [exact (mvec_proper T T (meq_refl T) _ _ (Hcoord kk Hkk))|].
      apply (GU4_vec (ckv c1) knew M Wf Wc LM HC T E HS).
      rewrite coord_length. exact HQl. }
  assert (Herr : fit_error E P1 == 0).
  { apply fit_error_zero. rewrite Hpd1. intros i j Hi Hj.
    change (coordq i P1) with (coord i P1). change (coordq j P1) with (coord j P1).
    rewrite (dot_proper _ _ (Hcoord i Hi) _ _ (mvec_proper E E (meq_refl E) _ _ (Hcoord j Hj))).
    apply (GU4_err (ckv c1) knew M Wf Wc LM HC T E HS); rewrite coord_length; exact HQl. }
  split; [|exact Hpts].
  unfold c_degree_decrease.
  destruct (Nat.eqb_spec times 0) as [E0|_]; [lia|].
  destruct (Nat.ltb_spec (kdeg (ckv c1)) times) as [L|_]; [lia|].
  rewrite Hset. cbn [bind]. unfold c_update. rewrite Hne, HP, Hlim. cbn [negb].
  unfold c_fit_curve. rewrite HW, HP, HS. cbn [bind].
  assert (G : Qltb tl (fit_error E P1) = false) by (rewrite Herr; apply Qltb_ge; exact Htl).
  rewrite G, andb_false_r. reflexivity.
Qed.

Print Assumptions reducible_step.

(* ------------------------------------------------------------------ *)
(* S2c. Bezier vectors one degree apart                                 *)
(* ------------------------------------------------------------------ *)
(* the degree setter lowers a Bezier vector of degree q+1 to the Bezier vector of degree q *)
Lemma bez_lower_one kf q a b :
  Forall2 Qeq (kvec kf) (bez (q + 1) a b) -> kdeg kf = (q + 1)%nat -> WF (kvec kf) (kdeg kf) ->
  a < b -> bez_e a b = 1%nat ->
  exists knew, kset_degree kf (kdeg kf - 1) = Ok knew /\
    kdeg knew = q /\ Forall2 Qeq (kvec knew) (bez q a b) /\ WF (kvec knew) (kdeg knew).
Proof.
  intros Fkf Dkf Wf Hab E1.
  pose proof (kknots_bez_counts kf (q + 1) a b Fkf Dkf Hab) as Hc. rewrite E1 in Hc.
  destruct (remove_all_some (repeat_list 1 (kknots kf)) (kvec kf)) as [l R].
  { intro z. rewrite count_q_repeat_list, Hc, (F2Q_count _ _ z Fkf), count_q_bez.
    destruct (Qeqb z a), (Qeqb z b); lia. }
  assert (Hs : sorted_b l = true)
    by (apply (remove_all_sorted (repeat_list 1 (kknots kf)) (kvec kf) l); [apply (wf_parts _ _ Wf)|exact R]).
  assert (HFl : Forall2 Qeq l (bez q a b)).
  { apply sorted_counts_Forall2; [exact Hs|apply bez_sorted_repeat_app; lra|].
    intro z. pose proof (count_q_remove_all z _ _ _ R) as C.
    rewrite count_q_repeat_list, Hc, (F2Q_count _ _ z Fkf), !count_q_bez in *.
    destruct (Qeqb z a), (Qeqb z b); lia. }
  pose proof (wf_Forall2 _ _ l (bez_WF q a b Hab) HFl Hs) as Wl.
  assert (Hset : kset_degree kf (kdeg kf - 1) = Ok (mkkv l (infer_deg l))).
  { unfold kset_degree.
    assert (E2 : (kdeg kf - 1 <? kdeg kf)%nat = true) by (apply Nat.ltb_lt; lia).
    rewrite E2. replace (kdeg kf - (kdeg kf - 1))%nat with 1%nat by lia.
    unfold kremove. rewrite R. unfold make. rewrite (UnionProofs.wf_is_valid l _ Wl). reflexivity. }
  exists (mkkv l (infer_deg l)). split; [exact Hset|].
  exact (bez_kset_degree_lower kf q a b 1 _ Fkf Dkf Hab ltac:(lia) Hset).
Qed.

(* everything reducible_step needs between two Bezier vectors one degree apart *)
Lemma bez_pair_setting kf knew q a b :
  Forall2 Qeq (kvec kf) (bez (q + 1) a b) -> kdeg kf = (q + 1)%nat ->
  Forall2 Qeq (kvec knew) (bez q a b) -> kdeg knew = q -> a < b ->
  let M := degree_increase_bezier q 1 in
  length M = knpts kf /\
  (forall P u, length P = knpts knew -> in_range (kvec knew) (kdeg knew) u = true ->
     curve_spec1 (kvec kf) (kdeg kf) (mvec M P) u == curve_spec1 (kvec knew) (kdeg knew) P u) /\
  limits_eqb kf knew = true /\ kv_eqb knew kf = false /\ knpts knew = (q + 1)%nat.
Proof.
  intros Fkf Dkf Fn Dn Hab M.
  pose proof (bez_knpts knew q a b Fn Dn) as Nn.
  split; [unfold M; rewrite degree_increase_bezier_length, (bez_knpts kf (q + 1) a b Fkf Dkf); reflexivity|].
  split.
  { intros P u HP Hu. rewrite Dkf, Dn.
    rewrite (curve_spec1_knots_proper _ _ _ _ _ Fkf), (curve_spec1_knots_proper _ _ _ _ _ Fn).
    apply bezier_elevate_many; [exact Hab|rewrite HP; exact Nn|].
    rewrite <- (in_range_knots_proper _ _ q u Fn), <- Dn. exact Hu. }
  split.
  { destruct (bez_limits kf (q + 1) a b Fkf Dkf) as [A1 B1]. destruct (bez_limits knew q a b Fn Dn) as [A2 B2].
    unfold limits_eqb. apply andb_true_iff. split; apply Qeqb_eq; [rewrite A1, A2|rewrite B1, B2]; reflexivity. }
  split; [|exact Nn].
  unfold kv_eqb. assert (E : (kdeg knew =? kdeg kf)%nat = false) by (apply Nat.eqb_neq; lia).
  rewrite E. apply andb_false_r.
Qed.

(* ------------------------------------------------------------------ *)
(* S2d. the loop undoes the elevation of a Bezier curve                 *)
(* ------------------------------------------------------------------ *)
Section DegreeCleanUndo.
(* the Bezier curve q: degree p on [a,b], control points Pq of dimension d; t the tolerance *)
Variables (p : nat) (a b : Q) (Pq : list pt) (d : nat) (t : Q).
Hypothesis Hab : a < b.
Hypothesis He : bez_e a b = 1%nat.          (* the two ends are distinct knots for __get_unique *)
Hypothesis HPql : length Pq = (p + 1)%nat.
Hypothesis HPqd : Forall (fun q : pt => length q = d) Pq.
Hypothesis Ht : 0 <= t.

(* c (control points P) is a polynomial Bezier curve of degree p + m on [a,b] and the same function as q *)
Definition elevated_by (m : nat) (c : curve) (P : list pt) : Prop :=
  cW c = None /\ cP c = Some P /\ WF (kvec (ckv c)) (kdeg (ckv c)) /\ kdeg (ckv c) = (p + m)%nat /\
  Forall2 Qeq (kvec (ckv c)) (bez (p + m) a b) /\
  length P = (p + m + 1)%nat /\ Forall (fun q : pt => length q = d) P /\
  (forall u, a <= u <= b ->
     Forall2 Qeq (curve_spec (bez (p + m) a b) (p + m) d P u) (curve_spec (bez p a b) p d Pq u)).

(* the certificates of the model's linear solves along the way down *)
Fixpoint dcerts (m : nat) (k : kv) : Prop :=
  match m with
  | O => True
  | S m' => exists knw T E, kset_degree k (kdeg k - 1) = Ok knw /\
              spline2spline k knw (knots_opt knw) = Ok (T, E) /\ dcerts m' knw
  end.

Lemma dcu_pdimq : pdim Pq = d.
Proof using HPql HPqd. clear He Hab Ht. apply pdim_Forall; [|exact HPqd]. destruct Pq; [cbn in HPql; lia|discriminate]. Qed.

Lemma pdim_of_len (P : list pt) n : length P = S n -> Forall (fun q : pt => length q = d) P -> pdim P = d.
Proof. intros L F. apply pdim_Forall; [|exact F]. destruct P; [cbn in L; lia|discriminate]. Qed.

Lemma dcu_step m c P : elevated_by (S m) c P ->
  (forall knw, kset_degree (ckv c) (kdeg (ckv c) - 1) = Ok knw ->
     exists T E, spline2spline (ckv c) knw (knots_opt knw) = Ok (T, E)) ->
  exists c' P', c_degree_decrease c 1 (Some t) = Ok c' /\ elevated_by m c' P' /\
    kset_degree (ckv c) (kdeg (ckv c) - 1) = Ok (ckv c').
Proof using All.
  intros (HW & HP & W & Hd & HF & HPl & HPd & Hfun) Hcert.
  set (q := (p + m)%nat) in *.
  replace (p + S m)%nat with (q + 1)%nat in * by (unfold q; lia).
  destruct (bez_lower_one (ckv c) q a b HF Hd W Hab He) as (knew & Hs & Dn & Fn & Wn).
  destruct (Hcert knew Hs) as (T & E & HS).
  destruct (bez_pair_setting (ckv c) knew q a b HF Hd Fn Dn Hab) as (LM & HC & Hlim & Hne & Nn).
  set (M := degree_increase_bezier q 1) in *.
  set (Q0 := mat_apply (degree_increase_bezier p m) Pq).
  assert (HQl : length Q0 = (q + 1)%nat).
  { unfold Q0. rewrite mat_apply_length, degree_increase_bezier_length. reflexivity. }
  assert (HQd : Forall (fun x : pt => length x = d) Q0).
  { unfold Q0. apply mat_apply_dims; [exact HPqd|exact dcu_pdimq]. }
  assert (HpdQ : pdim Q0 = d) by (apply (pdim_of_len Q0 q); [rewrite HQl; lia|exact HQd]).
  assert (Hpd1 : pdim P = d) by (apply (pdim_of_len P (q + 1)); [rewrite HPl; lia|exact HPd]).
  assert (HfunQ : forall u, a <= u <= b ->
            Forall2 Qeq (curve_spec (bez q a b) q d Q0 u) (curve_spec (bez p a b) p d Pq u)).
  { intros u Hu. unfold Q0, q.
    apply bezier_elevate_many_vec; [exact Hab|exact HPql|exact HPqd|exact dcu_pdimq|].
    apply in_range_bez. exact Hu. }
  assert (HPM : Forall2 (Forall2 Qeq) P (mat_apply M Q0)).
  { apply (lin_indep_points (bez (q + 1) a b) (q + 1) d).
    - apply bez_WF. exact Hab.
    - unfold pt in *. rewrite HPl. unfold npts_of. rewrite bez_length. lia.
    - rewrite mat_apply_length. unfold M. rewrite degree_increase_bezier_length.
      unfold npts_of. rewrite bez_length. lia.
    - exact HPd.
    - apply mat_apply_dims; [exact HQd|exact HpdQ].
    - intros u Hu. apply in_range_bez in Hu.
      eapply veq_trans; [exact (Hfun u Hu)|]. apply veq_sym.
      eapply veq_trans; [|exact (HfunQ u Hu)].
      unfold M. apply bezier_elevate_many_vec; [exact Hab|exact HQl|exact HQd|exact HpdQ|].
      apply in_range_bez. exact Hu. }
  assert (HQl' : length Q0 = knpts knew) by (rewrite Nn; exact HQl).
  destruct (reducible_step c P d 1 knew M Q0 t T E HW HP W Wn ltac:(lia) ltac:(lia) Hs LM HC Hlim Hne
              HPd Hpd1 HQl' HQd HpdQ HPM Ht HS) as [Hdec Hpts].
  exists (mkcurve knew (Some (mat_apply T P)) None), (mat_apply T P).
  split; [exact Hdec|]. split; [|exact Hs].
  unfold elevated_by. cbn [ckv cP cW]. fold q.
  repeat match goal with |- _ /\ _ => split end; try reflexivity; try assumption.
  - transitivity (length Q0); [exact (meq_length _ _ Hpts)|exact HQl].
  - exact (F2_dims d _ _ Hpts HQd).
  - intros u Hu. eapply veq_trans; [apply (curve_spec_proper_coef _ _ _ _ _ _ Hpts)|]. exact (HfunQ u Hu).
Qed.

(* at m = 0 the state IS q, up to == (linear independence of the Bernstein basis) *)
Lemma dcu_done c P : elevated_by 0 c P ->
  Forall2 Qeq (kvec (ckv c)) (bez p a b) /\ kdeg (ckv c) = p /\ Forall2 (Forall2 Qeq) P Pq.
Proof using Hab HPql HPqd.
  clear He Ht. intros (HW & HP & W & Hd & HF & HPl & HPd & Hfun).
  rewrite Nat.add_0_r in *.
  split; [exact HF|]. split; [exact Hd|].
  apply (lin_indep_points (bez p a b) p d).
  - apply bez_WF. exact Hab.
  - unfold pt in *. rewrite HPl. unfold npts_of. rewrite bez_length. lia.
  - unfold pt in *. rewrite HPql. unfold npts_of. rewrite bez_length. lia.
  - exact HPd.
  - exact HPqd.
  - intros u Hu. apply in_range_bez in Hu. exact (Hfun u Hu).
Qed.

(* THE LOOP: from an m-fold elevation, with the m certificates, the loop passes after exactly m accepted steps through
   the curve q itself (knots and control points up to ==) *)
Theorem decrease_while_undoes : forall m c P, elevated_by m c P -> dcerts m (ckv c) ->
  forall fuel, (m <= fuel)%nat ->
  exists c2 P2, decrease_while fuel c t = decrease_while (fuel - m) c2 t /\
    cW c2 = None /\ cP c2 = Some P2 /\ WF (kvec (ckv c2)) (kdeg (ckv c2)) /\
    Forall2 Qeq (kvec (ckv c2)) (bez p a b) /\ kdeg (ckv c2) = p /\ Forall2 (Forall2 Qeq) P2 Pq.
Proof using All.
  induction m as [|m IH]; intros c P HR HC fuel Hf.
  - exists c, P. rewrite Nat.sub_0_r. split; [reflexivity|].
    destruct (dcu_done c P HR) as (A & B & C). destruct HR as (HW & HP & W & _).
    repeat split; assumption.
  - destruct HC as (knw & T & E & Hset & HS & HC).
    destruct (dcu_step m c P HR) as (c' & P' & H' & HR' & Hkv).
    { intros k' Hk'. rewrite Hset in Hk'. inversion Hk'; subst k'. exists T, E. exact HS. }
    rewrite Hset in Hkv. inversion Hkv as [Hkv'].
    destruct fuel as [|f]; [lia|].
    destruct (IH c' P' HR' ltac:(rewrite <- Hkv'; exact HC) f ltac:(lia)) as (c2 & P2 & E2 & Rest).
    exists c2, P2. split; [|exact Rest].
    cbn [decrease_while]. rewrite H'. rewrite E2. reflexivity.
Qed.

(* hence the final degree is at most p *)
Corollary decrease_while_undoes_degree m c P fuel : elevated_by m c P -> dcerts m (ckv c) -> (m <= fuel)%nat ->
  (kdeg (ckv (decrease_while fuel c t)) <= p)%nat.
Proof using All.
  intros HR HC Hf. destruct (decrease_while_undoes m c P HR HC fuel Hf) as (c2 & P2 & E & _ & _ & W2 & _ & D2 & _).
  rewrite E. destruct (decrease_while_steps (fuel - m) c2 t W2) as (_ & j & _ & _ & D). lia.
Qed.
End DegreeCleanUndo.

Print Assumptions decrease_while_undoes.
Print Assumptions decrease_while_undoes_degree.

(* boolean form of the certificates, decidable by computation on examples *)
Fixpoint dcerts_b (m : nat) (k : kv) : bool :=
  match m with
  | O => true
  | S m' => match kset_degree k (kdeg k - 1) with
            | Ok knw => is_ok (spline2spline k knw (knots_opt knw)) && dcerts_b m' knw
            | Err _ => false
            end
  end.

Lemma dcerts_b_sound : forall m k, dcerts_b m k = true -> dcerts m k.
Proof.
  induction m as [|m IH]; intros k H; cbn [dcerts_b dcerts] in *; [exact I|].
  destruct (kset_degree k (kdeg k - 1)) as [knw|]; [|discriminate].
  apply andb_true_iff in H. destruct H as [A B].
  destruct (spline2spline k knw (knots_opt knw)) as [[T E]|] eqn:S; [|discriminate].
  exists knw, T, E. repeat split; [exact S | apply IH, B].
Qed.

(* the elevation of a Bezier curve is an elevated_by state *)
Lemma elevation_is_elevated (q : curve) (Pq : list pt) (d p : nat) (a b : Q) (tt : nat) (c1 : curve) :
  cW q = None -> cP q = Some Pq ->
  Forall2 Qeq (kvec (ckv q)) (bez p a b) -> cdeg q = p -> a < b ->
  length Pq = cnpts q -> Forall (fun x : pt => length x = d) Pq ->
  c_degree_increase q tt = Ok c1 ->
  bez_e a b = 1%nat /\ length Pq = (p + 1)%nat /\
  elevated_by p a b Pq d tt c1 (mat_apply (degree_increase_bezier p tt) Pq).
Proof.
  intros HW HP HF Hp Hab HPl HPd H1. unfold cdeg, cnpts in *.
  pose proof (bez_knpts (ckv q) p a b HF Hp) as Hn.
  destruct (c_degree_increase_bezier_poly q Pq tt c1 p HW HP Hp Hn H1) as (Ht & kf & Hk & E1).
  destruct (bez_kinsert (ckv q) p a b tt kf HF Hp Hab Ht Hk) as (Dkf & Fkf & He).
  assert (HPl' : length Pq = (p + 1)%nat) by (rewrite <- Hn; exact HPl).
  assert (Hpd : pdim Pq = d).
  { apply pdim_Forall; [|exact HPd]. destruct Pq; [cbn in HPl'; lia|discriminate]. }
  split; [exact He|]. split; [exact HPl'|].
  unfold elevated_by. rewrite E1. cbn [ckv cP cW].
  repeat match goal with |- _ /\ _ => split end; try reflexivity; try assumption.
  - exact (kinsert_wf _ _ _ Hk).
  - rewrite mat_apply_length, degree_increase_bezier_length. reflexivity.
  - apply mat_apply_dims; [exact HPd|exact Hpd].
  - intros u Hu. apply bezier_elevate_many_vec; [exact Hab|exact HPl'|exact HPd|exact Hpd|].
    apply in_range_bez. exact Hu.
Qed.

(* S2 as stated: a polynomial Bezier curve q elevated tt times, then the degree-clean loop: it passes, after exactly tt
   accepted steps, through the curve q itself (degree, knots and control points up to ==) *)
Theorem clean_undoes_elevation (q : curve) (Pq : list pt) (d p : nat) (a b : Q) (tt : nat) (c1 : curve) (t : Q) (fuel : nat) :
  cW q = None -> cP q = Some Pq ->
  Forall2 Qeq (kvec (ckv q)) (bez p a b) -> cdeg q = p -> a < b ->
  length Pq = cnpts q -> Forall (fun x : pt => length x = d) Pq ->
  c_degree_increase q tt = Ok c1 ->
  0 <= t -> (tt <= fuel)%nat ->
  dcerts tt (ckv c1) ->
  exists c2 P2, decrease_while fuel c1 t = decrease_while (fuel - tt) c2 t /\
    cW c2 = None /\ cP c2 = Some P2 /\ WF (kvec (ckv c2)) (kdeg (ckv c2)) /\
    Forall2 Qeq (kvec (ckv c2)) (kvec (ckv q)) /\ kdeg (ckv c2) = cdeg q /\ Forall2 (Forall2 Qeq) P2 Pq.
Proof.
  intros HW HP HF Hp Hab HPl HPd H1 Ht Hf HC.
  destruct (elevation_is_elevated q Pq d p a b tt c1 HW HP HF Hp Hab HPl HPd H1) as (He & HPl' & HR).
  destruct (decrease_while_undoes p a b Pq d t Hab He HPl' HPd Ht tt c1 _ HR HC fuel Hf)
    as (c2 & P2 & E & A1 & A2 & A3 & A4 & A5 & A6).
  exists c2, P2. repeat (split; [assumption|]). split; [|split; [congruence|exact A6]].
  exact (veq_trans _ _ _ A4 (veq_sym _ _ HF)).
Qed.

(* the same through c_degree_clean (its fuel, degree + 1, is always enough): the result is what the loop makes of q
   itself with the remaining fuel; its degree is at most the degree of q, and it admits no further accepted reduction *)
Theorem degree_clean_undoes_elevation (q : curve) (Pq : list pt) (d p : nat) (a b : Q) (tt : nat) (c1 : curve) (t : Q) (r : curve) :
  cW q = None -> cP q = Some Pq ->
  Forall2 Qeq (kvec (ckv q)) (bez p a b) -> cdeg q = p -> a < b ->
  length Pq = cnpts q -> Forall (fun x : pt => length x = d) Pq ->
  c_degree_increase q tt = Ok c1 ->
  dcerts tt (ckv c1) ->
  c_degree_clean c1 t = Ok r ->
  (exists c2 P2, r = decrease_while (S (kdeg (ckv c1)) - tt) c2 t /\
     cW c2 = None /\ cP c2 = Some P2 /\ WF (kvec (ckv c2)) (kdeg (ckv c2)) /\
     Forall2 Qeq (kvec (ckv c2)) (kvec (ckv q)) /\ kdeg (ckv c2) = cdeg q /\ Forall2 (Forall2 Qeq) P2 Pq) /\
  (kdeg (ckv r) <= cdeg q)%nat /\
  exists e, c_degree_decrease r 1 (Some t) = Err e.
Proof.
  intros HW HP HF Hp Hab HPl HPd H1 HC Hclean.
  destruct (elevation_is_elevated q Pq d p a b tt c1 HW HP HF Hp Hab HPl HPd H1) as (He & HPl' & HR).
  assert (W1 : WF (kvec (ckv c1)) (kdeg (ckv c1))) by (destruct HR as (_ & _ & W & _); exact W).
  assert (D1 : kdeg (ckv c1) = (p + tt)%nat) by (destruct HR as (_ & _ & _ & D & _); exact D).
  destruct (degree_clean_ends_refused c1 t r W1 Hclean) as (Ht & _ & _ & Href).
  assert (Er : r = decrease_while (S (kdeg (ckv c1))) c1 t).
  { unfold c_degree_clean in Hclean. remember (S (kdeg (ckv c1))) as fuel.
    destruct (Qltb t 0); [discriminate|]. injection Hclean as Er. symmetry. exact Er. }
  remember (S (kdeg (ckv c1))) as fuel eqn:Ef.
  assert (Hf : (tt <= fuel)%nat) by lia.
  destruct (clean_undoes_elevation q Pq d p a b tt c1 t fuel HW HP HF Hp Hab HPl HPd H1 Ht Hf HC)
    as (c2 & P2 & E & A1 & A2 & A3 & A4 & A5 & A6).
  split; [|split; [|exact Href]].
  - exists c2, P2. split; [rewrite Er; exact E|]. repeat (split; [assumption|]). exact A6.
  - rewrite Er, E. destruct (decrease_while_steps (fuel - tt) c2 t A3) as (_ & j & _ & _ & D). lia.
Qed.

Print Assumptions clean_undoes_elevation.
Print Assumptions degree_clean_undoes_elevation.

(* ------------------------------------------------------------------ *)
(* S3. Examples                                                         *)
(* ------------------------------------------------------------------ *)
(* a boolean form of the separation hypothesis *)
Definition separated_b (l : list Q) : bool :=
  forallb (fun x => forallb (fun y => Qeqb x y || Qleb tol_unique (Qabs (x - y))) l) l.

Lemma separated_b_sound l : separated_b l = true -> UnionProofs.separated l.
Proof.
  unfold separated_b. intros H x y Hx Hy N.
  rewrite forallb_forall in H. specialize (H x Hx). rewrite forallb_forall in H. specialize (H y Hy).
  apply orb_true_iff in H. destruct H as [H|H].
  - apply Qeqb_eq in H. contradiction.
  - apply Qleb_le. exact H.
Qed.

(* S1 on the two-span quadratic vector *)
Definition sx_k : kv := mkkv [0; 0; 0; 1 # 2; 1; 1; 1] 2.

Example sx_wf : WF (kvec sx_k) (kdeg sx_k).
Proof. vm_compute. reflexivity. Qed.
Example sx_separated : UnionProofs.separated (kvec sx_k).
Proof. apply separated_b_sound. vm_compute. reflexivity. Qed.
Example sx_knots_exact : knots_exact sx_k.
Proof. exact (separated_knots_exact sx_k sx_wf sx_separated). Qed.
Example sx_kknots : ql_eqb (kknots sx_k) [0; 1 # 2; 1] = true.
Proof. vm_compute. reflexivity. Qed.
(* the vector of the FINDING in IntegralProofs (two knots 1e-7 apart) is not separated: the hypothesis excludes it *)
Example sx_close_not_separated : separated_b (kvec ex_kclose) = false.
Proof. vm_compute. reflexivity. Qed.

(* the L2 statement on the example of IntegralProofs, through the separation hypothesis *)
Example sx_L2 :
  let PF se j := NlocP (nthq (kvec ex_kold)) (span_at (kvec ex_kold) (fst se)) (kdeg ex_kold) j in
  let PG se i := NlocP (nthq (kvec ex_knew)) (span_at (kvec ex_knew) (fst se)) (kdeg ex_knew) i in
  forall i j, (i < knpts ex_knew)%nat -> (j < knpts ex_kold)%nat ->
     entry (gGF ex_g) i j
     == qsum (map (fun se => pint (fst se) (snd se) (pmul (PG se i) (PF se j))) (ls_cells ex_kold ex_knew)).
Proof.
  assert (So : UnionProofs.separated (kvec ex_kold)) by (apply separated_b_sound; vm_compute; reflexivity).
  assert (Sn : UnionProofs.separated (kvec ex_knew)) by (apply separated_b_sound; vm_compute; reflexivity).
  destruct ex_wf as [Wo Wn]. destruct ex_limits as [Emin Emax].
  exact (proj1 (grams_of_L2_separated ex_kold ex_knew ex_g Wo Wn So Sn Emin Emax ex_grams)).
Qed.

(* S2 on the parabola [[1];[2];[-3]] over [0,0,0,1,1,1], elevated twice *)
Definition dx_q : curve := mkcurve (mkkv [0; 0; 0; 1; 1; 1] 2) (Some [[1]; [2]; [-3]]) None.
Definition dx_c1 : curve := unwrap dx_q (c_degree_increase dx_q 2).

Example dx_increase : c_degree_increase dx_q 2 = Ok dx_c1 /\ kdeg (ckv dx_c1) = 4%nat /\
  ql_eqb (kvec (ckv dx_c1)) [0; 0; 0; 0; 0; 1; 1; 1; 1; 1] = true.
Proof. vm_compute. repeat split. Qed.

Example dx_certs : dcerts_b 2 (ckv dx_c1) = true.
Proof. vm_compute. reflexivity. Qed.

(* by computation: degree_clean returns degree 2 and the original control points *)
Example dx_clean_compute :
  match c_degree_clean dx_c1 tol_dclean with
  | Ok r => (kdeg (ckv r) =? 2)%nat && ql_eqb (kvec (ckv r)) [0; 0; 0; 1; 1; 1]
            && opt_eqb ptl_eqb (cP r) (Some [[1]; [2]; [-3]])
  | Err _ => false
  end = true.
Proof. vm_compute. reflexivity. Qed.

(* by the theorem *)
Example dx_clean_thm r : c_degree_clean dx_c1 tol_dclean = Ok r ->
  (exists c2 P2, r = decrease_while 3 c2 tol_dclean /\ cW c2 = None /\ cP c2 = Some P2 /\
     WF (kvec (ckv c2)) (kdeg (ckv c2)) /\
     Forall2 Qeq (kvec (ckv c2)) [0; 0; 0; 1; 1; 1] /\ kdeg (ckv c2) = 2%nat /\
     Forall2 (Forall2 Qeq) P2 [[1]; [2]; [-3]]) /\
  (kdeg (ckv r) <= 2)%nat /\
  exists e, c_degree_decrease r 1 (Some tol_dclean) = Err e.
Proof.
  intro H.
  refine (degree_clean_undoes_elevation dx_q [[1]; [2]; [-3]] 1 2 0 1 2 dx_c1 tol_dclean r
            eq_refl eq_refl _ eq_refl _ eq_refl _ (proj1 dx_increase) (dcerts_b_sound 2 _ dx_certs) H).
  - change (kvec (ckv dx_q)) with (bez 2 0 1). apply veq_refl.
  - reflexivity.
  - repeat constructor.
Qed.

Print Assumptions sx_knots_exact.
Print Assumptions sx_L2.
Print Assumptions dx_clean_thm.
