(* Matrix algebra over Q for the model of heavy.Linalg: soundness of the boolean checks,
   dot / mvec / mmul_n algebra, the certified inverse, solve, and least squares
   (normal equations: orthogonality, minimality, reproduction). *)
From Coq Require Import QArith List Bool Arith Lia Lqa Setoid Morphisms.
From NurbsV Require Import Base.Res Base.QList Model.Ops Model.Linalg.
Import ListNotations.
Open Scope Q_scope.

(* ------------------------------------------------------------------ *)
(* Definitions                                                          *)
(* ------------------------------------------------------------------ *)
Definition shaped (r c : nat) (m : mat) : Prop :=
  length m = r /\ Forall (fun row => length row = c) m.
Definition veq (a b : list Q) : Prop := Forall2 Qeq a b.
Definition meq (a b : mat) : Prop := Forall2 (Forall2 Qeq) a b.
Definition vsub (a b : list Q) : list Q := map2 Qminus a b.
Definition vplus (a b : list Q) : list Q := map2 Qplus a b.
Definition norm2 (v : list Q) : Q := dot v v.

(* ------------------------------------------------------------------ *)
(* Generic list facts                                                   *)
(* ------------------------------------------------------------------ *)
Lemma F2_length {A B} (R : A -> B -> Prop) a b : Forall2 R a b -> length a = length b.
Proof. induction 1; cbn; congruence. Qed.

Lemma F2_nth {A} (R : A -> A -> Prop) d a b :
  Forall2 R a b -> forall i, (i < length a)%nat -> R (nth i a d) (nth i b d).
Proof.
  induction 1; cbn; intros i Hi; [lia|].
  destruct i; [assumption|]. apply IHForall2. lia.
Qed.

Lemma F2_intro {A} (R : A -> A -> Prop) d a b :
  length a = length b ->
  (forall i, (i < length a)%nat -> R (nth i a d) (nth i b d)) -> Forall2 R a b.
Proof.
  revert b; induction a as [|x a IH]; intros [|y b]; cbn; intros HL H; try discriminate; constructor.
  - apply (H 0%nat). lia.
  - apply IH; [congruence|]. intros i Hi. apply (H (S i)). lia.
Qed.

Lemma nth_map_lt {A B} (f : A -> B) l d d' i :
  (i < length l)%nat -> nth i (map f l) d = f (nth i l d').
Proof.
  intro H. rewrite (nth_indep _ d (f d')) by (rewrite map_length; exact H). apply map_nth.
Qed.

Lemma nth_map_seq {B} (f : nat -> B) n d i : (i < n)%nat -> nth i (map f (seq 0 n)) d = f i.
Proof.
  intro H. rewrite (nth_map_lt f _ d 0%nat) by (rewrite seq_length; exact H).
  rewrite seq_nth by exact H. reflexivity.
Qed.

Lemma nth_map2_lt {A B C} (f : A -> B -> C) a b da db dc i :
  (i < length a)%nat -> (i < length b)%nat ->
  nth i (map2 f a b) dc = f (nth i a da) (nth i b db).
Proof.
  revert b i; induction a as [|x a IH]; intros [|y b] i; cbn; intros Ha Hb; try lia.
  destruct i; [reflexivity|]. apply IH; lia.
Qed.

(* ------------------------------------------------------------------ *)
(* veq / meq are equivalences                                           *)
(* ------------------------------------------------------------------ *)
Lemma veq_refl a : veq a a.
Proof. induction a; constructor; [reflexivity|assumption]. Qed.
Lemma veq_sym a b : veq a b -> veq b a.
Proof. induction 1; constructor; [symmetry|]; assumption. Qed.
Lemma veq_trans a b c : veq a b -> veq b c -> veq a c.
Proof.
  intro H; revert c; induction H; intros c K; inversion K; subst; constructor.
  - etransitivity; eassumption.
  - apply IHForall2; assumption.
Qed.
Global Instance veq_equiv : Equivalence veq.
Proof. split; [exact veq_refl | exact veq_sym | exact veq_trans]. Qed.

Lemma meq_refl a : meq a a.
Proof. induction a; constructor; [apply veq_refl|assumption]. Qed.
Lemma meq_sym a b : meq a b -> meq b a.
Proof. induction 1; constructor; [apply veq_sym|]; assumption. Qed.
Lemma meq_trans a b c : meq a b -> meq b c -> meq a c.
Proof.
  intro H; revert c; induction H; intros c K; inversion K; subst; constructor.
  - eapply veq_trans; eassumption.
  - apply IHForall2; assumption.
Qed.
Global Instance meq_equiv : Equivalence meq.
Proof. split; [exact meq_refl | exact meq_sym | exact meq_trans]. Qed.

Lemma veq_length a b : veq a b -> length a = length b.
Proof. apply F2_length. Qed.
Lemma meq_length a b : meq a b -> length a = length b.
Proof. apply F2_length. Qed.

Lemma veq_nth a b : veq a b -> forall i, nth i a 0 == nth i b 0.
Proof.
  intros H i. destruct (Nat.lt_ge_cases i (length a)) as [L|L].
  - apply (F2_nth Qeq 0 a b H i L).
  - rewrite !nth_overflow; [reflexivity| |exact L]. rewrite <- (veq_length _ _ H). exact L.
Qed.

Lemma veq_intro a b :
  length a = length b -> (forall i, (i < length a)%nat -> nth i a 0 == nth i b 0) -> veq a b.
Proof. apply F2_intro. Qed.

Lemma meq_intro a b :
  length a = length b -> (forall i, (i < length a)%nat -> veq (nth i a []) (nth i b [])) -> meq a b.
Proof. apply (F2_intro (Forall2 Qeq) []). Qed.

Lemma meq_row a b : meq a b -> forall i, veq (nth i a []) (nth i b []).
Proof.
  intros H i. destruct (Nat.lt_ge_cases i (length a)) as [L|L].
  - apply (F2_nth (Forall2 Qeq) [] a b H i L).
  - rewrite !nth_overflow; [constructor| |exact L]. rewrite <- (meq_length _ _ H). exact L.
Qed.

(* ------------------------------------------------------------------ *)
(* 1. Boolean checks are sound                                          *)
(* ------------------------------------------------------------------ *)
Theorem ql_eqb_sound a b : ql_eqb a b = true -> veq a b.
Proof. apply ql_eqb_Forall2. Qed.

Theorem mat_eqb_sound a b : mat_eqb a b = true -> meq a b.
Proof.
  unfold mat_eqb, qll_eqb, meq.
  apply (list_eqb_Forall2 ql_eqb (Forall2 Qeq)). intros x y. apply ql_eqb_Forall2.
Qed.

Theorem mat_eqb_complete a b : meq a b -> mat_eqb a b = true.
Proof.
  unfold mat_eqb, qll_eqb, meq.
  apply (list_eqb_Forall2 ql_eqb (Forall2 Qeq)). intros x y. apply ql_eqb_Forall2.
Qed.

(* ------------------------------------------------------------------ *)
(* Finite sums  sumn n f = f 0 + ... + f (n-1)                          *)
(* ------------------------------------------------------------------ *)
Fixpoint sumn (n : nat) (f : nat -> Q) : Q :=
  match n with O => 0 | S k => sumn k f + f k end.

Lemma sumn_ext n f g : (forall i, (i < n)%nat -> f i == g i) -> sumn n f == sumn n g.
Proof.
  induction n as [|n IH]; cbn; intro H; [reflexivity|].
  rewrite IH by (intros; apply H; lia). rewrite (H n) by lia. reflexivity.
Qed.

Lemma sumn_zero n f : (forall i, (i < n)%nat -> f i == 0) -> sumn n f == 0.
Proof.
  induction n as [|n IH]; cbn; intro H; [reflexivity|].
  rewrite IH by (intros; apply H; lia). rewrite (H n) by lia. ring.
Qed.

Lemma sumn_add n f g : sumn n (fun i => f i + g i) == sumn n f + sumn n g.
Proof. induction n as [|n IH]; cbn; [ring|]. rewrite IH. ring. Qed.

Lemma sumn_sub n f g : sumn n (fun i => f i - g i) == sumn n f - sumn n g.
Proof. induction n as [|n IH]; cbn; [ring|]. rewrite IH. ring. Qed.

Lemma sumn_scale_l n c f : sumn n (fun i => c * f i) == c * sumn n f.
Proof. induction n as [|n IH]; cbn; [ring|]. rewrite IH. ring. Qed.

Lemma sumn_scale_r n c f : sumn n (fun i => f i * c) == sumn n f * c.
Proof. induction n as [|n IH]; cbn; [ring|]. rewrite IH. ring. Qed.

Lemma sumn_S_l n f : sumn (S n) f == f 0%nat + sumn n (fun i => f (S i)).
Proof.
  induction n as [|n IH]; [cbn; ring|].
  change (sumn (S (S n)) f) with (sumn (S n) f + f (S n)). rewrite IH. cbn. ring.
Qed.

Lemma sumn_exchange n m (f : nat -> nat -> Q) :
  sumn n (fun i => sumn m (fun j => f i j)) == sumn m (fun j => sumn n (fun i => f i j)).
Proof.
  induction n as [|n IH]; cbn.
  - symmetry. apply sumn_zero. intros; reflexivity.
  - rewrite IH. rewrite <- sumn_add. reflexivity.
Qed.

Lemma sumn_delta n i f : (i < n)%nat ->
  sumn n (fun j => (if Nat.eqb i j then 1 else 0) * f j) == f i.
Proof.
  induction n as [|n IH]; intro H; [lia|]. cbn.
  destruct (Nat.eq_dec i n) as [E|E].
  - subst. rewrite Nat.eqb_refl. rewrite sumn_zero; [ring|].
    intros j Hj. destruct (Nat.eqb_spec n j); [lia|ring].
  - rewrite IH by lia. destruct (Nat.eqb_spec i n); [contradiction|ring].
Qed.

Lemma sumn_nonneg n f : (forall i, (i < n)%nat -> 0 <= f i) -> 0 <= sumn n f.
Proof.
  induction n as [|n IH]; cbn; intro H; [lra|].
  assert (0 <= sumn n f) by (apply IH; intros; apply H; lia).
  assert (0 <= f n) by (apply H; lia). lra.
Qed.

(* ------------------------------------------------------------------ *)
(* dot as a finite sum; nth-characterisations                            *)
(* ------------------------------------------------------------------ *)
Lemma nth_nil_Q i : nth i (@nil Q) 0 = 0.
Proof. destruct i; reflexivity. Qed.

Lemma dot_cons x a y b : dot (x :: a) (y :: b) == x * y + dot a b.
Proof. rewrite !dot_correct. cbn. reflexivity. Qed.

Lemma dot_qsum a b : dot a b == qsum (map2 Qmult a b).
Proof. apply dot_correct. Qed.

Lemma dot_nil_l b : dot [] b = 0.
Proof. reflexivity. Qed.
Lemma dot_nil_r a : dot a [] = 0.
Proof. destruct a; reflexivity. Qed.

Lemma dot_sumn n a b : (length a <= n \/ length b <= n)%nat ->
  dot a b == sumn n (fun i => nth i a 0 * nth i b 0).
Proof.
  revert b n; induction a as [|x a IH]; intros b n H.
  - rewrite dot_nil_l. symmetry. apply sumn_zero. intros i _. rewrite nth_nil_Q. ring.
  - destruct b as [|y b].
    + rewrite dot_nil_r. symmetry. apply sumn_zero. intros i _. rewrite nth_nil_Q. ring.
    + destruct n as [|n]; [cbn in H; lia|].
      rewrite dot_cons, sumn_S_l. cbn [nth]. rewrite (IH b n) by (cbn in H; lia). reflexivity.
Qed.

Lemma dot_sym a b : dot a b == dot b a.
Proof.
  rewrite (dot_sumn (length a) a b) by lia. rewrite (dot_sumn (length a) b a) by lia.
  apply sumn_ext. intros; ring.
Qed.

Global Instance dot_proper : Proper (veq ==> veq ==> Qeq) dot.
Proof.
  intros a a' Ha b b' Hb.
  rewrite (dot_sumn (length a) a b) by lia.
  rewrite (dot_sumn (length a) a' b') by (rewrite (veq_length _ _ Ha); lia).
  apply sumn_ext. intros i _. rewrite (veq_nth _ _ Ha i), (veq_nth _ _ Hb i). reflexivity.
Qed.

Lemma vplus_length a b : length a = length b -> length (vplus a b) = length a.
Proof. intro H. unfold vplus. rewrite map2_length. lia. Qed.
Lemma vsub_length a b : length a = length b -> length (vsub a b) = length a.
Proof. intro H. unfold vsub. rewrite map2_length. lia. Qed.

Lemma nth_vplus a b i : length a = length b -> nth i (vplus a b) 0 == nth i a 0 + nth i b 0.
Proof.
  intro H. destruct (Nat.lt_ge_cases i (length a)) as [L|L].
  - unfold vplus. rewrite (nth_map2_lt Qplus a b 0 0 0) by lia. reflexivity.
  - rewrite !nth_overflow; try lia; [ring|]. rewrite vplus_length; assumption.
Qed.
Lemma nth_vsub a b i : length a = length b -> nth i (vsub a b) 0 == nth i a 0 - nth i b 0.
Proof.
  intro H. destruct (Nat.lt_ge_cases i (length a)) as [L|L].
  - unfold vsub. rewrite (nth_map2_lt Qminus a b 0 0 0) by lia. reflexivity.
  - rewrite !nth_overflow; try lia; [ring|]. rewrite vsub_length; assumption.
Qed.

Lemma dot_vplus_l a b c : length a = length b -> dot (vplus a b) c == dot a c + dot b c.
Proof.
  intro H.
  rewrite (dot_sumn (length a) (vplus a b) c) by (rewrite vplus_length; auto).
  rewrite (dot_sumn (length a) a c), (dot_sumn (length a) b c) by lia.
  rewrite <- sumn_add. apply sumn_ext. intros i _. rewrite nth_vplus by assumption. ring.
Qed.
Lemma dot_vsub_l a b c : length a = length b -> dot (vsub a b) c == dot a c - dot b c.
Proof.
  intro H.
  rewrite (dot_sumn (length a) (vsub a b) c) by (rewrite vsub_length; auto).
  rewrite (dot_sumn (length a) a c), (dot_sumn (length a) b c) by lia.
  rewrite <- sumn_sub. apply sumn_ext. intros i _. rewrite nth_vsub by assumption. ring.
Qed.
Lemma dot_vplus_r a b c : length a = length b -> dot c (vplus a b) == dot c a + dot c b.
Proof. intro H. rewrite dot_sym, dot_vplus_l by assumption. rewrite (dot_sym a), (dot_sym b). reflexivity. Qed.
Lemma dot_vsub_r a b c : length a = length b -> dot c (vsub a b) == dot c a - dot c b.
Proof. intro H. rewrite dot_sym, dot_vsub_l by assumption. rewrite (dot_sym a), (dot_sym b). reflexivity. Qed.

Lemma dot_scale_l k a b : dot (map (Qmult k) a) b == k * dot a b.
Proof.
  rewrite (dot_sumn (length a) (map (Qmult k) a) b) by (rewrite map_length; lia).
  rewrite (dot_sumn (length a) a b) by lia. rewrite <- sumn_scale_l.
  apply sumn_ext. intros i Hi. rewrite (nth_map_lt (Qmult k) a 0 0) by exact Hi. ring.
Qed.
Lemma dot_scale_r k a b : dot a (map (Qmult k) b) == k * dot a b.
Proof. rewrite dot_sym, dot_scale_l, dot_sym. reflexivity. Qed.

Lemma dot_zeros_r a n : dot a (repeat 0 n) == 0.
Proof.
  rewrite (dot_sumn (length a)) by lia. apply sumn_zero. intros i _.
  assert (nth i (repeat 0 n) 0 = 0) as ->; [|ring].
  destruct (Nat.lt_ge_cases i n); [apply nth_repeat|].
  apply nth_overflow. rewrite repeat_length. assumption.
Qed.

Lemma norm2_nonneg v : 0 <= norm2 v.
Proof.
  unfold norm2. rewrite (dot_sumn (length v)) by lia. apply sumn_nonneg.
  intros i _. nra.
Qed.

Lemma norm2_vplus a b : length a = length b ->
  norm2 (vplus a b) == norm2 a + 2 * dot a b + norm2 b.
Proof.
  intro H. unfold norm2. rewrite dot_vplus_l by assumption. rewrite !dot_vplus_r by assumption.
  rewrite (dot_sym b a). ring.
Qed.

(* lengths and shapes *)
Lemma mvec_length A v : length (mvec A v) = length A.
Proof. apply map_length. Qed.
Lemma mcol_length j A : length (mcol j A) = length A.
Proof. apply map_length. Qed.
Lemma mmul_n_length k A B : length (mmul_n k A B) = length A.
Proof. apply map_length. Qed.
Lemma mtrans_n_length c A : length (mtrans_n c A) = c.
Proof. unfold mtrans_n. rewrite map_length. apply seq_length. Qed.
Lemma ident_length n : length (ident n) = n.
Proof. unfold ident. rewrite map_length. apply seq_length. Qed.

Lemma shaped_row r c A i : shaped r c A -> (i < r)%nat -> length (nth i A []) = c.
Proof.
  intros [HL HF] Hi. rewrite Forall_forall in HF. apply HF. apply nth_In. lia.
Qed.

Lemma shaped_mmul_n k A B : shaped (length A) k (mmul_n k A B).
Proof.
  split; [apply mmul_n_length|]. unfold mmul_n. apply Forall_forall. intros r Hr.
  apply in_map_iff in Hr. destruct Hr as [x [<- _]]. rewrite map_length. apply seq_length.
Qed.
Lemma shaped_mtrans_n c A : shaped c (length A) (mtrans_n c A).
Proof.
  split; [apply mtrans_n_length|]. unfold mtrans_n. apply Forall_forall. intros r Hr.
  apply in_map_iff in Hr. destruct Hr as [x [<- _]]. apply mcol_length.
Qed.
Lemma shaped_ident n : shaped n n (ident n).
Proof.
  split; [apply ident_length|]. unfold ident. apply Forall_forall. intros r Hr.
  apply in_map_iff in Hr. destruct Hr as [x [<- _]]. rewrite map_length. apply seq_length.
Qed.
Lemma shaped_meq r c A B : meq A B -> shaped r c A -> shaped r c B.
Proof.
  intros H [HL HF]. split; [rewrite <- (meq_length _ _ H); exact HL|].
  clear HL. induction H; constructor; inversion HF; subst.
  - symmetry. apply veq_length. assumption.
  - apply IHForall2. assumption.
Qed.

Lemma is_square_shaped n m : is_square n m = true -> shaped n n m.
Proof.
  unfold is_square. intro H. apply andb_true_iff in H. destruct H as [H1 H2].
  split; [apply Nat.eqb_eq; exact H1|]. apply Forall_forall. intros r Hr.
  rewrite forallb_forall in H2. apply Nat.eqb_eq. apply H2. exact Hr.
Qed.

(* nth characterisations *)
Lemma nth_mvec A v i : nth i (mvec A v) 0 = dot (nth i A []) v.
Proof. exact (map_nth (fun r => dot r v) A [] i). Qed.

Lemma nth_mcol j B i : nth i (mcol j B) 0 = nth j (nth i B []) 0.
Proof.
  unfold mcol. revert i; induction B as [|r B IH]; intros [|i]; cbn; try reflexivity.
  - destruct j; reflexivity.
  - destruct j; reflexivity.
  - apply IH.
Qed.

Lemma row_mmul_n k A B i : (i < length A)%nat ->
  nth i (mmul_n k A B) [] = map (fun j => dot (nth i A []) (mcol j B)) (seq 0 k).
Proof.
  intro H. unfold mmul_n.
  exact (nth_map_lt (fun r => map (fun j => dot r (mcol j B)) (seq 0 k)) A [] [] i H).
Qed.

Lemma entry_mmul_n k A B i j : (i < length A)%nat -> (j < k)%nat ->
  nth j (nth i (mmul_n k A B) []) 0 = dot (nth i A []) (mcol j B).
Proof.
  intros Hi Hj. rewrite row_mmul_n by exact Hi.
  exact (nth_map_seq (fun j => dot (nth i A []) (mcol j B)) k 0 j Hj).
Qed.

Lemma row_ident n i : (i < n)%nat ->
  nth i (ident n) [] = map (fun j => if Nat.eqb i j then 1 else 0) (seq 0 n).
Proof.
  intro H. unfold ident.
  exact (nth_map_seq (fun i => map (fun j => if Nat.eqb i j then 1 else 0) (seq 0 n)) n [] i H).
Qed.

Lemma entry_ident n i j : (i < n)%nat -> (j < n)%nat ->
  nth j (nth i (ident n) []) 0 = if Nat.eqb i j then 1 else 0.
Proof.
  intros Hi Hj. rewrite row_ident by exact Hi.
  exact (nth_map_seq (fun j => if Nat.eqb i j then 1 else 0) n 0 j Hj).
Qed.

Lemma row_mtrans_n c A j : (j < c)%nat -> nth j (mtrans_n c A) [] = mcol j A.
Proof. intro H. unfold mtrans_n. exact (nth_map_seq (fun j => mcol j A) c [] j H). Qed.

Lemma mcol_mmul_n k A B j : (j < k)%nat -> mcol j (mmul_n k A B) = mvec A (mcol j B).
Proof.
  intro H. unfold mcol at 1, mmul_n, mvec. rewrite map_map. apply map_ext.
  intro r. exact (nth_map_seq (fun j => dot r (mcol j B)) k 0 j H).
Qed.

(* ------------------------------------------------------------------ *)
(* 2. mvec / mmul_n algebra                                             *)
(* ------------------------------------------------------------------ *)
Global Instance mvec_proper : Proper (meq ==> veq ==> veq) mvec.
Proof.
  intros A B HAB v w Hvw. unfold mvec. induction HAB; cbn; constructor.
  - apply dot_proper; assumption.
  - exact IHHAB.
Qed.

Lemma map_seq_veq (f g : nat -> Q) l : (forall j, f j == g j) -> veq (map f l) (map g l).
Proof. intro H. induction l; cbn; constructor; auto. Qed.

Lemma mcol_proper j A B : meq A B -> veq (mcol j A) (mcol j B).
Proof.
  intro H. unfold mcol. induction H; cbn; constructor; [|assumption].
  apply veq_nth. assumption.
Qed.

Lemma mmul_n_proper k A A' B B' : meq A A' -> meq B B' -> meq (mmul_n k A B) (mmul_n k A' B').
Proof.
  intros HA HB. unfold mmul_n. induction HA; cbn; constructor; [|assumption].
  apply map_seq_veq. intro j. apply dot_proper; [assumption|]. apply mcol_proper. exact HB.
Qed.

Lemma nth_mvec_ident n v i : length v = n -> (i < n)%nat -> nth i (mvec (ident n) v) 0 == nth i v 0.
Proof.
  intros Hv Hi. rewrite nth_mvec, row_ident by exact Hi.
  rewrite (dot_sumn n) by lia.
  rewrite <- (sumn_delta n i (fun j => nth j v 0) Hi).
  apply sumn_ext. intros j Hj.
  rewrite (nth_map_seq (fun j => if Nat.eqb i j then 1 else 0) n 0 j Hj). reflexivity.
Qed.

Theorem mvec_ident n v : length v = n -> veq (mvec (ident n) v) v.
Proof.
  intro Hv. apply veq_intro.
  - rewrite mvec_length, ident_length. auto.
  - rewrite mvec_length, ident_length. intros i Hi. apply nth_mvec_ident; assumption.
Qed.

(* general form: only the lengths of B and v matter *)
Lemma mvec_mmul_n_gen k A B v : length v = k ->
  veq (mvec (mmul_n k A B) v) (mvec A (mvec B v)).
Proof.
  intro Hv. apply veq_intro.
  - rewrite !mvec_length, mmul_n_length. reflexivity.
  - rewrite mvec_length, mmul_n_length. intros i Hi.
    rewrite !nth_mvec. set (m := length B).
    rewrite (dot_sumn k) by lia.
    rewrite (dot_sumn m (nth i A []) (mvec B v)) by (rewrite mvec_length; unfold m; lia).
    transitivity (sumn k (fun j => sumn m (fun l => nth l (nth i A []) 0 * nth j (nth l B []) 0 * nth j v 0))).
    + apply sumn_ext. intros j Hj. rewrite entry_mmul_n by assumption.
      rewrite (dot_sumn m) by (rewrite mcol_length; unfold m; lia).
      rewrite <- sumn_scale_r. apply sumn_ext. intros l _. rewrite nth_mcol. reflexivity.
    + rewrite sumn_exchange. apply sumn_ext. intros l _.
      rewrite nth_mvec. rewrite (dot_sumn k (nth l B []) v) by lia.
      rewrite <- sumn_scale_l. apply sumn_ext. intros j _. ring.
Qed.

Theorem mvec_mmul_n r m k A B v : shaped r m A -> shaped m k B -> length v = k ->
  veq (mvec (mmul_n k A B) v) (mvec A (mvec B v)).
Proof. intros _ _. apply mvec_mmul_n_gen. Qed.

(* transpose is the adjoint for dot *)
Lemma dot_mvec_adjoint_gen c A x y : length x = c -> length y = length A ->
  dot (mvec A x) y == dot x (mvec (mtrans_n c A) y).
Proof.
  intros Hx Hy. set (r := length A).
  rewrite (dot_sumn r (mvec A x) y) by lia.
  rewrite (dot_sumn c x) by lia.
  transitivity (sumn r (fun i => sumn c (fun j => nth j (nth i A []) 0 * nth j x 0 * nth i y 0))).
  - apply sumn_ext. intros i _. rewrite nth_mvec. rewrite (dot_sumn c) by lia.
    rewrite <- sumn_scale_r. reflexivity.
  - rewrite sumn_exchange. apply sumn_ext. intros j Hj.
    rewrite nth_mvec, row_mtrans_n by exact Hj.
    rewrite (dot_sumn r (mcol j A) y) by lia.
    rewrite <- sumn_scale_l. apply sumn_ext. intros i _. rewrite nth_mcol. ring.
Qed.

Theorem dot_mvec_adjoint r c A x y : shaped r c A -> length x = c -> length y = r ->
  dot (mvec A x) y == dot x (mvec (mtrans_n c A) y).
Proof. intros [HL _] Hx Hy. apply dot_mvec_adjoint_gen; congruence. Qed.

(* linearity of mvec *)
Lemma mvec_vsub A u b : length u = length b -> veq (mvec A (vsub u b)) (vsub (mvec A u) (mvec A b)).
Proof.
  intro H. apply veq_intro.
  - rewrite vsub_length; rewrite !mvec_length; reflexivity.
  - intros i _. rewrite nth_vsub by (rewrite !mvec_length; reflexivity).
    rewrite !nth_mvec. apply dot_vsub_r. exact H.
Qed.
Lemma mvec_vplus A u b : length u = length b -> veq (mvec A (vplus u b)) (vplus (mvec A u) (mvec A b)).
Proof.
  intro H. apply veq_intro.
  - rewrite vplus_length; rewrite !mvec_length; reflexivity.
  - intros i _. rewrite nth_vplus by (rewrite !mvec_length; reflexivity).
    rewrite !nth_mvec. apply dot_vplus_r. exact H.
Qed.

(* matrices with the same shape and veq columns are meq *)
Lemma meq_by_columns r c X Y : shaped r c X -> shaped r c Y ->
  (forall j, (j < c)%nat -> veq (mcol j X) (mcol j Y)) -> meq X Y.
Proof.
  intros HX HY H. assert (LX := proj1 HX). assert (LY := proj1 HY).
  apply meq_intro; [congruence|]. intros i Hi. rewrite LX in Hi.
  apply veq_intro.
  - rewrite (shaped_row r c X i HX Hi), (shaped_row r c Y i HY Hi). reflexivity.
  - rewrite (shaped_row r c X i HX Hi). intros j Hj.
    rewrite <- !nth_mcol. apply veq_nth. apply H. exact Hj.
Qed.

Theorem mmul_n_assoc p q r s A B C :
  shaped p q A -> shaped q r B -> shaped r s C ->
  meq (mmul_n s (mmul_n r A B) C) (mmul_n s A (mmul_n s B C)).
Proof.
  intros HA HB HC.
  apply (meq_by_columns (length A) s).
  - pose proof (shaped_mmul_n s (mmul_n r A B) C) as H. rewrite mmul_n_length in H. exact H.
  - apply shaped_mmul_n.
  - intros j Hj. rewrite !mcol_mmul_n by exact Hj.
    apply mvec_mmul_n_gen. rewrite mcol_length. exact (proj1 HC).
Qed.

Theorem mmul_n_ident_l n c F : shaped n c F -> meq (mmul_n c (ident n) F) F.
Proof.
  intro HF. apply (meq_by_columns n c).
  - pose proof (shaped_mmul_n c (ident n) F) as H. rewrite ident_length in H. exact H.
  - exact HF.
  - intros j Hj. rewrite mcol_mmul_n by exact Hj. apply mvec_ident.
    rewrite mcol_length. exact (proj1 HF).
Qed.

(* ------------------------------------------------------------------ *)
(* 3. The certified inverse                                             *)
(* ------------------------------------------------------------------ *)
Theorem invert_sound M M' : invert M = Ok M' ->
  let n := length M in
  shaped n n M /\ shaped n n M' /\
  meq (mmul_n n M' M) (ident n) /\ meq (mmul_n n M M') (ident n).
Proof.
  intros H n. unfold invert in H. cbv zeta in H. fold n in H.
  destruct (is_square n M) eqn:Esq; cbn [negb] in H; [|discriminate].
  destruct (gauss_jordan M) as [m'|]; [|discriminate].
  destruct (is_square n m') eqn:Esq'; cbn [andb] in H; [|discriminate].
  destruct (mat_eqb (mmul_n n m' M) (ident n)) eqn:E1; cbn [andb] in H; [|discriminate].
  destruct (mat_eqb (mmul_n n M m') (ident n)) eqn:E2; [|discriminate].
  inversion H; subst m'.
  split; [apply is_square_shaped; assumption|].
  split; [apply is_square_shaped; assumption|].
  split; apply mat_eqb_sound; assumption.
Qed.

Corollary invert_right M M' v : invert M = Ok M' -> length v = length M ->
  veq (mvec M (mvec M' v)) v.
Proof.
  intros H Hv. destruct (invert_sound _ _ H) as (_ & _ & _ & H2).
  rewrite <- (mvec_mmul_n_gen (length M) M M' v Hv). rewrite H2. apply mvec_ident. exact Hv.
Qed.

Corollary invert_left M M' v : invert M = Ok M' -> length v = length M ->
  veq (mvec M' (mvec M v)) v.
Proof.
  intros H Hv. destruct (invert_sound _ _ H) as (_ & _ & H1 & _).
  rewrite <- (mvec_mmul_n_gen (length M) M' M v Hv). rewrite H1. apply mvec_ident. exact Hv.
Qed.

Corollary invert_unique_solution M M' x b : invert M = Ok M' -> length x = length M ->
  veq (mvec M x) b -> veq x (mvec M' b).
Proof.
  intros H Hx Hb. rewrite <- Hb. symmetry. apply invert_left; assumption.
Qed.

Corollary invert_solves M M' b : invert M = Ok M' -> length b = length M ->
  veq (mvec M (mvec M' b)) b.
Proof. apply invert_right. Qed.

(* ------------------------------------------------------------------ *)
(* 4. solve                                                             *)
(* ------------------------------------------------------------------ *)
Lemma solve_unfold M F X : solve M F = Ok X ->
  exists M', invert M = Ok M' /\ X = mmul_n (mcols F) M' F.
Proof.
  unfold solve. destruct (invert M) as [M'|e] eqn:E; cbn; intro H; [|discriminate].
  inversion H. exists M'. split; reflexivity.
Qed.

(* column form: every column of X solves the system for the matching column of F *)
Theorem solve_sound_columns M F X : solve M F = Ok X -> length F = length M ->
  forall j, (j < mcols F)%nat -> veq (mvec M (mcol j X)) (mcol j F).
Proof.
  intros H HF j Hj. destruct (solve_unfold _ _ _ H) as (M' & Hinv & ->).
  rewrite mcol_mmul_n by exact Hj. apply (invert_right M M'); [exact Hinv|].
  rewrite mcol_length. exact HF.
Qed.

(* matrix form: M X = F *)
Theorem solve_sound M F X : solve M F = Ok X -> shaped (length M) (mcols F) F ->
  meq (mmul_n (mcols F) M X) F.
Proof.
  intros H HF. set (c := mcols F) in *. set (n := length M) in *.
  destruct (solve_unfold _ _ _ H) as (M' & Hinv & HX). fold c in HX.
  destruct (invert_sound _ _ Hinv) as (HM & HM' & _ & _). fold n in HM, HM'.
  apply (meq_by_columns n c).
  - pose proof (shaped_mmul_n c M X) as K. fold n in K. exact K.
  - exact HF.
  - intros j Hj. rewrite mcol_mmul_n by exact Hj.
    apply (solve_sound_columns M F X H (proj1 HF) j Hj).
Qed.

(* ------------------------------------------------------------------ *)
(* 5. Least squares through the normal equations                         *)
(* ------------------------------------------------------------------ *)
Lemma mcols_shaped n m A : shaped n m A -> (0 < n)%nat -> mcols A = m.
Proof.
  intros [HL HF] Hn. destruct A as [|r A]; [cbn in HL; lia|]. cbn. inversion HF; assumption.
Qed.

Lemma mcols_square n A : shaped n n A -> mcols A = length A.
Proof.
  intros [HL HF]. destruct A as [|r A]; [reflexivity|]. cbn. inversion HF; subst. assumption.
Qed.

Lemma mcols_mtrans_n c A : (0 < c)%nat -> mcols (mtrans_n c A) = length A.
Proof. intro H. destruct c; [lia|]. unfold mtrans_n. cbn [seq map mcols]. apply mcol_length. Qed.

Lemma mmul_n_nil k B : mmul_n k [] B = [].
Proof. reflexivity. Qed.

Lemma vsub_veq_zero p q : veq p q -> veq (vsub p q) (repeat 0 (length p)).
Proof.
  induction 1; cbn; constructor; [|assumption]. rewrite H. ring.
Qed.

Global Instance norm2_proper : Proper (veq ==> Qeq) norm2.
Proof. intros u v H. unfold norm2. rewrite H. reflexivity. Qed.

(* what lstsq computes in the strictly over-determined case *)
Lemma lstsq_unfold n m A Mx : shaped n m A -> (m < n)%nat -> lstsq A = Ok Mx ->
  exists G', invert (mmul_n m (mtrans_n m A) A) = Ok G' /\
             shaped m m G' /\ Mx = mmul_n n G' (mtrans_n m A).
Proof.
  intros HA Hmn H. unfold lstsq in H. cbv zeta in H.
  rewrite (proj1 HA), (mcols_shaped n m A HA) in H by lia.
  destruct (Nat.ltb_spec n m); [lia|]. destruct (Nat.eqb_spec n m); [lia|].
  unfold mtrans, mmul in H. rewrite (mcols_shaped n m A HA) in H by lia.
  destruct (solve_unfold _ _ _ H) as (G' & Hinv & HX).
  exists G'. destruct (invert_sound _ _ Hinv) as (_ & HG' & _ & _).
  rewrite mmul_n_length, mtrans_n_length in HG'.
  split; [exact Hinv|]. split; [exact HG'|].
  destruct m as [|m].
  - destruct G' as [|g G']; [|destruct HG' as [K _]; cbn in K; lia].
    rewrite HX. reflexivity.
  - rewrite mcols_mtrans_n in HX by lia. rewrite (proj1 HA) in HX. exact HX.
Qed.

Section LeastSquares.
  Variables (n m : nat) (A Mx : mat).
  Hypothesis HA : shaped n m A.
  Hypothesis Hmn : (m < n)%nat.
  Hypothesis HL : lstsq A = Ok Mx.

  Let At := mtrans_n m A.
  Let G := mmul_n m At A.

  Lemma lsq_length_Mx : length Mx = m.
  Proof.
    destruct (lstsq_unfold n m A Mx HA Hmn HL) as (G' & _ & HG' & ->).
    rewrite mmul_n_length. exact (proj1 HG').
  Qed.

  Lemma lsq_length_x b : length (mvec Mx b) = m.
  Proof. rewrite mvec_length. apply lsq_length_Mx. Qed.

  Lemma lsq_G_length : length G = m.
  Proof. unfold G. rewrite mmul_n_length. apply mtrans_n_length. Qed.

  (* G z = At (A z) *)
  Lemma lsq_G_mvec z : length z = m -> veq (mvec G z) (mvec At (mvec A z)).
  Proof. intro Hz. unfold G. apply mvec_mmul_n_gen. exact Hz. Qed.

  (* the normal equations  At A x = At b *)
  Theorem lstsq_normal_equations b : length b = n ->
    veq (mvec At (mvec A (mvec Mx b))) (mvec At b).
  Proof.
    intro Hb. pose proof (lsq_length_x b) as Hx.
    destruct (lstsq_unfold n m A Mx HA Hmn HL) as (G' & Hinv & HG' & HMx).
    fold At in Hinv, HMx. fold G in Hinv.
    rewrite <- (lsq_G_mvec _ Hx).
    assert (E : veq (mvec Mx b) (mvec G' (mvec At b))).
    { rewrite HMx. apply mvec_mmul_n_gen. exact Hb. }
    rewrite E. apply (invert_right G G' _ Hinv).
    rewrite mvec_length, lsq_G_length. unfold At. apply mtrans_n_length.
  Qed.

  (* orthogonality: the residual is orthogonal to every column of A *)
  Theorem lstsq_orthogonal b : length b = n ->
    veq (mvec (mtrans_n m A) (vsub (mvec A (mvec Mx b)) b)) (repeat 0 m).
  Proof.
    intro Hb. fold At.
    rewrite mvec_vsub by (rewrite mvec_length, (proj1 HA); auto).
    pose proof (vsub_veq_zero _ _ (lstsq_normal_equations b Hb)) as K.
    rewrite mvec_length in K. unfold At in K at 3. rewrite mtrans_n_length in K. exact K.
  Qed.

  (* minimality: x minimises the squared residual *)
  Theorem lstsq_minimal b y : length b = n -> length y = m ->
    norm2 (vsub (mvec A (mvec Mx b)) b) <= norm2 (vsub (mvec A y) b).
  Proof.
    intros Hb Hy. set (x := mvec Mx b). assert (Hx : length x = m) by apply lsq_length_x.
    set (r := vsub (mvec A x) b). set (d := vsub y x).
    assert (HAn : forall v, length (mvec A v) = n) by (intro; rewrite mvec_length; exact (proj1 HA)).
    assert (Hr : length r = n) by (unfold r; rewrite vsub_length; rewrite HAn; auto).
    assert (Hd : length d = m) by (unfold d; rewrite vsub_length; congruence).
    assert (E : veq (vsub (mvec A y) b) (vplus r (mvec A d))).
    { apply veq_intro.
      - rewrite vsub_length, vplus_length; rewrite ?HAn; congruence.
      - intros i _. rewrite nth_vsub by (rewrite HAn; auto).
        rewrite nth_vplus by (rewrite HAn; auto).
        unfold r. rewrite nth_vsub by (rewrite HAn; auto).
        rewrite !nth_mvec. unfold d. rewrite dot_vsub_r by congruence. ring. }
    rewrite E. rewrite norm2_vplus by (rewrite HAn; exact Hr).
    assert (C : dot r (mvec A d) == 0).
    { rewrite dot_sym. rewrite (dot_mvec_adjoint n m A d r HA Hd Hr).
      unfold r, x. rewrite (lstsq_orthogonal b Hb). apply dot_zeros_r. }
    rewrite C. pose proof (norm2_nonneg (mvec A d)). lra.
  Qed.

  (* reproduction: data in the range of A are reproduced exactly *)
  Theorem lstsq_reproduces b z : length z = m -> veq b (mvec A z) -> veq (mvec Mx b) z.
  Proof.
    intros Hz Hbz.
    assert (Hb : length b = n) by (rewrite (veq_length _ _ Hbz), mvec_length; exact (proj1 HA)).
    destruct (lstsq_unfold n m A Mx HA Hmn HL) as (G' & Hinv & HG' & HMx).
    fold At in Hinv, HMx. fold G in Hinv.
    rewrite HMx. rewrite (mvec_mmul_n_gen n G' At b Hb).
    rewrite Hbz. rewrite <- (lsq_G_mvec z Hz).
    apply (invert_left G G' z Hinv). rewrite lsq_G_length. exact Hz.
  Qed.

  (* the least-squares matrix is a left inverse of A *)
  Corollary lstsq_left_inverse z : length z = m -> veq (mvec Mx (mvec A z)) z.
  Proof. intro Hz. apply lstsq_reproduces; [exact Hz|reflexivity]. Qed.
End LeastSquares.

(* square case: interpolation *)
Theorem lstsq_square_interpolates n A Mx b : shaped n n A -> lstsq A = Ok Mx -> length b = n ->
  veq (mvec A (mvec Mx b)) b.
Proof.
  intros HA H Hb. unfold lstsq in H. cbv zeta in H.
  rewrite (mcols_square n A HA) in H. rewrite Nat.ltb_irrefl, Nat.eqb_refl in H.
  apply (invert_right A Mx b H). rewrite (proj1 HA). exact Hb.
Qed.

(* ------------------------------------------------------------------ *)
(* 6. A concrete instance: fitting a line through three points           *)
(* ------------------------------------------------------------------ *)
Definition exA : mat := [[1; 0]; [1; 1]; [1; 2]].
Definition exMx : mat := [[5 # 6; 1 # 3; -1 # 6]; [-1 # 2; 0; 1 # 2]].

Example ex_shaped : shaped 3 2 exA.
Proof. split; [reflexivity|]. repeat constructor. Qed.

Example ex_lstsq : lstsq exA = Ok exMx.
Proof. vm_compute. reflexivity. Qed.

(* the theorems apply: b = [0;1;1] is not in the range of A *)
Example ex_orthogonal :
  veq (mvec (mtrans_n 2 exA) (vsub (mvec exA (mvec exMx [0; 1; 1])) [0; 1; 1])) [0; 0].
Proof. apply (lstsq_orthogonal 3 2 exA exMx ex_shaped); [lia | exact ex_lstsq | reflexivity]. Qed.

Example ex_minimal y : length y = 2%nat ->
  norm2 (vsub (mvec exA (mvec exMx [0; 1; 1])) [0; 1; 1]) <= norm2 (vsub (mvec exA y) [0; 1; 1]).
Proof. apply (lstsq_minimal 3 2 exA exMx ex_shaped); [lia | exact ex_lstsq | reflexivity]. Qed.

Example ex_solution : ql_eqb (mvec exMx [0; 1; 1]) [1 # 6; 1 # 2] = true.
Proof. vm_compute. reflexivity. Qed.

Example ex_invert : exists M', invert [[2; 1]; [1; 1]] = Ok M' /\ mat_eqb M' [[1; -1]; [-1; 2]] = true.
Proof. eexists. split; vm_compute; reflexivity. Qed.

Print Assumptions ql_eqb_sound.
Print Assumptions mat_eqb_sound.
Print Assumptions dot_sym.
Print Assumptions dot_proper.
Print Assumptions dot_vplus_l.
Print Assumptions mvec_ident.
Print Assumptions mvec_mmul_n.
Print Assumptions dot_mvec_adjoint.
Print Assumptions mmul_n_assoc.
Print Assumptions invert_sound.
Print Assumptions invert_right.
Print Assumptions invert_left.
Print Assumptions invert_unique_solution.
Print Assumptions solve_sound_columns.
Print Assumptions solve_sound.
Print Assumptions lstsq_normal_equations.
Print Assumptions lstsq_orthogonal.
Print Assumptions lstsq_minimal.
Print Assumptions lstsq_reproduces.
Print Assumptions lstsq_square_interpolates.
Print Assumptions ex_lstsq.
