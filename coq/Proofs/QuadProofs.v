(* Interpolatory quadrature on the Bernstein basis (heavy.IntegratorArray):
   the weights the model returns are exact on the Bernstein basis and on the monomials of
   degree < n, they sum to one, the literal tables of the source agree with the computation,
   and the memo tables never change an answer. *)
From Coq Require Import QArith ZArith List Bool Arith Lia Lqa Setoid Morphisms.
From NurbsV Require Import Base.Res Base.QList Gen.Consts Model.Ops Model.Linalg Model.Quadrature
  Proofs.MatProofs.
Import ListNotations.
Open Scope Q_scope.

(* ------------------------------------------------------------------ *)
(* 0. natQ, qpow, binom                                                 *)
(* ------------------------------------------------------------------ *)
Lemma natQ_S n : natQ (S n) == natQ n + 1.
Proof. unfold natQ. rewrite Nat2Z.inj_succ. unfold Z.succ. rewrite inject_Z_plus. reflexivity. Qed.
Lemma natQ_0 : natQ 0 == 0.
Proof. reflexivity. Qed.
Lemma natQ_1 : natQ 1 == 1.
Proof. reflexivity. Qed.
Lemma natQ_nonneg n : 0 <= natQ n.
Proof. unfold natQ. change 0 with (inject_Z 0). rewrite <- Zle_Qle. lia. Qed.
Lemma natQ_plus x y : natQ (x + y) == natQ x + natQ y.
Proof. unfold natQ. rewrite Nat2Z.inj_add, inject_Z_plus. reflexivity. Qed.
Lemma natQ_mult x y : natQ (x * y) == natQ x * natQ y.
Proof. unfold natQ. rewrite Nat2Z.inj_mul, inject_Z_mult. reflexivity. Qed.
Lemma natQ_pos n : (0 < n)%nat -> 0 < natQ n.
Proof. intro H. unfold natQ. change 0 with (inject_Z 0). rewrite <- Zlt_Qlt. lia. Qed.
Lemma natQ_lt a b : (a < b)%nat -> natQ a < natQ b.
Proof. intro H. unfold natQ. rewrite <- Zlt_Qlt. lia. Qed.
Lemma natQ_le a b : (a <= b)%nat -> natQ a <= natQ b.
Proof. intro H. unfold natQ. rewrite <- Zle_Qle. lia. Qed.
Lemma natQ_eq a b : a = b -> natQ a == natQ b.
Proof. intros ->. reflexivity. Qed.

Lemma qpow_0 x : qpow x 0 = 1.
Proof. reflexivity. Qed.
Lemma qpow_S x n : qpow x (S n) == x * qpow x n.
Proof. cbn [qpow]. apply Qred_correct. Qed.
Global Instance qpow_proper : Proper (Qeq ==> eq ==> Qeq) qpow.
Proof.
  intros x y H n m <-. induction n as [|n IH]; [reflexivity|].
  rewrite !qpow_S, IH, H. reflexivity.
Qed.
Lemma qpow_1_l n : qpow 1 n == 1.
Proof. induction n as [|n IH]; [reflexivity|]. rewrite qpow_S, IH. ring. Qed.
Lemma qpow_0_l n : qpow 0 (S n) == 0.
Proof. rewrite qpow_S. ring. Qed.

Lemma binom_n_0 n : binom n 0 = 1%nat.
Proof. destruct n; reflexivity. Qed.
Lemma binom_S_S n k : binom (S n) (S k) = (binom n k + binom n (S k))%nat.
Proof. reflexivity. Qed.
Lemma binom_zero : forall n k, (n < k)%nat -> binom n k = 0%nat.
Proof.
  induction n as [|n IH]; intros [|k] H; try lia; [reflexivity|].
  rewrite binom_S_S, (IH k), (IH (S k)) by lia. reflexivity.
Qed.
Lemma binom_n_n : forall n, binom n n = 1%nat.
Proof.
  induction n as [|n IH]; [reflexivity|]. rewrite binom_S_S, IH, binom_zero by lia. reflexivity.
Qed.
Lemma binom_pos : forall n k, (k <= n)%nat -> (0 < binom n k)%nat.
Proof.
  induction n as [|n IH]; intros [|k] H; try lia; try (cbn; lia).
  rewrite binom_S_S. pose proof (IH k ltac:(lia)). lia.
Qed.
(* absorption: (m+1) C(p+1,m+1) = (p+1) C(p,m) *)
Lemma binom_absorb : forall p m, (S m * binom (S p) (S m) = S p * binom p m)%nat.
Proof.
  induction p as [|p IH]; intros [|m].
  - reflexivity.
  - cbn. lia.
  - rewrite binom_S_S, binom_n_0. pose proof (IH 0%nat) as H. rewrite binom_n_0 in H. lia.
  - rewrite (binom_S_S (S p) (S m)).
    pose proof (IH (S m)) as H1. pose proof (IH m) as H2.
    pose proof (binom_S_S p m) as E.
    set (a := binom (S p) (S (S m))) in *. set (b := binom (S p) (S m)) in *.
    set (c := binom p m) in *. set (d := binom p (S m)) in *. nia.
Qed.
(* hockey stick: sum_{j<=p} C(j,m) = C(p+1,m+1) *)
Lemma hockey m : forall p, sumn (S p) (fun j => natQ (binom j m)) == natQ (binom (S p) (S m)).
Proof.
  induction p as [|p IH].
  - cbn [sumn]. destruct m; cbn; reflexivity.
  - change (sumn (S (S p)) (fun j => natQ (binom j m)))
      with (sumn (S p) (fun j => natQ (binom j m)) + natQ (binom (S p) m)).
    rewrite IH. rewrite (binom_S_S (S p) m), natQ_plus. ring.
Qed.

(* ------------------------------------------------------------------ *)
(* 1. Bernstein polynomials: closed form, recurrence, partition of     *)
(*    unity, moments                                                    *)
(* ------------------------------------------------------------------ *)
(* B_{j,p}(u), exactly the expression of the model (without the Qred) *)
Definition Bern (p j : nat) (u : Q) : Q := natQ (binom p j) * qpow (1 - u) (p - j) * qpow u j.

Global Instance Bern_proper p j : Proper (Qeq ==> Qeq) (Bern p j).
Proof. intros u v H. unfold Bern. rewrite H. reflexivity. Qed.

Fixpoint bern (t : Q) (n k : nat) : Q :=
  match n with
  | O => match k with O => 1 | S _ => 0 end
  | S n' => match k with
            | O => (1 - t) * bern t n' O
            | S k' => (1 - t) * bern t n' (S k') + t * bern t n' k'
            end
  end.

Lemma bern_S_0 t n : bern t (S n) 0 = (1 - t) * bern t n 0.
Proof. reflexivity. Qed.
Lemma bern_S_S t n k : bern t (S n) (S k) = (1 - t) * bern t n (S k) + t * bern t n k.
Proof. reflexivity. Qed.

Lemma bern_zero t : forall n k, (n < k)%nat -> bern t n k == 0.
Proof.
  induction n as [|n IH]; intros [|k] H; try lia.
  - reflexivity.
  - rewrite bern_S_S, (IH (S k)), (IH k) by lia. ring.
Qed.

Theorem bern_closed t : forall n k, bern t n k == Bern n k t.
Proof.
  unfold Bern. induction n as [|n IH]; intros [|k].
  - cbn [bern binom qpow Nat.sub]. rewrite natQ_1. ring.
  - cbn [bern binom]. rewrite natQ_0. ring.
  - rewrite bern_S_0, IH, !binom_n_0. rewrite !Nat.sub_0_r. rewrite (qpow_S (1 - t) n). rewrite !qpow_0. ring.
  - rewrite bern_S_S, (IH (S k)), (IH k). rewrite binom_S_S, natQ_plus.
    cbn [Nat.sub]. rewrite (qpow_S t k).
    destruct (le_lt_dec n k) as [L|L].
    + rewrite (binom_zero n (S k)) by lia. rewrite natQ_0. ring.
    + replace (n - k)%nat with (S (n - S k)) by lia. rewrite (qpow_S (1 - t)). ring.
Qed.

(* the recurrence lifted to weighted sums *)
Lemma bern_sum_step t (g : nat -> Q) n :
  sumn (S (S n)) (fun j => g j * bern t (S n) j) ==
  (1 - t) * sumn (S n) (fun j => g j * bern t n j) + t * sumn (S n) (fun j => g (S j) * bern t n j).
Proof.
  rewrite sumn_S_l. rewrite bern_S_0.
  rewrite (sumn_ext (S n) (fun i => g (S i) * bern t (S n) (S i))
            (fun i => (1 - t) * (g (S i) * bern t n (S i)) + t * (g (S i) * bern t n i))).
  2:{ intros i _. rewrite bern_S_S. ring. }
  rewrite sumn_add, !sumn_scale_l.
  assert (E : sumn (S n) (fun j => g j * bern t n j) ==
              g 0%nat * bern t n 0 + sumn (S n) (fun i => g (S i) * bern t n (S i))).
  { rewrite <- (sumn_S_l (S n) (fun j => g j * bern t n j)).
    change (sumn (S (S n)) (fun j => g j * bern t n j))
      with (sumn (S n) (fun j => g j * bern t n j) + g (S n) * bern t n (S n)).
    rewrite (bern_zero t n (S n)) by lia. ring. }
  rewrite E. ring.
Qed.

Theorem bern_partition t : forall n, sumn (S n) (fun j => bern t n j) == 1.
Proof.
  induction n as [|n IH].
  - cbn. ring.
  - rewrite (sumn_ext _ _ (fun j => 1 * bern t (S n) j)) by (intros; ring).
    rewrite (bern_sum_step t (fun _ => 1) n).
    rewrite (sumn_ext (S n) (fun j => 1 * bern t n j) (fun j => bern t n j)) by (intros; ring).
    rewrite IH. ring.
Qed.

Corollary Bern_partition u p : sumn (S p) (fun j => Bern p j u) == 1.
Proof.
  rewrite <- (bern_partition u p). apply sumn_ext. intros j _. symmetry. apply bern_closed.
Qed.

(* sum_j C(j,m) B_{j,p}(t) = C(p,m) t^m *)
Theorem bern_moment t : forall p m,
  sumn (S p) (fun j => natQ (binom j m) * bern t p j) == natQ (binom p m) * qpow t m.
Proof.
  induction p as [|p IH]; intro m.
  - cbn [sumn bern]. destruct m as [|m].
    + cbn [binom qpow]. ring.
    + cbn [binom]. rewrite natQ_0. ring.
  - rewrite (bern_sum_step t (fun j => natQ (binom j m)) p). rewrite IH.
    destruct m as [|m].
    + rewrite (sumn_ext (S p) (fun j => natQ (binom (S j) 0) * bern t p j)
                 (fun j => natQ (binom j 0) * bern t p j)).
      2:{ intros j _. rewrite !binom_n_0. reflexivity. }
      rewrite IH. rewrite !binom_n_0. ring.
    + rewrite (sumn_ext (S p) (fun j => natQ (binom (S j) (S m)) * bern t p j)
                 (fun j => natQ (binom j m) * bern t p j + natQ (binom j (S m)) * bern t p j)).
      2:{ intros j _. rewrite binom_S_S, natQ_plus. ring. }
      rewrite sumn_add, (IH m), (IH (S m)).
      rewrite binom_S_S, natQ_plus, (qpow_S t m). ring.
Qed.

Corollary Bern_moment u p m :
  sumn (S p) (fun j => natQ (binom j m) * Bern p j u) == natQ (binom p m) * qpow u m.
Proof.
  rewrite <- (bern_moment u p m). apply sumn_ext. intros j _. rewrite bern_closed. reflexivity.
Qed.

(* ------------------------------------------------------------------ *)
(* 2. Q1: the weights are exact on the Bernstein basis                  *)
(* ------------------------------------------------------------------ *)
Lemma qsum_sumn l : qsum l == sumn (length l) (fun i => nth i l 0).
Proof.
  induction l as [|x l IH]; [reflexivity|].
  cbn [length qsum]. rewrite sumn_S_l. cbn [nth]. rewrite IH. reflexivity.
Qed.

Lemma bm_length nodes : length (bernstein_matrix nodes) = (length nodes - 1 + 1)%nat.
Proof. unfold bernstein_matrix. cbv zeta. rewrite map_length, seq_length. reflexivity. Qed.

Lemma bm_row nodes i : (i < length nodes - 1 + 1)%nat ->
  nth i (bernstein_matrix nodes) [] =
  map (fun u => Qred (natQ (binom (length nodes - 1) i) * qpow (1 - u) (length nodes - 1 - i) * qpow u i)) nodes.
Proof.
  intro H. unfold bernstein_matrix. cbv zeta.
  exact (nth_map_seq (fun i => map (fun u => Qred (natQ (binom (length nodes - 1) i) *
           qpow (1 - u) (length nodes - 1 - i) * qpow u i)) nodes) _ [] i H).
Qed.

Lemma bm_entry nodes i k : (i < length nodes - 1 + 1)%nat -> (k < length nodes)%nat ->
  nth k (nth i (bernstein_matrix nodes) []) 0 == Bern (length nodes - 1) i (nth k nodes 0).
Proof.
  intros Hi Hk. rewrite bm_row by exact Hi.
  rewrite (nth_map_lt _ nodes 0 0 k Hk). rewrite Qred_correct. reflexivity.
Qed.

Lemma bia_unfold nodes w : bezier_integrator_array nodes = Ok w ->
  exists inv, invert (bernstein_matrix nodes) = Ok inv /\
              w = map (fun line => Qred (qsum line / natQ (length nodes))) inv /\
              forallb (fun u => Qleb 0 u && Qleb u 1) nodes = true.
Proof.
  unfold bezier_integrator_array, interpolate_bezier. intro H.
  destruct (forallb (fun u => Qleb 0 u && Qleb u 1) nodes) eqn:E; cbn [negb bind] in H; [|discriminate].
  destruct (invert (bernstein_matrix nodes)) as [inv|e] eqn:Ei; cbn [bind] in H; [|discriminate].
  exists inv. inversion H. auto.
Qed.

Lemma bia_shape nodes inv : invert (bernstein_matrix nodes) = Ok inv ->
  let n := length nodes in
  (0 < n)%nat /\ shaped n n (bernstein_matrix nodes) /\ shaped n n inv /\
  meq (mmul_n n (bernstein_matrix nodes) inv) (ident n).
Proof.
  intros H n. destruct (invert_sound _ _ H) as (HM & HI & _ & HR).
  rewrite bm_length in HM, HI, HR. fold n in HM, HI, HR.
  assert (E : (n - 1 + 1)%nat = n).
  { pose proof (shaped_row _ _ _ 0%nat HM ltac:(lia)) as K.
    rewrite bm_row in K by (fold n; lia). rewrite map_length in K. fold n in K. lia. }
  rewrite E in *. split; [lia|]. split; [exact HM|]. split; [exact HI|exact HR].
Qed.

Lemma bia_length nodes w : bezier_integrator_array nodes = Ok w -> length w = length nodes.
Proof.
  intro H. destruct (bia_unfold _ _ H) as (inv & Hinv & -> & _).
  destruct (bia_shape _ _ Hinv) as (_ & _ & HI & _). rewrite map_length. apply HI.
Qed.

Lemma bia_nonempty nodes w : bezier_integrator_array nodes = Ok w -> (0 < length nodes)%nat.
Proof.
  intro H. destruct (bia_unfold _ _ H) as (inv & Hinv & _ & _).
  destruct (bia_shape _ _ Hinv) as (K & _). exact K.
Qed.

Lemma bia_nodes_unit nodes w : bezier_integrator_array nodes = Ok w ->
  forall k, (k < length nodes)%nat -> 0 <= nth k nodes 0 <= 1.
Proof.
  intros H k Hk. destruct (bia_unfold _ _ H) as (inv & _ & _ & F).
  rewrite forallb_forall in F. specialize (F (nth k nodes 0) (nth_In _ _ Hk)).
  apply andb_true_iff in F. destruct F as [F1 F2]. apply Qleb_le in F1, F2. split; assumption.
Qed.

Lemma sumn_indicator n j : (j < n)%nat -> sumn n (fun i => if Nat.eqb j i then 1 else 0) == 1.
Proof.
  intro H. pose proof (sumn_delta n j (fun _ => 1) H) as K. cbv beta in K.
  rewrite <- K. apply sumn_ext. intros i _. ring.
Qed.

(* Q1 *)
Theorem weights_exact_bernstein nodes w : bezier_integrator_array nodes = Ok w ->
  let n := length nodes in let p := (n - 1)%nat in
  length w = n /\
  forall j, (j <= p)%nat ->
    sumn n (fun k => nth k w 0 * Bern p j (nth k nodes 0)) == 1 / natQ n.
Proof.
  intros H n p. split; [apply bia_length; exact H|]. intros j Hj.
  destruct (bia_unfold _ _ H) as (inv & Hinv & Hw & _).
  destruct (bia_shape _ _ Hinv) as (Hn & HM & HI & HR). fold n in Hn, HM, HI, HR, Hw.
  set (M := bernstein_matrix nodes) in *.
  assert (Hjn : (j < n)%nat) by (unfold p in Hj; lia).
  assert (Hnq : 0 < natQ n) by (apply natQ_pos; exact Hn).
  (* entries of M * inv *)
  assert (P : forall i, (i < n)%nat ->
            sumn n (fun k => nth k (nth j M []) 0 * nth i (nth k inv []) 0) ==
            if Nat.eqb j i then 1 else 0).
  { intros i Hi. rewrite <- (entry_ident n j i Hjn Hi).
    rewrite <- (veq_nth _ _ (meq_row _ _ HR j) i).
    rewrite entry_mmul_n by (try rewrite (proj1 HM); assumption).
    rewrite (dot_sumn n) by (left; rewrite (shaped_row n n M j HM Hjn); lia).
    apply sumn_ext. intros k _. rewrite nth_mcol. reflexivity. }
  transitivity ((1 / natQ n) *
    sumn n (fun k => sumn n (fun i => nth k (nth j M []) 0 * nth i (nth k inv []) 0))).
  - rewrite <- sumn_scale_l. apply sumn_ext. intros k Hk.
    rewrite Hw. rewrite (nth_map_lt _ inv 0 [] k) by (rewrite (proj1 HI); exact Hk).
    rewrite Qred_correct. rewrite qsum_sumn. rewrite (shaped_row n n inv k HI Hk).
    rewrite sumn_scale_l. unfold M. rewrite (bm_entry nodes j k) by (fold n; lia). fold n p.
    field. lra.
  - rewrite sumn_exchange. rewrite (sumn_ext n _ (fun i => if Nat.eqb j i then 1 else 0) P).
    rewrite sumn_indicator by exact Hjn. ring.
Qed.

(* Q1 with the basis polynomial written out *)
Corollary weights_exact_bernstein_explicit nodes w : bezier_integrator_array nodes = Ok w ->
  forall j, (j <= length nodes - 1)%nat ->
    sumn (length nodes) (fun k => nth k w 0 *
      (natQ (binom (length nodes - 1) j) * qpow (1 - nth k nodes 0) (length nodes - 1 - j) *
       qpow (nth k nodes 0) j)) == 1 / natQ (length nodes).
Proof. intros H j Hj. exact (proj2 (weights_exact_bernstein nodes w H) j Hj). Qed.

(* ------------------------------------------------------------------ *)
(* 3. Q2 / Q3: weights sum to one; exact on monomials                   *)
(* ------------------------------------------------------------------ *)
Lemma sumn_const n c : sumn n (fun _ => c) == natQ n * c.
Proof. induction n as [|n IH]; cbn [sumn]; [rewrite natQ_0; ring|]. rewrite IH, natQ_S. ring. Qed.

(* every polynomial written in the Bernstein basis is integrated exactly *)
Lemma weights_on_combination nodes w (g : nat -> Q) : bezier_integrator_array nodes = Ok w ->
  let n := length nodes in let p := (n - 1)%nat in
  sumn n (fun k => nth k w 0 * sumn (S p) (fun j => g j * Bern p j (nth k nodes 0))) ==
  (1 / natQ n) * sumn (S p) g.
Proof.
  intros H n p. destruct (weights_exact_bernstein nodes w H) as [_ Q1]. fold n p in Q1.
  rewrite (sumn_ext n _ (fun k => sumn (S p) (fun j => g j * (nth k w 0 * Bern p j (nth k nodes 0))))).
  2:{ intros k _. rewrite <- sumn_scale_l. apply sumn_ext. intros j _. ring. }
  rewrite sumn_exchange.
  rewrite (sumn_ext (S p) _ (fun j => (1 / natQ n) * g j)).
  2:{ intros j Hj. rewrite sumn_scale_l. rewrite (Q1 j) by lia. ring. }
  rewrite sumn_scale_l. reflexivity.
Qed.

(* Q2 *)
Theorem weights_sum_one nodes w : bezier_integrator_array nodes = Ok w ->
  sumn (length nodes) (fun k => nth k w 0) == 1.
Proof.
  intro H. pose proof (bia_nonempty _ _ H) as Hn.
  pose proof (weights_on_combination nodes w (fun _ => 1) H) as K. cbv zeta in K.
  set (n := length nodes) in *. set (p := (n - 1)%nat) in *.
  rewrite (sumn_ext n _ (fun k => nth k w 0)) in K.
  2:{ intros k _. rewrite (sumn_ext (S p) _ (fun j => Bern p j (nth k nodes 0))) by (intros; ring).
      rewrite Bern_partition. ring. }
  rewrite K, sumn_const. replace (S p) with n by (unfold p; lia).
  pose proof (natQ_pos n Hn). field. lra.
Qed.

(* Q3 *)
Theorem weights_exact_monomials nodes w : bezier_integrator_array nodes = Ok w ->
  forall m, (m <= length nodes - 1)%nat ->
  sumn (length nodes) (fun k => nth k w 0 * qpow (nth k nodes 0) m) == 1 / natQ (m + 1).
Proof.
  intros H m Hm. pose proof (bia_nonempty _ _ H) as Hn.
  pose proof (weights_on_combination nodes w (fun j => natQ (binom j m)) H) as K. cbv zeta in K.
  set (n := length nodes) in *. set (p := (n - 1)%nat) in *.
  rewrite (sumn_ext n _ (fun k => natQ (binom p m) * (nth k w 0 * qpow (nth k nodes 0) m))) in K.
  2:{ intros k _. rewrite Bern_moment. ring. }
  rewrite sumn_scale_l, hockey in K.
  assert (Hb : 0 < natQ (binom p m)) by (apply natQ_pos, binom_pos; exact Hm).
  assert (Hnq : 0 < natQ n) by (apply natQ_pos; exact Hn).
  assert (Hm1 : 0 < natQ (m + 1)) by (apply natQ_pos; lia).
  pose proof (natQ_eq _ _ (binom_absorb p m)) as A. rewrite !natQ_mult in A.
  replace (S p) with n in * by (unfold p; lia). replace (S m) with (m + 1)%nat in * by lia.
  set (X := sumn n (fun k => nth k w 0 * qpow (nth k nodes 0) m)) in *.
  assert (E : X == (1 / natQ n) * natQ (binom n (m + 1)) / natQ (binom p m)).
  { rewrite <- K. field. lra. }
  rewrite E.
  assert (E2 : natQ (binom n (m + 1)) == natQ n * natQ (binom p m) / natQ (m + 1)).
  { rewrite <- A. field. lra. }
  rewrite E2. field. repeat split; lra.
Qed.

(* ------------------------------------------------------------------ *)
(* 4. Q4: the equally spaced nodes and the rules the model returns      *)
(* ------------------------------------------------------------------ *)
Lemma Qdiv_lt_r a b c : 0 < c -> a < b -> a / c < b / c.
Proof. intros Hc H. unfold Qdiv. apply Qmult_lt_compat_r; [apply Qinv_lt_0_compat|]; assumption. Qed.
Lemma Qdiv_le_r a b c : 0 < c -> a <= b -> a / c <= b / c.
Proof.
  intros Hc H. unfold Qdiv. apply Qmult_le_compat_r; [assumption|].
  apply Qlt_le_weak, Qinv_lt_0_compat. assumption.
Qed.
Lemma Qdiv_same c : 0 < c -> c / c == 1.
Proof. intro H. field. lra. Qed.

Lemma closed_linspace_unfold n x : closed_linspace n = Ok x ->
  (1 < n)%nat /\ x = map (fun k => Qred (natQ k / natQ (n - 1))) (seq 0 n).
Proof.
  unfold closed_linspace. destruct (Nat.leb_spec n 1) as [L|L]; intro K; [discriminate|].
  inversion K. split; [exact L|reflexivity].
Qed.

Lemma open_linspace_unfold n x : open_linspace n = Ok x ->
  (0 < n)%nat /\ x = map (fun k => Qred (natQ (2 * k + 1) / natQ (2 * n))) (seq 0 n).
Proof.
  unfold open_linspace. destruct (Nat.eqb_spec n 0) as [L|L]; intro K; [discriminate|].
  inversion K. split; [lia|reflexivity].
Qed.

Lemma closed_linspace_length n x : closed_linspace n = Ok x -> length x = n.
Proof. intro H. destruct (closed_linspace_unfold _ _ H) as [_ ->]. rewrite map_length. apply seq_length. Qed.
Lemma open_linspace_length n x : open_linspace n = Ok x -> length x = n.
Proof. intro H. destruct (open_linspace_unfold _ _ H) as [_ ->]. rewrite map_length. apply seq_length. Qed.

Lemma closed_linspace_nth n x k : closed_linspace n = Ok x -> (k < n)%nat ->
  nth k x 0 == natQ k / natQ (n - 1).
Proof.
  intros H Hk. destruct (closed_linspace_unfold _ _ H) as [_ ->].
  rewrite (nth_map_seq (fun k => Qred (natQ k / natQ (n - 1))) n 0 k Hk). apply Qred_correct.
Qed.
Lemma open_linspace_nth n x k : open_linspace n = Ok x -> (k < n)%nat ->
  nth k x 0 == natQ (2 * k + 1) / natQ (2 * n).
Proof.
  intros H Hk. destruct (open_linspace_unfold _ _ H) as [_ ->].
  rewrite (nth_map_seq (fun k => Qred (natQ (2 * k + 1) / natQ (2 * n))) n 0 k Hk). apply Qred_correct.
Qed.

Theorem closed_linspace_nodes n x : closed_linspace n = Ok x ->
  (1 < n)%nat /\ length x = n /\
  nth 0 x 0 == 0 /\ nth (n - 1) x 0 == 1 /\
  (forall i j, (i < j)%nat -> (j < n)%nat -> nth i x 0 < nth j x 0) /\
  (forall k, (k < n)%nat -> 0 <= nth k x 0 <= 1).
Proof.
  intro H. destruct (closed_linspace_unfold _ _ H) as [Hn _].
  assert (Hd : 0 < natQ (n - 1)) by (apply natQ_pos; lia).
  split; [exact Hn|]. split; [apply (closed_linspace_length _ _ H)|].
  split; [|split; [|split]].
  - rewrite (closed_linspace_nth n x 0 H) by lia. rewrite natQ_0. field. lra.
  - rewrite (closed_linspace_nth n x (n - 1) H) by lia. apply Qdiv_same. exact Hd.
  - intros i j Hij Hj. rewrite (closed_linspace_nth n x i H), (closed_linspace_nth n x j H) by lia.
    apply Qdiv_lt_r; [exact Hd|]. apply natQ_lt. exact Hij.
  - intros k Hk. rewrite (closed_linspace_nth n x k H) by lia. split.
    + setoid_replace 0 with (0 / natQ (n - 1)) by (field; lra).
      apply Qdiv_le_r; [exact Hd|]. apply natQ_nonneg.
    + apply Qle_trans with (natQ (n - 1) / natQ (n - 1)); [|rewrite (Qdiv_same _ Hd); lra].
      apply Qdiv_le_r; [exact Hd|]. apply natQ_le. lia.
Qed.

Theorem open_linspace_nodes n x : open_linspace n = Ok x ->
  (0 < n)%nat /\ length x = n /\
  (forall i j, (i < j)%nat -> (j < n)%nat -> nth i x 0 < nth j x 0) /\
  (forall k, (k < n)%nat -> 0 < nth k x 0 < 1).
Proof.
  intro H. destruct (open_linspace_unfold _ _ H) as [Hn _].
  assert (Hd : 0 < natQ (2 * n)) by (apply natQ_pos; lia).
  split; [exact Hn|]. split; [apply (open_linspace_length _ _ H)|]. split.
  - intros i j Hij Hj. rewrite (open_linspace_nth n x i H), (open_linspace_nth n x j H) by lia.
    apply Qdiv_lt_r; [exact Hd|]. apply natQ_lt. lia.
  - intros k Hk. rewrite (open_linspace_nth n x k H) by lia. split.
    + setoid_replace 0 with (0 / natQ (2 * n)) by (field; lra).
      apply Qdiv_lt_r; [exact Hd|]. apply natQ_pos. lia.
    + apply Qlt_le_trans with (natQ (2 * n) / natQ (2 * n)); [|rewrite (Qdiv_same _ Hd); lra].
      apply Qdiv_lt_r; [exact Hd|]. apply natQ_lt. lia.
Qed.

Lemma compute_closed_unfold n w : compute_closed n = Ok w ->
  exists x, closed_linspace n = Ok x /\ bezier_integrator_array x = Ok w.
Proof.
  unfold compute_closed. destruct (closed_linspace n) as [x|e]; cbn [bind]; intro H; [|discriminate].
  exists x. split; [reflexivity|exact H].
Qed.
Lemma compute_open_unfold n w : compute_open n = Ok w ->
  exists x, open_linspace n = Ok x /\ bezier_integrator_array x = Ok w.
Proof.
  unfold compute_open. destruct (open_linspace n) as [x|e]; cbn [bind]; intro H; [|discriminate].
  exists x. split; [reflexivity|exact H].
Qed.

(* the rule (nodes x, weights w) is interpolatory of degree n - 1 *)
Definition exact_rule (n : nat) (x w : list Q) : Prop :=
  length x = n /\ length w = n /\
  (forall j, (j <= n - 1)%nat ->
     sumn n (fun k => nth k w 0 * Bern (n - 1) j (nth k x 0)) == 1 / natQ n) /\
  sumn n (fun k => nth k w 0) == 1 /\
  (forall m, (m <= n - 1)%nat ->
     sumn n (fun k => nth k w 0 * qpow (nth k x 0) m) == 1 / natQ (m + 1)).

Lemma bia_exact_rule x w : bezier_integrator_array x = Ok w -> exact_rule (length x) x w.
Proof.
  intro H. destruct (weights_exact_bernstein x w H) as [HL Q1].
  split; [reflexivity|]. split; [exact HL|]. split; [exact Q1|].
  split; [apply weights_sum_one; exact H|]. apply weights_exact_monomials. exact H.
Qed.

Theorem compute_closed_exact n w : compute_closed n = Ok w ->
  exists x, closed_linspace n = Ok x /\ exact_rule n x w.
Proof.
  intro H. destruct (compute_closed_unfold _ _ H) as (x & Hx & Hw). exists x. split; [exact Hx|].
  rewrite <- (closed_linspace_length _ _ Hx) at 1. apply bia_exact_rule. exact Hw.
Qed.

Theorem compute_open_exact n w : compute_open n = Ok w ->
  exists x, open_linspace n = Ok x /\ exact_rule n x w.
Proof.
  intro H. destruct (compute_open_unfold _ _ H) as (x & Hx & Hw). exists x. split; [exact Hx|].
  rewrite <- (open_linspace_length _ _ Hx) at 1. apply bia_exact_rule. exact Hw.
Qed.

(* ------------------------------------------------------------------ *)
(* 5. Q5: the literal tables of the source                              *)
(* ------------------------------------------------------------------ *)
Definition tbl_agrees (compute : nat -> res (list Q)) (t : tbl) : bool :=
  forallb (fun e => match compute (fst e) with Ok w => ql_eqb w (snd e) | Err _ => false end) t.

Theorem closed_table_correct : tbl_agrees compute_closed tbl_closed_newton = true.
Proof. vm_compute. reflexivity. Qed.

Theorem open_table_correct : tbl_agrees compute_open tbl_open_newton = true.
Proof. vm_compute. reflexivity. Qed.

(* literally the statement of the brief *)
Corollary closed_table_correct' :
  forallb (fun e => match compute_closed (fst e) with Ok w => ql_eqb w (snd e) | Err _ => false end)
          tbl_closed_newton = true.
Proof. exact closed_table_correct. Qed.
Corollary open_table_correct' :
  forallb (fun e => match compute_open (fst e) with Ok w => ql_eqb w (snd e) | Err _ => false end)
          tbl_open_newton = true.
Proof. exact open_table_correct. Qed.

(* propositional reading: every literal entry is (Qeq-)the computed rule *)
Lemma tbl_agrees_spec compute t : tbl_agrees compute t = true ->
  forall n w, In (n, w) t -> exists w', compute n = Ok w' /\ veq w' w.
Proof.
  unfold tbl_agrees. rewrite forallb_forall. intros H n w Hin. specialize (H _ Hin). cbn [fst snd] in H.
  destruct (compute n) as [w'|e]; [|discriminate]. exists w'. split; [reflexivity|].
  apply ql_eqb_sound. exact H.
Qed.

(* strict (syntactic) agreement: the literals are in lowest terms, as the computed values are *)
Definition Qsame (x y : Q) : bool := Z.eqb (Qnum x) (Qnum y) && Pos.eqb (Qden x) (Qden y).
Lemma Qsame_eq x y : Qsame x y = true <-> x = y.
Proof.
  unfold Qsame. destruct x as [a b], y as [c d]. cbn [Qnum Qden]. rewrite andb_true_iff, Z.eqb_eq, Pos.eqb_eq.
  split; [intros [-> ->]; reflexivity | intro H; inversion H; auto].
Qed.
Definition ql_same := list_eqb Qsame.
Lemma ql_same_eq a b : ql_same a b = true <-> a = b.
Proof.
  unfold ql_same. rewrite (list_eqb_Forall2 Qsame eq Qsame_eq).
  split; intro H; [induction H; subst; reflexivity | subst; induction b; constructor; auto].
Qed.

Definition tbl_same (compute : nat -> res (list Q)) (t : tbl) : bool :=
  forallb (fun e => match compute (fst e) with Ok w => ql_same w (snd e) | Err _ => false end) t.

Theorem closed_table_same : tbl_same compute_closed tbl_closed_newton = true.
Proof. vm_compute. reflexivity. Qed.
Theorem open_table_same : tbl_same compute_open tbl_open_newton = true.
Proof. vm_compute. reflexivity. Qed.

Lemma tbl_same_lookup compute t : tbl_same compute t = true ->
  forall n w, lookup n t = Some w -> compute n = Ok w.
Proof.
  unfold tbl_same. induction t as [|[m v] t IH]; cbn [forallb lookup fst snd]; intros H n w L; [discriminate|].
  apply andb_true_iff in H. destruct H as [H1 H2].
  destruct (Nat.eqb_spec m n) as [E|E].
  - inversion L; subst. destruct (compute n) as [w'|e]; [|discriminate].
    apply ql_same_eq in H1. subst. reflexivity.
  - apply IH; assumption.
Qed.

(* ------------------------------------------------------------------ *)
(* 6. Q6: the memo tables never change an answer                        *)
(* ------------------------------------------------------------------ *)
Definition Inv (s : qstate) : Prop :=
  (forall n w, lookup n (st_closed s) = Some w -> compute_closed n = Ok w) /\
  (forall n w, lookup n (st_open s) = Some w -> compute_open n = Ok w).

Theorem Inv_qinit : Inv qinit.
Proof.
  split; cbn [qinit st_closed st_open].
  - apply tbl_same_lookup. exact closed_table_same.
  - apply tbl_same_lookup. exact open_table_same.
Qed.

Lemma compute_closed_small n : (n <= 1)%nat -> compute_closed n = Err AssertionError.
Proof.
  intro H. unfold compute_closed, closed_linspace. destruct (Nat.leb_spec n 1); [reflexivity|lia].
Qed.
Lemma compute_open_zero : compute_open 0 = Err AssertionError.
Proof. reflexivity. Qed.

Lemma lookup_cons_inv (compute : nat -> res (list Q)) n w t :
  compute n = Ok w ->
  (forall m v, lookup m t = Some v -> compute m = Ok v) ->
  forall m v, lookup m ((n, w) :: t) = Some v -> compute m = Ok v.
Proof.
  intros Hc Ht m v. cbn [lookup]. destruct (Nat.eqb_spec n m) as [E|E]; intro L.
  - inversion L; subst. exact Hc.
  - apply Ht. exact L.
Qed.

Theorem get_closed_Inv n s : Inv s -> Inv (snd (get_closed n s)).
Proof.
  intros [Hc Ho]. unfold get_closed.
  destruct (n <=? 1)%nat; [split; assumption|].
  destruct (lookup n (st_closed s)) as [w|]; [split; assumption|].
  destruct (compute_closed n) as [w|e] eqn:E; [|split; assumption].
  cbn [snd]. split; cbn [st_closed st_open]; [|exact Ho].
  apply lookup_cons_inv; assumption.
Qed.

Theorem get_open_Inv n s : Inv s -> Inv (snd (get_open n s)).
Proof.
  intros [Hc Ho]. unfold get_open.
  destruct (n =? 0)%nat; [split; assumption|].
  destruct (lookup n (st_open s)) as [w|]; [split; assumption|].
  destruct (compute_open n) as [w|e] eqn:E; [|split; assumption].
  cbn [snd]. split; cbn [st_closed st_open]; [exact Hc|].
  apply lookup_cons_inv; assumption.
Qed.

(* under the invariant, the answer is the computed rule, whatever the tables contain *)
Theorem get_closed_answer n s : Inv s -> fst (get_closed n s) = compute_closed n.
Proof.
  intros [Hc _]. unfold get_closed. destruct (Nat.leb_spec n 1) as [L|L].
  - cbn [fst]. symmetry. apply compute_closed_small. exact L.
  - destruct (lookup n (st_closed s)) as [w|] eqn:E.
    + cbn [fst]. symmetry. apply Hc. exact E.
    + destruct (compute_closed n); reflexivity.
Qed.

Theorem get_open_answer n s : Inv s -> fst (get_open n s) = compute_open n.
Proof.
  intros [_ Ho]. unfold get_open. destruct (Nat.eqb_spec n 0) as [L|L].
  - subst. reflexivity.
  - destruct (lookup n (st_open s)) as [w|] eqn:E.
    + cbn [fst]. symmetry. apply Ho. exact E.
    + destruct (compute_open n); reflexivity.
Qed.

(* a request: (true, n) = closed_newton_cotes(n), (false, n) = open_newton_cotes(n) *)
Definition request (c : bool * nat) (s : qstate) : res (list Q) * qstate :=
  if fst c then get_closed (snd c) s else get_open (snd c) s.
Definition run (calls : list (bool * nat)) (s : qstate) : qstate :=
  fold_left (fun s c => snd (request c s)) calls s.
(* the answers given along the way *)
Fixpoint run_answers (calls : list (bool * nat)) (s : qstate) : list (res (list Q)) :=
  match calls with
  | [] => []
  | c :: cs => fst (request c s) :: run_answers cs (snd (request c s))
  end.
Definition fresh_answer (c : bool * nat) : res (list Q) :=
  if fst c then closed_newton_cotes (snd c) else open_newton_cotes (snd c).

Lemma request_Inv c s : Inv s -> Inv (snd (request c s)).
Proof. unfold request. destruct (fst c); [apply get_closed_Inv|apply get_open_Inv]. Qed.

Theorem run_Inv calls : forall s, Inv s -> Inv (run calls s).
Proof.
  unfold run. induction calls as [|c cs IH]; intros s H; [exact H|].
  cbn [fold_left]. apply IH. apply request_Inv. exact H.
Qed.

Theorem request_answer c s : Inv s -> fst (request c s) = fresh_answer c.
Proof.
  intro H. unfold request, fresh_answer, closed_newton_cotes, open_newton_cotes.
  destruct (fst c).
  - rewrite (get_closed_answer _ s H), (get_closed_answer _ qinit Inv_qinit). reflexivity.
  - rewrite (get_open_answer _ s H), (get_open_answer _ qinit Inv_qinit). reflexivity.
Qed.

(* Q6: history independence *)
Theorem history_independent_closed calls n :
  fst (get_closed n (run calls qinit)) = fst (get_closed n qinit).
Proof.
  rewrite (get_closed_answer n _ (run_Inv calls qinit Inv_qinit)).
  rewrite (get_closed_answer n qinit Inv_qinit). reflexivity.
Qed.

Theorem history_independent_open calls n :
  fst (get_open n (run calls qinit)) = fst (get_open n qinit).
Proof.
  rewrite (get_open_answer n _ (run_Inv calls qinit Inv_qinit)).
  rewrite (get_open_answer n qinit Inv_qinit). reflexivity.
Qed.

Theorem history_independent calls c :
  fst (request c (run calls qinit)) = fst (request c qinit).
Proof.
  rewrite (request_answer c _ (run_Inv calls qinit Inv_qinit)).
  rewrite (request_answer c qinit Inv_qinit). reflexivity.
Qed.

(* every answer of every session is the answer of a fresh process *)
Theorem run_answers_fresh calls : forall s, Inv s -> run_answers calls s = map fresh_answer calls.
Proof.
  induction calls as [|c cs IH]; intros s H; [reflexivity|].
  cbn [run_answers map]. rewrite (request_answer c s H). f_equal. apply IH. apply request_Inv. exact H.
Qed.

Corollary session_answers calls : run_answers calls qinit = map fresh_answer calls.
Proof. apply run_answers_fresh. exact Inv_qinit. Qed.

(* the fresh answers are the computed rules, hence exact *)
Corollary closed_newton_cotes_is_compute n : closed_newton_cotes n = compute_closed n.
Proof. apply get_closed_answer. exact Inv_qinit. Qed.
Corollary open_newton_cotes_is_compute n : open_newton_cotes n = compute_open n.
Proof. apply get_open_answer. exact Inv_qinit. Qed.

Corollary closed_newton_cotes_exact calls n w : fst (get_closed n (run calls qinit)) = Ok w ->
  exists x, closed_linspace n = Ok x /\ exact_rule n x w.
Proof.
  rewrite (get_closed_answer n _ (run_Inv calls qinit Inv_qinit)). apply compute_closed_exact.
Qed.
Corollary open_newton_cotes_exact calls n w : fst (get_open n (run calls qinit)) = Ok w ->
  exists x, open_linspace n = Ok x /\ exact_rule n x w.
Proof.
  rewrite (get_open_answer n _ (run_Inv calls qinit Inv_qinit)). apply compute_open_exact.
Qed.

(* ------------------------------------------------------------------ *)
(* 7. Concrete instances (non-vacuity)                                  *)
(* ------------------------------------------------------------------ *)
Example ex_boole : compute_closed 5 = Ok [7#90; 16#45; 2#15; 16#45; 7#90].
Proof. vm_compute. reflexivity. Qed.

Example ex_open4 : compute_open 4 = Ok [13#48; 11#48; 11#48; 13#48].
Proof. vm_compute. reflexivity. Qed.

Example ex_boole_exact : exists x, closed_linspace 5 = Ok x /\
  exact_rule 5 x [7#90; 16#45; 2#15; 16#45; 7#90].
Proof. apply compute_closed_exact. exact ex_boole. Qed.

Example ex_session :
  run_answers [(true, 5%nat); (false, 4%nat); (true, 5%nat); (true, 1%nat); (false, 0%nat); (true, 3%nat)] qinit =
  [Ok [7#90; 16#45; 2#15; 16#45; 7#90]; Ok [13#48; 11#48; 11#48; 13#48];
   Ok [7#90; 16#45; 2#15; 16#45; 7#90]; Err AssertionError; Err AssertionError; Ok [1#6; 2#3; 1#6]].
Proof. vm_compute. reflexivity. Qed.

Example ex_all_ok_upto_12 :
  forallb (fun n => is_ok (compute_closed n) && is_ok (compute_open n)) (seq 2 11) = true.
Proof. vm_compute. reflexivity. Qed.

Print Assumptions bern_closed.
Print Assumptions Bern_partition.
Print Assumptions Bern_moment.
Print Assumptions weights_exact_bernstein.
Print Assumptions weights_exact_bernstein_explicit.
Print Assumptions weights_sum_one.
Print Assumptions weights_exact_monomials.
Print Assumptions closed_linspace_nodes.
Print Assumptions open_linspace_nodes.
Print Assumptions compute_closed_exact.
Print Assumptions compute_open_exact.
Print Assumptions closed_table_correct.
Print Assumptions open_table_correct.
Print Assumptions Inv_qinit.
Print Assumptions get_closed_Inv.
Print Assumptions get_open_Inv.
Print Assumptions history_independent_closed.
Print Assumptions history_independent_open.
Print Assumptions history_independent.
Print Assumptions session_answers.
Print Assumptions closed_newton_cotes_exact.
Print Assumptions open_newton_cotes_exact.
