(* Classical B-spline facts over Q:
   A. L-local: the global specification N (Spec/BSpline.v) equals the span-local recursion
      Nloc (Proofs/Local.v) on a span, and at umax equals the recursion of the last span.
   B. Non-negativity and partition of unity of Nloc.
   C. Invariance under a strictly increasing affine reparametrisation. *)
From Coq Require Import QArith List Lia Lqa Arith Bool Setoid.
From NurbsV Require Import Base.QList Spec.BSpline Proofs.Local.
Import ListNotations.
Open Scope Q_scope.

(* case analysis on every boolean rational test in the goal *)
Ltac qcases :=
  repeat match goal with
  | |- context [Qleb ?a ?b] => destruct (Qleb_spec a b)
  | |- context [Qltb ?a ?b] => destruct (Qltb_spec a b)
  | |- context [Qeqb ?a ?b] => destruct (Qeqb_spec a b)
  end; cbn [andb]; try reflexivity; try (exfalso; lra).

(* ------------------------------------------------------------------ *)
(* A. L-local                                                          *)
(* ------------------------------------------------------------------ *)
Section LLocal.
Variable U : nat -> Q.
Variable n : nat.

Lemma ind0_local (s : nat) (u : Q) :
  mono U -> U s <= u -> u < U (S s) -> ~ u == U n ->
  forall i, ind0 U n i u == (if Nat.eqb i s then 1 else 0).
Proof.
  intros HU H1 H2 H3 i. unfold ind0.
  destruct (Nat.eqb_spec i s) as [E|E].
  - rewrite E. qcases.
  - destruct (lt_eq_lt_dec i s) as [[L|L]|L]; [| lia |].
    + pose proof (mono_le U HU (S i) s L). qcases.
    + pose proof (mono_le U HU (S s) i L). qcases.
Qed.

Theorem N_local (s : nat) (u : Q) :
  mono U -> U s <= u -> u < U (S s) -> ~ u == U n ->
  forall j i, N U n j i u == Nloc U s j i u.
Proof.
  intros HU H1 H2 H3. induction j as [|j' IH]; intro i.
  - cbn [N Nloc]. apply ind0_local; assumption.
  - cbn [N Nloc]. rewrite (IH i), (IH (S i)). reflexivity.
Qed.

Lemma ind0_umax :
  mono U -> (0 < n)%nat -> U (n - 1)%nat < U n ->
  (forall i, (n <= i)%nat -> U i == U n) ->
  forall i, ind0 U n i (U n) == (if Nat.eqb i (n - 1) then 1 else 0).
Proof.
  intros HU Hn Hlt Hflat i. unfold ind0.
  destruct (Nat.eqb_spec i (n - 1)) as [E|E].
  - rewrite E. replace (S (n - 1)) with n by lia. qcases.
  - destruct (le_lt_dec n i) as [L|L].
    + pose proof (Hflat i L). pose proof (Hflat (S i) ltac:(lia)). qcases.
    + pose proof (mono_le U HU (S i) (n - 1)%nat ltac:(lia)). qcases.
Qed.

Theorem N_umax :
  mono U -> (0 < n)%nat -> U (n - 1)%nat < U n ->
  (forall i, (n <= i)%nat -> U i == U n) ->
  forall j i, N U n j i (U n) == Nloc U (n - 1) j i (U n).
Proof.
  intros HU Hn Hlt Hflat. induction j as [|j' IH]; intro i.
  - cbn [N Nloc]. apply ind0_umax; assumption.
  - cbn [N Nloc]. rewrite (IH i), (IH (S i)). reflexivity.
Qed.
End LLocal.

(* ------------------------------------------------------------------ *)
(* generic facts on sums over windows of nat                           *)
(* ------------------------------------------------------------------ *)
Lemma Qdiv_nonneg a b : 0 <= a -> 0 <= b -> 0 <= a / b.
Proof.
  intros Ha Hb. unfold Qdiv. apply Qmult_le_0_compat; [exact Ha|].
  apply Qinv_le_0_compat. exact Hb.
Qed.

Lemma Qplus_nonneg a b : 0 <= a -> 0 <= b -> 0 <= a + b.
Proof. intros; lra. Qed.

Lemma qsum_telescope (g : nat -> Q) m : forall a,
  qsum (map (fun i => g i - g (S i)) (seq a m)) == g a - g (a + m)%nat.
Proof.
  induction m as [|m IH]; intro a; cbn [seq map qsum].
  - rewrite Nat.add_0_r. ring.
  - rewrite IH. replace (S a + m)%nat with (a + S m)%nat by lia. ring.
Qed.

Lemma qsum_shift (f : nat -> Q) a m :
  qsum (map (fun i => f (S i)) (seq a m)) = qsum (map f (seq (S a) m)).
Proof. rewrite <- seq_shift, map_map. reflexivity. Qed.

Lemma qsum_nonneg (f : nat -> Q) l : (forall i, 0 <= f i) -> 0 <= qsum (map f l).
Proof.
  intro H. induction l as [|x l IH]; cbn [map qsum]; [lra|].
  apply Qplus_nonneg; [apply H | exact IH].
Qed.

Lemma qsum_term_le (f : nat -> Q) l i :
  (forall k, 0 <= f k) -> In i l -> f i <= qsum (map f l).
Proof.
  intros H. induction l as [|x l IH]; cbn [map qsum In]; [tauto|].
  intros [E|I].
  - rewrite E. pose proof (qsum_nonneg f l H). lra.
  - specialize (IH I). pose proof (H x). lra.
Qed.

(* ------------------------------------------------------------------ *)
(* B. non-negativity and partition of unity                            *)
(* ------------------------------------------------------------------ *)
Section Unity.
Variable U : nat -> Q.
Variable s : nat.
Variable u : Q.
Hypothesis HU : mono U.
Hypothesis Hu1 : U s <= u.
Hypothesis Hu2 : u < U (S s).

Lemma coefA_nonneg i k : (i <= s)%nat -> (i <= k)%nat -> 0 <= (u - U i) / (U k - U i).
Proof.
  intros A B. pose proof (mono_le U HU i s A). pose proof (mono_le U HU i k B).
  apply Qdiv_nonneg; lra.
Qed.

Lemma coefB_nonneg i k : (s < k)%nat -> (i <= k)%nat -> 0 <= (U k - u) / (U k - U i).
Proof.
  intros A B. pose proof (mono_le U HU (S s) k A). pose proof (mono_le U HU i k B).
  apply Qdiv_nonneg; lra.
Qed.

Theorem Nloc_nonneg : forall j i, 0 <= Nloc U s j i u.
Proof.
  induction j as [|j' IH]; intro i; cbn [Nloc].
  - destruct (Nat.eqb i s); lra.
  - apply Qplus_nonneg.
    + destruct (le_lt_dec i s) as [L|L].
      * apply Qmult_le_0_compat; [apply coefA_nonneg; lia | apply IH].
      * rewrite (Nloc_zero U s j' i u) by lia. rewrite Qmult_0_r. lra.
    + destruct (le_lt_dec s (i + S j')) as [L|L].
      * apply Qmult_le_0_compat; [apply coefB_nonneg; lia | apply IH].
      * rewrite (Nloc_zero U s j' (S i) u) by lia. rewrite Qmult_0_r. lra.
Qed.

(* one step of the recursion, written so that the sum over i telescopes *)
Lemma Nloc_step j' i :
  Nloc U s (S j') i u ==
    ((u - U i) / (U (i + S j')%nat - U i) * Nloc U s j' i u
     - (u - U (S i)) / (U (S i + S j')%nat - U (S i)) * Nloc U s j' (S i) u)
    + Nloc U s j' (S i) u.
Proof.
  cbn [Nloc].
  replace (i + S j' + 1)%nat with (S i + S j')%nat by lia.
  replace (i + 1)%nat with (S i) by lia.
  destruct (le_lt_dec (S i) s) as [L1|L1]; [destruct (le_lt_dec s (S i + j')) as [L2|L2]|].
  - pose proof (mono_le U HU (S i) s L1).
    pose proof (mono_le U HU (S s) (S i + S j')%nat ltac:(lia)).
    set (t0 := (u - U i) / (U (i + S j')%nat - U i) * Nloc U s j' i u).
    set (a1 := Nloc U s j' (S i) u).
    field. lra.
  - rewrite (Nloc_zero U s j' (S i) u) by lia. ring.
  - rewrite (Nloc_zero U s j' (S i) u) by lia. ring.
Qed.

Theorem Nloc_unity : forall j, (j <= s)%nat ->
  qsum (map (fun i => Nloc U s j i u) (seq (s - j) (S j))) == 1.
Proof.
  induction j as [|j' IH]; intro Hj.
  - rewrite Nat.sub_0_r. cbn [seq map qsum Nloc]. rewrite Nat.eqb_refl. ring.
  - set (g := fun k => (u - U k) / (U (k + S j')%nat - U k) * Nloc U s j' k u).
    rewrite (qsum_map_ext _ (fun i => (g i - g (S i)) + Nloc U s j' (S i) u))
      by (intros i _; apply Nloc_step).
    rewrite (qsum_map_add (fun i => g i - g (S i)) (fun i => Nloc U s j' (S i) u)).
    rewrite (qsum_telescope g).
    rewrite (qsum_shift (fun i => Nloc U s j' i u)).
    replace (S (s - S j')) with (s - j')%nat by lia.
    rewrite seq_S, map_app, qsum_app. rewrite (IH ltac:(lia)).
    cbn [map qsum]. unfold g.
    rewrite (Nloc_zero U s j' (s - S j')%nat u) by lia.
    rewrite (Nloc_zero U s j' (s - S j' + S (S j'))%nat u) by lia.
    rewrite (Nloc_zero U s j' (s - j' + S j')%nat u) by lia.
    ring.
Qed.

Corollary Nloc_le_1 : forall j i, (j <= s)%nat -> Nloc U s j i u <= 1.
Proof.
  intros j i Hj.
  destruct (le_lt_dec (s - j) i) as [L1|L1]; [destruct (le_lt_dec i s) as [L2|L2]|].
  - rewrite <- (Nloc_unity j Hj).
    apply (qsum_term_le (fun i => Nloc U s j i u)); [intro k; apply Nloc_nonneg|].
    apply in_seq. lia.
  - rewrite (Nloc_zero U s j i u) by lia. lra.
  - rewrite (Nloc_zero U s j i u) by lia. lra.
Qed.

Corollary Nloc_unity_full n j : (s < n)%nat -> (j <= s)%nat ->
  qsum (map (fun i => Nloc U s j i u) (seq 0 n)) == 1.
Proof.
  intros Hn Hj.
  assert (E : n = ((s - j) + (S j + (n - S s)))%nat) by lia. rewrite E.
  rewrite !seq_app, !map_app, !qsum_app. cbn [Nat.add].
  replace (s - j + S j)%nat with (S s) by lia.
  rewrite (Nloc_unity j Hj).
  rewrite (qsum_map_zero (fun i => Nloc U s j i u) (seq 0 (s - j)))
    by (intros i Hi; apply in_seq in Hi; apply Nloc_zero; lia).
  rewrite (qsum_map_zero (fun i => Nloc U s j i u) (seq (S s) (n - S s)))
    by (intros i Hi; apply in_seq in Hi; apply Nloc_zero; lia).
  ring.
Qed.
End Unity.

(* ------------------------------------------------------------------ *)
(* C. affine reparametrisation  u |-> c * u + a,  0 < c                *)
(* ------------------------------------------------------------------ *)
Lemma Qdiv_0_r x : x / 0 == 0.
Proof. unfold Qdiv. change (/ 0) with 0. ring. Qed.

Section Affine.
Variable U : nat -> Q.
Variables a c : Q.
Hypothesis Hc : 0 < c.

Lemma Qleb_affine x y : Qleb (c * x + a) (c * y + a) = Qleb x y.
Proof. destruct (Qleb_spec (c * x + a) (c * y + a)), (Qleb_spec x y); try reflexivity; exfalso; nra. Qed.

Lemma Qltb_affine x y : Qltb (c * x + a) (c * y + a) = Qltb x y.
Proof. destruct (Qltb_spec (c * x + a) (c * y + a)), (Qltb_spec x y); try reflexivity; exfalso; nra. Qed.

Lemma Qeqb_affine x y : Qeqb (c * x + a) (c * y + a) = Qeqb x y.
Proof.
  destruct (Qeqb_spec (c * x + a) (c * y + a)) as [E|E], (Qeqb_spec x y) as [F|F];
    try reflexivity; exfalso.
  - destruct (Q_dec x y) as [[L|L]|L]; [nra | nra | contradiction].
  - apply E. rewrite F. reflexivity.
Qed.

Lemma affine_nz x y : ~ y - x == 0 -> ~ c * y + a - (c * x + a) == 0.
Proof.
  intros H E. destruct (Q_dec x y) as [[L|L]|L]; [nra | nra |].
  apply H. rewrite L. ring.
Qed.

Lemma coefA_affine x y u :
  (c * u + a - (c * x + a)) / (c * y + a - (c * x + a)) == (u - x) / (y - x).
Proof.
  destruct (Qeq_dec (y - x) 0) as [Z|Z].
  - setoid_replace (c * y + a - (c * x + a)) with (c * (y - x)) by ring.
    rewrite Z. setoid_replace (c * 0) with 0 by ring. rewrite !Qdiv_0_r. reflexivity.
  - pose proof (affine_nz x y Z) as Z'. field. split; assumption.
Qed.

Lemma coefB_affine x y u :
  (c * y + a - (c * u + a)) / (c * y + a - (c * x + a)) == (y - u) / (y - x).
Proof.
  destruct (Qeq_dec (y - x) 0) as [Z|Z].
  - setoid_replace (c * y + a - (c * x + a)) with (c * (y - x)) by ring.
    rewrite Z. setoid_replace (c * 0) with 0 by ring. rewrite !Qdiv_0_r. reflexivity.
  - pose proof (affine_nz x y Z) as Z'. field. split; assumption.
Qed.

Theorem Nloc_affine s u : forall j i,
  Nloc (fun i => c * U i + a) s j i (c * u + a) == Nloc U s j i u.
Proof.
  induction j as [|j' IH]; intro i; cbn [Nloc].
  - reflexivity.
  - rewrite coefA_affine, coefB_affine, (IH i), (IH (S i)). reflexivity.
Qed.

Lemma ind0_affine n i u :
  ind0 (fun i => c * U i + a) n i (c * u + a) = ind0 U n i u.
Proof.
  unfold ind0. rewrite !Qleb_affine, !Qltb_affine, !Qeqb_affine. reflexivity.
Qed.

Theorem N_affine n u : forall j i,
  N (fun i => c * U i + a) n j i (c * u + a) == N U n j i u.
Proof.
  induction j as [|j' IH]; intro i; cbn [N].
  - rewrite ind0_affine. reflexivity.
  - rewrite coefA_affine, coefB_affine, (IH i), (IH (S i)). reflexivity.
Qed.
End Affine.

Print Assumptions N_local.
Print Assumptions N_umax.
Print Assumptions Nloc_nonneg.
Print Assumptions Nloc_unity.
Print Assumptions Nloc_unity_full.
Print Assumptions Nloc_affine.
Print Assumptions N_affine.
