(* The quotient rule for NURBS curves at the specification level.
   Q0  abstract lemma: two functions with second-order Taylor forms with bounded remainders at a point
       where the second one does not vanish; lower bound of the denominator, epsilon-delta quotient rule.
   Q1  Taylor form with bounded remainder of the finite sums  num = sum_i N_i w_i P_i,  den = sum_i N_i w_i
       on the span-local recursion Nloc.
   Q2  continuity of the denominator: |den (u+h)| >= |den u| / 2 near u.
   Q3  quotient rule (epsilon-delta) for R = num / den with dR = (dnum den - num dden) / den^2.
   Q4  transfer to the specification: Spec.BSpline.N on an open span, then rational_spec1 of a list
       knot vector.
   Everything is over Q; no hypothesis on the knot sequence is needed before Q4 (0/0 := 0 included). *)
From Coq Require Import QArith Qabs Qminmax List Lia Lqa Arith Bool Setoid.
From NurbsV Require Import Base.QList Proofs.Local Proofs.BasisTheory Proofs.KVProofs Proofs.EvalProofs Proofs.DerivProofs Spec.BSpline.
Import ListNotations.
Open Scope Q_scope.

(* ------------------------------------------------------------------ *)
(* small facts about Qabs and order                                    *)
(* ------------------------------------------------------------------ *)
Lemma abs_pos x : ~ x == 0 -> 0 < Qabs x.
Proof.
  intro H. pose proof (Qabs_nonneg x).
  destruct (Qlt_le_dec 0 (Qabs x)) as [A|A]; [exact A|].
  exfalso. apply H. assert (E : Qabs x == 0) by lra.
  revert E. apply Qabs_case; intros; lra.
Qed.

(* lra of Lqa does not read x / 2 *)
Lemma half_eq x : x / 2 == (1#2) * x.
Proof. field. Qed.

Lemma abs_pos_nz x : 0 < Qabs x -> ~ x == 0.
Proof. intros H E. rewrite E in H. cbn in H. lra. Qed.

Lemma abs_lt_both h d : Qabs h < d -> - d < h /\ h < d.
Proof. intro H. apply Qabs_Qlt_condition in H. exact H. Qed.

Lemma mul_le_l a b c : 0 <= a -> b <= c -> a * b <= a * c.
Proof.
  intros A B. rewrite (Qmult_comm a b), (Qmult_comm a c). apply Qmult_le_compat_r; assumption.
Qed.

Lemma mul_lt_r a b c : 0 < c -> a < b -> a * c < b * c.
Proof. intros C H. apply Qmult_lt_compat_r; assumption. Qed.

(* ------------------------------------------------------------------ *)
(* Q0: abstract quotient rule                                          *)
(* ------------------------------------------------------------------ *)
Section Abstract.
Variables f0 f1 g0 g1 : Q.        (* values and derivatives at the point *)
Variables fh gh : Q -> Q.         (* h |-> f (u + h),  h |-> g (u + h) *)
Variables rf rg : Q -> Q.         (* second-order remainders *)
Variables Mf Mg : Q.
Hypothesis Tf : forall h, fh h == f0 + h * f1 + h * h * rf h.
Hypothesis Tg : forall h, gh h == g0 + h * g1 + h * h * rg h.
Hypothesis Bf : forall h, Qabs h <= 1 -> Qabs (rf h) <= Mf.
Hypothesis Bg : forall h, Qabs h <= 1 -> Qabs (rg h) <= Mg.
Hypothesis G0 : ~ g0 == 0.

Lemma Mg_nonneg : 0 <= Mg.
Proof.
  assert (H : Qabs 0 <= 1) by (cbn; lra).
  pose proof (Bg 0 H). pose proof (Qabs_nonneg (rg 0)). lra.
Qed.

Lemma Mf_nonneg : 0 <= Mf.
Proof.
  assert (H : Qabs 0 <= 1) by (cbn; lra).
  pose proof (Bf 0 H). pose proof (Qabs_nonneg (rf 0)). lra.
Qed.

(* the increment of g is O(h) *)
Lemma g_increment h : Qabs h <= 1 -> Qabs (gh h - g0) <= Qabs h * (Qabs g1 + Mg).
Proof.
  intro Hh. rewrite (Tg h).
  setoid_replace (g0 + h * g1 + h * h * rg h - g0) with (h * (g1 + h * rg h)) by ring.
  apply abs_mul. apply abs_add; [apply Qle_refl|]. apply abs_mul_h; [exact Hh | apply Bg; exact Hh].
Qed.

(* the denominator stays away from 0 near the point *)
Lemma den_lower :
  exists delta, 0 < delta /\ delta <= 1 /\
    forall h, Qabs h < delta -> Qabs g0 / 2 <= Qabs (gh h).
Proof.
  pose proof (abs_pos g0 G0) as A. pose proof Mg_nonneg as PMg. pose proof (Qabs_nonneg g1) as Pg1.
  set (L := Qabs g1 + Mg) in *.
  assert (PL : 0 < 2 * (L + 1)) by (unfold L; lra).
  set (d1 := Qabs g0 / (2 * (L + 1))).
  assert (Pd1 : 0 < d1) by (apply Qlt_shift_div_l; lra).
  assert (Ed1 : d1 * (L + 1) == Qabs g0 / 2) by (unfold d1; field; lra).
  exists (Qminmax.Qmin 1 d1). split; [apply Q.min_glb_lt; lra|]. split; [apply Q.le_min_l|].
  intros h Hh. apply Q.min_glb_lt_iff in Hh. destruct Hh as [H1 H2].
  assert (I : Qabs (gh h - g0) <= Qabs h * L) by (apply g_increment; lra).
  pose proof (Qabs_nonneg h) as Ph.
  assert (J : Qabs h * L <= Qabs h * (L + 1)) by (apply mul_le_l; lra).
  assert (K : Qabs h * (L + 1) < d1 * (L + 1)) by (apply mul_lt_r; lra).
  pose proof (Qabs_triangle_reverse g0 (gh h)) as T.
  rewrite (Qabs_Qminus g0 (gh h)) in T. clearbody d1 L.
  rewrite half_eq in *. lra.
Qed.

Definition dquot : Q := (f1 * g0 - f0 * g1) / (g0 * g0).

(* the O(h) coefficient of the error of the difference quotient *)
Definition Kerr (h : Q) : Q :=
  g0 * g0 * rf h - f0 * g0 * rg h - (f1 * g0 - f0 * g1) * (g1 + h * rg h).

Definition MK : Q :=
  Qabs (g0 * g0) * Mf + Qabs (f0 * g0) * Mg + Qabs (f1 * g0 - f0 * g1) * (Qabs g1 + Mg).

Lemma MK_nonneg : 0 <= MK.
Proof.
  pose proof Mf_nonneg. pose proof Mg_nonneg. unfold MK.
  pose proof (Qabs_nonneg (g0 * g0)). pose proof (Qabs_nonneg (f0 * g0)).
  pose proof (Qabs_nonneg (f1 * g0 - f0 * g1)). pose proof (Qabs_nonneg g1).
  repeat apply Qplus_nonneg; apply Qmult_le_0_compat; lra.
Qed.

Lemma Kerr_bounded h : Qabs h <= 1 -> Qabs (Kerr h) <= MK.
Proof.
  intro Hh. unfold Kerr, MK.
  apply abs_sub; [apply abs_sub|].
  - apply abs_mul. apply Bf; exact Hh.
  - apply abs_mul. apply Bg; exact Hh.
  - apply abs_mul. apply abs_add; [apply Qle_refl|]. apply abs_mul_h; [exact Hh | apply Bg; exact Hh].
Qed.

(* exact form of the error: h * Kerr h / (g (u+h) * g u^2) *)
Lemma quot_error h : ~ h == 0 -> ~ gh h == 0 ->
  (fh h / gh h - f0 / g0) / h - dquot == h * Kerr h / (gh h * (g0 * g0)).
Proof.
  intros Hh HD. unfold dquot, Kerr.
  rewrite (Tg h) in HD. rewrite (Tf h), (Tg h).
  set (a := rf h) in *. set (b := rg h) in *.
  field. repeat split; assumption.
Qed.

Theorem quotient_abstract : forall eps, 0 < eps ->
  exists delta, 0 < delta /\
    forall h, ~ h == 0 -> Qabs h < delta ->
      Qabs ((fh h / gh h - f0 / g0) / h - dquot) < eps.
Proof.
  intros eps He.
  destruct den_lower as (d2 & Pd2 & Ld2 & Hd2).
  pose proof (abs_pos g0 G0) as A. pose proof MK_nonneg as PMK.
  set (a := Qabs g0) in *.
  set (T := a / 2 * (a * a)).
  assert (PT : 0 < T).
  { unfold T. apply Qmult_lt_0_compat; [rewrite half_eq; lra|]. apply Qmult_lt_0_compat; lra. }
  set (d3 := eps * T / (MK + 1)).
  assert (Pd3 : 0 < d3).
  { unfold d3. apply Qlt_shift_div_l; [lra|]. rewrite Qmult_0_l. apply Qmult_lt_0_compat; lra. }
  assert (Ed3 : d3 * (MK + 1) == eps * T) by (unfold d3; field; lra).
  exists (Qminmax.Qmin d2 d3). split; [apply Q.min_glb_lt; assumption|].
  intros h Hh Hlt. apply Q.min_glb_lt_iff in Hlt. destruct Hlt as [H2 H3].
  pose proof (Hd2 h H2) as LD. fold a in LD.
  assert (HD : ~ gh h == 0) by (apply abs_pos_nz; rewrite half_eq in LD; lra).
  rewrite (quot_error h Hh HD).
  set (X := h * Kerr h / (gh h * (g0 * g0))).
  assert (E : X * (gh h * (g0 * g0)) == h * Kerr h).
  { unfold X. field. split; assumption. }
  assert (E2 : Qabs X * (Qabs (gh h) * (a * a)) == Qabs h * Qabs (Kerr h)).
  { unfold a. rewrite <- !Qabs_Qmult. rewrite E. reflexivity. }
  pose proof (Qabs_nonneg X) as PX. pose proof (Qabs_nonneg h) as Ph.
  assert (PAA : 0 <= a * a) by (apply Qmult_le_0_compat; lra).
  assert (S1 : T <= Qabs (gh h) * (a * a)).
  { unfold T. apply Qmult_le_compat_r; assumption. }
  assert (S2 : Qabs X * T <= Qabs X * (Qabs (gh h) * (a * a))) by (apply mul_le_l; assumption).
  assert (S3 : Qabs h * Qabs (Kerr h) <= Qabs h * MK).
  { apply mul_le_l; [exact Ph|]. apply Kerr_bounded. lra. }
  assert (S4 : Qabs h * MK <= Qabs h * (MK + 1)) by (apply mul_le_l; lra).
  assert (S5 : Qabs h * (MK + 1) < d3 * (MK + 1)) by (apply mul_lt_r; lra).
  assert (S6 : Qabs X * T < eps * T) by lra.
  apply (Qmult_lt_r _ _ T PT). exact S6.
Qed.
End Abstract.

(* ------------------------------------------------------------------ *)
(* Q1: finite sums of span-local B-splines                             *)
(* ------------------------------------------------------------------ *)
Section Sums.
Variable U : nat -> Q.
Variables s p : nat.

(* sum_i Nloc_i(u) c_i over an index list, its formal derivative and its remainder *)
Definition lin (c : nat -> Q) (l : list nat) (u : Q) : Q :=
  qsum (map (fun i => Nloc U s p i u * c i) l).
Definition dlin (c : nat -> Q) (l : list nat) (u : Q) : Q :=
  qsum (map (fun i => dNloc U s p i u * c i) l).
Definition rlin (c : nat -> Q) (l : list nat) (u h : Q) : Q :=
  qsum (map (fun i => rem U s p i u h * c i) l).

Lemma lin_taylor c l u h :
  lin c l (u + h) == lin c l u + h * dlin c l u + h * h * rlin c l u h.
Proof.
  unfold lin, dlin, rlin. induction l as [|i l IH]; cbn [map qsum]; [ring|].
  rewrite IH, (Nloc_taylor U s u h p i). ring.
Qed.

Lemma rlin_bounded c l u :
  exists M, 0 <= M /\ forall h, Qabs h <= 1 -> Qabs (rlin c l u h) <= M.
Proof.
  unfold rlin. induction l as [|i l IH]; cbn [map qsum].
  - exists 0. split; [lra|]. intros h _. cbn. lra.
  - destruct IH as (M & PM & BM). destruct (rem_bounded U s u p i) as (M0 & P0 & B0).
    exists (Qabs (c i) * M0 + M). split.
    + pose proof (Qabs_nonneg (c i)). apply Qplus_nonneg; [apply Qmult_le_0_compat; lra | lra].
    + intros h Hh. apply abs_add; [|apply BM; exact Hh].
      rewrite (Qmult_comm (rem U s p i u h) (c i)). apply abs_mul. apply B0; exact Hh.
Qed.

(* numerator and denominator of the rational curve with weights w and control values P *)
Variable n : nat.
Variables w P : nat -> Q.

Definition num (u : Q) : Q := qsum (map (fun i => Nloc U s p i u * (w i * P i)) (seq 0 n)).
Definition den (u : Q) : Q := qsum (map (fun i => Nloc U s p i u * w i) (seq 0 n)).
Definition dnum (u : Q) : Q := qsum (map (fun i => dNloc U s p i u * (w i * P i)) (seq 0 n)).
Definition dden (u : Q) : Q := qsum (map (fun i => dNloc U s p i u * w i) (seq 0 n)).
Definition rnum (u h : Q) : Q := qsum (map (fun i => rem U s p i u h * (w i * P i)) (seq 0 n)).
Definition rden (u h : Q) : Q := qsum (map (fun i => rem U s p i u h * w i) (seq 0 n)).

Theorem num_taylor u h : num (u + h) == num u + h * dnum u + h * h * rnum u h.
Proof. exact (lin_taylor (fun i => w i * P i) (seq 0 n) u h). Qed.

Theorem den_taylor u h : den (u + h) == den u + h * dden u + h * h * rden u h.
Proof. exact (lin_taylor w (seq 0 n) u h). Qed.

Theorem rnum_bounded u :
  exists M, 0 <= M /\ forall h, Qabs h <= 1 -> Qabs (rnum u h) <= M.
Proof. exact (rlin_bounded (fun i => w i * P i) (seq 0 n) u). Qed.

Theorem rden_bounded u :
  exists M, 0 <= M /\ forall h, Qabs h <= 1 -> Qabs (rden u h) <= M.
Proof. exact (rlin_bounded w (seq 0 n) u). Qed.

(* ------------------------------------------------------------------ *)
(* Q2: the denominator does not vanish near a point where it does not  *)
(* ------------------------------------------------------------------ *)
Theorem den_continuity u : ~ den u == 0 ->
  exists delta, 0 < delta /\
    forall h, Qabs h < delta -> Qabs (den u) / 2 <= Qabs (den (u + h)) /\ ~ den (u + h) == 0.
Proof.
  intro H0. destruct (rden_bounded u) as (Mg & _ & Bg).
  destruct (den_lower (den u) (dden u) (fun h => den (u + h)) (rden u) Mg (den_taylor u) Bg H0)
    as (delta & Pd & _ & Hd).
  exists delta. split; [exact Pd|]. intros h Hh. pose proof (Hd h Hh) as L.
  split; [exact L|]. apply abs_pos_nz. pose proof (abs_pos (den u) H0). rewrite half_eq in L. lra.
Qed.

(* ------------------------------------------------------------------ *)
(* Q3: the quotient rule                                               *)
(* ------------------------------------------------------------------ *)
Definition R (u : Q) : Q := num u / den u.
Definition dR (u : Q) : Q := (dnum u * den u - num u * dden u) / (den u * den u).

Theorem quotient_rule u : ~ den u == 0 ->
  forall eps, 0 < eps ->
  exists delta, 0 < delta /\
    forall h, ~ h == 0 -> Qabs h < delta ->
      Qabs ((R (u + h) - R u) / h - dR u) < eps.
Proof.
  intros H0 eps He.
  destruct (rnum_bounded u) as (Mf & _ & Bf). destruct (rden_bounded u) as (Mg & _ & Bg).
  exact (quotient_abstract (num u) (dnum u) (den u) (dden u)
           (fun h => num (u + h)) (fun h => den (u + h)) (rnum u) (rden u) Mf Mg
           (num_taylor u) (den_taylor u) Bf Bg H0 eps He).
Qed.

(* the error of the difference quotient is exactly h * K / (den (u+h) * den u ^ 2) *)
Theorem quotient_rule_error u h : ~ h == 0 -> ~ den u == 0 -> ~ den (u + h) == 0 ->
  (R (u + h) - R u) / h - dR u
  == h * Kerr (num u) (dnum u) (den u) (dden u) (rnum u) (rden u) h
     / (den (u + h) * (den u * den u)).
Proof.
  intros Hh H0 H1.
  exact (quot_error (num u) (dnum u) (den u) (dden u)
           (fun h => num (u + h)) (fun h => den (u + h)) (rnum u) (rden u)
           (num_taylor u) (den_taylor u) H0 h Hh H1).
Qed.
End Sums.

(* ------------------------------------------------------------------ *)
(* Q4: transfer to the specification                                   *)
(* ------------------------------------------------------------------ *)
Section SpecSeq.
Variable U : nat -> Q.
Variables s p n : nat.
Variables w P : nat -> Q.
Hypothesis HU : mono U.

(* numerator, denominator and value with the specification's N (U n = umax) *)
Definition numN (u : Q) : Q := qsum (map (fun i => N U n p i u * (w i * P i)) (seq 0 n)).
Definition denN (u : Q) : Q := qsum (map (fun i => N U n p i u * w i) (seq 0 n)).
Definition RN (u : Q) : Q := numN u / denN u.

(* a point of an open span is not a knot, in particular not umax *)
Lemma open_span_not_knot u k : U s < u -> u < U (S s) -> ~ u == U k.
Proof.
  intros A B E. destruct (le_lt_dec k s) as [L|L].
  - pose proof (mono_le U HU k s L). lra.
  - pose proof (mono_le U HU (S s) k L). lra.
Qed.

Lemma numN_local u : U s < u -> u < U (S s) -> numN u == num U s p n w P u.
Proof.
  intros A B. unfold numN, num. apply qsum_map_ext. intros i _.
  rewrite (N_local U n s u HU ltac:(lra) B (open_span_not_knot u n A B) p i). reflexivity.
Qed.

Lemma denN_local u : U s < u -> u < U (S s) -> denN u == den U s p n w u.
Proof.
  intros A B. unfold denN, den. apply qsum_map_ext. intros i _.
  rewrite (N_local U n s u HU ltac:(lra) B (open_span_not_knot u n A B) p i). reflexivity.
Qed.

Lemma RN_local u : U s < u -> u < U (S s) -> RN u == R U s p n w P u.
Proof. intros A B. unfold RN, R. rewrite (numN_local u A B), (denN_local u A B). reflexivity. Qed.

Theorem quotient_rule_N u : U s < u -> u < U (S s) -> ~ denN u == 0 ->
  forall eps, 0 < eps ->
  exists delta, 0 < delta /\
    forall h, ~ h == 0 -> Qabs h < delta ->
      Qabs ((RN (u + h) - RN u) / h - dR U s p n w P u) < eps.
Proof.
  intros A B H0 eps He. rewrite (denN_local u A B) in H0.
  destruct (quotient_rule U s p n w P u H0 eps He) as (d & Pd & Hd).
  exists (Qminmax.Qmin d (Qminmax.Qmin (u - U s) (U (S s) - u))). split.
  - apply Q.min_glb_lt; [exact Pd|]. apply Q.min_glb_lt; lra.
  - intros h Hh Hlt. apply Q.min_glb_lt_iff in Hlt. destruct Hlt as [H1 H2].
    apply Q.min_glb_lt_iff in H2. destruct H2 as [H2 H3].
    apply abs_lt_both in H2. apply abs_lt_both in H3.
    rewrite (RN_local u A B). rewrite (RN_local (u + h)) by lra.
    apply Hd; assumption.
Qed.

(* the denominator of the specification does not vanish near such a point *)
Theorem denN_continuity u : U s < u -> u < U (S s) -> ~ denN u == 0 ->
  exists delta, 0 < delta /\
    forall h, Qabs h < delta -> Qabs (denN u) / 2 <= Qabs (denN (u + h)) /\ ~ denN (u + h) == 0.
Proof.
  intros A B H0. pose proof (denN_local u A B) as E0. rewrite E0 in H0.
  destruct (den_continuity U s p n w u H0) as (d & Pd & Hd).
  exists (Qminmax.Qmin d (Qminmax.Qmin (u - U s) (U (S s) - u))). split.
  - apply Q.min_glb_lt; [exact Pd|]. apply Q.min_glb_lt; lra.
  - intros h Hlt. apply Q.min_glb_lt_iff in Hlt. destruct Hlt as [H1 H2].
    apply Q.min_glb_lt_iff in H2. destruct H2 as [H2 H3].
    apply abs_lt_both in H2. apply abs_lt_both in H3.
    rewrite E0. rewrite (denN_local (u + h)) by lra. apply Hd; exact H1.
Qed.
End SpecSeq.

(* list knot vectors: rational_spec1 *)
Lemma nth_map2_mul (W P : list Q) : forall i,
  nth i (map2 (fun w x => w * x) W P) 0 == nth i W 0 * nth i P 0.
Proof.
  revert P. induction W as [|a W IH]; intros [|b P] [|i]; cbn [map2 nth]; try ring.
  apply IH.
Qed.

Section SpecList.
Variable U : list Q.
Variable p : nat.
Variables W P : list Q.

Definition wq (i : nat) : Q := nth i W 0.
Definition pq (i : nat) : Q := nth i P 0.

Lemma rational_spec1_RN u :
  rational_spec1 U p W P u == RN (nthq U) p (npts_of U p) wq pq u.
Proof.
  unfold rational_spec1, weight_spec, curve_spec1, RN, numN, denN, Nspec, wq, pq.
  rewrite (qsum_map_ext
             (fun i => N (nthq U) (npts_of U p) p i u * nth i (map2 (fun w x => w * x) W P) 0)
             (fun i => N (nthq U) (npts_of U p) p i u * (nth i W 0 * nth i P 0))).
  - reflexivity.
  - intros i _. rewrite nth_map2_mul. reflexivity.
Qed.

Lemma weight_spec_denN u :
  weight_spec U p W u == denN (nthq U) p (npts_of U p) wq u.
Proof. reflexivity. Qed.

(* the derivative of the rational curve of the specification at a point u of the open span s:
   (dnum * den - num * dden) / den^2, with the formal derivatives of the span-local sums *)
Definition drational1 (s : nat) (u : Q) : Q := dR (nthq U) s p (npts_of U p) wq pq u.

Theorem rational_spec1_derivative s u :
  mono (nthq U) -> nthq U s < u -> u < nthq U (S s) -> ~ weight_spec U p W u == 0 ->
  forall eps, 0 < eps ->
  exists delta, 0 < delta /\
    forall h, ~ h == 0 -> Qabs h < delta ->
      Qabs ((rational_spec1 U p W P (u + h) - rational_spec1 U p W P u) / h - drational1 s u) < eps.
Proof.
  intros HU A B H0 eps He. rewrite weight_spec_denN in H0.
  destruct (quotient_rule_N (nthq U) s p (npts_of U p) wq pq HU u A B H0 eps He) as (d & Pd & Hd).
  exists d. split; [exact Pd|]. intros h Hh Hlt.
  rewrite !rational_spec1_RN. apply Hd; assumption.
Qed.

Theorem weight_spec_continuity s u :
  mono (nthq U) -> nthq U s < u -> u < nthq U (S s) -> ~ weight_spec U p W u == 0 ->
  exists delta, 0 < delta /\
    forall h, Qabs h < delta ->
      Qabs (weight_spec U p W u) / 2 <= Qabs (weight_spec U p W (u + h))
      /\ ~ weight_spec U p W (u + h) == 0.
Proof.
  intros HU A B H0.
  exact (denN_continuity (nthq U) s p (npts_of U p) wq HU u A B H0).
Qed.
End SpecList.

(* vector-valued curves: coordinate k of rational_spec *)
Lemma rational_spec_coord (U : list Q) (p d : nat) (W : list Q) (P : list (list Q)) (u : Q) k :
  (k < d)%nat -> nth k (rational_spec U p d W P u) 0 = rational_spec1 U p W (coord k P) u.
Proof.
  intro Hk. unfold rational_spec.
  rewrite (nth_map_in _ 0%nat 0) by (rewrite seq_length; exact Hk).
  rewrite seq_nth by exact Hk. reflexivity.
Qed.

Theorem rational_spec_derivative (U : list Q) (p d : nat) (W : list Q) (P : list (list Q)) s u k :
  (k < d)%nat ->
  mono (nthq U) -> nthq U s < u -> u < nthq U (S s) -> ~ weight_spec U p W u == 0 ->
  forall eps, 0 < eps ->
  exists delta, 0 < delta /\
    forall h, ~ h == 0 -> Qabs h < delta ->
      Qabs ((nth k (rational_spec U p d W P (u + h)) 0 - nth k (rational_spec U p d W P u) 0) / h
            - drational1 U p W (coord k P) s u) < eps.
Proof.
  intros Hk HU A B H0 eps He.
  destruct (rational_spec1_derivative U p W (coord k P) s u HU A B H0 eps He) as (dl & Pd & Hd).
  exists dl. split; [exact Pd|]. intros h Hh Hlt.
  rewrite !(rational_spec_coord U p d W P _ k Hk). apply Hd; assumption.
Qed.

Print Assumptions num_taylor.
Print Assumptions den_taylor.
Print Assumptions rnum_bounded.
Print Assumptions rden_bounded.
Print Assumptions den_continuity.
Print Assumptions quotient_abstract.
Print Assumptions quotient_rule.
Print Assumptions quotient_rule_error.
Print Assumptions quotient_rule_N.
Print Assumptions denN_continuity.
Print Assumptions rational_spec1_derivative.
Print Assumptions weight_spec_continuity.
Print Assumptions rational_spec_derivative.

(* ------------------------------------------------------------------ *)
(* Non-vacuity: a quadratic rational Bezier with weights 1, 2, 1       *)
(* ------------------------------------------------------------------ *)
Definition qr_U : list Q := [0; 0; 0; 1; 1; 1].
Definition qr_W : list Q := [1; 2; 1].
Definition qr_P : list Q := [0; 1; 3].

(* num u = 4u - u^2, den u = 1 + 2u - 2u^2:
   at 1/2: num = 7/4, den = 3/2, num' = 3, den' = 0, so dR = 3 / (3/2) = 2;
   at 1/4: num = 15/16, den = 11/8, num' = 7/2, den' = 1, so dR = (77/16 - 15/16) / (121/64) = 248/121 *)
Example qr_values :
  Qeqb (num (nthq qr_U) 2 2 3 (wq qr_W) (pq qr_P) (1#2)) (7#4)
  && Qeqb (den (nthq qr_U) 2 2 3 (wq qr_W) (1#2)) (3#2)
  && Qeqb (dnum (nthq qr_U) 2 2 3 (wq qr_W) (pq qr_P) (1#2)) 3
  && Qeqb (dden (nthq qr_U) 2 2 3 (wq qr_W) (1#2)) 0
  && Qeqb (dden (nthq qr_U) 2 2 3 (wq qr_W) (1#4)) 1 = true.
Proof. vm_compute. reflexivity. Qed.

Example qr_dR_half : Qeqb (drational1 qr_U 2 qr_W qr_P 2 (1#2)) 2 = true.
Proof. vm_compute. reflexivity. Qed.

Example qr_dR_quarter : Qeqb (drational1 qr_U 2 qr_W qr_P 2 (1#4)) (248#121) = true.
Proof. vm_compute. reflexivity. Qed.

(* the value of the specification itself at those points: R = num / den *)
Example qr_R_values :
  Qeqb (rational_spec1 qr_U 2 qr_W qr_P (1#2)) (7#6)
  && Qeqb (rational_spec1 qr_U 2 qr_W qr_P (1#4)) (15#22) = true.
Proof. vm_compute. reflexivity. Qed.

(* the hypotheses of rational_spec1_derivative hold for the example at u = 1/2 (span 2 = [0,1)) *)
Example qr_hyps :
  mono (nthq qr_U) /\ nthq qr_U 2 < 1#2 /\ 1#2 < nthq qr_U 3 /\ ~ weight_spec qr_U 2 qr_W (1#2) == 0.
Proof.
  split; [intro i; apply sorted_mono; vm_compute; reflexivity|].
  split; [apply Qltb_lt; vm_compute; reflexivity|].
  split; [apply Qltb_lt; vm_compute; reflexivity|].
  apply Qeqb_neq. vm_compute. reflexivity.
Qed.

Example qr_derivative : forall eps, 0 < eps ->
  exists delta, 0 < delta /\
    forall h, ~ h == 0 -> Qabs h < delta ->
      Qabs ((rational_spec1 qr_U 2 qr_W qr_P ((1#2) + h) - rational_spec1 qr_U 2 qr_W qr_P (1#2)) / h - 2) < eps.
Proof.
  intros eps He. destruct qr_hyps as (A & B & C & D).
  destruct (rational_spec1_derivative qr_U 2 qr_W qr_P 2 (1#2) A B C D eps He) as (d & Pd & Hd).
  exists d. split; [exact Pd|]. intros h Hh Hlt.
  assert (E : drational1 qr_U 2 qr_W qr_P 2 (1#2) == 2).
  { apply Qeqb_eq. vm_compute. reflexivity. }
  rewrite <- E. apply Hd; assumption.
Qed.
