(* Knot removal / update on curves: the new knot vector, refusals, and what a success certifies. *)
From Coq Require Import QArith List Bool Arith Lia Permutation.
From NurbsV Require Import Base.Res Base.QList Spec.KnotSpec Gen.Consts Model.KV Model.Basis Model.CurveM Model.Ops
  Model.CurveOps Model.Linalg Model.Quadrature Model.LeastSq Model.CurveLS.
From NurbsV Require Import Proofs.KVProofs Proofs.KVMachine Proofs.InsertBasic.
Import ListNotations.
Open Scope Q_scope.

Lemma remove1_perm x : forall l l', remove1 x l = Some l' -> exists y, x == y /\ Permutation l (y :: l').
Proof.
  induction l as [|y l IH]; cbn; intros l' H; [discriminate|].
  destruct (Qeqb_spec x y) as [E|E].
  - inversion H; subst. exists y. split; [exact E | apply Permutation_refl].
  - destruct (remove1 x l) as [r|] eqn:R; [|discriminate]. inversion H; subst.
    destruct (IH r eq_refl) as (z & Ez & Pz). exists z. split; [exact Ez|].
    eapply perm_trans; [apply perm_skip; exact Pz | apply perm_swap].
Qed.

Lemma remove1_length x : forall l l', remove1 x l = Some l' -> length l = S (length l').
Proof.
  intros l l' H. destruct (remove1_perm x l l' H) as (y & _ & P).
  rewrite (Permutation_length P). reflexivity.
Qed.

Lemma remove_all_length : forall ns l l', remove_all ns l = Some l' -> length l = (length l' + length ns)%nat.
Proof.
  induction ns as [|x ns IH]; cbn; intros l l' H.
  - inversion H; lia.
  - destruct (remove1 x l) as [r|] eqn:R; [|discriminate].
    rewrite (remove1_length _ _ _ R), (IH _ _ H). lia.
Qed.

Lemma count_q_remove1 z x : forall l l', remove1 x l = Some l' ->
  count_q z l = (count_q z l' + (if Qeqb z x then 1 else 0))%nat.
Proof.
  induction l as [|y l IH]; cbn [remove1]; intros l' H; [discriminate|].
  destruct (Qeqb_spec x y) as [E|E].
  - inversion H; subst. unfold count_q. cbn [filter].
    destruct (Qeqb_spec z y) as [A|A], (Qeqb_spec z x) as [B|B]; cbn [length]; try lia.
    + exfalso. apply B. rewrite A, E. reflexivity.
    + exfalso. apply A. rewrite B, E. reflexivity.
  - destruct (remove1 x l) as [r|] eqn:R; [|discriminate]. inversion H; subst.
    specialize (IH r eq_refl). unfold count_q in *. cbn [filter].
    destruct (Qeqb z y); cbn [length]; lia.
Qed.

Lemma count_q_remove_all z : forall ns l l', remove_all ns l = Some l' ->
  count_q z l = (count_q z l' + count_q z ns)%nat.
Proof.
  induction ns as [|x ns IH]; cbn [remove_all]; intros l l' H.
  - inversion H. unfold count_q at 3. cbn. lia.
  - destruct (remove1 x l) as [r|] eqn:R; [|discriminate].
    rewrite (count_q_remove1 z _ _ _ R), (IH _ _ H).
    unfold count_q at 4. cbn [filter]. destruct (Qeqb z x); cbn [length]; unfold count_q; lia.
Qed.

Lemma kremove_spec k ns k' : kremove k ns = Ok k' ->
  remove_all ns (kvec k) = Some (kvec k') /\ WF (kvec k') (kdeg k').
Proof.
  intro H. pose proof (kremove_wf _ _ _ H) as W. unfold kremove in H.
  destruct (remove_all ns (kvec k)) as [l|] eqn:R; [|discriminate].
  pose proof (make_vec _ _ _ H) as V. split; [rewrite V; reflexivity | exact W].
Qed.

Lemma ql_eqb_refl : forall a, ql_eqb a a = true.
Proof.
  induction a as [|x a IH]; cbn; [reflexivity|].
  apply andb_true_iff. split; [apply Qeqb_eq; reflexivity | exact IH].
Qed.
Lemma ql_eqb_sym : forall a b, ql_eqb a b = true -> ql_eqb b a = true.
Proof.
  induction a as [|x a IH]; intros [|y b]; cbn; intro H; try discriminate; try reflexivity.
  apply andb_true_iff in H. destruct H as [A B]. apply andb_true_iff. split.
  - apply Qeqb_eq in A. apply Qeqb_eq. symmetry. exact A.
  - apply IH. exact B.
Qed.
Lemma kv_eqb_refl k : kv_eqb k k = true.
Proof. unfold kv_eqb. rewrite ql_eqb_refl, Nat.eqb_refl. reflexivity. Qed.
Lemma kv_eqb_sym a b : kv_eqb a b = true -> kv_eqb b a = true.
Proof.
  unfold kv_eqb. intro H. apply andb_true_iff in H. destruct H as [A B].
  apply andb_true_iff. split; [apply ql_eqb_sym; exact A|].
  apply Nat.eqb_eq in B. apply Nat.eqb_eq. symmetry. exact B.
Qed.

Lemma c_update_kv c knew tol nodes c' :
  c_update c knew tol nodes = Ok c' -> kv_eqb (ckv c') knew = true.
Proof.
  unfold c_update. destruct (kv_eqb knew (ckv c)) eqn:E.
  - intro H; inversion H; subst. apply kv_eqb_sym. exact E.
  - pose proof (kv_eqb_refl knew) as R.
    destruct (cP c).
    + destruct (negb (limits_eqb (ckv c) knew)); [discriminate|].
      destruct (c_fit_curve knew c nodes) as [[P' err]|]; cbn [bind]; [|discriminate].
      destruct tol as [t|].
      * destruct (negb (Qeqb t 0) && Qltb t err); [discriminate|]. intro H; inversion H; exact R.
      * intro H; inversion H; exact R.
    + intro H; inversion H; exact R.
Qed.

(* the knot vector after a successful removal: old = new + nodes as multisets, well-formed *)
Theorem c_knot_remove_knots c ns tol c' :
  c_knot_remove c ns tol = Ok c' ->
  exists knew, kremove (ckv c) ns = Ok knew /\ kv_eqb (ckv c') knew = true
    /\ WF (kvec knew) (kdeg knew)
    /\ (forall z, count_q z (kvec (ckv c)) = (count_q z (kvec knew) + count_q z ns)%nat)
    /\ length (kvec (ckv c)) = (length (kvec knew) + length ns)%nat.
Proof.
  unfold c_knot_remove. destruct (kremove (ckv c) ns) as [knew|] eqn:K; cbn [bind]; [|discriminate].
  intro H. exists knew. destruct (kremove_spec _ _ _ K) as [R W].
  repeat split; try assumption.
  - exact (c_update_kv _ _ _ _ _ H).
  - intro z. exact (count_q_remove_all z _ _ _ R).
  - exact (remove_all_length _ _ _ R).
Qed.

(* an absent knot (or too many copies) is refused with ValueError *)
Theorem c_knot_remove_absent c ns tol :
  remove_all ns (kvec (ckv c)) = None -> c_knot_remove c ns tol = Err ValueError.
Proof. intro H. unfold c_knot_remove, kremove. rewrite H. reflexivity. Qed.

(* never silently lossy: a success with a tolerance t > 0 certifies that the model's error functional
   of the projection is at most t *)
Theorem c_update_within_tolerance c knew t nodes c' :
  c_update c knew (Some t) nodes = Ok c' -> kv_eqb knew (ckv c) = false -> ~ t == 0 ->
  forall P, cP c = Some P ->
  exists P' err, c_fit_curve knew c nodes = Ok (P', err) /\ err <= t /\ cP c' = Some P'.
Proof.
  intros H E Ht P HP. unfold c_update in H. rewrite E, HP in H.
  destruct (negb (limits_eqb (ckv c) knew)); [discriminate|].
  destruct (c_fit_curve knew c nodes) as [[P' err]|]; cbn [bind] in H; [|discriminate].
  destruct (Qeqb_spec t 0) as [Z|Z]; [contradiction|]. cbn [negb andb] in H.
  destruct (Qltb_spec t err) as [L|L]; [discriminate|].
  inversion H; subst. exists P', err. split; [reflexivity|]. split; [apply Qnot_lt_le; exact L | reflexivity].
Qed.
