(* Split then join restores the curve.
   SJ1  two curves that restrict a curve C to [umin, x] and [x, umax] concatenate (join_vec, Pa ++ Pb) to a curve with the
        function of C on the whole interval.
   SJ2  if moreover the concatenated vector is the vector of C plus m copies of x, the concatenated curve refines C in the
        sense of CleanProofs.refines_by, so the loop of knot_clean at x (the one `A | B` runs) passes through C itself.
   SJ3  the two pieces of the model's split at one interior point satisfy the hypotheses of SJ1 / SJ2. *)
From Coq Require Import QArith Qabs List Bool Arith Lia Lqa Setoid Morphisms Permutation.
From NurbsV Require Import Base.Res Base.QList Spec.BSpline Spec.KnotSpec Gen.Consts Model.KV Model.Basis
  Model.CurveM Model.Ops Model.CurveOps Model.Linalg Model.Quadrature Model.LeastSq Model.CurveLS.
From NurbsV Require Import Proofs.KVProofs Proofs.EvalProofs Proofs.InsertBasic Proofs.InsertList
  Proofs.InsertCompose Proofs.InsertCurve Proofs.RemoveBasic Proofs.MatProofs Proofs.LSProofs
  Proofs.UndoProofs Proofs.GenericUndo Proofs.EqBasic Proofs.EqInvariance Proofs.LinIndep
  Proofs.LinIndepCurves Proofs.StateProofs Proofs.SplitProofs Proofs.CleanProofs.
From NurbsV Require Proofs.UnionProofs Proofs.GenProofs.
Import ListNotations.
Open Scope Q_scope.

(* ------------------------------------------------------------------ *)
(* SJ1. function level                                                  *)
(* ------------------------------------------------------------------ *)
Section SJ.
Variables (U : list Q) (p d : nat) (P : list pt) (x : Q).
Variables (Ua Ub : list Q) (Pa Pb : list pt).
Hypothesis Wa : WF Ua p.
Hypothesis Wb : WF Ub p.
Hypothesis HPa : length Pa = npts_of Ua p.
Hypothesis HPb : length Pb = npts_of Ub p.
Hypothesis Hxa : last_q Ua == x.
Hypothesis Hxb : x == first_q Ub.
Hypothesis Hmin : umin_of Ua p == umin_of U p.
Hypothesis Hmax : umax_of Ub p == umax_of U p.
(* the two curves are the restrictions of C = (U, p, P): A on [umin, x), B on [x, umax] *)
Hypothesis Hfa : forall u, in_range Ua p u = true -> u < x ->
  Forall2 Qeq (curve_spec Ua p d Pa u) (curve_spec U p d P u).
Hypothesis Hfb : forall u, in_range Ub p u = true ->
  Forall2 Qeq (curve_spec Ub p d Pb u) (curve_spec U p d P u).

Let Hj : last_q Ua == first_q Ub.
Proof. rewrite Hxa. exact Hxb. Qed.

(* x is strictly inside the interval of C (a consequence of the hypotheses, not an extra one) *)
Lemma sj_x_inside : umin_of U p < x < umax_of U p.
Proof using Wa Wb Hxa Hxb Hmin Hmax.
  destruct (join_limits Ua Ub p Wa Wb Hj) as (_ & _ & A & B).
  rewrite Hmin, Hxa in A. rewrite Hmax, Hxa in B. split; assumption.
Qed.

Theorem split_join_function u : in_range U p u = true ->
  Forall2 Qeq (curve_spec (join_vec Ua Ub p) p d (Pa ++ Pb) u) (curve_spec U p d P u).
Proof using All.
  intro Hu. unfold in_range in Hu. apply andb_true_iff in Hu. destruct Hu as [H1 H2].
  apply Qleb_le in H1. apply Qleb_le in H2.
  destruct (Qlt_le_dec u x) as [L|G].
  - assert (Hr : in_range Ua p u = true).
    { unfold in_range. apply andb_true_iff. split; apply Qleb_le.
      - rewrite Hmin. exact H1.
      - rewrite (GenProofs.wf_umax_last _ _ Wa), Hxa. apply Qlt_le_weak. exact L. }
    eapply veq_trans; [|exact (Hfa u Hr L)].
    apply join_left_pts; try assumption. rewrite (GenProofs.wf_umax_last _ _ Wa), Hxa. exact L.
  - assert (Hr : in_range Ub p u = true).
    { unfold in_range. apply andb_true_iff. split; apply Qleb_le.
      - rewrite (GenProofs.wf_umin_first _ _ Wb), <- Hxb. exact G.
      - rewrite Hmax. exact H2. }
    eapply veq_trans; [|exact (Hfb u Hr)].
    apply join_right_pts; assumption.
Qed.

(* ------------------------------------------------------------------ *)
(* SJ2. the concatenated curve refines C; the clean loop passes through C *)
(* ------------------------------------------------------------------ *)
Hypothesis W : WF U p.
Hypothesis HPl : length P = npts_of U p.
Hypothesis HPd : Forall (fun q : pt => length q = d) P.
Hypothesis HPad : Forall (fun q : pt => length q = d) Pa.
Hypothesis HPbd : Forall (fun q : pt => length q = d) Pb.
Variable m : nat.
Hypothesis Hcnt : forall y, count_q y (join_vec Ua Ub p) = (count_q y U + (if Qeqb y x then m else 0))%nat.

(* the concatenated curve, as a curve of the model (this is CleanProofs.joined) *)
Definition sj_J : curve := mkcurve (mkkv (join_vec Ua Ub p) p) (Some (Pa ++ Pb)) None.

Lemma sj_first : first_q (join_vec Ua Ub p) == first_q U.
Proof using Wa Wb Hxa Hxb Hmin W.
  rewrite (join_first Ua Ub p Wa Wb), (wf_first_umin _ _ Wa), Hmin. symmetry. apply wf_first_umin, W.
Qed.

Lemma sj_last : last_q (join_vec Ua Ub p) == last_q U.
Proof using Wa Wb Hxa Hxb Hmax W.
  rewrite (join_last Ua Ub p Wa Wb), (wf_last_umax _ _ Wb), Hmax. symmetry. apply wf_last_umax, W.
Qed.

Lemma sj_x_first_last : first_q U < x < last_q U.
Proof using Wa Wb Hxa Hxb Hmin Hmax W.
  rewrite (wf_first_umin _ _ W), (wf_last_umax _ _ W). exact sj_x_inside.
Qed.

Theorem split_join_refines : refines_by (mkkv U p) P d x m sj_J (Pa ++ Pb).
Proof using All.
  unfold refines_by, sj_J, cdeg, cnpts. cbn [ckv cP cW kvec kdeg].
  repeat match goal with |- _ /\ _ => split end; try reflexivity.
  - exact (join_wf Ua Ub p Wa Wb Hj).
  - unfold knpts. cbn [kvec kdeg]. fold (npts_of (join_vec Ua Ub p) p).
    rewrite (join_npts Ua Ub p Wa Wb), app_length, HPa, HPb. reflexivity.
  - apply Forall_app. split; assumption.
  - exact sj_first.
  - exact sj_last.
  - exact Hcnt.
  - exact split_join_function.
Qed.

Lemma sj_m_le : (m <= length (join_vec Ua Ub p))%nat.
Proof using Hcnt.
  clear - Hcnt. pose proof (count_q_le_length x (join_vec Ua Ub p)) as L. rewrite (Hcnt x), Qeqb_refl in L. lia.
Qed.

(* the loop run on the concatenated curve at x: after exactly m accepted removals its state is C (knots and control
   points up to ==); what follows is the loop run on that state, i.e. on C itself *)
Theorem split_join_loop (t : Q) (fuel : nat) : 0 <= t -> (m <= fuel)%nat -> certs x m (ckv sj_J) ->
  exists c2 P2, remove_while fuel sj_J x (Some t) = remove_while (fuel - m) c2 x (Some t) /\
    cW c2 = None /\ cP c2 = Some P2 /\
    Forall2 Qeq (kvec (ckv c2)) U /\ kdeg (ckv c2) = p /\ Forall2 (Forall2 Qeq) P2 P.
Proof using All.
  intros Ht Hf HC.
  exact (remove_while_undoes (mkkv U p) P d x t W HPl HPd sj_x_first_last Ht m sj_J (Pa ++ Pb)
           split_join_refines HC fuel Hf).
Qed.

(* the same through c_knot_clean (Some [x]): the result is the loop continued from C; no copy of x beyond those of C
   survives, every other multiplicity is the one of C, and the loop stopped on a refused removal *)
Theorem split_join_clean (t : Q) (r : curve) : certs x m (ckv sj_J) ->
  c_knot_clean sj_J (Some [x]) t = Ok r ->
  (exists c2 P2, r = remove_while (length (join_vec Ua Ub p) - m) c2 x (Some t) /\
     cW c2 = None /\ cP c2 = Some P2 /\
     Forall2 Qeq (kvec (ckv c2)) U /\ kdeg (ckv c2) = p /\ Forall2 (Forall2 Qeq) P2 P) /\
  (count_q x (kvec (ckv r)) <= count_q x U)%nat /\
  (forall y, ~ y == x -> count_q y (kvec (ckv r)) = count_q y U) /\
  exists e, c_knot_remove r [x] (Some t) = Err e.
Proof using All.
  intros HC Hclean.
  assert (Ht : 0 <= t).
  { unfold c_knot_clean in Hclean. destruct (Qltb_spec t 0) as [L|G]; [discriminate|]. apply Qnot_lt_le. exact G. }
  destruct (join_limits Ua Ub p Wa Wb Hj) as (L1 & L2 & L3 & L4).
  destruct (knot_clean_single_refused sj_J x t r Hclean) as [[_ [A|A]]|[Er Href]].
  - exfalso. rewrite kumin_umin in A. cbn [sj_J ckv kvec kdeg] in A. rewrite L1, <- Hxa in A. lra.
  - exfalso. rewrite kumax_umax in A. cbn [sj_J ckv kvec kdeg] in A. rewrite L2, <- Hxa in A. lra.
  - cbn [sj_J ckv kvec] in Er.
    destruct (split_join_loop t (length (join_vec Ua Ub p)) Ht sj_m_le HC) as (c2 & P2 & E & Rest).
    destruct Rest as (R1 & R2 & HFv & R4 & R5).
    split; [|split; [|split]].
    + exists c2, P2. split; [rewrite Er; exact E|]. repeat split; assumption.
    + rewrite Er, E. rewrite <- (F2Q_count _ _ x HFv). apply remove_while_count_le.
    + intros y Hy. rewrite Er, (remove_while_count_other _ _ _ _ y Hy). cbn [sj_J ckv kvec]. rewrite (Hcnt y).
      destruct (Qeqb_spec y x); [contradiction|lia].
    + exact Href.
Qed.
End SJ.

Print Assumptions split_join_function.
Print Assumptions split_join_refines.
Print Assumptions split_join_loop.
Print Assumptions split_join_clean.

(* ------------------------------------------------------------------ *)
(* SJ2, model level: `a | b` for the two restrictions of C              *)
(* ------------------------------------------------------------------ *)
(* C = (U, p, P) is the original curve; a and b are polynomial curves of degree p that restrict it to [umin, x] and
   [x, umax], x the junction knot max(a) that c_join cleans; the vector of the concatenation is the one of C with m extra
   copies of x.  Then a | b succeeds and its result is the knot-clean loop continued from (a curve == to) C itself. *)
Theorem split_join_c_join (U : list Q) (p d : nat) (P : list pt) (a b : curve) (Pa Pb : list pt) (m : nat) :
  let Ua := kvec (ckv a) in let Ub := kvec (ckv b) in let x := last_q (kvec (ckv a)) in
  WF U p -> length P = npts_of U p -> Forall (fun q : pt => length q = d) P ->
  cP a = Some Pa -> cP b = Some Pb -> cW a = None -> cW b = None ->
  kdeg (ckv a) = p -> kdeg (ckv b) = p -> WF Ua p -> WF Ub p ->
  length Pa = npts_of Ua p -> length Pb = npts_of Ub p ->
  Forall (fun q : pt => length q = d) Pa -> Forall (fun q : pt => length q = d) Pb ->
  x == first_q Ub -> umin_of Ua p == umin_of U p -> umax_of Ub p == umax_of U p ->
  (forall u, in_range Ua p u = true -> u < x -> Forall2 Qeq (curve_spec Ua p d Pa u) (curve_spec U p d P u)) ->
  (forall u, in_range Ub p u = true -> Forall2 Qeq (curve_spec Ub p d Pb u) (curve_spec U p d P u)) ->
  (forall y, count_q y (join_vec Ua Ub p) = (count_q y U + (if Qeqb y x then m else 0))%nat) ->
  certs x m (ckv (joined a b Pa Pb)) ->
  exists r, c_join a b = Ok r /\
    (exists c2 P2, r = remove_while (length (join_vec Ua Ub p) - m) c2 x (Some tol_kclean) /\
       cW c2 = None /\ cP c2 = Some P2 /\
       Forall2 Qeq (kvec (ckv c2)) U /\ kdeg (ckv c2) = p /\ Forall2 (Forall2 Qeq) P2 P) /\
    (count_q x (kvec (ckv r)) <= count_q x U)%nat /\
    (forall y, ~ y == x -> count_q y (kvec (ckv r)) = count_q y U) /\
    exists e, c_knot_remove r [x] (Some tol_kclean) = Err e.
Proof.
  intros Ua Ub x W HPl HPd HPa HPb HWa HWb Hda Hdb Wa Wb HLa HLb HDa HDb Hxb Hmin Hmax Hfa Hfb Hcnt HC.
  assert (Hj : last_q (kvec (ckv a)) == first_q (kvec (ckv b))) by exact Hxb.
  assert (Hdba : kdeg (ckv b) = kdeg (ckv a)) by (rewrite Hda; exact Hdb).
  assert (Wa' : WF (kvec (ckv a)) (kdeg (ckv a))) by (rewrite Hda; exact Wa).
  assert (Wb' : WF (kvec (ckv b)) (kdeg (ckv b))) by (rewrite Hdb; exact Wb).
  destruct (c_join_same_degree a b Pa Pb HPa HPb HWa HWb Hdba Wa' Wb' Hj) as (E1 & E2 & _).
  assert (EJ : joined a b Pa Pb = sj_J p Ua Ub Pa Pb) by (unfold joined, sj_J; rewrite Hda; reflexivity).
  rewrite EJ in *. fold x in E1, E2.
  exists (remove_while (length (kvec (ckv (sj_J p Ua Ub Pa Pb)))) (sj_J p Ua Ub Pa Pb) x (Some tol_kclean)).
  split; [exact E2|].
  apply (split_join_clean U p d P x Ua Ub Pa Pb Wa Wb HLa HLb (Qeq_refl x) Hxb Hmin Hmax Hfa Hfb W HPl HPd HDa HDb m Hcnt
           tol_kclean _ HC).
  rewrite <- E1. exact E2.
Qed.

Print Assumptions split_join_c_join.

(* ------------------------------------------------------------------ *)
(* SJ3. the two pieces of the model's split at one point                *)
(* ------------------------------------------------------------------ *)
Section SplitPieces.
Variables (c : curve) (P : list pt) (d : nat) (x : Q) (a b : curve).
Hypothesis HW : cW c = None.
Hypothesis HP : cP c = Some P.
Hypothesis W : WF (kvec (ckv c)) (cdeg c).
Hypothesis HPl : length P = cnpts c.
Hypothesis HPd : Forall (fun q : pt => length q = d) P.
Hypothesis Hex : exact_mult (ckv c) [x].
Hypothesis Hsplit : c_split c (Some [x]) = Ok [a; b].

Let p := cdeg c.
Let U := kvec (ckv c).
Let Ua := kvec (ckv a).
Let Ub := kvec (ckv b).

Theorem split_pieces_spec :
  exists Pa Pb,
    cP a = Some Pa /\ cP b = Some Pb /\ cW a = None /\ cW b = None /\
    kdeg (ckv a) = p /\ kdeg (ckv b) = p /\ WF Ua p /\ WF Ub p /\
    length Pa = npts_of Ua p /\ length Pb = npts_of Ub p /\
    Forall (fun q : pt => length q = d) Pa /\ Forall (fun q : pt => length q = d) Pb /\
    last_q Ua == x /\ x == first_q Ub /\ umin_of U p < x < umax_of U p /\
    umin_of Ua p == umin_of U p /\ umax_of Ub p == umax_of U p /\
    (forall u, in_range Ua p u = true -> u < x -> Forall2 Qeq (curve_spec Ua p d Pa u) (curve_spec U p d P u)) /\
    (forall u, in_range Ub p u = true -> Forall2 Qeq (curve_spec Ub p d Pb u) (curve_spec U p d P u)) /\
    (forall y, count_q y (join_vec Ua Ub p) =
               (count_q y U + (if Qeqb y (last_q Ua) then p + 1 - count_q x U else 0))%nat).
Proof using All.
  unfold cdeg, cnpts in *.
  destruct (c_split_inv c (Some [x]) [a; b] Hsplit) as (pieces & Ms & P' & Hks & Hsc & HP' & Ecs).
  cbn [split_nodes_of] in Hks, Hsc.
  rewrite HP in HP'. inversion HP'; subst P'. rewrite HW in Ecs.
  destruct (c_split_spline c (Some [x]) [a; b] P d Hsplit W Hex HP HW HPl HPd) as (pieces' & Hks' & Lcs & Hm).
  cbn [split_nodes_of] in Hks'. rewrite Hks in Hks'. inversion Hks'; subst pieces'. clear Hks'.
  destruct pieces as [|k0 [|k1 [|k2 pieces]]]; cbn [length] in Lcs; try discriminate Lcs.
  destruct Ms as [|M0 [|M1 Ms]]; cbn [map2] in Ecs; try discriminate Ecs.
  injection Ecs as Ea Eb.
  destruct (ksplit_piece (ckv c) [x] [k0; k1] W Hks) as (Hval & Lp & Hpc).
  destruct (ksplit_structure (ckv c) [x] [k0; k1] W Hks) as (_ & C0 & C2 & Hst).
  set (cp := cut_points (ckv c) [x]) in *. cbn [length] in Lp. rewrite <- Lp in C2. cbn [Nat.sub] in C2.
  destruct (Hst 0%nat ltac:(cbn; lia)) as (W0 & D0 & S0 & Kmin0 & Kmax0 & F0 & L0).
  destruct (Hst 1%nat ltac:(cbn; lia)) as (W1 & D1 & S1 & Kmin1 & Kmax1 & F1 & L1).
  destruct (Hpc 0%nat ltac:(cbn; lia)) as (_ & IP0).
  destruct (Hpc 1%nat ltac:(cbn; lia)) as (_ & IP1).
  cbn [nth] in W0, D0, Kmin0, Kmax0, F0, L0, W1, D1, Kmin1, Kmax1, F1, L1, IP0, IP1.
  set (a0 := nth 0 cp 0) in *. set (a1 := nth 1 cp 0) in *. set (a2 := nth 2 cp 0) in *.
  (* the middle cut point is x *)
  assert (X1 : a1 == x).
  { pose proof (cp_nth_in (ckv c) [x] 1 ltac:(fold cp; lia)) as Pm. fold cp in Pm. fold a1 in Pm.
    apply cp_mem in Pm. destruct Pm as [E|[E|E]]; [lra | lra |].
    rewrite count_q_cons, count_q_nil in E. destruct (Qeqb_spec a1 x) as [E'|E']; [exact E'|lia]. }
  assert (Eka : ckv a = k0) by (rewrite Ea; reflexivity).
  assert (Ekb : ckv b = k1) by (rewrite Eb; reflexivity).
  assert (EPa : cP a = Some (mat_apply M0 P)) by (rewrite Ea; reflexivity).
  assert (EPb : cP b = Some (mat_apply M1 P)) by (rewrite Eb; reflexivity).
  assert (Hpd : pdim P = d) by exact (P_pdim (ckv c) (ckv c) W eq_refl P d HPl HPd).
  destruct (Hm 0%nat ltac:(cbn; lia)) as (_ & _ & Pa & HPa & HLa & Hfa).
  destruct (Hm 1%nat ltac:(cbn; lia)) as (_ & _ & Pb & HPb & HLb & Hfb).
  cbn [nth length] in HPa, HLa, Hfa, HPb, HLb, Hfb.
  rewrite EPa in HPa. inversion HPa; subst Pa. rewrite EPb in HPb. inversion HPb; subst Pb.
  unfold cnpts in HLa, HLb. unfold Ua, Ub, U, p, cdeg. rewrite Eka, Ekb in *.
  rewrite D0 in W0. rewrite D1 in W1.
  set (pp := kdeg (ckv c)) in *. set (UU := kvec (ckv c)) in *.
  exists (mat_apply M0 P), (mat_apply M1 P).
  assert (Hxin : umin_of UU pp < x < umax_of UU pp).
  { rewrite <- X1. change (kumin (ckv c) < a1 < kumax (ckv c)). lra. }
  repeat match goal with |- _ /\ _ => split end; try assumption; try (rewrite Ea; reflexivity); try (rewrite Eb; reflexivity).
  - unfold knpts in HLa. rewrite D0 in HLa. exact HLa.
  - unfold knpts in HLb. rewrite D1 in HLb. exact HLb.
  - apply mat_apply_dims; assumption.
  - apply mat_apply_dims; assumption.
  - rewrite L0. exact X1.
  - rewrite F1. symmetry. exact X1.
  - apply Hxin.
  - apply Hxin.
  - rewrite kumin_umin, D0 in Kmin0. rewrite Kmin0. exact C0.
  - rewrite kumax_umax, D1 in Kmax1. rewrite Kmax1. exact C2.
  - intros u Hr Hlt. apply Hfa.
    + unfold in_range in Hr. apply andb_true_iff in Hr. destruct Hr as [Hr _]. apply Qleb_le in Hr.
      rewrite kumin_umin, D0. exact Hr.
    + left. rewrite Kmax0, X1. exact Hlt.
  - intros u Hr. unfold in_range in Hr. apply andb_true_iff in Hr. destruct Hr as [Hr1 Hr2].
    apply Qleb_le in Hr1. apply Qleb_le in Hr2. apply Hfb.
    + rewrite kumin_umin, D1. exact Hr1.
    + right. split; [|reflexivity]. rewrite kumax_umax, D1. exact Hr2.
  - (* the multiplicities of the concatenated vector *)
    intro y. rewrite (join_count (kvec k0) (kvec k1) pp W0 W1 y).
    destruct IP0 as [_ Cn0]. destruct IP1 as [_ Cn1]. rewrite (Cn0 y), (Cn1 y).
    destruct (wf_parts _ _ W) as (Srt & _ & Cf & Cl). fold UU pp in Srt, Cf, Cl.
    assert (E0 : a0 == first_q UU) by (rewrite C0, kumin_umin; symmetry; apply wf_first_umin, W).
    assert (E2 : a2 == last_q UU) by (rewrite C2, kumax_umax; symmetry; apply wf_last_umax, W).
    assert (G0 : forall z, z == a0 -> count_q z UU = (pp + 1)%nat).
    { intros z Hz. rewrite (count_q_proper z (first_q UU) UU) by (rewrite Hz; exact E0). exact Cf. }
    assert (G2 : forall z, z == a2 -> count_q z UU = (pp + 1)%nat).
    { intros z Hz. rewrite (count_q_proper z (last_q UU) UU) by (rewrite Hz; exact E2). exact Cl. }
    assert (Glo : forall z, z < a0 -> count_q z UU = 0%nat).
    { intros z Hz. apply count_q_none. intros w Hw C. pose proof (UnionProofs.sorted_first_le UU w Srt Hw). lra. }
    assert (Ghi : forall z, a2 < z -> count_q z UU = 0%nat).
    { intros z Hz. apply count_q_none. intros w Hw C. pose proof (UnionProofs.sorted_le_last UU w Srt Hw). lra. }
    assert (Gx : forall z, z == a1 -> count_q z UU = count_q x UU).
    { intros z Hz. apply count_q_proper. rewrite Hz. exact X1. }
    pose proof (UnionProofs.wf_count_le _ _ W x) as Lx. fold UU pp in Lx.
    unfold piece_count, mid.
    repeat match goal with
    | |- context [Qleb ?a ?b] => destruct (Qleb_spec a b)
    | |- context [Qltb ?a ?b] => destruct (Qltb_spec a b)
    | |- context [Qeqb ?a ?b] => destruct (Qeqb_spec a b)
    end; cbn [andb orb negb]; try (exfalso; lra);
    first [ rewrite (G0 y) by lra | rewrite (G2 y) by lra | rewrite (Gx y) by lra
          | rewrite (Glo y) by lra | rewrite (Ghi y) by lra | idtac ]; lia.
Qed.
End SplitPieces.

Print Assumptions split_pieces_spec.

(* the loop and its certificates only look at the junction knot up to == *)
Lemma remove1_Qeq x x' : x == x' -> forall l, remove1 x l = remove1 x' l.
Proof.
  intros E l. induction l as [|y l IH]; [reflexivity|]. cbn [remove1]. rewrite IH.
  destruct (Qeqb_spec x y) as [A|A], (Qeqb_spec x' y) as [B|B]; try reflexivity; exfalso.
  - apply B. rewrite <- E. exact A.
  - apply A. rewrite E. exact B.
Qed.

Lemma kremove_Qeq k x x' : x == x' -> kremove k [x] = kremove k [x'].
Proof. intro E. unfold kremove. cbn [remove_all]. rewrite (remove1_Qeq x x' E). reflexivity. Qed.

Lemma c_knot_remove_Qeq c x x' tol : x == x' -> c_knot_remove c [x] tol = c_knot_remove c [x'] tol.
Proof. intro E. unfold c_knot_remove. rewrite (kremove_Qeq _ x x' E). reflexivity. Qed.

Lemma remove_while_Qeq x x' tol : x == x' -> forall fuel c, remove_while fuel c x tol = remove_while fuel c x' tol.
Proof.
  intros E fuel. induction fuel as [|f IH]; intro c; [reflexivity|]. cbn [remove_while].
  rewrite (c_knot_remove_Qeq c x x' tol E). destruct (c_knot_remove c [x'] tol); [apply IH|reflexivity].
Qed.

Lemma certs_Qeq x x' : x == x' -> forall m k, certs x m k -> certs x' m k.
Proof.
  intros E m. induction m as [|m IH]; intros k H; [exact I|]. cbn [certs] in *.
  destruct H as (knw & T & E0 & Hr & Hs & Hc). exists knw, T, E0.
  rewrite <- (kremove_Qeq k x x' E). repeat split; [exact Hr | exact Hs | apply IH, Hc].
Qed.

(* SJ3, final form: split a polynomial curve at one point x (the split returns two pieces, so x is strictly inside), join
   the two pieces with `|`: the join succeeds and its result is the knot-clean loop at x continued from a curve that is
   == to the original (knots, degree, control points).  m = p + 1 - mult(x) is the number of copies of x that the split
   added; the hypothesis certs is the chain of m certified solves of the loop (decidable by certs_b on examples). *)
Theorem split_then_join (c : curve) (P : list pt) (d : nat) (x : Q) (a b : curve) :
  cW c = None -> cP c = Some P -> WF (kvec (ckv c)) (cdeg c) -> length P = cnpts c ->
  Forall (fun q : pt => length q = d) P ->
  exact_mult (ckv c) [x] ->
  c_split c (Some [x]) = Ok [a; b] ->
  let p := cdeg c in
  let U := kvec (ckv c) in
  let m := (p + 1 - count_q x U)%nat in
  let Jv := join_vec (kvec (ckv a)) (kvec (ckv b)) p in
  certs x m (mkkv Jv p) ->
  umin_of U p < x < umax_of U p /\
  (forall y, count_q y Jv = (count_q y U + (if Qeqb y x then m else 0))%nat) /\
  exists r, c_join a b = Ok r /\
    (exists c2 P2, r = remove_while (length Jv - m) c2 x (Some tol_kclean) /\
       cW c2 = None /\ cP c2 = Some P2 /\
       Forall2 Qeq (kvec (ckv c2)) U /\ kdeg (ckv c2) = p /\ Forall2 (Forall2 Qeq) P2 P) /\
    (count_q x (kvec (ckv r)) <= count_q x U)%nat /\
    (forall y, ~ y == x -> count_q y (kvec (ckv r)) = count_q y U) /\
    exists e, c_knot_remove r [x] (Some tol_kclean) = Err e.
Proof.
  intros HW HP W HPl HPd Hex Hsplit p U m Jv HC.
  destruct (split_pieces_spec c P d x a b HW HP W HPl HPd Hex Hsplit)
    as (Pa & Pb & HPa & HPb & HWa & HWb & Hda & Hdb & Wa & Wb & HLa & HLb & HDa & HDb & Hxa & Hxb & Hin & Hmin & Hmax
        & Hfa & Hfb & Hcnt).
  fold p U in Hda, Hdb, Wa, Wb, HLa, HLb, Hin, Hmin, Hmax, Hfa, Hfb, Hcnt. fold m in Hcnt.
  set (xj := last_q (kvec (ckv a))) in *.
  assert (Ex : x == xj) by (symmetry; exact Hxa).
  assert (Hcx : forall y, count_q y Jv = (count_q y U + (if Qeqb y x then m else 0))%nat).
  { intro y. unfold Jv. rewrite (Hcnt y).
    destruct (Qeqb_spec y xj) as [A|A], (Qeqb_spec y x) as [B|B]; try reflexivity; exfalso.
    - apply B. rewrite Ex. exact A.
    - apply A. rewrite <- Ex. exact B. }
  split; [exact Hin|]. split; [exact Hcx|].
  assert (HPl' : length P = npts_of U p) by exact HPl.
  destruct (split_join_c_join U p d P a b Pa Pb m W HPl' HPd HPa HPb HWa HWb Hda Hdb Wa Wb HLa HLb HDa HDb) as (r & Er & R1 & R2 & R3 & R4).
  - fold xj. rewrite <- Ex. exact Hxb.
  - exact Hmin.
  - exact Hmax.
  - fold xj. intros u Hr Hlt. apply Hfa; [exact Hr|]. rewrite Ex. exact Hlt.
  - exact Hfb.
  - exact Hcnt.
  - fold xj. apply (certs_Qeq x xj Ex). unfold joined. cbn [ckv]. rewrite Hda. exact HC.
  - fold xj in R1, R2, R3, R4. exists r. split; [exact Er|].
    split; [|split; [|split]].
    + destruct R1 as (c2 & P2 & E2 & Rest). exists c2, P2. split; [|exact Rest].
      rewrite E2. symmetry. apply remove_while_Qeq. exact Ex.
    + rewrite (count_q_proper x xj _ Ex), (count_q_proper x xj U Ex). exact R2.
    + intros y Hy. apply R3. intro C. apply Hy. rewrite Ex. exact C.
    + destruct R4 as [e He]. exists e. rewrite (c_knot_remove_Qeq r x xj _ Ex). exact He.
Qed.

Print Assumptions split_then_join.

(* ------------------------------------------------------------------ *)
(* Examples                                                             *)
(* ------------------------------------------------------------------ *)
Definition sx_U : list Q := [0; 0; 0; 1#3; 2#3; 1; 1; 1].
Definition sx_P : list pt := [[1]; [2]; [-1]; [3]; [0]].
Definition sx_c : curve := mkcurve (mkkv sx_U 2) (Some sx_P) None.

(* split at x, join again: knot vector and control points are back *)
Definition sx_roundtrip (x : Q) : bool :=
  match c_split sx_c (Some [x]) with
  | Ok [a; b] =>
      match c_join a b with
      | Ok r => ql_eqb (kvec (ckv r)) sx_U && Nat.eqb (kdeg (ckv r)) 2 && opt_eqb ptl_eqb (cP r) (Some sx_P)
      | Err _ => false
      end
  | _ => false
  end.

Example sx_roundtrip_half : sx_roundtrip (1#2) = true.
Proof. vm_compute. reflexivity. Qed.

(* the same cut at the existing knot 1/3 *)
Example sx_roundtrip_third : sx_roundtrip (1#3) = true.
Proof. vm_compute. reflexivity. Qed.

(* the pieces of the two splits *)
Definition sx_piece (x : Q) (i : nat) : curve :=
  match c_split sx_c (Some [x]) with Ok cs => nth i cs sx_c | Err _ => sx_c end.

Example sx_pieces_half :
  c_split sx_c (Some [1#2]) = Ok [sx_piece (1#2) 0; sx_piece (1#2) 1] /\
  ql_eqb (kvec (ckv (sx_piece (1#2) 0))) [0; 0; 0; 1#3; 1#2; 1#2; 1#2] = true /\
  ql_eqb (kvec (ckv (sx_piece (1#2) 1))) [1#2; 1#2; 1#2; 2#3; 1; 1; 1] = true.
Proof. vm_compute. repeat split; reflexivity. Qed.

Example sx_pieces_third :
  c_split sx_c (Some [1#3]) = Ok [sx_piece (1#3) 0; sx_piece (1#3) 1] /\
  ql_eqb (kvec (ckv (sx_piece (1#3) 0))) [0; 0; 0; 1#3; 1#3; 1#3] = true /\
  ql_eqb (kvec (ckv (sx_piece (1#3) 1))) [1#3; 1#3; 1#3; 2#3; 1; 1; 1] = true.
Proof. vm_compute. repeat split; reflexivity. Qed.

(* the hypotheses of split_then_join hold on both examples (3 resp. 2 certified solves), so the theorem applies *)
Lemma sx_exact x : exact_mult (ckv sx_c) [x] <-> kmult_raw sx_U x = count_q x sx_U.
Proof.
  unfold exact_mult. split.
  - intro H. apply H. left. reflexivity.
  - intros H y [<-|[]]. exact H.
Qed.

Example sx_thm_half : exists r, c_join (sx_piece (1#2) 0) (sx_piece (1#2) 1) = Ok r /\
  (exists c2 P2, r = remove_while (11 - 3) c2 (1#2) (Some tol_kclean) /\ cW c2 = None /\ cP c2 = Some P2 /\
     Forall2 Qeq (kvec (ckv c2)) sx_U /\ kdeg (ckv c2) = 2%nat /\ Forall2 (Forall2 Qeq) P2 sx_P) /\
  (count_q (1#2) (kvec (ckv r)) <= 0)%nat.
Proof.
  destruct sx_pieces_half as (Hs & _).
  destruct (split_then_join sx_c sx_P 1 (1#2) (sx_piece (1#2) 0) (sx_piece (1#2) 1) eq_refl eq_refl) with (5 := Hs) as (_ & _ & r & Er & R1 & R2 & _).
  - vm_compute. reflexivity.
  - reflexivity.
  - repeat constructor.
  - apply sx_exact. vm_compute. reflexivity.
  - apply certs_b_sound. vm_compute. reflexivity.
  - exists r. split; [exact Er|]. split; [exact R1 | exact R2].
Qed.

Example sx_thm_third : exists r, c_join (sx_piece (1#3) 0) (sx_piece (1#3) 1) = Ok r /\
  (exists c2 P2, r = remove_while (10 - 2) c2 (1#3) (Some tol_kclean) /\ cW c2 = None /\ cP c2 = Some P2 /\
     Forall2 Qeq (kvec (ckv c2)) sx_U /\ kdeg (ckv c2) = 2%nat /\ Forall2 (Forall2 Qeq) P2 sx_P) /\
  (count_q (1#3) (kvec (ckv r)) <= 1)%nat.
Proof.
  destruct sx_pieces_third as (Hs & _).
  destruct (split_then_join sx_c sx_P 1 (1#3) (sx_piece (1#3) 0) (sx_piece (1#3) 1) eq_refl eq_refl) with (5 := Hs) as (_ & _ & r & Er & R1 & R2 & _).
  - vm_compute. reflexivity.
  - reflexivity.
  - repeat constructor.
  - apply sx_exact. vm_compute. reflexivity.
  - apply certs_b_sound. vm_compute. reflexivity.
  - exists r. split; [exact Er|]. split; [exact R1 | exact R2].
Qed.
