(* The least-squares projection undoes ANY exact refinement.
   G1 (generic): kf fine (degree may be higher), kc coarse, M any matrix with length M = knpts kf such that
       curve over kf with control points M P  ==  curve over kc with control points P   (H)
   for every P and every u in the range of kc.  Then the coarse basis is the fine basis contracted
   with M (GU1), and spline2spline kf kc None / (Some ns) = (T, E) satisfies T M = I and E vanishes
   on range(M) (GU2 / GU3).  The proofs are those of UndoProofs.v with (H) in place of
   knot_insert_curve: everything after U1 only uses the basis relation.
   G2 (Bezier): c_degree_decrease undoes c_degree_increase on a polynomial Bezier curve. *)
From Coq Require Import QArith Qabs List Bool Arith Lia Lqa Setoid Morphisms Permutation.
From NurbsV Require Import Base.Res Base.QList Spec.BSpline Spec.KnotSpec Gen.Consts Model.KV Model.Basis
  Model.CurveM Model.Ops Model.CurveOps Model.Linalg Model.Quadrature Model.LeastSq Model.CurveLS.
From NurbsV Require Import Proofs.KVProofs Proofs.EvalProofs Proofs.InsertBasic Proofs.InsertList
  Proofs.InsertCompose Proofs.InsertCurve Proofs.RemoveBasic Proofs.MatProofs Proofs.LSProofs
  Proofs.UndoProofs.
From NurbsV Require Proofs.UnionProofs Proofs.BezierProofs.
Import ListNotations.
Open Scope Q_scope.

(* ------------------------------------------------------------------ *)
(* G1. the generic setting                                              *)
(* ------------------------------------------------------------------ *)
Section Generic.
  Variables (kf kc : kv) (M : mat).
  Hypothesis Wf : WF (kvec kf) (kdeg kf).
  Hypothesis Wc : WF (kvec kc) (kdeg kc).
  Hypothesis LM : length M = knpts kf.
  Hypothesis HC : forall P u, length P = knpts kc -> in_range (kvec kc) (kdeg kc) u = true ->
    curve_spec1 (kvec kf) (kdeg kf) (mvec M P) u == curve_spec1 (kvec kc) (kdeg kc) P u.

  Let no := knpts kf.
  Let nn := knpts kc.

  (* GU1, bilinear form: sum_r f_r (M z)_r = sum_i g_i z_i *)
  Theorem GU1_dot u f g z :
    basis_row kf (kdeg kf) u = Ok f -> basis_row kc (kdeg kc) u = Ok g -> length z = nn ->
    dot f (mvec M z) == dot g z.
  Proof using All.
    intros Hf Hg Hz.
    rewrite (basis_row_dot kf u f (mvec M z) Wf Hf) by (rewrite mvec_length; exact LM).
    rewrite (basis_row_dot kc u g z Wc Hg Hz).
    apply HC; [exact Hz|].
    rewrite <- kvalid1_in_range. exact (basis_row_valid _ _ _ _ Hg).
  Qed.

  Theorem GU1_basis u f g :
    basis_row kf (kdeg kf) u = Ok f -> basis_row kc (kdeg kc) u = Ok g ->
    veq g (mvec (mtrans_n nn M) f).
  Proof using All.
    intros Hf Hg.
    pose proof (basis_row_length _ _ _ _ Hf) as Lf. pose proof (basis_row_length _ _ _ _ Hg) as Lg.
    fold no in Lf. fold nn in Lg.
    apply veq_intro; [rewrite mvec_length, mtrans_n_length; exact Lg|].
    intros i Hi. rewrite Lg in Hi.
    rewrite <- (dot_evec_l nn i g Hi Lg).
    rewrite <- (dot_evec_l nn i (mvec (mtrans_n nn M) f) Hi) by (rewrite mvec_length, mtrans_n_length; reflexivity).
    rewrite (dot_sym (evec nn i) g).
    rewrite <- (GU1_dot u f g (evec nn i) Hf Hg (evec_length nn i Hi)).
    rewrite dot_sym.
    apply (dot_mvec_adjoint_gen nn M (evec nn i) f (evec_length nn i Hi)).
    rewrite LM. exact Lf.
  Qed.

  Corollary GU1_entry u f g i :
    basis_row kf (kdeg kf) u = Ok f -> basis_row kc (kdeg kc) u = Ok g -> (i < nn)%nat ->
    nth i g 0 == dot f (mcol i M).
  Proof using All.
    intros Hf Hg Hi. rewrite (veq_nth _ _ (GU1_basis u f g Hf Hg) i).
    rewrite nth_mvec, row_mtrans_n by exact Hi. apply dot_sym.
  Qed.

  Lemma Gnn_pos : (0 < nn)%nat.
  Proof using Wc. exact (wf_knpts_pos kc Wc). Qed.

  Lemma GU1_nodes z : length z = nn ->
    forall u f gk, In u (quad_nodes kf kc) ->
      basis_row kf (kdeg kf) u = Ok f -> basis_row kc (kdeg kc) u = Ok gk ->
      dot f (mvec M z) == dot gk z.
  Proof using All. intros Hz u f gk _ Hf Hg. exact (GU1_dot u f gk z Hf Hg Hz). Qed.

  Lemma GMz_length z : length (mvec M z) = no.
  Proof using LM. rewrite mvec_length. exact LM. Qed.

  Lemma GGF_M g z : grams_of kf kc = Ok g -> length z = nn ->
    veq (mvec (gGF g) (mvec M z)) (mvec (gGG g) z).
  Proof using All.
    intros Hg Hz. apply (grams_of_transfer kf kc g (mvec M z) z Hg (GMz_length z) Hz (GU1_nodes z Hz)).
  Qed.

  Lemma GFF_M g a b : grams_of kf kc = Ok g -> length a = nn -> length b = nn ->
    dot (mvec M a) (mvec (gFF g) (mvec M b)) == dot a (mvec (gGG g) b).
  Proof using All.
    intros Hg Ha Hb.
    apply (grams_of_transfer_FF kf kc g (mvec M a) (mvec M b) a b Hg (GMz_length a) (GMz_length b) Ha Hb
             (GU1_nodes a Ha) (GU1_nodes b Hb)).
  Qed.

  Section GU2.
    Variables (T E : mat).
    Hypothesis HS : spline2spline kf kc None = Ok (T, E).

    Theorem GU2_vec z : length z = nn -> veq (mvec T (mvec M z)) z.
    Proof using All.
      intro Hz. destruct (U2_grams kf kc T E HS) as [g Hg].
      apply (spline2spline_reproduces kf kc T E g HS Hg (mvec M z) z (GMz_length z) Hz (GU1_nodes z Hz)).
    Qed.

    Theorem GU2_left_inverse : meq (mmul_n nn T M) (ident nn).
    Proof using All.
      destruct (U2_grams kf kc T E HS) as [g Hg].
      pose proof (spline2spline_T_shaped kf kc T E g HS Hg) as ST.
      apply (meq_ext nn nn); [apply shaped_mmul_n'; exact (shaped_len _ _ _ ST)|apply shaped_ident|].
      intros z Hz. rewrite (mvec_mmul_n_gen nn T M z Hz). rewrite (MatProofs.mvec_ident nn z Hz).
      apply GU2_vec. exact Hz.
    Qed.

    Theorem GU2_error_bilinear a b : length a = nn -> length b = nn ->
      dot (mvec M a) (mvec E (mvec M b)) == 0.
    Proof using All.
      intros Ha Hb. destruct (U2_grams kf kc T E HS) as [g Hg].
      destruct (grams_of_shaped _ _ _ Hg) as (S1 & S2 & S3).
      pose proof (shaped_len _ _ _ S1) as L1. pose proof (shaped_len _ _ _ S2) as L2.
      pose proof (spline2spline_T_shaped kf kc T E g HS Hg) as ST. pose proof (shaped_len _ _ _ ST) as LT.
      rewrite (spline2spline_error_action kf kc T E g (mvec M b) HS Hg Gnn_pos (GMz_length b)).
      rewrite dot_vsub_r by (rewrite !mvec_length, mtrans_n_length; exact L1).
      rewrite (GFF_M g a b Hg Ha Hb).
      rewrite <- (dot_mvec_adjoint_gen (knpts kf) (gGF g) (mvec M a) (mvec T (mvec M b)) (GMz_length a))
        by (rewrite mvec_length; congruence).
      rewrite (GU2_vec b Hb). rewrite (GGF_M g a Hg Ha).
      rewrite (dot_sym (mvec (gGG g) a) b).
      rewrite (grams_of_GG_symmetric kf kc g Hg b a Hb Ha). ring.
    Qed.

    Corollary GU2_error z : length z = nn -> dot (mvec M z) (mvec E (mvec M z)) == 0.
    Proof using All. intro Hz. apply GU2_error_bilinear; exact Hz. Qed.
  End GU2.

  Section GU3.
    Variables (ns : list Q) (T E : mat).
    Hypothesis HS : spline2spline kf kc (Some ns) = Ok (T, E).
    Hypothesis Hns : (0 < length ns)%nat.

    Lemma GF_M F G z : mapM (basis_row kf (kdeg kf)) ns = Ok F -> mapM (basis_row kc (kdeg kc)) ns = Ok G ->
      length z = nn -> veq (mvec F (mvec M z)) (mvec G z).
    Proof using All.
      intros HF HG Hz.
      apply (rows_transfer (basis_row kf (kdeg kf)) (basis_row kc (kdeg kc)) (mvec M z) z ns F G
               (mapM_Forall2 _ _ _ HF) (mapM_Forall2 _ _ _ HG)).
      intros u f g _ Hf Hg. exact (GU1_dot u f g z Hf Hg Hz).
    Qed.

    Theorem GU3_vec z : length z = nn -> veq (mvec T (mvec M z)) z.
    Proof using All.
      intro Hz. destruct (U3_data kf kc ns T E HS) as (g & F & G & Hg & HF & HG).
      destruct (s2s_some_facts kf kc ns T E g F G HS Hg HF HG Hns)
        as (GGinv & LLinv & S1 & S2 & S3 & S4 & Hr & Hl & S5 & HLr & HT & HE).
      rewrite HT.
      apply (cT_undo (knpts kc) (knpts kf) (gFF g) (gGF g) (gGG g) GGinv S1 S2 S3 S4 Hr Hl
               (length ns) G F LLinv (s2s_G_shaped kc ns G HG) (s2s_F_shaped kf ns F HF) S5 HLr
               M LM).
      - intros z0 Hz0. exact (GGF_M g z0 Hg Hz0).
      - intros z0 Hz0. exact (GF_M F G z0 HF HG Hz0).
      - exact Hz.
    Qed.

    Theorem GU3_left_inverse : meq (mmul_n nn T M) (ident nn).
    Proof using All.
      apply (meq_ext nn nn);
        [apply shaped_mmul_n'; exact (shaped_len _ _ _ (U3_T_shaped kf kc ns T E HS Hns))|apply shaped_ident|].
      intros z Hz. rewrite (mvec_mmul_n_gen nn T M z Hz). rewrite (MatProofs.mvec_ident nn z Hz).
      apply GU3_vec. exact Hz.
    Qed.

    Theorem GU3_error_bilinear a b : length a = nn -> length b = nn ->
      dot (mvec M a) (mvec E (mvec M b)) == 0.
    Proof using All.
      intros Ha Hb. destruct (U3_data kf kc ns T E HS) as (g & F & G & Hg & HF & HG).
      destruct (s2s_some_facts kf kc ns T E g F G HS Hg HF HG Hns)
        as (GGinv & LLinv & S1 & S2 & S3 & S4 & Hr & Hl & S5 & HLr & HT & HE).
      rewrite HE at 1.
      rewrite (qE_bilinear (knpts kc) (knpts kf) (gFF g) (gGF g) (gGG g) T S1 S2 S3
                 (U3_T_shaped kf kc ns T E HS Hns)
                 (mvec M a) (mvec M b) (GMz_length a) (GMz_length b)).
      rewrite (GFF_M g a b Hg Ha Hb).
      rewrite (GU3_vec a Ha), (GU3_vec b Hb).
      rewrite (GGF_M g a Hg Ha), (GGF_M g b Hg Hb).
      rewrite (grams_of_GG_symmetric kf kc g Hg b a Hb Ha). ring.
    Qed.

    Corollary GU3_error z : length z = nn -> dot (mvec M z) (mvec E (mvec M z)) == 0.
    Proof using All. intro Hz. apply GU3_error_bilinear; exact Hz. Qed.
  End GU3.
End Generic.


(* ------------------------------------------------------------------ *)
(* G1b. the curve level: c_update onto kc of the refined curve           *)
(* ------------------------------------------------------------------ *)
Section GenericCurve.
  Variables (kf knew : kv) (M : mat).
  Hypothesis Wf : WF (kvec kf) (kdeg kf).
  Hypothesis Wc : WF (kvec knew) (kdeg knew).
  Hypothesis LM : length M = knpts kf.
  Hypothesis HC : forall P u, length P = knpts knew -> in_range (kvec knew) (kdeg knew) u = true ->
    curve_spec1 (kvec kf) (kdeg kf) (mvec M P) u == curve_spec1 (kvec knew) (kdeg knew) P u.
  Hypothesis Hlim : limits_eqb kf knew = true.
  Hypothesis Hne : kv_eqb knew kf = false.

  Lemma GU4_vec T E : spline2spline kf knew (knots_opt knew) = Ok (T, E) ->
    forall z, length z = knpts knew -> veq (mvec T (mvec M z)) z.
  Proof.
    unfold knots_opt. destruct (kdeg knew =? 0)%nat; intros HS z Hz.
    - exact (GU2_vec kf knew M Wf Wc LM HC T E HS z Hz).
    - exact (GU3_vec kf knew M Wf Wc LM HC (kknots knew) T E HS (kknots_pos knew Wc) z Hz).
  Qed.

  Lemma GU4_T_length T E : spline2spline kf knew (knots_opt knew) = Ok (T, E) -> length T = knpts knew.
  Proof.
    unfold knots_opt. destruct (kdeg knew =? 0)%nat; intros HS.
    - destruct (U2_grams kf knew T E HS) as [g Hg].
      exact (shaped_len _ _ _ (spline2spline_T_shaped kf knew T E g HS Hg)).
    - exact (shaped_len _ _ _ (U3_T_shaped kf knew (kknots knew) T E HS (kknots_pos knew Wc))).
  Qed.

  Lemma GU4_err T E : spline2spline kf knew (knots_opt knew) = Ok (T, E) ->
    forall a b, length a = knpts knew -> length b = knpts knew ->
    dot (mvec M a) (mvec E (mvec M b)) == 0.
  Proof.
    unfold knots_opt. destruct (kdeg knew =? 0)%nat; intros HS a b Ha Hb.
    - exact (GU2_error_bilinear kf knew M Wf Wc LM HC T E HS a b Ha Hb).
    - exact (GU3_error_bilinear kf knew M Wf Wc LM HC (kknots knew) T E HS (kknots_pos knew Wc) a b Ha Hb).
  Qed.

  Variables (P : list pt) (d : nat).
  Hypothesis HPl : length P = knpts knew.
  Hypothesis HPd : Forall (fun q : pt => length q = d) P.

  Lemma GP_pdim : pdim P = d.
  Proof.
    apply pdim_Forall; [|exact HPd]. pose proof (wf_knpts_pos knew Wc). destruct P; [cbn in HPl; lia|discriminate].
  Qed.

  Lemma GP1_dims : Forall (fun q : pt => length q = d) (mat_apply M P).
  Proof. apply mat_apply_dims; [exact HPd|exact GP_pdim]. Qed.

  Lemma GP1_pdim : pdim (mat_apply M P) = d.
  Proof.
    apply pdim_Forall; [|exact GP1_dims].
    pose proof (wf_knpts_pos kf Wf) as Hp.
    intro E. apply (f_equal (@length _)) in E. rewrite mat_apply_length, LM in E. cbn in E. lia.
  Qed.

  Lemma GU4_coord kk : (kk < d)%nat -> veq (coord kk (mat_apply M P)) (mvec M (coord kk P)).
  Proof. intro Hkk. exact (coord_mat_apply_veq M P d kk Hkk HPd GP_pdim). Qed.

  Lemma GU4_points T E : spline2spline kf knew (knots_opt knew) = Ok (T, E) ->
    Forall2 (Forall2 Qeq) (mat_apply T (mat_apply M P)) P.
  Proof.
    intro HS. apply (points_eq_by_coords _ _ d).
    - rewrite mat_apply_length, (GU4_T_length T E HS). symmetry. exact HPl.
    - apply mat_apply_dims; [exact GP1_dims|exact GP1_pdim].
    - exact HPd.
    - intros kk Hkk. rewrite (coord_mat_apply_veq T (mat_apply M P) d kk Hkk GP1_dims GP1_pdim).
      rewrite (GU4_coord kk Hkk). apply (GU4_vec T E HS).
      rewrite coord_length. exact HPl.
  Qed.

  (* the error functional of the projection vanishes on a refined curve *)
  Theorem GU4_fit_error T E : spline2spline kf knew (knots_opt knew) = Ok (T, E) ->
    fit_error E (mat_apply M P) == 0.
  Proof.
    intro HS. apply fit_error_zero. rewrite GP1_pdim. intros a b Ha Hb.
    change (coordq a (mat_apply M P)) with (coord a (mat_apply M P)).
    change (coordq b (mat_apply M P)) with (coord b (mat_apply M P)).
    rewrite (GU4_coord a Ha), (GU4_coord b Hb).
    apply (GU4_err T E HS); rewrite coord_length; exact HPl.
  Qed.

  (* c_update on the refined curve returns the original control points *)
  Theorem Gc_update_undo tol c2 :
    c_update (mkcurve kf (Some (mat_apply M P)) None) knew tol (knots_opt knew) = Ok c2 ->
    exists P2, cP c2 = Some P2 /\ Forall2 (Forall2 Qeq) P2 P /\ cW c2 = None
               /\ kv_eqb (ckv c2) knew = true.
  Proof using All.
    intro H. pose proof (c_update_kv _ _ _ _ _ H) as KV. revert H.
    unfold c_update. cbn [ckv cP cW]. rewrite Hne, Hlim. cbn [negb]. unfold c_fit_curve. cbn [cW cP ckv].
    destruct (spline2spline kf knew (knots_opt knew)) as [[T E]|] eqn:HS; cbn [bind]; [|intro H; discriminate].
    assert (G : forall c', Ok (mkcurve knew (Some (mat_apply T (mat_apply M P))) None) = Ok c' ->
                exists P2, cP c' = Some P2 /\ Forall2 (Forall2 Qeq) P2 P /\ cW c' = None).
    { intros c' H. inversion H; subst c'. exists (mat_apply T (mat_apply M P)). cbn [cP cW].
      split; [reflexivity|]. split; [exact (GU4_points T E HS)|reflexivity]. }
    destruct tol as [t|].
    + destruct (negb (Qeqb t 0) && Qltb t (fit_error E (mat_apply M P))); [intro H; discriminate|].
      intro H. destruct (G c2 H) as (P2 & A & B & C). exists P2. repeat split; assumption.
    + intro H. destruct (G c2 H) as (P2 & A & B & C). exists P2. repeat split; assumption.
  Qed.

  (* success: as soon as the certified inverses succeed, the tolerance guard passes for every t >= 0 *)
  Theorem Gc_update_undo_succeeds t T E : 0 <= t ->
    spline2spline kf knew (knots_opt knew) = Ok (T, E) ->
    exists c2, c_update (mkcurve kf (Some (mat_apply M P)) None) knew (Some t) (knots_opt knew) = Ok c2.
  Proof using All.
    intros Ht HS. unfold c_update. cbn [ckv cP cW]. rewrite Hne, Hlim. cbn [negb].
    unfold c_fit_curve. cbn [cW cP ckv]. rewrite HS. cbn [bind].
    assert (G : Qltb t (fit_error E (mat_apply M P)) = false)
      by (rewrite (GU4_fit_error T E HS); apply Qltb_ge; exact Ht).
    rewrite G, andb_false_r. eexists. reflexivity.
  Qed.
End GenericCurve.

(* ------------------------------------------------------------------ *)
(* G2. Bezier: knot vectors                                              *)
(* ------------------------------------------------------------------ *)
Import BezierProofs.

Lemma count_q_repeat_list z l : forall t, count_q z (repeat_list t l) = (t * count_q z l)%nat.
Proof.
  unfold repeat_list. induction t as [|t IH]; cbn [repeat concat]; [reflexivity|].
  rewrite count_q_app, IH. lia.
Qed.

Lemma slice2 : forall (l : list Q) p, (p + 2 <= length l)%nat ->
  firstn 2 (skipn p l) = [nth p l 0; nth (S p) l 0].
Proof.
  induction l as [|x l IH]; intros p H; [cbn in H; lia|].
  destruct p as [|p].
  - destruct l as [|y l]; [cbn in H; lia|]. reflexivity.
  - cbn [skipn]. change (nth (S p) (x :: l) 0) with (nth p l 0).
    change (nth (S (S p)) (x :: l) 0) with (nth (S p) l 0). apply IH. cbn [length] in H. lia.
Qed.

Lemma kknots_two k x y : length (kvec k) = (2 * kdeg k + 2)%nat ->
  nth (kdeg k) (kvec k) 0 = x -> nth (S (kdeg k)) (kvec k) 0 = y -> x <= y ->
  kknots k = if Qltb (Qabs (y - x)) tol_unique then [x] else [x; y].
Proof.
  intros HL Hx Hy Hxy. unfold kknots, slice, knpts. rewrite HL.
  replace (2 * kdeg k + 2 - kdeg k - 1 + 1 - kdeg k)%nat with 2%nat by lia.
  rewrite slice2 by lia. rewrite Hx, Hy.
  unfold get_unique. cbn [get_unique_aux existsb app]. rewrite orb_false_r.
  destruct (Qltb (Qabs (y - x)) tol_unique); cbn [get_unique_aux sortq insq]; [reflexivity|].
  assert (E : Qleb x y = true) by (apply Qleb_le; exact Hxy). rewrite E. reflexivity.
Qed.

(* 1 if the two ends are far enough apart for __get_unique to keep both, 0 otherwise *)
Definition bez_e (a b : Q) : nat := if Qltb (Qabs (b - a)) tol_unique then 0%nat else 1%nat.

Lemma bez_e_le a b : (bez_e a b <= 1)%nat.
Proof. unfold bez_e. destruct (Qltb _ _); lia. Qed.

Lemma kknots_bez_counts k q a b : Forall2 Qeq (kvec k) (bez q a b) -> kdeg k = q -> a < b ->
  forall z, count_q z (kknots k) = ((if Qeqb z a then 1 else 0) + (if Qeqb z b then bez_e a b else 0))%nat.
Proof.
  intros HF Hq Hab.
  pose proof (InsertCompose.Forall2_Qeq_length _ _ HF) as HL. rewrite bez_length in HL.
  assert (Ex : nth q (kvec k) 0 == a).
  { rewrite <- (nthq_in_range (kvec k) q 0) by lia.
    rewrite (InsertCompose.Forall2_Qeq_nthq _ _ HF q). rewrite bez_lo by lia. reflexivity. }
  assert (Ey : nth (S q) (kvec k) 0 == b).
  { rewrite <- (nthq_in_range (kvec k) (S q) 0) by lia.
    rewrite (InsertCompose.Forall2_Qeq_nthq _ _ HF (S q)). rewrite bez_hi by lia. reflexivity. }
  rewrite (kknots_two k (nth q (kvec k) 0) (nth (S q) (kvec k) 0)); try (rewrite Hq; reflexivity);
    [|rewrite Hq; exact HL|rewrite Ex, Ey; lra].
  assert (EQ : Qltb (Qabs (nth (S q) (kvec k) 0 - nth q (kvec k) 0)) tol_unique
               = Qltb (Qabs (b - a)) tol_unique).
  { apply Qltb_proper; [|reflexivity]. apply Qabs_wd. rewrite Ex, Ey. reflexivity. }
  rewrite EQ. unfold bez_e. intro z.
  destruct (Qltb (Qabs (b - a)) tol_unique);
    rewrite ?count_q_cons, count_q_nil;
    rewrite ?(Qeqb_proper z z (Qeq_refl z) _ _ Ex), ?(Qeqb_proper z z (Qeq_refl z) _ _ Ey);
    destruct (Qeqb z a), (Qeqb z b); reflexivity.
Qed.

(* a well-formed vector with only two values is a Bezier vector *)
Lemma wf_two_valued v d a b na nb : WF v d -> a < b ->
  (forall z, count_q z v = ((if Qeqb z a then na else 0) + (if Qeqb z b then nb else 0))%nat) ->
  na = (d + 1)%nat /\ nb = (d + 1)%nat /\ Forall2 Qeq v (bez d a b).
Proof.
  intros W Hab Hc. destruct (wf_parts _ _ W) as (Hs & Hl & Hf & Hla).
  pose proof (UnionProofs.wf_first_ne_last _ _ W) as Hlt.
  rewrite Hc in Hf, Hla.
  assert (N : na = (d + 1)%nat /\ nb = (d + 1)%nat).
  { destruct (Qeqb_spec (first_q v) a), (Qeqb_spec (first_q v) b),
      (Qeqb_spec (last_q v) a), (Qeqb_spec (last_q v) b); try (exfalso; lra); lia. }
  destruct N as [N1 N2]. split; [exact N1|]. split; [exact N2|].
  apply sorted_counts_Forall2; [exact Hs|apply bez_sorted_repeat_app; lra|].
  intro y. rewrite Hc, count_q_bez, N1, N2. reflexivity.
Qed.

Lemma bez_kinsert k p a b t kf : Forall2 Qeq (kvec k) (bez p a b) -> kdeg k = p -> a < b -> (0 < t)%nat ->
  kinsert k (repeat_list t (kknots k)) = Ok kf ->
  kdeg kf = (p + t)%nat /\ Forall2 Qeq (kvec kf) (bez (p + t) a b) /\ bez_e a b = 1%nat.
Proof.
  intros HF Hp Hab Ht Hk.
  pose proof (kknots_bez_counts k p a b HF Hp Hab) as Hc. pose proof (bez_e_le a b) as He.
  destruct (kinsert_vec _ _ _ Hk) as [Ev _]. pose proof (kinsert_wf _ _ _ Hk) as W.
  destruct (wf_two_valued (kvec kf) (kdeg kf) a b (p + 1 + t) (p + 1 + t * bez_e a b) W Hab) as (N1 & N2 & F).
  { intro z. rewrite Ev, (count_q_perm _ _ _ (sortq_perm _)), count_q_app, count_q_repeat_list, Hc.
    rewrite (F2Q_count _ _ z HF), count_q_bez. destruct (Qeqb z a), (Qeqb z b); lia. }
  assert (D : kdeg kf = (p + t)%nat) by lia.
  split; [exact D|]. split; [rewrite <- D; exact F|].
  assert (E01 : bez_e a b = 0%nat \/ bez_e a b = 1%nat) by lia.
  destruct E01 as [E01|E01]; [rewrite E01 in N2; lia|exact E01].
Qed.

Lemma bez_kset_degree_lower kf p a b t knew :
  Forall2 Qeq (kvec kf) (bez (p + t) a b) -> kdeg kf = (p + t)%nat -> a < b -> (0 < t)%nat ->
  kset_degree kf (kdeg kf - t) = Ok knew ->
  kdeg knew = p /\ Forall2 Qeq (kvec knew) (bez p a b) /\ WF (kvec knew) (kdeg knew).
Proof.
  intros HF Hp Hab Ht Hk.
  pose proof (kknots_bez_counts kf (p + t) a b HF Hp Hab) as Hc. pose proof (bez_e_le a b) as He.
  unfold kset_degree in Hk.
  assert (E1 : (kdeg kf - t <? kdeg kf)%nat = true) by (apply Nat.ltb_lt; lia).
  rewrite E1 in Hk. replace (kdeg kf - (kdeg kf - t))%nat with t in Hk by lia.
  destruct (kremove_spec _ _ _ Hk) as [R W].
  destruct (wf_two_valued (kvec knew) (kdeg knew) a b (p + 1) (p + t + 1 - t * bez_e a b) W Hab) as (N1 & N2 & F).
  { intro z. pose proof (count_q_remove_all z _ _ _ R) as C.
    rewrite count_q_repeat_list, Hc, (F2Q_count _ _ z HF), count_q_bez in C.
    assert (E01 : bez_e a b = 0%nat \/ bez_e a b = 1%nat) by lia.
    destruct E01 as [E01|E01]; rewrite E01 in *; destruct (Qeqb z a), (Qeqb z b); lia. }
  assert (D : kdeg knew = p) by lia.
  split; [exact D|]. split; [rewrite <- D; exact F|exact W].

Qed.

Lemma bez_knpts k q a b : Forall2 Qeq (kvec k) (bez q a b) -> kdeg k = q -> knpts k = (q + 1)%nat.
Proof.
  intros HF Hq. unfold knpts. rewrite (InsertCompose.Forall2_Qeq_length _ _ HF), bez_length, Hq. lia.
Qed.

Lemma bez_limits k q a b : Forall2 Qeq (kvec k) (bez q a b) -> kdeg k = q -> kumin k == a /\ kumax k == b.
Proof.
  intros HF Hq. rewrite kumin_umin, kumax_umax, Hq. split.
  - unfold umin_of. rewrite (InsertCompose.Forall2_Qeq_nthq _ _ HF q). rewrite bez_lo by lia. reflexivity.
  - unfold umax_of. rewrite (InsertCompose.Forall2_Qeq_length _ _ HF).
    rewrite (InsertCompose.Forall2_Qeq_nthq _ _ HF). fold (umax_of (bez q a b) q). rewrite umax_bez. reflexivity.
Qed.

Lemma degree_increase_bezier_loop_length : forall t p acc, length acc = S p ->
  length (degree_increase_bezier_loop t p acc) = S (p + t).
Proof.
  induction t as [|t IH]; intros p acc H; cbn [degree_increase_bezier_loop].
  - rewrite H. f_equal. lia.
  - rewrite (IH (S p)); [f_equal; lia|]. rewrite mmul_length. apply elev_matrix_length.
Qed.

Lemma degree_increase_bezier_length p t : length (degree_increase_bezier p t) = (p + t + 1)%nat.
Proof.
  unfold degree_increase_bezier. rewrite (degree_increase_bezier_loop_length t p); [lia|].
  rewrite ident_length. lia.
Qed.

(* everything the generic theorems need, for a Bezier vector k (degree p on [a,b]), its elevation kf
   and the vector knew the degree setter gives back *)
Lemma bez_setting k p a b t kf knew :
  Forall2 Qeq (kvec k) (bez p a b) -> kdeg k = p -> a < b -> (0 < t)%nat ->
  kinsert k (repeat_list t (kknots k)) = Ok kf ->
  kset_degree kf (kdeg kf - t) = Ok knew ->
  let M := degree_increase_bezier p t in
  WF (kvec kf) (kdeg kf) /\ WF (kvec knew) (kdeg knew) /\ length M = knpts kf /\
  (forall P u, length P = knpts knew -> in_range (kvec knew) (kdeg knew) u = true ->
     curve_spec1 (kvec kf) (kdeg kf) (mvec M P) u == curve_spec1 (kvec knew) (kdeg knew) P u) /\
  limits_eqb kf knew = true /\ kv_eqb knew kf = false /\
  knpts knew = (p + 1)%nat /\ kdeg knew = p /\ Forall2 Qeq (kvec knew) (bez p a b).
Proof.
  intros HF Hp Hab Ht Hk Hs M.
  destruct (bez_kinsert k p a b t kf HF Hp Hab Ht Hk) as (Dkf & Fkf & _).
  destruct (bez_kset_degree_lower kf p a b t knew Fkf Dkf Hab Ht Hs) as (Dn & Fn & Wn).
  pose proof (bez_knpts knew p a b Fn Dn) as Nn.
  split; [exact (kinsert_wf _ _ _ Hk)|]. split; [exact Wn|].
  split; [unfold M; rewrite degree_increase_bezier_length, (bez_knpts kf (p + t) a b Fkf Dkf); reflexivity|].
  split.
  { intros P u HP Hu. rewrite Dkf, Dn.
    rewrite (curve_spec1_knots_proper _ _ _ _ _ Fkf), (curve_spec1_knots_proper _ _ _ _ _ Fn).
    apply bezier_elevate_many; [exact Hab|rewrite HP; exact Nn|].
    rewrite <- (in_range_knots_proper _ _ p u Fn), <- Dn. exact Hu. }
  split.
  { destruct (bez_limits kf (p + t) a b Fkf Dkf) as [A1 B1]. destruct (bez_limits knew p a b Fn Dn) as [A2 B2].
    unfold limits_eqb. apply andb_true_iff. split; apply Qeqb_eq; [rewrite A1, A2|rewrite B1, B2]; reflexivity. }
  split.
  { unfold kv_eqb. assert (E : (kdeg knew =? kdeg kf)%nat = false) by (apply Nat.eqb_neq; lia).
    rewrite E. apply andb_false_r. }
  split; [exact Nn|]. split; [exact Dn|exact Fn].
Qed.

(* the degree setter always succeeds on an elevated Bezier vector *)
Theorem bez_kset_degree_succeeds k p a b t kf :
  Forall2 Qeq (kvec k) (bez p a b) -> kdeg k = p -> a < b -> (0 < t)%nat ->
  kinsert k (repeat_list t (kknots k)) = Ok kf ->
  exists knew, kset_degree kf (kdeg kf - t) = Ok knew.
Proof.
  intros HF Hp Hab Ht Hk.
  destruct (bez_kinsert k p a b t kf HF Hp Hab Ht Hk) as (Dkf & Fkf & E1).
  pose proof (kknots_bez_counts kf (p + t) a b Fkf Dkf Hab) as Hc. rewrite E1 in Hc.
  pose proof (kinsert_wf _ _ _ Hk) as Wf.
  destruct (remove_all_some (repeat_list t (kknots kf)) (kvec kf)) as [l R].
  { intro z. rewrite count_q_repeat_list, Hc, (F2Q_count _ _ z Fkf), count_q_bez.
    destruct (Qeqb z a), (Qeqb z b); lia. }
  assert (Hs : sorted_b l = true)
    by (apply (remove_all_sorted (repeat_list t (kknots kf)) (kvec kf) l); [apply (wf_parts _ _ Wf)|exact R]).
  assert (HFl : Forall2 Qeq l (bez p a b)).
  { apply sorted_counts_Forall2; [exact Hs|apply bez_sorted_repeat_app; lra|].
    intro z. pose proof (count_q_remove_all z _ _ _ R) as C.
    rewrite count_q_repeat_list, Hc, (F2Q_count _ _ z Fkf), !count_q_bez in *.
    destruct (Qeqb z a), (Qeqb z b); lia. }
  pose proof (wf_Forall2 _ _ l (bez_WF p a b Hab) HFl Hs) as Wl.
  unfold kset_degree.
  assert (E2 : (kdeg kf - t <? kdeg kf)%nat = true) by (apply Nat.ltb_lt; lia).
  rewrite E2. replace (kdeg kf - (kdeg kf - t))%nat with t by lia.
  unfold kremove. rewrite R. unfold make. rewrite (UnionProofs.wf_is_valid l _ Wl).
  eexists. reflexivity.
Qed.

(* ------------------------------------------------------------------ *)
(* G2. Bezier: curves                                                    *)
(* ------------------------------------------------------------------ *)
Lemma c_degree_increase_bezier_poly c (P : list pt) t c1 p :
  cW c = None -> cP c = Some P -> kdeg (ckv c) = p -> knpts (ckv c) = (p + 1)%nat ->
  c_degree_increase c t = Ok c1 ->
  (0 < t)%nat /\ exists kf, kinsert (ckv c) (repeat_list t (kknots (ckv c))) = Ok kf /\
    c1 = mkcurve kf (Some (mat_apply (degree_increase_bezier p t) P)) None.
Proof.
  intros HW HP Hp Hn. unfold c_degree_increase.
  destruct (Nat.eqb_spec t 0) as [E0|E0]; [intro H; discriminate|].
  destruct (kinsert (ckv c) (repeat_list t (kknots (ckv c)))) as [kf|]; cbn [bind]; [|intro H; discriminate].
  unfold op_degree_increase. cbv zeta.
  destruct (Nat.eqb_spec t 0) as [E0'|_]; [contradiction|].
  rewrite Hp, Hn, Nat.eqb_refl. cbn [bind].
  unfold apply_matrix. rewrite HP, HW.
  destruct (negb (length (degree_increase_bezier p t) =? knpts kf)%nat); [intro H; discriminate|].
  cbn [option_map]. intro H. inversion H. split; [lia|]. exists kf. split; reflexivity.
Qed.

(* G2: lowering the degree of a Bezier curve by t after raising it by t gives back the control points
   (exactly, up to ==), the knots (up to ==) and the degree *)
Theorem degree_decrease_undoes_degree_increase c (P : list pt) d p a b t c1 c2 tol :
  cW c = None -> cP c = Some P ->
  Forall2 Qeq (kvec (ckv c)) (bez p a b) -> cdeg c = p -> a < b ->
  length P = cnpts c -> Forall (fun q : pt => length q = d) P ->
  c_degree_increase c t = Ok c1 ->
  c_degree_decrease c1 t tol = Ok c2 ->
  exists P2, cP c2 = Some P2 /\ Forall2 (Forall2 Qeq) P2 P /\ cW c2 = None /\
             Forall2 Qeq (kvec (ckv c2)) (kvec (ckv c)) /\ kdeg (ckv c2) = cdeg c.
Proof.
  intros HW HP HF Hp Hab HPl HPd H1 H2. unfold cdeg, cnpts in *.
  pose proof (bez_knpts (ckv c) p a b HF Hp) as Hn.
  destruct (c_degree_increase_bezier_poly c P t c1 p HW HP Hp Hn H1) as (Ht & kf & Hk & E1).
  rewrite E1 in H2. unfold c_degree_decrease in H2. cbn [ckv] in H2.
  destruct (bez_kinsert (ckv c) p a b t kf HF Hp Hab Ht Hk) as (Dkf & _).
  destruct (Nat.eqb_spec t 0) as [E0|_]; [lia|].
  destruct (Nat.ltb_spec (kdeg kf) t) as [L|_]; [lia|].
  destruct (kset_degree kf (kdeg kf - t)) as [knew|] eqn:Hs; cbn [bind] in H2; [|discriminate].
  destruct (bez_setting (ckv c) p a b t kf knew HF Hp Hab Ht Hk Hs)
    as (Wf & Wn & LM & HC & Hlim & Hne & Nn & Dn & Fn).
  assert (HPl' : length P = knpts knew) by (rewrite Nn, <- Hn; exact HPl).
  destruct (Gc_update_undo kf knew (degree_increase_bezier p t) Wf Wn LM HC Hlim Hne P d HPl' HPd tol c2 H2)
    as (P2 & A & B & C & KV).
  exists P2. repeat (split; [assumption|]).
  unfold kv_eqb in KV. apply andb_true_iff in KV. destruct KV as [K1 K2].
  apply ql_eqb_Forall2 in K1. apply Nat.eqb_eq in K2. split.
  - exact (veq_trans _ _ _ K1 (veq_trans _ _ _ Fn (veq_sym _ _ HF))).
  - congruence.
Qed.

(* G2, acceptance: the error functional of the projection is exactly 0 on the elevated curve ... *)
Theorem degree_decrease_after_increase_error_zero c (P : list pt) d p a b t c1 knew T E :
  cW c = None -> cP c = Some P ->
  Forall2 Qeq (kvec (ckv c)) (bez p a b) -> cdeg c = p -> a < b ->
  length P = cnpts c -> Forall (fun q : pt => length q = d) P ->
  c_degree_increase c t = Ok c1 ->
  kset_degree (ckv c1) (kdeg (ckv c1) - t) = Ok knew ->
  spline2spline (ckv c1) knew (knots_opt knew) = Ok (T, E) ->
  exists P1, cP c1 = Some P1 /\ fit_error E P1 == 0.
Proof.
  intros HW HP HF Hp Hab HPl HPd H1 Hs HS. unfold cdeg, cnpts in *.
  pose proof (bez_knpts (ckv c) p a b HF Hp) as Hn.
  destruct (c_degree_increase_bezier_poly c P t c1 p HW HP Hp Hn H1) as (Ht & kf & Hk & E1).
  rewrite E1 in Hs, HS |- *. cbn [ckv cP] in *.
  destruct (bez_setting (ckv c) p a b t kf knew HF Hp Hab Ht Hk Hs)
    as (Wf & Wn & LM & HC & Hlim & Hne & Nn & Dn & Fn).
  assert (HPl' : length P = knpts knew) by (rewrite Nn, <- Hn; exact HPl).
  exists (mat_apply (degree_increase_bezier p t) P). split; [reflexivity|].
  exact (GU4_fit_error kf knew (degree_increase_bezier p t) Wf Wn LM HC P d HPl' HPd T E HS).
Qed.

(* ... so the tolerance guard of degree_decrease passes for every tolerance tl >= 0 *)
Theorem degree_decrease_after_increase_succeeds c (P : list pt) d p a b t c1 knew T E tl :
  cW c = None -> cP c = Some P ->
  Forall2 Qeq (kvec (ckv c)) (bez p a b) -> cdeg c = p -> a < b ->
  length P = cnpts c -> Forall (fun q : pt => length q = d) P ->
  c_degree_increase c t = Ok c1 ->
  kset_degree (ckv c1) (kdeg (ckv c1) - t) = Ok knew ->
  spline2spline (ckv c1) knew (knots_opt knew) = Ok (T, E) ->
  0 <= tl ->
  exists c2, c_degree_decrease c1 t (Some tl) = Ok c2.
Proof.
  intros HW HP HF Hp Hab HPl HPd H1 Hs HS Htl. unfold cdeg, cnpts in *.
  pose proof (bez_knpts (ckv c) p a b HF Hp) as Hn.
  destruct (c_degree_increase_bezier_poly c P t c1 p HW HP Hp Hn H1) as (Ht & kf & Hk & E1).
  rewrite E1 in Hs, HS |- *. cbn [ckv cP] in *.
  destruct (bez_setting (ckv c) p a b t kf knew HF Hp Hab Ht Hk Hs)
    as (Wf & Wn & LM & HC & Hlim & Hne & Nn & Dn & Fn).
  assert (HPl' : length P = knpts knew) by (rewrite Nn, <- Hn; exact HPl).
  destruct (bez_kinsert (ckv c) p a b t kf HF Hp Hab Ht Hk) as (Dkf & _).
  unfold c_degree_decrease. cbn [ckv].
  destruct (Nat.eqb_spec t 0) as [E0|_]; [lia|].
  destruct (Nat.ltb_spec (kdeg kf) t) as [L|_]; [lia|].
  rewrite Hs. cbn [bind].
  exact (Gc_update_undo_succeeds kf knew (degree_increase_bezier p t) Wf Wn LM HC Hlim Hne P d HPl' HPd
           tl T E Htl HS).
Qed.

(* G2, acceptance, in one statement: the degree setter succeeds, and whenever the certified inverses
   of the projection succeed the curve is returned for every tolerance tl >= 0 *)
Theorem degree_decrease_after_increase_only_uncertified c (P : list pt) d p a b t c1 :
  cW c = None -> cP c = Some P ->
  Forall2 Qeq (kvec (ckv c)) (bez p a b) -> cdeg c = p -> a < b ->
  length P = cnpts c -> Forall (fun q : pt => length q = d) P ->
  c_degree_increase c t = Ok c1 ->
  exists knew, kset_degree (ckv c1) (kdeg (ckv c1) - t) = Ok knew /\
    forall T E tl, spline2spline (ckv c1) knew (knots_opt knew) = Ok (T, E) -> 0 <= tl ->
      exists c2, c_degree_decrease c1 t (Some tl) = Ok c2.
Proof.
  intros HW HP HF Hp Hab HPl HPd H1.
  pose proof (bez_knpts (ckv c) p a b HF Hp) as Hn.
  destruct (c_degree_increase_bezier_poly c P t c1 p HW HP Hp Hn H1) as (Ht & kf & Hk & E1).
  destruct (bez_kset_degree_succeeds (ckv c) p a b t kf HF Hp Hab Ht Hk) as [knew Hs].
  exists knew. assert (Hs' : kset_degree (ckv c1) (kdeg (ckv c1) - t) = Ok knew) by (rewrite E1; exact Hs).
  split; [exact Hs'|]. intros T E tl HS Htl.
  exact (degree_decrease_after_increase_succeeds c P d p a b t c1 knew T E tl HW HP HF Hp Hab HPl HPd H1 Hs' HS Htl).
Qed.

(* ------------------------------------------------------------------ *)
(* G1, bundled as in UndoProofs.U2 / U3                                  *)
(* ------------------------------------------------------------------ *)
Section GenericPlain.
  Variables (kf kc : kv) (M : mat).
  Hypothesis Wf : WF (kvec kf) (kdeg kf).
  Hypothesis Wc : WF (kvec kc) (kdeg kc).
  Hypothesis SM : shaped (knpts kf) (knpts kc) M.
  Hypothesis HC : forall P u, length P = knpts kc -> in_range (kvec kc) (kdeg kc) u = true ->
    curve_spec1 (kvec kf) (kdeg kf) (mvec M P) u == curve_spec1 (kvec kc) (kdeg kc) P u.

  Theorem GU1 u f g : basis_row kf (kdeg kf) u = Ok f -> basis_row kc (kdeg kc) u = Ok g ->
    (forall z, length z = knpts kc -> dot f (mvec M z) == dot g z) /\
    veq g (mvec (mtrans_n (knpts kc) M) f) /\
    forall i, (i < knpts kc)%nat -> nth i g 0 == dot f (mcol i M).
  Proof using All.
    pose proof (shaped_len _ _ _ SM) as LM. intros Hf Hg. split; [|split].
    - intros z Hz. exact (GU1_dot kf kc M Wf Wc LM HC u f g z Hf Hg Hz).
    - exact (GU1_basis kf kc M Wf Wc LM HC u f g Hf Hg).
    - intros i Hi. exact (GU1_entry kf kc M Wf Wc LM HC u f g i Hf Hg Hi).
  Qed.

  Theorem GU2 T E : spline2spline kf kc None = Ok (T, E) ->
    meq (mmul_n (knpts kc) T M) (ident (knpts kc)) /\
    (forall P, length P = knpts kc -> veq (mvec T (mvec M P)) P) /\
    (forall a b, length a = knpts kc -> length b = knpts kc -> dot (mvec M a) (mvec E (mvec M b)) == 0).
  Proof using All.
    pose proof (shaped_len _ _ _ SM) as LM. intro HS. split; [|split].
    - exact (GU2_left_inverse kf kc M Wf Wc LM HC T E HS).
    - exact (GU2_vec kf kc M Wf Wc LM HC T E HS).
    - exact (GU2_error_bilinear kf kc M Wf Wc LM HC T E HS).
  Qed.

  Theorem GU3 ns T E : (0 < length ns)%nat -> spline2spline kf kc (Some ns) = Ok (T, E) ->
    (length ns <= knpts kc)%nat /\
    meq (mmul_n (knpts kc) T M) (ident (knpts kc)) /\
    (forall P, length P = knpts kc -> veq (mvec T (mvec M P)) P) /\
    (forall a b, length a = knpts kc -> length b = knpts kc -> dot (mvec M a) (mvec E (mvec M b)) == 0).
  Proof using All.
    pose proof (shaped_len _ _ _ SM) as LM. intros Hns HS.
    split; [exact (proj1 (s2s_some_unfold _ _ _ _ _ HS))|]. split; [|split].
    - exact (GU3_left_inverse kf kc M Wf Wc LM HC ns T E HS Hns).
    - exact (GU3_vec kf kc M Wf Wc LM HC ns T E HS Hns).
    - exact (GU3_error_bilinear kf kc M Wf Wc LM HC ns T E HS Hns).
  Qed.
End GenericPlain.

(* ------------------------------------------------------------------ *)
(* Example: a quadratic Bezier curve on [-1, 3/2], elevated by 2, reduced by 2 *)
(* ------------------------------------------------------------------ *)
Definition gx_k : kv := mkkv [-1; -1; -1; 3 # 2; 3 # 2; 3 # 2] 2.
Definition gx_P : list pt := [[0; 0]; [1; 2]; [3; -1]].
Definition gx_c : curve := mkcurve gx_k (Some gx_P) None.
Definition gx_c1 : curve := unwrap gx_c (c_degree_increase gx_c 2).
Definition gx_tol : option Q := Some (1 # 1000000000).
Definition gx_c2 : curve := unwrap gx_c (c_degree_decrease gx_c1 2 gx_tol).
Definition gx_M : mat := degree_increase_bezier 2 2.
Definition gx_TE : mat * mat := unwrap ([], []) (spline2spline (ckv gx_c1) gx_k (Some (kknots gx_k))).
Definition gx_TEn : mat * mat := unwrap ([], []) (spline2spline (ckv gx_c1) gx_k None).

Example gx_bez : kvec gx_k = bez 2 (-1) (3 # 2).
Proof. reflexivity. Qed.
Example gx_increase : c_degree_increase gx_c 2 = Ok gx_c1 /\ kdeg (ckv gx_c1) = 4%nat
                      /\ kvec (ckv gx_c1) = bez 4 (-1) (3 # 2).
Proof. vm_compute. repeat split; reflexivity. Qed.
Example gx_decrease : c_degree_decrease gx_c1 2 gx_tol = Ok gx_c2.
Proof. vm_compute. reflexivity. Qed.
Example gx_s2s : spline2spline (ckv gx_c1) gx_k (Some (kknots gx_k)) = Ok (fst gx_TE, snd gx_TE)
                 /\ length (kknots gx_k) = 2%nat.
Proof. vm_compute. split; reflexivity. Qed.
Example gx_s2s_none : spline2spline (ckv gx_c1) gx_k None = Ok (fst gx_TEn, snd gx_TEn).
Proof. vm_compute. reflexivity. Qed.

(* the theorems on the example *)
Example gx_undo : exists P2, cP gx_c2 = Some P2 /\ Forall2 (Forall2 Qeq) P2 gx_P /\ cW gx_c2 = None /\
  Forall2 Qeq (kvec (ckv gx_c2)) (kvec gx_k) /\ kdeg (ckv gx_c2) = 2%nat.
Proof.
  destruct gx_increase as (H1 & _).
  apply (degree_decrease_undoes_degree_increase gx_c gx_P 2 2 (-1) (3 # 2) 2 gx_c1 gx_c2 gx_tol
           eq_refl eq_refl (veq_refl _) eq_refl eq_refl eq_refl);
    [repeat constructor|exact H1|exact gx_decrease].
Qed.

(* the hypotheses of G1 hold for (kf, kc, M) = (bez 4, bez 2, elevation matrix) *)
Lemma gx_G1_hyps : WF (kvec (ckv gx_c1)) (kdeg (ckv gx_c1)) /\ WF (kvec gx_k) (kdeg gx_k) /\
  shaped (knpts (ckv gx_c1)) (knpts gx_k) gx_M /\
  forall P u, length P = knpts gx_k -> in_range (kvec gx_k) (kdeg gx_k) u = true ->
    curve_spec1 (kvec (ckv gx_c1)) (kdeg (ckv gx_c1)) (mvec gx_M P) u == curve_spec1 (kvec gx_k) (kdeg gx_k) P u.
Proof.
  destruct gx_increase as (_ & D & V).
  split; [vm_compute; reflexivity|]. split; [vm_compute; reflexivity|].
  split; [split; [reflexivity|repeat constructor]|].
  intros P u HP Hu. rewrite D, V.
  exact (bezier_elevate_many 2 2 (-1) (3 # 2) P u eq_refl HP Hu).
Qed.

Example gx_U3 : meq (mmul_n 3 (fst gx_TE) gx_M) (ident 3).
Proof.
  destruct gx_G1_hyps as (W1 & W2 & S & HC). destruct gx_s2s as [H3 H4].
  apply (GU3 (ckv gx_c1) gx_k gx_M W1 W2 S HC (kknots gx_k) (fst gx_TE) (snd gx_TE)).
  - rewrite H4. lia.
  - exact H3.
Qed.

Example gx_U2 : meq (mmul_n 3 (fst gx_TEn) gx_M) (ident 3).
Proof.
  destruct gx_G1_hyps as (W1 & W2 & S & HC).
  apply (GU2 (ckv gx_c1) gx_k gx_M W1 W2 S HC (fst gx_TEn) (snd gx_TEn) gx_s2s_none).
Qed.

(* direct check, independent of the theorems *)
Example gx_direct : match cP gx_c2 with Some P2 => ptl_eqb P2 gx_P | None => false end = true.
Proof. vm_compute. reflexivity. Qed.

Print Assumptions GU1_dot.
Print Assumptions GU1_basis.
Print Assumptions GU2_left_inverse.
Print Assumptions GU2_error_bilinear.
Print Assumptions GU3_left_inverse.
Print Assumptions GU3_error_bilinear.
Print Assumptions GU1.
Print Assumptions GU2.
Print Assumptions GU3.
Print Assumptions GU4_fit_error.
Print Assumptions Gc_update_undo.
Print Assumptions Gc_update_undo_succeeds.
Print Assumptions bez_kinsert.
Print Assumptions bez_kset_degree_lower.
Print Assumptions bez_kset_degree_succeeds.
Print Assumptions degree_decrease_undoes_degree_increase.
Print Assumptions degree_decrease_after_increase_error_zero.
Print Assumptions degree_decrease_after_increase_succeeds.
Print Assumptions degree_decrease_after_increase_only_uncertified.
Print Assumptions gx_undo.
