(* Curve equality (model of BaseCurve.__eq__): what a True / False answer means. *)
From Coq Require Import QArith List Bool Arith Lia.
From NurbsV Require Import Base.Res Base.QList Spec.KnotSpec Gen.Consts Model.KV Model.Basis Model.CurveM Model.Ops
  Model.CurveOps Model.Linalg Model.Quadrature Model.LeastSq Model.CurveLS.
Import ListNotations.
Open Scope Q_scope.

Theorem c_eq_different_start a b :
  ~ first_q (kvec (ckv a)) == first_q (kvec (ckv b)) -> c_eq a b = Ok false.
Proof. intro H. unfold c_eq. apply Qeqb_neq in H. rewrite H. reflexivity. Qed.

Theorem c_eq_different_end a b :
  ~ last_q (kvec (ckv a)) == last_q (kvec (ckv b)) -> c_eq a b = Ok false.
Proof.
  intro H. unfold c_eq. apply Qeqb_neq in H. rewrite H.
  destruct (negb (Qeqb (first_q (kvec (ckv a))) (first_q (kvec (ckv b))))); reflexivity.
Qed.

(* a True answer certifies: both operands were projected onto the union knot vector within the update
   tolerance, and the projected control points are pairwise within 1e-9 (squared distance <= tol^2) *)
Theorem c_eq_true_certificate a b :
  c_eq a b = Ok true ->
  exists kn a' b' Pa Pb,
    kor (ckv a) (ckv b) = Ok kn
    /\ c_update a kn (Some tol_update) None = Ok a' /\ c_update b kn (Some tol_update) None = Ok b'
    /\ cP a' = Some Pa /\ cP b' = Some Pb
    /\ forall pq, In pq (combine Pa Pb) -> pt_dist2 (fst pq) (snd pq) <= tol_eq * tol_eq.
Proof.
  unfold c_eq.
  destruct (negb (Qeqb (first_q (kvec (ckv a))) (first_q (kvec (ckv b))))); [intro; discriminate|].
  destruct (negb (Qeqb (last_q (kvec (ckv a))) (last_q (kvec (ckv b))))); [intro; discriminate|].
  destruct (cP a) as [Pa0|] eqn:EA, (cP b) as [Pb0|] eqn:EB; try (intro; discriminate).
  destruct (kor (ckv a) (ckv b)) as [kn|] eqn:EK; cbn [bind]; [|intro; discriminate].
  destruct (c_update a kn (Some tol_update) None) as [a'|] eqn:UA; cbn [bind]; [|intro; discriminate].
  destruct (c_update b kn (Some tol_update) None) as [b'|] eqn:UB; cbn [bind]; [|intro; discriminate].
  destruct (cP a') as [Pa|] eqn:PA, (cP b') as [Pb|] eqn:PB; try (intro; discriminate).
  intro H. injection H as H1. exists kn, a', b', Pa, Pb.
  do 5 (split; [first [reflexivity | assumption]|]).
  intros pq Hin. rewrite forallb_forall in H1. specialize (H1 pq Hin).
  apply negb_true_iff in H1. apply Qltb_ge in H1. exact H1.
Qed.

(* the answer only depends on the projected control points: a False answer exhibits a pair further apart *)
Theorem c_eq_false_witness a b kn a' b' Pa Pb :
  Qeqb (first_q (kvec (ckv a))) (first_q (kvec (ckv b))) = true ->
  Qeqb (last_q (kvec (ckv a))) (last_q (kvec (ckv b))) = true ->
  cP a <> None -> cP b <> None ->
  kor (ckv a) (ckv b) = Ok kn ->
  c_update a kn (Some tol_update) None = Ok a' -> c_update b kn (Some tol_update) None = Ok b' ->
  cP a' = Some Pa -> cP b' = Some Pb ->
  c_eq a b = Ok false ->
  exists pq, In pq (combine Pa Pb) /\ tol_eq * tol_eq < pt_dist2 (fst pq) (snd pq).
Proof.
  intros F L NA NB EK UA UB PA PB. unfold c_eq. rewrite F, L. cbn [negb].
  destruct (cP a) as [Pa0|]; [|contradiction]. destruct (cP b) as [Pb0|]; [|contradiction].
  rewrite EK. cbn [bind]. rewrite UA. cbn [bind]. rewrite UB. cbn [bind]. rewrite PA, PB.
  intro H. injection H as H1.
  assert (E : exists pq, In pq (combine Pa Pb) /\
            negb (Qltb (tol_eq * tol_eq) (pt_dist2 (fst pq) (snd pq))) = false).
  { clear - H1. induction (combine Pa Pb) as [|x l IH]; cbn in H1; [discriminate|].
    apply andb_false_iff in H1. destruct H1 as [H1|H1].
    - exists x. split; [left; reflexivity | exact H1].
    - destruct (IH H1) as (pq & I & E). exists pq. split; [right; exact I | exact E]. }
  destruct E as (pq & I & E). exists pq. split; [exact I|].
  apply negb_false_iff in E. apply Qltb_lt in E. exact E.
Qed.
