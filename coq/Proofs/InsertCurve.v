(* L4: Curve.knot_insert preserves the curve (polynomial and rational). *)
From Coq Require Import QArith List Lia Lqa Arith Bool Setoid Morphisms.
From NurbsV Require Import Base.QList Base.Res Spec.BSpline Spec.KnotSpec Model.KV Model.Basis
  Model.CurveM Model.Ops Model.CurveOps
  Proofs.Local Proofs.Table Proofs.BasisTheory Proofs.KVProofs Proofs.EvalProofs
  Proofs.InsertSeq Proofs.InsertList Proofs.InsertCompose.
Import ListNotations.
Open Scope Q_scope.

(* ------------------------------------------------------------------ *)
(* A. mat_apply, coordinate by coordinate                              *)
(* ------------------------------------------------------------------ *)
Lemma pdim_Forall (P : list (list Q)) d : P <> [] -> Forall (fun pt : list Q => length pt = d) P -> pdim P = d.
Proof. destruct P as [|a P]; [congruence|]. intros _ H. inversion H; subst. reflexivity. Qed.

Lemma mat_apply_length M P : length (mat_apply M P) = length M.
Proof. apply map_length. Qed.

Lemma mat_apply_dims M (P : list (list Q)) d :
  Forall (fun pt : list Q => length pt = d) P -> pdim P = d ->
  Forall (fun pt : list Q => length pt = d) (mat_apply M P).
Proof.
  intros HP Hd. unfold mat_apply. rewrite Hd. apply Forall_forall. intros q Hq.
  apply in_map_iff in Hq. destruct Hq as (r & E & _). rewrite <- E.
  apply lincomb_length. exact HP.
Qed.

Lemma map2_map_r {A B C D} (f : A -> C -> D) (g : B -> C) : forall (a : list A) (b : list B),
  map2 f a (map g b) = map2 (fun x y => f x (g y)) a b.
Proof.
  induction a as [|x a IH]; intros [|y b]; cbn [map map2]; try reflexivity.
  rewrite IH. reflexivity.
Qed.

Lemma coord_mat_apply M (P : list (list Q)) d kk :
  (kk < d)%nat -> Forall (fun pt : list Q => length pt = d) P -> pdim P = d ->
  nth_eq (coord kk (mat_apply M P)) (mvec M (coord kk P)).
Proof.
  intros Hk HP Hd i. rewrite coord_nth.
  destruct (le_lt_dec (length M) i) as [L|L].
  - rewrite (nth_overflow (mat_apply M P)) by (rewrite mat_apply_length; exact L).
    rewrite (nth_overflow (mvec M _)) by (rewrite mvec_length; exact L).
    destruct kk; reflexivity.
  - unfold mat_apply. rewrite (nth_map_in (fun r => lincomb (pdim P) r P) [] []) by exact L.
    rewrite Hd. rewrite (lincomb_nth d kk Hk _ P HP).
    rewrite mvec_nth, dot_correct. unfold coord. rewrite map2_map_r. reflexivity.
Qed.

(* ------------------------------------------------------------------ *)
(* B. polynomial curves                                                *)
(* ------------------------------------------------------------------ *)
Section Core.
Variable k : kv.
Variable nodes : list Q.
Variable M : mat.
Variable k' : kv.
Hypothesis W : WF (kvec k) (kdeg k).
Hypothesis HM : knot_insert k nodes = Ok M.
Hypothesis Hk : kinsert k nodes = Ok k'.
Hypothesis Hd : kdeg k' = kdeg k.
Variable d : nat.
Variable u : Q.
Hypothesis Hu : in_range (kvec k) (kdeg k) u = true.

Lemma coord_insert (P : list (list Q)) kk :
  length P = knpts k -> Forall (fun pt : list Q => length pt = d) P -> (kk < d)%nat ->
  curve_spec1 (kvec k') (kdeg k) (coord kk (mat_apply M P)) u
  == curve_spec1 (kvec k) (kdeg k) (coord kk P) u.
Proof.
  intros HL HP Hkk.
  assert (Hne : P <> []).
  { pose proof (wf_knpts_pos k W). destruct P; [cbn in HL; lia | discriminate]. }
  pose proof (pdim_Forall P d Hne HP) as Hpd.
  rewrite (curve_spec1_ext _ _ _ _ u (coord_mat_apply M P d kk Hkk HP Hpd)).
  destruct (knot_insert_curve k nodes M k' W HM Hk Hd) as [_ C].
  apply C; [rewrite coord_length; exact HL | exact Hu].
Qed.

Theorem mat_apply_curve (P : list (list Q)) :
  length P = knpts k -> Forall (fun pt : list Q => length pt = d) P ->
  Forall2 Qeq (curve_spec (kvec k') (kdeg k) d (mat_apply M P) u)
              (curve_spec (kvec k) (kdeg k) d P u).
Proof.
  intros HL HP. unfold curve_spec. apply Forall2_Qeq_nth.
  - rewrite !map_length. reflexivity.
  - rewrite map_length, seq_length. intros kk Hkk.
    rewrite !nth_map_seq by exact Hkk. apply coord_insert; assumption.
Qed.

(* ------------------------------------------------------------------ *)
(* C. rational curves                                                  *)
(* ------------------------------------------------------------------ *)
Lemma coord_map2_vscale (f : Q -> Q) kk : forall (Wl : list Q) (Pl : list (list Q)) i,
  length Wl = length Pl -> Forall (fun pt : list Q => length pt = d) Pl -> (kk < d)%nat ->
  nth i (coord kk (map2 (fun w p => vscale (f w) p) Wl Pl)) 0
  == (if (i <? length Pl)%nat then f (nth i Wl 0) * nth kk (nth i Pl []) 0 else 0).
Proof.
  intros Wl Pl i HL HP Hkk. rewrite coord_nth.
  destruct (Nat.ltb_spec i (length Pl)) as [L|L].
    unfold pt in *.   - rewrite (nth_map2 _ 0 [] []) by lia.
    unfold vscale.
    assert (Hlen : length (nth i Pl []) = d) by (apply (proj1 (Forall_nth _ Pl) HP i [] L)).
    rewrite (nth_map_in _ 0 0) by lia. apply Qred_correct.
  - unfold pt in *. rewrite (nth_overflow (map2 (fun w p => vscale (f w) p) Wl Pl) [])
      by (rewrite map2_length; lia).
    destruct kk; reflexivity.
Qed.

Lemma wscale_dims (Wl : list Q) (Pl : list (list Q)) :
  Forall (fun pt : list Q => length pt = d) Pl ->
  Forall (fun pt : list Q => length pt = d) (wscale Wl Pl).
Proof.
  intro HP. revert Wl. induction HP as [|a Pl Ha HP IH]; intros [|w Wl]; cbn [wscale map2];
    try constructor.
  - unfold vscale. rewrite map_length. exact Ha.
  - apply IH.
Qed.

Lemma wscale_length (Wl : list Q) (Pl : list (list Q)) : length Wl = length Pl ->
  length (wscale Wl Pl) = length Pl.
Proof. intro H. unfold wscale. rewrite map2_length, H. apply Nat.min_id. Qed.

Lemma coord_wscale (Wl : list Q) (Pl : list (list Q)) kk :
  length Wl = length Pl -> Forall (fun pt : list Q => length pt = d) Pl -> (kk < d)%nat ->
  nth_eq (map2 (fun w x => w * x) Wl (coord kk Pl)) (coord kk (wscale Wl Pl)).
Proof.
  intros HL HP Hkk i. unfold wscale. unfold pt in *.
  rewrite (coord_map2_vscale (fun w => w) kk Wl Pl i HL HP Hkk).
  destruct (Nat.ltb_spec i (length Pl)) as [L|L].
  - rewrite (nth_map2 _ 0 0 0) by (rewrite ?coord_length; lia).
    rewrite coord_nth. reflexivity.
  - rewrite nth_overflow by (rewrite map2_length, coord_length; lia). reflexivity.
Qed.

Lemma coord_wunscale (Wl : list Q) (Ql : list (list Q)) kk :
  length Wl = length Ql -> Forall (fun pt : list Q => length pt = d) Ql -> (kk < d)%nat ->
  existsb (fun w => Qeqb w 0) Wl = false ->
  nth_eq (map2 (fun w x => w * x) Wl (coord kk (wunscale Wl Ql))) (coord kk Ql).
Proof.
  intros HL HP Hkk Hnz i. unfold pt in *.
  destruct (Nat.ltb_spec i (length Ql)) as [L|L].
  - rewrite (nth_map2 _ 0 0 0);
      [| lia | rewrite coord_length; unfold wunscale; rewrite map2_length; unfold pt in *; lia].
    unfold wunscale.
    rewrite (coord_map2_vscale (fun w => / w) kk Wl Ql i HL HP Hkk).
    destruct (Nat.ltb_spec i (length Ql)); [|lia].
    rewrite coord_nth.
    assert (Hw : ~ nth i Wl 0 == 0).
    { pose proof (existsb_nth (fun w => Qeqb w 0) Wl (n := i) 0 ltac:(lia) Hnz) as K.
      cbv beta in K. apply Qeqb_neq in K. exact K. }
    field. exact Hw.
  - rewrite nth_overflow
      by (rewrite map2_length, coord_length; unfold wunscale; rewrite map2_length; unfold pt in *; lia).
    rewrite nth_overflow by (rewrite coord_length; lia). reflexivity.
Qed.

Theorem apply_rational_curve (Wt : list Q) (P : list (list Q)) :
  length P = knpts k -> length Wt = knpts k -> Forall (fun pt : list Q => length pt = d) P ->
  existsb (fun w => Qeqb w 0) (mvec M Wt) = false ->
  Forall2 Qeq
    (rational_spec (kvec k') (kdeg k) d (mvec M Wt)
       (wunscale (mvec M Wt) (mat_apply M (wscale Wt P))) u)
    (rational_spec (kvec k) (kdeg k) d Wt P u).
Proof.
  intros HL HWl HP Hnz.
  destruct (knot_insert_curve k nodes M k' W HM Hk Hd) as [LM C].
  assert (HLw : length Wt = length P) by lia.
  pose proof (wscale_dims Wt P HP) as HPw.
  pose proof (wscale_length Wt P HLw) as HLPw.
  assert (Hne : wscale Wt P <> []).
  { pose proof (wf_knpts_pos k W). destruct (wscale Wt P); [cbn in HLPw; lia | discriminate]. }
  pose proof (pdim_Forall _ d Hne HPw) as Hpd.
  pose proof (mat_apply_dims M _ d HPw Hpd) as HQ.
  unfold rational_spec. apply Forall2_Qeq_nth.
  - rewrite !map_length. reflexivity.
  - rewrite map_length, seq_length. intros kk Hkk.
    rewrite !nth_map_seq by exact Hkk.
    unfold rational_spec1, weight_spec.
    rewrite (C Wt u HWl Hu).
    rewrite (curve_spec1_ext _ _ _ _ u
               (coord_wunscale (mvec M Wt) (mat_apply M (wscale Wt P)) kk
                  ltac:(rewrite mvec_length, mat_apply_length; reflexivity) HQ Hkk Hnz)).
    rewrite (coord_insert (wscale Wt P) kk (eq_trans HLPw HL) HPw Hkk).
    rewrite <- (curve_spec1_ext _ _ _ _ u (coord_wscale Wt P kk HLw HP Hkk)).
    reflexivity.
Qed.
End Core.

(* ------------------------------------------------------------------ *)
(* D. on the curve objects                                             *)
(* ------------------------------------------------------------------ *)
Lemma c_knot_insert_inv c nodes c' :
  c_knot_insert c nodes = Ok c' ->
  exists k' M, kinsert (ckv c) nodes = Ok k' /\ knot_insert (ckv c) nodes = Ok M /\
               apply_matrix c k' M = Ok c'.
Proof.
  unfold c_knot_insert. intro H.
  destruct (kinsert (ckv c) nodes) as [k'|]; cbn [bind] in H; [|discriminate].
  destruct (knot_insert (ckv c) nodes) as [M|]; cbn [bind] in H; [|discriminate].
  exists k', M. repeat split. exact H.
Qed.

Theorem c_knot_insert_spline c nodes c' (P : list (list Q)) d u :
  c_knot_insert c nodes = Ok c' ->
  WF (kvec (ckv c)) (cdeg c) -> kdeg (ckv c') = cdeg c ->
  cP c = Some P -> cW c = None ->
  length P = cnpts c -> Forall (fun pt : list Q => length pt = d) P ->
  in_range (kvec (ckv c)) (cdeg c) u = true ->
  exists P', cP c' = Some P' /\ cW c' = None /\ length P' = cnpts c' /\
    Forall2 Qeq (curve_spec (kvec (ckv c')) (cdeg c) d P' u)
                (curve_spec (kvec (ckv c)) (cdeg c) d P u).
Proof.
  intros H W Hd HP HW HL HPd Hu. unfold cdeg, cnpts in *.
  destruct (c_knot_insert_inv c nodes c' H) as (k' & M & Hk & HM & Ha).
  unfold apply_matrix in Ha. rewrite HP, HW in Ha.
  destruct (Nat.eqb_spec (length M) (knpts k')) as [LM|LM]; cbn [negb] in Ha; [|discriminate].
  inversion Ha; subst c'. cbn [ckv cP cW option_map] in *.
  exists (mat_apply M P). repeat split.
  - rewrite mat_apply_length. exact LM.
  - apply (mat_apply_curve (ckv c) nodes M k' W HM Hk Hd d u Hu P HL HPd).
Qed.

Theorem c_knot_insert_rational c nodes c' (P : list (list Q)) (Wt : list Q) d u :
  c_knot_insert c nodes = Ok c' ->
  WF (kvec (ckv c)) (cdeg c) -> kdeg (ckv c') = cdeg c ->
  cP c = Some P -> cW c = Some Wt ->
  length P = cnpts c -> length Wt = cnpts c -> Forall (fun pt : list Q => length pt = d) P ->
  in_range (kvec (ckv c)) (cdeg c) u = true ->
  exists P' W', cP c' = Some P' /\ cW c' = Some W' /\
    length P' = cnpts c' /\ length W' = cnpts c' /\
    Forall2 Qeq (rational_spec (kvec (ckv c')) (cdeg c) d W' P' u)
                (rational_spec (kvec (ckv c)) (cdeg c) d Wt P u).
Proof.
  intros H W Hd HP HW HL HWl HPd Hu. unfold cdeg, cnpts in *.
  destruct (c_knot_insert_inv c nodes c' H) as (k' & M & Hk & HM & Ha).
  unfold apply_matrix in Ha. rewrite HP, HW in Ha.
  destruct (Nat.eqb_spec (length M) (knpts k')) as [LM|LM]; cbn [negb] in Ha; [|discriminate].
  cbv zeta in Ha.
  destruct (existsb (fun w => Qeqb w 0) (mvec M Wt)) eqn:Hnz; [discriminate|].
  inversion Ha; subst c'. cbn [ckv cP cW option_map] in *.
  exists (wunscale (mvec M Wt) (mat_apply M (wscale Wt P))), (mvec M Wt). repeat split.
  - unfold wunscale. rewrite map2_length, mvec_length, mat_apply_length, LM. apply Nat.min_id.
  - rewrite mvec_length. exact LM.
  - apply (apply_rational_curve (ckv c) nodes M k' W HM Hk Hd d u Hu Wt P HL HWl HPd Hnz).
Qed.

(* positive weights stay positive (so the weight function of the new curve is positive
   on the whole domain, weight_spec_pos) *)
Theorem c_knot_insert_weights_pos c nodes c' (Wt : list Q) :
  c_knot_insert c nodes = Ok c' ->
  WF (kvec (ckv c)) (cdeg c) -> cW c = Some Wt -> length Wt = cnpts c ->
  Forall (fun w => 0 < w) Wt ->
  exists W', cW c' = Some W' /\ Forall (fun w => 0 < w) W'.
Proof.
  intros H W HW HWl Hpos. unfold cdeg, cnpts in *.
  destruct (c_knot_insert_inv c nodes c' H) as (k' & M & Hk & HM & Ha).
  pose proof (knot_insert_pos (ckv c) nodes M Wt W HM HWl Hpos) as HP'.
  unfold apply_matrix in Ha. rewrite HW in Ha.
  destruct (cP c) as [P|];
    (destruct (negb (length M =? knpts k')%nat); [discriminate|]);
    cbv zeta in Ha;
    (destruct (existsb (fun w => Qeqb w 0) (mvec M Wt)); [discriminate|]);
    inversion Ha; subst c'; cbn [cW]; exists (mvec M Wt); split; [reflexivity | exact HP' | reflexivity | exact HP'].
Qed.

(* non-vacuity: a rational curve of degree 2 in dimension 2, nodes with a repetition *)
Definition ex_nodes : list Q := [1#4; 1#2; 1#4].

Example ex_insert_ok :
  match c_knot_insert ex_curve ex_nodes with
  | Ok c' => Nat.eqb (kdeg (ckv c')) (cdeg ex_curve)
             && ql_eqb (kvec (ckv c')) [0; 0; 0; 1#4; 1#4; 1#2; 1#2; 1; 1; 1]
  | Err _ => false
  end = true.
Proof. vm_compute. reflexivity. Qed.

Example ex_insert_rational :
  exists c' P' W', c_knot_insert ex_curve ex_nodes = Ok c' /\
    cP c' = Some P' /\ cW c' = Some W' /\
    Forall2 Qeq (rational_spec (kvec (ckv c')) 2 2 W' P' 1)
                (rational_spec (kvec ex_kv) 2 2 ex_W ex_P 1) /\
    Forall2 Qeq (rational_spec (kvec (ckv c')) 2 2 W' P' (1#3))
                (rational_spec (kvec ex_kv) 2 2 ex_W ex_P (1#3)).
Proof.
  destruct ex_hyps as (W & _ & _ & HPl & HPd & _ & HWl & _ & _).
  pose proof ex_insert_ok as E.
  destruct (c_knot_insert ex_curve ex_nodes) as [c'|] eqn:Hc; [|discriminate].
  apply andb_true_iff in E. destruct E as [E _]. apply Nat.eqb_eq in E.
  destruct (c_knot_insert_rational ex_curve ex_nodes c' ex_P ex_W 2 1 Hc W E eq_refl eq_refl
              HPl HWl HPd eq_refl) as (P' & W' & HP' & HW' & _ & _ & H1).
  destruct (c_knot_insert_rational ex_curve ex_nodes c' ex_P ex_W 2 (1#3) Hc W E eq_refl eq_refl
              HPl HWl HPd eq_refl) as (P'' & W'' & HP'' & HW'' & _ & _ & H2).
  rewrite HP' in HP''. rewrite HW' in HW''. inversion HP''; inversion HW''; subst P'' W''.
  exists c', P', W'. repeat split; assumption.
Qed.

Print Assumptions c_knot_insert_spline.
Print Assumptions c_knot_insert_rational.
Print Assumptions c_knot_insert_weights_pos.
Print Assumptions ex_insert_rational.
