(* L3: composition of Boehm insertions: one_knot_insert (x repeated) and knot_insert (several nodes). *)
From Coq Require Import QArith List Lia Lqa Arith Bool Setoid Morphisms.
From Coq Require Import Sorting.Permutation.
From NurbsV Require Import Base.QList Base.Res Spec.BSpline Spec.KnotSpec Model.KV Model.Ops
  Proofs.Local Proofs.Table Proofs.BasisTheory Proofs.Boehm Proofs.KVProofs Proofs.EvalProofs
  Proofs.InsertSeq Proofs.InsertList.
Import ListNotations.
Open Scope Q_scope.

(* ------------------------------------------------------------------ *)
(* A. matrix algebra on lists of rows                                  *)
(* ------------------------------------------------------------------ *)
(* pointwise equality of coefficient lists, as read by curve_spec1 *)
Definition nth_eq (A B : list Q) : Prop := forall i, nth i A 0 == nth i B 0.

Lemma curve_spec1_ext U p A B u : nth_eq A B -> curve_spec1 U p A u == curve_spec1 U p B u.
Proof.
  intro H. unfold curve_spec1. apply qsum_map_ext. intros i _. rewrite (H i). reflexivity.
Qed.

Lemma qsum_all_zero (l : list Q) : (forall y, In y l -> y == 0) -> qsum l == 0.
Proof.
  induction l as [|a l IH]; intro H; cbn [qsum]; [reflexivity|].
  rewrite (H a) by (left; reflexivity). rewrite IH by (intros; apply H; right; assumption). ring.
Qed.

(* dot as an index sum, any bound N above the shorter length *)
Lemma map2_nth_overflow (r v : list Q) i :
  (Nat.min (length r) (length v) <= i)%nat -> nth i r 0 * nth i v 0 == 0.
Proof.
  intro H. destruct (le_lt_dec (length r) i) as [L|L].
  - rewrite (nth_overflow r 0 L). ring.
  - rewrite (nth_overflow v 0) by lia. ring.
Qed.

Lemma qsum_map2_nth : forall (r v : list Q),
  qsum (map2 (fun x y => x * y) r v)
  == qsum (map (fun i => nth i r 0 * nth i v 0) (seq 0 (Nat.min (length r) (length v)))).
Proof.
  induction r as [|x r IH]; intros [|y v]; cbn [map2 length Nat.min seq map qsum]; try reflexivity.
  rewrite <- seq_shift, map_map. cbn [nth]. rewrite IH. reflexivity.
Qed.

Lemma dot_nth (r v : list Q) N : (Nat.min (length r) (length v) <= N)%nat ->
  dot r v == qsum (map (fun i => nth i r 0 * nth i v 0) (seq 0 N)).
Proof.
  intro H. rewrite dot_correct, qsum_map2_nth.
  replace N with (Nat.min (length r) (length v) + (N - Nat.min (length r) (length v)))%nat at 1 by lia.
  rewrite seq_app, map_app, qsum_app. cbn [Nat.add].
  rewrite (qsum_map_zero _ (seq (Nat.min (length r) (length v)) _)).
  - ring.
  - intros i Hi. apply in_seq in Hi. apply map2_nth_overflow. lia.
Qed.

Lemma qsum_swap (f : nat -> nat -> Q) l2 : forall l1,
  qsum (map (fun j => qsum (map (fun k => f j k) l2)) l1)
  == qsum (map (fun k => qsum (map (fun j => f j k) l1)) l2).
Proof.
  induction l1 as [|a l1 IH]; cbn [map qsum].
  - symmetry. apply qsum_map_zero. intros; reflexivity.
  - rewrite IH. rewrite <- (qsum_map_add (fun k => f a k) (fun k => qsum (map (fun j => f j k) l1))).
    reflexivity.
Qed.

Lemma mcol_nth j (b : mat) k : nth k (mcol j b) 0 = nth j (nth k b []) 0.
Proof.
  unfold mcol. destruct (le_lt_dec (length b) k) as [L|L].
  - rewrite (nth_overflow b [] L). rewrite nth_overflow by (rewrite map_length; exact L).
    destruct j; reflexivity.
  - apply (nth_map_in (fun r => nth j r 0) [] 0). exact L.
Qed.

Lemma mvec_nth (b : mat) P k : nth k (mvec b P) 0 == dot (nth k b []) P.
Proof.
  unfold mvec. destruct (le_lt_dec (length b) k) as [L|L].
  - rewrite (nth_overflow b [] L). rewrite nth_overflow by (rewrite map_length; exact L).
    reflexivity.
  - rewrite (nth_map_in (fun r => dot r P) [] 0) by exact L. reflexivity.
Qed.

Lemma mmul_length a b : length (mmul a b) = length a.
Proof. unfold mmul, mmul_n. apply map_length. Qed.

Lemma mmul_rows a b : Forall (fun r => length r = mcols b) (mmul a b).
Proof.
  unfold mmul, mmul_n. apply Forall_forall. intros r Hr. apply in_map_iff in Hr.
  destruct Hr as (r0 & E & _). rewrite <- E. rewrite map_length, seq_length. reflexivity.
Qed.

Lemma mcols_rows (b : mat) m : b <> [] -> Forall (fun r => length r = m) b -> mcols b = m.
Proof. intros Hne H. destruct b as [|r b]; [congruence|]. inversion H; subst. reflexivity. Qed.

Lemma Forall_nth_len (b : mat) m k : Forall (fun r => length r = m) b -> (k < length b)%nat ->
  length (nth k b []) = m.
Proof. intros H Hk. exact (proj1 (Forall_nth _ b) H k [] Hk). Qed.

Theorem mvec_mmul a b P m :
  b <> [] -> Forall (fun r => length r = m) b -> length P = m ->
  nth_eq (mvec (mmul a b) P) (mvec a (mvec b P)).
Proof.
  intros Hne Hb HP i.
  unfold mmul. rewrite (mcols_rows b m Hne Hb).
  destruct (le_lt_dec (length a) i) as [L|L].
  - rewrite !nth_overflow; [reflexivity | |]; unfold mvec, mmul_n; rewrite ?map_length; exact L.
  - rewrite !mvec_nth. unfold mmul_n.
    rewrite (nth_map_in (fun r => map (fun j => dot r (mcol j b)) (seq 0 m)) [] []) by exact L.
    set (r := nth i a []).
    rewrite (dot_map_seq (fun j => dot r (mcol j b)) m P HP).
    rewrite (dot_nth r (mvec b P) (length b)) by (rewrite mvec_length; lia).
    (* both sides as double sums *)
    rewrite (qsum_map_ext (fun c => dot r (mcol c b) * nth c P 0)
      (fun j => qsum (map (fun k => nth k r 0 * nth j (nth k b []) 0 * nth j P 0) (seq 0 (length b))))).
    2:{ intros j _. rewrite (dot_nth r (mcol j b) (length b))
          by (unfold mcol; rewrite map_length; lia).
        rewrite Qmult_comm.
        rewrite <- (qsum_map_scale (nth j P 0) (fun i => nth i r 0 * nth i (mcol j b) 0)).
        apply qsum_map_ext. intros k _. rewrite mcol_nth. ring. }
    rewrite (qsum_map_ext (fun k => nth k r 0 * nth k (mvec b P) 0)
      (fun k => qsum (map (fun j => nth k r 0 * nth j (nth k b []) 0 * nth j P 0) (seq 0 m)))).
    2:{ intros k Hk. apply in_seq in Hk. rewrite mvec_nth.
        rewrite (dot_nth (nth k b []) P m) by (rewrite HP; lia).
        rewrite <- (qsum_map_scale (nth k r 0) (fun i => nth i (nth k b []) 0 * nth i P 0)).
        apply qsum_map_ext. intros j _. ring. }
    apply (qsum_swap (fun j k => nth k r 0 * nth j (nth k b []) 0 * nth j P 0)).
Qed.

Lemma ident_length n : length (ident n) = n.
Proof. unfold ident. rewrite map_length, seq_length. reflexivity. Qed.

Lemma ident_rows n : Forall (fun r => length r = n) (ident n).
Proof.
  unfold ident. apply Forall_forall. intros r Hr. apply in_map_iff in Hr.
  destruct Hr as (i & E & _). rewrite <- E. rewrite map_length, seq_length. reflexivity.
Qed.

Theorem mvec_ident n P : length P = n -> nth_eq (mvec (ident n) P) P.
Proof.
  intros HP i. destruct (le_lt_dec n i) as [L|L].
  - rewrite !nth_overflow; [reflexivity | lia |].
    rewrite mvec_length, ident_length. exact L.
  - unfold mvec, ident. rewrite map_map. rewrite nth_map_seq by exact L.
    rewrite (dot_map_seq (fun j => if Nat.eqb i j then 1 else 0) n P HP).
    rewrite (qsum_map_ext _ (fun c => delta c i * nth c P 0)).
    + apply qsum_delta0. exact L.
    + intros c _. unfold delta. rewrite (Nat.eqb_sym i c). reflexivity.
Qed.

(* ------------------------------------------------------------------ *)
(* B. what a successful single [kinsert k [x]] tells                   *)
(* ------------------------------------------------------------------ *)
Lemma insr_In_x x l : In x (insr x l).
Proof.
  induction l as [|a l IH]; cbn [insr]; [left; reflexivity|].
  destruct (Qltb x a); [left; reflexivity | right; exact IH].
Qed.

Lemma insr_first x l : l <> [] -> first_q l <= x -> first_q (insr x l) = first_q l.
Proof.
  destruct l as [|a l]; [congruence|]. intros _ H. unfold first_q in *. cbn [nth] in H.
  cbn [insr]. assert (E : Qltb x a = false) by (apply Qltb_ge; exact H). rewrite E. reflexivity.
Qed.

Lemma wf_nonempty U p : WF U p -> U <> [].
Proof. intro W. pose proof (sf_len U p W). destruct U; [cbn in H; lia | discriminate]. Qed.

Lemma wf_first_umin U p : WF U p -> first_q U == umin_of U p.
Proof.
  intro W. pose proof (sf_len U p W). rewrite first_q_nthq by lia. unfold umin_of.
  symmetry. apply (wf_first_block U p W). lia.
Qed.

Lemma wf_last_umax U p : WF U p -> last_q U == umax_of U p.
Proof.
  intro W. unfold umax_of. symmetry. apply (wf_last_block U p W). lia.
Qed.

Lemma insr_last_q U p x : WF U p -> x < umax_of U p -> last_q (insr x U) = last_q U.
Proof.
  intros W Hx. unfold last_q. apply insr_last.
  rewrite (last_default_indep U x 0 (wf_nonempty U p W)).
  pose proof (wf_last_umax U p W) as E. unfold last_q in E. lra.
Qed.

Lemma in_range_bounds U p x : in_range U p x = true -> umin_of U p <= x /\ x <= umax_of U p.
Proof.
  unfold in_range. intro H. apply andb_true_iff in H. destruct H as [A B].
  split; [apply Qleb_le, A | apply Qleb_le, B].
Qed.

Lemma make_none_inv v k : make v None = Ok k -> k = mkkv v (infer_deg v) /\ WF v (infer_deg v).
Proof.
  intro H. pose proof (make_wf v None k H) as W. unfold make in H.
  destruct (is_valid v None); [|discriminate]. inversion H; subst k. cbn [kvec kdeg] in W.
  split; [reflexivity | exact W].
Qed.

Lemma kinsert_single kc x k2 :
  WF (kvec kc) (kdeg kc) -> kinsert kc [x] = Ok k2 ->
  in_range (kvec kc) (kdeg kc) x = true /\ ~ x == umax_of (kvec kc) (kdeg kc) /\
  kdeg k2 = kdeg kc /\ kvec k2 = ins_kv (kvec kc) x.
Proof.
  intros W H. unfold kinsert in H. cbn [kvalid forallb] in H. rewrite andb_true_r in H.
  destruct (kvalid1 kc x) eqn:Hv; [|discriminate].
  rewrite kvalid1_in_range in Hv.
  destruct (make_none_inv _ _ H) as [Ek Wv]. clear H.
  set (U := kvec kc) in *. set (p := kdeg kc) in *.
  destruct (wf_parts U p W) as (Hsrt & Hlen & Hf & Hl).
  rewrite (sortq_app_single x U Hsrt) in *.
  set (d := infer_deg (insr x U)) in *.
  destruct (wf_parts _ _ Wv) as (_ & _ & Hf' & Hl').
  destruct (in_range_bounds U p x Hv) as [B1 B2].
  pose proof (wf_first_umin U p W) as Fu. pose proof (wf_last_umax U p W) as Lu.
  pose proof (wf_umin_lt_umax U p W) as Hlt.
  rewrite (insr_first x U (wf_nonempty U p W)) in Hf' by lra.
  rewrite count_q_insr, Hf in Hf'.
  assert (Hfx : Qeqb (first_q U) x = true -> x == umin_of U p).
  { intro E. apply Qeqb_eq in E. rewrite <- E. exact Fu. }
  assert (Hnx : ~ x == umax_of U p).
  { intro E.
    pose proof (wf_forall _ _ Wv x (insr_In_x x U)) as Hc.
    rewrite count_q_insr in Hc.
    assert (E1 : Qeqb x x = true) by (apply Qeqb_eq; reflexivity). rewrite E1 in Hc.
    assert (E2 : count_q x U = (p + 1)%nat).
    { rewrite <- Hl. apply count_q_proper. rewrite E. symmetry. exact Lu. }
    destruct (Qeqb (first_q U) x) eqn:E3.
    - specialize (Hfx eq_refl). lra.
    - lia. }
  repeat split.
  - exact Hv.
  - exact Hnx.
  - rewrite Ek. cbn [kdeg]. fold d.
    rewrite (insr_last_q U p x W) in Hl' by lra.
    rewrite count_q_insr, Hl in Hl'.
    destruct (Qeqb_spec (last_q U) x) as [E|E]; [|lia].
    exfalso. apply Hnx. rewrite <- E. exact Lu.
  - rewrite Ek. cbn [kvec]. unfold ins_kv. symmetry. apply sortq_app_single. exact Hsrt.
Qed.

(* ------------------------------------------------------------------ *)
(* C. the invariant carried by the accumulated matrix                  *)
(* ------------------------------------------------------------------ *)
Definition inv (k0 : kv) (m : mat) (kc : kv) : Prop :=
  WF (kvec kc) (kdeg kc) /\ kdeg kc = kdeg k0 /\
  length m = knpts kc /\ Forall (fun r => length r = knpts k0) m /\
  (forall u, in_range (kvec kc) (kdeg kc) u = in_range (kvec k0) (kdeg k0) u) /\
  (forall P u, length P = knpts k0 -> in_range (kvec k0) (kdeg k0) u = true ->
     curve_spec1 (kvec kc) (kdeg kc) (mvec m P) u == curve_spec1 (kvec k0) (kdeg k0) P u) /\
  (forall Wv, length Wv = knpts k0 -> Forall (fun w => 0 < w) Wv ->
     forall i, (i < length m)%nat -> 0 < nth i (mvec m Wv) 0).

Lemma pos_Forall (l : list Q) : (forall i, (i < length l)%nat -> 0 < nth i l 0) -> Forall (fun w => 0 < w) l.
Proof.
  intro H. apply Forall_nth. intros i d Hi. rewrite (nth_indep l d 0 Hi). apply H, Hi.
Qed.

Lemma wf_knpts_pos k : WF (kvec k) (kdeg k) -> (0 < knpts k)%nat.
Proof. intro W. pose proof (sf_len _ _ W). unfold knpts. lia. Qed.

Lemma inv_refl k : WF (kvec k) (kdeg k) -> inv k (ident (knpts k)) k.
Proof.
  intro W. unfold inv. repeat split.
  - exact W.
  - apply ident_length.
  - apply ident_rows.
  - intros P u HP _. apply curve_spec1_ext. apply mvec_ident. exact HP.
  - intros Wv HL HW i Hi. rewrite ident_length in Hi.
    rewrite (mvec_ident (knpts k) Wv HL i). apply Forall_pos_nth; [exact HW | lia].
Qed.

Lemma inv_trans k0 m kc inc k' : inv k0 m kc -> inv kc inc k' -> inv k0 (mmul inc m) k'.
Proof.
  intros (W1 & D1 & L1 & R1 & I1 & C1 & P1) (W2 & D2 & L2 & R2 & I2 & C2 & P2).
  assert (Hne : m <> []).
  { pose proof (wf_knpts_pos kc W1). destruct m; [cbn in L1; lia | discriminate]. }
  unfold inv. repeat split.
  - exact W2.
  - congruence.
  - rewrite mmul_length. exact L2.
  - rewrite <- (mcols_rows m (knpts k0) Hne R1). apply mmul_rows.
  - intro u. rewrite I2. apply I1.
  - intros P u HP Hu.
    rewrite (curve_spec1_ext _ _ _ _ u (mvec_mmul inc m P (knpts k0) Hne R1 HP)).
    rewrite (C2 (mvec m P) u).
    + apply C1; assumption.
    + rewrite mvec_length. exact L1.
    + rewrite I1. exact Hu.
  - intros Wv HL HW i Hi. rewrite mmul_length in Hi.
    rewrite (mvec_mmul inc m Wv (knpts k0) Hne R1 HL i).
    apply P2; [rewrite mvec_length; exact L1 | | exact Hi].
    apply pos_Forall. intros j Hj. rewrite mvec_length in Hj. apply P1; assumption.
Qed.

Lemma ins_matrix_rows U p n s x : Forall (fun r => length r = n) (ins_matrix U p n s x).
Proof.
  unfold ins_matrix. apply Forall_forall. intros r Hr. apply in_map_iff in Hr.
  destruct Hr as (i & E & _). rewrite <- E. rewrite map_length, seq_length. reflexivity.
Qed.

Lemma ins_kv_in_range U p x s u :
  WF U p -> in_range U p x = true -> ~ x == umax_of U p -> span_ok U p x s = true ->
  in_range (ins_kv U x) p u = in_range U p u.
Proof.
  intros W Hr Hx Hs. destruct (oi_facts U p W x s Hr Hx Hs) as (A & B & C & D & E).
  unfold in_range, umin_of, umax_of.
  rewrite !(ins_kv_nthq U p W x s Hr Hx Hs).
  rewrite V_le by lia.
  rewrite (ins_kv_length U p W x).
  replace (S (length U) - p - 1)%nat with (S (npts_of U p)) by (unfold npts_of in *; lia).
  rewrite (ins_top U p W x s Hr Hx Hs). reflexivity.
Qed.

Lemma once_inv kc x inc :
  one_knot_insert_once kc x = Ok inc ->
  exists s, kspan kc x = Ok s /\ inc = ins_matrix (kvec kc) (kdeg kc) (knpts kc) s x.
Proof.
  unfold one_knot_insert_once. intro H.
  destruct (negb (in_closed kc x)); [discriminate|].
  destruct (kspan kc x) as [s|] eqn:E; cbn [bind] in H; [|discriminate].
  inversion H. exists s. split; reflexivity.
Qed.

Lemma inv_single kc x inc k2 :
  WF (kvec kc) (kdeg kc) -> one_knot_insert_once kc x = Ok inc -> kinsert kc [x] = Ok k2 ->
  inv kc inc k2.
Proof.
  intros W Ho Hk.
  destruct (once_inv kc x inc Ho) as (s & Hs & Einc).
  pose proof (kspan_sound kc x s Hs) as Hok.
  destruct (kinsert_single kc x k2 W Hk) as (Hr & Hx & Hd & Hv).
  pose proof (kinsert_wf kc [x] k2 Hk) as W2.
  unfold inv. repeat split.
  - exact W2.
  - exact Hd.
  - rewrite Einc, ins_matrix_length. unfold knpts. rewrite Hd, Hv.
    pose proof (ins_kv_npts (kvec kc) (kdeg kc) W x) as E. unfold npts_of in E. rewrite E.
    reflexivity.
  - rewrite Einc. apply ins_matrix_rows.
  - intro u. rewrite Hd, Hv. apply (ins_kv_in_range _ _ x s u W Hr Hx Hok).
  - intros P u HP Hu. rewrite Hd, Hv, Einc.
    apply (insert_once_curve (kvec kc) (kdeg kc) W x s Hr Hx Hok P HP u Hu).
  - intros Wv HL HW i Hi. rewrite Einc in *. rewrite ins_matrix_length in Hi.
    apply (ins_matrix_pos (kvec kc) (kdeg kc) x s Wv W Hr Hx Hok HL HW). unfold knpts, npts_of in *. lia.
Qed.

(* ------------------------------------------------------------------ *)
(* D. one_knot_insert and knot_insert                                  *)
(* ------------------------------------------------------------------ *)
Lemma loop_inv k0 x : forall times acc kc M kf,
  inv k0 acc kc -> one_knot_insert_loop times kc x acc = Ok (M, kf) -> inv k0 M kf.
Proof.
  induction times as [|t IH]; intros acc kc M kf Hi H; cbn [one_knot_insert_loop] in H.
  - inversion H; subst. exact Hi.
  - destruct (one_knot_insert_once kc x) as [inc|] eqn:E1; cbn [bind] in H; [|discriminate].
    destruct (kinsert kc [x]) as [k2|] eqn:E2; cbn [bind] in H; [|discriminate].
    apply (IH (mmul inc acc) k2 M kf); [|exact H].
    apply (inv_trans k0 acc kc inc k2 Hi).
    apply (inv_single kc x inc k2); [apply Hi | exact E1 | exact E2].
Qed.

Theorem one_knot_insert_inv k x times M kf :
  WF (kvec k) (kdeg k) -> one_knot_insert k x times = Ok (M, kf) -> inv k M kf.
Proof.
  intros W H. unfold one_knot_insert in H.
  destruct (negb (in_closed k x)); [discriminate|].
  destruct (times =? 0)%nat; [discriminate|].
  apply (loop_inv k x times (ident (knpts k)) k M kf); [apply inv_refl, W | exact H].
Qed.

(* the fold of knot_insert, keeping the final knot vector *)
Definition ki_step (nodes : list Q) (acc : res (mat * kv)) (x : Q) : res (mat * kv) :=
  do mk <- acc;
  let '(m, kc) := mk in
  do ik <- one_knot_insert kc x (count_q x nodes);
  let '(inc, k') := ik in
  Ok (mmul inc m, k').

Definition ki_nodes (k : kv) (nodes : list Q) : list Q :=
  filter (fun x => negb (Qeqb x (first_q (kvec k))) && negb (Qeqb x (last_q (kvec k))))
         (dedupq (sortq nodes)).

Definition knot_insert_full (k : kv) (nodes : list Q) : res (mat * kv) :=
  if negb (forallb (in_closed k) nodes) then Err AssertionError else
  fold_left (ki_step nodes) (ki_nodes k nodes) (Ok (ident (knpts k), k)).

Lemma knot_insert_full_fst k nodes :
  knot_insert k nodes = (do r <- knot_insert_full k nodes; Ok (fst r)).
Proof.
  unfold knot_insert, knot_insert_full.
  destruct (negb (forallb (in_closed k) nodes)); reflexivity.
Qed.

Lemma fold_inv k0 nodes : forall l init r,
  fold_left (ki_step nodes) l init = Ok r ->
  exists m kc, init = Ok (m, kc) /\ (inv k0 m kc -> inv k0 (fst r) (snd r)).
Proof.
  induction l as [|x l IH]; intros init r H; cbn [fold_left] in H.
  - destruct r as [m kc]. exists m, kc. split; [exact H | intro Hi; exact Hi].
  - destruct (IH _ _ H) as (m' & k'' & E & Himp).
    unfold ki_step in E.
    destruct init as [[m kc]|e]; cbn [bind] in E; [|discriminate].
    destruct (one_knot_insert kc x (count_q x nodes)) as [[inc k']|] eqn:E1; cbn [bind] in E;
      [|discriminate].
    inversion E; subst m' k''.
    exists m, kc. split; [reflexivity|]. intro Hi. apply Himp.
    apply (inv_trans k0 m kc inc k' Hi).
    apply (one_knot_insert_inv kc x (count_q x nodes) inc k'); [apply Hi | exact E1].
Qed.

Theorem knot_insert_full_inv k nodes M kf :
  WF (kvec k) (kdeg k) -> knot_insert_full k nodes = Ok (M, kf) -> inv k M kf.
Proof.
  intros W H. unfold knot_insert_full in H.
  destruct (negb (forallb (in_closed k) nodes)); [discriminate|].
  destruct (fold_inv k nodes _ _ _ H) as (m & kc & E & Himp).
  inversion E; subst m kc. apply (Himp (inv_refl k W)).
Qed.

(* L3a: the matrix returned by knot_insert preserves the curve, on the knot vector built
   by the successive insertions *)
Theorem knot_insert_curve_full k nodes M :
  WF (kvec k) (kdeg k) -> knot_insert k nodes = Ok M ->
  exists kf, knot_insert_full k nodes = Ok (M, kf) /\
    WF (kvec kf) (kdeg kf) /\ kdeg kf = kdeg k /\ length M = knpts kf /\
    (forall Wv, length Wv = knpts k -> Forall (fun w => 0 < w) Wv -> Forall (fun w => 0 < w) (mvec M Wv)) /\
    forall P u, length P = knpts k -> in_range (kvec k) (kdeg k) u = true ->
      curve_spec1 (kvec kf) (kdeg k) (mvec M P) u == curve_spec1 (kvec k) (kdeg k) P u.
Proof.
  intros W H. rewrite knot_insert_full_fst in H.
  destruct (knot_insert_full k nodes) as [[M' kf]|] eqn:E; cbn [bind fst] in H; [|discriminate].
  inversion H; subst M'. exists kf. split; [reflexivity|].
  destruct (knot_insert_full_inv k nodes M kf W E) as (W1 & D1 & L1 & R1 & I1 & C1 & P1).
  repeat split; try assumption.
  - intros Wv HL HW. apply pos_Forall. intros i Hi. rewrite mvec_length in Hi. apply P1; assumption.
  - intros P u HP Hu. rewrite <- D1 at 1. apply C1; assumption.
Qed.

(* ------------------------------------------------------------------ *)
(* E. the specification only sees the knots up to ==                   *)
(* ------------------------------------------------------------------ *)
Lemma ind0_knots_proper (U V : nat -> Q) n : (forall i, U i == V i) ->
  forall i u, ind0 U n i u = ind0 V n i u.
Proof.
  intros H i u. unfold ind0.
  rewrite (Qleb_proper _ _ (H i) u u (Qeq_refl u)).
  rewrite (Qltb_proper u u (Qeq_refl u) _ _ (H (S i))).
  rewrite (Qeqb_proper u u (Qeq_refl u) _ _ (H n)).
  rewrite (Qltb_proper _ _ (H i) u u (Qeq_refl u)).
  rewrite (Qeqb_proper _ _ (H (S i)) _ _ (H n)).
  reflexivity.
Qed.

Lemma N_knots_proper (U V : nat -> Q) n : (forall i, U i == V i) ->
  forall j i u, N U n j i u == N V n j i u.
Proof.
  intro H. induction j as [|j IH]; intros i u; cbn [N].
  - rewrite (ind0_knots_proper U V n H). reflexivity.
  - rewrite (IH i u), (IH (S i) u).
    rewrite (H i), (H (i + S j)%nat), (H (i + S j + 1)%nat), (H (i + 1)%nat). reflexivity.
Qed.

Lemma Forall2_Qeq_nth_d : forall (a b : list Q) d1 d2 i,
  Forall2 Qeq a b -> d1 == d2 -> nth i a d1 == nth i b d2.
Proof.
  intros a b d1 d2 i H. revert i. induction H as [|x y a b Hxy H IH]; intros i Hd.
  - destruct i; exact Hd.
  - destruct i as [|i]; cbn [nth]; [exact Hxy | apply IH, Hd].
Qed.

Lemma Forall2_Qeq_last : forall (a b : list Q) d1 d2,
  Forall2 Qeq a b -> d1 == d2 -> last a d1 == last b d2.
Proof.
  intros a b d1 d2 H Hd. induction H as [|x y a b Hxy H IH]; [exact Hd|].
  destruct H as [|x' y' a b Hxy' H]; [exact Hxy|].
  rewrite !last_cons2. exact IH.
Qed.

Lemma Forall2_Qeq_nthq a b : Forall2 Qeq a b -> forall i, nthq a i == nthq b i.
Proof.
  intros H i. unfold nthq. apply Forall2_Qeq_nth_d; [exact H|].
  apply Forall2_Qeq_last; [exact H | reflexivity].
Qed.

Lemma Forall2_Qeq_length (a b : list Q) : Forall2 Qeq a b -> length a = length b.
Proof. intro H. induction H; cbn [length]; [reflexivity | rewrite IHForall2; reflexivity]. Qed.

Theorem curve_spec1_knots_proper U1 U2 p P u :
  Forall2 Qeq U1 U2 -> curve_spec1 U1 p P u == curve_spec1 U2 p P u.
Proof.
  intro H. unfold curve_spec1, Nspec, npts_of.
  rewrite (Forall2_Qeq_length U1 U2 H).
  apply qsum_map_ext. intros i _.
  rewrite (N_knots_proper (nthq U1) (nthq U2) _ (Forall2_Qeq_nthq U1 U2 H)). reflexivity.
Qed.

(* ------------------------------------------------------------------ *)
(* F. sorted lists with the same counts are pointwise ==               *)
(* ------------------------------------------------------------------ *)
Lemma count_pos_In y : forall l, (0 < count_q y l)%nat -> exists z, In z l /\ y == z.
Proof.
  induction l as [|a l IH]; [cbn; lia|]. rewrite count_q_cons.
  destruct (Qeqb_spec y a) as [E|E].
  - intros _. exists a. split; [left; reflexivity | exact E].
  - cbn [Nat.add]. intro H. destruct (IH H) as (z & Hz & Ez).
    exists z. split; [right; exact Hz | exact Ez].
Qed.

Lemma count_q_self a l : (0 < count_q a (a :: l))%nat.
Proof.
  rewrite count_q_cons. assert (E : Qeqb a a = true) by (apply Qeqb_eq; reflexivity).
  rewrite E. lia.
Qed.

Lemma sorted_head_min a l y : sorted_b (a :: l) = true -> In y (a :: l) -> a <= y.
Proof.
  intros Hs [E|H]; [rewrite E; lra | exact (sorted_head_le a l Hs y H)].
Qed.

Theorem sorted_counts_Forall2 : forall l1 l2,
  sorted_b l1 = true -> sorted_b l2 = true ->
  (forall y, count_q y l1 = count_q y l2) -> Forall2 Qeq l1 l2.
Proof.
  induction l1 as [|a1 t1 IH]; intros [|a2 t2] S1 S2 Hc.
  - constructor.
  - exfalso. pose proof (Hc a2) as K. pose proof (count_q_self a2 t2). rewrite count_q_nil in K. lia.
  - exfalso. pose proof (Hc a1) as K. pose proof (count_q_self a1 t1). rewrite count_q_nil in K. lia.
  - assert (E : a1 == a2).
    { assert (L1 : a2 <= a1).
      { pose proof (count_q_self a1 t1) as K. rewrite (Hc a1) in K.
        destruct (count_pos_In a1 _ K) as (z & Hz & Ez).
        pose proof (sorted_head_min a2 t2 z S2 Hz). lra. }
      assert (L2 : a1 <= a2).
      { pose proof (count_q_self a2 t2) as K. rewrite <- (Hc a2) in K.
        destruct (count_pos_In a2 _ K) as (z & Hz & Ez).
        pose proof (sorted_head_min a1 t1 z S1 Hz). lra. }
      lra. }
    constructor; [exact E|].
    apply IH; [exact (sorted_b_tail a1 t1 S1) | exact (sorted_b_tail a2 t2 S2) |].
    intro y. pose proof (Hc y) as K. rewrite !count_q_cons in K.
    rewrite (Qeqb_proper y y (Qeq_refl y) a1 a2 E) in K. lia.
Qed.

Lemma count_q_perm y l l' : Permutation l l' -> count_q y l = count_q y l'.
Proof.
  intro H. induction H as [| a l l' H IH | a b l | l l' l'' H1 IH1 H2 IH2].
  - reflexivity.
  - rewrite !count_q_cons, IH. reflexivity.
  - rewrite !count_q_cons. lia.
  - rewrite IH1. exact IH2.
Qed.

Lemma count_q_app y l l' : count_q y (l ++ l') = (count_q y l + count_q y l')%nat.
Proof. unfold count_q. rewrite filter_app, app_length. reflexivity. Qed.

(* ------------------------------------------------------------------ *)
(* G. the knots built by the successive insertions                     *)
(* ------------------------------------------------------------------ *)
Definition cnt1 (y x : Q) : nat := if Qeqb y x then 1 else 0.

Lemma loop_counts x : forall times acc kc M kf,
  WF (kvec kc) (kdeg kc) -> one_knot_insert_loop times kc x acc = Ok (M, kf) ->
  WF (kvec kf) (kdeg kf) /\
  forall y, count_q y (kvec kf) = (count_q y (kvec kc) + times * cnt1 y x)%nat.
Proof.
  induction times as [|t IH]; intros acc kc M kf W H; cbn [one_knot_insert_loop] in H.
  - inversion H; subst. split; [exact W | intro y; lia].
  - destruct (one_knot_insert_once kc x) as [inc|] eqn:E1; cbn [bind] in H; [|discriminate].
    destruct (kinsert kc [x]) as [k2|] eqn:E2; cbn [bind] in H; [|discriminate].
    pose proof (kinsert_wf kc [x] k2 E2) as W2.
    destruct (kinsert_single kc x k2 W E2) as (_ & _ & _ & Hv).
    destruct (IH _ _ _ _ W2 H) as [Wf Hc]. split; [exact Wf|].
    intro y. rewrite Hc, Hv. unfold ins_kv.
    rewrite (sortq_app_single x (kvec kc)) by apply (wf_parts _ _ W).
    rewrite count_q_insr. unfold cnt1. lia.
Qed.

Lemma one_knot_insert_counts k x times M kf :
  WF (kvec k) (kdeg k) -> one_knot_insert k x times = Ok (M, kf) ->
  WF (kvec kf) (kdeg kf) /\
  forall y, count_q y (kvec kf) = (count_q y (kvec k) + times * cnt1 y x)%nat.
Proof.
  intros W H. unfold one_knot_insert in H.
  destruct (negb (in_closed k x)); [discriminate|].
  destruct (times =? 0)%nat; [discriminate|].
  exact (loop_counts x times _ k M kf W H).
Qed.

Fixpoint wsum (c : Q -> nat) (l : list Q) (y : Q) : nat :=
  match l with [] => 0 | x :: l' => c x * cnt1 y x + wsum c l' y end.

Lemma fold_counts nodes : forall l init r,
  fold_left (ki_step nodes) l init = Ok r ->
  exists m kc, init = Ok (m, kc) /\
    (WF (kvec kc) (kdeg kc) ->
     WF (kvec (snd r)) (kdeg (snd r)) /\
     forall y, count_q y (kvec (snd r))
               = (count_q y (kvec kc) + wsum (fun x => count_q x nodes) l y)%nat).
Proof.
  induction l as [|x l IH]; intros init r H; cbn [fold_left] in H.
  - destruct r as [m kc]. exists m, kc. split; [exact H|]. intro W. cbn [snd wsum].
    split; [exact W | intro y; lia].
  - destruct (IH _ _ H) as (m' & k'' & E & Himp).
    unfold ki_step in E.
    destruct init as [[m kc]|e]; cbn [bind] in E; [|discriminate].
    destruct (one_knot_insert kc x (count_q x nodes)) as [[inc k']|] eqn:E1; cbn [bind] in E;
      [|discriminate].
    inversion E; subst m' k''.
    exists m, kc. split; [reflexivity|]. intro W.
    destruct (one_knot_insert_counts kc x _ inc k' W E1) as [W' Hc'].
    destruct (Himp W') as [Wf Hcf]. split; [exact Wf|].
    intro y. rewrite Hcf, Hc'. cbn [wsum]. lia.
Qed.

(* dedupq keeps one representative of every class of a sorted list *)
Lemma wsum_dedupq (c : Q -> nat) :
  (forall a b, a == b -> c a = c b) ->
  forall S y, sorted_b S = true ->
  wsum c (dedupq S) y = if existsb (Qeqb y) S then c y else 0%nat.
Proof.
  intros Hc. induction S as [|a S IH]; intros y Hs; [reflexivity|].
  destruct S as [|b t].
  - cbn [dedupq wsum existsb]. unfold cnt1. rewrite orb_false_r.
    destruct (Qeqb_spec y a) as [E|E]; [rewrite (Hc y a E)|]; lia.
  - pose proof (sorted_b_tail a (b :: t) Hs) as Hs'.
    specialize (IH y Hs').
    change (dedupq (a :: b :: t)) with (if Qeqb a b then dedupq (b :: t) else a :: dedupq (b :: t)).
    change (existsb (Qeqb y) (a :: b :: t)) with (Qeqb y a || existsb (Qeqb y) (b :: t)).
    destruct (Qeqb_spec a b) as [Eab|Eab].
    + rewrite IH. cbn [existsb].
      rewrite (Qeqb_proper y y (Qeq_refl y) a b Eab).
      destruct (Qeqb y b); reflexivity.
    + cbn [wsum]. rewrite IH. unfold cnt1.
      destruct (Qeqb_spec y a) as [E|E]; cbn [orb].
      * (* y == a < b <= everything else *)
        assert (Hno : existsb (Qeqb y) (b :: t) = false).
        { destruct (existsb (Qeqb y) (b :: t)) eqn:Ex; [exfalso|reflexivity].
          apply existsb_exists in Ex. destruct Ex as (z & Hz & Ez). apply Qeqb_eq in Ez.
          pose proof (sorted_head_le a (b :: t) Hs z Hz).
          pose proof (sorted_head_le a (b :: t) Hs b (or_introl eq_refl)).
          pose proof (sorted_head_min b t z Hs' Hz).
          apply Eab. lra. }
        rewrite Hno. rewrite (Hc y a E). lia.
      * lia.
Qed.

Lemma wsum_filter (c : Q -> nat) (f : Q -> bool) y : forall l,
  (forall x, In x l -> f x = false -> c x = 0%nat) ->
  wsum c (filter f l) y = wsum c l y.
Proof.
  induction l as [|a l IH]; intro H; [reflexivity|]. cbn [filter].
  destruct (f a) eqn:E; cbn [wsum].
  - rewrite IH by (intros; apply H; [right|]; assumption). reflexivity.
  - rewrite IH by (intros; apply H; [right|]; assumption).
    rewrite (H a (or_introl eq_refl) E). lia.
Qed.

Lemma count_q_zero_notin y l : existsb (Qeqb y) l = false -> count_q y l = 0%nat.
Proof.
  induction l as [|a l IH]; [reflexivity|]. cbn [existsb]. intro H.
  apply orb_false_iff in H. destruct H as [A B]. rewrite count_q_cons, A, (IH B). reflexivity.
Qed.

Lemma existsb_perm y l l' : Permutation l l' -> existsb (Qeqb y) l = existsb (Qeqb y) l'.
Proof.
  intro H. induction H as [| a l l' H IH | a b l | l l' l'' H1 IH1 H2 IH2]; cbn [existsb].
  - reflexivity.
  - rewrite IH. reflexivity.
  - destruct (Qeqb y a), (Qeqb y b); reflexivity.
  - rewrite IH1. exact IH2.
Qed.

Lemma wsum_ki_nodes k nodes y :
  count_q (first_q (kvec k)) nodes = 0%nat -> count_q (last_q (kvec k)) nodes = 0%nat ->
  wsum (fun x => count_q x nodes) (ki_nodes k nodes) y = count_q y nodes.
Proof.
  intros Hf Hl. unfold ki_nodes.
  rewrite wsum_filter.
  - rewrite (wsum_dedupq (fun x => count_q x nodes)).
    + rewrite (existsb_perm y _ _ (sortq_perm nodes)).
      destruct (existsb (Qeqb y) nodes) eqn:E; [reflexivity|].
      symmetry. apply count_q_zero_notin, E.
    + intros a b E. apply count_q_proper, E.
    + apply sortq_sorted.
  - intros x _ Hx. apply andb_false_iff in Hx. destruct Hx as [Hx|Hx];
      apply negb_false_iff, Qeqb_eq in Hx.
    + rewrite (count_q_proper _ _ nodes Hx). exact Hf.
    + rewrite (count_q_proper _ _ nodes Hx). exact Hl.
Qed.

Lemma first_q_In (l : list Q) : l <> [] -> In (first_q l) l.
Proof. destruct l; [congruence|]. intros _. left. reflexivity. Qed.

Lemma last_q_In (l : list Q) : l <> [] -> In (last_q l) l.
Proof.
  intro H. unfold last_q. destruct (exists_last H) as (l' & a & E). rewrite E.
  rewrite last_last. apply in_or_app. right. left. reflexivity.
Qed.

(* a successful kinsert that keeps the degree has no node at an end of the vector *)
Lemma kinsert_no_ends k nodes k' :
  WF (kvec k) (kdeg k) -> kinsert k nodes = Ok k' -> kdeg k' = kdeg k ->
  kvec k' = sortq (kvec k ++ nodes) /\
  count_q (first_q (kvec k)) nodes = 0%nat /\ count_q (last_q (kvec k)) nodes = 0%nat.
Proof.
  intros W H Hd. unfold kinsert in H. destruct (kvalid k nodes); [|discriminate].
  destruct (make_none_inv _ _ H) as [Ek Wv].
  assert (Ev : kvec k' = sortq (kvec k ++ nodes)) by (rewrite Ek; reflexivity).
  assert (Ed : infer_deg (sortq (kvec k ++ nodes)) = kdeg k) by (rewrite <- Hd, Ek; reflexivity).
  rewrite Ed in Wv.
  destruct (wf_parts _ _ W) as (_ & _ & Hf & Hl).
  pose proof (wf_nonempty _ _ W) as Hne.
  split; [exact Ev|].
  assert (Hin : forall z, In z (kvec k) -> In z (sortq (kvec k ++ nodes))).
  { intros z Hz. apply (Permutation_in z (Permutation_sym (sortq_perm _))).
    apply in_or_app. left. exact Hz. }
  split.
  - pose proof (wf_forall _ _ Wv _ (Hin _ (first_q_In _ Hne))) as K.
    rewrite (count_q_perm _ _ _ (sortq_perm _)), count_q_app, Hf in K. lia.
  - pose proof (wf_forall _ _ Wv _ (Hin _ (last_q_In _ Hne))) as K.
    rewrite (count_q_perm _ _ _ (sortq_perm _)), count_q_app, Hl in K. lia.
Qed.

Theorem knot_insert_full_knots k nodes M kf k' :
  WF (kvec k) (kdeg k) -> knot_insert_full k nodes = Ok (M, kf) ->
  kinsert k nodes = Ok k' -> kdeg k' = kdeg k ->
  Forall2 Qeq (kvec kf) (kvec k').
Proof.
  intros W H Hk Hd.
  destruct (kinsert_no_ends k nodes k' W Hk Hd) as (Ev & Hf & Hl).
  unfold knot_insert_full in H.
  destruct (negb (forallb (in_closed k) nodes)); [discriminate|].
  destruct (fold_counts nodes _ _ _ H) as (m & kc & E & Himp).
  inversion E; subst m kc. destruct (Himp W) as [Wf Hc]. cbn [snd] in *.
  apply sorted_counts_Forall2.
  - apply (wf_parts _ _ Wf).
  - rewrite Ev. apply sortq_sorted.
  - intro y. rewrite Hc, (wsum_ki_nodes k nodes y Hf Hl), Ev.
    rewrite (count_q_perm _ _ _ (sortq_perm _)), count_q_app. reflexivity.
Qed.

(* L3: knot_insert against kinsert *)
Theorem knot_insert_curve k nodes M k' :
  WF (kvec k) (kdeg k) -> knot_insert k nodes = Ok M ->
  kinsert k nodes = Ok k' -> kdeg k' = kdeg k ->
  length M = knpts k' /\
  forall P u, length P = knpts k -> in_range (kvec k) (kdeg k) u = true ->
    curve_spec1 (kvec k') (kdeg k) (mvec M P) u == curve_spec1 (kvec k) (kdeg k) P u.
Proof.
  intros W H Hk Hd.
  destruct (knot_insert_curve_full k nodes M W H) as (kf & Hfull & Wf & Df & Lf & _ & Cf).
  pose proof (knot_insert_full_knots k nodes M kf k' W Hfull Hk Hd) as HF.
  split.
  - rewrite Lf. unfold knpts. rewrite (Forall2_Qeq_length _ _ HF), Df, Hd. reflexivity.
  - intros P u HP Hu. rewrite <- (Cf P u HP Hu).
    symmetry. apply curve_spec1_knots_proper. exact HF.
Qed.

Theorem knot_insert_pos k nodes M Wv :
  WF (kvec k) (kdeg k) -> knot_insert k nodes = Ok M ->
  length Wv = knpts k -> Forall (fun w => 0 < w) Wv -> Forall (fun w => 0 < w) (mvec M Wv).
Proof.
  intros W H. destruct (knot_insert_curve_full k nodes M W H) as (kf & _ & _ & _ & _ & Hp & _).
  apply Hp.
Qed.

(* one_knot_insert: x inserted [times] times *)
Theorem one_knot_insert_curve k x times M kf :
  WF (kvec k) (kdeg k) -> one_knot_insert k x times = Ok (M, kf) ->
  WF (kvec kf) (kdeg kf) /\ kdeg kf = kdeg k /\ length M = knpts kf /\
  (forall y, count_q y (kvec kf) = (count_q y (kvec k) + times * cnt1 y x)%nat) /\
  forall P u, length P = knpts k -> in_range (kvec k) (kdeg k) u = true ->
    curve_spec1 (kvec kf) (kdeg k) (mvec M P) u == curve_spec1 (kvec k) (kdeg k) P u.
Proof.
  intros W H.
  destruct (one_knot_insert_inv k x times M kf W H) as (W1 & D1 & L1 & R1 & I1 & C1 & _).
  destruct (one_knot_insert_counts k x times M kf W H) as [_ Hc].
  repeat split; try assumption.
  intros P u HP Hu. rewrite <- D1 at 1. apply C1; assumption.
Qed.

Print Assumptions knot_insert_curve_full.
Print Assumptions knot_insert_curve.
Print Assumptions knot_insert_pos.
Print Assumptions one_knot_insert_curve.
